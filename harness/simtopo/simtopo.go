// Package simtopo generates seeded multi-ISD SCION topologies for the verif
// harness: core ASes joined by a connected core mesh (also across ISDs), a
// provider→customer DAG below the cores with multi-homing, peering links
// (non-core↔non-core in the same or in different ISDs and, optionally,
// core↔non-core), parallel links between the same AS pair, 1–3 border routers
// per AS, a 16-byte master key per AS and per-link / per-AS MTUs.
//
// Everything is derived from the *rand.Rand (math/rand/v2) handed to Generate
// or Chain; no map iteration order influences the result, so the same PRNG
// state yields the same topology. The package imports only plain data types
// from scion (addr.IA, topology.LinkType).
package simtopo

import (
	"fmt"
	"math/rand/v2"
	"slices"
	"sort"

	"github.com/scionproto/scion/pkg/addr"
	"github.com/scionproto/scion/private/topology"
)

// Iface is one inter-AS interface as configured in the AS that owns it.
type Iface struct {
	// ID is the interface id, unique within the owning AS, never 0.
	ID uint16
	// LinkType is the link type from the owning AS's point of view
	// (topology.Core, Parent = "the remote is my provider", Child = "the remote
	// is my customer", Peer).
	LinkType topology.LinkType
	// RemoteIA is the AS at the other end of the link.
	RemoteIA addr.IA
	// RemoteID is the interface id of the link in RemoteIA.
	RemoteID uint16
	// BR is the index (0 ≤ BR < AS.NumBR) of the border router owning the interface.
	BR int
	// MTU is the link MTU (identical at both ends).
	MTU uint16
}

// AS is one autonomous system of a generated topology.
type AS struct {
	// IA is the ISD-AS identifier.
	IA addr.IA
	// Core says whether the AS is a core AS of its ISD.
	Core bool
	// Depth is 0 for core ASes and the DAG level (1…3) for non-core ASes;
	// providers of an AS always have a strictly smaller depth.
	Depth int
	// MasterKey is the 16-byte master secret (master0.key). The control
	// service's hop-field MAC factory is scrypto.HFMacFactory(MasterKey); a
	// router's hop key is router/control.DeriveHFMacKey(MasterKey).
	MasterKey []byte
	// MTU is the AS-internal MTU.
	MTU uint16
	// NumBR is the number of border routers (1…3); every router owns at least
	// one interface.
	NumBR int
	// Ifaces maps interface id → interface. Use IfIDs for a deterministic order.
	Ifaces map[uint16]*Iface
}

// IfIDs returns all interface ids of the AS in ascending order.
func (a *AS) IfIDs() []uint16 {
	ids := make([]uint16, 0, len(a.Ifaces))
	for id := range a.Ifaces {
		ids = append(ids, id)
	}
	slices.Sort(ids)
	return ids
}

// IfIDsOfType returns the ids of the interfaces with the given link type in
// ascending order (what beaconing's sortedIntfs yields).
func (a *AS) IfIDsOfType(lt topology.LinkType) []uint16 {
	var ids []uint16
	for _, id := range a.IfIDs() {
		if a.Ifaces[id].LinkType == lt {
			ids = append(ids, id)
		}
	}
	return ids
}

// IfIDsOfBR returns the ids of the interfaces owned by border router br in
// ascending order.
func (a *AS) IfIDsOfBR(br int) []uint16 {
	var ids []uint16
	for _, id := range a.IfIDs() {
		if a.Ifaces[id].BR == br {
			ids = append(ids, id)
		}
	}
	return ids
}

// Link is one physical inter-AS link, listed once. For parent-child links A is
// the provider; for core and peering links A is the end with the smaller
// (IA, interface id).
type Link struct {
	// A and B are the two ASes.
	A, B addr.IA
	// AID and BID are the interface ids in A and B.
	AID, BID uint16
	// TypeA is the link type seen from A (Core, Child or Peer).
	TypeA topology.LinkType
	// MTU is the link MTU.
	MTU uint16
}

// Topo is a generated topology.
type Topo struct {
	// ASes maps IA → AS. Use IAs for a deterministic order.
	ASes map[addr.IA]*AS
	// Family names the generator family: "multi" (Generate) or "chain" (Chain).
	Family string
}

// IAs returns all ASes sorted by IA.
func (t *Topo) IAs() []addr.IA {
	ias := make([]addr.IA, 0, len(t.ASes))
	for ia := range t.ASes {
		ias = append(ias, ia)
	}
	slices.Sort(ias)
	return ias
}

// CoreIAs returns the core ASes sorted by IA.
func (t *Topo) CoreIAs() []addr.IA {
	var out []addr.IA
	for _, ia := range t.IAs() {
		if t.ASes[ia].Core {
			out = append(out, ia)
		}
	}
	return out
}

// NonCoreIAs returns the non-core ASes sorted by (depth, IA), i.e. providers
// before their customers.
func (t *Topo) NonCoreIAs() []addr.IA {
	var out []addr.IA
	for _, ia := range t.IAs() {
		if !t.ASes[ia].Core {
			out = append(out, ia)
		}
	}
	sort.SliceStable(out, func(i, j int) bool { return t.ASes[out[i]].Depth < t.ASes[out[j]].Depth })
	return out
}

// ISDs returns the ISD numbers in ascending order.
func (t *Topo) ISDs() []addr.ISD {
	seen := map[addr.ISD]bool{}
	var out []addr.ISD
	for _, ia := range t.IAs() {
		if !seen[ia.ISD()] {
			seen[ia.ISD()] = true
			out = append(out, ia.ISD())
		}
	}
	slices.Sort(out)
	return out
}

// AS returns the AS with the given IA or nil.
func (t *Topo) AS(ia addr.IA) *AS { return t.ASes[ia] }

// Remote returns the far end (IA, interface id) of interface ifID of AS ia;
// ok is false if the interface does not exist.
func (t *Topo) Remote(ia addr.IA, ifID uint16) (rIA addr.IA, rID uint16, ok bool) {
	a := t.ASes[ia]
	if a == nil {
		return 0, 0, false
	}
	i := a.Ifaces[ifID]
	if i == nil {
		return 0, 0, false
	}
	return i.RemoteIA, i.RemoteID, true
}

// Links lists every physical link once, in deterministic order.
func (t *Topo) Links() []Link {
	var out []Link
	for _, ia := range t.IAs() {
		a := t.ASes[ia]
		for _, id := range a.IfIDs() {
			i := a.Ifaces[id]
			switch i.LinkType {
			case topology.Child:
				out = append(out, Link{A: ia, B: i.RemoteIA, AID: id, BID: i.RemoteID, TypeA: topology.Child, MTU: i.MTU})
			case topology.Core, topology.Peer:
				if ia < i.RemoteIA || (ia == i.RemoteIA && id < i.RemoteID) {
					out = append(out, Link{A: ia, B: i.RemoteIA, AID: id, BID: i.RemoteID, TypeA: i.LinkType, MTU: i.MTU})
				}
			}
		}
	}
	return out
}

// Validate checks the structural invariants: every interface has a non-zero
// id, a valid border router index, a remote that exists and points back with
// the complementary link type and the same MTU; core links join core ASes,
// parent/child links stay within an ISD and go from smaller to larger depth,
// core ASes have no parent links, every non-core AS has a parent, peering
// links involve at least one non-core AS, keys are 16 bytes and every border
// router owns an interface.
func (t *Topo) Validate() error {
	for _, ia := range t.IAs() {
		a := t.ASes[ia]
		if a.IA != ia {
			return fmt.Errorf("%s: IA field mismatch", ia)
		}
		if len(a.MasterKey) != 16 {
			return fmt.Errorf("%s: master key length %d", ia, len(a.MasterKey))
		}
		if a.MTU == 0 {
			return fmt.Errorf("%s: zero internal MTU", ia)
		}
		if a.NumBR < 1 || a.NumBR > 3 {
			return fmt.Errorf("%s: %d border routers", ia, a.NumBR)
		}
		if a.Core != (a.Depth == 0) {
			return fmt.Errorf("%s: core=%v depth=%d", ia, a.Core, a.Depth)
		}
		owned := make([]int, a.NumBR)
		parents := 0
		for _, id := range a.IfIDs() {
			i := a.Ifaces[id]
			if id == 0 || i.ID != id {
				return fmt.Errorf("%s#%d: bad interface id", ia, id)
			}
			if i.BR < 0 || i.BR >= a.NumBR {
				return fmt.Errorf("%s#%d: border router index %d", ia, id, i.BR)
			}
			owned[i.BR]++
			r := t.ASes[i.RemoteIA]
			if r == nil {
				return fmt.Errorf("%s#%d: unknown remote %s", ia, id, i.RemoteIA)
			}
			if i.RemoteIA == ia {
				return fmt.Errorf("%s#%d: self link", ia, id)
			}
			ri := r.Ifaces[i.RemoteID]
			if ri == nil {
				return fmt.Errorf("%s#%d: remote interface %s#%d missing", ia, id, i.RemoteIA, i.RemoteID)
			}
			if ri.RemoteIA != ia || ri.RemoteID != id {
				return fmt.Errorf("%s#%d: remote %s#%d does not point back", ia, id, i.RemoteIA, i.RemoteID)
			}
			if ri.MTU != i.MTU || i.MTU == 0 {
				return fmt.Errorf("%s#%d: link MTU %d vs %d", ia, id, i.MTU, ri.MTU)
			}
			switch i.LinkType {
			case topology.Core:
				if ri.LinkType != topology.Core || !a.Core || !r.Core {
					return fmt.Errorf("%s#%d: core link to %s not core-core", ia, id, i.RemoteIA)
				}
			case topology.Parent:
				parents++
				if ri.LinkType != topology.Child || a.Core || ia.ISD() != i.RemoteIA.ISD() || r.Depth >= a.Depth {
					return fmt.Errorf("%s#%d: bad parent link to %s", ia, id, i.RemoteIA)
				}
			case topology.Child:
				if ri.LinkType != topology.Parent || ia.ISD() != i.RemoteIA.ISD() || r.Depth <= a.Depth {
					return fmt.Errorf("%s#%d: bad child link to %s", ia, id, i.RemoteIA)
				}
			case topology.Peer:
				if ri.LinkType != topology.Peer || (a.Core && r.Core) {
					return fmt.Errorf("%s#%d: bad peering link to %s", ia, id, i.RemoteIA)
				}
			default:
				return fmt.Errorf("%s#%d: link type %v", ia, id, i.LinkType)
			}
		}
		if !a.Core && parents == 0 {
			return fmt.Errorf("%s: non-core AS without parent", ia)
		}
		for br, n := range owned {
			if n == 0 {
				return fmt.Errorf("%s: border router %d owns no interface", ia, br)
			}
		}
	}
	// Core connectivity.
	cores := t.CoreIAs()
	if len(cores) > 0 {
		seen := map[addr.IA]bool{cores[0]: true}
		todo := []addr.IA{cores[0]}
		for len(todo) > 0 {
			x := todo[0]
			todo = todo[1:]
			for _, id := range t.ASes[x].IfIDsOfType(topology.Core) {
				r := t.ASes[x].Ifaces[id].RemoteIA
				if !seen[r] {
					seen[r] = true
					todo = append(todo, r)
				}
			}
		}
		if len(seen) != len(cores) {
			return fmt.Errorf("core graph not connected: %d of %d reachable", len(seen), len(cores))
		}
	}
	return nil
}

// Params steers Generate. The zero value of a field means "use the default /
// let the PRNG choose".
type Params struct {
	// ISDs is the number of ISDs (1…3); 0 = PRNG-chosen.
	ISDs int
	// MaxCoresPerISD bounds the number of core ASes per ISD (1…3, default 3).
	MaxCoresPerISD int
	// MaxDepth bounds the depth of the provider→customer DAG (1…3, default 3).
	MaxDepth int
	// MaxASes bounds the total number of ASes (default 12, at least ISDs+1).
	MaxASes int
	// MinASes is a lower bound the generator tries to reach (default 4).
	MinASes int
	// MultiHomePct is the probability in percent that a non-core AS gets a
	// second provider (default 50).
	MultiHomePct int
	// PeerLinks is the number of peering links to try to add; -1 = none,
	// 0 = PRNG-chosen (about one per three non-core ASes, at least 1).
	PeerLinks int
	// CorePeering allows peering links between a core AS and a non-core AS
	// (the code base permits Peer links on core ASes: topology.IFInfo.CheckLinks).
	CorePeering bool
	// ParallelPct is the probability in percent, per link, of adding a
	// parallel link between the same AS pair (default 20; -1 = none).
	ParallelPct int
	// ExtraCoreLinkPct is the probability in percent, per core AS pair not on
	// the spanning tree, of an extra core mesh link (default 35; -1 = none).
	ExtraCoreLinkPct int
}

func (p Params) withDefaults(rng *rand.Rand) Params {
	if p.ISDs <= 0 {
		p.ISDs = 1 + rng.IntN(3)
	}
	p.ISDs = min(p.ISDs, 3)
	if p.MaxCoresPerISD <= 0 {
		p.MaxCoresPerISD = 3
	}
	p.MaxCoresPerISD = min(p.MaxCoresPerISD, 3)
	if p.MaxDepth <= 0 {
		p.MaxDepth = 3
	}
	p.MaxDepth = min(p.MaxDepth, 3)
	if p.MaxASes <= 0 {
		p.MaxASes = 12
	}
	p.MaxASes = max(p.MaxASes, p.ISDs+1)
	if p.MinASes <= 0 {
		p.MinASes = 4
	}
	p.MinASes = min(max(p.MinASes, p.ISDs+1), p.MaxASes)
	if p.MultiHomePct == 0 {
		p.MultiHomePct = 50
	}
	if p.ParallelPct == 0 {
		p.ParallelPct = 20
	}
	if p.ExtraCoreLinkPct == 0 {
		p.ExtraCoreLinkPct = 35
	}
	return p
}

type builder struct {
	pool  []addr.AS
	byISD map[addr.IA]bool
	rng   *rand.Rand
	t     *Topo
}

func (b *builder) pct(p int) bool { return p > 0 && b.rng.IntN(100) < p }

var mtuChoices = []uint16{1280, 1350, 1400, 1472, 1500, 2000, 4000, 9000}

func (b *builder) mtu() uint16 {
	if b.rng.IntN(4) == 0 {
		return uint16(1280 + b.rng.IntN(9000-1280))
	}
	return mtuChoices[b.rng.IntN(len(mtuChoices))]
}

func (b *builder) addAS(ia addr.IA, core bool, depth int) *AS {
	key := make([]byte, 16)
	for i := range key {
		key[i] = byte(b.rng.IntN(256))
	}
	a := &AS{IA: ia, Core: core, Depth: depth, MasterKey: key, MTU: b.mtu(), NumBR: 1, Ifaces: map[uint16]*Iface{}}
	b.t.ASes[ia] = a
	return a
}

// freshIfID draws an unused, non-zero interface id: small values, values
// around byte/word boundaries and arbitrary large ones.
func (b *builder) freshIfID(a *AS) uint16 {
	for {
		var id uint16
		switch b.rng.IntN(5) {
		case 0:
			id = uint16(1 + b.rng.IntN(16))
		case 1:
			id = []uint16{255, 256, 257, 0x7fff, 0x8000, 0xfffe, 0xffff, 1, 2, 1000}[b.rng.IntN(10)]
		case 2:
			id = uint16(0xff00 + b.rng.IntN(256))
		default:
			id = uint16(1 + b.rng.IntN(0xffff))
		}
		if id == 0 {
			continue
		}
		if _, used := a.Ifaces[id]; !used {
			return id
		}
	}
}

// link adds a link between x and y; lt is the type seen from x.
func (b *builder) link(x, y *AS, lt topology.LinkType) {
	var rt topology.LinkType
	switch lt {
	case topology.Core:
		rt = topology.Core
	case topology.Child:
		rt = topology.Parent
	case topology.Parent:
		rt = topology.Child
	default:
		rt = topology.Peer
	}
	xi, yi := b.freshIfID(x), b.freshIfID(y)
	m := b.mtu()
	x.Ifaces[xi] = &Iface{ID: xi, LinkType: lt, RemoteIA: y.IA, RemoteID: yi, MTU: m}
	y.Ifaces[yi] = &Iface{ID: yi, LinkType: rt, RemoteIA: x.IA, RemoteID: xi, MTU: m}
}

func (b *builder) linked(x, y *AS) bool {
	for _, i := range x.Ifaces {
		if i.RemoteIA == y.IA {
			return true
		}
	}
	return false
}

// assignBRs picks 1…3 border routers per AS and distributes the interfaces so
// that every router owns at least one.
func (b *builder) assignBRs() {
	for _, ia := range b.t.IAs() {
		a := b.t.ASes[ia]
		ids := a.IfIDs()
		a.NumBR = 1 + b.rng.IntN(3)
		if a.NumBR > len(ids) {
			a.NumBR = max(1, len(ids))
		}
		perm := b.rng.Perm(len(ids))
		for k, p := range perm {
			if k < a.NumBR {
				a.Ifaces[ids[p]].BR = k
			} else {
				a.Ifaces[ids[p]].BR = b.rng.IntN(a.NumBR)
			}
		}
	}
}

// asNumber draws AS numbers of both textual families (BGP-style decimal and
// ff00:0:xxx hexadecimal).
// asNumberIn draws an AS number for ISD isd: AS numbers are unique within an
// ISD only, so one third of the draws reuse a number that another ISD of the
// topology already has (1-ff00:0:a and 2-ff00:0:a are different ASes).
func (b *builder) asNumberIn(isd addr.ISD, used map[addr.AS]bool) addr.AS {
	if b.byISD == nil {
		b.byISD = map[addr.IA]bool{}
	}
	if len(b.pool) > 0 && b.rng.IntN(3) == 0 {
		for try := 0; try < 8; try++ {
			as := b.pool[b.rng.IntN(len(b.pool))]
			if !b.byISD[addr.MustIAFrom(isd, as)] {
				b.byISD[addr.MustIAFrom(isd, as)] = true
				return as
			}
		}
	}
	as := b.asNumber(used)
	b.byISD[addr.MustIAFrom(isd, as)] = true
	b.pool = append(b.pool, as)
	return as
}

func (b *builder) asNumber(used map[addr.AS]bool) addr.AS {
	for {
		var as addr.AS
		if b.rng.IntN(4) == 0 {
			as = addr.AS(64512 + b.rng.IntN(1000))
		} else {
			as = addr.AS(0xff00_0000_0000 | uint64(0x100+b.rng.IntN(0xe00)))
		}
		if !used[as] {
			used[as] = true
			return as
		}
	}
}

// Generate builds a multi-ISD topology from the PRNG and the parameters. The
// result always passes Validate.
func Generate(rng *rand.Rand, params Params) *Topo {
	p := params.withDefaults(rng)
	b := &builder{rng: rng, t: &Topo{ASes: map[addr.IA]*AS{}, Family: "multi"}}
	usedAS := map[addr.AS]bool{}

	// ISD numbers: distinct, mostly small.
	var isds []addr.ISD
	for len(isds) < p.ISDs {
		isd := addr.ISD(1 + rng.IntN(20))
		if rng.IntN(8) == 0 {
			isd = addr.ISD(1 + rng.IntN(0xfffe))
		}
		if !slices.Contains(isds, isd) {
			isds = append(isds, isd)
		}
	}

	// Core ASes.
	budget := p.MaxASes
	var cores []*AS
	coresOf := map[addr.ISD][]*AS{}
	for k, isd := range isds {
		n := 1 + rng.IntN(p.MaxCoresPerISD)
		// leave room for one core per remaining ISD and at least one non-core AS
		room := budget - (len(isds) - k - 1) - 1
		n = max(1, min(n, room))
		for j := 0; j < n; j++ {
			a := b.addAS(addr.MustIAFrom(isd, b.asNumberIn(isd, usedAS)), true, 0)
			cores = append(cores, a)
			coresOf[isd] = append(coresOf[isd], a)
			budget--
		}
	}
	// Core links: random spanning tree, extra mesh links.
	order := rng.Perm(len(cores))
	onTree := map[[2]int]bool{}
	for k := 1; k < len(order); k++ {
		j := order[rng.IntN(k)]
		b.link(cores[order[k]], cores[j], topology.Core)
		onTree[[2]int{min(order[k], j), max(order[k], j)}] = true
	}
	for i := 0; i < len(cores); i++ {
		for j := i + 1; j < len(cores); j++ {
			if !onTree[[2]int{i, j}] && b.pct(p.ExtraCoreLinkPct) {
				b.link(cores[i], cores[j], topology.Core)
			}
		}
	}

	// Non-core ASes: distribute the remaining budget over the ISDs.
	nonCoreTotal := 0
	if budget > 0 {
		lo := max(1, p.MinASes-len(cores))
		lo = min(lo, budget)
		nonCoreTotal = lo + rng.IntN(budget-lo+1)
	}
	perISD := make([]int, len(isds))
	for k := 0; k < nonCoreTotal; k++ {
		perISD[rng.IntN(len(isds))]++
	}
	var nonCores []*AS
	for k, isd := range isds {
		var members []*AS // all ASes of the ISD so far, cores first
		members = append(members, coresOf[isd]...)
		for j := 0; j < perISD[k]; j++ {
			// choose the first provider, which fixes the depth
			var cands []*AS
			for _, m := range members {
				if m.Depth < p.MaxDepth {
					cands = append(cands, m)
				}
			}
			// bias towards deeper providers so that depth-3 ASes are common
			prov := cands[rng.IntN(len(cands))]
			if rng.IntN(2) == 0 {
				prov2 := cands[rng.IntN(len(cands))]
				if prov2.Depth > prov.Depth {
					prov = prov2
				}
			}
			a := b.addAS(addr.MustIAFrom(isd, b.asNumberIn(isd, usedAS)), false, prov.Depth+1)
			b.link(prov, a, topology.Child)
			if b.pct(p.MultiHomePct) {
				var c2 []*AS
				for _, m := range members {
					if m.Depth < a.Depth && m != prov {
						c2 = append(c2, m)
					}
				}
				if len(c2) > 0 {
					b.link(c2[rng.IntN(len(c2))], a, topology.Child)
				}
			}
			members = append(members, a)
			nonCores = append(nonCores, a)
		}
	}

	// Peering links.
	nPeer := p.PeerLinks
	if nPeer == 0 {
		nPeer = max(1, len(nonCores)/3+rng.IntN(2))
	}
	for k := 0; k < nPeer && len(nonCores) > 0; k++ {
		for try := 0; try < 20; try++ {
			x := nonCores[rng.IntN(len(nonCores))]
			var y *AS
			if p.CorePeering && rng.IntN(4) == 0 {
				y = cores[rng.IntN(len(cores))]
			} else {
				y = nonCores[rng.IntN(len(nonCores))]
			}
			if x == y || b.linked(x, y) {
				continue
			}
			b.link(x, y, topology.Peer)
			break
		}
	}

	// Parallel links: duplicate existing links with fresh interface ids.
	for _, l := range b.t.Links() {
		if b.pct(p.ParallelPct) {
			b.link(b.t.ASes[l.A], b.t.ASes[l.B], l.TypeA)
		}
	}
	b.assignBRs()
	if err := b.t.Validate(); err != nil {
		panic("simtopo: generated topology invalid: " + err.Error())
	}
	return b.t
}

// Chain builds the degenerate family used for the SegID-accumulator checks:
// one core AS followed by n−1 nested customers (AS k+1 is the only customer of
// AS k), 2 ≤ n ≤ 64, a single ISD, no peering and no parallel links.
func Chain(rng *rand.Rand, n int) *Topo {
	n = min(max(n, 2), 64)
	b := &builder{rng: rng, t: &Topo{ASes: map[addr.IA]*AS{}, Family: "chain"}}
	usedAS := map[addr.AS]bool{}
	isd := addr.ISD(1 + rng.IntN(20))
	prev := b.addAS(addr.MustIAFrom(isd, b.asNumber(usedAS)), true, 0)
	for k := 1; k < n; k++ {
		// Depth is the chain position here (the ≤ 3 bound of the multi family
		// does not apply to chains).
		a := b.addAS(addr.MustIAFrom(isd, b.asNumber(usedAS)), false, k)
		b.link(prev, a, topology.Child)
		prev = a
	}
	b.assignBRs()
	if err := b.t.Validate(); err != nil {
		panic("simtopo: generated chain invalid: " + err.Error())
	}
	return b.t
}

// Fork builds a single-ISD topology with long segments that share most of
// their length: one core AS, a stem of `stem` nested customers, and below the
// last stem AS two branches of `a` and `b` nested customers. With peer set the
// two branches are joined by peering links between ASes of equal depth. Up
// segments of branch ASes have up to 1+stem+max(a,b) entries while the
// shortcut and peering paths between the branches need only a handful of hops.
func Fork(rng *rand.Rand, stem, a, b int, peer bool) *Topo {
	stem = min(max(stem, 1), 60)
	a, b = max(a, 1), max(b, 1)
	for 1+stem+max(a, b) > 64 {
		stem--
	}
	bl := &builder{rng: rng, t: &Topo{ASes: map[addr.IA]*AS{}, Family: "fork"}}
	usedAS := map[addr.AS]bool{}
	isd := addr.ISD(1 + rng.IntN(20))
	prev := bl.addAS(addr.MustIAFrom(isd, bl.asNumber(usedAS)), true, 0)
	for k := 1; k <= stem; k++ {
		x := bl.addAS(addr.MustIAFrom(isd, bl.asNumber(usedAS)), false, k)
		bl.link(prev, x, topology.Child)
		prev = x
	}
	var branches [2][]*AS
	for bi, n := range []int{a, b} {
		p := prev
		for k := 1; k <= n; k++ {
			x := bl.addAS(addr.MustIAFrom(isd, bl.asNumber(usedAS)), false, stem+k)
			bl.link(p, x, topology.Child)
			branches[bi] = append(branches[bi], x)
			p = x
		}
	}
	if peer {
		for k := 0; k < min(a, b); k++ {
			if k == 0 || rng.IntN(2) == 0 {
				bl.link(branches[0][k], branches[1][k], topology.Peer)
			}
		}
	}
	bl.assignBRs()
	if err := bl.t.Validate(); err != nil {
		panic("simtopo: generated fork invalid: " + err.Error())
	}
	return bl.t
}

// String renders the topology compactly (one line per link) for witnesses.
func (t *Topo) String() string {
	s := ""
	for _, l := range t.Links() {
		s += fmt.Sprintf("%s#%d %v %s#%d mtu=%d\n", l.A, l.AID, l.TypeA, l.B, l.BID, l.MTU)
	}
	return s
}
