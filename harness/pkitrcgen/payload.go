package pkitrcgen

import (
	"crypto/x509"
	"encoding/asn1"
	"time"

	"github.com/scionproto/scion/pkg/addr"
	"github.com/scionproto/scion/pkg/scrypto"
	"github.com/scionproto/scion/pkg/scrypto/cppki"
)

// Payload is the plan of one TRC payload, field by field as in the TRCPayload
// schema of doc/cryptography/trc.rst. All values are the *wire* values, so
// out-of-range content (negative quorum, version 7, ISD 0 ...) can be planned.
type Payload struct {
	Version      int64 // 0 = v1
	ISD          int64
	Serial       int64
	Base         int64
	NotBefore    time.Time
	NotAfter     time.Time
	GracePeriod  int64 // seconds
	NoTrustReset bool
	Votes        []int64
	Quorum       int64
	Core         []string
	Auth         []string
	Description  string
	Certs        []*Cert
}

// Clone returns a deep-enough copy (certificates are shared, slices are not).
func (p *Payload) Clone() *Payload {
	q := *p
	q.Votes = append([]int64(nil), p.Votes...)
	q.Core = append([]string(nil), p.Core...)
	q.Auth = append([]string(nil), p.Auth...)
	q.Certs = append([]*Cert(nil), p.Certs...)
	return &q
}

// IsBase reports serial == base.
func (p *Payload) IsBase() bool { return p.Serial == p.Base }

type wireID struct {
	ISD    int64
	Serial int64
	Base   int64
}

type wireValidity struct {
	NotBefore time.Time `asn1:"generalized"`
	NotAfter  time.Time `asn1:"generalized"`
}

type wirePayload struct {
	Version      int64
	ID           wireID
	Validity     wireValidity
	GracePeriod  int64
	NoTrustReset bool
	Votes        []int64
	Quorum       int64
	Core         []string
	Auth         []string
	Description  string `asn1:"utf8"`
	Certificates []asn1.RawValue
}

// DER encodes the payload with encoding/asn1 from the schema, without any
// validation.
func (p *Payload) DER() ([]byte, error) {
	w := wirePayload{
		Version:      p.Version,
		ID:           wireID{ISD: p.ISD, Serial: p.Serial, Base: p.Base},
		Validity:     wireValidity{NotBefore: p.NotBefore.UTC(), NotAfter: p.NotAfter.UTC()},
		GracePeriod:  p.GracePeriod,
		NoTrustReset: p.NoTrustReset,
		Votes:        append([]int64{}, p.Votes...),
		Quorum:       p.Quorum,
		Core:         append([]string{}, p.Core...),
		Auth:         append([]string{}, p.Auth...),
		Description:  p.Description,
	}
	w.Certificates = make([]asn1.RawValue, 0, len(p.Certs))
	for _, c := range p.Certs {
		w.Certificates = append(w.Certificates, asn1.RawValue{FullBytes: c.Raw})
	}
	return asn1.Marshal(w)
}

// Struct builds the in-memory cppki.TRC the plan denotes (no validation, no
// decoding by the code under test). ok is false when a planned value cannot be
// represented in the Go types (ISD > 65535, negative numbers in unsigned
// fields, unparsable AS text).
func (p *Payload) Struct(raw []byte) (trc cppki.TRC, ok bool) {
	if p.ISD < 0 || p.ISD > 65535 || p.Serial < 0 || p.Base < 0 {
		return cppki.TRC{}, false
	}
	ases := func(in []string) ([]addr.AS, bool) {
		out := make([]addr.AS, 0, len(in))
		for _, s := range in {
			v, ok := ParseASText(s)
			if !ok {
				return nil, false
			}
			out = append(out, addr.AS(v))
		}
		return out, true
	}
	core, ok1 := ases(p.Core)
	auth, ok2 := ases(p.Auth)
	if !ok1 || !ok2 {
		return cppki.TRC{}, false
	}
	votes := make([]int, 0, len(p.Votes))
	for _, v := range p.Votes {
		votes = append(votes, int(v))
	}
	certs := make([]*x509.Certificate, 0, len(p.Certs))
	for _, c := range p.Certs {
		certs = append(certs, c.X)
	}
	return cppki.TRC{
		Raw:     raw,
		Version: int(p.Version) + 1,
		ID: cppki.TRCID{ISD: addr.ISD(p.ISD), Serial: scrypto.Version(p.Serial),
			Base: scrypto.Version(p.Base)},
		Validity:          cppki.Validity{NotBefore: p.NotBefore, NotAfter: p.NotAfter},
		GracePeriod:       time.Duration(p.GracePeriod) * time.Second,
		NoTrustReset:      p.NoTrustReset,
		Votes:             votes,
		Quorum:            int(p.Quorum),
		CoreASes:          core,
		AuthoritativeASes: auth,
		Description:       p.Description,
		Certificates:      certs,
	}, true
}

// ParseASText is the generator's own reading of an AS number text: decimal up
// to 2^32-1 or three ':'-separated groups of 1-4 hex digits.
func ParseASText(s string) (uint64, bool) {
	if s == "" {
		return 0, false
	}
	groups := [][]byte{{}}
	for i := 0; i < len(s); i++ {
		if s[i] == ':' {
			groups = append(groups, []byte{})
			continue
		}
		groups[len(groups)-1] = append(groups[len(groups)-1], s[i])
	}
	switch len(groups) {
	case 1:
		var v uint64
		for _, c := range groups[0] {
			if c < '0' || c > '9' {
				return 0, false
			}
			v = v*10 + uint64(c-'0')
			if v > 1<<32-1 {
				return 0, false
			}
		}
		return v, true
	case 3:
		var v uint64
		for _, g := range groups {
			if len(g) == 0 || len(g) > 4 {
				return 0, false
			}
			var x uint64
			for _, c := range g {
				switch {
				case c >= '0' && c <= '9':
					x = x<<4 | uint64(c-'0')
				case c >= 'a' && c <= 'f':
					x = x<<4 | uint64(c-'a'+10)
				case c >= 'A' && c <= 'F':
					x = x<<4 | uint64(c-'A'+10)
				default:
					return 0, false
				}
			}
			v = v<<16 | x
		}
		return v, true
	}
	return 0, false
}
