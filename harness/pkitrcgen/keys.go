// Package pkitrcgen forges the cryptographic inputs of the pkitrc checks
// (C32, C33, C38): a key pool, X.509 certificates with the SCION profile
// (correctly and deliberately mis-issued), TRC payloads encoded from the
// schema in doc/cryptography/trc.rst and CMS SignedData with chosen
// SignerInfos. Nothing in here computes an accept/reject expectation and
// nothing in here calls the validation code under test.
package pkitrcgen

import (
	"crypto/ecdsa"
	"crypto/elliptic"
	"fmt"
	"math/big"
	"math/rand/v2"
)

// Curve selects one of the three curves of the SCION profile.
type Curve int

const (
	P256 Curve = iota
	P384
	P521
)

func (c Curve) String() string { return [...]string{"P256", "P384", "P521"}[c] }

// Elliptic returns the standard-library curve.
func (c Curve) Elliptic() elliptic.Curve {
	switch c {
	case P384:
		return elliptic.P384()
	case P521:
		return elliptic.P521()
	}
	return elliptic.P256()
}

// Key is one ECDSA key of the pool. ID is unique within the pool.
type Key struct {
	ID    int
	Curve Curve
	Priv  *ecdsa.PrivateKey
}

// KeyPool is generated once per run; keys are addressed by (curve, index) so
// that which key a certificate gets never depends on scheduling.
type KeyPool struct {
	by [3][]*Key
}

// NewKeyPool derives n[c] keys per curve from rng. The private scalars come
// from the seeded PRNG (crypto/ecdsa.GenerateKey ignores caller supplied
// readers), so the pool is the same for the same seed.
func NewKeyPool(rng *rand.Rand, n256, n384, n521 int) *KeyPool {
	p := &KeyPool{}
	id := 0
	for c, n := range []int{n256, n384, n521} {
		curve := Curve(c)
		ec := curve.Elliptic()
		size := (ec.Params().BitSize + 7) / 8
		nm1 := new(big.Int).Sub(ec.Params().N, big.NewInt(1))
		for i := 0; i < n; i++ {
			buf := make([]byte, size+8)
			for j := range buf {
				buf[j] = byte(rng.UintN(256))
			}
			d := new(big.Int).SetBytes(buf)
			d.Mod(d, nm1)
			d.Add(d, big.NewInt(1))
			priv, err := ecdsa.ParseRawPrivateKey(ec, d.FillBytes(make([]byte, size)))
			if err != nil {
				panic(fmt.Sprintf("pkitrcgen: key derivation: %v", err))
			}
			p.by[c] = append(p.by[c], &Key{ID: id, Curve: curve, Priv: priv})
			id++
		}
	}
	return p
}

// Key returns key number i (mod pool size) of the curve.
func (p *KeyPool) Key(c Curve, i int) *Key {
	l := p.by[c]
	return l[((i%len(l))+len(l))%len(l)]
}

// Len returns the number of keys of the curve.
func (p *KeyPool) Len(c Curve) int { return len(p.by[c]) }
