package pkitrcgen

import (
	"crypto"
	"crypto/ecdsa"
	"crypto/rand"
	_ "crypto/sha256"
	_ "crypto/sha512"
	"crypto/x509/pkix"
	"encoding/asn1"
	"fmt"
	"sort"
	"time"

	"github.com/scionproto/scion/pkg/scrypto/cms/oid"
	"github.com/scionproto/scion/pkg/scrypto/cms/protocol"
)

// Tamper selects how a produced signature is damaged after signing.
type Tamper string

const (
	TamperNone     Tamper = ""
	TamperFlipBit  Tamper = "flip-bit"  // one bit of the signature value
	TamperTruncate Tamper = "truncate"  // last byte dropped
	TamperExtend   Tamper = "extend"    // one byte appended
	TamperOtherMsg Tamper = "other-msg" // valid signature, but over other signed attributes
)

// SigSpec is the plan of one SignerInfo.
type SigSpec struct {
	// SID is the certificate named by the signer identifier.
	SID *Cert
	// Key signs; nil means the key certified by SID.
	Key *Key
	// Hash is the digest algorithm; 0 means the one matching the key's curve.
	Hash crypto.Hash
	// Tamper damages the signature value.
	Tamper Tamper
	// TamperPos selects the damaged bit (reduced modulo the length).
	TamperPos int
	// DigestOver, when non-nil, is the content the message-digest attribute is
	// computed over instead of the payload (a signature lifted from another TRC).
	DigestOver []byte
	// Lift plans, LiftSig carries a signature value lifted verbatim from a
	// SignerInfo of the same signer over another payload (one that a verifier
	// has already seen and accepted): the signed attributes are those for this
	// payload (message digest repointed), the signature value is the old one.
	Lift    bool
	LiftSig []byte
	// SKID uses the subjectKeyIdentifier choice (SignerInfo version 3).
	SKID bool
	// SigningTime is the value of the signing-time attribute.
	SigningTime time.Time
}

// SigningKey is the key that actually signs.
func (s SigSpec) SigningKey() *Key {
	if s.Key != nil {
		return s.Key
	}
	return s.SID.Spec.Key
}

// NaturalHash is the digest recommended for the curve.
func NaturalHash(c Curve) crypto.Hash {
	switch c {
	case P384:
		return crypto.SHA384
	case P521:
		return crypto.SHA512
	}
	return crypto.SHA256
}

func digestOID(h crypto.Hash) asn1.ObjectIdentifier {
	switch h {
	case crypto.SHA384:
		return oid.DigestAlgorithmSHA384
	case crypto.SHA512:
		return oid.DigestAlgorithmSHA512
	}
	return oid.DigestAlgorithmSHA256
}

func sigOID(h crypto.Hash) asn1.ObjectIdentifier {
	switch h {
	case crypto.SHA384:
		return oid.SignatureAlgorithmECDSAWithSHA384
	case crypto.SHA512:
		return oid.SignatureAlgorithmECDSAWithSHA512
	}
	return oid.SignatureAlgorithmECDSAWithSHA256
}

// SignerInfo produces the CMS SignerInfo planned by s over payload
// (RFC 5652 §5.3/§5.4: signature over the DER SET OF signed attributes that
// contain content-type, signing-time and message-digest).
func SignerInfo(payload []byte, s SigSpec) (protocol.SignerInfo, error) {
	key := s.SigningKey()
	h := s.Hash
	if h == 0 {
		h = NaturalHash(key.Curve)
	}
	si := protocol.SignerInfo{
		Version:            1,
		DigestAlgorithm:    pkix.AlgorithmIdentifier{Algorithm: digestOID(h)},
		SignatureAlgorithm: pkix.AlgorithmIdentifier{Algorithm: sigOID(h)},
	}
	if s.SKID {
		si.Version = 3
		si.SID = asn1.RawValue{Class: asn1.ClassContextSpecific, Tag: 0, Bytes: s.SID.X.SubjectKeyId}
	} else {
		sid, err := protocol.NewIssuerAndSerialNumber(s.SID.X)
		if err != nil {
			return si, err
		}
		si.SID = sid
	}
	content := payload
	if s.DigestOver != nil {
		content = s.DigestOver
	}
	md := h.New()
	md.Write(content)
	st := s.SigningTime
	if st.IsZero() {
		st = time.Date(2024, 5, 6, 7, 8, 9, 0, time.UTC)
	}
	stAttr, err := protocol.NewAttribute(oid.AttributeSigningTime, st.UTC())
	if err != nil {
		return si, err
	}
	mdAttr, err := protocol.NewAttribute(oid.AttributeMessageDigest, md.Sum(nil))
	if err != nil {
		return si, err
	}
	ctAttr, err := protocol.NewAttribute(oid.AttributeContentType, oid.ContentTypeData)
	if err != nil {
		return si, err
	}
	attrs := []protocol.Attribute{stAttr, mdAttr, ctAttr}
	// DER SET OF ordering (X.690 §11.6): ascending by encoding.
	enc := make([][]byte, len(attrs))
	for i, a := range attrs {
		if enc[i], err = asn1.Marshal(a); err != nil {
			return si, err
		}
	}
	idx := []int{0, 1, 2}
	sort.Slice(idx, func(a, b int) bool { return string(enc[idx[a]]) < string(enc[idx[b]]) })
	for _, i := range idx {
		si.SignedAttrs = append(si.SignedAttrs, attrs[i])
	}
	// to-be-signed: SET tag + length + concatenated attribute encodings
	var body []byte
	for _, i := range idx {
		body = append(body, enc[i]...)
	}
	tbs, err := asn1.Marshal(asn1.RawValue{Class: asn1.ClassUniversal, Tag: asn1.TagSet, IsCompound: true, Bytes: body})
	if err != nil {
		return si, err
	}
	if s.Tamper == TamperOtherMsg {
		tbs = append(append([]byte{}, tbs...), 0x00)
	}
	d := h.New()
	d.Write(tbs)
	sig, err := ecdsa.SignASN1(rand.Reader, key.Priv, d.Sum(nil))
	if err != nil {
		return si, err
	}
	si.Signature = TamperSig(sig, s.Tamper, s.TamperPos)
	if s.LiftSig != nil {
		si.Signature = append([]byte{}, s.LiftSig...)
	}
	return si, nil
}

// TamperSig applies a byte-level tamper to a DER ECDSA signature.
func TamperSig(sig []byte, t Tamper, pos int) []byte {
	out := append([]byte{}, sig...)
	switch t {
	case TamperFlipBit:
		// keep the DER skeleton parsable more often than not: aim at the value
		// bytes of s (the tail), any bit otherwise.
		n := len(out) * 8
		p := ((pos % n) + n) % n
		out[p/8] ^= 1 << (p % 8)
	case TamperTruncate:
		out = out[:len(out)-1]
	case TamperExtend:
		out = append(out, byte(pos))
	}
	return out
}

// SignedData wraps payload and signer infos in ContentInfo{SignedData} DER
// (version 1, eContentType id-data, no certificates), as in trc.rst.
func SignedData(payload []byte, infos []protocol.SignerInfo) ([]byte, error) {
	eci, err := protocol.NewDataEncapsulatedContentInfo(payload)
	if err != nil {
		return nil, err
	}
	sd := protocol.SignedData{
		Version:          1,
		DigestAlgorithms: []pkix.AlgorithmIdentifier{},
		EncapContentInfo: eci,
		SignerInfos:      infos,
	}
	if sd.SignerInfos == nil {
		sd.SignerInfos = []protocol.SignerInfo{}
	}
	for _, si := range infos {
		sd.AddDigestAlgorithm(si.DigestAlgorithm)
	}
	der, err := sd.ContentInfoDER()
	if err != nil {
		return nil, fmt.Errorf("pkitrcgen: encoding SignedData: %w", err)
	}
	return der, nil
}
