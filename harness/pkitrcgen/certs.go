package pkitrcgen

import (
	"crypto"
	"crypto/ed25519"
	"crypto/rand"
	"crypto/sha1"
	"crypto/sha256"
	"crypto/x509"
	"crypto/x509/pkix"
	"encoding/asn1"
	"fmt"
	"math/big"
	"sync/atomic"
	"time"
)

// OIDs of the SCION control-plane PKI (doc/cryptography/{trc,certificates}.rst).
var (
	OIDKPSensitive = asn1.ObjectIdentifier{1, 3, 6, 1, 4, 1, 55324, 1, 3, 1}
	OIDKPRegular   = asn1.ObjectIdentifier{1, 3, 6, 1, 4, 1, 55324, 1, 3, 2}
	OIDKPRoot      = asn1.ObjectIdentifier{1, 3, 6, 1, 4, 1, 55324, 1, 3, 3}
	OIDNameIA      = asn1.ObjectIdentifier{1, 3, 6, 1, 4, 1, 55324, 1, 2, 1}
)

// Kind is the certificate type that the issuer *intends* to create.
type Kind int

const (
	Sensitive Kind = iota
	Regular
	Root
	CA
	AS
)

func (k Kind) String() string {
	return [...]string{"sensitive", "regular", "root", "ca", "as"}[k]
}

// Voting reports whether k is one of the two voting kinds.
func (k Kind) Voting() bool { return k == Sensitive || k == Regular }

// Defect names one deliberate deviation from the profile. Every defect below
// breaks a MUST of certificates.rst / trc.rst for the intended kind.
type Defect string

const (
	NoDefect          Defect = ""
	DefBothVotingEKU  Defect = "both-voting-eku"   // id-kp-sensitive and id-kp-regular
	DefNoTimeStamping Defect = "no-timestamping"   // voting cert without id-kp-timeStamping
	DefServerAuth     Defect = "server-auth"       // id-kp-serverAuth on voting/root cert
	DefClientAuth     Defect = "client-auth"       // id-kp-clientAuth on voting/root cert
	DefDigitalSig     Defect = "digital-signature" // key usage digitalSignature on voting/root cert
	DefVotingCertSign Defect = "voting-cert-sign"  // key usage keyCertSign on voting cert
	DefVotingIsCA     Defect = "voting-is-ca"      // basic constraints cA=TRUE on voting cert
	DefNoSKID         Defect = "no-skid"           // subject key identifier missing (voting)
	DefAKIMismatch    Defect = "aki-mismatch"      // self-signed, authority key id != subject key id
	DefEd25519        Defect = "ed25519-signature" // signature algorithm not on the SCION list
	DefRootNoIA       Defect = "root-no-ia"        // root without ISD-AS attribute
	DefRootNotCA      Defect = "root-not-ca"       // id-kp-root without cA / keyCertSign
	DefNoUsage        Defect = "no-usage"          // neither key usage nor extended key usage
	DefNonCanonIA     Defect = "non-canonical-ia"  // ISD-AS attribute in non-canonical spelling
	DefWildcardIA     Defect = "wildcard-ia"       // ISD-AS attribute with wildcard AS
)

// VotingDefects / RootDefects list the defects applicable to each kind.
var (
	VotingDefects = []Defect{DefBothVotingEKU, DefNoTimeStamping, DefServerAuth, DefClientAuth, DefDigitalSig,
		DefVotingCertSign, DefVotingIsCA, DefNoSKID, DefAKIMismatch, DefEd25519, DefNoUsage, DefNonCanonIA,
		DefWildcardIA}
	RootDefects = []Defect{DefServerAuth, DefClientAuth, DefDigitalSig, DefAKIMismatch, DefEd25519, DefRootNoIA,
		DefRootNotCA, DefNonCanonIA, DefWildcardIA}
)

// CertSpec is the plan of one certificate. Reference models read only this.
type CertSpec struct {
	Kind      Kind
	CN        string
	Org       string // optional organization attribute
	IA        string // ISD-AS attribute of the subject ("" = absent)
	Serial    *big.Int
	NotBefore time.Time
	NotAfter  time.Time
	Key       *Key
	Issuer    *Cert // nil = self-signed
	Defect    Defect
}

// DN is the identity of the subject distinguished name as planned.
func (s CertSpec) DN() string { return fmt.Sprintf("CN=%s|O=%s|IA=%s", s.CN, s.Org, s.IA) }

// IssuerDN is the identity of the issuer distinguished name as planned.
func (s CertSpec) IssuerDN() string {
	if s.Issuer == nil {
		return s.DN()
	}
	return s.Issuer.Spec.DN()
}

// Cert is an issued certificate. ID is a process-unique identity.
type Cert struct {
	ID   int
	Spec CertSpec
	X    *x509.Certificate
	Raw  []byte
}

var certID atomic.Int64

func name(s CertSpec) pkix.Name {
	n := pkix.Name{CommonName: s.CN}
	if s.Org != "" {
		n.Organization = []string{s.Org}
	}
	ia := s.IA
	switch s.Defect {
	case DefRootNoIA:
		ia = ""
	case DefNonCanonIA:
		if ia == "" {
			ia = "1-ff00:0:110"
		}
		ia = nonCanonical(ia)
	case DefWildcardIA:
		ia = isdOf(ia) + "-0"
	}
	if ia != "" {
		n.ExtraNames = append(n.ExtraNames, pkix.AttributeTypeAndValue{Type: OIDNameIA, Value: ia})
	}
	return n
}

func isdOf(ia string) string {
	for i := 0; i < len(ia); i++ {
		if ia[i] == '-' {
			return ia[:i]
		}
	}
	return "1"
}

// nonCanonical returns a different spelling of the same ISD-AS.
func nonCanonical(ia string) string {
	out := []byte(ia)
	changed := false
	for i, c := range out {
		if c >= 'a' && c <= 'f' {
			out[i] = c - 'a' + 'A'
			changed = true
		}
	}
	if changed {
		return string(out)
	}
	// decimal AS: add a leading zero to the AS part
	for i := 0; i < len(ia); i++ {
		if ia[i] == '-' {
			return ia[:i+1] + "0" + ia[i+1:]
		}
	}
	return "0" + ia
}

func skid(pub crypto.PublicKey) []byte {
	b, err := x509.MarshalPKIXPublicKey(pub)
	if err != nil {
		panic(err)
	}
	h := sha1.Sum(b)
	return h[:]
}

// Issue creates the certificate described by spec with crypto/x509.
func Issue(spec CertSpec) (*Cert, error) {
	if spec.Key == nil {
		return nil, fmt.Errorf("pkitrcgen: no key")
	}
	id := int(certID.Add(1))
	if spec.Serial == nil {
		spec.Serial = big.NewInt(int64(1_000_000 + id))
	}
	pub := spec.Key.Priv.Public()
	t := &x509.Certificate{
		SerialNumber: spec.Serial,
		Subject:      name(spec),
		NotBefore:    spec.NotBefore,
		NotAfter:     spec.NotAfter,
		SubjectKeyId: skid(pub),
	}
	switch spec.Kind {
	case Sensitive, Regular:
		t.ExtKeyUsage = []x509.ExtKeyUsage{x509.ExtKeyUsageTimeStamping}
		if spec.Kind == Sensitive {
			t.UnknownExtKeyUsage = []asn1.ObjectIdentifier{OIDKPSensitive}
		} else {
			t.UnknownExtKeyUsage = []asn1.ObjectIdentifier{OIDKPRegular}
		}
	case Root:
		t.KeyUsage = x509.KeyUsageCertSign
		t.ExtKeyUsage = []x509.ExtKeyUsage{x509.ExtKeyUsageTimeStamping}
		t.UnknownExtKeyUsage = []asn1.ObjectIdentifier{OIDKPRoot}
		t.BasicConstraintsValid, t.IsCA, t.MaxPathLen = true, true, 1
	case CA:
		t.KeyUsage = x509.KeyUsageCertSign
		t.BasicConstraintsValid, t.IsCA, t.MaxPathLen, t.MaxPathLenZero = true, true, 0, true
	case AS:
		t.KeyUsage = x509.KeyUsageDigitalSignature
		t.ExtKeyUsage = []x509.ExtKeyUsage{x509.ExtKeyUsageTimeStamping, x509.ExtKeyUsageServerAuth,
			x509.ExtKeyUsageClientAuth}
	}
	var signer crypto.Signer = spec.Key.Priv
	switch spec.Defect {
	case NoDefect, DefRootNoIA, DefNonCanonIA, DefWildcardIA:
	case DefBothVotingEKU:
		t.UnknownExtKeyUsage = []asn1.ObjectIdentifier{OIDKPSensitive, OIDKPRegular}
		if spec.Kind == Regular {
			t.UnknownExtKeyUsage = []asn1.ObjectIdentifier{OIDKPRegular, OIDKPSensitive}
		}
	case DefNoTimeStamping:
		t.ExtKeyUsage = nil
	case DefServerAuth:
		t.ExtKeyUsage = append(t.ExtKeyUsage, x509.ExtKeyUsageServerAuth)
	case DefClientAuth:
		t.ExtKeyUsage = append(t.ExtKeyUsage, x509.ExtKeyUsageClientAuth)
	case DefDigitalSig:
		t.KeyUsage |= x509.KeyUsageDigitalSignature
	case DefVotingCertSign:
		t.KeyUsage |= x509.KeyUsageCertSign
	case DefVotingIsCA:
		t.BasicConstraintsValid, t.IsCA = true, true
	case DefNoSKID:
		t.SubjectKeyId = nil
	case DefAKIMismatch:
		h := sha256.Sum256(t.SubjectKeyId)
		t.AuthorityKeyId = h[:20]
	case DefEd25519:
		seed := sha256.Sum256([]byte("pkitrcgen-ed25519|" + spec.DN() + "|" + spec.Serial.String()))
		signer = ed25519.NewKeyFromSeed(seed[:])
	case DefRootNotCA:
		t.KeyUsage = 0
		t.BasicConstraintsValid, t.IsCA, t.MaxPathLen = false, false, 0
	case DefNoUsage:
		t.KeyUsage, t.ExtKeyUsage, t.UnknownExtKeyUsage = 0, nil, nil
	default:
		return nil, fmt.Errorf("pkitrcgen: unknown defect %q", spec.Defect)
	}
	parent := t
	if spec.Issuer != nil {
		parent = spec.Issuer.X
		if spec.Defect != DefEd25519 {
			signer = spec.Issuer.Spec.Key.Priv
		}
	}
	raw, err := x509.CreateCertificate(rand.Reader, t, parent, pub, signer)
	if err != nil {
		return nil, fmt.Errorf("pkitrcgen: issuing %s %q: %w", spec.Kind, spec.CN, err)
	}
	x, err := x509.ParseCertificate(raw)
	if err != nil {
		return nil, fmt.Errorf("pkitrcgen: re-parsing %s %q: %w", spec.Kind, spec.CN, err)
	}
	return &Cert{ID: id, Spec: spec, X: x, Raw: raw}, nil
}

// MustIssue is Issue that panics (generator bug) on error.
func MustIssue(spec CertSpec) *Cert {
	c, err := Issue(spec)
	if err != nil {
		panic(err)
	}
	return c
}

// ---- world: a fixed population of entities with several certificate
// generations each, issued once per run ----

// World is the certificate population of one ISD.
type World struct {
	ISD      int
	Entities []Entity
	// certs[entity][kind 0..2][version]
	certs [][3][]*Cert
}

// Entity is one voting/CA AS of the ISD.
type Entity struct {
	Idx   int
	IA    string
	Curve Curve
}

// WorldNotBefore / WorldNotAfter bound every world certificate.
var (
	WorldNotBefore = time.Date(2020, 1, 1, 0, 0, 0, 0, time.UTC)
	WorldNotAfter  = time.Date(2040, 1, 1, 0, 0, 0, 0, time.UTC)
)

// NewWorld issues versions certificate generations for entities entities of
// ISD isd. keyBase offsets into the key pool so that worlds do not share keys.
func NewWorld(pool *KeyPool, isd, entities, versions, keyBase int) *World {
	w := &World{ISD: isd}
	for e := 0; e < entities; e++ {
		curve := P256
		switch e % 7 {
		case 3:
			curve = P384
		case 5:
			curve = P521
		}
		ia := fmt.Sprintf("%d-ff00:0:%x", isd, 0x110+e)
		if e%4 == 2 {
			ia = fmt.Sprintf("%d-%d", isd, 64512+e) // BGP-style decimal AS
		}
		w.Entities = append(w.Entities, Entity{Idx: e, IA: ia, Curve: curve})
		var row [3][]*Cert
		for k := Sensitive; k <= Root; k++ {
			for v := 0; v < versions; v++ {
				key := pool.Key(curve, keyBase+(e*3+int(k))*versions+v)
				cia := ia
				if k.Voting() && e%3 == 1 {
					cia = "" // voting certificates need not carry an ISD-AS
				}
				row[k] = append(row[k], MustIssue(CertSpec{
					Kind: k, CN: fmt.Sprintf("ISD%d entity %d %s", isd, e, k), IA: cia,
					NotBefore: WorldNotBefore, NotAfter: WorldNotAfter, Key: key,
				}))
			}
		}
		w.certs = append(w.certs, row)
	}
	return w
}

// Cert returns generation ver of the entity's certificate of kind k.
func (w *World) Cert(entity int, k Kind, ver int) *Cert { return w.certs[entity][k][ver] }

// Versions is the number of certificate generations per entity and kind.
func (w *World) Versions() int { return len(w.certs[0][0]) }
