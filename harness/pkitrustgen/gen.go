// Package pkitrustgen forges the PKI material used by the pkitrust checks
// (C34-C37): an ECDSA key pool generated once per run, SCION-profile X.509
// certificates (voting, root, CA, AS) built directly with crypto/x509 together
// with deliberately mis-issued variants, signed base/update TRCs with grace
// periods (and broken variants of them), and CMS SignedData envelopes with an
// arbitrary number of genuine or forged SignerInfos.
//
// The package only BUILDS inputs. It never decides whether an input is
// acceptable: every product carries the plan it was built from and the checks
// derive the expectation from that plan with their own reference model.
package pkitrustgen

import (
	"crypto"
	"crypto/ecdsa"
	"crypto/elliptic"
	crand "crypto/rand"
	"crypto/sha1"
	"crypto/x509"
	"crypto/x509/pkix"
	"encoding/asn1"
	"fmt"
	"math/big"
	"math/rand/v2"
	"sync/atomic"
	"time"
)

// OIDs of the SCION control-plane PKI (doc/cryptography/certificates.rst, trc.rst).
var (
	OIDIA        = asn1.ObjectIdentifier{1, 3, 6, 1, 4, 1, 55324, 1, 2, 1}
	OIDSensitive = asn1.ObjectIdentifier{1, 3, 6, 1, 4, 1, 55324, 1, 3, 1}
	OIDRegular   = asn1.ObjectIdentifier{1, 3, 6, 1, 4, 1, 55324, 1, 3, 2}
	OIDRoot      = asn1.ObjectIdentifier{1, 3, 6, 1, 4, 1, 55324, 1, 3, 3}
)

// Key is a private key of the pool.
type Key = *ecdsa.PrivateKey

// Pool is the per-run key pool. Keys are drawn by index so that the *shape* of
// every generated case depends on the seeded PRNG only (the key bytes
// themselves come from crypto/rand and never influence a verdict).
type Pool struct {
	P256, P384, P521 []Key
}

// NewPool generates the pool.
func NewPool(n256, n384, n521 int) *Pool {
	p := &Pool{}
	mk := func(c elliptic.Curve, n int) []Key {
		out := make([]Key, n)
		for i := range out {
			k, err := ecdsa.GenerateKey(c, crand.Reader)
			if err != nil {
				panic(err)
			}
			out[i] = k
		}
		return out
	}
	p.P256 = mk(elliptic.P256(), n256)
	p.P384 = mk(elliptic.P384(), n384)
	p.P521 = mk(elliptic.P521(), n521)
	return p
}

// Drawer hands out pairwise distinct keys of the pool in a PRNG-determined
// order. Every generated case uses one Drawer so that no two entities of a
// case ever share a key.
type Drawer struct {
	lists map[string][]Key
	excl  map[Key]bool
}

// Drawer creates a drawer that never returns one of the excluded keys.
func (p *Pool) Drawer(rng *rand.Rand, exclude ...Key) *Drawer {
	d := &Drawer{lists: map[string][]Key{}, excl: map[Key]bool{}}
	for _, k := range exclude {
		d.excl[k] = true
	}
	for _, c := range []struct {
		name string
		keys []Key
	}{{"P-256", p.P256}, {"P-384", p.P384}, {"P-521", p.P521}} {
		perm := rng.Perm(len(c.keys))
		l := make([]Key, 0, len(c.keys))
		for _, i := range perm {
			if !d.excl[c.keys[i]] {
				l = append(l, c.keys[i])
			}
		}
		d.lists[c.name] = l
	}
	return d
}

// Next returns an unused key of the named curve ("" = P-256).
func (d *Drawer) Next(curve string) Key {
	if curve == "" {
		curve = "P-256"
	}
	l := d.lists[curve]
	if len(l) == 0 {
		panic("pkitrustgen: key pool exhausted for " + curve)
	}
	d.lists[curve] = l[1:]
	return l[0]
}

// Take returns n unused P-256 keys.
func (d *Drawer) Take(n int) []Key {
	out := make([]Key, n)
	for i := range out {
		out[i] = d.Next("")
	}
	return out
}

// SKID is the RFC 5280 4.2.1.2 (1) key identifier: SHA-1 of the uncompressed
// EC point.
func SKID(pub crypto.PublicKey) []byte {
	k, ok := pub.(*ecdsa.PublicKey)
	if !ok {
		panic("pkitrustgen: not an ECDSA key")
	}
	e, err := k.ECDH()
	if err != nil {
		panic(err)
	}
	s := sha1.Sum(e.Bytes())
	return s[:]
}

var serialCtr atomic.Int64

// NextSerial returns a process-unique positive certificate serial number.
func NextSerial() *big.Int { return big.NewInt(1_000_000 + serialCtr.Add(1)) }

// Profile names a certificate type of the SCION CP-PKI.
type Profile int

// Profiles.
const (
	Sensitive Profile = iota
	Regular
	Root
	CA
	AS
)

func (p Profile) String() string {
	return [...]string{"sensitive", "regular", "root", "ca", "as"}[p]
}

// Name builds a distinguished name with a common name and, unless ia is
// empty, the ISD-AS attribute carrying ia verbatim.
func Name(cn, ia string) pkix.Name {
	n := pkix.Name{CommonName: cn}
	if ia != "" {
		n.ExtraNames = []pkix.AttributeTypeAndValue{{Type: OIDIA, Value: ia}}
	}
	return n
}

// Template returns a template that follows the profile exactly.
func Template(p Profile, subject pkix.Name, nb, na time.Time, pub crypto.PublicKey) *x509.Certificate {
	t := &x509.Certificate{
		SerialNumber: NextSerial(),
		Subject:      subject,
		NotBefore:    nb,
		NotAfter:     na,
		SubjectKeyId: SKID(pub),
		MaxPathLen:   -1,
	}
	switch p {
	case Sensitive:
		t.ExtKeyUsage = []x509.ExtKeyUsage{x509.ExtKeyUsageTimeStamping}
		t.UnknownExtKeyUsage = []asn1.ObjectIdentifier{OIDSensitive}
	case Regular:
		t.ExtKeyUsage = []x509.ExtKeyUsage{x509.ExtKeyUsageTimeStamping}
		t.UnknownExtKeyUsage = []asn1.ObjectIdentifier{OIDRegular}
	case Root:
		t.KeyUsage = x509.KeyUsageCertSign
		t.BasicConstraintsValid, t.IsCA, t.MaxPathLen = true, true, 1
		t.ExtKeyUsage = []x509.ExtKeyUsage{x509.ExtKeyUsageTimeStamping}
		t.UnknownExtKeyUsage = []asn1.ObjectIdentifier{OIDRoot}
	case CA:
		t.KeyUsage = x509.KeyUsageCertSign | x509.KeyUsageCRLSign
		t.BasicConstraintsValid, t.IsCA, t.MaxPathLen, t.MaxPathLenZero = true, true, 0, true
	case AS:
		t.KeyUsage = x509.KeyUsageDigitalSignature
		t.ExtKeyUsage = []x509.ExtKeyUsage{
			x509.ExtKeyUsageServerAuth, x509.ExtKeyUsageClientAuth, x509.ExtKeyUsageTimeStamping,
		}
	}
	return t
}

// Ent is a certificate with its private key.
type Ent struct {
	Cert *x509.Certificate
	Key  Key
}

// Create signs tmpl for pub. parent == nil self-signs with key (which must be
// the key of pub). The result is the re-parsed certificate.
func Create(tmpl *x509.Certificate, pub crypto.PublicKey, parent *Ent, selfKey Key) (*x509.Certificate, error) {
	var raw []byte
	var err error
	if parent == nil {
		raw, err = x509.CreateCertificate(crand.Reader, tmpl, tmpl, pub, selfKey)
	} else {
		raw, err = x509.CreateCertificate(crand.Reader, tmpl, parent.Cert, pub, parent.Key)
	}
	if err != nil {
		return nil, err
	}
	return x509.ParseCertificate(raw)
}

// MustCreate is Create that panics: generator bugs must not be mistaken for
// findings.
func MustCreate(tmpl *x509.Certificate, pub crypto.PublicKey, parent *Ent, selfKey Key) *x509.Certificate {
	c, err := Create(tmpl, pub, parent, selfKey)
	if err != nil {
		panic(fmt.Sprintf("pkitrustgen: creating certificate %q: %v", tmpl.Subject.CommonName, err))
	}
	return c
}

// Deviation is one deliberate departure from a profile, applied to a
// template before signing. Every deviation listed here makes the certificate
// unacceptable under doc/cryptography/certificates.rst; the checks rely on
// that (and cross-check it against the parsed result).
type Deviation struct {
	Name  string
	Apply func(t *x509.Certificate)
}

func replaceIA(t *x509.Certificate, ia string) {
	t.Subject = Name(t.Subject.CommonName, ia)
}

// ASDeviations are mis-issued AS certificates.
var ASDeviations = []Deviation{
	{"as-ku-none", func(t *x509.Certificate) { t.KeyUsage = 0 }},
	{"as-ku-not-digsig", func(t *x509.Certificate) { t.KeyUsage = x509.KeyUsageContentCommitment }},
	{"as-ku-certsign-added", func(t *x509.Certificate) {
		t.KeyUsage = x509.KeyUsageDigitalSignature | x509.KeyUsageCertSign
	}},
	{"as-no-ia", func(t *x509.Certificate) { replaceIA(t, "") }},
	{"as-ia-wildcard", func(t *x509.Certificate) { replaceIA(t, "1-0") }},
	{"as-ia-noncanonical", func(t *x509.Certificate) { replaceIA(t, "1-FF00:0:110") }},
	{"as-ia-unparsable", func(t *x509.Certificate) { replaceIA(t, "one-two") }},
	{"as-is-ca", func(t *x509.Certificate) { t.BasicConstraintsValid, t.IsCA = true, true }},
	{"as-no-timestamping", func(t *x509.Certificate) {
		t.ExtKeyUsage = []x509.ExtKeyUsage{x509.ExtKeyUsageServerAuth, x509.ExtKeyUsageClientAuth}
	}},
	{"as-no-eku", func(t *x509.Certificate) { t.ExtKeyUsage = nil }},
	{"as-no-skid", func(t *x509.Certificate) { t.SubjectKeyId = nil }},
}

// CADeviations are mis-issued CA certificates.
var CADeviations = []Deviation{
	{"ca-ku-digsig-added", func(t *x509.Certificate) { t.KeyUsage |= x509.KeyUsageDigitalSignature }},
	{"ca-ku-no-certsign", func(t *x509.Certificate) { t.KeyUsage = x509.KeyUsageCRLSign }},
	{"ca-ku-digsig-only", func(t *x509.Certificate) { t.KeyUsage = x509.KeyUsageDigitalSignature }},
	{"ca-not-ca", func(t *x509.Certificate) {
		t.BasicConstraintsValid, t.IsCA, t.MaxPathLen, t.MaxPathLenZero = true, false, -1, false
	}},
	{"ca-no-basic-constraints", func(t *x509.Certificate) {
		t.BasicConstraintsValid, t.IsCA, t.MaxPathLen, t.MaxPathLenZero = false, false, -1, false
	}},
	{"ca-pathlen-1", func(t *x509.Certificate) { t.MaxPathLen, t.MaxPathLenZero = 1, false }},
	{"ca-pathlen-unset", func(t *x509.Certificate) { t.MaxPathLen, t.MaxPathLenZero = -1, false }},
	{"ca-no-ia", func(t *x509.Certificate) { replaceIA(t, "") }},
	{"ca-ia-wildcard", func(t *x509.Certificate) { replaceIA(t, "0-ff00:0:110") }},
	{"ca-eku-serverauth", func(t *x509.Certificate) {
		t.ExtKeyUsage = []x509.ExtKeyUsage{x509.ExtKeyUsageServerAuth, x509.ExtKeyUsageTimeStamping}
	}},
	{"ca-eku-clientauth", func(t *x509.Certificate) {
		t.ExtKeyUsage = []x509.ExtKeyUsage{x509.ExtKeyUsageClientAuth, x509.ExtKeyUsageTimeStamping}
	}},
}

// FindDeviation looks a deviation up by name ("" → nil).
func FindDeviation(list []Deviation, name string) *Deviation {
	for i := range list {
		if list[i].Name == name {
			return &list[i]
		}
	}
	return nil
}

// ChainPlan describes how a two-certificate chain is to be issued. The zero
// value of every deviation field means "correct".
type ChainPlan struct {
	IA     string // ISD-AS of the AS certificate subject
	CAIA   string // ISD-AS of the CA certificate subject
	ASDev  string // name in ASDeviations, or ""
	CADev  string // name in CADeviations, or ""
	Issuer string // "ca" (AS signed by the chain's CA), "twin" (signed by another key under the CA's name and key id), "root" (signed by the root directly)

	CANotBefore, CANotAfter time.Time
	ASNotBefore, ASNotAfter time.Time
}

// IssueChain issues [AS, CA] under root for asKey/caKey following plan.
// twinKey is only used for Issuer == "twin".
func IssueChain(plan ChainPlan, root Ent, caKey, asKey, twinKey Key) []*x509.Certificate {
	caT := Template(CA, Name(plan.CAIA+" CA", plan.CAIA), plan.CANotBefore, plan.CANotAfter, caKey.Public())
	if d := FindDeviation(CADeviations, plan.CADev); d != nil {
		d.Apply(caT)
	} else if plan.CADev != "" {
		panic("pkitrustgen: unknown CA deviation " + plan.CADev)
	}
	ca := MustCreate(caT, caKey.Public(), &root, nil)

	asT := Template(AS, Name(plan.IA+" AS", plan.IA), plan.ASNotBefore, plan.ASNotAfter, asKey.Public())
	if d := FindDeviation(ASDeviations, plan.ASDev); d != nil {
		d.Apply(asT)
	} else if plan.ASDev != "" {
		panic("pkitrustgen: unknown AS deviation " + plan.ASDev)
	}
	var as *x509.Certificate
	switch plan.Issuer {
	case "", "ca":
		as = MustCreate(asT, asKey.Public(), &Ent{Cert: ca, Key: caKey}, nil)
	case "twin":
		// A second certificate with the CA's subject and key identifier but
		// another key: the AS certificate names the chain's CA as issuer and
		// carries its key id, yet was not signed by it.
		twT := Template(CA, pkix.Name{}, plan.CANotBefore, plan.CANotAfter, twinKey.Public())
		twT.RawSubject = ca.RawSubject
		twT.SubjectKeyId = ca.SubjectKeyId
		tw := MustCreate(twT, twinKey.Public(), &root, nil)
		as = MustCreate(asT, asKey.Public(), &Ent{Cert: tw, Key: twinKey}, nil)
	case "root":
		as = MustCreate(asT, asKey.Public(), &root, nil)
	default:
		panic("pkitrustgen: unknown issuer " + plan.Issuer)
	}
	return []*x509.Certificate{as, ca}
}

// NewRoot creates a self-signed CP root certificate.
func NewRoot(key Key, cn, ia string, nb, na time.Time) Ent {
	t := Template(Root, Name(cn, ia), nb, na, key.Public())
	return Ent{Cert: MustCreate(t, key.Public(), nil, key), Key: key}
}

// NewVoter creates a self-signed voting certificate.
func NewVoter(p Profile, key Key, cn, ia string, nb, na time.Time) Ent {
	t := Template(p, Name(cn, ia), nb, na, key.Public())
	return Ent{Cert: MustCreate(t, key.Public(), nil, key), Key: key}
}
