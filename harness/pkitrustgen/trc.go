package pkitrustgen

import (
	"crypto/x509"
	"fmt"
	"time"

	"github.com/scionproto/scion/pkg/addr"
	"github.com/scionproto/scion/pkg/scrypto"
	"github.com/scionproto/scion/pkg/scrypto/cms/protocol"
	"github.com/scionproto/scion/pkg/scrypto/cppki"
)

// ISD holds the voting and root entities of one isolation domain.
// TRC certificate order is always: sensitive voters, regular voters, roots.
type ISD struct {
	ID     int
	Sens   []Ent
	Reg    []Ent
	Roots  []Ent
	Quorum int
	Core   []addr.AS
	nb, na time.Time
}

// IAOf returns the canonical text of AS number i (1-based) of the ISD.
func (i *ISD) IAOf(n int) string { return fmt.Sprintf("%d-ff00:0:%x", i.ID, 0x100+n) }

// NewISD creates the entities of an ISD from nSens+nReg+nRoots keys; all
// certificates are valid in [nb, na].
func NewISD(keys []Key, id, nSens, nReg, nRoots, quorum int, nb, na time.Time) *ISD {
	if len(keys) < nSens+nReg+nRoots {
		panic("pkitrustgen: not enough keys for ISD")
	}
	isd := &ISD{ID: id, Quorum: quorum, nb: nb, na: na}
	k := 0
	for j := 0; j < nSens; j++ {
		isd.Sens = append(isd.Sens, NewVoter(Sensitive, keys[k], fmt.Sprintf("isd%d sensitive %d", id, j), isd.IAOf(j+1), nb, na))
		k++
	}
	for j := 0; j < nReg; j++ {
		isd.Reg = append(isd.Reg, NewVoter(Regular, keys[k], fmt.Sprintf("isd%d regular %d", id, j), isd.IAOf(j+1), nb, na))
		k++
	}
	for j := 0; j < nRoots; j++ {
		isd.Roots = append(isd.Roots, NewRoot(keys[k], fmt.Sprintf("isd%d root %d", id, j), isd.IAOf(j+1), nb, na))
		k++
	}
	for j := 0; j < max(nSens, 1); j++ {
		isd.Core = append(isd.Core, addr.AS(0xff00_0000_0100+uint64(j)+1))
	}
	return isd
}

// TRCSpec is the plan of one TRC payload.
type TRCSpec struct {
	ISD, Base, Serial   int
	NotBefore, NotAfter time.Time
	Grace               time.Duration
	Votes               []int
	Quorum              int
	Core                []addr.AS
	Certs               []*x509.Certificate
	Desc                string
}

// TRC is a signed TRC together with the plan and entities it was built from.
type TRC struct {
	Signed  cppki.SignedTRC
	Spec    TRCSpec
	Signers []Ent // the entities whose SignerInfos are attached, in order
	Roots   []Ent // root entities whose certificates the TRC contains
}

// ID returns the TRC id.
func (t TRC) ID() cppki.TRCID { return t.Signed.TRC.ID }

// SignSpec encodes the payload of spec and attaches one SignerInfo per signer
// (opts[i] tunes signer i; keys[i], if present and non-nil, replaces signer
// i's private key, forging a SignerInfo that names the signer's certificate).
func SignSpec(spec TRCSpec, signers []Ent, opts map[int]SIOpts, keys map[int]Key) (cppki.SignedTRC, error) {
	pld := cppki.TRC{
		Version:           1,
		ID:                cppki.TRCID{ISD: addr.ISD(spec.ISD), Base: scrypto.Version(spec.Base), Serial: scrypto.Version(spec.Serial)},
		Validity:          cppki.Validity{NotBefore: spec.NotBefore, NotAfter: spec.NotAfter},
		GracePeriod:       spec.Grace,
		Votes:             spec.Votes,
		Quorum:            spec.Quorum,
		CoreASes:          spec.Core,
		AuthoritativeASes: spec.Core,
		Description:       spec.Desc,
		Certificates:      spec.Certs,
	}
	raw, err := pld.Encode()
	if err != nil {
		return cppki.SignedTRC{}, fmt.Errorf("encoding TRC payload: %w", err)
	}
	var infos []protocol.SignerInfo
	for i, s := range signers {
		key := s.Key
		if k := keys[i]; k != nil {
			key = k
		}
		infos = append(infos, SignerInfo(raw, s.Cert, key, opts[i]))
	}
	s := cppki.SignedTRC{TRC: pld, SignerInfos: infos}
	enc, err := s.Encode()
	if err != nil {
		return cppki.SignedTRC{}, fmt.Errorf("encoding signed TRC: %w", err)
	}
	dec, err := cppki.DecodeSignedTRC(enc)
	if err != nil {
		return cppki.SignedTRC{}, fmt.Errorf("re-decoding signed TRC: %w", err)
	}
	return dec, nil
}

func (i *ISD) certs(roots []Ent) []*x509.Certificate {
	var out []*x509.Certificate
	for _, e := range i.Sens {
		out = append(out, e.Cert)
	}
	for _, e := range i.Reg {
		out = append(out, e.Cert)
	}
	for _, e := range roots {
		out = append(out, e.Cert)
	}
	return out
}

// BaseTRC builds the base TRC (serial == base) signed by every voter.
func (i *ISD) BaseTRC(base int, nb, na time.Time) TRC {
	roots := append([]Ent{}, i.Roots...)
	spec := TRCSpec{ISD: i.ID, Base: base, Serial: base, NotBefore: nb, NotAfter: na,
		Quorum: i.Quorum, Core: i.Core, Certs: i.certs(roots), Desc: fmt.Sprintf("ISD %d base", i.ID)}
	signers := append(append([]Ent{}, i.Sens...), i.Reg...)
	s, err := SignSpec(spec, signers, nil, nil)
	must(err)
	return TRC{Signed: s, Spec: spec, Signers: signers, Roots: roots}
}

// UpdateKind selects who votes.
type UpdateKind int

// Update kinds.
const (
	RegularUpdate UpdateKind = iota
	SensitiveUpdate
)

// Update builds the successor of pred. rotate maps a root position to the
// key of its replacement certificate (same subject, new key); in a regular
// update the replaced root acknowledges with its old key.
func (i *ISD) Update(pred TRC, kind UpdateKind, nb, na time.Time, grace time.Duration, rotate map[int]Key) TRC {
	roots := append([]Ent{}, pred.Roots...)
	var signers []Ent
	var votes []int
	switch kind {
	case RegularUpdate:
		for j := 0; j < i.Quorum; j++ {
			votes = append(votes, len(i.Sens)+j)
			signers = append(signers, i.Reg[j])
		}
	case SensitiveUpdate:
		for j := 0; j < i.Quorum; j++ {
			votes = append(votes, j)
			signers = append(signers, i.Sens[j])
		}
	}
	for pos := 0; pos < len(roots); pos++ {
		key, ok := rotate[pos]
		if !ok {
			continue
		}
		old := roots[pos]
		t := Template(Root, old.Cert.Subject, i.nb, i.na, key.Public())
		t.RawSubject = old.Cert.RawSubject
		roots[pos] = Ent{Cert: MustCreate(t, key.Public(), nil, key), Key: key}
		if kind == RegularUpdate {
			signers = append(signers, old)
		}
	}
	spec := TRCSpec{ISD: i.ID, Base: pred.Spec.Base, Serial: pred.Spec.Serial + 1, NotBefore: nb, NotAfter: na,
		Grace: grace, Votes: votes, Quorum: i.Quorum, Core: i.Core, Certs: i.certs(roots),
		Desc: fmt.Sprintf("ISD %d update", i.ID)}
	s, err := SignSpec(spec, signers, nil, nil)
	must(err)
	return TRC{Signed: s, Spec: spec, Signers: signers, Roots: roots}
}

// Broken variants of a genuine update. Every kind yields something that is
// NOT a verified successor of the genuine predecessor under
// doc/cryptography/trc.rst (the checks rely on that).
var BrokenKinds = []string{
	"bad-vote-signature", // one vote's signature value is corrupted
	"missing-vote",       // the SignerInfo of one listed vote is absent
	"below-quorum",       // fewer votes than the predecessor's quorum
	"forged-vote-key",    // a vote's SignerInfo is produced with a key that is not the voter's
	"digest-mismatch",    // signatures cover a different payload
	"vote-by-root",       // a vote is cast with a root certificate's index
	"skipped-serial",     // payload serial is predecessor+2
	"same-serial",        // payload serial equals the predecessor's
	"base-reset",         // a (self-consistent) base TRC with base == requested serial
	"other-base",         // non-base payload claiming another base number
}

// Broken rebuilds the genuine successor t (of pred) with one defect.
func (i *ISD) Broken(kind string, pred, t TRC, foreign Key) cppki.SignedTRC {
	spec := t.Spec
	signers := append([]Ent{}, t.Signers...)
	opts := map[int]SIOpts{}
	keys := map[int]Key{}
	switch kind {
	case "bad-vote-signature":
		opts[0] = SIOpts{CorruptSignature: true}
	case "missing-vote":
		signers = signers[1:]
	case "below-quorum":
		spec.Votes = spec.Votes[:len(spec.Votes)-1]
		signers = append(signers[:len(spec.Votes)], signers[len(spec.Votes)+1:]...)
	case "forged-vote-key":
		keys[0] = foreign
	case "digest-mismatch":
		for j := range signers {
			opts[j] = SIOpts{DigestOver: []byte("another payload")}
		}
	case "vote-by-root":
		spec.Votes = append([]int{}, spec.Votes...)
		spec.Votes[0] = len(i.Sens) + len(i.Reg) // first root of the predecessor
		signers[0] = pred.Roots[0]
	case "skipped-serial":
		spec.Serial = pred.Spec.Serial + 2
	case "same-serial":
		if pred.Spec.Serial == pred.Spec.Base {
			// serial == base would make it a base TRC; use the other-base defect instead.
			spec.Serial = pred.Spec.Serial + 1
			spec.Base = pred.Spec.Base + 1
			spec.Grace, spec.Votes = 0, nil
			signers = append(append([]Ent{}, i.Sens...), i.Reg...)
		} else {
			spec.Serial = pred.Spec.Serial
		}
	case "base-reset":
		spec.Base = spec.Serial
		spec.Grace, spec.Votes = 0, nil
		signers = append(append([]Ent{}, i.Sens...), i.Reg...)
	case "other-base":
		if spec.Serial-1 > spec.Base {
			spec.Base = spec.Base + 1
		} else {
			spec.Base = spec.Serial
			spec.Grace, spec.Votes = 0, nil
			signers = append(append([]Ent{}, i.Sens...), i.Reg...)
		}
	default:
		panic("pkitrustgen: unknown broken kind " + kind)
	}
	s, err := SignSpec(spec, signers, opts, keys)
	must(err)
	return s
}
