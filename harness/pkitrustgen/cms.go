package pkitrustgen

import (
	"bytes"
	"crypto"
	"crypto/ecdsa"
	crand "crypto/rand"
	"crypto/x509"
	"crypto/x509/pkix"
	"encoding/asn1"
	"sort"
	"time"

	"github.com/scionproto/scion/pkg/scrypto/cms/oid"
	"github.com/scionproto/scion/pkg/scrypto/cms/protocol"
)

// SIOpts tunes a forged SignerInfo.
type SIOpts struct {
	// DigestOver, if non-nil, is hashed into the message-digest attribute
	// instead of the real content (the signature then does not cover the
	// content).
	DigestOver []byte
	// CorruptSignature flips a bit in the middle of the signature value.
	CorruptSignature bool
	// SigningTime defaults to now.
	SigningTime time.Time
	// NoSigningTime omits the signing-time signed attribute altogether (it is
	// optional in RFC 5652).
	NoSigningTime bool
}

func hashFor(pub crypto.PublicKey) (crypto.Hash, asn1.ObjectIdentifier) {
	if k, ok := pub.(*ecdsa.PublicKey); ok {
		switch k.Curve.Params().BitSize {
		case 384:
			return crypto.SHA384, oid.DigestAlgorithmSHA384
		case 521:
			return crypto.SHA512, oid.DigestAlgorithmSHA512
		}
	}
	return crypto.SHA256, oid.DigestAlgorithmSHA256
}

// SignerInfo builds a CMS SignerInfo that identifies cert (issuer and serial
// number) and is signed with key, whether or not key belongs to cert.
func SignerInfo(content []byte, cert *x509.Certificate, key crypto.Signer, o SIOpts) protocol.SignerInfo {
	sid, err := protocol.NewIssuerAndSerialNumber(cert)
	must(err)
	h, digestOID := hashFor(key.Public())
	sigOID := oid.X509PublicKeyAndDigestAlgorithmToSignatureAlgorithm[x509.ECDSA][digestOID.String()]
	si := protocol.SignerInfo{
		Version:            1,
		SID:                sid,
		DigestAlgorithm:    pkix.AlgorithmIdentifier{Algorithm: digestOID},
		SignatureAlgorithm: pkix.AlgorithmIdentifier{Algorithm: sigOID},
	}
	over := content
	if o.DigestOver != nil {
		over = o.DigestOver
	}
	md := h.New()
	md.Write(over)
	st := o.SigningTime
	if st.IsZero() {
		st = time.Now()
	}
	stAttr, err := protocol.NewAttribute(oid.AttributeSigningTime, st.UTC())
	must(err)
	mdAttr, err := protocol.NewAttribute(oid.AttributeMessageDigest, md.Sum(nil))
	must(err)
	ctAttr, err := protocol.NewAttribute(oid.AttributeContentType, oid.ContentTypeData)
	must(err)
	attrs := protocol.Attributes{stAttr, mdAttr, ctAttr}
	if o.NoSigningTime {
		attrs = protocol.Attributes{mdAttr, ctAttr}
	}
	sort.Slice(attrs, func(i, j int) bool {
		return bytes.Compare(attrs[i].RawValue.FullBytes, attrs[j].RawValue.FullBytes) < 0
	})
	si.SignedAttrs = attrs
	sm, err := attrs.MarshaledForSigning()
	must(err)
	d := h.New()
	d.Write(sm)
	si.Signature, err = key.Sign(crand.Reader, d.Sum(nil), h)
	must(err)
	if o.CorruptSignature {
		si.Signature = CorruptECDSASignature(si.Signature)
	}
	return si
}

// CorruptECDSASignature returns a copy of a DER ECDSA signature with one bit
// of the r value flipped (the encoding stays well-formed).
func CorruptECDSASignature(sig []byte) []byte {
	out := append([]byte(nil), sig...)
	// SEQUENCE hdr (2-3 bytes), INTEGER hdr (2 bytes), then r; byte 8 is
	// safely inside r for every supported curve.
	out[8] ^= 0x01
	return out
}

// CMS wraps content into a SignedData ContentInfo (DER) that carries certs
// and exactly the given SignerInfos.
func CMS(content []byte, certs []*x509.Certificate, infos []protocol.SignerInfo) []byte {
	eci, err := protocol.NewDataEncapsulatedContentInfo(content)
	must(err)
	sd, err := protocol.NewSignedData(eci)
	must(err)
	for _, c := range certs {
		must(sd.AddCertificate(c))
	}
	for _, si := range infos {
		sd.AddDigestAlgorithm(si.DigestAlgorithm)
	}
	sd.SignerInfos = append([]protocol.SignerInfo{}, infos...)
	der, err := sd.ContentInfoDER()
	must(err)
	return der
}

// CSR creates a certificate signing request with the given subject,
// self-signed with key.
func CSR(subject pkix.Name, key crypto.Signer) []byte {
	raw, err := x509.CreateCertificateRequest(crand.Reader, &x509.CertificateRequest{Subject: subject}, key)
	must(err)
	return raw
}

// BreakCSRSignature returns a copy of a CSR whose self-signature no longer
// verifies (a bit of the signature value is flipped; the request still parses).
func BreakCSRSignature(csr []byte) []byte {
	out := append([]byte(nil), csr...)
	out[len(out)-3] ^= 0x01
	return out
}

func must(err error) {
	if err != nil {
		panic("pkitrustgen: " + err.Error())
	}
}
