// Package shimref is the reference model used by the C44 check: an independent,
// lenient parser of SCION packets (written from doc/protocols/scion-header.rst
// and the SCMP specification, no code from pkg/slayers), the derivation of the
// set of destinations the shim dispatcher may forward a packet to, an
// independent path reversal and the Internet checksum with the SCION pseudo
// header.
package shimref

import (
	"bytes"
	"encoding/binary"
	"errors"
	"fmt"
	"net/netip"
)

// Protocol numbers.
const (
	ProtoUDP  = 17
	ProtoHBH  = 200
	ProtoE2E  = 201
	ProtoSCMP = 202
	ProtoBFD  = 203
)

// Address type/length nibbles.
const (
	T4Ip  = 0x0
	T4Svc = 0x4
	T16Ip = 0x3
)

// SCMP types.
const (
	SCMPDestUnreachable         = 1
	SCMPPacketTooBig            = 2
	SCMPParameterProblem        = 4
	SCMPExtIfDown               = 5
	SCMPIntConnDown             = 6
	SCMPEchoRequest             = 128
	SCMPEchoReply               = 129
	SCMPTracerouteRequest       = 130
	SCMPTracerouteReply         = 131
	scmpInfoBit           uint8 = 0x80
)

// Ext is one extension header.
type Ext struct {
	Type  uint8
	Bytes []byte
}

// Pkt is a parsed SCION packet.
type Pkt struct {
	NextHdr  uint8
	HdrLen   uint8
	PathType uint8
	DstType  uint8
	SrcType  uint8
	DstIA    uint64
	SrcIA    uint64
	RawDst   []byte
	RawSrc   []byte
	Path     []byte
	Exts     []Ext
	L4Type   uint8
	L4       []byte
}

// Parse parses the SCION common header, the address header, takes the path as
// an opaque blob of the length implied by HdrLen, and follows the chain of
// hop-by-hop / end-to-end extension headers to the layer-4 payload. It does
// not validate the inside of the path or extension ordering.
func Parse(b []byte) (*Pkt, error) {
	if len(b) < 12 {
		return nil, errors.New("shorter than the common header")
	}
	p := &Pkt{NextHdr: b[4], HdrLen: b[5], PathType: b[8], DstType: b[9] >> 4, SrcType: b[9] & 0xf}
	dl := (int(p.DstType&0x3) + 1) * 4
	sl := (int(p.SrcType&0x3) + 1) * 4
	addrLen := 16 + dl + sl
	hdr := int(p.HdrLen) * 4
	if hdr < 12+addrLen {
		return nil, errors.New("header length smaller than common + address header")
	}
	if len(b) < hdr {
		return nil, errors.New("shorter than the header length")
	}
	p.DstIA = binary.BigEndian.Uint64(b[12:])
	p.SrcIA = binary.BigEndian.Uint64(b[20:])
	p.RawDst = b[28 : 28+dl]
	p.RawSrc = b[28+dl : 28+dl+sl]
	p.Path = b[12+addrLen : hdr]
	rest := b[hdr:]
	nh := p.NextHdr
	for nh == ProtoHBH || nh == ProtoE2E {
		if len(p.Exts) >= 4 {
			return nil, errors.New("too many extension headers")
		}
		if len(rest) < 2 {
			return nil, errors.New("truncated extension header")
		}
		l := (int(rest[1]) + 1) * 4
		if len(rest) < l {
			return nil, errors.New("truncated extension header")
		}
		p.Exts = append(p.Exts, Ext{Type: nh, Bytes: rest[:l]})
		nh = rest[0]
		rest = rest[l:]
	}
	p.L4Type = nh
	p.L4 = rest
	return p, nil
}

// ExtSig names the extension chain ("none", "hbh", "e2e", "hbh+e2e", ...).
func (p *Pkt) ExtSig() string {
	if len(p.Exts) == 0 {
		return "none"
	}
	s := ""
	for i, e := range p.Exts {
		if i > 0 {
			s += "+"
		}
		if e.Type == ProtoHBH {
			s += "hbh"
		} else {
			s += "e2e"
		}
	}
	return s
}

// HostIP interprets a raw host address as an IP address if its type says so.
func HostIP(t uint8, raw []byte) (netip.Addr, bool) {
	switch {
	case t == T4Ip && len(raw) == 4:
		return netip.AddrFrom4([4]byte(raw)), true
	case t == T16Ip && len(raw) == 16:
		return netip.AddrFrom16([16]byte(raw)), true
	}
	return netip.Addr{}, false
}

// SvcKey identifies a registered service address.
type SvcKey struct {
	IA  uint64
	Svc uint16
}

// Expect is what the statement of C44 allows for one packet.
type Expect struct {
	// Kind describes the packet: udp/ip, udp/svc, scmp/echo-request, ...
	Kind string
	// Reply: the packet is an SCMP echo or traceroute request: the only
	// allowed action besides dropping is a reply to the previous hop.
	Reply bool
	// Allowed: the destinations derived from the packet's own SCION
	// destination (before the comparison with the outer destination).
	Allowed []netip.AddrPort
	// DstNotIP: the SCION destination host is not of an IP type although the
	// packet is an SCMP message; the statement does not say what "destination
	// host" means then. Only the port and the outer comparison are judged.
	DstNotIP bool
}

func infoLen(t uint8) int {
	switch t {
	case SCMPDestUnreachable, SCMPPacketTooBig, SCMPParameterProblem:
		return 4
	case SCMPExtIfDown:
		return 16
	case SCMPIntConnDown:
		return 24
	}
	return -1
}

// Derive computes the allowed destinations of a packet.
func Derive(p *Pkt, svc map[SvcKey]netip.AddrPort) Expect {
	dstIP, isIP := HostIP(p.DstType, p.RawDst)
	rawIP, rawOK := netip.AddrFromSlice(p.RawDst)
	host := func(port uint16) (e []netip.AddrPort, notIP bool) {
		if isIP {
			return []netip.AddrPort{netip.AddrPortFrom(dstIP, port)}, false
		}
		if rawOK {
			return []netip.AddrPort{netip.AddrPortFrom(rawIP, port)}, true
		}
		return nil, true
	}
	switch p.L4Type {
	case ProtoUDP:
		if len(p.L4) < 4 {
			return Expect{Kind: "udp/truncated"}
		}
		port := binary.BigEndian.Uint16(p.L4[2:])
		switch {
		case isIP:
			return Expect{Kind: "udp/ip", Allowed: []netip.AddrPort{netip.AddrPortFrom(dstIP, port)}}
		case p.DstType == T4Svc:
			a, ok := svc[SvcKey{p.DstIA, binary.BigEndian.Uint16(p.RawDst)}]
			if !ok {
				return Expect{Kind: "udp/svc-unregistered"}
			}
			return Expect{Kind: "udp/svc", Allowed: []netip.AddrPort{a}}
		}
		return Expect{Kind: "udp/unknown-dst-type"}
	case ProtoSCMP:
		if len(p.L4) < 4 {
			return Expect{Kind: "scmp/truncated"}
		}
		t := p.L4[0]
		body := p.L4[4:]
		switch t {
		case SCMPEchoRequest:
			return Expect{Kind: "scmp/echo-request", Reply: true}
		case SCMPTracerouteRequest:
			return Expect{Kind: "scmp/traceroute-request", Reply: true}
		case SCMPEchoReply, SCMPTracerouteReply:
			k := "scmp/echo-reply"
			if t == SCMPTracerouteReply {
				k = "scmp/traceroute-reply"
			}
			if len(body) < 2 {
				return Expect{Kind: k + "-truncated"}
			}
			a, notIP := host(binary.BigEndian.Uint16(body))
			return Expect{Kind: k, Allowed: a, DstNotIP: notIP}
		}
		il := infoLen(t)
		if il < 0 {
			if t&scmpInfoBit != 0 {
				return Expect{Kind: "scmp/unknown-info"}
			}
			return Expect{Kind: "scmp/unknown-error"}
		}
		k := fmt.Sprintf("scmp/error-%d", t)
		if len(body) < il {
			return Expect{Kind: k + "/truncated"}
		}
		q, err := Parse(body[il:])
		if err != nil {
			return Expect{Kind: k + "/quote-unparseable"}
		}
		switch q.L4Type {
		case ProtoUDP:
			if len(q.L4) < 2 {
				return Expect{Kind: k + "/quote-udp-truncated"}
			}
			a, notIP := host(binary.BigEndian.Uint16(q.L4))
			return Expect{Kind: k + "/quote-udp", Allowed: a, DstNotIP: notIP}
		case ProtoSCMP:
			if len(q.L4) < 6 {
				return Expect{Kind: k + "/quote-scmp-truncated"}
			}
			switch q.L4[0] {
			case SCMPEchoRequest, SCMPTracerouteRequest:
				a, notIP := host(binary.BigEndian.Uint16(q.L4[4:]))
				return Expect{Kind: k + "/quote-scmp-request", Allowed: a, DstNotIP: notIP}
			}
			if q.L4[0]&scmpInfoBit == 0 {
				return Expect{Kind: k + "/quote-scmp-error"}
			}
			return Expect{Kind: k + "/quote-scmp-other"}
		}
		return Expect{Kind: k + "/quote-other-l4"}
	}
	return Expect{Kind: "other-l4"}
}

// SameHost compares two IP addresses modulo IPv4-in-IPv6 mapping.
func SameHost(a, b netip.Addr) bool {
	return a.IsValid() && b.IsValid() && a.Unmap() == b.Unmap()
}

// Contains reports whether x is one of the allowed destinations.
func Contains(allowed []netip.AddrPort, x netip.AddrPort) bool {
	for _, a := range allowed {
		if SameHost(a.Addr(), x.Addr()) && a.Port() == x.Port() {
			return true
		}
	}
	return false
}

// sameHostBytes compares two raw host addresses of type t; of a service
// address only the 16-bit service number counts (the rest is reserved).
func sameHostBytes(t uint8, a, b []byte) bool {
	if t == T4Svc && len(a) >= 2 && len(b) >= 2 {
		return bytes.Equal(a[:2], b[:2])
	}
	return bytes.Equal(a, b)
}

// ---- path reversal

const (
	PathEmpty  = 0
	PathSCION  = 1
	PathOneHop = 2
	PathEPIC   = 3
)

// scionPathShape returns the number of info and hop fields of a SCION path
// and whether the blob is consistent with its meta header and its current
// pointers are inside the path.
func scionPathShape(b []byte) (numInf, numHops int, currInf, currHF int, ok bool) {
	if len(b) < 4 {
		return
	}
	m := binary.BigEndian.Uint32(b)
	currInf, currHF = int(m>>30), int(m>>24&0x3f)
	seg := [3]int{int(m >> 12 & 0x3f), int(m >> 6 & 0x3f), int(m & 0x3f)}
	for i, s := range seg {
		if s == 0 {
			for _, t := range seg[i:] {
				if t != 0 {
					return
				}
			}
			break
		}
		numInf++
		numHops += s
	}
	if numInf == 0 || numHops > 64 || len(b) != 4+8*numInf+12*numHops {
		return
	}
	if currInf >= numInf || currHF >= numHops {
		return
	}
	return numInf, numHops, currInf, currHF, true
}

func reverseSCIONPath(b []byte) ([]byte, bool) {
	numInf, numHops, currInf, currHF, ok := scionPathShape(b)
	if !ok {
		return nil, false
	}
	m := binary.BigEndian.Uint32(b)
	seg := [3]uint32{m >> 12 & 0x3f, m >> 6 & 0x3f, m & 0x3f}
	var rseg [3]uint32
	for i := 0; i < numInf; i++ {
		rseg[i] = seg[numInf-1-i]
	}
	out := make([]byte, len(b))
	binary.BigEndian.PutUint32(out, uint32(numInf-1-currInf)<<30|uint32(numHops-1-currHF)<<24|rseg[0]<<12|rseg[1]<<6|rseg[2])
	for i := 0; i < numInf; i++ {
		src := b[4+8*(numInf-1-i):][:8]
		dst := out[4+8*i:][:8]
		copy(dst, src)
		dst[0] ^= 0x01 // construction-direction flag
	}
	hops := b[4+8*numInf:]
	for i := 0; i < numHops; i++ {
		copy(out[4+8*numInf+12*i:][:12], hops[12*(numHops-1-i):][:12])
	}
	return out, true
}

// normSCIONPath clears the reserved bits that a decode/serialize round trip
// does not preserve (meta RSV, info-field reserved byte and flag bits, hop
// field flag bits other than the router alerts).
func normSCIONPath(b []byte) []byte {
	numInf, numHops, _, _, ok := scionPathShape(b)
	if !ok {
		return b
	}
	out := append([]byte(nil), b...)
	m := binary.BigEndian.Uint32(out) &^ (0x3f << 18)
	binary.BigEndian.PutUint32(out, m)
	for i := 0; i < numInf; i++ {
		out[4+8*i] &= 0x03
		out[4+8*i+1] = 0
	}
	for i := 0; i < numHops; i++ {
		out[4+8*numInf+12*i] &= 0x03
	}
	return out
}

// ReversePath returns the path type and bytes a reply to a packet with the
// given path must carry. ok is false if the reference does not know (path not
// well formed, unknown type): the path of the reply is then not judged.
func ReversePath(typ uint8, b []byte) (rtyp uint8, rev []byte, ok bool) {
	switch typ {
	case PathEmpty:
		if len(b) != 0 {
			return 0, nil, false
		}
		return PathEmpty, nil, true
	case PathSCION:
		r, ok := reverseSCIONPath(b)
		return PathSCION, r, ok
	case PathEPIC:
		if len(b) < 16 {
			return 0, nil, false
		}
		r, ok := reverseSCIONPath(b[16:])
		return PathSCION, r, ok
	case PathOneHop:
		if len(b) != 32 {
			return 0, nil, false
		}
		// info | first hop | second hop; as a SCION path of one segment with
		// two hops, construction direction, current hop = second; reversed.
		if binary.BigEndian.Uint16(b[8+12+2:]) == 0 { // second hop cons ingress unset
			return 0, nil, false
		}
		sp := make([]byte, 4+8+24)
		binary.BigEndian.PutUint32(sp, 0<<30|1<<24|2<<12)
		copy(sp[4:], b[:8])
		sp[4] = 0x01
		copy(sp[12:], b[8:])
		r, ok := reverseSCIONPath(sp)
		return PathSCION, r, ok
	}
	return 0, nil, false
}

// SamePath compares two SCION paths ignoring reserved bits.
func SamePath(a, b []byte) bool {
	return bytes.Equal(normSCIONPath(a), normSCIONPath(b))
}

// ---- checksum

func sum16(b []byte, s uint32) uint32 {
	for i := 0; i+1 < len(b); i += 2 {
		s += uint32(b[i])<<8 | uint32(b[i+1])
	}
	if len(b)%2 == 1 {
		s += uint32(b[len(b)-1]) << 8
	}
	return s
}

// ChecksumOK verifies the layer-4 checksum of p (SCION pseudo header: both
// ISD-AS, both host addresses, upper-layer length, protocol).
func ChecksumOK(p *Pkt) bool {
	var ph [24]byte
	binary.BigEndian.PutUint64(ph[0:], p.DstIA)
	binary.BigEndian.PutUint64(ph[8:], p.SrcIA)
	binary.BigEndian.PutUint32(ph[16:], uint32(len(p.L4)))
	ph[23] = p.L4Type
	s := sum16(ph[:], 0)
	s = sum16(p.RawDst, s)
	s = sum16(p.RawSrc, s)
	s = sum16(p.L4, s)
	for s>>16 != 0 {
		s = s&0xffff + s>>16
	}
	return s == 0xffff
}

// ---- judging

// Finding is one violated clause.
type Finding struct {
	Key  string
	What string
}

// Input is one datagram as the shim receives it.
type Input struct {
	Raw          []byte
	Outer        netip.Addr     // destination of the outer IP header
	PrevHop      netip.AddrPort // source of the datagram
	IsDispatcher bool
	Svc          map[SvcKey]netip.AddrPort
}

// Judge compares what the shim did (next hop, bytes) with the statement.
// outcome is "dropped", "forwarded" or "replied"; kind the packet kind.
func Judge(in Input, next netip.AddrPort, out []byte) (kind, outcome string, fs []Finding) {
	p, err := Parse(in.Raw)
	if !next.IsValid() {
		outcome = "dropped"
		if err != nil {
			return "unparseable", outcome, nil
		}
		e := Derive(p, in.Svc)
		could := false
		for _, a := range e.Allowed {
			if SameHost(a.Addr(), in.Outer) && in.IsDispatcher {
				could = true
			}
		}
		if could || e.Reply {
			outcome = "dropped-deliverable"
		}
		return e.Kind, outcome, nil
	}
	if err != nil {
		return "unparseable", "forwarded", []Finding{{"C44:acted-on-unparseable", fmt.Sprintf("packet the reference cannot parse (%v) was sent to %v", err, next)}}
	}
	e := Derive(p, in.Svc)
	kind = e.Kind
	add := func(k, w string) { fs = append(fs, Finding{k, w}) }
	if e.Reply {
		outcome = "replied"
		if next != in.PrevHop {
			add("C44:reply-not-to-previous-hop", fmt.Sprintf("reply to an SCMP %s sent to %v, previous hop is %v", kind, next, in.PrevHop))
		}
		q, err := Parse(out)
		if err != nil {
			add("C44:reply-unparseable", fmt.Sprintf("reply bytes do not parse: %v", err))
			return
		}
		if q.DstIA != p.SrcIA || q.SrcIA != p.DstIA || q.DstType != p.SrcType || q.SrcType != p.DstType ||
			!sameHostBytes(q.DstType, q.RawDst, p.RawSrc) || !sameHostBytes(q.SrcType, q.RawSrc, p.RawDst) {
			add("C44:reply-addresses-not-swapped", "reply does not carry the request's addresses swapped")
		}
		if rt, rev, ok := ReversePath(p.PathType, p.Path); ok {
			if q.PathType != rt || (rt == PathSCION && !SamePath(q.Path, rev)) || (rt == PathEmpty && len(q.Path) != 0) {
				add(fmt.Sprintf("C44:reply-path-not-reversed:pathtype-%d", p.PathType),
					fmt.Sprintf("reply path (type %d, %x) is not the reversed request path (type %d, %x)", q.PathType, q.Path, rt, rev))
			}
		} else {
			kind += "/path-unjudged"
		}
		switch {
		case q.L4Type != ProtoSCMP || len(q.L4) < 4 || q.L4[0] != p.L4[0]+1 || q.L4[1] != 0:
			var got any = "no SCMP header"
			if len(q.L4) >= 2 {
				got = fmt.Sprintf("layer-4 protocol %d, type %d code %d", q.L4Type, q.L4[0], q.L4[1])
			}
			sig := p.ExtSig()
			if n := len(p.Exts); n > 0 && p.Exts[n-1].Type == ProtoE2E {
				sig = "e2e" // an end-to-end extension directly precedes the SCMP header
			}
			add("C44:reply-type:ext-"+sig, fmt.Sprintf("reply to SCMP type %d is not an SCMP message of type %d code 0 directly readable from its headers (%v)", p.L4[0], p.L4[0]+1, got))
		case !ChecksumOK(q):
			add("C44:reply-checksum", "SCMP checksum of the reply is wrong")
		default:
			if !bytes.Equal(q.L4[4:], p.L4[4:]) {
				kind += "/payload-changed"
			}
		}
		return
	}
	outcome = "forwarded"
	if !in.IsDispatcher {
		add("C44:forwarded-while-disabled", fmt.Sprintf("dispatcher function disabled but a %s packet was forwarded to %v", kind, next))
	}
	if !SameHost(next.Addr(), in.Outer) {
		add("C44:outer-destination-mismatch", fmt.Sprintf("%s packet forwarded to %v although the outer IP destination is %v", kind, next, in.Outer))
	}
	if !Contains(e.Allowed, next) {
		add("C44:wrong-destination:"+kind, fmt.Sprintf("%s packet forwarded to %v; destinations derived from its SCION destination: %v", kind, next, e.Allowed))
	}
	if e.DstNotIP {
		kind += "/dst-not-ip"
	}
	if !bytes.Equal(out, in.Raw) {
		kind += "/modified"
	}
	return
}
