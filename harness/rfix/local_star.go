package rfix

// local_star.go: additional ways of configuring the star fixture used by the
// routerlocal binary (C11, C12, C13, C17): every order of setting the
// dispatched port range relative to the internal interface, the router's real
// start-up (control.ConfigDataplane on a generated topology.json), real
// sockets, custom underlay providers, and BFD parameters.

import (
	"encoding/json"
	"fmt"
	"net/netip"
	"sort"
	"time"

	"github.com/scionproto/scion/pkg/addr"
	"github.com/scionproto/scion/pkg/private/ptr"
	"github.com/scionproto/scion/pkg/private/util"
	"github.com/scionproto/scion/private/env"
	"github.com/scionproto/scion/private/keyconf"
	"github.com/scionproto/scion/private/topology"
	"github.com/scionproto/scion/router"
	"github.com/scionproto/scion/router/config"
	"github.com/scionproto/scion/router/control"
)

// LocalOrder is the order in which the data plane is configured.
type LocalOrder int

const (
	// OrdRangeFirst: SetPortRange, AddInternalInterface, links, services.
	OrdRangeFirst LocalOrder = iota
	// OrdRangeAfterInternal: AddInternalInterface, SetPortRange, links, services.
	OrdRangeAfterInternal
	// OrdRangeLast: AddInternalInterface, links, services, SetPortRange (direct
	// Connector calls in the order control.ConfigDataplane uses).
	OrdRangeLast
	// OrdControl: control.ConfigDataplane(connector, generated config).
	OrdControl
	NumLocalOrders
)

func (o LocalOrder) String() string {
	return [...]string{"range-first", "range-after-internal", "range-last", "config-dataplane"}[o]
}

// LocalCfg extends StarCfg.
type LocalCfg struct {
	StarCfg
	Order LocalOrder
	// RangeStr is the topology's dispatched_ports string ("", "-", "all",
	// "a-b"). It is always parsed by the real topology loader; for the direct
	// orders the parsed pair is what SetPortRange receives. Ignored (no
	// SetPortRange call at all) for direct orders when NoRange is set.
	RangeStr string
	NoRange  bool
	// MasterKey is AS master key 0. StarCfg.HopKey is overwritten with the
	// reference derivation of it.
	MasterKey []byte
	Core      bool
	// Providers maps interface IDs to underlay provider names (default udpip).
	Providers map[uint16]string
	// RealSockets leaves the provider's default connection opener in place.
	RealSockets bool
	// Addr overrides the fixture's address plan (nil: the rfix defaults).
	IntAddr      func() netip.AddrPort
	SibAddr      func(k int) netip.AddrPort
	ExtLocal     func(id uint16) netip.AddrPort
	ExtRemote    func(id uint16) netip.AddrPort
	BFD          config.BFD
	NumProc      int
	DontMakeProc bool
}

// TopoJSON renders the topology.json of the configuration (for router index
// StarCfg.RouterIndex; siblings are br-1, br-2, ...).
func (lc *LocalCfg) TopoJSON() ([]byte, error) {
	type ul struct {
		Provider string `json:"provider,omitempty"`
		Local    string `json:"local,omitempty"`
		Remote   string `json:"remote,omitempty"`
	}
	type bfd struct {
		Disable *bool `json:"disable,omitempty"`
	}
	type intf struct {
		Underlay ul     `json:"underlay"`
		IA       string `json:"isd_as"`
		LinkTo   string `json:"link_to"`
		MTU      int    `json:"mtu"`
		BFD      *bfd   `json:"bfd,omitempty"`
		RemoteIf uint16 `json:"remote_interface_id,omitempty"`
	}
	type br struct {
		InternalAddr string          `json:"internal_addr"`
		Interfaces   map[string]intf `json:"interfaces"`
	}
	type srv struct {
		Addr string `json:"addr"`
	}
	t := map[string]any{
		"isd_as": lc.IA.String(),
		"mtu":    1472,
	}
	if lc.RangeStr != "" {
		t["dispatched_ports"] = lc.RangeStr
	}
	if lc.Core {
		t["attributes"] = []string{"core"}
	} else {
		t["attributes"] = []string{}
	}
	brs := map[string]*br{}
	name := func(k int) string { return fmt.Sprintf("br-%d", k) }
	brs[name(lc.RouterIndex)] = &br{InternalAddr: lc.intAddr().String(), Interfaces: map[string]intf{}}
	for _, f := range lc.Ifs {
		k := lc.RouterIndex
		if !f.Owned {
			k = f.Sibling
		}
		b := brs[name(k)]
		if b == nil {
			b = &br{InternalAddr: lc.sibAddr(k).String(), Interfaces: map[string]intf{}}
			brs[name(k)] = b
		}
		lt, err := f.LinkTo.MarshalText()
		if err != nil {
			return nil, err
		}
		i := intf{
			Underlay: ul{Provider: lc.Providers[f.ID], Local: lc.extLocal(f.ID).String(), Remote: lc.extRemote(f.ID).String()},
			IA:       f.Remote.String(), LinkTo: string(lt), MTU: f.MTU,
			BFD: &bfd{Disable: ptr.To(!f.BFD)},
		}
		if f.LinkTo == topology.Peer {
			i.RemoteIf = 1 + f.ID%1000
		}
		b.Interfaces[fmt.Sprint(f.ID)] = i
	}
	t["border_routers"] = brs
	for svc, as := range lc.Svc {
		m := map[string]srv{}
		for i, a := range as {
			m[fmt.Sprintf("%s-%d", svc.BaseString(), i)] = srv{Addr: a.String()}
		}
		switch svc {
		case addr.SvcCS:
			t["control_service"] = m
		case addr.SvcDS:
			t["discovery_service"] = m
		default:
			return nil, fmt.Errorf("service %v cannot be expressed in topology.json", svc)
		}
	}
	return json.Marshal(t)
}

func (lc *LocalCfg) intAddr() netip.AddrPort {
	if lc.IntAddr != nil {
		return lc.IntAddr()
	}
	if lc.InternalAddr != "" {
		return netip.MustParseAddrPort(lc.InternalAddr)
	}
	return SiblingAddr(lc.RouterIndex)
}
func (lc *LocalCfg) sibAddr(k int) netip.AddrPort {
	if lc.SibAddr != nil {
		return lc.SibAddr(k)
	}
	return SiblingAddr(k)
}
func (lc *LocalCfg) extLocal(id uint16) netip.AddrPort {
	if lc.ExtLocal != nil {
		return lc.ExtLocal(id)
	}
	return ExtLocalAddr(id)
}
func (lc *LocalCfg) extRemote(id uint16) netip.AddrPort {
	if lc.ExtRemote != nil {
		return lc.ExtRemote(id)
	}
	return ExtRemoteAddr(id)
}

// ParsedRange runs the real topology loader over a minimal topology carrying
// RangeStr and returns what Topology.PortRange() reports.
func (lc *LocalCfg) ParsedRange() (uint16, uint16, error) {
	m := map[string]any{"isd_as": lc.IA.String(), "mtu": 1472}
	if lc.RangeStr != "" {
		m["dispatched_ports"] = lc.RangeStr
	}
	b, _ := json.Marshal(m)
	t, err := topology.FromJSONBytes(b)
	if err != nil {
		return 0, 0, err
	}
	s, e := t.PortRange()
	return s, e, nil
}

// NewLocalStar configures a data plane as described by lc.
func NewLocalStar(lc LocalCfg) (*Star, error) {
	if lc.MasterKey != nil {
		lc.HopKey = DeriveHopKey(lc.MasterKey)
	}
	s := &Star{ifs: map[uint16]IfSpec{}}
	np := lc.NumProc
	if np == 0 {
		np = 1
	}
	rc := config.RouterConfig{
		ReceiveBufferSize: lc.RecvBuf, SendBufferSize: lc.SendBuf,
		NumProcessors: np, NumSlowPathProcessors: 1, BatchSize: 8,
		DispatchedPortStart: lc.OverrideStart, DispatchedPortEnd: lc.OverrideEnd,
		BFD: lc.BFD,
	}
	if lc.BFD == (config.BFD{}) {
		// Links without an explicit BFD setting (sibling links configured by
		// control.ConfigDataplane) follow the router-wide default: disabled.
		rc.BFD.Disable = true
	}
	c := router.NewConnector(rc, env.Features{ExperimentalSCMPAuthentication: lc.SCMPAuth})
	s.C = c
	if !lc.RealSockets {
		var op ConnOpener = lc.Opener
		if op == nil {
			op = NopOpener{Reuse: lc.ReuseLocal, Opens: &s.Opens}
		}
		router.VerifSetConnOpener(c, "udpip", op)
	}
	for _, f := range lc.Ifs {
		s.ifs[f.ID] = f
	}
	if lc.Order == OrdControl {
		if lc.MasterKey == nil {
			return nil, fmt.Errorf("OrdControl needs MasterKey")
		}
		raw, err := lc.TopoJSON()
		if err != nil {
			return nil, err
		}
		topo, err := topology.FromJSONBytes(raw)
		if err != nil {
			return nil, fmt.Errorf("topology: %w (%s)", err, raw)
		}
		br, ok := topo.BR(fmt.Sprintf("br-%d", lc.RouterIndex))
		if !ok {
			return nil, fmt.Errorf("router not in topology")
		}
		cc := &control.Config{Topo: topo, IA: topo.IA(), BR: &br, MasterKeys: keyconf.Master{Key0: lc.MasterKey}}
		if err := control.ConfigDataplane(c, cc); err != nil {
			return nil, err
		}
		lc.PortStart, lc.PortEnd = topo.PortRange()
		lc.RangeSet = true
	} else {
		var ps, pe uint16
		if !lc.NoRange {
			var err error
			if ps, pe, err = lc.ParsedRange(); err != nil {
				return nil, err
			}
			lc.PortStart, lc.PortEnd, lc.RangeSet = ps, pe, true
		}
		if err := c.CreateIACtx(lc.IA); err != nil {
			return nil, err
		}
		if err := c.SetKey(lc.IA, 0, lc.HopKey); err != nil {
			return nil, err
		}
		if !lc.NoRange && lc.Order == OrdRangeFirst {
			c.SetPortRange(ps, pe)
		}
		iap := lc.intAddr()
		if err := c.AddInternalInterface(lc.IA, addr.HostIP(iap.Addr()), "udpip", iap.String()); err != nil {
			return nil, err
		}
		if !lc.NoRange && lc.Order == OrdRangeAfterInternal {
			c.SetPortRange(ps, pe)
		}
		ifs := append([]IfSpec(nil), lc.Ifs...)
		sort.Slice(ifs, func(i, j int) bool { return ifs[i].ID < ifs[j].ID })
		for _, f := range ifs {
			prov := lc.Providers[f.ID]
			if prov == "" {
				prov = "udpip"
			}
			li := control.LinkInfo{
				Provider: prov,
				Local:    control.LinkEnd{IA: lc.IA, IfID: iface16(f.ID)},
				Remote:   control.LinkEnd{IA: f.Remote},
				LinkTo:   f.LinkTo,
				MTU:      f.MTU,
				BFD:      control.BFD{Disable: ptr.To(!f.BFD)},
			}
			var lh, rh addr.Host
			if f.Owned {
				li.Local.Addr = lc.extLocal(f.ID).String()
				li.Remote.Addr = lc.extRemote(f.ID).String()
				lh = addr.HostIP(lc.extLocal(f.ID).Addr())
				rh = addr.HostIP(lc.extRemote(f.ID).Addr())
			} else {
				li.Local.Addr = iap.String()
				li.Remote.Addr = lc.sibAddr(f.Sibling).String()
				lh = addr.HostIP(iap.Addr())
				rh = addr.HostIP(lc.sibAddr(f.Sibling).Addr())
			}
			if err := c.AddExternalInterface(iface16(f.ID), li, lh, rh, f.Owned); err != nil {
				return nil, fmt.Errorf("if %d: %w", f.ID, err)
			}
		}
		svcs := make([]addr.SVC, 0, len(lc.Svc))
		for svc := range lc.Svc {
			svcs = append(svcs, svc)
		}
		sort.Slice(svcs, func(i, j int) bool { return svcs[i] < svcs[j] })
		for _, svc := range svcs {
			for _, a := range lc.Svc[svc] {
				if err := c.AddSvc(lc.IA, svc, addr.HostIP(a.Addr()), a.Port()); err != nil {
					return nil, err
				}
			}
		}
		if !lc.NoRange && lc.Order == OrdRangeLast {
			c.SetPortRange(ps, pe)
		}
	}
	s.Cfg = lc.StarCfg
	if !lc.DontMakeProc {
		s.Proc = router.VerifNewProc(c)
	}
	return s, nil
}

// BFDDefaults are session parameters for fixtures that run BFD.
func BFDDefaults() config.BFD {
	return config.BFD{
		DetectMult:            3,
		DesiredMinTxInterval:  util.DurWrap{Duration: 200 * time.Millisecond},
		RequiredMinRxInterval: util.DurWrap{Duration: 200 * time.Millisecond},
	}
}
