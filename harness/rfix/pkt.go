package rfix

import (
	"encoding/binary"
	"math/rand/v2"
	"net/netip"

	"github.com/gopacket/gopacket"

	"github.com/scionproto/scion/pkg/addr"
	"github.com/scionproto/scion/pkg/slayers"
	"github.com/scionproto/scion/pkg/slayers/path"
	"github.com/scionproto/scion/pkg/slayers/path/scion"
)

// L4 kinds for PktSpec.
const (
	L4UDP = iota
	L4TCP
	L4SCMPEchoReq
	L4SCMPEchoRep
	L4SCMPTraceReq
	L4SCMPTraceRep
	L4SCMPError // destination unreachable quoting Quote
	L4Unknown   // experimental protocol number, opaque payload
)

// PktSpec describes a packet to serialize.
type PktSpec struct {
	SrcIA, DstIA     addr.IA
	SrcHost, DstHost addr.Host
	Path             path.Path
	PathType         path.Type
	TC               uint8
	FlowID           uint32
	L4               int
	SrcPort, DstPort uint16 // UDP/TCP ports; SCMP identifier in DstPort
	Seq              uint16
	Payload          []byte
	Quote            []byte
	HBH, E2E         bool // add a hop-by-hop / end-to-end extension with a padding option
	HBHOpts, E2EOpts []*slayers.HopByHopOption
	// PathSetter, if set, is called with the SCION layer (addresses and
	// PayloadLen filled in) to install the path (e.g. snet's EPIC path which
	// computes its validation fields from the header); Path/PathType are then
	// only used for a first sizing pass.
	PathSetter func(*slayers.SCION) error
}

// Build serializes the packet with the slayers encoder.
func (s *PktSpec) Build() ([]byte, error) {
	if s.PathSetter == nil {
		return s.build(nil)
	}
	first, err := s.build(nil)
	if err != nil {
		return nil, err
	}
	pl := binary.BigEndian.Uint16(first[6:8])
	return s.build(&pl)
}

func (s *PktSpec) build(payloadLen *uint16) ([]byte, error) {
	sc := &slayers.SCION{
		Version: 0, TrafficClass: s.TC, FlowID: s.FlowID,
		SrcIA: s.SrcIA, DstIA: s.DstIA, Path: s.Path, PathType: s.PathType,
	}
	if err := sc.SetSrcAddr(s.SrcHost); err != nil {
		return nil, err
	}
	if err := sc.SetDstAddr(s.DstHost); err != nil {
		return nil, err
	}
	var ls []gopacket.SerializableLayer
	var l4 slayers.L4ProtocolType
	var l4Layers []gopacket.SerializableLayer
	switch s.L4 {
	case L4UDP:
		l4 = slayers.L4UDP
		u := &slayers.UDP{SrcPort: s.SrcPort, DstPort: s.DstPort}
		u.SetNetworkLayerForChecksum(sc)
		l4Layers = []gopacket.SerializableLayer{u, gopacket.Payload(s.Payload)}
	case L4TCP:
		l4 = slayers.L4TCP
		t := make([]byte, 20+len(s.Payload))
		binary.BigEndian.PutUint16(t[0:2], s.SrcPort)
		binary.BigEndian.PutUint16(t[2:4], s.DstPort)
		t[12] = 5 << 4
		copy(t[20:], s.Payload)
		l4Layers = []gopacket.SerializableLayer{gopacket.Payload(t)}
	case L4Unknown:
		l4 = slayers.ExperimentationAndTesting
		l4Layers = []gopacket.SerializableLayer{gopacket.Payload(s.Payload)}
	default:
		l4 = slayers.L4SCMP
		var tc slayers.SCMPTypeCode
		var msg gopacket.SerializableLayer
		switch s.L4 {
		case L4SCMPEchoReq:
			tc = slayers.CreateSCMPTypeCode(slayers.SCMPTypeEchoRequest, 0)
			msg = &slayers.SCMPEcho{Identifier: s.DstPort, SeqNumber: s.Seq}
		case L4SCMPEchoRep:
			tc = slayers.CreateSCMPTypeCode(slayers.SCMPTypeEchoReply, 0)
			msg = &slayers.SCMPEcho{Identifier: s.DstPort, SeqNumber: s.Seq}
		case L4SCMPTraceReq:
			tc = slayers.CreateSCMPTypeCode(slayers.SCMPTypeTracerouteRequest, 0)
			msg = &slayers.SCMPTraceroute{Identifier: s.DstPort, Sequence: s.Seq}
		case L4SCMPTraceRep:
			tc = slayers.CreateSCMPTypeCode(slayers.SCMPTypeTracerouteReply, 0)
			msg = &slayers.SCMPTraceroute{Identifier: s.DstPort, Sequence: s.Seq}
		default:
			tc = slayers.CreateSCMPTypeCode(slayers.SCMPTypeDestinationUnreachable, 0)
			msg = &slayers.SCMPDestinationUnreachable{}
		}
		h := &slayers.SCMP{TypeCode: tc}
		h.SetNetworkLayerForChecksum(sc)
		l4Layers = []gopacket.SerializableLayer{h, msg}
		if s.L4 == L4SCMPError {
			l4Layers = append(l4Layers, gopacket.Payload(s.Quote))
		} else if len(s.Payload) > 0 {
			l4Layers = append(l4Layers, gopacket.Payload(s.Payload))
		}
	}
	sc.NextHdr = l4
	ls = append(ls, sc)
	if s.HBH {
		sc.NextHdr = slayers.HopByHopClass
		hbh := &slayers.HopByHopExtn{}
		hbh.NextHdr = l4
		if s.E2E {
			hbh.NextHdr = slayers.End2EndClass
		}
		hbh.Options = s.HBHOpts
		if len(hbh.Options) == 0 {
			hbh.Options = []*slayers.HopByHopOption{{OptType: slayers.OptTypePadN, OptData: []byte{1, 2, 3, 4, 5}}}
		}
		ls = append(ls, hbh)
	}
	if s.E2E {
		if !s.HBH {
			sc.NextHdr = slayers.End2EndClass
		}
		e2e := &slayers.EndToEndExtn{}
		e2e.NextHdr = l4
		e2e.Options = []*slayers.EndToEndOption{{OptType: slayers.OptTypePadN, OptData: []byte{9, 8, 7}}}
		ls = append(ls, e2e)
	}
	ls = append(ls, l4Layers...)
	if payloadLen != nil {
		sc.PayloadLen = *payloadLen
		if err := s.PathSetter(sc); err != nil {
			return nil, err
		}
	}
	buf := gopacket.NewSerializeBuffer()
	if err := gopacket.SerializeLayers(buf, gopacket.SerializeOptions{FixLengths: true, ComputeChecksums: true}, ls...); err != nil {
		return nil, err
	}
	return append([]byte(nil), buf.Bytes()...), nil
}

// RandHost returns a random IPv4 or IPv6 host address (never v4-mapped,
// never unspecified).
func RandHost(rng *rand.Rand) addr.Host {
	if rng.IntN(2) == 0 {
		return addr.HostIP(netip.AddrFrom4([4]byte{10, byte(1 + rng.IntN(250)), byte(rng.IntN(256)), byte(1 + rng.IntN(254))}))
	}
	var b [16]byte
	b[0], b[1] = 0xfd, 0x00
	for i := 2; i < 16; i++ {
		b[i] = byte(rng.IntN(256))
	}
	return addr.HostIP(netip.AddrFrom16(b))
}

// RawPath converts a decoded path to the raw representation the router uses.
func RawPath(d *scion.Decoded) *scion.Raw {
	b := make([]byte, d.Len())
	if err := d.SerializeTo(b); err != nil {
		panic(err)
	}
	r := &scion.Raw{}
	if err := r.DecodeFromBytes(b); err != nil {
		panic(err)
	}
	return r
}
