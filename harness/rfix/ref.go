// Package rfix is the router fixture of the verif harness: independent
// reference code for hop-field MACs and header parsing, a generator of SCION
// paths with correct MAC chains, and the "star" fixture which configures a real
// router data plane through router.Connector and drives its real fast- and
// slow-path processors packet by packet.
package rfix

import (
	"crypto/aes"
	"crypto/sha256"
	"encoding/binary"
	"fmt"

	"golang.org/x/crypto/pbkdf2"
)

// ---- AES-CMAC (RFC 4493), independent of github.com/dchest/cmac ----

func dbl(b [16]byte) [16]byte {
	var out [16]byte
	carry := byte(0)
	for i := 15; i >= 0; i-- {
		out[i] = b[i]<<1 | carry
		carry = b[i] >> 7
	}
	if carry != 0 {
		out[15] ^= 0x87
	}
	return out
}

// CMAC computes AES-CMAC of msg under a 16/24/32-byte key.
func CMAC(key, msg []byte) [16]byte {
	blk, err := aes.NewCipher(key)
	if err != nil {
		panic(err)
	}
	var zero, l [16]byte
	blk.Encrypt(l[:], zero[:])
	k1 := dbl(l)
	k2 := dbl(k1)
	n := (len(msg) + 15) / 16
	complete := n > 0 && len(msg)%16 == 0
	if n == 0 {
		n = 1
	}
	var last [16]byte
	if complete {
		copy(last[:], msg[(n-1)*16:])
		for i := range last {
			last[i] ^= k1[i]
		}
	} else {
		rem := msg[(n-1)*16:]
		copy(last[:], rem)
		last[len(rem)] = 0x80
		for i := range last {
			last[i] ^= k2[i]
		}
	}
	var x [16]byte
	for i := 0; i < n-1; i++ {
		for j := 0; j < 16; j++ {
			x[j] ^= msg[i*16+j]
		}
		blk.Encrypt(x[:], x[:])
	}
	for j := 0; j < 16; j++ {
		x[j] ^= last[j]
	}
	blk.Encrypt(x[:], x[:])
	return x
}

// DeriveHopKey derives the hop-field MAC key from an AS master key as the
// documentation prescribes (PBKDF2-SHA256, salt "Derive OF Key", 1000
// iterations, 16 bytes).
func DeriveHopKey(master []byte) []byte {
	return pbkdf2.Key(master, []byte("Derive OF Key"), 1000, 16, sha256.New)
}

// HopMAC computes the full 16-byte hop-field MAC per
// doc/protocols/scion-header.rst ("Hop Field MAC Computation").
func HopMAC(hopKey []byte, beta uint16, ts uint32, exp uint8, consIn, consEg uint16) [16]byte {
	var in [16]byte
	binary.BigEndian.PutUint16(in[2:4], beta)
	binary.BigEndian.PutUint32(in[4:8], ts)
	in[9] = exp
	binary.BigEndian.PutUint16(in[10:12], consIn)
	binary.BigEndian.PutUint16(in[12:14], consEg)
	return CMAC(hopKey, in[:])
}

// ExpDuration is the hop-field lifetime in nanoseconds for an ExpTime value:
// (1 + ExpTime) * 24h / 256.
func ExpDurationNs(exp uint8) int64 {
	return (int64(exp) + 1) * (24 * 3600 * 1_000_000_000 / 256)
}

// ---- minimal independent header parser ----

// Hdr is what the reference parser extracts from a SCION packet.
type Hdr struct {
	Version     uint8
	TC          uint8
	FlowID      uint32
	NextHdr     uint8
	HdrLen      int // bytes
	PayloadLen  int
	PathType    uint8
	DT, DL      uint8
	ST, SL      uint8
	DstIA       uint64
	SrcIA       uint64
	DstHost     []byte
	SrcHost     []byte
	AddrHdrLen  int
	PathOff     int // offset of path in packet
	PathLen     int
	CurrINF     int
	CurrHF      int
	SegLen      [3]int
	NumINF      int
	NumHF       int
	InfoOff     []int // packet offsets of info fields
	HopOff      []int // packet offsets of hop fields
	PayloadOff  int
	TotalLen    int
	PathMetaRaw uint32
}

func addrLen(l uint8) int { return 4 * (int(l) + 1) }

// ParseHdr parses and checks structural consistency of a SCION packet:
// header length within the packet, payload length equal to the remainder, path
// fitting exactly in the header, and (for SCION paths) pointers inside their
// segments.
func ParseHdr(b []byte) (*Hdr, error) {
	if len(b) < 12 {
		return nil, fmt.Errorf("short common header: %d", len(b))
	}
	h := &Hdr{TotalLen: len(b)}
	w := binary.BigEndian.Uint32(b[0:4])
	h.Version = uint8(w >> 28)
	h.TC = uint8(w >> 20)
	h.FlowID = w & 0xfffff
	h.NextHdr = b[4]
	h.HdrLen = int(b[5]) * 4
	h.PayloadLen = int(binary.BigEndian.Uint16(b[6:8]))
	h.PathType = b[8]
	h.DT, h.DL = b[9]>>6, (b[9]>>4)&3
	h.ST, h.SL = (b[9]>>2)&3, b[9]&3
	if h.Version != 0 {
		return nil, fmt.Errorf("version %d", h.Version)
	}
	if h.HdrLen > len(b) {
		return nil, fmt.Errorf("HdrLen %d > packet %d", h.HdrLen, len(b))
	}
	if h.PayloadLen != len(b)-h.HdrLen {
		return nil, fmt.Errorf("PayloadLen %d != len-HdrLen %d", h.PayloadLen, len(b)-h.HdrLen)
	}
	h.AddrHdrLen = 16 + addrLen(h.DL) + addrLen(h.SL)
	if 12+h.AddrHdrLen > h.HdrLen {
		return nil, fmt.Errorf("address header exceeds HdrLen")
	}
	h.DstIA = binary.BigEndian.Uint64(b[12:20])
	h.SrcIA = binary.BigEndian.Uint64(b[20:28])
	h.DstHost = b[28 : 28+addrLen(h.DL)]
	h.SrcHost = b[28+addrLen(h.DL) : 28+addrLen(h.DL)+addrLen(h.SL)]
	h.PathOff = 12 + h.AddrHdrLen
	h.PathLen = h.HdrLen - h.PathOff
	h.PayloadOff = h.HdrLen
	switch h.PathType {
	case 0: // empty
		if h.PathLen != 0 {
			return nil, fmt.Errorf("empty path with %d path bytes", h.PathLen)
		}
	case 1: // SCION
		if err := h.parseScionPath(b, h.PathOff, h.PathLen); err != nil {
			return nil, err
		}
	case 2: // one-hop
		if h.PathLen != 8+12+12 {
			return nil, fmt.Errorf("one-hop path length %d", h.PathLen)
		}
		h.InfoOff = []int{h.PathOff}
		h.HopOff = []int{h.PathOff + 8, h.PathOff + 20}
	case 3: // EPIC
		if h.PathLen < 16 {
			return nil, fmt.Errorf("EPIC path too short")
		}
		if err := h.parseScionPath(b, h.PathOff+16, h.PathLen-16); err != nil {
			return nil, err
		}
	default:
		return nil, fmt.Errorf("unknown path type %d", h.PathType)
	}
	return h, nil
}

func (h *Hdr) parseScionPath(b []byte, off, l int) error {
	if l < 4 {
		return fmt.Errorf("path shorter than meta header")
	}
	m := binary.BigEndian.Uint32(b[off : off+4])
	h.PathMetaRaw = m
	h.CurrINF = int(m >> 30)
	h.CurrHF = int(m>>24) & 0x3f
	h.SegLen = [3]int{int(m>>12) & 0x3f, int(m>>6) & 0x3f, int(m) & 0x3f}
	h.NumINF, h.NumHF = 0, 0
	for i := 0; i < 3; i++ {
		if h.SegLen[i] > 0 {
			if i != h.NumINF {
				return fmt.Errorf("non-contiguous segments %v", h.SegLen)
			}
			h.NumINF++
			h.NumHF += h.SegLen[i]
		}
	}
	if h.NumINF == 0 {
		return fmt.Errorf("no segments")
	}
	if l != 4+8*h.NumINF+12*h.NumHF {
		return fmt.Errorf("path length %d != 4+8*%d+12*%d", l, h.NumINF, h.NumHF)
	}
	if h.CurrHF >= h.NumHF {
		return fmt.Errorf("CurrHF %d >= NumHF %d", h.CurrHF, h.NumHF)
	}
	if h.CurrINF >= h.NumINF {
		return fmt.Errorf("CurrINF %d >= NumINF %d", h.CurrINF, h.NumINF)
	}
	// current info field must be the segment containing the current hop
	seg, acc := 0, 0
	for i := 0; i < 3; i++ {
		acc += h.SegLen[i]
		if h.CurrHF < acc {
			seg = i
			break
		}
	}
	if seg != h.CurrINF {
		return fmt.Errorf("CurrINF %d does not contain CurrHF %d (segs %v)", h.CurrINF, h.CurrHF, h.SegLen)
	}
	h.InfoOff = h.InfoOff[:0]
	h.HopOff = h.HopOff[:0]
	for i := 0; i < h.NumINF; i++ {
		h.InfoOff = append(h.InfoOff, off+4+8*i)
	}
	for i := 0; i < h.NumHF; i++ {
		h.HopOff = append(h.HopOff, off+4+8*h.NumINF+12*i)
	}
	return nil
}

// SegOfHop returns the segment index containing hop i.
func (h *Hdr) SegOfHop(i int) int {
	acc := 0
	for s := 0; s < 3; s++ {
		acc += h.SegLen[s]
		if i < acc {
			return s
		}
	}
	return -1
}

// Internet checksum helpers (RFC 1071) for the SCION pseudo header.

// Csum16 returns the folded one's-complement sum over the given chunks (each
// treated as a sequence of big-endian 16-bit words, an odd final byte padded
// with zero; chunks other than the last must have even length).
func Csum16(chunks ...[]byte) uint16 {
	var sum uint32
	for _, c := range chunks {
		for i := 0; i+1 < len(c); i += 2 {
			sum += uint32(c[i])<<8 | uint32(c[i+1])
		}
		if len(c)%2 == 1 {
			sum += uint32(c[len(c)-1]) << 8
		}
	}
	for sum>>16 != 0 {
		sum = sum&0xffff + sum>>16
	}
	return uint16(sum)
}

// UpperLayerCsumOK checks that the one's-complement sum over the SCION pseudo
// header (dst IA, src IA, dst host, src host, upper-layer length, zero, protocol)
// and the upper-layer data folds to 0xffff.
func UpperLayerCsumOK(h *Hdr, pkt []byte, proto uint8, upper []byte) bool {
	var ps [8]byte
	binary.BigEndian.PutUint32(ps[0:4], uint32(len(upper)))
	ps[7] = proto
	return Csum16(pkt[12:12+h.AddrHdrLen], ps[:], upper) == 0xffff
}
