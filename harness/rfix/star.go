package rfix

import (
	"fmt"
	"net"
	"net/netip"
	"runtime/debug"
	"time"

	"github.com/scionproto/scion/pkg/addr"
	"github.com/scionproto/scion/pkg/private/ptr"
	"github.com/scionproto/scion/pkg/segment/iface"
	"github.com/scionproto/scion/private/env"
	"github.com/scionproto/scion/private/topology"
	"github.com/scionproto/scion/private/underlay/conn"
	"github.com/scionproto/scion/router"
	"github.com/scionproto/scion/router/config"
	"github.com/scionproto/scion/router/control"
	_ "github.com/scionproto/scion/router/underlayproviders/udpip"
)

// IfSpec describes one inter-AS interface of the AS of the router under test.
type IfSpec struct {
	ID     uint16
	LinkTo topology.LinkType
	Remote addr.IA
	// Owned: the interface belongs to the router under test (external link);
	// otherwise it belongs to sibling router number Sibling (sibling link).
	Owned   bool
	Sibling int
	BFD     bool
	MTU     int
	// BFDRx / BFDTx / BFDMult: per-link BFD parameters as the topology file may
	// carry them (zero: the router's defaults).
	BFDRx, BFDTx time.Duration
	BFDMult      uint8
}

// StarCfg configures one real data plane.
type StarCfg struct {
	IA         addr.IA
	HopKey     []byte // derived hop key (what Connector.SetKey receives)
	Ifs        []IfSpec
	ReuseLocal bool // ConnOpener.UDPCanReuseLocal: sibling links get own sockets
	SCMPAuth   bool
	// Port range configuration. RangeSet=false leaves SetPortRange uncalled.
	RangeSet           bool
	PortStart, PortEnd uint16
	RangeBeforeIntf    bool // call SetPortRange before AddInternalInterface
	OverrideStart      *int // router-config override (Connector.DispatchedPortStart)
	OverrideEnd        *int
	Svc                map[addr.SVC][]netip.AddrPort
	RecvBuf, SendBuf   int
	Opener             ConnOpener // nil: NopOpener
	InternalAddr       string     // default 10.0.0.1:30042
	RouterIndex        int        // which router of the AS this is (addresses)
}

// ConnOpener is the udpip connection-opener interface.
type ConnOpener interface {
	Open(l netip.AddrPort, r netip.AddrPort, c *conn.Config) (router.BatchConn, error)
	UDPCanReuseLocal() bool
}

// OpenRecord is one observed Open call.
type OpenRecord struct {
	Local, Remote netip.AddrPort
	Cfg           conn.Config
}

// NopOpener hands out connections that never deliver and swallow writes. It
// records every Open call.
type NopOpener struct {
	Reuse bool
	Opens *[]OpenRecord
}

func (o NopOpener) Open(l, r netip.AddrPort, c *conn.Config) (router.BatchConn, error) {
	if o.Opens != nil {
		*o.Opens = append(*o.Opens, OpenRecord{Local: l, Remote: r, Cfg: *c})
	}
	return &nopConn{closed: make(chan struct{})}, nil
}
func (o NopOpener) UDPCanReuseLocal() bool { return o.Reuse }

type nopConn struct{ closed chan struct{} }

func (c *nopConn) ReadBatch(conn.Messages) (int, error) {
	<-c.closed
	return 0, fmt.Errorf("closed")
}
func (c *nopConn) WriteBatch(m conn.Messages, _ int) (int, error) { return len(m), nil }
func (c *nopConn) Close() error {
	select {
	case <-c.closed:
	default:
		close(c.closed)
	}
	return nil
}

// Star is one configured real data plane plus processors.
type Star struct {
	Cfg   StarCfg
	C     *router.Connector
	Proc  *router.VerifProc
	Opens []OpenRecord
	ifs   map[uint16]IfSpec
	pkt   *router.Packet
}

// SiblingAddr is the internal address of sibling router k (k>=1) / of the
// router itself (k=0).
func SiblingAddr(k int) netip.AddrPort {
	return netip.AddrPortFrom(netip.AddrFrom4([4]byte{10, 0, 0, byte(1 + k)}), 30042)
}

// ExtRemoteAddr is the underlay address of the far end of external interface id.
func ExtRemoteAddr(id uint16) netip.AddrPort {
	return netip.AddrPortFrom(netip.AddrFrom4([4]byte{203, 0, byte(id >> 8), byte(id)}), 50000)
}

// ExtLocalAddr is the local underlay address of external interface id.
func ExtLocalAddr(id uint16) netip.AddrPort {
	return netip.AddrPortFrom(netip.AddrFrom4([4]byte{192, 0, 2, 1}), 20000+id%20000)
}

// NewStar configures a data plane the way the router's own start-up does
// (router.Connector), with connections from the given opener.
func NewStar(cfg StarCfg) (*Star, error) {
	s := &Star{Cfg: cfg, ifs: map[uint16]IfSpec{}}
	rc := config.RouterConfig{
		ReceiveBufferSize: cfg.RecvBuf, SendBufferSize: cfg.SendBuf,
		NumProcessors: 1, NumSlowPathProcessors: 1, BatchSize: 8,
		DispatchedPortStart: cfg.OverrideStart, DispatchedPortEnd: cfg.OverrideEnd,
	}
	c := router.NewConnector(rc, env.Features{ExperimentalSCMPAuthentication: cfg.SCMPAuth})
	s.C = c
	var op ConnOpener = cfg.Opener
	if op == nil {
		op = NopOpener{Reuse: cfg.ReuseLocal, Opens: &s.Opens}
	}
	router.VerifSetConnOpener(c, "udpip", op)
	if err := c.CreateIACtx(cfg.IA); err != nil {
		return nil, err
	}
	if err := c.SetKey(cfg.IA, 0, cfg.HopKey); err != nil {
		return nil, err
	}
	if cfg.RangeSet && cfg.RangeBeforeIntf {
		c.SetPortRange(cfg.PortStart, cfg.PortEnd)
	}
	ia := cfg.InternalAddr
	if ia == "" {
		ia = SiblingAddr(cfg.RouterIndex).String()
	}
	iap := netip.MustParseAddrPort(ia)
	if err := c.AddInternalInterface(cfg.IA, addr.HostIP(iap.Addr()), "udpip", ia); err != nil {
		return nil, err
	}
	for _, f := range cfg.Ifs {
		s.ifs[f.ID] = f
		li := control.LinkInfo{
			Provider: "udpip",
			Local:    control.LinkEnd{IA: cfg.IA, IfID: iface16(f.ID)},
			Remote:   control.LinkEnd{IA: f.Remote},
			LinkTo:   f.LinkTo,
			MTU:      f.MTU,
			BFD:      control.BFD{Disable: ptr.To(!f.BFD)},
		}
		var lh, rh addr.Host
		if f.Owned {
			li.Local.Addr = ExtLocalAddr(f.ID).String()
			li.Remote.Addr = ExtRemoteAddr(f.ID).String()
			lh = addr.HostIP(ExtLocalAddr(f.ID).Addr())
			rh = addr.HostIP(ExtRemoteAddr(f.ID).Addr())
		} else {
			li.Local.Addr = ia
			li.Remote.Addr = SiblingAddr(f.Sibling).String()
			lh = addr.HostIP(iap.Addr())
			rh = addr.HostIP(SiblingAddr(f.Sibling).Addr())
		}
		if err := c.AddExternalInterface(iface16(f.ID), li, lh, rh, f.Owned); err != nil {
			return nil, fmt.Errorf("if %d: %w", f.ID, err)
		}
	}
	for svc, as := range cfg.Svc {
		for _, a := range as {
			if err := c.AddSvc(cfg.IA, svc, addr.HostIP(a.Addr()), a.Port()); err != nil {
				return nil, err
			}
		}
	}
	if cfg.RangeSet && !cfg.RangeBeforeIntf {
		c.SetPortRange(cfg.PortStart, cfg.PortEnd)
	}
	s.Proc = router.VerifNewProc(c)
	return s, nil
}

// Ingress identifies the link a test packet arrives on.
type Ingress struct {
	// IfID: 0 = the internal link (from a host, address Src). Otherwise the
	// link the data plane holds for that interface: the external link if the
	// router owns it, else the sibling link to the owning router.
	IfID uint16
	Src  *net.UDPAddr
}

// Result is everything observable about the processing of one packet.
type Result struct {
	Disp      router.VerifDisposition // fast-path disposition
	ViaSlow   bool
	SlowErr   string
	SlowKind  int
	SlowCode  int
	SlowPtr   uint16
	Out       []byte // bytes leaving the router (nil if dropped)
	Egress    uint16
	OutLink   router.Link
	OutScope  router.LinkScope
	Remote    *net.UDPAddr
	Panic     string
	Stack     string
	BufOffset int
}

// Emitted reports whether any packet left the router.
func (r *Result) Emitted() bool { return r.Out != nil }

// Forwarded reports whether the original packet went on (not an SCMP answer).
func (r *Result) Forwarded() bool { return r.Out != nil && !r.ViaSlow }

// Link returns the data plane's link for ifID.
func (s *Star) Link(ifID uint16) router.Link { return router.VerifLink(s.C, ifID) }

// Process runs the real fast path and, if requested, the real slow path on raw.
func (s *Star) Process(raw []byte, in Ingress) (res Result) {
	link := s.Link(in.IfID)
	if link == nil {
		res.Panic = fmt.Sprintf("fixture: no link for ingress %d", in.IfID)
		return
	}
	src := in.Src
	if link.Scope() != router.Internal {
		src = nil // connected / demultiplexed links do not record the source
	}
	if s.pkt == nil {
		s.pkt = router.VerifNewPacket(raw, router.VerifMinHeadroom, link, src)
	} else {
		router.VerifRefill(s.pkt, raw, router.VerifMinHeadroom, link, src)
	}
	p := s.pkt
	defer func() {
		if e := recover(); e != nil {
			res.Panic = fmt.Sprint(e)
			res.Stack = string(debug.Stack())
			res.Out = nil
			s.Proc = router.VerifNewProc(s.C) // processors may be in a bad state
		}
	}()
	res.Disp = s.Proc.Fast(p)
	switch res.Disp {
	case router.VerifForward:
		res.Egress = router.VerifEgress(p)
		res.OutLink = s.Link(res.Egress)
		if res.OutLink == nil {
			return // runProcessor drops: invalid egress
		}
		res.OutScope = res.OutLink.Scope()
		res.Remote = router.VerifRemoteAddr(p)
		res.Out = append([]byte(nil), p.RawPacket...)
		res.BufOffset = router.VerifBufferOffset(p)
	case router.VerifSlowPath:
		res.ViaSlow = true
		k, c, ptr := router.VerifSlowPathRequest(p)
		res.SlowKind, res.SlowCode, res.SlowPtr = k, int(c), ptr
		res.Egress = router.VerifEgress(p)
		if err := s.Proc.Slow(p); err != nil {
			res.SlowErr = err.Error()
			return
		}
		// slow-path output always goes back over the ingress link
		res.OutLink = p.Link
		if res.OutLink == nil {
			return
		}
		res.OutScope = res.OutLink.Scope()
		res.Remote = router.VerifRemoteAddr(p)
		res.Out = append([]byte(nil), p.RawPacket...)
		res.BufOffset = router.VerifBufferOffset(p)
	}
	return
}

// Fork returns a fixture on the SAME data plane with a packet processor and a
// packet buffer of its own, as another processor goroutine of the router has.
// Forks may be used concurrently with each other and with s.
func (s *Star) Fork() *Star {
	t := *s
	t.Proc = router.VerifNewProc(s.C)
	t.pkt = nil
	return &t
}

func iface16(id uint16) iface.ID { return iface.ID(id) }
