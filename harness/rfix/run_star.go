package rfix

import (
	"fmt"
	"math/rand/v2"
	"net/netip"
	"time"

	"github.com/scionproto/scion/pkg/addr"
	"github.com/scionproto/scion/pkg/private/ptr"
	"github.com/scionproto/scion/pkg/private/util"
	"github.com/scionproto/scion/private/env"
	"github.com/scionproto/scion/router"
	"github.com/scionproto/scion/router/config"
	"github.com/scionproto/scion/router/control"
)

// RunCfg holds what a data plane that is actually Run needs on top of StarCfg:
// the sizes of the goroutine pipeline and the BFD timers (applied to every
// BFD-enabled interface through the router configuration defaults, exactly as
// the router's own start-up does with its [router.bfd] section).
type RunCfg struct {
	NumProcessors         int
	NumSlowPathProcessors int
	BatchSize             int
	BFDDetectMult         uint8
	BFDDesiredMinTx       time.Duration
	BFDRequiredMinRx      time.Duration
}

// NewStarRun is NewStar with a caller-chosen run configuration. The returned
// Star's data plane has not been started; call s.C.DataPlane.Run(ctx).
func NewStarRun(cfg StarCfg, rcfg RunCfg) (*Star, error) {
	s := &Star{Cfg: cfg, ifs: map[uint16]IfSpec{}}
	rc := config.RouterConfig{
		ReceiveBufferSize: cfg.RecvBuf, SendBufferSize: cfg.SendBuf,
		NumProcessors: rcfg.NumProcessors, NumSlowPathProcessors: rcfg.NumSlowPathProcessors,
		BatchSize:           rcfg.BatchSize,
		DispatchedPortStart: cfg.OverrideStart, DispatchedPortEnd: cfg.OverrideEnd,
		BFD: config.BFD{
			DetectMult:            rcfg.BFDDetectMult,
			DesiredMinTxInterval:  util.DurWrap{Duration: rcfg.BFDDesiredMinTx},
			RequiredMinRxInterval: util.DurWrap{Duration: rcfg.BFDRequiredMinRx},
		},
	}
	c := router.NewConnector(rc, env.Features{ExperimentalSCMPAuthentication: cfg.SCMPAuth})
	s.C = c
	var op ConnOpener = cfg.Opener
	if op == nil {
		op = NopOpener{Reuse: cfg.ReuseLocal, Opens: &s.Opens}
	}
	router.VerifSetConnOpener(c, "udpip", op)
	if err := c.CreateIACtx(cfg.IA); err != nil {
		return nil, err
	}
	if err := c.SetKey(cfg.IA, 0, cfg.HopKey); err != nil {
		return nil, err
	}
	if cfg.RangeSet && cfg.RangeBeforeIntf {
		c.SetPortRange(cfg.PortStart, cfg.PortEnd)
	}
	ia := cfg.InternalAddr
	if ia == "" {
		ia = SiblingAddr(cfg.RouterIndex).String()
	}
	iap := netip.MustParseAddrPort(ia)
	if err := c.AddInternalInterface(cfg.IA, addr.HostIP(iap.Addr()), "udpip", ia); err != nil {
		return nil, err
	}
	for _, f := range cfg.Ifs {
		s.ifs[f.ID] = f
		li := control.LinkInfo{
			Provider: "udpip",
			Local:    control.LinkEnd{IA: cfg.IA, IfID: iface16(f.ID)},
			Remote:   control.LinkEnd{IA: f.Remote},
			LinkTo:   f.LinkTo,
			MTU:      f.MTU,
			BFD: control.BFD{Disable: ptr.To(!f.BFD), DetectMult: f.BFDMult, DesiredMinTxInterval: f.BFDTx,
				RequiredMinRxInterval: f.BFDRx},
		}
		var lh, rh addr.Host
		if f.Owned {
			li.Local.Addr = ExtLocalAddr(f.ID).String()
			li.Remote.Addr = ExtRemoteAddr(f.ID).String()
			lh = addr.HostIP(ExtLocalAddr(f.ID).Addr())
			rh = addr.HostIP(ExtRemoteAddr(f.ID).Addr())
		} else {
			li.Local.Addr = ia
			li.Remote.Addr = SiblingAddr(f.Sibling).String()
			li.Instance = fmt.Sprintf("br-%d", f.Sibling)
			lh = addr.HostIP(iap.Addr())
			rh = addr.HostIP(SiblingAddr(f.Sibling).Addr())
		}
		if err := c.AddExternalInterface(iface16(f.ID), li, lh, rh, f.Owned); err != nil {
			return nil, fmt.Errorf("if %d: %w", f.ID, err)
		}
	}
	for svc, as := range cfg.Svc {
		for _, a := range as {
			if err := c.AddSvc(cfg.IA, svc, addr.HostIP(a.Addr()), a.Port()); err != nil {
				return nil, err
			}
		}
	}
	if cfg.RangeSet && !cfg.RangeBeforeIntf {
		c.SetPortRange(cfg.PortStart, cfg.PortEnd)
	}
	s.Proc = router.VerifNewProc(c)
	return s, nil
}

// GenScenarioFit is GenScenario restricted to scenarios whose ingress and
// egress interfaces exist in the (possibly small) interface set of the star:
// it retries with fresh random choices up to tries times and returns nil if
// nothing fits.
func (s *Star) GenScenarioFit(rng *rand.Rand, shapes []Shape, now int64, tries int) *Scn {
	for i := 0; i < tries; i++ {
		sh := shapes[rng.IntN(len(shapes))]
		sc := s.GenScenario(rng, sh, now)
		if sh != ShSrc && sc.InIf == 0 {
			continue
		}
		if sh != ShDst && sc.EgIf == 0 {
			continue
		}
		return sc
	}
	return nil
}
