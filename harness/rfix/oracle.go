package rfix

import (
	"encoding/binary"
)

// HopVerdict is the reference's judgement of the hop fields a router must
// validate before forwarding or delivering a given input packet.
type HopVerdict struct {
	Parsed     bool // the packet has a SCION/EPIC path the reference understands
	Peering    bool // current hop is a peering hop
	Xover      bool // an effective cross-over follows the current hop
	CurMAC     bool // current hop MAC valid under the key for the derived SegID
	CurExpNs   int64
	NextMAC    bool // (Xover only) first hop of next segment valid
	NextExpNs  int64
	CurHopOff  int
	NextHopOff int
}

func be16(b []byte) uint16 { return binary.BigEndian.Uint16(b) }

// JudgeHops recomputes, independently of the router, whether the hop fields the
// router under test has to validate on this input are authentic under hopKey.
// fromOutside says whether the packet arrived over an external link (the
// router then applies the against-construction-direction ingress update).
func JudgeHops(in []byte, hopKey []byte, fromOutside bool) HopVerdict {
	var v HopVerdict
	h, err := ParseHdr(in)
	if err != nil || (h.PathType != 1 && h.PathType != 3) {
		return v
	}
	v.Parsed = true
	cur := h.CurrHF
	info := in[h.InfoOff[h.CurrINF]:]
	consDir := info[0]&1 != 0
	peerFlag := info[0]&2 != 0
	segID := be16(info[2:4])
	ts := binary.BigEndian.Uint32(info[4:8])
	hop := in[h.HopOff[cur]:]
	v.CurHopOff = h.HopOff[cur]
	v.Peering = peerFlag && (cur == h.SegLen[0]-1 || cur == h.SegLen[0])
	exp := hop[1]
	ci, ce := be16(hop[2:4]), be16(hop[4:6])
	if !consDir && fromOutside && !v.Peering {
		segID ^= be16(hop[6:8])
	}
	want := HopMAC(hopKey, segID, ts, exp, ci, ce)
	v.CurMAC = string(want[:6]) == string(hop[6:12])
	v.CurExpNs = int64(ts)*1_000_000_000 + ExpDurationNs(exp)
	// effective cross-over: last hop of its segment, not last of path, not peering
	if cur+1 < h.NumHF && h.SegOfHop(cur+1) != h.CurrINF && !v.Peering {
		v.Xover = true
		ninfo := in[h.InfoOff[h.CurrINF+1]:]
		nhop := in[h.HopOff[cur+1]:]
		v.NextHopOff = h.HopOff[cur+1]
		nts := binary.BigEndian.Uint32(ninfo[4:8])
		nwant := HopMAC(hopKey, be16(ninfo[2:4]), nts, nhop[1], be16(nhop[2:4]), be16(nhop[4:6]))
		v.NextMAC = string(nwant[:6]) == string(nhop[6:12])
		v.NextExpNs = int64(nts)*1_000_000_000 + ExpDurationNs(nhop[1])
	}
	return v
}

// SCMPInfo is what the reference extracts from an SCMP message emitted by a router.
type SCMPInfo struct {
	OK       bool
	Hdr      *Hdr
	Type     uint8
	Code     uint8
	Pointer  uint16 // parameter problem only
	Upper    []byte // SCMP header + body (+ quote)
	Quote    []byte
	HasE2E   bool
	E2E      []byte
	CsumOK   bool
	IA       uint64 // interface-down / connectivity-down / traceroute
	IfA, IfB uint64
	Ident    uint16
	Seq      uint16
}

// ParseSCMP parses a router-emitted packet expected to carry SCMP, possibly
// behind an end-to-end extension (authenticated SCMP).
func ParseSCMP(out []byte) SCMPInfo {
	var s SCMPInfo
	h, err := ParseHdr(out)
	if err != nil {
		return s
	}
	s.Hdr = h
	nh := h.NextHdr
	body := out[h.PayloadOff:]
	if nh == 201 { // end-to-end extension
		if len(body) < 2 {
			return s
		}
		l := (int(body[1]) + 1) * 4
		if l > len(body) {
			return s
		}
		s.HasE2E = true
		s.E2E = body[:l]
		nh = body[0]
		body = body[l:]
	}
	if nh != 202 || len(body) < 4 {
		return s
	}
	s.Upper = body
	s.Type, s.Code = body[0], body[1]
	s.CsumOK = UpperLayerCsumOK(h, out, 202, body)
	switch s.Type {
	case 1, 2, 3: // dest unreachable, packet too big: 4 bytes unused/MTU
		if len(body) < 8 {
			return s
		}
		s.Quote = body[8:]
	case 4: // parameter problem: 2 reserved + 2 pointer
		if len(body) < 8 {
			return s
		}
		s.Pointer = be16(body[6:8])
		s.Quote = body[8:]
	case 5: // external interface down: IA + ifID
		if len(body) < 4+16 {
			return s
		}
		s.IA = binary.BigEndian.Uint64(body[4:12])
		s.IfA = binary.BigEndian.Uint64(body[12:20])
		s.Quote = body[20:]
	case 6: // internal connectivity down: IA + ingress + egress
		if len(body) < 4+24 {
			return s
		}
		s.IA = binary.BigEndian.Uint64(body[4:12])
		s.IfA = binary.BigEndian.Uint64(body[12:20])
		s.IfB = binary.BigEndian.Uint64(body[20:28])
		s.Quote = body[28:]
	case 128, 129: // echo
		if len(body) < 8 {
			return s
		}
		s.Ident, s.Seq = be16(body[4:6]), be16(body[6:8])
	case 130, 131: // traceroute: id, seq, IA, ifID
		if len(body) < 4+4+16 {
			return s
		}
		s.Ident, s.Seq = be16(body[4:6]), be16(body[6:8])
		s.IA = binary.BigEndian.Uint64(body[8:16])
		s.IfA = binary.BigEndian.Uint64(body[16:24])
	default:
		return s
	}
	s.OK = true
	return s
}
