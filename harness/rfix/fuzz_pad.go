package rfix

import (
	"math/rand/v2"
)

// FuzzPadSegments lengthens the scenario's path: extra[i] hop fields of
// foreign ASes (random MAC, maximal lifetime) are inserted into segment i at
// travel position 1, i.e. between the first and the second traversed hop.
// Every segment has at least two hops, so first and last hops of each segment
// (and with them the role of the AS under test: source, destination,
// cross-over, peering hop) keep their place. Segments are re-sealed, so the
// hop fields of the AS under test stay authentic along the new accumulator
// chain. Spec.Cur and LocalHops are re-indexed.
//
// The caller keeps the totals within the format limits (<= 63 hops per
// segment, <= 64 in total).
func (sc *Scn) FuzzPadSegments(rng *rand.Rand, extra []int) {
	remap := map[int]int{}
	base, shift := 0, 0
	for i, u := range sc.Spec.Segs {
		n := len(u.Seg.Hops)
		k := 0
		if i < len(extra) {
			k = extra[i]
		}
		for t := 0; t < n; t++ {
			ng := base + t + shift
			if t >= 1 {
				ng += k
			}
			remap[base+t] = ng
		}
		if k > 0 {
			tr := make([]Hop, 0, n+k)
			for t := 0; t < n; t++ {
				tr = append(tr, u.Seg.Hops[u.consIdx(t)])
				if t == 0 {
					for j := 0; j < k; j++ {
						tr = append(tr, Hop{ConsIn: randIf(rng), ConsEg: randIf(rng), Exp: 255})
					}
				}
			}
			m := len(tr)
			hops := make([]Hop, m)
			for t := range tr {
				ci := t
				if !u.ConsDir {
					ci = m - 1 - t
				}
				hops[ci] = tr[t]
			}
			u.Seg.Hops = hops
			u.Seg.Seal(rng)
		}
		base += n
		shift += k
	}
	sc.Spec.Cur = remap[sc.Spec.Cur]
	for i, g := range sc.LocalHops {
		sc.LocalHops[i] = remap[g]
	}
}

// FuzzSetEgress rewrites the egress interface (in travel direction) of the
// hop field at global travel index g and re-seals its segment, so that the
// hop stays authentic.
func (sc *Scn) FuzzSetEgress(rng *rand.Rand, g int, eg uint16) {
	si, _ := sc.Spec.Locate(g)
	u := sc.Spec.Segs[si]
	h := sc.Spec.HopAt(g)
	if u.ConsDir {
		h.ConsEg = eg
	} else {
		h.ConsIn = eg
	}
	u.Seg.Seal(rng)
}

// FuzzConsDirOf reports the construction-direction flag of the segment that
// contains global hop g.
func (sc *Scn) FuzzConsDirOf(g int) bool {
	si, _ := sc.Spec.Locate(g)
	return sc.Spec.Segs[si].ConsDir
}

// FuzzPickIf exposes the fixture's interface picker: an interface of the given
// link type (owned: 1 owned here, 0 sibling-owned, -1 any) other than not.
func (s *Star) FuzzPickIf(rng *rand.Rand, lt int, owned int, not uint16) (IfSpec, bool) {
	var c []IfSpec
	for _, f := range s.Cfg.Ifs {
		if (lt < 0 || int(f.LinkTo) == lt) && f.ID != not && (owned < 0 || (owned == 1) == f.Owned) {
			c = append(c, f)
		}
	}
	if len(c) == 0 {
		return IfSpec{}, false
	}
	return c[rng.IntN(len(c))], true
}

// FuzzIf returns the spec of interface id.
func (s *Star) FuzzIf(id uint16) (IfSpec, bool) {
	f, ok := s.ifs[id]
	return f, ok
}
