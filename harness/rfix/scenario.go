package rfix

import (
	"math/rand/v2"
	"net"

	"github.com/scionproto/scion/pkg/addr"
	"github.com/scionproto/scion/private/topology"
)

// SegKind is the role of a segment in a path.
type SegKind int

const (
	KUp SegKind = iota
	KCore
	KDown
)

// Shape is the role of the AS under test in a generated path.
type Shape int

const (
	ShSrc Shape = iota
	ShDst
	ShTransit
	ShXover
	ShPeerUp   // last hop of the up segment is this AS's peering hop
	ShPeerDown // first hop of the down segment is this AS's peering hop
	NumShapes
)

func (s Shape) String() string {
	return [...]string{"src", "dst", "transit", "xover", "peer-up", "peer-down"}[s]
}

// Scn is one generated valid packet scenario for the star fixture.
type Scn struct {
	Shape      Shape
	Kinds      []SegKind
	ConsDirs   []bool
	Spec       *PathSpec
	Arr        Arrival
	In         Ingress
	SrcIA      addr.IA
	DstIA      addr.IA
	SrcHost    addr.Host
	DstHost    addr.Host
	InIf, EgIf uint16 // AS-level ingress/egress interface (0 = none)
	EgOwned    bool
	LocalHops  []int // global hop indices issued by the AS under test
	Deliver    bool  // expected: handed to a local host
}

// StdIfs is the standard interface set of the star fixture: for each link type
// two interfaces owned by the router under test and two owned by siblings 1, 2.
func StdIfs(rng *rand.Rand) []IfSpec {
	var out []IfSpec
	used := map[uint16]bool{0: true}
	pick := func() uint16 {
		for {
			var v uint16
			switch rng.IntN(3) {
			case 0:
				v = uint16(1 + rng.IntN(64))
			case 1:
				v = uint16(1 + rng.IntN(65535))
			default:
				v = uint16(65535 - rng.IntN(16))
			}
			if !used[v] {
				used[v] = true
				return v
			}
		}
	}
	n := 0
	for _, lt := range []topology.LinkType{topology.Core, topology.Parent, topology.Child, topology.Peer} {
		for k := 0; k < 4; k++ {
			n++
			out = append(out, IfSpec{
				ID: pick(), LinkTo: lt,
				Remote: addr.MustIAFrom(addr.ISD(1+n%3), addr.AS(0xff00_0000_0200+uint64(n))),
				Owned:  k < 2, Sibling: 1 + k%2, MTU: 1400,
			})
		}
	}
	return out
}

func (s *Star) pickIf(rng *rand.Rand, lt topology.LinkType, owned int, not uint16) (IfSpec, bool) {
	var c []IfSpec
	for _, f := range s.Cfg.Ifs {
		if f.LinkTo == lt && f.ID != not && (owned < 0 || (owned == 1) == f.Owned) {
			c = append(c, f)
		}
	}
	if len(c) == 0 {
		return IfSpec{}, false
	}
	return c[rng.IntN(len(c))], true
}

func randIf(rng *rand.Rand) uint16 { return uint16(1 + rng.IntN(65535)) }

var kindSets = [][]SegKind{
	{KUp}, {KDown}, {KCore}, {KUp, KCore}, {KCore, KDown}, {KUp, KDown}, {KUp, KCore, KDown},
}

func travelTypes(k SegKind) (in, eg topology.LinkType) {
	switch k {
	case KUp:
		return topology.Child, topology.Parent
	case KDown:
		return topology.Parent, topology.Child
	}
	return topology.Core, topology.Core
}

// OtherIA is a fixed foreign ISD-AS used as far end of generated paths.
var OtherIA = addr.MustParseIA("2-ff00:0:999")

// GenScenario builds a packet path on which the AS under test plays the given
// role with link types that the SCION path rules allow, hop fields of this AS
// MACed with its real hop key along a correct accumulator chain, and all
// timestamps fresh relative to now (seconds).
func (s *Star) GenScenario(rng *rand.Rand, shape Shape, now int64) *Scn {
	return s.GenScenarioOpt(rng, shape, now, ScnOpt{})
}

// ScnOpt overrides choices of GenScenarioOpt. A non-nil InIf/EgIf is used as
// the AS-level ingress/egress interface whatever its link type or ownership
// (EgIf may name an interface that is not configured at all).
type ScnOpt struct {
	InIf, EgIf *IfSpec
	Kinds      []SegKind
	// KeepPreXover: for a cross-over scenario arriving over the internal
	// network, leave the current hop at the last hop of the first segment (as
	// if this router, not the ingress router, had to effect the segment switch).
	KeepPreXover bool
}

// GenScenarioOpt is GenScenario with overrides; the result is a valid packet
// only if the overrides respect the path rules.
func (s *Star) GenScenarioOpt(rng *rand.Rand, shape Shape, now int64, opt ScnOpt) *Scn {
	sc := &Scn{Shape: shape, SrcIA: OtherIA, DstIA: addr.MustParseIA("3-ff00:0:777")}
	sc.SrcHost, sc.DstHost = RandHost(rng), RandHost(rng)
	var kinds []SegKind
	peer := shape == ShPeerUp || shape == ShPeerDown
	switch {
	case peer:
		kinds = []SegKind{KUp, KDown}
	case shape == ShXover:
		kinds = kindSets[3+rng.IntN(4)]
	default:
		kinds = kindSets[rng.IntN(len(kindSets))]
	}
	if opt.Kinds != nil {
		kinds = opt.Kinds
	}
	sc.Kinds = kinds
	// segment skeletons in travel order
	type thop struct {
		in, eg uint16
		local  bool
	}
	segs := make([][]thop, len(kinds))
	for i := range kinds {
		n := 2 + rng.IntN(4)
		segs[i] = make([]thop, n)
		for t := range segs[i] {
			segs[i][t] = thop{in: randIf(rng), eg: randIf(rng)}
		}
	}
	segs[0][0].in = 0
	last := len(kinds) - 1
	segs[last][len(segs[last])-1].eg = 0
	for i := 0; i < last && !peer; i++ {
		// non-shortcut joins end/start with interface 0 half of the time
		if rng.IntN(2) == 0 {
			segs[i][len(segs[i])-1].eg = 0
		}
		if rng.IntN(2) == 0 {
			segs[i+1][0].in = 0
		}
	}
	// place the AS under test
	var si, t int
	switch shape {
	case ShSrc:
		si, t = 0, 0
	case ShDst:
		si, t = last, len(segs[last])-1
	case ShTransit:
		si = rng.IntN(len(kinds))
		if len(segs[si]) < 3 {
			segs[si] = append(segs[si], thop{in: randIf(rng), eg: segs[si][len(segs[si])-1].eg})
			segs[si][len(segs[si])-2].eg = randIf(rng)
		}
		t = 1 + rng.IntN(len(segs[si])-2)
	case ShXover:
		si = rng.IntN(last)
		t = len(segs[si]) - 1
	case ShPeerUp:
		si, t = 0, len(segs[0])-1
	case ShPeerDown:
		si, t = 1, 0
	}
	inLT, egLT := travelTypes(kinds[si])
	if shape == ShXover {
		_, egLT = travelTypes(kinds[si+1])
		if kinds[si] == KUp && kinds[si+1] == KDown {
			egLT = topology.Child
		}
	}
	if shape == ShPeerUp {
		egLT = topology.Peer
	}
	if shape == ShPeerDown {
		inLT = topology.Peer
	}
	var inIf, egIf IfSpec
	switch shape {
	case ShSrc:
		egIf, _ = s.pickIf(rng, egLT, 1, 0)
		sc.SrcIA = s.Cfg.IA
		sc.In = Ingress{IfID: 0, Src: &net.UDPAddr{IP: sc.SrcHost.IP().AsSlice(), Port: 30000 + rng.IntN(1000)}}
		sc.Arr = ArrInternal
	case ShDst:
		// inbound packets are delivered by the ingress router itself, never
		// handed to a sibling: the ingress interface is owned.
		inIf, _ = s.pickIf(rng, inLT, 1, 0)
		sc.DstIA = s.Cfg.IA
		sc.Deliver = true
	default:
		inIf, _ = s.pickIf(rng, inLT, -1, 0)
		own := -1
		if !inIf.Owned {
			own = 1
		}
		egIf, _ = s.pickIf(rng, egLT, own, inIf.ID)
	}
	if opt.InIf != nil && shape != ShSrc {
		inIf = *opt.InIf
	}
	if opt.EgIf != nil && shape != ShDst {
		egIf = *opt.EgIf
	}
	if shape != ShSrc {
		sc.In = Ingress{IfID: inIf.ID}
		sc.Arr = ArrExternal
		if !inIf.Owned {
			sc.Arr = ArrInternal
		}
	}
	sc.InIf, sc.EgIf, sc.EgOwned = inIf.ID, egIf.ID, egIf.Owned
	segs[si][t].local = true
	if shape != ShSrc {
		segs[si][t].in = inIf.ID
	}
	if shape == ShXover {
		segs[si+1][0].local = true
		segs[si+1][0].eg = egIf.ID
	} else if shape != ShDst {
		segs[si][t].eg = egIf.ID
	}
	// materialize
	spec := &PathSpec{}
	g := 0
	for i, k := range kinds {
		consDir := k == KDown
		if k == KCore {
			consDir = rng.IntN(2) == 0
		}
		sc.ConsDirs = append(sc.ConsDirs, consDir)
		seg := &Segment{
			Ts:   uint32(now - int64(rng.IntN(3000)) - 5),
			Peer: peer,
			B0:   uint16(rng.IntN(1 << 16)),
			Hops: make([]Hop, len(segs[i])),
		}
		u := SegUse{Seg: seg, ConsDir: consDir}
		for tt, th := range segs[i] {
			h := &seg.Hops[u.consIdx(tt)]
			h.Exp = uint8(20 + rng.IntN(236)) // >= ~2h lifetime: fresh
			if consDir {
				h.ConsIn, h.ConsEg = th.in, th.eg
			} else {
				h.ConsIn, h.ConsEg = th.eg, th.in
			}
			if th.local {
				h.Key = s.Cfg.HopKey
				sc.LocalHops = append(sc.LocalHops, g)
				if i == si && tt == t {
					spec.Cur = g
				}
			}
			g++
		}
		seg.Seal(rng)
		spec.Segs = append(spec.Segs, u)
	}
	if shape == ShXover && !inIf.Owned && !opt.KeepPreXover {
		// The sibling (ingress) router has already switched segments: the
		// packet arrives with the next segment's first hop current, and only
		// that hop is validated here.
		spec.Cur = sc.LocalHops[1]
		sc.LocalHops = sc.LocalHops[1:]
	}
	sc.Spec = spec
	return sc
}

// Packet builds the scenario's packet bytes (SCION path type, UDP payload by
// default) for arrival as described by the scenario.
func (sc *Scn) Packet(rng *rand.Rand, mod func(*PktSpec)) ([]byte, error) {
	ps := &PktSpec{
		SrcIA: sc.SrcIA, DstIA: sc.DstIA, SrcHost: sc.SrcHost, DstHost: sc.DstHost,
		Path: sc.Spec.Decoded(sc.Arr), PathType: 1,
		TC: uint8(rng.IntN(256)), FlowID: uint32(rng.IntN(1 << 20)),
		L4: L4UDP, SrcPort: uint16(1024 + rng.IntN(60000)), DstPort: uint16(1024 + rng.IntN(60000)),
		Payload: make([]byte, rng.IntN(200)),
	}
	for i := range ps.Payload {
		ps.Payload[i] = byte(rng.IntN(256))
	}
	if mod != nil {
		mod(ps)
	}
	return ps.Build()
}
