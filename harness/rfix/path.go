package rfix

import (
	"math/rand/v2"

	"github.com/scionproto/scion/pkg/slayers/path"
	"github.com/scionproto/scion/pkg/slayers/path/scion"
)

// Hop is one hop field of a segment, in construction order.
type Hop struct {
	ConsIn, ConsEg uint16
	Exp            uint8
	// Key is the hop key of the AS that issued the hop field; nil means "some
	// other AS": the MAC is random bytes.
	Key     []byte
	Beta    uint16 // accumulator value the MAC was computed with
	Mac     [6]byte
	Full    [16]byte
	InAlert bool
	EgAlert bool
}

// Segment is a path segment in construction order. With Peer set, Hops[0] is
// a peering hop field: its MAC is chained to the same accumulator value as
// Hops[1] and does not take part in the chain.
type Segment struct {
	Ts   uint32
	Peer bool
	B0   uint16
	Hops []Hop
}

// Seal computes accumulator values and MACs along the segment per
// doc/protocols/scion-header.rst: beta_{i+1} = beta_i XOR mac_i[:2]; a peering
// hop uses the beta of the following hop and is not chained.
func (s *Segment) Seal(rng *rand.Rand) {
	beta := s.B0
	for i := range s.Hops {
		h := &s.Hops[i]
		h.Beta = beta
		if h.Key != nil {
			h.Full = HopMAC(h.Key, h.Beta, s.Ts, h.Exp, h.ConsIn, h.ConsEg)
		} else {
			for j := range h.Full {
				h.Full[j] = byte(rng.IntN(256))
			}
		}
		copy(h.Mac[:], h.Full[:6])
		if s.Peer && i == 0 {
			continue
		}
		beta ^= uint16(h.Mac[0])<<8 | uint16(h.Mac[1])
	}
}

// SegUse is a segment as used in a path: traversed in construction direction
// or against it.
type SegUse struct {
	Seg     *Segment
	ConsDir bool
}

// travel returns the construction-order index of the hop at travel position t.
func (u SegUse) consIdx(t int) int {
	if u.ConsDir {
		return t
	}
	return len(u.Seg.Hops) - 1 - t
}

// Arrival says how the packet reaches the router under test, which determines
// the accumulator value the current info field must carry on the wire.
type Arrival int

const (
	// ArrExternal: from the neighbouring AS over an external link.
	ArrExternal Arrival = iota
	// ArrInternal: from a host of this AS or from the sibling router that
	// already did the ingress processing.
	ArrInternal
)

// PathSpec is a 1-3 segment path with the current hop at global travel index Cur.
type PathSpec struct {
	Segs []SegUse
	Cur  int
}

// Locate returns (segment index, travel position in it) of global hop g.
func (p *PathSpec) Locate(g int) (int, int) {
	for i, u := range p.Segs {
		if g < len(u.Seg.Hops) {
			return i, g
		}
		g -= len(u.Seg.Hops)
	}
	return -1, -1
}

// NumHops is the total number of hop fields.
func (p *PathSpec) NumHops() int {
	n := 0
	for _, u := range p.Segs {
		n += len(u.Seg.Hops)
	}
	return n
}

// HopAt returns the hop at global travel index g.
func (p *PathSpec) HopAt(g int) *Hop {
	si, t := p.Locate(g)
	u := p.Segs[si]
	return &u.Seg.Hops[u.consIdx(t)]
}

func mac2(h *Hop) uint16 { return uint16(h.Mac[0])<<8 | uint16(h.Mac[1]) }

// initialSegID is the value a source puts in the info field of a segment that
// has not been entered yet: the accumulator of the first traversed hop.
func (u SegUse) initialSegID() uint16 {
	return u.Seg.Hops[u.consIdx(0)].Beta
}

// wireSegID is the accumulator value on the wire for the current segment when
// the packet arrives at travel position t of segment u.
func (u SegUse) wireSegID(t int, arr Arrival, isPeerHop bool) uint16 {
	h := &u.Seg.Hops[u.consIdx(t)]
	if u.ConsDir || arr == ArrInternal || isPeerHop {
		return h.Beta
	}
	// against construction direction, arriving from outside: the ingress
	// router still has to XOR this hop's MAC in.
	return h.Beta ^ mac2(h)
}

// IsPeerHop reports whether global hop g is a peering hop field of the path.
func (p *PathSpec) IsPeerHop(g int) bool {
	si, t := p.Locate(g)
	u := p.Segs[si]
	return u.Seg.Peer && u.consIdx(t) == 0
}

// Decoded renders the path for a packet arriving at the current hop by arr.
// Segments already traversed carry the value of their last traversed hop,
// segments still ahead carry their initial value.
func (p *PathSpec) Decoded(arr Arrival) *scion.Decoded {
	d := &scion.Decoded{}
	csi, ct := p.Locate(p.Cur)
	d.PathMeta.CurrHF = uint8(p.Cur)
	d.PathMeta.CurrINF = uint8(csi)
	d.NumINF = len(p.Segs)
	for i, u := range p.Segs {
		n := len(u.Seg.Hops)
		d.PathMeta.SegLen[i] = uint8(n)
		d.NumHops += n
		var segID uint16
		switch {
		case i < csi:
			segID = u.Seg.Hops[u.consIdx(n-1)].Beta
		case i == csi:
			segID = u.wireSegID(ct, arr, p.IsPeerHop(p.Cur))
		default:
			segID = u.initialSegID()
		}
		d.InfoFields = append(d.InfoFields, path.InfoField{
			ConsDir: u.ConsDir, Peer: u.Seg.Peer, SegID: segID, Timestamp: u.Seg.Ts,
		})
		for t := 0; t < n; t++ {
			h := &u.Seg.Hops[u.consIdx(t)]
			d.HopFields = append(d.HopFields, path.HopField{
				IngressRouterAlert: h.InAlert, EgressRouterAlert: h.EgAlert,
				ExpTime: h.Exp, ConsIngress: h.ConsIn, ConsEgress: h.ConsEg, Mac: h.Mac,
			})
		}
	}
	return d
}
