// Package drkeyref is the independent reference of the drkey binary (C39,
// C40): the DRKey derivations of doc/cryptography/drkey.rst implemented on
// crypto/aes (AES-CBC-MAC with a zero IV over zero-padded inputs), the
// canonical wire form of host addresses, and the SPAO acceptance-window rule.
// It does not import pkg/drkey, pkg/slayers or pkg/spao.
package drkeyref

import (
	"crypto/aes"
	"encoding/binary"
	"fmt"
	"net/netip"
	"time"
)

// Key is a 128-bit DRKey.
type Key [16]byte

// Derivation type codes: the documentation lists the types in this order
// (AS-AS, AS-host, host-AS, host-host) without giving numbers; 0..3 is taken
// on trust.
const (
	TypeASAS     = 0
	TypeASHost   = 1
	TypeHostAS   = 2
	TypeHostHost = 3
)

// Host address type/length nibbles of the SCION common header (DT/DL).
const (
	HostIPv4 = 0x0 // T=0 L=0
	HostIPv6 = 0x3 // T=0 L=3
	HostSVC  = 0x4 // T=1 L=0
)

// Host is a host address in SCION address-header form.
type Host struct {
	Type  byte
	Bytes []byte // 4 (IPv4), 16 (IPv6) or 4 (SVC: 2-byte value + 2 zero bytes)
}

func (h Host) Canon() string { return fmt.Sprintf("%x:%x", h.Type, h.Bytes) }

// HostFromIP gives the wire form of an IP host. IPv4-mapped IPv6 addresses are
// the IPv4 host (SCION carries them as 4-byte addresses).
func HostFromIP(a netip.Addr) Host {
	a = a.Unmap()
	if a.Is4() {
		b := a.As4()
		return Host{Type: HostIPv4, Bytes: b[:]}
	}
	b := a.As16()
	return Host{Type: HostIPv6, Bytes: b[:]}
}

// HostFromSVC gives the wire form of a service address.
func HostFromSVC(v uint16) Host {
	return Host{Type: HostSVC, Bytes: []byte{byte(v >> 8), byte(v), 0, 0}}
}

// cbcMAC is AES-CBC-MAC with a zero IV over a message whose length is a
// multiple of the block size.
func cbcMAC(key Key, msg []byte) Key {
	c, err := aes.NewCipher(key[:])
	if err != nil {
		panic(err)
	}
	if len(msg) == 0 || len(msg)%16 != 0 {
		panic("cbcMAC: message not block aligned")
	}
	var state [16]byte
	for off := 0; off < len(msg); off += 16 {
		for i := 0; i < 16; i++ {
			state[i] ^= msg[off+i]
		}
		c.Encrypt(state[:], state[:])
	}
	return state
}

func pad(b []byte) []byte {
	n := (len(b) + 15) / 16 * 16
	out := make([]byte, n)
	copy(out, b)
	return out
}

// InputLevel1 is type || ISD-AS(B).
func InputLevel1(dstIA uint64) []byte {
	b := make([]byte, 9)
	b[0] = TypeASAS
	binary.BigEndian.PutUint64(b[1:], dstIA)
	return b
}

// InputLevel2Specific is type || len/type(H) || H.
func InputLevel2Specific(typ byte, h Host) []byte {
	return append([]byte{typ, h.Type & 0xf}, h.Bytes...)
}

// InputLevel2Generic is type || protocol || len/type(H) || H.
func InputLevel2Generic(typ byte, proto uint16, h Host) []byte {
	return append([]byte{typ, byte(proto >> 8), byte(proto), h.Type & 0xf}, h.Bytes...)
}

// InputHostHost is type || len/type(H_B) || H_B.
func InputHostHost(h Host) []byte {
	return append([]byte{TypeHostHost, h.Type & 0xf}, h.Bytes...)
}

// PRF applies the documented PRF to an (unpadded) input.
func PRF(key Key, input []byte) Key { return cbcMAC(key, pad(input)) }

// HasSpecific reports whether a protocol-specific derivation exists for the
// protocol (drkey.rst "Assigned Protocol Identifiers": 1 = SCMP).
func HasSpecific(proto uint16) bool { return proto == 1 }

// Level1Proto is the protocol of the level-1 key (and secret value) under
// which level-2/3 keys of proto are derived: the protocol itself if it has a
// specific derivation, GENERIC (0) otherwise.
func Level1Proto(proto uint16) uint16 {
	if HasSpecific(proto) {
		return proto
	}
	return 0
}

// Level1 derives K_{A,B} from SV_A.
func Level1(sv Key, dstIA uint64) Key { return PRF(sv, InputLevel1(dstIA)) }

// Level2 derives an AS-host or host-AS key from the level-1 key.
func Level2(lvl1 Key, typ byte, proto uint16, h Host) Key {
	if HasSpecific(proto) {
		return PRF(lvl1, InputLevel2Specific(typ, h))
	}
	return PRF(lvl1, InputLevel2Generic(typ, proto, h))
}

// HostHost derives K_{A:H_A,B:H_B} from the host-AS key.
func HostHost(hostAS Key, dst Host) Key { return PRF(hostAS, InputHostHost(dst)) }

// GracePeriod is GRACE_PERIOD of drkey.rst.
const GracePeriod = 5 * time.Second

// Epoch is a validity period [Begin, End).
type Epoch struct{ Begin, End time.Time }

// WindowOK is the soundness condition of C39 for a key selected for relative
// timestamp ts (nanoseconds since the epoch start) by a receiver whose clock
// reads now and whose acceptance window has the given width: the absolute
// time lies in the acceptance window and in the epoch's validity extended by
// the grace period (bounds inclusive: the most permissive reading).
func WindowOK(e Epoch, ts uint64, now time.Time, window time.Duration) (abs time.Time, inWindow, inEpoch bool) {
	abs = e.Begin.Add(time.Duration(ts))
	lo, hi := now.Add(-window/2), now.Add(window/2)
	inWindow = !abs.Before(lo) && !abs.After(hi)
	inEpoch = !abs.Before(e.Begin) && !abs.After(e.End.Add(GracePeriod))
	return
}

// EpochsAround returns the epochs i-1, i, i+1 of a fixed-length epoch grid
// anchored at the Unix epoch, where epoch i contains now.
func EpochsAround(now time.Time, length time.Duration) [3]Epoch {
	l := int64(length / time.Second)
	s := now.Unix()
	i := s / l
	if s < 0 && s%l != 0 {
		i--
	}
	var out [3]Epoch
	for k := -1; k <= 1; k++ {
		b := (i + int64(k)) * l
		out[k+1] = Epoch{Begin: time.Unix(b, 0), End: time.Unix(b+l, 0)}
	}
	return out
}
