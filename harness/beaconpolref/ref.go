// Package beaconpolref is the reference model for property C25 (only valid,
// policy-conforming beacons are stored and propagated). It is written from the
// property statement and doc/manuals/control.rst (beacon policy filters) and
// imports nothing from scion: ISD-AS values are plain 64-bit numbers
// (ISD in the top 16 bits, AS in the low 48).
package beaconpolref

import (
	"sort"
	"strings"
)

// IA is an ISD-AS value: ISD<<48 | AS.
type IA uint64

func (ia IA) ISD() uint16 { return uint16(ia >> 48) }
func (ia IA) AS() uint64  { return uint64(ia) & (1<<48 - 1) }

// Link is the kind of link an interface is configured with.
type Link int

const (
	LinkUnset Link = iota
	LinkCore
	LinkParent
	LinkChild
	LinkPeer
)

func (l Link) String() string {
	switch l {
	case LinkCore:
		return "core"
	case LinkParent:
		return "parent"
	case LinkChild:
		return "child"
	case LinkPeer:
		return "peer"
	}
	return "unset"
}

// Documented defaults of a policy filter whose fields are left unset.
const (
	DefaultMaxLen       = 10
	DefaultAllowISDLoop = true
)

// Filter is the filter part of one beacon policy.
type Filter struct {
	// MaxLen is the upper bound for the number of AS entries of a received
	// beacon; 0 means unset (DefaultMaxLen).
	MaxLen int
	// ASBlock lists AS numbers (without ISD) that must not appear.
	ASBlock []uint64
	// ISDBlock lists ISDs that must not appear.
	ISDBlock []uint16
	// AllowISDLoop nil means unset (DefaultAllowISDLoop).
	AllowISDLoop *bool
}

func (f Filter) EffMaxLen() int {
	if f.MaxLen == 0 {
		return DefaultMaxLen
	}
	return f.MaxLen
}

func (f Filter) EffAllowISDLoop() bool {
	if f.AllowISDLoop == nil {
		return DefaultAllowISDLoop
	}
	return *f.AllowISDLoop
}

// HasASLoop reports whether some AS appears twice in hops.
func HasASLoop(hops []IA) bool {
	for i := range hops {
		for j := i + 1; j < len(hops); j++ {
			if hops[i] == hops[j] {
				return true
			}
		}
	}
	return false
}

// ISDSequence is the sequence of ISDs visited: consecutive hops in the same
// ISD count as one visit.
func ISDSequence(hops []IA) []uint16 {
	var visits []uint16
	for _, h := range hops {
		if n := len(visits); n > 0 && visits[n-1] == h.ISD() {
			continue
		}
		visits = append(visits, h.ISD())
	}
	return visits
}

// HasISDLoop reports whether the hop sequence leaves an ISD and later
// re-enters it.
func HasISDLoop(hops []IA) bool {
	visits := ISDSequence(hops)
	for i := range visits {
		for j := i + 1; j < len(visits); j++ {
			if visits[i] == visits[j] {
				return true
			}
		}
	}
	return false
}

// TooLong, BlockedAS, BlockedISD are the individual filter clauses.
func (f Filter) TooLong(hops []IA) bool { return len(hops) > f.EffMaxLen() }

func (f Filter) BlockedAS(hops []IA) bool {
	for _, h := range hops {
		for _, a := range f.ASBlock {
			if h.AS() == a {
				return true
			}
		}
	}
	return false
}

func (f Filter) BlockedISD(hops []IA) bool {
	for _, h := range hops {
		for _, i := range f.ISDBlock {
			if h.ISD() == i {
				return true
			}
		}
	}
	return false
}

// Check says whether the policy accepts a received beacon with the given AS
// entries (hops[i] = ISD-AS of entry i) and, if not, why ("+"-joined list of
// all failing clauses in fixed order).
func (f Filter) Check(hops []IA) (bool, string) {
	var why []string
	if f.TooLong(hops) {
		why = append(why, "maxlen")
	}
	if HasASLoop(hops) {
		why = append(why, "asloop")
	}
	if !f.EffAllowISDLoop() && HasISDLoop(hops) {
		why = append(why, "isdloop")
	}
	if f.BlockedAS(hops) {
		why = append(why, "as")
	}
	if f.BlockedISD(hops) {
		why = append(why, "isd")
	}
	return len(why) == 0, strings.Join(why, "+")
}

// Usage names, in the fixed order used for usage-set strings.
const (
	Prop    = "Prop"
	UpReg   = "UpReg"
	DownReg = "DownReg"
	CoreReg = "CoreReg"
)

// Policies is the policy set of one beacon store: a non-core store has Prop,
// UpReg and DownReg, a core store has Prop and CoreReg.
type Policies struct {
	Core                          bool
	Prop, UpReg, DownReg, CoreReg Filter
}

// Names returns the usages that exist for this kind of store.
func (p Policies) Names() []string {
	if p.Core {
		return []string{Prop, CoreReg}
	}
	return []string{Prop, UpReg, DownReg}
}

// Filter returns the filter of the named policy.
func (p Policies) Filter(name string) Filter {
	switch name {
	case Prop:
		return p.Prop
	case UpReg:
		return p.UpReg
	case DownReg:
		return p.DownReg
	case CoreReg:
		return p.CoreReg
	}
	panic("unknown policy " + name)
}

// Usages returns the names of the policies that accept the beacon.
func (p Policies) Usages(hops []IA) []string {
	var out []string
	for _, n := range p.Names() {
		if ok, _ := p.Filter(n).Check(hops); ok {
			out = append(out, n)
		}
	}
	return out
}

// UsageKey renders a usage set canonically ("Prop+UpReg", "none").
func UsageKey(us []string) string {
	if len(us) == 0 {
		return "none"
	}
	order := map[string]int{Prop: 0, UpReg: 1, DownReg: 2, CoreReg: 3}
	c := append([]string(nil), us...)
	sort.Slice(c, func(i, j int) bool { return order[c[i]] < order[c[j]] })
	return strings.Join(c, "+")
}

// Arrival is everything the acceptance decision depends on.
type Arrival struct {
	// IfKnown: the ingress interface exists in the local AS.
	IfKnown bool
	// Link and Neighbour describe that interface.
	Link      Link
	Neighbour IA
	// Local is the local AS.
	Local IA
	// Hops are the ISD-AS values of the AS entries, LastNext the next-hop
	// ISD-AS named by the last entry.
	Hops     []IA
	LastNext IA
	// SigOK: every AS entry's signature verifies.
	SigOK bool
}

// Verdict is the reference decision.
type Verdict struct {
	Stored bool
	Usages []string
	// Reason lists every failing acceptance condition ("+"-joined, fixed
	// order); empty when stored.
	Reason string
}

// Judge decides whether the arriving beacon must be stored and with which
// usages: it arrived on a parent or core link, its last AS entry is the
// neighbour on that interface and names the local AS as next hop, all
// signatures verify and at least one policy accepts it.
func Judge(a Arrival, p Policies) Verdict {
	var why []string
	if !a.IfKnown {
		why = append(why, "unknown-if")
	} else {
		if a.Link != LinkParent && a.Link != LinkCore {
			why = append(why, "link="+a.Link.String())
		}
		if len(a.Hops) == 0 || a.Hops[len(a.Hops)-1] != a.Neighbour {
			why = append(why, "upstream")
		}
	}
	if a.LastNext != a.Local {
		why = append(why, "next")
	}
	if !a.SigOK {
		why = append(why, "sig")
	}
	us := p.Usages(a.Hops)
	if len(us) == 0 {
		why = append(why, "policy")
	}
	if len(why) > 0 {
		return Verdict{Reason: strings.Join(why, "+")}
	}
	return Verdict{Stored: true, Usages: us}
}

// PropASLoop: sending a beacon whose AS entries are sentHops to neighbour
// creates an AS loop when the neighbour is already on the beacon.
func PropASLoop(sentHops []IA, neighbour IA) bool {
	for _, h := range sentHops {
		if h == neighbour {
			return true
		}
	}
	return false
}

// PropISDLoop: the path sentHops followed by the neighbour leaves an ISD and
// re-enters it.
func PropISDLoop(sentHops []IA, neighbour IA) bool {
	path := append(append([]IA(nil), sentHops...), neighbour)
	return HasISDLoop(path)
}
