// Package monlog provides the log level as a configuration dimension of the
// workloads: a scion log.Logger that discards everything but reports every
// level as enabled, as a service running with log.console.level = "debug"
// would. Results of the code under test must not depend on it.
package monlog

import (
	"context"
	"sync/atomic"

	"github.com/scionproto/scion/pkg/log"
)

// Entries counts the entries written to debug-enabled discard loggers.
var Entries atomic.Int64

type discard struct{}

func (discard) New(...any) log.Logger  { return discard{} }
func (discard) Debug(string, ...any)   { Entries.Add(1) }
func (discard) Info(string, ...any)    { Entries.Add(1) }
func (discard) Error(string, ...any)   { Entries.Add(1) }
func (discard) Enabled(log.Level) bool { return true }

// Debug returns ctx carrying a logger with debug level enabled.
func Debug(ctx context.Context) context.Context { return log.CtxWith(ctx, discard{}) }

var alt atomic.Uint64

// Alternate returns a background context, every other call with the
// debug-enabled logger attached.
func Alternate() context.Context {
	if alt.Add(1)%2 == 0 {
		return Debug(context.Background())
	}
	return context.Background()
}
