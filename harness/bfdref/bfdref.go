// Package bfdref is the reference model used by the C16 check: the reception
// procedure and state machine of RFC 5880 section 6.8.6 and the detection-time
// rule of section 6.8.4, written from the RFC text. It imports nothing from
// the code under test.
package bfdref

// State is the wire value of a BFD session state (RFC 5880 section 4.1).
type State uint8

const (
	AdminDown State = 0
	Down      State = 1
	Init      State = 2
	Up        State = 3
)

func (s State) String() string {
	switch s {
	case AdminDown:
		return "AdminDown"
	case Down:
		return "Down"
	case Init:
		return "Init"
	case Up:
		return "Up"
	}
	return "Unknown"
}

// States lists all states, in wire order.
var States = []State{AdminDown, Down, Init, Up}

// OnReceive is the state-machine part of section 6.8.6 for a packet that was
// not discarded: the local state after receiving a control packet whose State
// field is remote.
//
//	If bfd.SessionState is AdminDown            -> discard (stay AdminDown)
//	If received state is AdminDown
//	    If bfd.SessionState is not Down         -> Down
//	Else
//	    If bfd.SessionState is Down
//	        If received State is Down           -> Init
//	        Else if received State is Init      -> Up
//	    Else if bfd.SessionState is Init
//	        If received State is Init or Up     -> Up
//	    Else (bfd.SessionState is Up)
//	        If received State is Down           -> Down
func OnReceive(local, remote State) State {
	if local == AdminDown {
		return AdminDown
	}
	if remote == AdminDown {
		return Down
	}
	switch local {
	case Down:
		switch remote {
		case Down:
			return Init
		case Init:
			return Up
		}
		return Down
	case Init:
		if remote == Init || remote == Up {
			return Up
		}
		return Init
	default: // Up
		if remote == Down {
			return Down
		}
		return Up
	}
}

// OnTimer is section 6.8.4: when the Detection Time passes without a received
// packet and the session is Init or Up, it goes Down; other states are
// unaffected.
func OnTimer(local State) State {
	if local == Init || local == Up {
		return Down
	}
	return local
}

// Packet is the content of a received BFD control packet as far as the
// reception procedure looks at it. Intervals are in microseconds.
type Packet struct {
	Version       uint8  `json:"ver"`
	State         State  `json:"state"`
	DetectMult    uint8  `json:"mult"`
	Multipoint    bool   `json:"m,omitempty"`
	Poll          bool   `json:"p,omitempty"`
	Final         bool   `json:"f,omitempty"`
	Demand        bool   `json:"d,omitempty"`
	AuthPresent   bool   `json:"a,omitempty"`
	MyDisc        uint32 `json:"my"`
	YourDisc      uint32 `json:"your"`
	DesiredMinTx  uint32 `json:"tx_us"`
	RequiredMinRx uint32 `json:"rx_us"`
	RequiredEcho  uint32 `json:"echo_us,omitempty"`
}

// Verdict of the discard rules.
type Verdict int

const (
	// Accept: the packet passes every discard rule of 6.8.6.
	Accept Verdict = iota
	// Discard: 6.8.6 says MUST be discarded regardless of session selection.
	Discard
	// Unjudged: the outcome depends on something the property statement is
	// silent about (session selection by Your Discriminator when the link
	// already selects the session; optional features the implementation
	// documents as unsupported: authentication, poll/final, demand, echo).
	Unjudged
)

func (v Verdict) String() string {
	return [...]string{"accept", "discard", "unjudged"}[v]
}

// Classify applies the discard rules of section 6.8.6 that do not depend on
// the session's state, for a session whose local discriminator is localDisc
// and which does not use authentication.
func Classify(p Packet, localDisc uint32) (Verdict, string) {
	switch {
	case p.Version != 1:
		return Discard, "version"
	case p.DetectMult == 0:
		return Discard, "mult0"
	case p.Multipoint:
		return Discard, "multipoint"
	case p.MyDisc == 0:
		return Discard, "mydisc0"
	case p.YourDisc == 0 && p.State != Down && p.State != AdminDown:
		return Discard, "yourdisc0"
	case p.AuthPresent:
		// "If the A bit is set and no authentication is in use, the packet MUST
		// be discarded"; a packet with the A bit but no auth section is shorter
		// than the minimum length. Either way: discard.
		return Discard, "auth"
	}
	switch {
	case p.YourDisc != 0 && p.YourDisc != localDisc:
		return Unjudged, "yourdisc-mismatch"
	case p.Poll:
		return Unjudged, "poll"
	case p.Final:
		return Unjudged, "final"
	case p.Demand:
		return Unjudged, "demand"
	case p.RequiredEcho != 0:
		return Unjudged, "echo"
	}
	return Accept, "ok"
}

// Session is the reference session: state plus the variables the detection
// time depends on.
type Session struct {
	State         State
	LocalDisc     uint32
	RequiredMinRx uint32 // local bfd.RequiredMinRxInterval, microseconds
	// DetectTimeUs is the Detection Time in force (6.8.4): remote Detect Mult
	// times max(local RequiredMinRx, last received Desired Min TX); 0 before
	// the first accepted packet.
	DetectTimeUs uint64
}

// New returns a session in its initial state (Down, 6.8.1).
func New(localDisc, requiredMinRxUs uint32) *Session {
	return &Session{State: Down, LocalDisc: localDisc, RequiredMinRx: requiredMinRxUs}
}

// DetectTime computes the detection time an accepted packet establishes.
func (s *Session) DetectTime(p Packet) uint64 {
	iv := uint64(s.RequiredMinRx)
	if uint64(p.DesiredMinTx) > iv {
		iv = uint64(p.DesiredMinTx)
	}
	return uint64(p.DetectMult) * iv
}

// Apply steps the session with an accepted packet.
func (s *Session) Apply(p Packet) {
	s.DetectTimeUs = s.DetectTime(p)
	s.State = OnReceive(s.State, p.State)
}

// Expire steps the session with a detection-time expiry.
func (s *Session) Expire() { s.State = OnTimer(s.State) }
