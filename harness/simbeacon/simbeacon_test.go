package simbeacon_test

import (
	"bytes"
	"context"
	"math/rand/v2"
	"testing"
	"time"

	"github.com/scionproto/scion/pkg/scrypto"
	seg "github.com/scionproto/scion/pkg/segment"
	"github.com/scionproto/scion/private/path/combinator"
	routerctl "github.com/scionproto/scion/router/control"

	"verif/simbeacon"
	"verif/simtopo"
)

// TestKeyAgreement: the extender's MAC factory and the router's derived hop
// key are the same function of the master key.
func TestKeyAgreement(t *testing.T) {
	rng := rand.New(rand.NewPCG(7, 7))
	topo := simtopo.Generate(rng, simtopo.Params{})
	for _, ia := range topo.IAs() {
		key := topo.ASes[ia].MasterKey
		f, err := scrypto.HFMacFactory(key)
		if err != nil {
			t.Fatal(err)
		}
		m1 := f()
		m2, err := scrypto.InitMac(routerctl.DeriveHFMacKey(key))
		if err != nil {
			t.Fatal(err)
		}
		in := []byte("0123456789abcdef")
		m1.Write(in)
		m2.Write(in)
		if !bytes.Equal(m1.Sum(nil), m2.Sum(nil)) {
			t.Fatalf("%s: control-plane and router MAC keys differ", ia)
		}
	}
}

// TestSmoke: generated topologies validate, beaconing succeeds, all signatures
// verify, Combine finds a path between every ordered AS pair, and shortcut and
// peering paths occur.
func TestSmoke(t *testing.T) {
	var pairs, paths, peering, shortcut, twoSeg, threeSeg int
	start := time.Now()
	for seed := uint64(1); seed <= 40; seed++ {
		rng := rand.New(rand.NewPCG(seed, 99))
		topo := simtopo.Generate(rng, simtopo.Params{CorePeering: seed%2 == 0})
		if err := topo.Validate(); err != nil {
			t.Fatal(err)
		}
		t0 := time.Now()
		net, err := simbeacon.New(topo, simbeacon.Params{ExpTimeMin: 10, ExpTimeMax: 200})
		if err != nil {
			t.Fatal(err)
		}
		segs, err := net.Run(rng)
		if err != nil {
			t.Fatalf("seed %d: %v\n%s", seed, err, topo)
		}
		if d := time.Since(t0); d > time.Second {
			t.Errorf("seed %d: beaconing took %v for %d ASes", seed, d, len(topo.ASes))
		}
		var all []*seg.PathSegment
		all = append(all, segs.Core...)
		for _, ia := range topo.NonCoreIAs() {
			if len(segs.UpSegs(ia)) == 0 {
				t.Fatalf("seed %d: %s has no up segment", seed, ia)
			}
			all = append(all, segs.UpSegs(ia)...)
		}
		for _, s := range all {
			if err := s.Validate(seg.ValidateSegment); err != nil {
				t.Fatal(err)
			}
			if err := s.Verify(context.Background(), net.Verifier()); err != nil {
				t.Fatalf("seed %d: signature: %v", seed, err)
			}
		}
		for _, src := range topo.IAs() {
			for _, dst := range topo.IAs() {
				if src == dst {
					continue
				}
				ups, cores, downs := segs.Lookup(src, dst)
				res := combinator.Combine(src, dst, ups, cores, downs, false)
				pairs++
				if len(res) == 0 {
					t.Fatalf("seed %d: no path %s → %s (ups %d cores %d downs %d)\n%s", seed, src, dst,
						len(ups), len(cores), len(downs), topo)
				}
				paths += len(res)
				for _, p := range res {
					raw := p.SCIONPath.Raw
					nseg := 0
					for i := 0; i < 3; i++ {
						if (uint32(raw[0])<<24|uint32(raw[1])<<16|uint32(raw[2])<<8|uint32(raw[3]))>>(uint(12-6*i))&0x3f != 0 {
							nseg++
						}
					}
					switch nseg {
					case 2:
						twoSeg++
						if raw[4]&2 != 0 {
							peering++
						} else if raw[4]&1 == 0 && raw[12]&1 == 1 && !topo.ASes[p.Metadata.Interfaces[2*((int(raw[1]&3)<<4|int(raw[2])>>4)-1)-1].IA].Core {
							// up+down joined at a non-core AS (raw[12] is the 2nd info field)
							shortcut++
						}
					case 3:
						threeSeg++
					}
				}
			}
		}
	}
	t.Logf("pairs=%d paths=%d twoSeg=%d threeSeg=%d peering=%d shortcut=%d in %v",
		pairs, paths, twoSeg, threeSeg, peering, shortcut, time.Since(start))
	if peering == 0 || shortcut == 0 || threeSeg == 0 {
		t.Fatal("shape coverage missing")
	}
}

// TestChain: the degenerate chain family beacons end to end.
func TestChain(t *testing.T) {
	rng := rand.New(rand.NewPCG(3, 3))
	for _, n := range []int{2, 3, 17, 64} {
		topo := simtopo.Chain(rng, n)
		net, err := simbeacon.New(topo, simbeacon.Params{})
		if err != nil {
			t.Fatal(err)
		}
		segs, err := net.Run(rng)
		if err != nil {
			t.Fatal(err)
		}
		leaf := topo.NonCoreIAs()[n-2]
		ups := segs.UpSegs(leaf)
		if len(ups) != 1 || len(ups[0].ASEntries) != n {
			t.Fatalf("chain %d: %d up segs", n, len(ups))
		}
		// Reissue keeps the interface sequence.
		re, err := net.Reissue(ups[0], net.P.Now.Add(-time.Hour), 7, []uint8{5, 9})
		if err != nil {
			t.Fatal(err)
		}
		if !bytes.Equal(re.ID(), ups[0].ID()) || re.ASEntries[0].HopEntry.HopField.ExpTime != 5 ||
			re.ASEntries[n-1].HopEntry.HopField.ExpTime != 9 {
			t.Fatalf("chain %d: reissue mismatch", n)
		}
		core := topo.CoreIAs()[0]
		res := combinator.Combine(leaf, core, ups, nil, nil, false)
		if len(res) != 1 || len(res[0].Metadata.Interfaces) != 2*(n-1) {
			t.Fatalf("chain %d: %d paths", n, len(res))
		}
	}
}
