// Package simbeacon runs "direct mode" SCION beaconing over a simtopo.Topo:
// every AS gets the REAL control/beaconing.DefaultExtender (real
// ifstate.Interfaces populated from the topology, the real hop-field MAC
// factory scrypto.HFMacFactory(masterKey), a real private/trust.Signer over a
// per-AS ECDSA P-256 key). Beacons are originated with seg.CreateSegment +
// Extend(0, egress, peers), propagated with Extend(in, egress, peers) and
// terminated/registered with Extend(in, 0, peers), exactly the calls the
// Originator, Propagator and the segment writers make; between ASes a beacon
// travels through the protobuf encoding like on the wire. RPC transport,
// beacon store/policies and certificate verification are not in the loop.
//
// Which beacons are propagated / registered and in which order is decided by
// the *rand.Rand handed to Run, never by map iteration or the wall clock
// (ECDSA signatures and the signature timestamp are the only non-reproducible
// bytes; nothing in path construction depends on them).
package simbeacon

import (
	"context"
	"crypto/ecdsa"
	"crypto/elliptic"
	crand "crypto/rand"
	"crypto/sha256"
	"crypto/x509"
	"fmt"
	"math/rand/v2"
	"net/netip"
	"slices"
	"time"

	"google.golang.org/protobuf/proto"

	"github.com/scionproto/scion/control/beaconing"
	"github.com/scionproto/scion/control/ifstate"
	"github.com/scionproto/scion/pkg/addr"
	cppb "github.com/scionproto/scion/pkg/proto/control_plane"
	cryptopb "github.com/scionproto/scion/pkg/proto/crypto"
	"github.com/scionproto/scion/pkg/scrypto"
	"github.com/scionproto/scion/pkg/scrypto/cppki"
	"github.com/scionproto/scion/pkg/scrypto/signed"
	seg "github.com/scionproto/scion/pkg/segment"
	"github.com/scionproto/scion/pkg/segment/extensions/discovery"
	"github.com/scionproto/scion/private/topology"
	"github.com/scionproto/scion/private/trust"

	"verif/simtopo"
)

// Params steers the beaconing run. Zero values select the defaults.
type Params struct {
	// Now is the reference time; every originated beacon gets the timestamp
	// Now − offset with a PRNG-chosen whole-second offset in [0, MaxAge].
	// Zero means time.Now() truncated to seconds. (The extender itself only
	// uses the wall clock to select a signer, which always succeeds here.)
	Now time.Time
	// MaxAge bounds the timestamp offset (default 10 min; negative = 0, i.e.
	// all timestamps equal Now).
	MaxAge time.Duration
	// ExpTimeMin/ExpTimeMax: for every Extend call the extender's MaxExpTime
	// is PRNG-drawn from [ExpTimeMin, ExpTimeMax], so hop fields of one
	// segment can carry different relative expiries. Default 63/63
	// (beacon.DefaultMaxExpTime, 6 h).
	ExpTimeMin, ExpTimeMax uint8
	// MaxCoreLen bounds the number of AS entries of a core segment
	// (default: the number of core ASes; at least 2).
	MaxCoreLen int
	// MaxPerOrigin bounds, per core AS and beaconing round, how many received
	// core beacons of one origin are kept for registration and further
	// propagation (default 2; the PRNG picks which).
	MaxPerOrigin int
	// MaxUpSegs bounds the number of up/down segments registered per non-core
	// AS (default 6; the PRNG picks which; at least one is always registered).
	MaxUpSegs int
	// MaxPropagatePerIf bounds how many received beacons a non-core AS
	// propagates on one child interface (default 4; at least one).
	MaxPropagatePerIf int
	// PropagatePct is the probability in percent that an eligible
	// (beacon, egress interface) pair is used, before the "at least one"
	// rule (default 100).
	PropagatePct int
	// DropPeerPct is the probability in percent, per Extend call and peering
	// interface, that the interface is left out of the peers argument, which
	// yields peering links announced by one side only (default 0).
	DropPeerPct int
	// EPIC switches on the EPIC-HP detached extension in every extender.
	EPIC bool
	// SignerNotBefore/SignerNotAfter is the validity of every AS signer
	// (defaults: Now − 10 years, Now + 10 years). Hop expiry is clamped to
	// SignerNotAfter by the real extender.
	SignerNotBefore, SignerNotAfter time.Time
	// ShortSignerPct: share (percent) of the ASes whose signing certificate is
	// in its last hours: it expires 20-180 minutes after Now, so that the real
	// extender has to shorten the hop fields it issues (the
	// SegmentExpirationDeficient branch). Which ASes: a fixed function of the
	// ISD-AS number.
	ShortSignerPct int
}

func (p Params) withDefaults(nCores int) Params {
	if p.Now.IsZero() {
		p.Now = time.Now()
	}
	p.Now = p.Now.Truncate(time.Second)
	if p.MaxAge == 0 {
		p.MaxAge = 10 * time.Minute
	}
	if p.MaxAge < 0 {
		p.MaxAge = 0
	}
	if p.ExpTimeMin == 0 && p.ExpTimeMax == 0 {
		p.ExpTimeMin, p.ExpTimeMax = 63, 63
	}
	if p.ExpTimeMax < p.ExpTimeMin {
		p.ExpTimeMax = p.ExpTimeMin
	}
	if p.MaxCoreLen <= 0 {
		p.MaxCoreLen = nCores
	}
	p.MaxCoreLen = max(p.MaxCoreLen, 2)
	if p.MaxPerOrigin <= 0 {
		p.MaxPerOrigin = 2
	}
	if p.MaxUpSegs <= 0 {
		p.MaxUpSegs = 6
	}
	if p.MaxPropagatePerIf <= 0 {
		p.MaxPropagatePerIf = 4
	}
	if p.PropagatePct <= 0 {
		p.PropagatePct = 100
	}
	if p.SignerNotBefore.IsZero() {
		p.SignerNotBefore = p.Now.AddDate(-10, 0, 0)
	}
	if p.SignerNotAfter.IsZero() {
		p.SignerNotAfter = p.Now.AddDate(10, 0, 0)
	}
	return p
}

// Node is the control-plane state of one AS.
type Node struct {
	// AS is the topology entry.
	AS *simtopo.AS
	// Extender is the real extender of the AS. Its MaxExpTime closure returns
	// the value last set with SetMaxExpTime.
	Extender *beaconing.DefaultExtender
	// Intfs is the real interface state handed to the extender.
	Intfs *ifstate.Interfaces
	// PrivKey is the AS signing key (PrivKey.Public() verifies AS entries).
	PrivKey *ecdsa.PrivateKey
	// Signer is the real trust.Signer over PrivKey.
	Signer trust.Signer
	// ShortSigner: the signing certificate is in its last hours (Params.ShortSignerPct).
	ShortSigner bool

	maxExp uint8
}

// SetMaxExpTime sets the relative expiry the extender uses from now on.
func (n *Node) SetMaxExpTime(e uint8) { n.maxExp = e }

// Peers returns the ids of all peering interfaces in ascending order (what
// the Originator/Propagator/Writer pass to Extend).
func (n *Node) Peers() []uint16 { return n.AS.IfIDsOfType(topology.Peer) }

// Net is a topology with one Node per AS.
type Net struct {
	// Topo is the underlying topology.
	Topo *simtopo.Topo
	// P are the effective parameters (defaults filled in).
	P Params

	nodes map[addr.IA]*Node
}

type signerGen struct{ s trust.Signer }

func (g signerGen) Generate(context.Context) ([]beaconing.Signer, error) {
	return []beaconing.Signer{g.s}, nil
}

// New builds the per-AS extenders for a topology.
func New(topo *simtopo.Topo, params Params) (*Net, error) {
	n := &Net{Topo: topo, P: params.withDefaults(len(topo.CoreIAs())), nodes: map[addr.IA]*Node{}}
	for _, ia := range topo.IAs() {
		as := topo.ASes[ia]
		infos := make(map[uint16]ifstate.InterfaceInfo, len(as.Ifaces))
		for _, id := range as.IfIDs() {
			i := as.Ifaces[id]
			infos[id] = ifstate.InterfaceInfo{
				ID:           id,
				IA:           i.RemoteIA,
				LinkType:     i.LinkType,
				InternalAddr: netip.AddrPortFrom(netip.AddrFrom4([4]byte{10, 0, byte(i.BR), 1}), 30042),
				RemoteID:     i.RemoteID,
				MTU:          i.MTU,
			}
		}
		intfs := ifstate.NewInterfaces(infos, ifstate.Config{})
		mac, err := scrypto.HFMacFactory(as.MasterKey)
		if err != nil {
			return nil, fmt.Errorf("%s: MAC factory: %w", ia, err)
		}
		priv, err := ecdsa.GenerateKey(elliptic.P256(), crand.Reader)
		if err != nil {
			return nil, err
		}
		der, err := x509.MarshalPKIXPublicKey(priv.Public())
		if err != nil {
			return nil, err
		}
		skid := sha256.Sum256(der)
		node := &Node{AS: as, Intfs: intfs, PrivKey: priv, maxExp: n.P.ExpTimeMax}
		notAfter := n.P.SignerNotAfter
		if hsh := (uint64(ia) * 0x9e3779b97f4a7c15) >> 20; n.P.ShortSignerPct > 0 && int(hsh%100) < n.P.ShortSignerPct {
			notAfter = n.P.Now.Add(time.Duration(20+(hsh/100)%160) * time.Minute)
			node.ShortSigner = true
		}
		node.Signer = trust.Signer{
			PrivateKey:    priv,
			Algorithm:     signed.ECDSAWithSHA256,
			IA:            ia,
			TRCID:         cppki.TRCID{ISD: ia.ISD(), Base: 1, Serial: 1},
			SubjectKeyID:  skid[:20],
			Expiration:    notAfter,
			ChainValidity: cppki.Validity{NotBefore: n.P.SignerNotBefore, NotAfter: notAfter},
		}
		node.Extender = &beaconing.DefaultExtender{
			IA:                   ia,
			SignerGen:            signerGen{node.Signer},
			MAC:                  mac,
			Intfs:                intfs,
			MTU:                  as.MTU,
			MaxExpTime:           func() uint8 { return node.maxExp },
			Task:                 "simbeacon",
			StaticInfo:           func() *beaconing.StaticInfoCfg { return nil },
			DiscoveryInformation: func() *discovery.Extension { return nil },
			EPIC:                 n.P.EPIC,
		}
		n.nodes[ia] = node
	}
	return n, nil
}

// Node returns the control-plane state of an AS (nil if unknown).
func (n *Net) Node(ia addr.IA) *Node { return n.nodes[ia] }

// Beacon is a PCB in flight: Seg has been extended by the sender and is about
// to be processed by AS At, which received it on interface InIf.
type Beacon struct {
	// Seg is the beacon (last entry's egress ≠ 0).
	Seg *seg.PathSegment
	// At is the AS that received the beacon.
	At addr.IA
	// InIf is the interface of At the beacon arrived on.
	InIf uint16
}

// Contains reports whether the beacon already has an entry of AS ia.
func (b *Beacon) Contains(ia addr.IA) bool {
	for _, e := range b.Seg.ASEntries {
		if e.Local == ia {
			return true
		}
	}
	return false
}

func wire(s *seg.PathSegment, beacon bool) (*seg.PathSegment, error) {
	raw, err := proto.Marshal(seg.PathSegmentToPB(s))
	if err != nil {
		return nil, err
	}
	var pb cppb.PathSegment
	if err := proto.Unmarshal(raw, &pb); err != nil {
		return nil, err
	}
	if beacon {
		return seg.BeaconFromPB(&pb)
	}
	return seg.SegmentFromPB(&pb)
}

func (n *Net) deliver(from addr.IA, egress uint16, s *seg.PathSegment) (*Beacon, error) {
	rIA, rID, ok := n.Topo.Remote(from, egress)
	if !ok {
		return nil, fmt.Errorf("%s#%d: no such interface", from, egress)
	}
	c, err := wire(s, true)
	if err != nil {
		return nil, fmt.Errorf("beacon %s#%d → %s: %w", from, egress, rIA, err)
	}
	return &Beacon{Seg: c, At: rIA, InIf: rID}, nil
}

// Originate creates a new beacon at AS ia with the given timestamp and initial
// SegID, extends it with Extend(0, egress, peers) and delivers it to the
// neighbour on that interface. peers == nil means "all peering interfaces".
func (n *Net) Originate(ia addr.IA, egress uint16, ts time.Time, segID uint16, peers []uint16) (*Beacon, error) {
	node := n.nodes[ia]
	if node == nil {
		return nil, fmt.Errorf("unknown AS %s", ia)
	}
	s, err := seg.CreateSegment(ts, segID)
	if err != nil {
		return nil, err
	}
	if peers == nil {
		peers = node.Peers()
	}
	if err := node.Extender.Extend(context.Background(), s, 0, egress, peers); err != nil {
		return nil, fmt.Errorf("originate %s#%d: %w", ia, egress, err)
	}
	return n.deliver(ia, egress, s)
}

// Propagate lets AS b.At extend a copy of the beacon with
// Extend(b.InIf, egress, peers) and delivers it to the neighbour on egress.
// The input beacon is not modified. peers == nil means "all peering interfaces".
func (n *Net) Propagate(b *Beacon, egress uint16, peers []uint16) (*Beacon, error) {
	node := n.nodes[b.At]
	c, err := wire(b.Seg, true)
	if err != nil {
		return nil, err
	}
	if peers == nil {
		peers = node.Peers()
	}
	if err := node.Extender.Extend(context.Background(), c, b.InIf, egress, peers); err != nil {
		return nil, fmt.Errorf("propagate %s %d→%d: %w", b.At, b.InIf, egress, err)
	}
	return n.deliver(b.At, egress, c)
}

// Terminate lets AS b.At terminate a copy of the beacon with
// Extend(b.InIf, 0, peers) and returns the registered segment as a remote
// path service would parse it (seg.SegmentFromPB). The input beacon is not
// modified. peers == nil means "all peering interfaces".
func (n *Net) Terminate(b *Beacon, peers []uint16) (*seg.PathSegment, error) {
	node := n.nodes[b.At]
	c, err := wire(b.Seg, true)
	if err != nil {
		return nil, err
	}
	if peers == nil {
		peers = node.Peers()
	}
	if err := node.Extender.Extend(context.Background(), c, b.InIf, 0, peers); err != nil {
		return nil, fmt.Errorf("terminate %s in=%d: %w", b.At, b.InIf, err)
	}
	return wire(c, false)
}

// Verifier returns a seg.Verifier that checks AS-entry signatures against the
// per-AS public keys of this Net (no certificates involved).
func (n *Net) Verifier() seg.Verifier { return verifier{n} }

type verifier struct{ n *Net }

func (v verifier) Verify(_ context.Context, m *cryptopb.SignedMessage, ad ...[]byte) (*signed.Message, error) {
	hdr, err := signed.ExtractUnverifiedHeader(m)
	if err != nil {
		return nil, err
	}
	var id cppb.VerificationKeyID
	if err := proto.Unmarshal(hdr.VerificationKeyID, &id); err != nil {
		return nil, err
	}
	node := v.n.nodes[addr.IA(id.IsdAs)]
	if node == nil {
		return nil, fmt.Errorf("unknown signer %s", addr.IA(id.IsdAs))
	}
	return signed.Verify(m, node.PrivKey.Public(), ad...)
}

// Segments is the result of a beaconing run: what the path services hold.
type Segments struct {
	// Up maps every non-core AS to its registered up segments. The same
	// segments are the down segments towards that AS. Construction order:
	// ASEntries[0] is the originating core AS, the last entry is the AS itself.
	Up map[addr.IA][]*seg.PathSegment
	// Core holds all registered core segments; a segment with
	// FirstIA() = O (originator) and LastIA() = T (terminating AS) is
	// registered at T and is what T uses to reach O.
	Core []*seg.PathSegment
}

// UpSegs returns the up segments of a non-core AS (nil for core ASes).
func (s *Segments) UpSegs(ia addr.IA) []*seg.PathSegment { return s.Up[ia] }

// DownSegs returns the down segments towards a non-core AS (the same
// segments as UpSegs(ia): the combinator takes both in construction order).
func (s *Segments) DownSegs(ia addr.IA) []*seg.PathSegment { return s.Up[ia] }

// CoreSegs returns the core segments a path from core AS src to core AS dst
// can use, in the orientation combinator.Combine expects: it traverses core
// segments against construction direction, i.e. LastIA() == src and
// FirstIA() == dst.
func (s *Segments) CoreSegs(src, dst addr.IA) []*seg.PathSegment {
	var out []*seg.PathSegment
	for _, c := range s.Core {
		if c.LastIA() == src && c.FirstIA() == dst {
			out = append(out, c)
		}
	}
	return out
}

// Lookup returns the segment sets a path lookup for src → dst supplies to
// combinator.Combine: the up segments of src, the down segments of dst and
// the core segments from every core AS src can reach (src itself if core) to
// every core AS that reaches dst (dst itself if core).
func (s *Segments) Lookup(src, dst addr.IA) (ups, cores, downs []*seg.PathSegment) {
	ups, downs = s.Up[src], s.Up[dst]
	firsts := func(segs []*seg.PathSegment, self addr.IA) []addr.IA {
		if len(segs) == 0 {
			return []addr.IA{self}
		}
		var out []addr.IA
		for _, x := range segs {
			if !slices.Contains(out, x.FirstIA()) {
				out = append(out, x.FirstIA())
			}
		}
		return out
	}
	srcCores, dstCores := firsts(ups, src), firsts(downs, dst)
	for _, c := range s.Core {
		if slices.Contains(srcCores, c.LastIA()) && slices.Contains(dstCores, c.FirstIA()) {
			cores = append(cores, c)
		}
	}
	return ups, cores, downs
}

type runner struct {
	n   *Net
	rng *rand.Rand
}

func (r *runner) ts() time.Time {
	off := time.Duration(0)
	if secs := int64(r.n.P.MaxAge / time.Second); secs > 0 {
		off = time.Duration(r.rng.Int64N(secs+1)) * time.Second
	}
	return r.n.P.Now.Add(-off)
}

func (r *runner) prep(ia addr.IA) (node *Node, peers []uint16) {
	node = r.n.nodes[ia]
	p := r.n.P
	node.maxExp = p.ExpTimeMin + uint8(r.rng.IntN(int(p.ExpTimeMax-p.ExpTimeMin)+1))
	// the ends of the configured range are drawn more often than the values between them
	switch r.rng.IntN(8) {
	case 0, 1:
		node.maxExp = p.ExpTimeMax
	case 2:
		node.maxExp = p.ExpTimeMin
	}
	peers = []uint16{}
	for _, id := range node.Peers() {
		if p.DropPeerPct > 0 && r.rng.IntN(100) < p.DropPeerPct {
			continue
		}
		peers = append(peers, id)
	}
	return node, peers
}

// choose returns a PRNG-ordered subset of 0…n-1: every index with probability
// PropagatePct, at least one, at most limit.
func (r *runner) choose(n, limit int) []int {
	if n == 0 {
		return nil
	}
	perm := r.rng.Perm(n)
	var out []int
	for _, i := range perm {
		if r.rng.IntN(100) < r.n.P.PropagatePct {
			out = append(out, i)
		}
	}
	if len(out) == 0 {
		out = perm[:1]
	}
	if limit > 0 && len(out) > limit {
		out = out[:limit]
	}
	return out
}

// Run performs one complete beaconing run: core beaconing among all core ASes
// (across ISDs, AS-loop free, at most MaxCoreLen entries) and intra-ISD
// beaconing down the provider→customer DAG, every Extend carrying the AS's
// peering interfaces. Propagation order and selection come from rng. With the
// default parameters every non-core AS registers at least one up segment per
// provider link it can be reached on, and, when MaxCoreLen ≥ #cores, every
// ordered pair of core ASes gets at least one core segment.
func (n *Net) Run(rng *rand.Rand) (*Segments, error) {
	r := &runner{n: n, rng: rng}
	out := &Segments{Up: map[addr.IA][]*seg.PathSegment{}}
	if err := r.core(out); err != nil {
		return nil, err
	}
	if err := r.intra(out); err != nil {
		return nil, err
	}
	return out, nil
}

func (r *runner) core(out *Segments) error {
	cores := r.n.Topo.CoreIAs()
	// received[ia] = beacons received in the previous round
	received := map[addr.IA][]*Beacon{}
	for _, ia := range cores {
		as := r.n.Topo.ASes[ia]
		ifs := as.IfIDsOfType(topology.Core)
		for _, k := range r.rng.Perm(len(ifs)) {
			_, peers := r.prep(ia)
			b, err := r.n.Originate(ia, ifs[k], r.ts(), uint16(r.rng.IntN(1<<16)), peers)
			if err != nil {
				return err
			}
			received[b.At] = append(received[b.At], b)
		}
	}
	for round := 1; round < r.n.P.MaxCoreLen; round++ {
		next := map[addr.IA][]*Beacon{}
		for _, ia := range cores {
			// group by origin, keep at most MaxPerOrigin per origin
			byOrigin := map[addr.IA][]*Beacon{}
			var origins []addr.IA
			for _, b := range received[ia] {
				o := b.Seg.FirstIA()
				if _, ok := byOrigin[o]; !ok {
					origins = append(origins, o)
				}
				byOrigin[o] = append(byOrigin[o], b)
			}
			slices.Sort(origins)
			for _, o := range origins {
				bs := byOrigin[o]
				r.rng.Shuffle(len(bs), func(i, j int) { bs[i], bs[j] = bs[j], bs[i] })
				if len(bs) > r.n.P.MaxPerOrigin {
					bs = bs[:r.n.P.MaxPerOrigin]
				}
				for _, b := range bs {
					_, peers := r.prep(ia)
					s, err := r.n.Terminate(b, peers)
					if err != nil {
						return err
					}
					out.Core = append(out.Core, s)
				}
				if round+1 >= r.n.P.MaxCoreLen {
					continue
				}
				ifs := r.n.Topo.ASes[ia].IfIDsOfType(topology.Core)
				for _, k := range r.rng.Perm(len(ifs)) {
					e := ifs[k]
					rem := r.n.Topo.ASes[ia].Ifaces[e].RemoteIA
					var elig []*Beacon
					for _, b := range bs {
						if !b.Contains(rem) {
							elig = append(elig, b)
						}
					}
					for _, x := range r.choose(len(elig), 0) {
						_, peers := r.prep(ia)
						nb, err := r.n.Propagate(elig[x], e, peers)
						if err != nil {
							return err
						}
						next[nb.At] = append(next[nb.At], nb)
					}
				}
			}
		}
		received = next
	}
	return nil
}

func (r *runner) intra(out *Segments) error {
	received := map[addr.IA][]*Beacon{}
	sendAll := func(ia addr.IA, in []*Beacon) error {
		as := r.n.Topo.ASes[ia]
		ifs := as.IfIDsOfType(topology.Child)
		for _, k := range r.rng.Perm(len(ifs)) {
			e := ifs[k]
			if as.Core {
				_, peers := r.prep(ia)
				b, err := r.n.Originate(ia, e, r.ts(), uint16(r.rng.IntN(1<<16)), peers)
				if err != nil {
					return err
				}
				received[b.At] = append(received[b.At], b)
				continue
			}
			for _, x := range r.choose(len(in), r.n.P.MaxPropagatePerIf) {
				_, peers := r.prep(ia)
				b, err := r.n.Propagate(in[x], e, peers)
				if err != nil {
					return err
				}
				received[b.At] = append(received[b.At], b)
			}
		}
		return nil
	}
	for _, ia := range r.n.Topo.CoreIAs() {
		if err := sendAll(ia, nil); err != nil {
			return err
		}
	}
	// NonCoreIAs is sorted by depth: all providers of an AS are done before it.
	for _, ia := range r.n.Topo.NonCoreIAs() {
		in := received[ia]
		for _, x := range r.choose(len(in), r.n.P.MaxUpSegs) {
			_, peers := r.prep(ia)
			s, err := r.n.Terminate(in[x], peers)
			if err != nil {
				return err
			}
			out.Up[ia] = append(out.Up[ia], s)
		}
		if err := sendAll(ia, in); err != nil {
			return err
		}
	}
	return nil
}

// Reissue re-runs the beaconing of one registered segment along exactly the
// same interfaces with a new timestamp, SegID and per-hop relative expiries
// (exp[i] for AS entry i; a short slice repeats its last element), using the
// real extenders. The result has the same interface sequence (same
// seg.PathSegment.ID()) as s but different info field, expiries and MACs —
// e.g. "the same segment, re-registered later".
func (n *Net) Reissue(s *seg.PathSegment, ts time.Time, segID uint16, exp []uint8) (*seg.PathSegment, error) {
	if len(s.ASEntries) < 2 {
		return nil, fmt.Errorf("segment with %d entries", len(s.ASEntries))
	}
	expAt := func(i int) uint8 {
		if len(exp) == 0 {
			return n.P.ExpTimeMax
		}
		return exp[min(i, len(exp)-1)]
	}
	peersOf := func(e seg.ASEntry) []uint16 {
		p := []uint16{}
		for _, pe := range e.PeerEntries {
			p = append(p, pe.HopField.ConsIngress)
		}
		return p
	}
	first := s.ASEntries[0]
	n.nodes[first.Local].maxExp = expAt(0)
	b, err := n.Originate(first.Local, first.HopEntry.HopField.ConsEgress, ts, segID, peersOf(first))
	if err != nil {
		return nil, err
	}
	for i := 1; i < len(s.ASEntries)-1; i++ {
		e := s.ASEntries[i]
		n.nodes[e.Local].maxExp = expAt(i)
		if b, err = n.Propagate(b, e.HopEntry.HopField.ConsEgress, peersOf(e)); err != nil {
			return nil, err
		}
	}
	last := s.ASEntries[len(s.ASEntries)-1]
	n.nodes[last.Local].maxExp = expAt(len(s.ASEntries) - 1)
	return n.Terminate(b, peersOf(last))
}
