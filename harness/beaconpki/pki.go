// Package beaconpki forges the control-plane PKI fixtures of cmd/beacon: ECDSA
// keys, X.509 certificates with the SCION profiles (root, CA, AS, sensitive and
// regular voting) built directly with crypto/x509, and a signed base TRC per
// ISD. It is fixture construction only; no oracle lives here.
package beaconpki

import (
	"crypto/ecdsa"
	"crypto/elliptic"
	"crypto/rand"
	"crypto/sha1"
	"crypto/x509"
	"crypto/x509/pkix"
	"encoding/asn1"
	"fmt"
	"math/big"
	"sync/atomic"
	"time"

	"github.com/scionproto/scion/pkg/addr"
	"github.com/scionproto/scion/pkg/scrypto/cms/protocol"
	"github.com/scionproto/scion/pkg/scrypto/cppki"
	"github.com/scionproto/scion/pkg/scrypto/signed"
)

var serial atomic.Int64

func nextSerial() *big.Int { return big.NewInt(1000 + serial.Add(1)) }

// Key is an ECDSA key with what signers and verifiers need to know about it.
type Key struct {
	Priv *ecdsa.PrivateKey
	SKID []byte
	Algo signed.SignatureAlgorithm
}

// NewKey generates a key on the given curve (crypto/rand: key bytes are not
// part of the deterministic case description).
func NewKey(curve elliptic.Curve) (*Key, error) {
	priv, err := ecdsa.GenerateKey(curve, rand.Reader)
	if err != nil {
		return nil, err
	}
	raw, err := priv.PublicKey.Bytes()
	if err != nil {
		return nil, err
	}
	skid := sha1.Sum(raw) // RFC 5280 4.2.1.2 method (1)
	k := &Key{Priv: priv, SKID: skid[:]}
	switch curve {
	case elliptic.P256():
		k.Algo = signed.ECDSAWithSHA256
	case elliptic.P384():
		k.Algo = signed.ECDSAWithSHA384
	case elliptic.P521():
		k.Algo = signed.ECDSAWithSHA512
	default:
		return nil, fmt.Errorf("unsupported curve")
	}
	return k, nil
}

func name(ia addr.IA, cn string) pkix.Name {
	return pkix.Name{
		CommonName:   cn,
		Organization: []string{"verif"},
		ExtraNames: []pkix.AttributeTypeAndValue{
			{Type: cppki.OIDNameIA, Value: ia.String()},
		},
	}
}

func mkCert(tmpl, parent *x509.Certificate, pub *ecdsa.PublicKey, signer *ecdsa.PrivateKey) (*x509.Certificate, error) {
	if parent == nil {
		parent = tmpl
	}
	raw, err := x509.CreateCertificate(rand.Reader, tmpl, parent, pub, signer)
	if err != nil {
		return nil, err
	}
	return x509.ParseCertificate(raw)
}

// ISD is one isolation domain: a base TRC with one root, one sensitive and one
// regular voting certificate (all owned by the core AS) and one CA.
type ISD struct {
	ID     addr.ISD
	Core   addr.IA
	Root   *x509.Certificate
	CA     *x509.Certificate
	caKey  *Key
	Signed cppki.SignedTRC
}

// NewISD forges the ISD's TRC (base 1, serial 1), valid from now-60d to
// now+400d; the CA is valid from now-50d to now+350d.
func NewISD(isd addr.ISD, coreAS addr.AS, now time.Time) (*ISD, error) {
	now = now.UTC().Truncate(time.Second)
	core := addr.MustIAFrom(isd, coreAS)
	keys := make([]*Key, 4)
	for i := range keys {
		k, err := NewKey(elliptic.P256())
		if err != nil {
			return nil, err
		}
		keys[i] = k
	}
	rootK, caK, sensK, regK := keys[0], keys[1], keys[2], keys[3]
	nb, na := now.Add(-70*24*time.Hour), now.Add(500*24*time.Hour)

	root, err := mkCert(&x509.Certificate{
		SerialNumber: nextSerial(), Subject: name(core, fmt.Sprintf("%s root", core)),
		NotBefore: nb, NotAfter: na,
		KeyUsage:              x509.KeyUsageCertSign,
		ExtKeyUsage:           []x509.ExtKeyUsage{x509.ExtKeyUsageTimeStamping},
		UnknownExtKeyUsage:    []asn1.ObjectIdentifier{cppki.OIDExtKeyUsageRoot},
		BasicConstraintsValid: true, IsCA: true, MaxPathLen: 1,
		SubjectKeyId: rootK.SKID,
	}, nil, &rootK.Priv.PublicKey, rootK.Priv)
	if err != nil {
		return nil, fmt.Errorf("root: %w", err)
	}
	voting := func(k *Key, oid asn1.ObjectIdentifier, cn string) (*x509.Certificate, error) {
		return mkCert(&x509.Certificate{
			SerialNumber: nextSerial(), Subject: name(core, fmt.Sprintf("%s %s", core, cn)),
			NotBefore: nb, NotAfter: na,
			ExtKeyUsage:        []x509.ExtKeyUsage{x509.ExtKeyUsageTimeStamping},
			UnknownExtKeyUsage: []asn1.ObjectIdentifier{oid},
			SubjectKeyId:       k.SKID,
		}, nil, &k.Priv.PublicKey, k.Priv)
	}
	sens, err := voting(sensK, cppki.OIDExtKeyUsageSensitive, "sensitive")
	if err != nil {
		return nil, fmt.Errorf("sensitive: %w", err)
	}
	reg, err := voting(regK, cppki.OIDExtKeyUsageRegular, "regular")
	if err != nil {
		return nil, fmt.Errorf("regular: %w", err)
	}
	ca, err := mkCert(&x509.Certificate{
		SerialNumber: nextSerial(), Subject: name(core, fmt.Sprintf("%s ca", core)),
		NotBefore: now.Add(-50 * 24 * time.Hour), NotAfter: now.Add(350 * 24 * time.Hour),
		KeyUsage:              x509.KeyUsageCertSign,
		BasicConstraintsValid: true, IsCA: true, MaxPathLen: 0, MaxPathLenZero: true,
		SubjectKeyId: caK.SKID, AuthorityKeyId: rootK.SKID,
	}, root, &caK.Priv.PublicKey, rootK.Priv)
	if err != nil {
		return nil, fmt.Errorf("ca: %w", err)
	}
	for _, c := range []struct {
		c *x509.Certificate
		t cppki.CertType
	}{{root, cppki.Root}, {sens, cppki.Sensitive}, {reg, cppki.Regular}, {ca, cppki.CA}} {
		if t, err := cppki.ValidateCert(c.c); err != nil || t != c.t {
			return nil, fmt.Errorf("forged %v certificate does not have the SCION profile: %v (%v)", c.t, err, t)
		}
	}
	trc := cppki.TRC{
		Version:           1,
		ID:                cppki.TRCID{ISD: isd, Base: 1, Serial: 1},
		Validity:          cppki.Validity{NotBefore: now.Add(-60 * 24 * time.Hour), NotAfter: now.Add(400 * 24 * time.Hour)},
		Quorum:            1,
		CoreASes:          []addr.AS{coreAS},
		AuthoritativeASes: []addr.AS{coreAS},
		Description:       fmt.Sprintf("verif ISD %d", isd),
		Certificates:      []*x509.Certificate{sens, reg, root},
	}
	pld, err := trc.Encode()
	if err != nil {
		return nil, fmt.Errorf("encoding TRC: %w", err)
	}
	eci, err := protocol.NewDataEncapsulatedContentInfo(pld)
	if err != nil {
		return nil, err
	}
	sd, err := protocol.NewSignedData(eci)
	if err != nil {
		return nil, err
	}
	if err := sd.AddSignerInfo([]*x509.Certificate{sens}, sensK.Priv); err != nil {
		return nil, err
	}
	if err := sd.AddSignerInfo([]*x509.Certificate{reg}, regK.Priv); err != nil {
		return nil, err
	}
	sd.Certificates = []asn1.RawValue{}
	der, err := sd.ContentInfoDER()
	if err != nil {
		return nil, err
	}
	st, err := cppki.DecodeSignedTRC(der)
	if err != nil {
		return nil, fmt.Errorf("decoding forged TRC: %w", err)
	}
	if err := st.Verify(nil); err != nil {
		return nil, fmt.Errorf("forged TRC does not verify: %w", err)
	}
	return &ISD{ID: isd, Core: core, Root: root, CA: ca, caKey: caK, Signed: st}, nil
}

// IssueAS issues an AS certificate for (ia, key) with the given validity and
// returns the chain [AS, CA].
func (i *ISD) IssueAS(ia addr.IA, k *Key, notBefore, notAfter time.Time) ([]*x509.Certificate, error) {
	as, err := mkCert(&x509.Certificate{
		SerialNumber: nextSerial(), Subject: name(ia, fmt.Sprintf("%s as", ia)),
		NotBefore: notBefore.UTC().Truncate(time.Second), NotAfter: notAfter.UTC().Truncate(time.Second),
		KeyUsage: x509.KeyUsageDigitalSignature,
		ExtKeyUsage: []x509.ExtKeyUsage{
			x509.ExtKeyUsageServerAuth, x509.ExtKeyUsageClientAuth, x509.ExtKeyUsageTimeStamping,
		},
		SubjectKeyId: k.SKID, AuthorityKeyId: i.caKey.SKID,
	}, i.CA, &k.Priv.PublicKey, i.caKey.Priv)
	if err != nil {
		return nil, err
	}
	chain := []*x509.Certificate{as, i.CA}
	if err := cppki.VerifyChain(chain, cppki.VerifyOptions{TRC: []*cppki.TRC{&i.Signed.TRC}}); err != nil {
		return nil, fmt.Errorf("forged chain does not verify against forged TRC: %w", err)
	}
	return chain, nil
}
