// Package simnet is a network of REAL router data planes (one rfix.Star per
// border router of a simtopo.Topo). The data planes are not Run; the simulator
// carries bytes between them: it calls the real fast path and slow path of the
// router a packet arrives at and follows the egress link the router chose
// (external link -> the neighbouring AS's router owning the far interface,
// sibling link -> the sibling router, internal link -> a host).
package simnet

import (
	"fmt"
	"net"

	"github.com/scionproto/scion/pkg/addr"
	"github.com/scionproto/scion/router"
	"github.com/scionproto/scion/router/control"

	"verif/rfix"
	"verif/simtopo"
)

// Net is the simulated network.
type Net struct {
	Topo    *simtopo.Topo
	Routers map[addr.IA][]*rfix.Star
	Keys    map[addr.IA][]byte // derived hop keys
}

// Opts configures router construction.
type Opts struct {
	ReuseLocal bool
	SCMPAuth   bool
	// BFD, when set, says which external interfaces have BFD enabled. Nobody
	// runs the sessions in this fixture, so such a link stays down.
	BFD func(ia addr.IA, ifID uint16) bool
}

// New builds one real data plane per border router.
func New(t *simtopo.Topo, o Opts) (*Net, error) {
	n := &Net{Topo: t, Routers: map[addr.IA][]*rfix.Star{}, Keys: map[addr.IA][]byte{}}
	for _, ia := range t.IAs() {
		as := t.ASes[ia]
		key := control.DeriveHFMacKey(as.MasterKey) // what router start-up does
		n.Keys[ia] = key
		for b := 0; b < as.NumBR; b++ {
			cfg := rfix.StarCfg{IA: ia, HopKey: key, ReuseLocal: o.ReuseLocal, SCMPAuth: o.SCMPAuth, RouterIndex: b}
			for _, id := range as.IfIDs() {
				f := as.Ifaces[id]
				cfg.Ifs = append(cfg.Ifs, rfix.IfSpec{
					ID: id, LinkTo: f.LinkType, Remote: f.RemoteIA, Owned: f.BR == b, Sibling: f.BR, MTU: int(f.MTU),
					BFD: o.BFD != nil && f.BR == b && o.BFD(ia, id),
				})
			}
			s, err := rfix.NewStar(cfg)
			if err != nil {
				return nil, fmt.Errorf("router %s#%d: %w", ia, b, err)
			}
			n.Routers[ia] = append(n.Routers[ia], s)
		}
	}
	return n, nil
}

// Event is what one router did with the packet.
type Event struct {
	IA       addr.IA
	BR       int
	InKind   string // "host", "external", "sibling"
	InIf     uint16 // external ingress interface (0 otherwise)
	InHF     int    // CurrHF of the input (-1 if unparsable / not a SCION path)
	OutHF    int
	Outcome  string // "forward-external", "forward-sibling", "deliver", "drop", "scmp", "panic"
	EgIf     uint16 // external egress interface (forward-external)
	SlowKind int
	SlowCode int
	SlowErr  string
	In, Out  []byte
	Remote   *net.UDPAddr
	Answer   bool // this event processed an answer (SCMP) travelling back
}

// Crossing is one inter-AS interface crossing.
type Crossing struct {
	IA addr.IA
	If uint16
}

// Walk is the journey of one packet (and of the answer a router generated).
type Walk struct {
	Events []Event
	// Crossings of the original packet / of the answer.
	Cross, AnswerCross []Crossing
	// Delivered: original packet handed to a host; DeliveredAt/To say where.
	Delivered   bool
	DeliveredAt addr.IA
	DeliveredBR int
	DeliveredTo *net.UDPAddr
	Final       []byte
	// Answered: some router generated an answer (SCMP error, traceroute reply).
	Answered        bool
	AnswerBy        addr.IA
	AnswerByBR      int
	AnswerBytes     []byte // as emitted by the answering router
	AnswerDelivered bool
	AnswerAt        addr.IA
	AnswerTo        *net.UDPAddr
	AnswerFinal     []byte
	Panic           string
	Stack           string
	Looped          bool
}

func currHF(b []byte) int {
	h, err := rfix.ParseHdr(b)
	if err != nil || (h.PathType != 1 && h.PathType != 3) {
		return -1
	}
	return h.CurrHF
}

// anyIfOwnedBy returns an interface of the AS owned by router br.
func anyIfOwnedBy(as *simtopo.AS, br int) uint16 {
	ids := as.IfIDsOfBR(br)
	if len(ids) == 0 {
		return 0
	}
	return ids[0]
}

// Send injects raw at router (ia, br) as coming from a host with underlay
// address src on the internal network and follows it to the end.
func (n *Net) Send(ia addr.IA, br int, src *net.UDPAddr, raw []byte) *Walk {
	w := &Walk{}
	type pos struct {
		ia   addr.IA
		br   int
		in   rfix.Ingress
		kind string
		from int // router index the packet came from (sibling ingress)
	}
	cur := pos{ia: ia, br: br, in: rfix.Ingress{IfID: 0, Src: src}, kind: "host", from: -1}
	pkt := raw
	answer := false
	for step := 0; step < 400; step++ {
		as := n.Topo.ASes[cur.ia]
		star := n.Routers[cur.ia][cur.br]
		res := star.Process(pkt, cur.in)
		ev := Event{IA: cur.ia, BR: cur.br, InKind: cur.kind, InHF: currHF(pkt), In: pkt, Answer: answer,
			SlowKind: res.SlowKind, SlowCode: res.SlowCode, SlowErr: res.SlowErr}
		if cur.kind == "external" {
			ev.InIf = cur.in.IfID
		}
		if res.Panic != "" {
			ev.Outcome = "panic"
			w.Panic, w.Stack = res.Panic, res.Stack
			w.Events = append(w.Events, ev)
			return w
		}
		if res.Out == nil {
			ev.Outcome = "drop"
			w.Events = append(w.Events, ev)
			return w
		}
		ev.Out = res.Out
		ev.OutHF = currHF(res.Out)
		ev.Remote = res.Remote
		next := pos{}
		if res.ViaSlow {
			// The router produced an answer; it leaves over the ingress link.
			ev.Outcome = "scmp"
			if answer {
				// an answer to an answer: still follow it, but remember
				ev.Outcome = "scmp-to-answer"
			}
			if !w.Answered {
				w.Answered = true
				w.AnswerBy, w.AnswerByBR = cur.ia, cur.br
				w.AnswerBytes = res.Out
			}
			answer = true
			switch cur.kind {
			case "host":
				w.Events = append(w.Events, ev)
				w.AnswerDelivered, w.AnswerAt, w.AnswerTo, w.AnswerFinal = true, cur.ia, res.Remote, res.Out
				return w
			case "external":
				rIA, rID, _ := n.Topo.Remote(cur.ia, cur.in.IfID)
				w.AnswerCross = append(w.AnswerCross, Crossing{cur.ia, cur.in.IfID}, Crossing{rIA, rID})
				next = pos{ia: rIA, br: n.Topo.ASes[rIA].Ifaces[rID].BR, in: rfix.Ingress{IfID: rID}, kind: "external", from: -1}
			case "sibling":
				next = pos{ia: cur.ia, br: cur.from, in: rfix.Ingress{IfID: anyIfOwnedBy(as, cur.br)}, kind: "sibling", from: cur.br}
			}
			w.Events = append(w.Events, ev)
			cur, pkt = next, res.Out
			continue
		}
		switch res.OutScope {
		case router.Internal:
			ev.Outcome = "deliver"
			w.Events = append(w.Events, ev)
			if answer {
				w.AnswerDelivered, w.AnswerAt, w.AnswerTo, w.AnswerFinal = true, cur.ia, res.Remote, res.Out
			} else {
				w.Delivered, w.DeliveredAt, w.DeliveredBR, w.DeliveredTo, w.Final = true, cur.ia, cur.br, res.Remote, res.Out
			}
			return w
		case router.External:
			ev.Outcome = "forward-external"
			eg := res.OutLink.IfID()
			ev.EgIf = eg
			rIA, rID, ok := n.Topo.Remote(cur.ia, eg)
			if !ok {
				ev.Outcome = "drop"
				w.Events = append(w.Events, ev)
				return w
			}
			c := []Crossing{{cur.ia, eg}, {rIA, rID}}
			if answer {
				w.AnswerCross = append(w.AnswerCross, c...)
			} else {
				w.Cross = append(w.Cross, c...)
			}
			next = pos{ia: rIA, br: n.Topo.ASes[rIA].Ifaces[rID].BR, in: rfix.Ingress{IfID: rID}, kind: "external", from: -1}
		case router.Sibling:
			ev.Outcome = "forward-sibling"
			f, ok := as.Ifaces[res.Egress]
			if !ok {
				ev.Outcome = "drop"
				w.Events = append(w.Events, ev)
				return w
			}
			next = pos{ia: cur.ia, br: f.BR, in: rfix.Ingress{IfID: anyIfOwnedBy(as, cur.br)}, kind: "sibling", from: cur.br}
		}
		w.Events = append(w.Events, ev)
		cur, pkt = next, res.Out
	}
	w.Looped = true
	return w
}
