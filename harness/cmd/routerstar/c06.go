package main

import (
	"fmt"
	"math/rand/v2"
	"net"
	"time"

	"github.com/scionproto/scion/pkg/addr"
	"github.com/scionproto/scion/private/topology"
	"github.com/scionproto/scion/router"

	"verif/mon"
	"verif/rfix"
)

func ltName(t topology.LinkType) string {
	return [...]string{"unset", "core", "parent", "child", "peer"}[t]
}

// c06Ifs: for every link type (incl. unset) two owned and two sibling-owned interfaces.
func c06Ifs(rng *rand.Rand) []rfix.IfSpec {
	var out []rfix.IfSpec
	used := map[uint16]bool{0: true, 40000: true}
	n := 0
	for _, lt := range []topology.LinkType{topology.Unset, topology.Core, topology.Parent, topology.Child, topology.Peer} {
		for k := 0; k < 4; k++ {
			var id uint16
			for used[id] {
				id = uint16(1 + rng.IntN(65535))
			}
			used[id] = true
			n++
			out = append(out, rfix.IfSpec{ID: id, LinkTo: lt,
				Remote: addr.MustIAFrom(addr.ISD(1+n%3), addr.AS(0xff00_0000_0300+uint64(n))),
				Owned:  k < 2, Sibling: 1 + k%2, MTU: 1400})
		}
	}
	return out
}

// allowed pairs, transcribed from the statement.
func c06Allowed(in, eg topology.LinkType, segChange bool) bool {
	type pr struct{ a, b topology.LinkType }
	if segChange {
		switch (pr{in, eg}) {
		case pr{topology.Core, topology.Child}, pr{topology.Child, topology.Core}, pr{topology.Child, topology.Child}:
			return true
		}
		return false
	}
	switch (pr{in, eg}) {
	case pr{topology.Core, topology.Core}, pr{topology.Child, topology.Parent}, pr{topology.Parent, topology.Child},
		pr{topology.Child, topology.Peer}, pr{topology.Peer, topology.Child}:
		return true
	}
	return false
}

func checkC06(r *mon.Run) {
	r.Rule = "star fixture with owned and sibling-owned interfaces of all 5 link types; enumerates ingress type x egress type (5x5) x {same segment, " +
		"segment change, peering hop} x egress scope {owned, sibling-owned, internal(0), unknown} for packets from outside, and egress scope for packets from inside " +
		"(host, sibling link); hop fields validly MACed; allowed-pairs table transcribed from the statement; class = mode/arrival/inType/egType/egScope/outcome"
	r.Assumptions = []string{
		"link-type pairs are judged only where this router is the ingress router (arrival over an external link); for packets handed over by a sibling the pair was the sibling's decision",
		"an SCMP answer to an offending packet is required to be a parameter problem; its code is recorded, not judged",
	}
	r.Exhaustive = true // the (pair x mode x scope) table is enumerated completely; contents are sampled
	nStars := r.Pick(12, 48)
	reps := r.Pick(12, 100)
	types := []topology.LinkType{topology.Unset, topology.Core, topology.Parent, topology.Child, topology.Peer}
	forStars(r, nStars, func(si int, rng *rand.Rand) {
		key := make([]byte, 16)
		for i := range key {
			key[i] = byte(rng.IntN(256))
		}
		s, err := rfix.NewStar(rfix.StarCfg{
			IA: addr.MustIAFrom(1, addr.AS(0xff00_0000_0110+uint64(si))), HopKey: rfix.DeriveHopKey(key),
			Ifs: c06Ifs(rng), ReuseLocal: si%2 == 0,
		})
		if err != nil {
			panic(err)
		}
		byType := func(lt topology.LinkType, owned bool) rfix.IfSpec {
			var c []rfix.IfSpec
			for _, f := range s.Cfg.Ifs {
				if f.LinkTo == lt && f.Owned == owned {
					c = append(c, f)
				}
			}
			return c[rng.IntN(len(c))]
		}
		for rep := 0; rep < reps; rep++ {
			// --- packets from outside: pair table ---
			for _, it := range types {
				for _, et := range types {
					for mode := 0; mode < 3; mode++ { // 0 same segment, 1 segment change, 2 peering hop
						for egScope := 0; egScope < 2; egScope++ { // 0 owned, 1 sibling-owned
							inIf := byType(it, true)
							egIf := byType(et, egScope == 0)
							for egIf.ID == inIf.ID {
								egIf = byType(et, egScope == 0)
							}
							c06Pair(r, rng, s, inIf, egIf, mode, egScope)
						}
					}
				}
			}
			// --- packets from outside with egress 0 / unknown ---
			for _, it := range types {
				for mode := 0; mode < 2; mode++ {
					inIf := byType(it, true)
					c06Pair(r, rng, s, inIf, rfix.IfSpec{ID: 0}, mode, 2)
					c06Pair(r, rng, s, inIf, rfix.IfSpec{ID: 40000}, mode, 3)
				}
			}
			// --- packets from inside ---
			for _, et := range types {
				for egScope := 0; egScope < 4; egScope++ {
					for from := 0; from < 2; from++ { // 0 host (first hop), 1 sibling link (transit)
						var egIf rfix.IfSpec
						switch egScope {
						case 0, 1:
							egIf = byType(et, egScope == 0)
						case 2:
							egIf = rfix.IfSpec{ID: 0}
						case 3:
							egIf = rfix.IfSpec{ID: 40000}
						}
						c06Inside(r, rng, s, egIf, egScope, from, byType)
					}
				}
				// a packet from inside on which THIS router would have to effect
				// the segment change: the ingress "interface" is not one of the
				// allowed pairs whatever the egress type
				for from := 0; from < 2; from++ {
					c06InsideXover(r, rng, s, byType(et, true), from, byType)
				}
			}
		}
	})
	c06SaturationPhase(r)
	r.Require(1000, 100, "allowed_forwarded", "illegal_rejected_scmp", "inside_xover_rejected_scmp", "saturation_injected", "saturation_round_with_unanswered_packets")
}

var c06ModeName = []string{"same-seg", "seg-change", "peering"}
var c06ScopeName = []string{"owned", "sibling", "zero", "unknown"}

func c06Pair(r *mon.Run, rng *rand.Rand, s *rfix.Star, inIf, egIf rfix.IfSpec, mode, egScope int) {
	var shape rfix.Shape
	opt := rfix.ScnOpt{InIf: &inIf, EgIf: &egIf}
	switch mode {
	case 0:
		shape = rfix.ShTransit
	case 1:
		shape = rfix.ShXover
	case 2:
		// peering hop: which of the two peering shapes is determined by where the
		// peer interface would be; exercise both
		shape = rfix.ShPeerUp
		if rng.IntN(2) == 0 {
			shape = rfix.ShPeerDown
		}
	}
	sc := s.GenScenarioOpt(rng, shape, time.Now().Unix(), opt)
	in, err := sc.Packet(rng, nil)
	if err != nil {
		r.Inconclusive("build-error")
		return
	}
	res := s.Process(in, sc.In)
	r.Eval(1)
	if res.Panic != "" {
		r.Violation("C06:panic:"+mon.PanicSite(res.Stack), "panic", witness(s, sc, "pair", in, &res))
		return
	}
	allowed := egScope < 2 && c06Allowed(inIf.LinkTo, egIf.LinkTo, mode == 1)
	c06Judge(r, s, sc, in, &res, allowed,
		fmt.Sprintf("%s/external/%s->%s/eg-%s", c06ModeName[mode], ltName(inIf.LinkTo), ltName(egIf.LinkTo), c06ScopeName[egScope]))
}

func c06Inside(r *mon.Run, rng *rand.Rand, s *rfix.Star, egIf rfix.IfSpec, egScope, from int,
	byType func(topology.LinkType, bool) rfix.IfSpec) {

	var sc *rfix.Scn
	now := time.Now().Unix()
	arrival := "host"
	if from == 0 {
		sc = s.GenScenarioOpt(rng, rfix.ShSrc, now, rfix.ScnOpt{EgIf: &egIf})
	} else {
		arrival = "sibling"
		inIf := byType([]topology.LinkType{topology.Core, topology.Parent, topology.Child, topology.Peer}[rng.IntN(4)], false)
		shape := rfix.ShTransit
		if rng.IntN(3) == 0 {
			shape = rfix.ShXover
		}
		sc = s.GenScenarioOpt(rng, shape, now, rfix.ScnOpt{InIf: &inIf, EgIf: &egIf})
	}
	if from == 0 && rng.IntN(2) == 0 {
		sc.In.Src = &net.UDPAddr{IP: net.IPv4(10, 0, 7, byte(1+rng.IntN(200))), Port: 31000}
	}
	in, err := sc.Packet(rng, nil)
	if err != nil {
		r.Inconclusive("build-error")
		return
	}
	res := s.Process(in, sc.In)
	r.Eval(1)
	if res.Panic != "" {
		r.Violation("C06:panic:"+mon.PanicSite(res.Stack), "panic", witness(s, sc, "inside", in, &res))
		return
	}
	// "a packet coming from inside the AS must leave through an external
	// interface of this router"
	allowed := egScope == 0
	c06Judge(r, s, sc, in, &res, allowed, fmt.Sprintf("inside/%s/->%s/eg-%s", arrival, ltName(egIf.LinkTo), c06ScopeName[egScope]))
}

func c06InsideXover(r *mon.Run, rng *rand.Rand, s *rfix.Star, egIf rfix.IfSpec, from int,
	byType func(topology.LinkType, bool) rfix.IfSpec) {

	now := time.Now().Unix()
	arrival := "host"
	inIf := rfix.IfSpec{ID: 0}
	if from == 1 {
		arrival = "sibling"
		inIf = byType([]topology.LinkType{topology.Core, topology.Parent, topology.Child, topology.Peer}[rng.IntN(4)], false)
	}
	sc := s.GenScenarioOpt(rng, rfix.ShXover, now, rfix.ScnOpt{InIf: &inIf, EgIf: &egIf, KeepPreXover: true})
	if from == 0 {
		sc.In = rfix.Ingress{IfID: 0, Src: &net.UDPAddr{IP: net.IPv4(10, 0, 8, byte(1+rng.IntN(200))), Port: 31001}}
		if rng.IntN(2) == 0 {
			sc.SrcIA = s.Cfg.IA
		}
	}
	in, err := sc.Packet(rng, nil)
	if err != nil {
		r.Inconclusive("build-error")
		return
	}
	res := s.Process(in, sc.In)
	r.Eval(1)
	if res.Panic != "" {
		r.Violation("C06:panic:"+mon.PanicSite(res.Stack), "panic", witness(s, sc, "inside-xover", in, &res))
		return
	}
	cls := fmt.Sprintf("inside-xover/%s/->%s", arrival, ltName(egIf.LinkTo))
	got := "drop"
	switch {
	case res.Forwarded():
		got = "forward"
	case res.ViaSlow && res.Out != nil:
		got = fmt.Sprintf("scmp-%d-%d", res.SlowKind, res.SlowCode)
	}
	r.Class(cls + "/" + got)
	if res.Forwarded() {
		r.Violation("C06:illegal-forwarded:"+cls, "a packet from inside the AS was forwarded across a segment change effected by this router (no ingress link type: not an allowed pair)", witness(s, sc, cls, in, &res))
		return
	}
	if res.ViaSlow && res.SlowKind == scmpParamProblem && res.Out != nil {
		r.Event("inside_xover_rejected_scmp")
	} else {
		// a silent drop (transit-source validation) is also a refusal
		r.Event("inside_xover_dropped")
	}
}

func c06Judge(r *mon.Run, s *rfix.Star, sc *rfix.Scn, in []byte, res *rfix.Result, allowed bool, cls string) {
	got := "drop"
	switch {
	case res.Forwarded():
		got = "forward"
	case res.ViaSlow && res.Out != nil:
		got = fmt.Sprintf("scmp-%d-%d", res.SlowKind, res.SlowCode)
	}
	r.Class(cls + "/" + got)
	if r.WantSample() && r.Events("allowed_forwarded")%500 == 1 {
		r.Sample(witness(s, sc, cls+" allowed="+fmt.Sprint(allowed)+" got="+got, in, res))
	}
	if allowed {
		if res.Forwarded() && res.OutScope != router.Internal {
			r.Event("allowed_forwarded")
		} else {
			// the statement says "only"; a refused legal pair is not a C06
			// violation but makes the monitor blind: report as fixture problem
			r.Violation("C06:legal-pair-refused:"+cls, "a legal interface pair with valid hop fields was not forwarded: "+got, witness(s, sc, cls, in, res))
		}
		return
	}
	if res.Forwarded() {
		r.Violation("C06:illegal-forwarded:"+cls, fmt.Sprintf("forbidden combination was forwarded (egress %d, out scope %d)", res.Egress, res.OutScope), witness(s, sc, cls, in, res))
		return
	}
	if res.ViaSlow && res.SlowKind == scmpParamProblem && res.Out != nil {
		r.Event("illegal_rejected_scmp")
		return
	}
	r.Event("illegal_rejected_other")
	r.Violation("C06:illegal-not-answered:"+cls, "forbidden combination was not answered with an SCMP parameter problem: "+got+" "+res.SlowErr, witness(s, sc, cls, in, res))
}
