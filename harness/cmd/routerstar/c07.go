package main

import (
	"fmt"
	"github.com/scionproto/scion/pkg/addr"
	"math/rand/v2"
	"time"

	"net"

	"github.com/scionproto/scion/pkg/slayers/path"
	"github.com/scionproto/scion/pkg/slayers/path/epic"
	"github.com/scionproto/scion/pkg/slayers/path/onehop"
	"github.com/scionproto/scion/pkg/slayers/path/scion"

	"verif/mon"
	"verif/rfix"
)

// diffMask returns the set of byte offsets at which a forwarded packet may
// differ from the received one according to the statement: the path meta
// header's CurrINF/CurrHF byte, the segment identifier of the segment(s) that
// were current while this router processed the packet, and the flag byte of
// the hop field(s) it processed (router-alert bits only, and only 1->0).
func c07Allowed(h *rfix.Hdr) (mask map[int]byte) {
	mask = map[int]byte{}
	if h.PathType != 1 && h.PathType != 3 {
		return
	}
	metaOff := h.InfoOff[0] - 4
	mask[metaOff] = 0xff // CurrINF (2 bits) + CurrHF (6 bits)
	segs := []int{h.CurrINF}
	hops := []int{h.CurrHF}
	if h.CurrHF+1 < h.NumHF && h.SegOfHop(h.CurrHF+1) != h.CurrINF {
		segs = append(segs, h.CurrINF+1)
		hops = append(hops, h.CurrHF+1)
	}
	for _, s := range segs {
		mask[h.InfoOff[s]+2] = 0xff
		mask[h.InfoOff[s]+3] = 0xff
	}
	// Router-alert flags are only consumed on the slow path (the answer replaces the
	// packet); a packet that is forwarded on the fast path keeps every flag.
	_ = hops
	return
}

func checkC07(r *mon.Run) {
	r.Rule = "star fixture; every valid scenario packet (all roles, ingress kinds, random traffic class / flow id / addresses / payload, HBH and E2E extensions, " +
		"UDP/TCP/SCMP/unknown L4, router-alert flags on hops of other ASes) that the router forwards or delivers is byte-compared with its input; differences are allowed " +
		"only under the mask of mutable path state derived from the statement; one-hop packets: second hop field and segment identifier; class = shape/ingress/ext/l4/changed-fields"
	r.Assumptions = []string{"which value the mutable fields take is C22/C02's concern; here only *where* changes occur"}
	nStars := r.Pick(16, 48)
	per := r.Pick(30000, 250000)
	forStars(r, nStars, func(si int, rng *rand.Rand) {
		s := newStdStar(r, rng, si%2 == 0, false)
		for i := 0; i < per; i++ {
			c07Case(r, rng, s, i)
		}
		for i := 0; i < per/10; i++ {
			c07OneHop(r, rng, s, i)
		}
	})
	r.RequireClasses("onehop/outgoing/forwarded", "onehop/incoming/delivered")
	r.Require(int64(nStars*per)/2, 40, "forwarded_compared", "delivered_compared", "segid_changed", "currhf_changed", "epic_compared", "foreign_alert_flag_kept", "late_discarded_before_case")
}

// c07LateDiscard lets the processor first handle a packet that passes every
// check of the SCION header (authentic hop fields) and is discarded only
// afterwards - a UDP packet for a local host whose UDP header is cut short, a
// service destination without instance, a destination of another address
// type. What the processor did for a packet it dropped must leave no trace
// in the next packet.
func c07LateDiscard(r *mon.Run, rng *rand.Rand, s *rfix.Star) {
	for try := 0; try < 12; try++ {
		sc := s.GenScenario(rng, rfix.Shape(rng.IntN(int(rfix.NumShapes))), time.Now().Unix())
		if !sc.Deliver || sc.Arr != rfix.ArrExternal {
			continue
		}
		kind := rng.IntN(3)
		in, err := sc.Packet(rng, func(p *rfix.PktSpec) {
			p.L4 = rfix.L4UDP
			p.Payload = nil
			p.HBH, p.E2E = false, false
			switch kind {
			case 1:
				p.DstHost = addr.HostSVC(addr.SvcDS)
			case 2:
				p.L4 = rfix.L4Unknown
			}
		})
		if err != nil {
			continue
		}
		if kind == 0 && len(in) > 12 {
			// cut the UDP header to 4 bytes and say so in PayloadLen
			in = in[:len(in)-4]
			pl := int(in[6])<<8 | int(in[7])
			if pl < 4 {
				continue
			}
			pl -= 4
			in[6], in[7] = byte(pl>>8), byte(pl)
		}
		res := s.Process(in, sc.In)
		if res.Panic != "" {
			r.Violation("C07:panic:"+mon.PanicSite(res.Stack), "panic", witness(s, sc, "late-discard", in, &res))
			return
		}
		if res.Forwarded() {
			r.Event("late_discard_candidate_forwarded")
		} else {
			r.Event("late_discarded_before_case")
		}
		return
	}
}

func c07Case(r *mon.Run, rng *rand.Rand, s *rfix.Star, idx int) {
	if rng.IntN(4) == 0 {
		c07LateDiscard(r, rng, s)
	}
	shape := rfix.Shape(rng.IntN(int(rfix.NumShapes)))
	sc := s.GenScenario(rng, shape, time.Now().Unix())
	if rng.IntN(6) == 0 {
		// long paths: up to the format's 64 hop fields
		room := 64 - sc.Spec.NumHops()
		extra := make([]int, len(sc.Spec.Segs))
		for k := rng.IntN(room + 1); k > 0; k-- {
			i := rng.IntN(len(extra))
			if len(sc.Spec.Segs[i].Seg.Hops)+extra[i] < 63 {
				extra[i]++
			}
		}
		sc.FuzzPadSegments(rng, extra)
	}
	// router-alert flags on hops this router does not process must survive
	for g := 0; g < sc.Spec.NumHops(); g++ {
		isLocal := false
		for _, l := range sc.LocalHops {
			if l == g {
				isLocal = true
			}
		}
		// also leave alone the other local hop of a cross-over handled by the sibling
		if !isLocal && rng.IntN(6) == 0 {
			h := sc.Spec.HopAt(g)
			if h.Key == nil {
				h.InAlert, h.EgAlert = rng.IntN(2) == 0, rng.IntN(2) == 0
			}
		}
	}
	// Alert flags on the hop this router processes, for the side whose interface it
	// does not own (egress via a sibling / ingress handled by a sibling): not consumed
	// here, so they must survive.
	alertKept := false
	if len(sc.LocalHops) > 0 && rng.IntN(5) == 0 {
		g := sc.LocalHops[len(sc.LocalHops)-1]
		lh := sc.Spec.HopAt(g)
		si, _ := sc.Spec.Locate(g)
		consDir := sc.Spec.Segs[si].ConsDir
		if sc.EgIf != 0 && !sc.EgOwned && !sc.Deliver {
			// travel-egress side
			if consDir {
				lh.EgAlert = true
			} else {
				lh.InAlert = true
			}
			alertKept = true
		} else if sc.Arr == rfix.ArrInternal && sc.In.IfID != 0 && len(sc.LocalHops) == 1 {
			// travel-ingress side, ingress processing was the sibling's job
			if consDir {
				lh.InAlert = true
			} else {
				lh.EgAlert = true
			}
			alertKept = true
		}
	}
	ext := rng.IntN(4)
	l4 := rng.IntN(5)
	asEPIC := rng.IntN(4) == 0 && sc.Spec.Cur+1 < sc.Spec.NumHops()-2
	in, err := sc.Packet(rng, func(p *rfix.PktSpec) {
		if asEPIC {
			p.Path = &epic.Path{
				PktID: epic.PktID{Timestamp: uint32(rng.IntN(1 << 30)), Counter: uint32(rng.IntN(1 << 30))},
				PHVF:  []byte{1, 2, 3, 4}, LHVF: []byte{5, 6, 7, 8},
				ScionPath: rfix.RawPath(p.Path.(*scion.Decoded)),
			}
			p.PathType = 3
		}
		p.HBH, p.E2E = ext&1 != 0, ext&2 != 0
		p.L4 = []int{rfix.L4UDP, rfix.L4TCP, rfix.L4SCMPEchoReq, rfix.L4Unknown, rfix.L4SCMPEchoRep}[l4]
		p.Payload = make([]byte, rng.IntN(1200))
		for i := range p.Payload {
			p.Payload[i] = byte(rng.IntN(256))
		}
	})
	if err != nil {
		r.Inconclusive("build-error")
		return
	}
	res := s.Process(in, sc.In)
	r.Eval(1)
	if res.Panic != "" {
		r.Violation("C07:panic:"+mon.PanicSite(res.Stack), "panic", witness(s, sc, "", in, &res))
		return
	}
	if !res.Forwarded() {
		r.Event("not_forwarded")
		return
	}
	h, err := rfix.ParseHdr(in)
	if err != nil {
		r.Inconclusive("ref-parse")
		return
	}
	out := res.Out
	if len(out) != len(in) {
		r.Violation("C07:length-changed", fmt.Sprintf("forwarded packet has %d bytes, received %d", len(out), len(in)), witness(s, sc, "", in, &res))
		return
	}
	mask := c07Allowed(h)
	changed := map[string]bool{}
	for i := range in {
		if in[i] == out[i] {
			continue
		}
		m, ok := mask[i]
		d := in[i] ^ out[i]
		field := c07Field(h, i)
		if !ok || d&^m != 0 {
			r.Violation("C07:changed:"+field, fmt.Sprintf("byte %d (%s) changed from %#02x to %#02x outside the mutable path state", i, field, in[i], out[i]), witness(s, sc, "", in, &res))
			return
		}
		if field == "hop-flags" && out[i]&d != 0 {
			r.Violation("C07:alert-set", fmt.Sprintf("router-alert flag set by the router at byte %d", i), witness(s, sc, "", in, &res))
			return
		}
		changed[field] = true
	}
	if changed["segid"] {
		r.Event("segid_changed")
	}
	if changed["meta-curr"] {
		r.Event("currhf_changed")
	}
	ing := "external"
	if sc.In.IfID == 0 {
		ing = "host"
	} else if sc.Arr == rfix.ArrInternal {
		ing = "sibling"
	}
	if sc.Deliver {
		r.Event("delivered_compared")
	} else {
		r.Event("forwarded_compared")
	}
	r.Class(fmt.Sprintf("%s/%s/ext%d/l4-%d/epic=%v/egOwned=%v/segid=%v/curr=%v", sc.Shape, ing, ext, l4, asEPIC, sc.EgOwned, changed["segid"], changed["meta-curr"]))
	if asEPIC {
		r.Event("epic_compared")
	}
	if alertKept {
		r.Event("foreign_alert_flag_kept")
	}
	if r.WantSample() && idx%2999 == 0 {
		r.Sample(witness(s, sc, fmt.Sprintf("changed=%v", changed), in, &res))
	}
}

func c07Field(h *rfix.Hdr, i int) string {
	switch {
	case i < 12:
		return "common-header"
	case i < h.PathOff:
		return "address-header"
	case i >= h.PayloadOff:
		return "payload-or-extension"
	}
	metaOff := h.InfoOff[0] - 4
	if i < metaOff {
		return "epic-header"
	}
	if i == metaOff {
		return "meta-curr"
	}
	if i < metaOff+4 {
		return "meta-seglen"
	}
	for _, o := range h.InfoOff {
		if i >= o && i < o+8 {
			switch i - o {
			case 0:
				return "info-flags"
			case 1:
				return "info-reserved"
			case 2, 3:
				return "segid"
			default:
				return "info-timestamp"
			}
		}
	}
	for _, o := range h.HopOff {
		if i >= o && i < o+12 {
			switch {
			case i == o:
				return "hop-flags"
			case i == o+1:
				return "hop-exptime"
			case i < o+6:
				return "hop-interfaces"
			default:
				return "hop-mac"
			}
		}
	}
	return "path-other"
}

// c07OneHop: a one-hop packet leaving the AS may change only in the segment
// identifier; one entering the AS (completed here) only in the second hop field.
func c07OneHop(r *mon.Run, rng *rand.Rand, s *rfix.Star, idx int) {
	var owned []rfix.IfSpec
	for _, f := range s.Cfg.Ifs {
		if f.Owned {
			owned = append(owned, f)
		}
	}
	f := owned[rng.IntN(len(owned))]
	outgoing := rng.IntN(2) == 0
	ts := uint32(time.Now().Unix() - int64(rng.IntN(600)) - 5)
	segID := uint16(rng.IntN(1 << 16))
	oh := &onehop.Path{Info: path.InfoField{ConsDir: true, SegID: segID, Timestamp: ts}}
	ps := &rfix.PktSpec{SrcHost: rfix.RandHost(rng), DstHost: rfix.RandHost(rng), Path: oh, PathType: 2,
		TC: uint8(rng.IntN(256)), FlowID: uint32(rng.IntN(1 << 20)), L4: rfix.L4UDP, SrcPort: 1000, DstPort: 2000,
		Payload: make([]byte, rng.IntN(300)), HBH: rng.IntN(4) == 0, E2E: rng.IntN(4) == 0}
	for i := range ps.Payload {
		ps.Payload[i] = byte(rng.IntN(256))
	}
	var in rfix.Ingress
	if outgoing {
		full := rfix.HopMAC(s.Cfg.HopKey, segID, ts, 63, 0, f.ID)
		oh.FirstHop = path.HopField{ConsEgress: f.ID, ExpTime: 63}
		copy(oh.FirstHop.Mac[:], full[:6])
		ps.SrcIA, ps.DstIA = s.Cfg.IA, f.Remote
		in = rfix.Ingress{IfID: 0, Src: &net.UDPAddr{IP: ps.SrcHost.IP().AsSlice(), Port: 1000}}
	} else {
		// first hop issued by the neighbour: any MAC, we cannot and need not check it
		oh.FirstHop = path.HopField{ConsEgress: uint16(1 + rng.IntN(60000)), ExpTime: 63}
		for i := range oh.FirstHop.Mac {
			oh.FirstHop.Mac[i] = byte(rng.IntN(256))
		}
		ps.SrcIA, ps.DstIA = f.Remote, s.Cfg.IA
		in = rfix.Ingress{IfID: f.ID}
	}
	raw, err := ps.Build()
	if err != nil {
		r.Inconclusive("build-error")
		return
	}
	res := s.Process(raw, in)
	r.Eval(1)
	dir := "incoming"
	if outgoing {
		dir = "outgoing"
	}
	if res.Panic != "" {
		r.Violation("C07:panic:"+mon.PanicSite(res.Stack), "panic", witness(s, nil, "onehop-"+dir, raw, &res))
		return
	}
	if !res.Forwarded() {
		r.Class("onehop/" + dir + "/refused")
		return
	}
	h, err := rfix.ParseHdr(raw)
	if err != nil || len(res.Out) != len(raw) {
		r.Violation("C07:length-changed", "one-hop packet changed length", witness(s, nil, "onehop-"+dir, raw, &res))
		return
	}
	for i := range raw {
		if raw[i] == res.Out[i] {
			continue
		}
		segid := i == h.InfoOff[0]+2 || i == h.InfoOff[0]+3
		second := i >= h.HopOff[1] && i < h.HopOff[1]+12
		if (outgoing && !segid) || (!outgoing && !second && !segid) {
			r.Violation("C07:changed:onehop-"+dir, fmt.Sprintf("byte %d of a one-hop packet changed from %#02x to %#02x outside segment identifier / second hop field", i, raw[i], res.Out[i]), witness(s, nil, "onehop-"+dir, raw, &res))
			return
		}
	}
	if outgoing {
		r.Class("onehop/outgoing/forwarded")
	} else {
		r.Class("onehop/incoming/delivered")
	}
	r.Event("onehop_compared")
}
