package main

import (
	"fmt"
	"math/rand/v2"
	"net"
	"time"

	"github.com/scionproto/scion/pkg/addr"
	"github.com/scionproto/scion/router"

	"verif/mon"
	"verif/rfix"
)

// checkC05: source/destination ISD-AS rules and transit spoofing.
func checkC05(r *mon.Run) {
	r.Rule = "star fixture; otherwise valid packets (valid MACs, legal link types) with SrcIA/DstIA in {as generated, local, other} x role of the AS " +
		"(first hop, transit, cross-over, last hop) x arrival (external link, sibling link owning the ingress interface, another sibling's link, host on the " +
		"internal network); expected accept/reject = decision table transcribed from the statement; class = shape/arrival/src/dst/firsthop/lasthop/outcome"
	r.Assumptions = []string{
		"SCMP codes of rejections are recorded, not judged (the statement only demands rejection)",
		"first-hop packets arriving over a sibling link are outside the statement and not generated",
	}
	nStars := r.Pick(16, 48)
	per := r.Pick(30000, 250000)
	forStars(r, nStars, func(si int, rng *rand.Rand) {
		s := newStdStar(r, rng, si%2 == 0, false)
		for i := 0; i < per; i++ {
			c05Case(r, rng, s, i)
		}
	})
	r.Require(int64(nStars*per), 40, "accept_forward", "accept_deliver", "reject")
	r.RequireClasses()
}

func c05Case(r *mon.Run, rng *rand.Rand, s *rfix.Star, idx int) {
	shape := rfix.Shape(rng.IntN(int(rfix.NumShapes)))
	sc := s.GenScenario(rng, shape, time.Now().Unix())
	local := s.Cfg.IA
	other := addr.MustParseIA("4-ff00:0:abc")
	// near misses of the local ISD-AS: same AS number in another ISD, same ISD
	// with a neighbouring AS number
	sameAS := addr.MustIAFrom(local.ISD()+1, local.AS())
	sameISD := addr.MustIAFrom(local.ISD(), local.AS()^1)
	srcMode, dstMode := rng.IntN(5), rng.IntN(5)
	switch srcMode {
	case 1:
		sc.SrcIA = local
	case 2:
		sc.SrcIA = other
	case 3:
		sc.SrcIA = sameAS
	case 4:
		sc.SrcIA = sameISD
	}
	switch dstMode {
	case 1:
		sc.DstIA = local
	case 2:
		sc.DstIA = other
	case 3:
		sc.DstIA = sameAS
	case 4:
		sc.DstIA = sameISD
	}
	// arrival
	arrival := "external"
	switch {
	case sc.In.IfID == 0:
		arrival = "host"
	case sc.Arr == rfix.ArrInternal:
		arrival = "sibling-right"
	}
	switch rng.IntN(6) {
	case 0: // a host of the AS injects the packet on the internal network
		if arrival != "host" {
			arrival = "host-spoof"
			// what a host would have to send to imitate the packet after the
			// sibling's ingress processing
			sc.Arr = rfix.ArrInternal
			if shape == rfix.ShXover && len(sc.LocalHops) == 2 {
				sc.Spec.Cur = sc.LocalHops[1]
				sc.LocalHops = sc.LocalHops[1:]
			}
			sc.In = rfix.Ingress{IfID: 0, Src: &net.UDPAddr{IP: net.IPv4(10, 0, 9, byte(1+rng.IntN(200))), Port: 30000 + rng.IntN(100)}}
			if rng.IntN(3) == 0 {
				// the hop field (authentic: issued under the AS key, e.g. before a
				// topology change) names an ingress interface that no router of the
				// AS has: there is no sibling link over which it may arrive
				g := sc.Spec.Cur
				si, _ := sc.Spec.Locate(g)
				u := sc.Spec.Segs[si]
				hop := sc.Spec.HopAt(g)
				unk := uint16(1 + rng.IntN(65535))
				for known := true; known; {
					known = false
					for _, f := range s.Cfg.Ifs {
						if f.ID == unk {
							known = true
							unk = uint16(1 + rng.IntN(65535))
						}
					}
				}
				if u.ConsDir {
					hop.ConsIn = unk
				} else {
					hop.ConsEg = unk
				}
				u.Seg.Seal(rng)
				arrival = "host-spoof-unknown-ingress"
			}
		}
	case 1: // over the link of a sibling that does not own the ingress interface
		if arrival == "sibling-right" {
			for _, f := range s.Cfg.Ifs {
				if !f.Owned && s.Link(f.ID) != s.Link(sc.In.IfID) {
					sc.In.IfID = f.ID
					arrival = "sibling-wrong"
					break
				}
			}
		}
	}
	in, err := sc.Packet(rng, nil)
	if err != nil {
		r.Inconclusive("build-error")
		return
	}
	firstHop := sc.Spec.Cur == 0
	lastHop := sc.Spec.Cur == sc.Spec.NumHops()-1
	srcLocal, dstLocal := sc.SrcIA == local, sc.DstIA == local
	// ---- decision table (statement) ----
	// want: "forward", "deliver", "reject"
	var want string
	switch arrival {
	case "external":
		switch {
		case srcLocal:
			want = "reject"
		case lastHop && dstLocal:
			want = "deliver"
		case lastHop || dstLocal:
			want = "reject"
		default:
			want = "forward"
		}
	case "host":
		if srcLocal && !dstLocal {
			want = "forward"
		} else {
			want = "reject"
		}
	case "host-spoof", "host-spoof-unknown-ingress", "sibling-wrong":
		want = "reject"
		if firstHop {
			want = "" // cannot happen (these are derived from non-first-hop scenarios)
		}
	case "sibling-right":
		if dstLocal {
			want = "reject"
		} else {
			want = "forward"
		}
	}
	res := s.Process(in, sc.In)
	r.Eval(1)
	if res.Panic != "" {
		r.Violation("C05:panic:"+mon.PanicSite(res.Stack), "panic", witness(s, sc, arrival, in, &res))
		return
	}
	got := "reject"
	if res.Forwarded() {
		got = "forward"
		if res.OutScope == router.Internal {
			got = "deliver"
		}
	}
	scmp := "-"
	if res.ViaSlow {
		scmp = fmt.Sprintf("%d/%d", res.SlowKind, res.SlowCode)
	}
	r.Class(fmt.Sprintf("%s/%s/src%d/dst%d/first=%v/last=%v/%s/%s", sc.Shape, arrival, srcMode, dstMode, firstHop, lastHop, got, scmp))
	if r.WantSample() && idx%1999 == 0 {
		r.Sample(witness(s, sc, arrival+fmt.Sprintf(" srcLocal=%v dstLocal=%v want=%s got=%s", srcLocal, dstLocal, want, got), in, &res))
	}
	if want == "" {
		return
	}
	switch got {
	case "forward":
		r.Event("accept_forward")
	case "deliver":
		r.Event("accept_deliver")
	default:
		r.Event("reject")
	}
	if got == want {
		return
	}
	// A "deliver" observed where "forward" was expected can only happen if the
	// egress interface is 0; treat any mismatch as violation, keyed by the rule.
	key := fmt.Sprintf("C05:%s:srcLocal=%v:dstLocal=%v:first=%v:last=%v:want-%s-got-%s", arrival, srcLocal, dstLocal, firstHop, lastHop, want, got)
	r.Violation(key, fmt.Sprintf("arrival %s, SrcIA local=%v, DstIA local=%v, first hop=%v, last hop=%v: statement requires %s, router did %s (SCMP %s)",
		arrival, srcLocal, dstLocal, firstHop, lastHop, want, got, scmp), witness(s, sc, arrival, in, &res))
}
