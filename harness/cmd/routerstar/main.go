// Command routerstar serves the router properties decided on the "star"
// fixture: one real data plane whose interfaces cover every link type and
// scope, driven packet by packet through its real fast and slow path.
package main

import "verif/mon"

// replayable wraps a check whose cases are a pure function of (seed, tier): a
// witness is replayed by regenerating the run that produced it.
func replayable(f func(*mon.Run)) func(*mon.Run) {
	return func(r *mon.Run) {
		r.AdoptReplaySeed()
		f(r)
	}
}

func main() {
	mon.Main(map[string]func(*mon.Run){
		"C01": replayable(checkC01),
		"C05": replayable(checkC05),
		"C06": replayable(checkC06),
		"C07": replayable(checkC07),
	})
}
