// Command routerstar serves the router properties decided on the "star"
// fixture: one real data plane whose interfaces cover every link type and
// scope, driven packet by packet through its real fast and slow path.
package main

import "verif/mon"

func main() {
	mon.Main(map[string]func(*mon.Run){
		"C01": checkC01,
		"C05": checkC05,
		"C06": checkC06,
		"C07": checkC07,
	})
}
