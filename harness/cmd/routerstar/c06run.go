package main

import (
	"context"
	"errors"
	"fmt"
	"net"
	"net/netip"
	"sync"
	"time"

	"github.com/scionproto/scion/pkg/addr"
	"github.com/scionproto/scion/private/topology"
	"github.com/scionproto/scion/private/underlay/conn"
	"github.com/scionproto/scion/router"

	"verif/mon"
	"verif/rfix"
)

// Saturation phase of C06: the real data plane is RUN (receivers, processors,
// slow-path processor, forwarders) on in-memory connections. The connection
// the SCMP answers leave through is stalled, so that the slow-path queue fills
// up, and a burst of validly MACed packets with FORBIDDEN link-type pairs is
// injected. Whatever the router does with the packets it has no room to
// answer, none of them may come out of any other interface.

type c06Dgram struct {
	b   []byte
	src *net.UDPAddr
}

type c06Conn struct {
	name   string
	ifID   uint16 // 0: the internal connection
	in     chan c06Dgram
	closed chan struct{}
	once   sync.Once
	stall  chan struct{} // non-nil: WriteBatch waits until it is closed
	mu     sync.Mutex
	out    [][]byte
}

func (c *c06Conn) ReadBatch(msgs conn.Messages) (int, error) {
	select {
	case d := <-c.in:
		n := copy(msgs[0].Buffers[0], d.b)
		msgs[0].N = n
		msgs[0].Addr = d.src
		return 1, nil
	case <-c.closed:
		return 0, errors.New("closed")
	}
}

func (c *c06Conn) WriteBatch(msgs conn.Messages, _ int) (int, error) {
	if c.stall != nil {
		select {
		case <-c.stall:
		case <-c.closed:
			return 0, errors.New("closed")
		}
	}
	c.mu.Lock()
	for _, m := range msgs {
		c.out = append(c.out, append([]byte{}, m.Buffers[0]...))
	}
	c.mu.Unlock()
	return len(msgs), nil
}

func (c *c06Conn) Close() error {
	c.once.Do(func() { close(c.closed) })
	return nil
}

type c06Opener struct {
	mu    sync.Mutex
	conns map[uint16]*c06Conn
	stall map[uint16]chan struct{}
}

func (o *c06Opener) Open(l, r netip.AddrPort, _ *conn.Config) (router.BatchConn, error) {
	o.mu.Lock()
	defer o.mu.Unlock()
	var id uint16
	if r.IsValid() && r.Addr().Is4() && r.Addr().As4()[0] == 203 {
		a := r.Addr().As4()
		id = uint16(a[2])<<8 | uint16(a[3])
	}
	c := &c06Conn{name: fmt.Sprintf("%s>%s", l, r), ifID: id, in: make(chan c06Dgram, 4096), closed: make(chan struct{}), stall: o.stall[id]}
	if _, dup := o.conns[id]; dup && id == 0 {
		// further connections towards siblings (no local address reuse): recorded under a synthetic key
		id = uint16(60000 + len(o.conns))
	}
	o.conns[id] = c
	return c, nil
}

func (o *c06Opener) UDPCanReuseLocal() bool { return false }

func c06SaturationPhase(r *mon.Run) {
	rounds := r.Pick(6, 60)
	for round := 0; round < rounds; round++ {
		rng := r.Rand(fmt.Sprintf("c06-run-%d", round))
		key := make([]byte, 16)
		for i := range key {
			key[i] = byte(rng.IntN(256))
		}
		ifs := c06Ifs(rng)
		// the forbidden pair of this round
		types := []topology.LinkType{topology.Core, topology.Parent, topology.Child, topology.Peer}
		var it, et topology.LinkType
		mode := rng.IntN(2)
		for {
			it, et = types[rng.IntN(4)], types[rng.IntN(4)]
			if !c06Allowed(it, et, mode == 1) && !(mode == 1 && (it == topology.Peer || et == topology.Peer)) {
				break
			}
		}
		pickIf := func(lt topology.LinkType, not uint16) rfix.IfSpec {
			for {
				f := ifs[rng.IntN(len(ifs))]
				if f.LinkTo == lt && f.Owned && f.ID != not {
					return f
				}
			}
		}
		inIf := pickIf(it, 0)
		egIf := pickIf(et, inIf.ID)
		op := &c06Opener{conns: map[uint16]*c06Conn{}, stall: map[uint16]chan struct{}{inIf.ID: make(chan struct{})}}
		s, err := rfix.NewStarRun(rfix.StarCfg{
			IA: addr.MustIAFrom(1, addr.AS(0xff00_0000_0210+uint64(round))), HopKey: rfix.DeriveHopKey(key),
			Ifs: ifs, ReuseLocal: false, Opener: op,
		}, rfix.RunCfg{NumProcessors: 1 + rng.IntN(2), NumSlowPathProcessors: 1, BatchSize: 4})
		if err != nil {
			panic(err)
		}
		ctx, cancel := context.WithCancel(context.Background())
		runErr := make(chan error, 1)
		go func() { runErr <- s.C.DataPlane.Run(ctx) }()
		// wait until the data plane has opened its connections and runs
		deadline := time.Now().Add(5 * time.Second)
		for !router.VerifIsRunning(s.C) && time.Now().Before(deadline) {
			time.Sleep(time.Millisecond)
		}
		op.mu.Lock()
		ingress := op.conns[inIf.ID]
		op.mu.Unlock()
		if ingress == nil || !router.VerifIsRunning(s.C) {
			r.Inconclusive("data-plane-not-started")
			cancel()
			continue
		}
		shape := rfix.ShTransit
		if mode == 1 {
			shape = rfix.ShXover
		}
		nPkts := 1500
		type sent struct {
			sc *rfix.Scn
			b  []byte
		}
		var first sent
		src := net.UDPAddrFromAddrPort(rfix.ExtRemoteAddr(inIf.ID))
		for i := 0; i < nPkts; i++ {
			sc := s.GenScenarioOpt(rng, shape, time.Now().Unix(), rfix.ScnOpt{InIf: &inIf, EgIf: &egIf})
			b, err := sc.Packet(rng, nil)
			if err != nil {
				continue
			}
			if first.b == nil {
				first = sent{sc, append([]byte{}, b...)}
			}
			ingress.in <- c06Dgram{b: b, src: src}
		}
		// let the pipeline absorb the burst: bounded, scheduling only decides
		// how much is exposed, never the verdict
		for spin := 0; spin < 400 && len(ingress.in) > 0; spin++ {
			time.Sleep(time.Millisecond)
		}
		time.Sleep(20 * time.Millisecond)
		close(op.stall[inIf.ID])
		time.Sleep(20 * time.Millisecond)
		cancel()
		select {
		case <-runErr:
		case <-time.After(5 * time.Second):
			r.Inconclusive("data-plane-did-not-stop")
		}
		// judge: nothing may have left through any interface but the ingress one
		answered := 0
		op.mu.Lock()
		for id, c := range op.conns {
			c.mu.Lock()
			outs := c.out
			c.mu.Unlock()
			if c == ingress {
				answered = len(outs)
				continue
			}
			for _, o := range outs {
				if si := rfix.ParseSCMP(o); si.OK && si.Type != 128 && si.Type != 129 && si.Type != 130 && si.Type != 131 {
					continue // an SCMP error message is not the forbidden packet
				}
				r.Violation(fmt.Sprintf("C06:illegal-forwarded:saturated/%s/%s->%s", c06ModeName[mode], ltName(it), ltName(et)),
					fmt.Sprintf("with the slow-path queue saturated a packet with the forbidden pair %s->%s (%s) left through connection %s (interface key %d)",
						ltName(it), ltName(et), c06ModeName[mode], c.name, id),
					map[string]any{"round": round, "ingress_if": inIf.ID, "egress_if": egIf.ID, "first_input_hex": mon.Hex(first.b), "output_hex": mon.Hex(o)})
				break
			}
		}
		op.mu.Unlock()
		r.Eval(nPkts)
		r.EventN("saturation_injected", int64(nPkts))
		r.EventN("saturation_answered_scmp", int64(answered))
		if answered < nPkts {
			r.Event("saturation_round_with_unanswered_packets")
		}
		r.Class(fmt.Sprintf("saturated/%s/%s->%s", c06ModeName[mode], ltName(it), ltName(et)))
	}
}
