package main

import (
	"encoding/binary"
	"fmt"
	"math/rand/v2"
	"sync"
	"time"

	"github.com/scionproto/scion/pkg/addr"
	"github.com/scionproto/scion/pkg/slayers/path/epic"
	"github.com/scionproto/scion/pkg/slayers/path/scion"
	"github.com/scionproto/scion/router"

	"verif/mon"
	"verif/rfix"
)

// forStars runs body for n router fixtures concurrently; every fixture has its
// own PRNG stream derived from (seed, property, index).
func forStars(r *mon.Run, n int, body func(si int, rng *rand.Rand)) {
	sem := make(chan struct{}, r.Pick(8, 14))
	var wg sync.WaitGroup
	for si := 0; si < n; si++ {
		wg.Add(1)
		sem <- struct{}{}
		go func(si int) {
			defer wg.Done()
			defer func() { <-sem }()
			body(si, r.Rand(fmt.Sprintf("%s-star-%d", r.ID, si)))
		}(si)
	}
	wg.Wait()
}

func newStdStar(r *mon.Run, rng *rand.Rand, reuse, auth bool) *rfix.Star {
	key := make([]byte, 16)
	for i := range key {
		key[i] = byte(rng.IntN(256))
	}
	cfg := rfix.StarCfg{
		IA:         addr.MustIAFrom(addr.ISD(1+rng.IntN(3)), addr.AS(0xff00_0000_0100+uint64(rng.IntN(200)))),
		HopKey:     rfix.DeriveHopKey(key),
		Ifs:        rfix.StdIfs(rng),
		ReuseLocal: reuse,
		SCMPAuth:   auth,
		RangeSet:   true, PortStart: 31000, PortEnd: 32767,
	}
	s, err := rfix.NewStar(cfg)
	if err != nil {
		fmt.Println("fixture error:", err)
		panic(err)
	}
	return s
}

type pktWitness struct {
	Scenario string `json:"scenario"`
	Perturb  string `json:"perturbation"`
	Ingress  uint16 `json:"ingress_if"`
	LocalIA  string `json:"local_ia"`
	HopKey   string `json:"hop_key"`
	Input    string `json:"input_hex"`
	Output   string `json:"output_hex,omitempty"`
	Disp     int    `json:"fast_disposition"`
	SlowKind int    `json:"slow_kind"`
	SlowCode int    `json:"slow_code"`
	SlowPtr  uint16 `json:"slow_pointer"`
	SlowErr  string `json:"slow_err,omitempty"`
	Note     string `json:"note,omitempty"`
}

func witness(s *rfix.Star, sc *rfix.Scn, pert string, in []byte, res *rfix.Result) pktWitness {
	w := pktWitness{Perturb: pert, Input: mon.Hex(in), LocalIA: s.Cfg.IA.String(), HopKey: mon.Hex(s.Cfg.HopKey)}
	if sc != nil {
		w.Scenario = fmt.Sprintf("%s kinds=%v consdir=%v in=%d eg=%d arr=%d", sc.Shape, sc.Kinds, sc.ConsDirs, sc.InIf, sc.EgIf, sc.Arr)
		w.Ingress = sc.In.IfID
	}
	if res != nil {
		w.Output = mon.Hex(res.Out)
		w.Disp, w.SlowKind, w.SlowCode, w.SlowPtr, w.SlowErr = int(res.Disp), res.SlowKind, res.SlowCode, res.SlowPtr, res.SlowErr
		if res.Panic != "" {
			w.Note = "panic: " + res.Panic + "\n" + res.Stack
		}
	}
	return w
}

// SCMP numbers from doc/protocols/scmp.rst.
const (
	scmpDestUnreachable  = 1
	scmpParamProblem     = 4
	scmpExtIfDown        = 5
	scmpIntConnDown      = 6
	scmpCodeInvalidSrc   = 33
	scmpCodeInvalidDst   = 34
	scmpCodeInvalidPath  = 48
	scmpCodeUnknownIn    = 49
	scmpCodeUnknownEg    = 50
	scmpCodeInvalidMAC   = 51
	scmpCodePathExpired  = 52
	scmpCodeInvalidSegCh = 53
)

// universalC01 applies the universal C01 oracle to one processed packet: if
// the router forwarded or delivered it, the reference must find the current
// hop (and at an effective cross-over the next segment's first hop) authentic
// and unexpired. t0/t1 bracket the call.
func universalC01(r *mon.Run, s *rfix.Star, sc *rfix.Scn, pert string, in []byte, res *rfix.Result, fromOutside bool, t0, t1 time.Time) {
	if !res.Forwarded() {
		return
	}
	v := rfix.JudgeHops(in, s.Cfg.HopKey, fromOutside)
	if !v.Parsed {
		return
	}
	delivered := res.OutScope == router.Internal
	if !v.CurMAC {
		r.Violation("C01:forwarded-invalid-mac/current", "router forwarded/delivered a packet whose current hop field MAC is not valid under the AS key", witness(s, sc, pert, in, res))
	}
	if v.CurExpNs < t0.UnixNano() {
		r.Violation("C01:forwarded-expired/current", "router forwarded/delivered a packet whose current hop field had expired before processing started", witness(s, sc, pert, in, res))
	}
	if v.Xover && !delivered {
		if !v.NextMAC {
			r.Violation("C01:forwarded-invalid-mac/xover", "router forwarded across a segment change although the next segment's first hop field MAC is invalid", witness(s, sc, pert, in, res))
		}
		if v.NextExpNs < t0.UnixNano() {
			r.Violation("C01:forwarded-expired/xover", "router forwarded across a segment change although the next segment's first hop field had expired", witness(s, sc, pert, in, res))
		}
	}
	_ = t1
}

func checkC01(r *mon.Run) {
	r.Rule = "star fixture (real data plane configured through router.Connector, 16 interfaces of all link types, owned and sibling-owned); " +
		"valid scenario packets (role x segment kinds x directions x ingress kind) and single perturbations of a hop field this router validates " +
		"(MAC bit, SegID bit, timestamp bit, ExpTime, ConsIngress/ConsEgress bit, expiry offset); oracle = independent AES-CMAC hop MAC + expiry arithmetic; " +
		"class = shape/ingress-kind/ext/perturbation/outcome"
	r.Assumptions = []string{
		"expiry cases are judged with the time-bracket rule (router calls time.Now() internally); offsets keep >= 2 s from the boundary in quick tier",
		"a 48-bit MAC collision (2^-48) is ignored",
	}
	nStars := r.Pick(16, 48)
	perStar := r.Pick(30000, 250000)
	forStars(r, nStars, func(si int, rng *rand.Rand) {
		s := newStdStar(r, rng, si%2 == 0, si%3 == 0)
		for i := 0; i < perStar; i++ {
			c01Case(r, rng, s, i)
		}
		c01IdlePhase(r, rng, s)
		if si%4 == 0 {
			c01ConcurrentPhase(r, rng, s)
		}
	})
	r.Require(int64(nStars*perStar), 60, "valid_accepted", "perturbed_rejected_scmp", "expired_rejected", "xover_second_hop_rejected", "epic_wrapped", "valid_then_tampered_pair",
		"idle_accepted_before_expiry", "idle_rejected_after_expiry", "refused_presented_again", "concurrent_tampered_judged", "concurrent_valid_forwarded")
}

func c01Case(r *mon.Run, rng *rand.Rand, s *rfix.Star, idx int) {
	shape := rfix.Shape(rng.IntN(int(rfix.NumShapes)))
	now := time.Now()
	sc := s.GenScenario(rng, shape, now.Unix())
	if rng.IntN(6) == 0 {
		// long paths: up to the format's 64 hop fields
		room := 64 - sc.Spec.NumHops()
		extra := make([]int, len(sc.Spec.Segs))
		for k := rng.IntN(room + 1); k > 0; k-- {
			i := rng.IntN(len(extra))
			if len(sc.Spec.Segs[i].Seg.Hops)+extra[i] < 63 {
				extra[i]++
			}
		}
		sc.FuzzPadSegments(rng, extra)
	}
	ext := rng.IntN(4)
	// EPIC wrapping where this router is neither penultimate nor last hop (there the
	// hop validation fields decide, which is C13's subject): the embedded SCION path is
	// processed as usual and the same MAC/expiry rules apply.
	asEPIC := rng.IntN(4) == 0 && sc.Spec.Cur+1 < sc.Spec.NumHops()-2
	mod := func(p *rfix.PktSpec) {
		p.HBH = ext&1 != 0
		p.E2E = ext&2 != 0
		if rng.IntN(4) == 0 {
			p.L4 = []int{rfix.L4TCP, rfix.L4SCMPEchoReq, rfix.L4Unknown, rfix.L4SCMPTraceReq}[rng.IntN(4)]
		}
		if asEPIC {
			d := p.Path.(*scion.Decoded)
			p.Path = &epic.Path{
				PktID: epic.PktID{Timestamp: uint32(rng.IntN(1 << 30)), Counter: uint32(rng.IntN(1 << 30))},
				PHVF:  []byte{1, 2, 3, 4}, LHVF: []byte{5, 6, 7, 8},
				ScionPath: rfix.RawPath(d),
			}
			p.PathType = 3
		}
	}
	// choose the perturbation
	type pert struct {
		name  string
		apply func()
		// strict: only MAC validity changes, so the answer must be
		// ParameterProblem/InvalidHopFieldMAC pointing at the hop.
		strict  bool
		expired bool
		expOff  time.Duration
		target  int // global hop index of the perturbed hop
	}
	var p *pert
	fromOutside := sc.Arr == rfix.ArrExternal
	local := sc.LocalHops
	tgt := local[rng.IntN(len(local))]
	second := len(local) == 2 && tgt == local[1]
	hop := sc.Spec.HopAt(tgt)
	segIdx, _ := sc.Spec.Locate(tgt)
	kind := rng.IntN(10)
	var rawPatch func(b []byte, h *rfix.Hdr)
	switch kind {
	case 0, 1: // valid packet
	case 2: // MAC bit
		bit := rng.IntN(48)
		p = &pert{name: fmt.Sprintf("mac-bit-%d", bit), strict: true, target: tgt}
		rawPatch = func(b []byte, h *rfix.Hdr) { b[h.HopOff[tgt]+6+bit/8] ^= 1 << (bit % 8) }
	case 3: // SegID bit of the info field used for this hop
		bit := rng.IntN(16)
		p = &pert{name: "segid-bit", strict: true, target: tgt}
		rawPatch = func(b []byte, h *rfix.Hdr) { b[h.InfoOff[segIdx]+2+bit/8] ^= 1 << (bit % 8) }
	case 4: // timestamp low bits (stays fresh: +-<= 255 s)
		bit := rng.IntN(8)
		p = &pert{name: "timestamp-bit", strict: true, target: tgt}
		rawPatch = func(b []byte, h *rfix.Hdr) { b[h.InfoOff[segIdx]+7] ^= 1 << bit }
	case 5: // ExpTime: raise (stays fresh)
		p = &pert{name: "exptime", strict: true, target: tgt}
		rawPatch = func(b []byte, h *rfix.Hdr) {
			o := h.HopOff[tgt] + 1
			if b[o] == 255 {
				b[o] = 254
			} else {
				b[o]++
			}
		}
	case 6: // ConsIngress / ConsEgress bit
		which := rng.IntN(2)
		bit := rng.IntN(16)
		p = &pert{name: []string{"consingress-bit", "consegress-bit"}[which], strict: false, target: tgt}
		rawPatch = func(b []byte, h *rfix.Hdr) { b[h.HopOff[tgt]+2+2*which+bit/8] ^= 1 << (bit % 8) }
	case 7, 8: // expired hop with a *valid* MAC
		offs := []time.Duration{-2 * time.Second, -5 * time.Second, -time.Minute, -time.Hour, -24 * time.Hour}
		if r.Thorough() {
			offs = append(offs, -1200*time.Millisecond, -700*time.Millisecond, -400*time.Millisecond)
		}
		off := offs[rng.IntN(len(offs))]
		pn := "expired" + off.String()
		if rng.IntN(4) == 0 {
			// very old segments: ages around powers of two seconds (arithmetic
			// boundaries of any fixed-width time computation), up to the 2^32 s
			// range of the timestamp field
			k := 16 + rng.IntN(16)
			age := (int64(1) << k) + int64(rng.IntN(7200)) - 3600
			if age > now.Unix()-100000 {
				age = now.Unix() - 100000 - int64(rng.IntN(3600))
			}
			off = -time.Duration(age) * time.Second
			pn = fmt.Sprintf("expired-age~2^%d s", k)
		}
		p = &pert{name: pn, expired: true, expOff: off, target: tgt}
		// expiry = ts + (exp+1)*337.5 s == now + off  => ts = now + off - life
		seg := sc.Spec.Segs[segIdx].Seg
		hop.Exp = uint8(rng.IntN(256))
		life := time.Duration(rfix.ExpDurationNs(hop.Exp))
		want := now.Add(off).Add(-life)
		seg.Ts = uint32(want.Unix()) // floor: expiry <= now+off
		// other hops of the segment (different ASes or our second hop) keep
		// long lifetimes so that only this hop is expired
		for i := range seg.Hops {
			if &seg.Hops[i] != hop {
				seg.Hops[i].Exp = 255
			}
		}
		if life > 20*time.Hour && len(local) == 2 {
			// the other local hop is in another segment: unaffected
		}
		seg.Seal(rng)
	case 9: // barely fresh hop with valid MAC: must be accepted
		off := []time.Duration{3 * time.Second, 10 * time.Second, time.Minute}[rng.IntN(3)]
		p = &pert{name: "fresh+" + off.String(), target: tgt}
		seg := sc.Spec.Segs[segIdx].Seg
		hop.Exp = uint8(rng.IntN(256))
		life := time.Duration(rfix.ExpDurationNs(hop.Exp))
		seg.Ts = uint32(now.Add(off).Add(-life).Unix() + 1) // ceil: expiry >= now+off
		for i := range seg.Hops {
			if &seg.Hops[i] != hop {
				seg.Hops[i].Exp = 255
			}
		}
		seg.Seal(rng)
		p.name = "fresh"
	}
	in, err := sc.Packet(rng, mod)
	if err != nil {
		r.Inconclusive("build-error")
		return
	}
	h, err := rfix.ParseHdr(in)
	if err != nil {
		r.Violation("C01:fixture-parse", "reference parser rejects a generated packet: "+err.Error(), witness(s, sc, "", in, nil))
		return
	}
	if rawPatch != nil {
		if rng.IntN(2) == 0 {
			// history: the same processor first sees the untampered packet (a valid
			// flow), then the tampered variant of the very same hop field
			pre := s.Process(in, sc.In)
			if pre.Forwarded() {
				r.Event("valid_then_tampered_pair")
			}
		}
		rawPatch(in, h)
	}
	pname := "none"
	if p != nil {
		pname = p.name
	}
	in0 := append([]byte(nil), in...)
	t0 := time.Now()
	res := s.Process(in, sc.In)
	t1 := time.Now()
	r.Eval(1)
	if res.Panic != "" {
		r.Violation("C01:panic:"+mon.PanicSite(res.Stack), "panic while processing", witness(s, sc, pname, in, &res))
		return
	}
	universalC01(r, s, sc, pname, in, &res, fromOutside, t0, t1)
	if p != nil && !res.Forwarded() && rng.IntN(3) == 0 {
		// a refused packet presented again to the same processor stays refused
		again := append([]byte(nil), in0...)
		ta := time.Now()
		res2 := s.Process(again, sc.In)
		tb := time.Now()
		r.Eval(1)
		r.Event("refused_presented_again")
		if res2.Panic != "" {
			r.Violation("C01:panic:"+mon.PanicSite(res2.Stack), "panic while processing", witness(s, sc, pname+"/again", in0, &res2))
			return
		}
		universalC01(r, s, sc, pname+"/presented-again", in0, &res2, fromOutside, ta, tb)
	}
	outcome := "drop"
	if res.Forwarded() {
		outcome = "forward"
		if res.OutScope == router.Internal && sc.Deliver {
			outcome = "deliver"
		}
	} else if res.ViaSlow && res.Out != nil {
		outcome = fmt.Sprintf("scmp-%d-%d", res.SlowKind, res.SlowCode)
	}
	ing := "external"
	if sc.In.IfID == 0 {
		ing = "host"
	} else if !fromOutside {
		ing = "sibling"
	}
	pclass := pname
	if p != nil && p.expired {
		pclass = "expired"
	}
	if len(pclass) > 8 && pclass[:8] == "mac-bit-" {
		pclass = "mac-bit"
	}
	r.Class(fmt.Sprintf("%s/%s/ext%d/epic=%v/%s/second=%v/%s", sc.Shape, ing, ext, asEPIC, pclass, second && p != nil, outcome))
	if asEPIC {
		r.Event("epic_wrapped")
	}
	if r.WantSample() && idx%997 == 0 {
		r.Sample(witness(s, sc, pname, in, &res))
	}
	hopPtr := func(g int) uint16 { return uint16(h.HopOff[g]) }
	switch {
	case p == nil || p.name == "fresh":
		if res.Forwarded() {
			r.Event("valid_accepted")
			if p != nil {
				r.Event("fresh_accepted")
			}
		} else {
			// Not a C01 matter by itself (C01 is an only-if), but the monitor is
			// blind if valid packets are not accepted: count and flag.
			r.Event("valid_rejected")
			r.Violation("C01:valid-rejected/"+sc.Shape.String(), "a packet valid in every respect was not forwarded/delivered (fixture or router defect; the C01 monitor needs accepted traffic)", witness(s, sc, pname, in, &res))
		}
	case p.expired:
		expiry := sc.Spec.Segs[segIdx].Seg.Ts
		expNs := int64(expiry)*1e9 + rfix.ExpDurationNs(hop.Exp)
		if !(expNs < t0.UnixNano()) {
			r.Inconclusive("time-bracket")
			return
		}
		if res.Forwarded() {
			return // already reported by the universal oracle
		}
		r.Event("expired_rejected")
		if second {
			r.Event("xover_second_hop_rejected")
		}
		if res.ViaSlow {
			if res.SlowKind != scmpParamProblem || res.SlowCode != int(scmpCodePathExpired) {
				r.Violation("C01:expired-wrong-scmp", fmt.Sprintf("expired hop answered with SCMP %d/%d instead of ParameterProblem/PathExpired", res.SlowKind, res.SlowCode), witness(s, sc, pname, in, &res))
			} else if res.SlowPtr != hopPtr(tgt) {
				r.Violation("C01:expired-wrong-pointer", fmt.Sprintf("PathExpired pointer %d does not designate the expired hop field at offset %d", res.SlowPtr, hopPtr(tgt)), witness(s, sc, pname, in, &res))
			} else {
				r.Event("expired_scmp_pointer_ok")
				checkScmpPointerOnWire(r, s, sc, pname, in, &res, hopPtr(tgt))
			}
		}
	default:
		if res.Forwarded() {
			// universal oracle has reported it unless the perturbation happened to
			// keep the MAC valid (ConsIngress flip irrelevant?) - cannot happen:
			// every perturbed value is MAC input.
			return
		}
		if res.ViaSlow {
			r.Event("perturbed_rejected_scmp")
		} else {
			r.Event("perturbed_rejected_drop")
		}
		if second {
			r.Event("xover_second_hop_rejected")
		}
		if res.ViaSlow && res.SlowKind == scmpParamProblem && res.SlowCode == int(scmpCodeInvalidMAC) {
			if res.SlowPtr != hopPtr(tgt) {
				r.Violation("C01:mac-wrong-pointer", fmt.Sprintf("InvalidHopFieldMAC pointer %d does not designate the offending hop field at offset %d", res.SlowPtr, hopPtr(tgt)), witness(s, sc, pname, in, &res))
			} else {
				r.Event("mac_scmp_pointer_ok")
				checkScmpPointerOnWire(r, s, sc, pname, in, &res, hopPtr(tgt))
			}
		} else if p.strict {
			if !res.ViaSlow {
				// "dropped or answered": a silent drop is allowed by the statement
				r.Event("strict_silent_drop")
			} else {
				r.Violation("C01:mac-wrong-scmp", fmt.Sprintf("invalid MAC answered with SCMP %d/%d instead of ParameterProblem/InvalidHopFieldMAC", res.SlowKind, res.SlowCode), witness(s, sc, pname, in, &res))
			}
		}
	}
}

// checkScmpPointerOnWire checks the pointer in the SCMP message actually
// emitted (not just the internal request).
func checkScmpPointerOnWire(r *mon.Run, s *rfix.Star, sc *rfix.Scn, pname string, in []byte, res *rfix.Result, want uint16) {
	if res.Out == nil {
		return // slow path declined to answer (e.g. offending packet was an SCMP error)
	}
	m := rfix.ParseSCMP(res.Out)
	if !m.OK {
		r.Violation("C01:scmp-unparsable", "emitted SCMP answer does not parse", witness(s, sc, pname, in, res))
		return
	}
	if m.Type != scmpParamProblem || m.Pointer != want {
		r.Violation("C01:scmp-wire-pointer", fmt.Sprintf("emitted SCMP type %d pointer %d, want type 4 pointer %d", m.Type, m.Pointer, want), witness(s, sc, pname, in, res))
	}
	_ = binary.BigEndian
}

// c01IdlePhase: hop fields that expire while the processor sits idle. A batch
// of valid packets whose hop at this router expires 0.5-1.5 s from now is
// processed (accepted while fresh), the fixture then stays idle until all of
// them have expired, and the very same packets are offered again: none may be
// forwarded, however the router keeps its notion of the current time.
func c01IdlePhase(r *mon.Run, rng *rand.Rand, s *rfix.Star) {
	type item struct {
		sc  *rfix.Scn
		in  []byte
		exp int64
		out bool
	}
	var items []item
	now := time.Now()
	var latest int64
	for len(items) < 24 {
		sc := s.GenScenario(rng, rfix.Shape(rng.IntN(int(rfix.NumShapes))), now.Unix())
		tgt := sc.LocalHops[0]
		segIdx, _ := sc.Spec.Locate(tgt)
		seg := sc.Spec.Segs[segIdx].Seg
		hop := sc.Spec.HopAt(tgt)
		hop.Exp = uint8(rng.IntN(256))
		life := time.Duration(rfix.ExpDurationNs(hop.Exp))
		seg.Ts = uint32(now.Add(500*time.Millisecond).Add(-life).Unix() + 1) // expiry in [now+0.5s, now+1.5s)
		for i := range seg.Hops {
			if &seg.Hops[i] != hop {
				seg.Hops[i].Exp = 255
			}
		}
		seg.Seal(rng)
		in, err := sc.Packet(rng, nil)
		if err != nil {
			continue
		}
		v := rfix.JudgeHops(in, s.Cfg.HopKey, sc.Arr == rfix.ArrExternal)
		if !v.Parsed || !v.CurMAC {
			continue
		}
		items = append(items, item{sc: sc, in: in, exp: v.CurExpNs, out: sc.Arr == rfix.ArrExternal})
		if v.CurExpNs > latest {
			latest = v.CurExpNs
		}
	}
	for i := range items {
		it := &items[i]
		buf := append([]byte{}, it.in...)
		res := s.Process(buf, it.sc.In)
		t1 := time.Now()
		r.Eval(1)
		switch {
		case res.Panic != "":
			r.Violation("C01:panic:"+mon.PanicSite(res.Stack), "panic while processing", witness(s, it.sc, "idle/first", it.in, &res))
		case t1.UnixNano() >= it.exp:
			r.Inconclusive("time-bracket")
		case res.Forwarded():
			r.Event("idle_accepted_before_expiry")
		default:
			r.Event("idle_fresh_not_forwarded") // another rule of the router applied; not C01's business here
		}
	}
	// idle until every hop has expired (watchdog-free: the wait is bounded by construction, < 2 s)
	if d := time.Until(time.Unix(0, latest).Add(250 * time.Millisecond)); d > 0 {
		time.Sleep(d)
	}
	for i := range items {
		it := &items[i]
		buf := append([]byte{}, it.in...)
		t0 := time.Now()
		res := s.Process(buf, it.sc.In)
		t1 := time.Now()
		r.Eval(1)
		if res.Panic != "" {
			r.Violation("C01:panic:"+mon.PanicSite(res.Stack), "panic while processing", witness(s, it.sc, "idle/second", it.in, &res))
			continue
		}
		r.Class("idle/expired-while-idle/forwarded=" + fmt.Sprint(res.Forwarded()))
		if res.Forwarded() {
			// reported by the universal oracle as forwarded-expired/current
			universalC01(r, s, it.sc, "expired-while-processor-idle", it.in, &res, it.out, t0, t1)
		} else {
			r.Event("idle_rejected_after_expiry")
		}
	}
}

// c01ConcurrentPhase: several processors of ONE data plane work at the same
// time, as the router's processor goroutines do: some on authentic packets,
// one on packets in which a single MAC-protected value of the same hop field
// was altered. Whatever the processors share, a tampered packet must not get
// through.
func c01ConcurrentPhase(r *mon.Run, rng *rand.Rand, s *rfix.Star) {
	var sc *rfix.Scn
	var valid []byte
	for try := 0; try < 50 && valid == nil; try++ {
		c := s.GenScenario(rng, rfix.Shape(rng.IntN(int(rfix.NumShapes))), time.Now().Unix())
		b, err := c.Packet(rng, nil)
		if err != nil {
			continue
		}
		if res := s.Process(append([]byte(nil), b...), c.In); res.Forwarded() {
			sc, valid = c, b
		}
	}
	if valid == nil {
		r.Inconclusive("no-forwardable-scenario")
		return
	}
	h, err := rfix.ParseHdr(valid)
	if err != nil {
		return
	}
	tgt := sc.LocalHops[0]
	fromOutside := sc.Arr == rfix.ArrExternal
	const nValid = 5
	n := r.Pick(4000, 40000)
	var wg sync.WaitGroup
	stop := make(chan struct{})
	for w := 0; w < nValid; w++ {
		f := s.Fork()
		wg.Add(1)
		go func() {
			defer wg.Done()
			buf := make([]byte, len(valid))
			ok := 0
			for {
				select {
				case <-stop:
					r.EventN("concurrent_valid_forwarded", int64(ok))
					return
				default:
				}
				copy(buf, valid)
				if res := f.Process(buf, sc.In); res.Forwarded() {
					ok++
				}
			}
		}()
	}
	f := s.Fork()
	trng := rand.New(rand.NewPCG(rng.Uint64(), rng.Uint64()))
	for i := 0; i < n; i++ {
		t := append([]byte(nil), valid...)
		switch trng.IntN(4) {
		case 0:
			t[h.HopOff[tgt]+1] ^= 1 << trng.IntN(8) // ExpTime
		case 1:
			t[h.HopOff[tgt]+2+trng.IntN(4)] ^= 1 << trng.IntN(8) // ConsIngress / ConsEgress
		case 2:
			t[h.HopOff[tgt]+6+trng.IntN(6)] ^= 1 << trng.IntN(8) // MAC
		case 3:
			si, _ := sc.Spec.Locate(tgt)
			t[h.InfoOff[si]+4+trng.IntN(4)] ^= 1 << trng.IntN(8) // timestamp
		}
		in0 := append([]byte(nil), t...)
		t0 := time.Now()
		res := f.Process(t, sc.In)
		t1 := time.Now()
		r.Eval(1)
		r.Event("concurrent_tampered_judged")
		if res.Panic != "" {
			r.Violation("C01:panic:"+mon.PanicSite(res.Stack), "panic while processing", witness(s, sc, "concurrent", in0, &res))
			break
		}
		universalC01(r, s, sc, "tampered-while-other-processors-verify-the-authentic-hop", in0, &res, fromOutside, t0, t1)
	}
	close(stop)
	wg.Wait()
	r.Class("concurrent/6-processors-one-data-plane")
}
