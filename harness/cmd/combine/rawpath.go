package main

// Independent parser of the raw SCION path type (doc/protocols/scion-header.rst,
// "Path Type: SCION"): 4-byte PathMeta (CurrINF 2 | CurrHF 6 | RSV 6 | Seg0Len 6 |
// Seg1Len 6 | Seg2Len 6), 8-byte info fields (flags r r r r r r P C | RSV |
// SegID 16 | Timestamp 32), 12-byte hop fields (flags | ExpTime | ConsIngress 16
// | ConsEgress 16 | MAC 48). It does not use pkg/slayers.

import (
	"encoding/binary"
	"fmt"
)

type rawInfo struct {
	ConsDir, Peer bool
	Flags, RSV    byte
	SegID         uint16
	Timestamp     uint32
}

type rawHop struct {
	Flags       byte
	ExpTime     uint8
	ConsIngress uint16
	ConsEgress  uint16
	MAC         [6]byte
}

type rawPath struct {
	CurrINF, CurrHF, RSV uint8
	SegLen               [3]int
	Infos                []rawInfo
	Hops                 [][]rawHop // per segment
	NumHops              int
}

// parseRaw parses b; the error text names the first structural inconsistency.
func parseRaw(b []byte) (*rawPath, error) {
	if len(b) < 4 {
		return nil, fmt.Errorf("path of %d bytes has no meta header", len(b))
	}
	line := binary.BigEndian.Uint32(b)
	p := &rawPath{
		CurrINF: uint8(line >> 30), CurrHF: uint8(line>>24) & 0x3f, RSV: uint8(line>>18) & 0x3f,
		SegLen: [3]int{int(line>>12) & 0x3f, int(line>>6) & 0x3f, int(line) & 0x3f},
	}
	numINF := 0
	for i := 0; i < 3; i++ {
		if p.SegLen[i] > 0 {
			if i != numINF {
				return p, fmt.Errorf("SegLen %v: non-zero length after a zero length", p.SegLen)
			}
			numINF++
			p.NumHops += p.SegLen[i]
		}
	}
	if numINF == 0 {
		return p, fmt.Errorf("SegLen %v: no segment (path has %d bytes)", p.SegLen, len(b))
	}
	if want := 4 + 8*numINF + 12*p.NumHops; want != len(b) {
		return p, fmt.Errorf("SegLen %v implies %d bytes, path has %d bytes", p.SegLen, want, len(b))
	}
	off := 4
	for i := 0; i < numINF; i++ {
		f := b[off]
		p.Infos = append(p.Infos, rawInfo{ConsDir: f&1 != 0, Peer: f&2 != 0, Flags: f, RSV: b[off+1],
			SegID: binary.BigEndian.Uint16(b[off+2:]), Timestamp: binary.BigEndian.Uint32(b[off+4:])})
		off += 8
	}
	for i := 0; i < numINF; i++ {
		var hs []rawHop
		for k := 0; k < p.SegLen[i]; k++ {
			h := rawHop{Flags: b[off], ExpTime: b[off+1], ConsIngress: binary.BigEndian.Uint16(b[off+2:]),
				ConsEgress: binary.BigEndian.Uint16(b[off+4:])}
			copy(h.MAC[:], b[off+6:off+12])
			hs = append(hs, h)
			off += 12
		}
		p.Hops = append(p.Hops, hs)
	}
	return p, nil
}
