// Command combine serves the path-combination properties C28 (combined paths
// are well-formed and their metadata is accurate) and C29 (path combination
// finds every valid segment combination).
package main

import (
	"encoding/json"
	"fmt"
	"os"

	"verif/mon"
)

func main() {
	mon.Main(map[string]func(*mon.Run){
		"C28": checkC28,
		"C29": checkC29,
	})
}

// replay re-judges the Combine call stored in a replay file.
func replay(r *mon.Run, file string, judge func(*call)) {
	b, err := os.ReadFile(file)
	if err != nil {
		fmt.Println("replay:", err)
		r.Inconclusive("replay-unreadable")
		return
	}
	var rf struct {
		Witness struct {
			Call callJSON `json:"call"`
		} `json:"witness"`
	}
	if err := json.Unmarshal(b, &rf); err != nil {
		fmt.Println("replay:", err)
		r.Inconclusive("replay-unreadable")
		return
	}
	c, err := callFromJSON(rf.Witness.Call)
	if err != nil {
		fmt.Println("replay:", err)
		r.Inconclusive("replay-unreadable")
		return
	}
	judge(c)
	r.Class("replay/" + c.Family)
	r.Class("replay/" + c.Variant)
	r.Sample(rf.Witness.Call.Src + "→" + rf.Witness.Call.Dst)
}
