package main

import (
	"fmt"

	"verif/mon"
)

type c29Witness struct {
	Call     callJSON `json:"call"`
	FindAll  bool     `json:"find_all_identical"`
	Missing  string   `json:"missing_sequence"`
	Shape    string   `json:"shape"`
	Returned []string `json:"returned_sequences"`
}

// judgeCallC29: every interface sequence of the reference enumeration that
// crosses no AS more than twice must be among the returned paths.
func judgeCallC29(r *mon.Run, c *call) {
	foreign := 0
	refs := enumerate(c.Src, c.Dst, c.Ups, c.Cores, c.Down, &foreign)
	for _, findAll := range []bool{true, false} {
		res, ok := combineGuard(r, "C29", c, findAll)
		if !ok {
			continue
		}
		got := map[string]bool{}
		for _, p := range res {
			got[ifKey(pathIfs(p))] = true
		}
		mode := "dedup"
		if findAll {
			mode = "all"
		}
		done := map[string]bool{}
		for _, rf := range refs {
			if done[rf.key] {
				r.Event("ref_duplicate_construction")
				continue
			}
			done[rf.key] = true
			cls := fmt.Sprintf("%s/hops=%s/%s", rf.shape(), hopBucket(len(rf.Ifs)/2+1), c.Family)
			if rf.Unencodable {
				r.Class("not-demanded(exceeds SegLen/CurrHF range)/" + rf.shape() + "/" + c.Family)
				r.Event("ref_not_demanded_unencodable")
				continue
			}
			if rf.MaxIfPerAS > 2 {
				// Crosses more than two interfaces of some AS: not demanded. When
				// no AS is *visited* more than twice the statement could be read
				// as demanding it; recorded, never judged.
				if rf.MaxVisits <= 2 {
					r.Class("not-demanded(two visits of one AS)/" + rf.shape() + "/" + c.Family)
					r.Event("ref_not_demanded_two_visits")
					if got[rf.key] {
						r.Event("obs_two_visit_path_returned")
					}
				} else {
					r.Event("ref_excluded_three_visits")
				}
				continue
			}
			r.Eval(1)
			r.Class(cls)
			r.Event("demanded_" + mode)
			if got[rf.key] {
				r.Event("found")
				if r.WantSample() && rf.Join != "" && findAll {
					r.Sample(map[string]any{"src": c.Src.String(), "dst": c.Dst.String(), "family": c.Family,
						"variant": c.Variant, "demanded": rf.describe(), "returned_paths": len(res)})
				}
				continue
			}
			var ret []string
			for _, p := range res {
				ret = append(ret, fmtIfs(pathIfs(p)))
			}
			key := "C29:missing/" + rf.shape()
			if !findAll {
				key = "C29:missing-dedup/" + rf.shape()
			}
			r.Violation(key, fmt.Sprintf("%s→%s (findAllIdentical=%v): the %s join %s is not among the %d returned paths",
				c.Src, c.Dst, findAll, rf.shape(), fmtIfsShort(rf.Ifs), len(res)),
				c29Witness{Call: c.witness(), FindAll: findAll, Missing: fmtIfs(rf.Ifs), Shape: rf.shape(), Returned: ret})
		}
		// Paths that are no reference join are C28's business; count them.
		refKeys := done
		for k := range got {
			if !refKeys[k] {
				r.Event("obs_returned_but_not_enumerated")
			}
		}
		if len(refs) == 0 {
			r.Event("no_join_exists")
			if len(res) == 0 {
				r.Event("no_join_exists_and_none_returned")
			}
		}
	}
	if foreign > 0 {
		r.Event("call_with_foreign_segments")
	}
}

func checkC29(r *mon.Run) {
	r.Rule = "for every ordered AS pair of generated topologies (simtopo multi-ISD + chains + forks = two short branches below a stem of up to 58 ASes, so that short shortcut/peering paths lie inside segments whose lengths exceed 64 together; segments from real beaconing, " +
		"plus variants: per-hop expiries, changed MTUs, re-registered duplicates, one-sided peering announcements, all " +
		"segments of the topology supplied) a brute-force enumeration lists all joins of ≤1 up × ≤1 core × ≤1 down segment " +
		"(common AS incl. shortcuts and on-path src/dst, peering links announced by both segments); every distinct interface " +
		"sequence that crosses no AS more than twice must be returned by Combine with findAllIdentical=true and =false; " +
		"class = path shape × hop bucket × topology family"
	r.Assumptions = []string{
		"an up segment is usable only by the AS it ends at, a down segment only towards the AS it ends at; core segments are used whole (statement: shortcuts lie inside an up and a down segment)",
		"up–core and core–down joins are demanded only at the first AS of the up/down segment",
		"joins with a segment part of more than 63 hop fields or more than 64 hop fields in total cannot be written into a SCION path header and are not demanded",
		"joins that cross more than two interfaces of one AS are not demanded; those that visit no AS more than twice (e.g. the source AS re-entered once) are recorded as class not-demanded(two visits of one AS), since the statement can be read either way",
	}
	if rf := r.ReplayFile(); rf != "" {
		replay(r, rf, func(c *call) { judgeCallC29(r, c) })
		return
	}
	n := r.Pick(80, 800)
	runWorkload(r, n, func(c *call) { judgeCallC29(r, c) })
	r.Extra("topologies", n)
	r.Require(int64(r.Pick(15000, 200000)), 25, "combine_on_shared_slices_after_earlier_lookups", "demanded_all", "demanded_dedup", "found", "ref_duplicate_construction",
		"ref_not_demanded_two_visits", "no_join_exists_and_none_returned")
	r.RequireClasses(
		"UD/shortcut/hops=3-4/multi", "UD/peer/hops=3-4/multi", "UD/peer-direct/hops=2/multi", "UD/core/hops=3-4/multi",
		"UCD/hops=5-7/multi", "UC/hops=3-4/multi", "CD/hops=3-4/multi", "C/hops=2/multi",
		"U/onpath/hops=2/multi", "D/onpath/hops=2/multi", "U/onpath/hops=17+/chain", "D/onpath/hops=17+/chain",
		"UD/shortcut/hops=3-4/fork", "UD/peer/hops=3-4/fork",
	)
}
