package main

// Reference model for C28/C29 ("enumpaths" / "pathmeta"): a brute-force
// enumeration of every way to join at most one up, one core and one down
// segment, written from the property statement and the SCION documentation
// (doc/control-plane.rst "Peering Links", doc/protocols/scion-header.rst "Path
// Calculation"); it shares no code with private/path/combinator and never
// calls it. Only plain data types (seg.PathSegment, addr.IA) are imported.

import (
	"encoding/binary"
	"fmt"
	"strings"
	"time"

	"github.com/scionproto/scion/pkg/addr"
	seg "github.com/scionproto/scion/pkg/segment"
)

// expUnit is the hop-field expiry unit: 24 h / 256 (scion-header.rst, ExpTime).
const expUnit = 24 * time.Hour / 256

type refIf struct {
	IA addr.IA
	ID uint16
}

// refHop is one hop field of a reference path, in forwarding order.
type refHop struct {
	IA     addr.IA
	HF     seg.HopField
	IsPeer bool // taken from a peer entry rather than the hop entry
	Entry  int  // index of the AS entry in the source segment
	PeerIx int  // index of the peer entry (when IsPeer)
}

// refSeg is the used part of one input segment.
type refSeg struct {
	Kind      byte // 'U', 'C', 'D'
	Src       *seg.PathSegment
	ConsDir   bool
	Peer      bool
	Timestamp uint32
	Hops      []refHop
	// SegIDRouter is the initial SegID under the rule the router implements
	// (observation only, see checkC28).
	SegIDRouter uint16
}

// refPath is one reference join.
type refPath struct {
	Segs  []refSeg
	Kinds string // "U", "UD", "UCD", …
	Join  string // "", "core", "shortcut", "peer", "peer-direct", "onpath"
	Ifs   []refIf
	// Expiry is the earliest hop-field expiry over the hop fields used.
	Expiry time.Time
	// MTU is the minimum of the internal MTU of every AS entry used, the
	// ingress-link MTU of every hop entry whose construction-ingress link is
	// traversed, and the peering-link MTU of every peer entry used.
	MTU int
	// MaxIfPerAS is the largest number of interfaces of one AS in Ifs;
	// MaxVisits the largest number of separate visits of one AS.
	MaxIfPerAS, MaxVisits int
	// Unencodable: a used segment part has more than 63 hop fields (6-bit
	// SegLen) or the path more than 64 (6-bit CurrHF); no SCION path header can
	// express the join.
	Unencodable bool
	key         string
}

func ifKey(ifs []refIf) string {
	var b strings.Builder
	var buf [10]byte
	for _, i := range ifs {
		binary.BigEndian.PutUint64(buf[:8], uint64(i.IA))
		binary.BigEndian.PutUint16(buf[8:], i.ID)
		b.Write(buf[:])
	}
	return b.String()
}

func (p *refPath) shape() string {
	if p.Join == "" {
		return p.Kinds
	}
	return p.Kinds + "/" + p.Join
}

func hopBucket(nAS int) string {
	switch {
	case nAS <= 2:
		return "2"
	case nAS <= 4:
		return "3-4"
	case nAS <= 7:
		return "5-7"
	case nAS <= 16:
		return "8-16"
	default:
		return "17+"
	}
}

// betas returns β_0 … β_n of a segment (β_0 = SegmentID, β_{i+1} = β_i ⊕ σ_i[:2]).
func betas(s *seg.PathSegment) []uint16 {
	out := make([]uint16, len(s.ASEntries)+1)
	out[0] = s.Info.SegmentID
	for i, e := range s.ASEntries {
		out[i+1] = out[i] ^ binary.BigEndian.Uint16(e.HopEntry.HopField.MAC[:2])
	}
	return out
}

// against builds the part of segment s walked against construction direction
// (up and core segments) from its last entry down to entry cut. peer ≥ 0
// selects peer entry peer of entry cut instead of its hop entry.
func against(kind byte, s *seg.PathSegment, cut, peer int) refSeg {
	n := len(s.ASEntries)
	rs := refSeg{Kind: kind, Src: s, ConsDir: false, Peer: peer >= 0, Timestamp: uint32(s.Info.Timestamp.Unix())}
	for k := n - 1; k >= cut; k-- {
		e := s.ASEntries[k]
		h := refHop{IA: e.Local, HF: e.HopEntry.HopField, Entry: k}
		if k == cut && peer >= 0 {
			h.HF, h.IsPeer, h.PeerIx = e.PeerEntries[peer].HopField, true, peer
		}
		rs.Hops = append(rs.Hops, h)
	}
	b := betas(s)
	rs.SegIDRouter = b[n-1]
	if cut == n-1 && peer >= 0 {
		rs.SegIDRouter = b[n]
	}
	return rs
}

// along builds the part of segment s walked in construction direction (down
// segments) from entry cut to the last entry.
func along(s *seg.PathSegment, cut, peer int) refSeg {
	n := len(s.ASEntries)
	rs := refSeg{Kind: 'D', Src: s, ConsDir: true, Peer: peer >= 0, Timestamp: uint32(s.Info.Timestamp.Unix())}
	for k := cut; k < n; k++ {
		e := s.ASEntries[k]
		h := refHop{IA: e.Local, HF: e.HopEntry.HopField, Entry: k}
		if k == cut && peer >= 0 {
			h.HF, h.IsPeer, h.PeerIx = e.PeerEntries[peer].HopField, true, peer
		}
		rs.Hops = append(rs.Hops, h)
	}
	b := betas(s)
	rs.SegIDRouter = b[cut]
	if peer >= 0 {
		rs.SegIDRouter = b[cut+1]
	}
	return rs
}

// traversal derives the interface traversal implied by hop fields: per
// segment the construction-direction flag and whether it is joined to its
// neighbour over a peering link. A hop is entered through ConsIngress and
// left through ConsEgress in construction direction, the other way round
// against it. The first hop of the path is only left, the last only entered;
// at a non-peering segment change the two adjacent hops belong to the same AS,
// which is entered through the first and left through the second.
type travHop struct {
	In, Out uint16
}

func traversalIDs(segs [][]travHop, peer []bool) (ids []uint16, pos [][2]int) {
	for si, hops := range segs {
		for hi, h := range hops {
			firstOfPath := si == 0 && hi == 0
			lastOfPath := si == len(segs)-1 && hi == len(hops)-1
			enter := !firstOfPath
			leave := !lastOfPath
			if hi == 0 && si > 0 && !peer[si] {
				enter = false // same AS as the previous segment's last hop
			}
			if hi == len(hops)-1 && si < len(segs)-1 && !peer[si] {
				leave = false
			}
			if enter {
				ids = append(ids, h.In)
				pos = append(pos, [2]int{si, hi})
			}
			if leave {
				ids = append(ids, h.Out)
				pos = append(pos, [2]int{si, hi})
			}
		}
	}
	return ids, pos
}

func inOut(hf seg.HopField, consDir bool) travHop {
	if consDir {
		return travHop{In: hf.ConsIngress, Out: hf.ConsEgress}
	}
	return travHop{In: hf.ConsEgress, Out: hf.ConsIngress}
}

// finish computes interfaces, expiry, MTU and visit counts of a join.
func finish(kinds, join string, segs ...refSeg) *refPath {
	p := &refPath{Segs: segs, Kinds: kinds, Join: join}
	var th [][]travHop
	var peer []bool
	for _, s := range segs {
		var hs []travHop
		for _, h := range s.Hops {
			hs = append(hs, inOut(h.HF, s.ConsDir))
		}
		th = append(th, hs)
		peer = append(peer, s.Peer)
	}
	ids, pos := traversalIDs(th, peer)
	for k, id := range ids {
		p.Ifs = append(p.Ifs, refIf{IA: segs[pos[k][0]].Hops[pos[k][1]].IA, ID: id})
	}
	p.key = ifKey(p.Ifs)

	// Expiry: earliest over the hop fields used.
	first := true
	for _, s := range segs {
		ts := time.Unix(int64(s.Timestamp), 0)
		for _, h := range s.Hops {
			e := ts.Add(time.Duration(int(h.HF.ExpTime)+1) * expUnit)
			if first || e.Before(p.Expiry) {
				p.Expiry, first = e, false
			}
		}
	}

	// MTU.
	p.MTU = 1 << 30
	for _, s := range segs {
		lo := s.Hops[0].Entry // smallest entry index used
		for _, h := range s.Hops {
			lo = min(lo, h.Entry)
		}
		for _, h := range s.Hops {
			e := s.Src.ASEntries[h.Entry]
			p.MTU = min(p.MTU, e.MTU)
			if h.IsPeer {
				p.MTU = min(p.MTU, e.PeerEntries[h.PeerIx].PeerMTU)
				continue
			}
			// The link on the construction-ingress side of entry k joins it to
			// entry k-1; it is traversed iff entry k-1 is used as well.
			if h.Entry > lo && e.HopEntry.IngressMTU != 0 {
				p.MTU = min(p.MTU, e.HopEntry.IngressMTU)
			}
		}
	}

	total := 0
	for _, s := range segs {
		total += len(s.Hops)
		if len(s.Hops) > 63 {
			p.Unencodable = true
		}
	}
	if total > 64 {
		p.Unencodable = true
	}

	// Visits.
	cnt := map[addr.IA]int{}
	vis := map[addr.IA]int{}
	for k, i := range p.Ifs {
		cnt[i.IA]++
		if k == 0 || p.Ifs[k-1].IA != i.IA {
			vis[i.IA]++
		}
		p.MaxIfPerAS = max(p.MaxIfPerAS, cnt[i.IA])
		p.MaxVisits = max(p.MaxVisits, vis[i.IA])
	}
	return p
}

// enumerate lists every join of ≤ 1 up × ≤ 1 core × ≤ 1 down segment (in that
// order) that leads from src to dst:
//   - an up segment is a segment whose last AS is src, walked from its end; it
//     may be left at any AS it contains (the destination itself, a core AS, or
//     an AS it has in common with the down segment: shortcut);
//   - a down segment is a segment whose last AS is dst; it may be entered at
//     any AS it contains (the source itself, its core AS, a common AS);
//   - a core segment is used as a whole, from its last to its first AS;
//   - up–core and core–down joins happen at the first AS of the up/down segment;
//   - a peering join uses peer entry p of an up-segment entry and peer entry q
//     of a down-segment entry that describe the same link from both ends.
//
// Segments supplied as "ups" that do not end at src (or "downs" not ending at
// dst) are not demanded (counted in *foreign).
func enumerate(src, dst addr.IA, ups, cores, downs []*seg.PathSegment, foreign *int) []*refPath {
	var out []*refPath
	var us, ds []*seg.PathSegment
	for _, u := range ups {
		if len(u.ASEntries) > 0 && u.ASEntries[len(u.ASEntries)-1].Local == src {
			us = append(us, u)
		} else {
			*foreign++
		}
	}
	for _, d := range downs {
		if len(d.ASEntries) > 0 && d.ASEntries[len(d.ASEntries)-1].Local == dst {
			ds = append(ds, d)
		} else {
			*foreign++
		}
	}
	// up only
	for _, u := range us {
		n := len(u.ASEntries)
		for i := 0; i < n-1; i++ {
			if u.ASEntries[i].Local == dst {
				j := ""
				if i > 0 {
					j = "onpath"
				}
				out = append(out, finish("U", j, against('U', u, i, -1)))
			}
		}
	}
	// down only
	for _, d := range ds {
		n := len(d.ASEntries)
		for j := 0; j < n-1; j++ {
			if d.ASEntries[j].Local == src {
				jn := ""
				if j > 0 {
					jn = "onpath"
				}
				out = append(out, finish("D", jn, along(d, j, -1)))
			}
		}
	}
	// core only, up+core, core+down, up+core+down
	for _, c := range cores {
		n := len(c.ASEntries)
		if n < 2 {
			continue
		}
		from, to := c.ASEntries[n-1].Local, c.ASEntries[0].Local
		if from == src && to == dst {
			out = append(out, finish("C", "", against('C', c, 0, -1)))
		}
		if to == dst {
			for _, u := range us {
				if u.ASEntries[0].Local == from && len(u.ASEntries) > 1 {
					out = append(out, finish("UC", "", against('U', u, 0, -1), against('C', c, 0, -1)))
				}
			}
		}
		if from == src {
			for _, d := range ds {
				if d.ASEntries[0].Local == to && len(d.ASEntries) > 1 {
					out = append(out, finish("CD", "", against('C', c, 0, -1), along(d, 0, -1)))
				}
			}
		}
		for _, u := range us {
			if u.ASEntries[0].Local != from || len(u.ASEntries) < 2 {
				continue
			}
			for _, d := range ds {
				if d.ASEntries[0].Local == to && len(d.ASEntries) > 1 {
					out = append(out, finish("UCD", "",
						against('U', u, 0, -1), against('C', c, 0, -1), along(d, 0, -1)))
				}
			}
		}
	}
	// up+down: common AS (core join, shortcut) and peering
	for _, u := range us {
		nu := len(u.ASEntries)
		for _, d := range ds {
			nd := len(d.ASEntries)
			for i := 0; i < nu; i++ {
				for j := 0; j < nd; j++ {
					ue, de := u.ASEntries[i], d.ASEntries[j]
					if i < nu-1 && j < nd-1 && ue.Local == de.Local {
						jn := "shortcut"
						if i == 0 && j == 0 {
							jn = "core"
						}
						out = append(out, finish("UD", jn, against('U', u, i, -1), along(d, j, -1)))
					}
					for pi, p := range ue.PeerEntries {
						for qi, q := range de.PeerEntries {
							if p.Peer == de.Local && q.Peer == ue.Local &&
								p.PeerInterface == q.HopField.ConsIngress &&
								q.PeerInterface == p.HopField.ConsIngress {
								jn := "peer"
								if i == nu-1 || j == nd-1 {
									jn = "peer-direct" // src or dst is itself an end of the peering link
								}
								out = append(out, finish("UD", jn, against('U', u, i, pi), along(d, j, qi)))
							}
						}
					}
				}
			}
		}
	}
	return out
}

func (p *refPath) describe() string {
	var b strings.Builder
	fmt.Fprintf(&b, "%s:", p.shape())
	for _, i := range p.Ifs {
		fmt.Fprintf(&b, " %s#%d", i.IA, i.ID)
	}
	return b.String()
}
