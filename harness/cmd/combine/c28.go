package main

import (
	"fmt"
	"sync"
	"sync/atomic"
	"time"

	"github.com/scionproto/scion/private/path/combinator"

	"verif/mon"
)

// judgeIfCount selects the reading of "passes no AS more than twice" that is
// judged: true = "the path metadata lists at most two interfaces of any AS"
// (the documented behaviour of filterLongPaths, the anchored mechanism: "do not
// go more than twice through interfaces belonging to the same AS"). More than
// two separate visits of one AS is a violation under every reading.
const judgeIfCount = true

// combineGuard calls the function under test, converting a panic into a
// violation.
func combineGuard(r *mon.Run, prop string, c *call, all bool) (res []combinator.Path, ok bool) {
	p, stack := mon.Try(func() {
		if c.SharedUps != nil {
			res = combinator.Combine(c.Src, c.Dst, c.SharedUps, c.SharedCores, c.SharedDown, all)
			return
		}
		res = combinator.Combine(c.Src, c.Dst, c.Ups, c.Cores, c.Down, all)
	})
	if c.SharedUps != nil {
		r.Event("combine_on_shared_slices")
		if c.SharedSeq > 0 {
			r.Event("combine_on_shared_slices_after_earlier_lookups")
		}
	}
	if p != nil {
		r.Violation(prop+":panic:"+mon.PanicSite(stack), fmt.Sprintf("Combine panicked: %v\n%s", p, stack), c.witness())
		return nil, false
	}
	return res, true
}

func pathIfs(p combinator.Path) []refIf {
	out := make([]refIf, 0, len(p.Metadata.Interfaces))
	for _, i := range p.Metadata.Interfaces {
		out = append(out, refIf{IA: i.IA, ID: uint16(i.ID)})
	}
	return out
}

type c28Witness struct {
	Call      callJSON `json:"call"`
	FindAll   bool     `json:"find_all_identical"`
	PathIndex int      `json:"path_index"`
	Path      string   `json:"path"`
	Raw       string   `json:"raw"`
	Detail    string   `json:"detail,omitempty"`
}

func fmtIfsShort(ifs []refIf) string {
	if len(ifs) <= 16 {
		return fmtIfs(ifs)
	}
	return fmtIfs(ifs[:8]) + fmt.Sprintf(" …(%d more)… ", len(ifs)-12) + fmtIfs(ifs[len(ifs)-4:])
}

func fmtIfs(ifs []refIf) string {
	s := ""
	for k, i := range ifs {
		if k > 0 {
			s += " "
		}
		s += fmt.Sprintf("%s#%d", i.IA, i.ID)
	}
	return s
}

// matchRef compares a parsed raw path with one reference join; "" = identical
// info and hop fields.
func matchRef(rp *rawPath, ref *refPath) (kind, detail string) {
	if len(rp.Infos) != len(ref.Segs) {
		return "seglen", fmt.Sprintf("%d segments, join has %d", len(rp.Infos), len(ref.Segs))
	}
	for si, rs := range ref.Segs {
		if rp.SegLen[si] != len(rs.Hops) {
			return "seglen", fmt.Sprintf("SegLen[%d]=%d, the used part of the %c segment has %d hops", si, rp.SegLen[si], rs.Kind, len(rs.Hops))
		}
	}
	for si, rs := range ref.Segs {
		in := rp.Infos[si]
		if in.ConsDir != rs.ConsDir || in.Peer != rs.Peer || in.Timestamp != rs.Timestamp {
			return "info-field", fmt.Sprintf("info[%d] C=%v P=%v ts=%d, expected C=%v P=%v ts=%d (%c segment)",
				si, in.ConsDir, in.Peer, in.Timestamp, rs.ConsDir, rs.Peer, rs.Timestamp, rs.Kind)
		}
		for hi, h := range rs.Hops {
			g := rp.Hops[si][hi]
			if g.ExpTime != h.HF.ExpTime || g.ConsIngress != h.HF.ConsIngress || g.ConsEgress != h.HF.ConsEgress || g.MAC != h.HF.MAC {
				src := "hop entry"
				if h.IsPeer {
					src = "peer entry"
				}
				return "hop-field", fmt.Sprintf("segment %d hop %d = {exp %d in %d eg %d mac %x}, %s of %s (entry %d) is {exp %d in %d eg %d mac %x}",
					si, hi, g.ExpTime, g.ConsIngress, g.ConsEgress, g.MAC, src, h.IA, h.Entry,
					h.HF.ExpTime, h.HF.ConsIngress, h.HF.ConsEgress, h.HF.MAC)
			}
		}
	}
	return "", ""
}

var flagPatterns = map[string]bool{"0": true, "1": true, "00": true, "01": true, "001": true}

type c28Stats struct {
	segidMatch, segidMismatch atomic.Int64
}

// judgeCallC28 judges both result lists of one Combine call.
func judgeCallC28(r *mon.Run, c *call, st *c28Stats) {
	foreign := 0
	refs := enumerate(c.Src, c.Dst, c.Ups, c.Cores, c.Down, &foreign)
	byKey := map[string][]*refPath{}
	for _, rf := range refs {
		byKey[rf.key] = append(byKey[rf.key], rf)
	}
	for _, findAll := range []bool{true, false} {
		res, ok := combineGuard(r, "C28", c, findAll)
		if !ok {
			continue
		}
		mode := "dedup"
		if findAll {
			mode = "all"
		}
		seen := map[string]int{}
		prevW, prevHops := -1, -1
		weightIsHops := true
		for idx, p := range res {
			r.Eval(1)
			ifs := pathIfs(p)
			key := ifKey(ifs)
			wit := func(detail string) c28Witness {
				return c28Witness{Call: c.witness(), FindAll: findAll, PathIndex: idx, Path: fmtIfs(ifs),
					Raw: mon.Hex(p.SCIONPath.Raw), Detail: detail}
			}
			// (1) raw path structure: SegLen consistent with what is there.
			rp, err := parseRaw(p.SCIONPath.Raw)
			if err != nil {
				k := "C28:seglen"
				if maxSegEntries(c) > 63 {
					k = "C28:seglen-overflow"
				}
				r.Violation(k, fmt.Sprintf("%s→%s: returned path is not a consistent SCION path: %v", c.Src, c.Dst, err), wit(err.Error()))
				continue
			}
			if rp.NumHops > 64 {
				r.Event("obs_more_than_64_hop_fields") // not addressable by CurrHF; the statement is silent
			}
			if rp.CurrINF != 0 || rp.CurrHF != 0 {
				r.Violation("C28:meta-pointers", fmt.Sprintf("CurrINF=%d CurrHF=%d on a freshly combined path", rp.CurrINF, rp.CurrHF), wit(""))
			}
			// (2) at most one up, one core, one down, in that order: construction
			// direction flags must be 0* 1? with ≤ 2 zeros.
			pat := ""
			for _, in := range rp.Infos {
				if in.ConsDir {
					pat += "1"
				} else {
					pat += "0"
				}
			}
			if !flagPatterns[pat] {
				r.Violation("C28:segment-order", fmt.Sprintf("construction-direction flags %s are not (up)(core)(down)", pat), wit(""))
			}
			// (3) metadata interfaces == traversal implied by the hop fields.
			var th [][]travHop
			var pf []bool
			for si, hs := range rp.Hops {
				var t []travHop
				for _, h := range hs {
					if rp.Infos[si].ConsDir {
						t = append(t, travHop{In: h.ConsIngress, Out: h.ConsEgress})
					} else {
						t = append(t, travHop{In: h.ConsEgress, Out: h.ConsIngress})
					}
				}
				th = append(th, t)
				pf = append(pf, rp.Infos[si].Peer)
			}
			ids, _ := traversalIDs(th, pf)
			same := len(ids) == len(ifs)
			for k := 0; same && k < len(ids); k++ {
				same = ids[k] == ifs[k].ID
			}
			if !same {
				r.Violation("C28:interfaces-vs-hopfields",
					fmt.Sprintf("%s→%s: Metadata.Interfaces ids differ from the traversal of the hop fields %v", c.Src, c.Dst, ids), wit(fmt.Sprint(ids)))
			}
			// (4) no AS more than twice.
			cnt := map[uint64]int{}
			vis := map[uint64]int{}
			for k, i := range ifs {
				cnt[uint64(i.IA)]++
				if k == 0 || ifs[k-1].IA != i.IA {
					vis[uint64(i.IA)]++
				}
				if vis[uint64(i.IA)] > 2 {
					r.Violation("C28:as-more-than-twice/visits", fmt.Sprintf("AS %s visited %d times", i.IA, vis[uint64(i.IA)]), wit(""))
					break
				}
				if cnt[uint64(i.IA)] > 2 {
					if judgeIfCount {
						r.Violation("C28:as-more-than-twice/interfaces", fmt.Sprintf("path crosses %d interfaces of AS %s", cnt[uint64(i.IA)], i.IA), wit(""))
					} else {
						r.Event("obs_ifcount_gt2")
					}
					break
				}
			}
			// (5) source segments: some valid join with this interface sequence
			// must carry exactly these info and hop fields.
			cands := byKey[key]
			if len(cands) == 0 {
				r.Violation("C28:not-a-join",
					fmt.Sprintf("%s→%s: no join of ≤1 up, ≤1 core, ≤1 down input segment yields the interface sequence %s", c.Src, c.Dst, fmtIfsShort(ifs)), wit(""))
				continue
			}
			var matched []*refPath
			bestKind, bestDetail := "", ""
			for _, rf := range cands {
				k, d := matchRef(rp, rf)
				if k == "" {
					matched = append(matched, rf)
				} else if bestKind == "" || k == "hop-field" {
					bestKind, bestDetail = k, d
				}
			}
			if len(matched) == 0 {
				r.Violation("C28:"+bestKind, fmt.Sprintf("%s→%s %s: %s", c.Src, c.Dst, cands[0].shape(), bestDetail), wit(bestDetail))
				continue
			}
			ref := matched[0]
			// (6) expiry and MTU.
			expOK, mtuOK := false, false
			for _, m := range matched {
				expOK = expOK || p.Metadata.Expiry.Equal(m.Expiry)
				mtuOK = mtuOK || int(p.Metadata.MTU) == m.MTU
			}
			if !expOK {
				r.Violation("C28:expiry/"+ref.shape(), fmt.Sprintf("%s→%s %s: Expiry %s, earliest hop-field expiry of the traversed hops is %s",
					c.Src, c.Dst, ref.shape(), p.Metadata.Expiry.UTC().Format(time.RFC3339Nano), ref.Expiry.UTC().Format(time.RFC3339Nano)), wit(""))
			}
			if !mtuOK {
				r.Violation("C28:mtu/"+ref.shape(), fmt.Sprintf("%s→%s %s: MTU %d, minimum announced internal/link MTU along the traversed part is %d",
					c.Src, c.Dst, ref.shape(), p.Metadata.MTU, ref.MTU), wit(""))
			}
			if c.TopoMTU && c.Topo != nil {
				if tm, err := topoMTU(c, ifs); err != nil {
					r.Violation("C28:link-not-in-topology", fmt.Sprintf("%s→%s: %v", c.Src, c.Dst, err), wit(""))
				} else if tm != int(p.Metadata.MTU) {
					r.Violation("C28:mtu-vs-topology/"+ref.shape(), fmt.Sprintf("%s→%s %s: MTU %d, the topology's minimum internal/link MTU on this route is %d",
						c.Src, c.Dst, ref.shape(), p.Metadata.MTU, tm), wit(""))
				}
			}
			// SegID: observation only (the documentation states β_n for segments
			// walked against construction direction, the router needs β_{n-1}).
			for si, rs := range ref.Segs {
				if rp.Infos[si].SegID == rs.SegIDRouter {
					st.segidMatch.Add(1)
				} else {
					st.segidMismatch.Add(1)
				}
			}
			// (7) order.
			hops := len(ifs) / 2
			if p.Weight != hops {
				weightIsHops = false
			}
			if p.Weight < prevW {
				r.Violation("C28:weight-order", fmt.Sprintf("%s→%s: path %d has weight %d after weight %d", c.Src, c.Dst, idx, p.Weight, prevW), wit(""))
			}
			if weightIsHops && hops < prevHops {
				r.Violation("C28:weight-order", fmt.Sprintf("%s→%s: path %d has %d inter-AS hops after %d", c.Src, c.Dst, idx, hops, prevHops), wit(""))
			}
			prevW, prevHops = p.Weight, hops
			// (8) duplicates.
			if !findAll {
				if prev, dup := seen[key]; dup {
					r.Violation("C28:duplicate-sequence", fmt.Sprintf("%s→%s: paths %d and %d share the interface sequence %s",
						c.Src, c.Dst, prev, idx, fmtIfsShort(ifs)), wit(""))
				}
				latest := cands[0].Expiry
				for _, rf := range cands {
					if rf.Expiry.After(latest) {
						latest = rf.Expiry
					}
				}
				if len(cands) > 1 {
					r.Event("dedup_choice")
					if !p.Metadata.Expiry.Equal(latest) {
						r.Violation("C28:dedup-not-latest", fmt.Sprintf("%s→%s %s: kept path expires %s, another construction of the same interface sequence expires %s",
							c.Src, c.Dst, ref.shape(), p.Metadata.Expiry.UTC().Format(time.RFC3339), latest.UTC().Format(time.RFC3339)), wit(""))
					}
				}
				if string(p.Fingerprint) == "" {
					r.Event("obs_empty_fingerprint")
				}
			}
			seen[key]++
			r.Class(fmt.Sprintf("%s/hops=%s/%s", ref.shape(), hopBucket(hops+1), c.Family))
			r.Event("path_" + mode)
			r.Event("variant_" + c.Variant)
			if r.WantSample() && idx == 0 && ref.Join != "" && findAll {
				r.Sample(map[string]any{"src": c.Src.String(), "dst": c.Dst.String(), "family": c.Family, "variant": c.Variant,
					"shape": ref.shape(), "interfaces": fmtIfs(ifs), "mtu": p.Metadata.MTU, "expiry": p.Metadata.Expiry.Unix(),
					"ups": len(c.Ups), "cores": len(c.Cores), "downs": len(c.Down)})
			}
		}
		r.Eval(1) // the list as a whole (order, duplicates)
		if len(res) == 0 {
			r.Event("empty_result")
		}
	}
	long := 0
	for _, rf := range refs {
		if rf.MaxIfPerAS > 2 {
			long++
		}
	}
	if long > 0 {
		r.EventN("ref_joins_crossing_an_AS_more_than_twice", int64(long))
	}
	if foreign > 0 {
		r.Event("call_with_foreign_segments")
	}
}

func maxSegEntries(c *call) int {
	m := 0
	for _, n := range segLens(c) {
		m = max(m, n)
	}
	return m
}

func segLens(c *call) []int {
	var out []int
	for _, s := range c.Ups {
		out = append(out, len(s.ASEntries))
	}
	for _, s := range c.Cores {
		out = append(out, len(s.ASEntries))
	}
	for _, s := range c.Down {
		out = append(out, len(s.ASEntries))
	}
	return out
}

// topoMTU recomputes the path MTU from the generated topology alone: internal
// MTU of every AS on the route and MTU of every link crossed.
func topoMTU(c *call, ifs []refIf) (int, error) {
	m := 1 << 30
	for k, i := range ifs {
		as := c.Topo.ASes[i.IA]
		if as == nil {
			return 0, fmt.Errorf("AS %s not in topology", i.IA)
		}
		ifc := as.Ifaces[i.ID]
		if ifc == nil {
			return 0, fmt.Errorf("interface %s#%d not in topology", i.IA, i.ID)
		}
		m = min(m, int(as.MTU), int(ifc.MTU))
		if k%2 == 0 {
			if k+1 >= len(ifs) || ifc.RemoteIA != ifs[k+1].IA || ifc.RemoteID != ifs[k+1].ID {
				return 0, fmt.Errorf("interfaces %d/%d (%s#%d → …) are not the two ends of one link", k, k+1, i.IA, i.ID)
			}
		}
	}
	return m, nil
}

func runWorkload(r *mon.Run, nTopos int, judge func(*call)) {
	var wg sync.WaitGroup
	sem := make(chan struct{}, 14)
	for idx := 0; idx < nTopos; idx++ {
		wg.Add(1)
		sem <- struct{}{}
		go func() {
			defer wg.Done()
			defer func() { <-sem }()
			if err := workload(r, idx, judge); err != nil {
				r.Inconclusive("workload-error")
				fmt.Printf("workload %d: %v\n", idx, err)
			}
		}()
	}
	wg.Wait()
}

func checkC28(r *mon.Run) {
	r.Rule = "every path of Combine(src,dst,ups,cores,downs,{true,false}) for every ordered AS pair of generated topologies " +
		"(simtopo multi-ISD + chains; segments from real beaconing, plus variants: per-hop expiries, changed MTUs, re-registered " +
		"duplicates, one-sided peering announcements, all segments of the topology supplied) is judged against an independent " +
		"enumeration of valid joins; class = path shape (segment kinds, join kind) × hop bucket × topology family"
	r.Assumptions = []string{
		"'passes no AS more than twice' is judged as: the path crosses at most two interfaces of any AS (the documented behaviour of filterLongPaths); more than two visits is flagged under a separate key",
		"weight = Path.Weight as set by the code; additionally the number of inter-AS hops when the two coincide on the whole list",
		"initial SegID values are not judged here (C22); agreement with the router's rule is reported in coverage.segid",
		"announced MTU value 0 means 'not announced' and is never generated",
	}
	if rf := r.ReplayFile(); rf != "" {
		replay(r, rf, func(c *call) { judgeCallC28(r, c, &c28Stats{}) })
		return
	}
	st := &c28Stats{}
	n := r.Pick(80, 800)
	runWorkload(r, n, func(c *call) { judgeCallC28(r, c, st) })
	r.Extra("segid", map[string]int64{"router_rule_match": st.segidMatch.Load(), "router_rule_mismatch": st.segidMismatch.Load()})
	r.Extra("topologies", n)
	r.Require(int64(r.Pick(20000, 300000)), 25, "combine_on_shared_slices_after_earlier_lookups", "path_all", "path_dedup", "dedup_choice", "ref_joins_crossing_an_AS_more_than_twice",
		"variant_clean", "variant_exp", "variant_mtu", "variant_dup", "variant_droppeer", "variant_allsegs", "variant_sparse", "empty_result")
	r.RequireClasses(
		"UD/shortcut/hops=3-4/multi", "UD/peer/hops=3-4/multi", "UD/core/hops=3-4/multi", "UCD/hops=5-7/multi",
		"UC/hops=3-4/multi", "CD/hops=3-4/multi", "C/hops=2/multi", "U/onpath/hops=2/multi", "D/onpath/hops=2/multi",
		"U/onpath/hops=17+/chain", "D/onpath/hops=17+/chain", "U/hops=17+/chain",
	)
}
