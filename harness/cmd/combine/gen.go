package main

// Workload shared by C28 and C29: generated topologies (verif/simtopo), real
// beaconing (verif/simbeacon), perturbed segment sets, and the JSON witness
// form of a Combine call (also used for --replay).

import (
	"sort"
	"encoding/hex"
	"fmt"
	"math/rand/v2"
	"time"

	"github.com/scionproto/scion/pkg/addr"
	seg "github.com/scionproto/scion/pkg/segment"

	"verif/mon"
	"verif/simbeacon"
	"verif/simtopo"
)

// refNow is the fixed reference time of all generated segments (no wall clock
// in any oracle; the combinator never looks at the time).
var refNow = time.Unix(1_790_000_000, 0)

// call is one Combine invocation to be judged.
type call struct {
	Family, Variant  string
	Topo             *simtopo.Topo // nil in replay
	TopoMTU          bool          // segment MTUs are those of Topo (unperturbed)
	Src, Dst         addr.IA
	Ups, Cores, Down []*seg.PathSegment
	// Shared*: when set, the slices actually handed to Combine - one set of
	// slices that a caller keeps and passes to consecutive lookups (as
	// segfetcher.Pather does for several destinations). Ups/Cores/Down hold the
	// same segments in the same order in slices of the call's own; the reference
	// works on those.
	SharedUps, SharedCores, SharedDown []*seg.PathSegment
	SharedSeq                          int // position of the call in the sequence on the shared slices
}

// ---- witness (JSON) form ----

type hopJSON struct {
	Exp     uint8  `json:"exp"`
	In      uint16 `json:"in"`
	Eg      uint16 `json:"eg"`
	MAC     string `json:"mac"`
	Peer    string `json:"peer,omitempty"`
	PeerIf  uint16 `json:"peer_if,omitempty"`
	PeerMTU int    `json:"peer_mtu,omitempty"`
}

type entryJSON struct {
	IA    string    `json:"ia"`
	Next  string    `json:"next"`
	MTU   int       `json:"mtu"`
	InMTU int       `json:"in_mtu"`
	Hop   hopJSON   `json:"hop"`
	Peers []hopJSON `json:"peers,omitempty"`
}

type segJSON struct {
	TS      int64       `json:"ts"`
	SegID   uint16      `json:"seg_id"`
	Entries []entryJSON `json:"entries"`
}

type callJSON struct {
	Family  string    `json:"family"`
	Variant string    `json:"variant"`
	Src     string    `json:"src"`
	Dst     string    `json:"dst"`
	Ups     []segJSON `json:"ups"`
	Cores   []segJSON `json:"cores"`
	Downs   []segJSON `json:"downs"`
	Topo    string    `json:"topology,omitempty"`
}

func hopToJSON(h seg.HopField) hopJSON {
	return hopJSON{Exp: h.ExpTime, In: h.ConsIngress, Eg: h.ConsEgress, MAC: hex.EncodeToString(h.MAC[:])}
}

func segToJSON(s *seg.PathSegment) segJSON {
	out := segJSON{TS: s.Info.Timestamp.Unix(), SegID: s.Info.SegmentID}
	for _, e := range s.ASEntries {
		ej := entryJSON{IA: e.Local.String(), Next: e.Next.String(), MTU: e.MTU, InMTU: e.HopEntry.IngressMTU,
			Hop: hopToJSON(e.HopEntry.HopField)}
		for _, p := range e.PeerEntries {
			pj := hopToJSON(p.HopField)
			pj.Peer, pj.PeerIf, pj.PeerMTU = p.Peer.String(), p.PeerInterface, p.PeerMTU
			ej.Peers = append(ej.Peers, pj)
		}
		out.Entries = append(out.Entries, ej)
	}
	return out
}

func segsToJSON(ss []*seg.PathSegment) []segJSON {
	out := make([]segJSON, 0, len(ss))
	for _, s := range ss {
		out = append(out, segToJSON(s))
	}
	return out
}

func (c *call) witness() callJSON {
	w := callJSON{Family: c.Family, Variant: c.Variant, Src: c.Src.String(), Dst: c.Dst.String(),
		Ups: segsToJSON(c.Ups), Cores: segsToJSON(c.Cores), Downs: segsToJSON(c.Down)}
	if c.Topo != nil && len(c.Topo.ASes) <= 16 {
		w.Topo = c.Topo.String()
	}
	return w
}

func hopFromJSON(h hopJSON) (seg.HopField, error) {
	out := seg.HopField{ExpTime: h.Exp, ConsIngress: h.In, ConsEgress: h.Eg}
	m, err := hex.DecodeString(h.MAC)
	if err != nil || len(m) != 6 {
		return out, fmt.Errorf("bad mac %q", h.MAC)
	}
	copy(out.MAC[:], m)
	return out, nil
}

func segFromJSON(j segJSON) (*seg.PathSegment, error) {
	s := &seg.PathSegment{Info: seg.Info{Timestamp: time.Unix(j.TS, 0), SegmentID: j.SegID}}
	for _, ej := range j.Entries {
		ia, err := addr.ParseIA(ej.IA)
		if err != nil {
			return nil, err
		}
		next, _ := addr.ParseIA(ej.Next)
		hf, err := hopFromJSON(ej.Hop)
		if err != nil {
			return nil, err
		}
		e := seg.ASEntry{Local: ia, Next: next, MTU: ej.MTU, HopEntry: seg.HopEntry{HopField: hf, IngressMTU: ej.InMTU}}
		for _, pj := range ej.Peers {
			ph, err := hopFromJSON(pj)
			if err != nil {
				return nil, err
			}
			pia, err := addr.ParseIA(pj.Peer)
			if err != nil {
				return nil, err
			}
			e.PeerEntries = append(e.PeerEntries, seg.PeerEntry{HopField: ph, Peer: pia, PeerInterface: pj.PeerIf, PeerMTU: pj.PeerMTU})
		}
		s.ASEntries = append(s.ASEntries, e)
	}
	return s, nil
}

func callFromJSON(w callJSON) (*call, error) {
	c := &call{Family: w.Family, Variant: w.Variant}
	var err error
	if c.Src, err = addr.ParseIA(w.Src); err != nil {
		return nil, err
	}
	if c.Dst, err = addr.ParseIA(w.Dst); err != nil {
		return nil, err
	}
	conv := func(in []segJSON) ([]*seg.PathSegment, error) {
		var out []*seg.PathSegment
		for _, j := range in {
			s, err := segFromJSON(j)
			if err != nil {
				return nil, err
			}
			out = append(out, s)
		}
		return out, nil
	}
	if c.Ups, err = conv(w.Ups); err != nil {
		return nil, err
	}
	if c.Cores, err = conv(w.Cores); err != nil {
		return nil, err
	}
	if c.Down, err = conv(w.Downs); err != nil {
		return nil, err
	}
	return c, nil
}

// ---- perturbation ----

// cloneSeg copies a segment deeply enough that hop fields, peer entries and
// MTUs can be changed without touching the original.
func cloneSeg(s *seg.PathSegment) *seg.PathSegment {
	c := &seg.PathSegment{Info: s.Info, ASEntries: make([]seg.ASEntry, len(s.ASEntries))}
	copy(c.ASEntries, s.ASEntries)
	for i := range c.ASEntries {
		if pe := c.ASEntries[i].PeerEntries; pe != nil {
			c.ASEntries[i].PeerEntries = append([]seg.PeerEntry(nil), pe...)
		}
	}
	return c
}

func randExp(rng *rand.Rand) uint8 {
	switch rng.IntN(6) {
	case 0:
		return []uint8{0, 1, 254, 255}[rng.IntN(4)]
	default:
		return uint8(rng.IntN(256))
	}
}

func randMTU(rng *rand.Rand) int {
	switch rng.IntN(8) {
	case 0:
		return []int{1, 576, 1279, 65535}[rng.IntN(4)]
	default:
		return 600 + rng.IntN(8500)
	}
}

// perturbExp gives every hop entry and peer entry its own relative expiry and
// shifts the segment timestamp.
func perturbExp(rng *rand.Rand, s *seg.PathSegment) *seg.PathSegment {
	c := cloneSeg(s)
	if rng.IntN(2) == 0 {
		c.Info.Timestamp = c.Info.Timestamp.Add(time.Duration(rng.IntN(7200)-3600) * time.Second)
	}
	for i := range c.ASEntries {
		if rng.IntN(3) != 0 {
			c.ASEntries[i].HopEntry.HopField.ExpTime = randExp(rng)
		}
		for k := range c.ASEntries[i].PeerEntries {
			if rng.IntN(3) != 0 {
				c.ASEntries[i].PeerEntries[k].HopField.ExpTime = randExp(rng)
			}
		}
	}
	return c
}

// perturbMTU changes announced internal, ingress-link and peering-link MTUs
// (never to 0, which means "not announced").
func perturbMTU(rng *rand.Rand, s *seg.PathSegment) *seg.PathSegment {
	c := cloneSeg(s)
	for i := range c.ASEntries {
		if rng.IntN(2) == 0 {
			c.ASEntries[i].MTU = randMTU(rng)
		}
		if i > 0 && rng.IntN(2) == 0 {
			c.ASEntries[i].HopEntry.IngressMTU = randMTU(rng)
		}
		for k := range c.ASEntries[i].PeerEntries {
			if rng.IntN(2) == 0 {
				c.ASEntries[i].PeerEntries[k].PeerMTU = randMTU(rng)
			}
		}
	}
	return c
}

func mapSegs(segs *simbeacon.Segments, topo *simtopo.Topo, f func(*seg.PathSegment) []*seg.PathSegment) *simbeacon.Segments {
	out := &simbeacon.Segments{Up: map[addr.IA][]*seg.PathSegment{}}
	for _, ia := range topo.NonCoreIAs() {
		for _, s := range segs.Up[ia] {
			out.Up[ia] = append(out.Up[ia], f(s)...)
		}
	}
	for _, s := range segs.Core {
		out.Core = append(out.Core, f(s)...)
	}
	return out
}

// thin keeps a random subset (sometimes nothing at all).
func thin(rng *rand.Rand, ss []*seg.PathSegment) []*seg.PathSegment {
	if rng.IntN(5) == 0 {
		return nil
	}
	var out []*seg.PathSegment
	for _, s := range ss {
		if rng.IntN(2) == 0 {
			out = append(out, s)
		}
	}
	return out
}

func shuffleSegs(rng *rand.Rand, ss []*seg.PathSegment) []*seg.PathSegment {
	out := append([]*seg.PathSegment(nil), ss...)
	rng.Shuffle(len(out), func(i, j int) { out[i], out[j] = out[j], out[i] })
	return out
}

// workload generates the calls of topology number idx and hands them to f.
// Everything is a function of (seed, idx).
func workload(r *mon.Run, idx int, f func(*call)) error {
	rng := r.Rand(fmt.Sprintf("topo-%d", idx))
	var topo *simtopo.Topo
	family := "multi"
	switch {
	case idx == 0:
		topo = simtopo.Chain(rng, 64) // longest chain, always present
		family = "chain"
	case idx%8 == 7:
		topo = simtopo.Chain(rng, 2+rng.IntN(62)) // 2…63
		family = "chain"
	case idx == 1 || idx%16 == 11:
		// long segments sharing a long stem: shortcuts and peering paths of a
		// few hops below up/down segments whose full lengths exceed 64 together
		stem := 28 + rng.IntN(30)
		if idx != 1 && rng.IntN(3) == 0 {
			stem = 1 + rng.IntN(28)
		}
		topo = simtopo.Fork(rng, stem, 1+rng.IntN(4), 1+rng.IntN(4), rng.IntN(3) != 0)
		family = "fork"
	case r.Thorough() && idx%16 == 9:
		// larger topologies (thorough tier only)
		topo = simtopo.Generate(rng, simtopo.Params{ISDs: 3, MaxASes: 20, MinASes: 16, PeerLinks: 5, CorePeering: true})
	case idx%8 == 3:
		// small single-ISD topologies rich in shortcuts and peering
		topo = simtopo.Generate(rng, simtopo.Params{ISDs: 1, MaxCoresPerISD: 2, MaxASes: 6 + rng.IntN(5), MinASes: 6,
			PeerLinks: 2 + rng.IntN(3), MultiHomePct: 70, CorePeering: rng.IntN(2) == 0})
	case idx%8 == 5:
		topo = simtopo.Generate(rng, simtopo.Params{ISDs: 2 + rng.IntN(2), MaxCoresPerISD: 2, MaxASes: 12, MinASes: 9,
			PeerLinks: 3, CorePeering: true, ParallelPct: 35})
	default:
		topo = simtopo.Generate(rng, simtopo.Params{MaxASes: 6 + rng.IntN(7), CorePeering: rng.IntN(3) == 0})
	}
	bp := simbeacon.Params{Now: refNow, MaxAge: 2 * time.Hour, ExpTimeMin: 0, ExpTimeMax: 255}
	net, err := simbeacon.New(topo, bp)
	if err != nil {
		return err
	}
	clean, err := net.Run(rng)
	if err != nil {
		return fmt.Errorf("beaconing: %w\n%s", err, topo)
	}

	type variant struct {
		name    string
		segs    *simbeacon.Segments
		topoMTU bool
		all     bool
		sparse  bool
	}
	variants := []variant{{"clean", clean, true, false, false}}
	if family == "multi" {
		variants = append(variants,
			variant{"exp", mapSegs(clean, topo, func(s *seg.PathSegment) []*seg.PathSegment {
				return []*seg.PathSegment{perturbExp(rng, s)}
			}), true, false, false},
			variant{"mtu", mapSegs(clean, topo, func(s *seg.PathSegment) []*seg.PathSegment {
				return []*seg.PathSegment{perturbMTU(rng, s)}
			}), false, false, false},
		)
		// duplicates: the same interface sequence registered again with another
		// timestamp / expiry, through the real extenders (Reissue) or as a copy.
		var dupErr error
		dup := mapSegs(clean, topo, func(s *seg.PathSegment) []*seg.PathSegment {
			out := []*seg.PathSegment{s}
			switch rng.IntN(4) {
			case 0:
				exp := make([]uint8, len(s.ASEntries))
				for i := range exp {
					exp[i] = randExp(rng)
				}
				re, err := net.Reissue(s, refNow.Add(-time.Duration(rng.IntN(7200))*time.Second), uint16(rng.IntN(1<<16)), exp)
				if err != nil {
					dupErr = err
					return out
				}
				out = append(out, re)
			case 1:
				out = append(out, perturbExp(rng, s))
			case 2:
				out = append(out, perturbExp(rng, s), perturbMTU(rng, perturbExp(rng, s)))
			}
			return shuffleSegs(rng, out)
		})
		if dupErr != nil {
			return fmt.Errorf("reissue: %w", dupErr)
		}
		variants = append(variants, variant{"dup", dup, false, false, false})
		// peering links announced by one side only
		bp2 := bp
		bp2.DropPeerPct = 40
		net2, err := simbeacon.New(topo, bp2)
		if err != nil {
			return err
		}
		dropped, err := net2.Run(rng)
		if err != nil {
			return fmt.Errorf("beaconing(droppeer): %w", err)
		}
		variants = append(variants, variant{"droppeer", dropped, true, false, false})
		// the same hop sequences registered twice with different sets of peer
		// entries (full announcement and one-sided/partial announcement)
		merged := &simbeacon.Segments{Up: map[addr.IA][]*seg.PathSegment{}}
		for _, ia := range topo.IAs() {
			u := append(append([]*seg.PathSegment{}, clean.Up[ia]...), dropped.Up[ia]...)
			if len(u) > 0 {
				merged.Up[ia] = shuffleSegs(rng, u)
			}
		}
		merged.Core = shuffleSegs(rng, append(append([]*seg.PathSegment{}, clean.Core...), dropped.Core...))
		variants = append(variants, variant{"mergepeer", merged, true, false, false})
		variants = append(variants, variant{"allsegs", clean, true, true, false})
		// incomplete lookups: random subsets, whole categories missing
		variants = append(variants, variant{"sparse", clean, true, false, true})
	}

	ias := topo.IAs()
	type pair struct{ s, d addr.IA }
	var pairs []pair
	for _, s := range ias {
		for _, d := range ias {
			if s != d {
				pairs = append(pairs, pair{s, d})
			}
		}
	}
	if len(pairs) > 400 {
		rng.Shuffle(len(pairs), func(i, j int) { pairs[i], pairs[j] = pairs[j], pairs[i] })
		keep := pairs[:300]
		// always keep the extreme pairs of a chain
		keep = append(keep, pair{ias[0], ias[len(ias)-1]}, pair{ias[len(ias)-1], ias[0]})
		if family == "fork" {
			// all pairs among the deepest ASes (both branches)
			type da struct {
				ia addr.IA
				d  int
			}
			var deep []da
			for _, ia := range ias {
				deep = append(deep, da{ia, topo.AS(ia).Depth})
			}
			sort.Slice(deep, func(i, j int) bool { return deep[i].d > deep[j].d })
			deep = deep[:min(len(deep), 9)]
			for _, x := range deep {
				for _, y := range deep {
					if x.ia != y.ia {
						keep = append(keep, pair{x.ia, y.ia})
					}
				}
			}
		}
		nc := topo.NonCoreIAs()
		core := topo.CoreIAs()[0]
		keep = append(keep, pair{nc[len(nc)-1], core}, pair{core, nc[len(nc)-1]})
		pairs = keep
	}
	for _, v := range variants {
		var allUps []*seg.PathSegment
		if v.all {
			for _, ia := range topo.NonCoreIAs() {
				allUps = append(allUps, v.segs.Up[ia]...)
			}
		}
		var sharedUps, sharedCores, sharedDown, pristineUps, pristineCores, pristineDown []*seg.PathSegment
		sharedSeq := 0
		for _, p := range pairs {
			c := &call{Family: family, Variant: v.name, Topo: topo, TopoMTU: v.topoMTU, Src: p.s, Dst: p.d}
			if v.all {
				if sharedUps == nil {
					sharedUps, sharedCores, sharedDown = shuffleSegs(rng, allUps), shuffleSegs(rng, v.segs.Core), shuffleSegs(rng, allUps)
					pristineUps = append([]*seg.PathSegment{}, sharedUps...)
					pristineCores = append([]*seg.PathSegment{}, sharedCores...)
					pristineDown = append([]*seg.PathSegment{}, sharedDown...)
				}
				c.Ups = append([]*seg.PathSegment{}, pristineUps...)
				c.Cores = append([]*seg.PathSegment{}, pristineCores...)
				c.Down = append([]*seg.PathSegment{}, pristineDown...)
				c.SharedUps, c.SharedCores, c.SharedDown = sharedUps, sharedCores, sharedDown
				c.SharedSeq = sharedSeq
				sharedSeq++
			} else {
				u, co, d := v.segs.Lookup(p.s, p.d)
				c.Ups, c.Cores, c.Down = shuffleSegs(rng, u), shuffleSegs(rng, co), shuffleSegs(rng, d)
				if v.sparse {
					c.Ups, c.Cores, c.Down = thin(rng, c.Ups), thin(rng, c.Cores), thin(rng, c.Down)
				}
			}
			f(c)
		}
	}
	return nil
}
