package main

import (
	"context"
	"encoding/hex"
	"fmt"
	"io"
	"net"

	"github.com/gopacket/gopacket"

	"github.com/scionproto/scion/gateway/control"
	"github.com/scionproto/scion/gateway/dataplane"
	"github.com/scionproto/scion/gateway/pktcls"
)

type sess struct{ n int }

func (s *sess) Write(p gopacket.Packet) { s.n++; fmt.Printf("   -> forwarded %d bytes\n", len(p.Data())) }

type rd struct {
	pk [][]byte
	i  int
}

func (r *rd) Read(b []byte) (int, error) {
	if r.i >= len(r.pk) {
		return 0, io.EOF
	}
	fmt.Printf("packet %d: %s\n", r.i, hex.EncodeToString(r.pk[r.i]))
	r.i++
	return copy(b, r.pk[r.i-1]), nil
}

func main() {
	_, n, _ := net.ParseCIDR("0.0.0.0/0")
	rt := dataplane.NewRoutingTable([]*control.RoutingChain{{Prefixes: []*net.IPNet{n},
		TrafficMatchers: []control.TrafficMatcher{{ID: 1, Matcher: pktcls.CondTrue}}}})
	s := &sess{}
	_ = rt.SetSession(1, s)
	h := func(s string) []byte { b, _ := hex.DecodeString(s); return b }
	pk := [][]byte{
		// IPv4 UDP 10.0.0.1:40000 -> 10.0.0.2:9999 "hello"
		h("45000021beef40004011" + "0000" + "0a000001" + "0a000002" + "9c40270f000d0000" + "68656c6c6f"),
		// same to port 53
		h("45000021beef40004011" + "0000" + "0a000001" + "0a000002" + "9c400035000d0000" + "68656c6c6f"),
		// same from source port 44818 (an ephemeral port) to 9999
		h("45000021beef40004011" + "0000" + "0a000001" + "0a000002" + "af12270f000d0000" + "68656c6c6f"),
		// IPv4 protocol 88 (EIGRP), 5 payload bytes
		h("45000019beef40004058" + "0000" + "0a000001" + "0a000002" + "68656c6c6f"),
		// IPv4 protocol 47 (GRE) with 5 payload bytes
		h("45000019beef4000402f" + "0000" + "0a000001" + "0a000002" + "0000080045"),
	}
	f := &dataplane.IPForwarder{Reader: &rd{pk: pk}, RoutingTable: rt}
	fmt.Println(f.Run(context.Background()))
}
