package main

// C16 — BFD sessions follow RFC 5880 and always recover.
//
// Three monitors on real bfd.Session values (router/bfd) with a capturing
// Sender and ReceiveQueueSize = 0 (unbuffered: ReceiveMessage returns only
// after Run has taken the message; Run is one goroutine, so every packet it
// sends afterwards was built after the message had been processed).
//
//  1. table: the transition function through the verif hook and every packet
//     script of bounded length through the real Run loop, against bfdref.
//  2. scripted peer: PRNG histories of received packets / withheld packets
//     against real sessions, state read from the next causally-later packet.
//  3. two real sessions joined by a lossy, forging link: bounded progress.
//
// The oracle is verif/bfdref (RFC 5880 6.8.6 / 6.8.4 written from the RFC).
// Wall-clock time is used only (a) in the sound direction (a time.Timer armed
// after instant lo cannot fire before lo+T), (b) to declare a case
// inconclusive, (c) as a progress bound whose miss is re-run in isolation
// before it is reported.

import (
	"errors"
	"context"
	"encoding/json"
	"fmt"
	"math/rand/v2"
	"os"
	"sort"
	"sync"
	"time"

	"github.com/gopacket/gopacket/layers"

	"github.com/scionproto/scion/router/bfd"

	"verif/bfdref"
	"verif/mon"
)

const (
	c16Margin  = 20 * time.Millisecond // distance kept from a detection-time boundary before judging
	c16Slack   = 3 * time.Second       // progress slack after a detection time has passed
	c16Silence = 6 * time.Second       // a live session transmits at least once per second
	c16Handoff = 10 * time.Second      // a live session takes a message from its queue
	c16MaxDown = time.Second           // hard-coded transmit interval of a Down session
)

// ---------------------------------------------------------------- plumbing

type c16Sent struct {
	Seq   int       `json:"seq"`
	T     time.Time `json:"-"`
	Ms    float64   `json:"ms"` // time since the sender was created
	State uint8     `json:"state"`
	Your  uint32    `json:"your"`
	TxUs  uint32    `json:"tx_us"`
}

// c16Sender is the capturing bfd.Sender. Send never blocks.
type c16Sender struct {
	mu   sync.Mutex
	recs []c16Sent
	note chan struct{}
	fwd  func(layers.BFD, int)
	t0   time.Time
	// errAt: sequence numbers at which Send reports an error (the packet is
	// not transmitted), as a socket would under ENOBUFS / ENETUNREACH.
	errAt map[int]bool
}

func newC16Sender(note chan struct{}) *c16Sender {
	if note == nil {
		note = make(chan struct{}, 1)
	}
	return &c16Sender{note: note, t0: time.Now()}
}

func (c *c16Sender) Send(p *layers.BFD) error {
	now := time.Now()
	c.mu.Lock()
	seq := len(c.recs)
	c.recs = append(c.recs, c16Sent{Seq: seq, T: now, Ms: float64(now.Sub(c.t0).Microseconds()) / 1000, State: uint8(p.State),
		Your: uint32(p.YourDiscriminator), TxUs: uint32(p.DesiredMinTxInterval)})
	fail := c.errAt[seq]
	c.mu.Unlock()
	select {
	case c.note <- struct{}{}:
	default:
	}
	if fail {
		return errors.New("injected send error")
	}
	if c.fwd != nil {
		c.fwd(*p, seq)
	}
	return nil
}

func (c *c16Sender) count() int {
	c.mu.Lock()
	defer c.mu.Unlock()
	return len(c.recs)
}

func (c *c16Sender) snapshot(from int) []c16Sent {
	c.mu.Lock()
	defer c.mu.Unlock()
	if from >= len(c.recs) {
		return nil
	}
	return append([]c16Sent(nil), c.recs[from:]...)
}

// get returns record idx, waiting for it until the deadline.
func (c *c16Sender) get(idx int, deadline time.Time) (c16Sent, bool) {
	for {
		c.mu.Lock()
		if idx < len(c.recs) {
			rec := c.recs[idx]
			c.mu.Unlock()
			return rec, true
		}
		c.mu.Unlock()
		d := time.Until(deadline)
		if d <= 0 {
			return c16Sent{}, false
		}
		tm := time.NewTimer(d)
		select {
		case <-c.note:
			tm.Stop()
		case <-tm.C:
		}
	}
}

func c16Layer(p bfdref.Packet) *layers.BFD {
	l := &layers.BFD{
		Version:                   layers.BFDVersion(p.Version),
		State:                     layers.BFDState(p.State),
		Poll:                      p.Poll,
		Final:                     p.Final,
		AuthPresent:               p.AuthPresent,
		Demand:                    p.Demand,
		Multipoint:                p.Multipoint,
		DetectMultiplier:          layers.BFDDetectMultiplier(p.DetectMult),
		MyDiscriminator:           layers.BFDDiscriminator(p.MyDisc),
		YourDiscriminator:         layers.BFDDiscriminator(p.YourDisc),
		DesiredMinTxInterval:      layers.BFDTimeInterval(p.DesiredMinTx),
		RequiredMinRxInterval:     layers.BFDTimeInterval(p.RequiredMinRx),
		RequiredMinEchoRxInterval: layers.BFDTimeInterval(p.RequiredEcho),
	}
	return l
}

// c16Inject hands one packet to the session. lo is taken before the call, hi
// after it returned; ok is false if the session did not take the message
// within c16Handoff (its Run loop is stuck).
func c16Inject(s *bfd.Session, p bfdref.Packet) (lo, hi time.Time, ok bool) {
	l := c16Layer(p)
	done := make(chan struct{})
	lo = time.Now()
	go func() {
		s.ReceiveMessage(l)
		close(done)
	}()
	tm := time.NewTimer(c16Handoff)
	defer tm.Stop()
	select {
	case <-done:
		return lo, time.Now(), true
	case <-tm.C:
		return lo, time.Now(), false
	}
}

type c16Cfg struct {
	Disc   uint32 `json:"disc"`
	Preset uint32 `json:"preset_remote_disc"`
	TxMs   int    `json:"desired_min_tx_ms"`
	RxMs   int    `json:"required_min_rx_ms"`
	Mult   uint8  `json:"detect_mult"`
}

type c16Live struct {
	s    *bfd.Session
	snd  *c16Sender
	done chan error
}

func c16Start(cfg c16Cfg, snd *c16Sender) *c16Live {
	s := &bfd.Session{
		Sender:                snd,
		LocalDiscriminator:    layers.BFDDiscriminator(cfg.Disc),
		RemoteDiscriminator:   layers.BFDDiscriminator(cfg.Preset),
		DesiredMinTxInterval:  time.Duration(cfg.TxMs) * time.Millisecond,
		RequiredMinRxInterval: time.Duration(cfg.RxMs) * time.Millisecond,
		DetectMult:            layers.BFDDetectMultiplier(cfg.Mult),
		ReceiveQueueSize:      0,
	}
	l := &c16Live{s: s, snd: snd, done: make(chan error, 1)}
	go func() { l.done <- s.Run(context.Background()) }()
	return l
}

// stop closes the session and waits for Run to return. Must only be called
// when no ReceiveMessage is in flight. Returns false if Run did not return.
func (l *c16Live) stop() bool {
	_ = l.s.Close()
	tm := time.NewTimer(c16Handoff)
	defer tm.Stop()
	select {
	case <-l.done:
		return true
	case <-tm.C:
		return false
	}
}

type c16Miss struct {
	Key     string `json:"key"`
	What    string `json:"what"`
	Monitor string `json:"monitor"`
	Index   int    `json:"index"`
	Witness any    `json:"witness"`
}

func stName(s uint8) string { return bfdref.State(s).String() }

// ---------------------------------------------------------------- monitor 1

type c16Nop struct{}

func (c16Nop) Send(*layers.BFD) error { return nil }

// c16RunScript feeds the packets to a fresh real session through its Run loop
// (long intervals: no timer can fire) and returns the local state after Run
// has returned.
func c16RunScript(seq []bfdref.Packet, disc uint32) (uint8, string) {
	s := &bfd.Session{
		Sender:                c16Nop{},
		LocalDiscriminator:    layers.BFDDiscriminator(disc),
		DesiredMinTxInterval:  30 * time.Second,
		RequiredMinRxInterval: 30 * time.Second,
		DetectMult:            3,
	}
	done := make(chan error, 1)
	go func() { done <- s.Run(context.Background()) }()
	for _, p := range seq {
		if _, _, ok := c16Inject(s, p); !ok {
			return 0, "session did not take a message"
		}
	}
	_ = s.Close()
	tm := time.NewTimer(c16Handoff)
	defer tm.Stop()
	select {
	case err := <-done:
		if err != nil {
			return 0, "Run: " + err.Error()
		}
	case <-tm.C:
		return 0, "Run did not return after Close"
	}
	return s.VerifLocalState(), ""
}

func c16Table(r *mon.Run) {
	type cell struct {
		State string `json:"state"`
		Event string `json:"event"`
		Got   string `json:"got"`
		Want  string `json:"want"`
	}
	// (a) the raw table. Judged: received Down/Init/Up and detection-timer
	// expiry. The two local administrative events are recorded, not judged
	// (the statement is about received states and the timer).
	recvEv := []struct {
		name string
		ev   int
		st   bfdref.State
	}{
		{"Down", bfd.VerifEventDown, bfdref.Down},
		{"Init", bfd.VerifEventInit, bfdref.Init},
		{"Up", bfd.VerifEventUp, bfdref.Up},
	}
	for _, s := range bfdref.States {
		for _, e := range recvEv {
			want := bfdref.OnReceive(s, e.st)
			var got uint8
			p, stack := mon.Try(func() { got = bfd.VerifTransition(uint8(s), e.ev) })
			r.Eval(1)
			r.Class("m1/table/" + s.String() + "/recv-" + e.name)
			r.Event("table_cell")
			c := cell{s.String(), "recv " + e.name, stName(got), want.String()}
			if p != nil {
				r.Violation("C16:table-panic:"+mon.PanicSite(stack), fmt.Sprintf("transition(%v, %s) panicked: %v", s, e.name, p), c)
				continue
			}
			if bfdref.State(got) != want {
				r.Violation(fmt.Sprintf("C16:table:%v:%s", s, e.name),
					fmt.Sprintf("transition(%v, received %s) = %s, RFC 5880 6.8.6 says %v", s, e.name, stName(got), want), c)
			}
		}
		want := bfdref.OnTimer(s)
		var got uint8
		p, stack := mon.Try(func() { got = bfd.VerifTransition(uint8(s), bfd.VerifEventTimer) })
		r.Eval(1)
		r.Class("m1/table/" + s.String() + "/timer")
		r.Event("table_cell")
		c := cell{s.String(), "timer", stName(got), want.String()}
		if p != nil {
			r.Violation("C16:table-panic:"+mon.PanicSite(stack), fmt.Sprintf("transition(%v, timer) panicked: %v", s, p), c)
		} else if bfdref.State(got) != want {
			r.Violation(fmt.Sprintf("C16:table:%v:Timer", s),
				fmt.Sprintf("transition(%v, detection timer) = %s, RFC 5880 6.8.4 says %v", s, stName(got), want), c)
		}
		for _, e := range []struct {
			name string
			ev   int
		}{{"local-admin-down", bfd.VerifEventAdminDown}, {"local-admin-up", bfd.VerifEventAdminUp}} {
			var g uint8
			if p, _ := mon.Try(func() { g = bfd.VerifTransition(uint8(s), e.ev) }); p == nil {
				r.Class("m1/table-unjudged/" + s.String() + "/" + e.name + "->" + stName(g))
			}
		}
	}

	// (b) every packet script up to length L through the real Run loop; the
	// mapping received-state -> event is whatever Run really does.
	const disc = 0x1234
	type sym struct {
		name string
		p    bfdref.Packet
	}
	var alphabet []sym
	for _, st := range bfdref.States {
		for _, your := range []uint32{disc, 0} {
			n := st.String()
			if your == 0 {
				n += "/your0"
			}
			// Timer parameters: either ordinary, or such that multiplier x interval
			// exceeds 2^32 microseconds (about 71.6 minutes). In both cases no timer can
			// fire during a script, so the reference semantics are the same.
			mult, tx := uint8(3), uint32(30_000_000)
			if your == disc {
				mult, tx = 128, 33_554_432
				if st == bfdref.Up {
					mult, tx = 255, 16_843_010
				}
			}
			alphabet = append(alphabet, sym{n, bfdref.Packet{Version: 1, State: st, DetectMult: mult, MyDisc: 77,
				YourDisc: your, DesiredMinTx: tx, RequiredMinRx: 30_000_000}})
		}
	}
	maxLen := r.Pick(4, 5)
	type node struct {
		seq  []int
		ref  bfdref.State
		good bool // implementation agreed with the reference on the whole prefix
	}
	level := []node{{ref: bfdref.Down, good: true}}
	// the empty script: a fresh session is Down
	if got, e := c16RunScript(nil, disc); e != "" || bfdref.State(got) != bfdref.Down {
		r.Violation("C16:initial-state", fmt.Sprintf("fresh session state %s (%s), want Down", stName(got), e), nil)
	}
	r.Eval(1)
	for l := 1; l <= maxLen; l++ {
		var next []node
		for _, n := range level {
			if !n.good {
				continue
			}
			for a := range alphabet {
				seq := append(append([]int(nil), n.seq...), a)
				next = append(next, node{seq: seq, ref: n.ref})
			}
		}
		var wg sync.WaitGroup
		sem := make(chan struct{}, 32)
		for i := range next {
			wg.Add(1)
			sem <- struct{}{}
			go func(nd *node) {
				defer wg.Done()
				defer func() { <-sem }()
				pk := make([]bfdref.Packet, len(nd.seq))
				names := make([]string, len(nd.seq))
				for j, a := range nd.seq {
					pk[j] = alphabet[a].p
					names[j] = alphabet[a].name
				}
				last := pk[len(pk)-1]
				cur := nd.ref
				v, reason := bfdref.Classify(last, disc)
				want := cur
				if v == bfdref.Accept {
					want = bfdref.OnReceive(cur, last.State)
				}
				var got uint8
				var errs string
				p, stack := mon.Try(func() { got, errs = c16RunScript(pk, disc) })
				r.Eval(1)
				r.Event("script_run")
				r.Class(fmt.Sprintf("m1/script/%v/%s->%v", cur, names[len(names)-1], want))
				wit := map[string]any{"monitor": "m1-script", "script": names, "state_before": cur.String(),
					"got": stName(got), "want": want.String(), "error": errs}
				nd.ref = want
				switch {
				case p != nil:
					r.Violation("C16:panic:"+mon.PanicSite(stack), fmt.Sprintf("panic: %v", p), wit)
				case errs != "":
					r.Violation("C16:script-stuck", errs, wit)
				case bfdref.State(got) == want:
					nd.good = true
				case v == bfdref.Discard:
					r.Violation("C16:discard:"+reason, fmt.Sprintf("in %v a packet that must be discarded (%s, state %v) moved the session to %s",
						cur, reason, last.State, stName(got)), wit)
				case last.State == bfdref.AdminDown:
					r.Violation("C16:recv-admindown:"+cur.String(), fmt.Sprintf("in %v a received AdminDown moved the session to %s; RFC 5880 6.8.6 says %v",
						cur, stName(got), want), wit)
				default:
					r.Violation(fmt.Sprintf("C16:recv:%v:%v", cur, last.State), fmt.Sprintf("in %v a received %v moved the session to %s; RFC 5880 6.8.6 says %v",
						cur, last.State, stName(got), want), wit)
				}
				if nd.good && len(nd.seq) == 3 && r.WantSample() && nd.seq[0] == 2 && nd.seq[1] == 4 {
					r.Sample(wit)
				}
			}(&next[i])
		}
		wg.Wait()
		level = next
	}
	r.Extra("table_part_exhaustive", fmt.Sprintf("all 4 states x {recv Down, Init, Up, timer}; all scripts of length <= %d over %d packet symbols through Session.Run", maxLen, len(alphabet)))
}

// ---------------------------------------------------------------- monitor 2

type c16Step struct {
	Kind string          `json:"kind"` // recv | expire | quiet | keepalive
	Pkt  *bfdref.Packet  `json:"pkt,omitempty"`
	Pkts []bfdref.Packet `json:"pkts,omitempty"`
}

type c16History struct {
	Monitor string    `json:"monitor"`
	Index   int       `json:"index"`
	Cfg     c16Cfg    `json:"cfg"`
	Steps   []c16Step `json:"steps"`
}

func c16GenCfg(rng *rand.Rand, txChoices, rxChoices []int, minMult int) c16Cfg {
	c := c16Cfg{
		Disc: rng.Uint32() | 1,
		TxMs: txChoices[rng.IntN(len(txChoices))],
		RxMs: rxChoices[rng.IntN(len(rxChoices))],
		Mult: uint8(minMult + rng.IntN(6-minMult)),
	}
	return c
}

// c16GenPacket builds one peer packet. Its detection time at the receiver is
// between 800 and 1500 ms (mult x desired-min-tx, which exceeds the receiver's
// required-min-rx).
func c16GenPacket(rng *rand.Rand, cfg c16Cfg, peerDisc uint32, st bfdref.State, variant string) bfdref.Packet {
	tUs := uint32(800_000 + rng.IntN(700_001))
	m := uint8(1 + rng.IntN(5))
	rxs := []uint32{1, 5_000, 20_000, 40_000, 60_000}
	p := bfdref.Packet{Version: 1, State: st, DetectMult: m, MyDisc: peerDisc, YourDisc: cfg.Disc,
		DesiredMinTx: tUs / uint32(m), RequiredMinRx: rxs[rng.IntN(len(rxs))]}
	if rng.IntN(10) == 0 {
		p.MyDisc = rng.Uint32() | 2
	}
	if (st == bfdref.Down || st == bfdref.AdminDown) && rng.IntN(10) < 3 {
		p.YourDisc = 0
	}
	switch variant {
	case "version":
		p.Version = []uint8{0, 2, 3, 7}[rng.IntN(4)]
	case "mult0":
		p.DetectMult = 0
	case "multipoint":
		p.Multipoint = true
	case "mydisc0":
		p.MyDisc = 0
	case "yourdisc0":
		p.YourDisc = 0
		if st != bfdref.Init && st != bfdref.Up {
			p.State = []bfdref.State{bfdref.Init, bfdref.Up}[rng.IntN(2)]
		}
	case "auth":
		p.AuthPresent = true
	case "yourdisc-mismatch":
		p.YourDisc = cfg.Disc ^ (1 + rng.Uint32()&0xffff)
		if p.YourDisc == 0 {
			p.YourDisc = cfg.Disc + 1
		}
	case "poll":
		p.Poll = true
	case "final":
		p.Final = true
	case "demand":
		p.Demand = true
	case "echo":
		p.RequiredEcho = 50_000
	}
	return p
}

var (
	c16DiscardVariants  = []string{"version", "mult0", "multipoint", "mydisc0", "yourdisc0", "auth"}
	c16UnjudgedVariants = []string{"yourdisc-mismatch", "yourdisc-mismatch", "poll", "final", "demand", "echo"}
)

func c16PickState(rng *rand.Rand, cur bfdref.State, noAD bool) bfdref.State {
	var w [4]int // AdminDown, Down, Init, Up
	switch cur {
	case bfdref.Down:
		w = [4]int{14, 42, 32, 12}
	case bfdref.Init:
		w = [4]int{20, 25, 30, 25}
	default:
		w = [4]int{25, 30, 20, 25}
	}
	if noAD {
		w[1] += w[0]
		w[0] = 0
	}
	x := rng.IntN(w[0] + w[1] + w[2] + w[3])
	for i, v := range w {
		if x < v {
			return bfdref.State(i)
		}
		x -= v
	}
	return bfdref.Down
}

func c16GenHistory(rng *rand.Rand, idx int) c16History {
	h := c16History{Monitor: "m2", Index: idx}
	h.Cfg = c16GenCfg(rng, []int{20, 30, 50, 80}, []int{10, 20, 50}, 1)
	if rng.IntN(5) == 0 {
		h.Cfg.Preset = rng.Uint32() | 1
	}
	peerDisc := rng.Uint32() | 1
	noAD := rng.IntN(100) < 40
	n := 4 + rng.IntN(9)
	cur := bfdref.Down
	definite := false
	for len(h.Steps) < n {
		roll := rng.IntN(100)
		switch {
		case (cur == bfdref.Init || cur == bfdref.Up) && definite && roll < 15:
			h.Steps = append(h.Steps, c16Step{Kind: "expire"})
			cur, definite = bfdref.Down, false
		case cur == bfdref.Up && roll < 30:
			k := 2 + rng.IntN(4)
			st := c16Step{Kind: "keepalive"}
			for i := 0; i < k; i++ {
				s := bfdref.Up
				if rng.IntN(3) == 0 {
					s = bfdref.Init
				}
				st.Pkts = append(st.Pkts, c16GenPacket(rng, h.Cfg, peerDisc, s, "valid"))
			}
			h.Steps = append(h.Steps, st)
			definite = true
		case roll < 34:
			h.Steps = append(h.Steps, c16Step{Kind: "quiet"})
		default:
			x := c16PickState(rng, cur, noAD)
			variant := "valid"
			switch v := rng.IntN(100); {
			case v < 14:
				variant = c16DiscardVariants[rng.IntN(len(c16DiscardVariants))]
			case v < 28:
				variant = c16UnjudgedVariants[rng.IntN(len(c16UnjudgedVariants))]
			}
			p := c16GenPacket(rng, h.Cfg, peerDisc, x, variant)
			h.Steps = append(h.Steps, c16Step{Kind: "recv", Pkt: &p})
			v, _ := bfdref.Classify(p, h.Cfg.Disc)
			if v != bfdref.Discard {
				cur = bfdref.OnReceive(cur, p.State)
			}
			definite = v == bfdref.Accept
		}
	}
	return h
}

type c16Arm struct {
	lo, hi time.Time
	t      time.Duration
}

// c16Earliest is the earliest instant at which a detection timer armed by one
// of the candidate armings can fire (a timer armed after lo cannot fire before
// lo+t). ok is false if no timer is armed.
func c16Earliest(arms []c16Arm) (e time.Time, ok bool) {
	for i, a := range arms {
		if x := a.lo.Add(a.t); i == 0 || x.Before(e) {
			e = x
		}
	}
	return e, len(arms) > 0
}

// c16TimerSafe: a session in state st whose detection timer was armed by one
// of arms cannot have taken a detection timeout before instant t.
func c16TimerSafe(st bfdref.State, arms []c16Arm, t time.Time) bool {
	if st != bfdref.Init && st != bfdref.Up {
		return true // a timeout does not change Down
	}
	e, ok := c16Earliest(arms)
	return !ok || t.Before(e.Add(-c16Margin))
}

type c16Obs struct {
	Step   int    `json:"step"`
	Kind   string `json:"kind"`
	Before string `json:"state_before"`
	Recv   string `json:"recv,omitempty"`
	Rule   string `json:"rule,omitempty"`
	Want   string `json:"want"`
	Got    string `json:"got"`
	DtMs   int64  `json:"ms_after_inject,omitempty"`
}

// c16RunHistory executes one scripted-peer history against a fresh real
// session. Violations of the state rules are reported directly; a missed
// progress bound is returned so that it can be re-run in isolation. In a
// re-run (rerun = true) counters are not updated and progress bounds are
// doubled.
func c16RunHistory(r *mon.Run, h c16History, rerun bool) *c16Miss {
	snd := newC16Sender(nil)
	live := c16Start(h.Cfg, snd)
	ref := bfdref.New(h.Cfg.Disc, uint32(h.Cfg.RxMs)*1000)
	var arms []c16Arm // candidate armings of the detection timer
	var obs []c16Obs
	next := 0 // index of the next unread sent packet
	stuck := false
	slack, silence := c16Slack, c16Silence
	if rerun {
		slack, silence = 2*slack, 2*silence
	}
	defer func() {
		if !stuck {
			live.stop()
		}
	}()
	wit := func() any { return map[string]any{"history": h, "observed": obs} }
	eval := func(class string) {
		if !rerun {
			r.Eval(1)
			r.Class(class)
		}
	}
	event := func(e string) {
		if !rerun {
			r.Event(e)
		}
	}
	miss := func(key, what string) *c16Miss {
		return &c16Miss{Key: key, What: what, Monitor: "m2", Index: h.Index, Witness: wit()}
	}
	inconclusive := func(reason string) *c16Miss {
		if !rerun {
			r.Inconclusive(reason)
		}
		return nil
	}
	// recvOne injects one packet and judges the next causally-later packet.
	// done = stop the history (violation, inconclusive or miss).
	recvOne := func(si int, p bfdref.Packet, kind string) (done bool, m *c16Miss) {
		cur := ref.State
		verdict, reason := bfdref.Classify(p, h.Cfg.Disc)
		lo, hi, ok := c16Inject(live.s, p)
		if !ok {
			stuck = true
			return true, miss("C16:stuck", fmt.Sprintf("session in %v did not take a received packet within %v", cur, c16Handoff))
		}
		// the message must have been taken before a detection timeout was possible
		if !c16TimerSafe(cur, arms, hi) {
			return true, inconclusive("m2-harness-late-inject")
		}
		seq0 := max(snd.count(), next)
		accepted := bfdref.OnReceive(cur, p.State)
		newArm := []c16Arm{{lo, hi, time.Duration(ref.DetectTime(p)) * time.Microsecond}}
		type branch struct {
			st   bfdref.State
			arms []c16Arm
		}
		var branches []branch
		switch verdict {
		case bfdref.Accept:
			branches = []branch{{accepted, newArm}}
		case bfdref.Discard:
			branches = []branch{{cur, arms}}
		default: // not judged: either discarded or accepted
			branches = []branch{{cur, arms}, {accepted, newArm}}
		}
		rec, ok := snd.get(seq0, hi.Add(silence))
		if !ok {
			return true, miss("C16:silent", fmt.Sprintf("no packet sent within %v after a received packet (state %v)", silence, cur))
		}
		next = rec.Seq + 1
		got := bfdref.State(rec.State)
		// A branch explains the observation if it predicts the observed state
		// and no detection timeout was possible on it before the packet was
		// sent. If no branch does, but on some branch a timeout was possible
		// (which would explain the observed state or Down), the case cannot
		// be judged.
		explained, maybeTimeout := false, false
		for _, b := range branches {
			safe := c16TimerSafe(b.st, b.arms, rec.T)
			if safe && got == b.st {
				explained = true
			}
			if !safe && (got == b.st || got == bfdref.Down) {
				maybeTimeout = true
			}
		}
		if !explained && maybeTimeout {
			return true, inconclusive("m2-observation-near-detection-time")
		}
		o := c16Obs{Step: si, Kind: kind, Before: cur.String(), Recv: p.State.String(), Rule: verdict.String() + "/" + reason,
			Want: branches[0].st.String(), Got: got.String(), DtMs: rec.T.Sub(lo).Milliseconds()}
		if len(branches) == 2 {
			o.Want += "|" + branches[1].st.String()
		}
		obs = append(obs, o)
		outcome := got.String()
		if verdict == bfdref.Unjudged {
			switch {
			case branches[0].st == branches[1].st:
				outcome += "/same"
			case got == branches[1].st:
				outcome += "/accepted"
			case got == branches[0].st:
				outcome += "/discarded"
			}
		}
		eval(fmt.Sprintf("m2/%v/recv-%v/%s/%s", cur, p.State, reason, outcome))
		event("m2_recv_" + verdict.String())
		var matched []c16Arm
		nmatch := 0
		// every branch that predicts the observed state stays possible, so
		// its timer armings stay candidates
		for _, b := range branches {
			if got == b.st {
				matched = append(matched, b.arms...)
				nmatch++
			}
		}
		if nmatch > 0 {
			ref.State = got
			arms = matched
			return false, nil
		}
		var key, what string
		switch {
		case verdict == bfdref.Discard:
			key = "C16:discard:" + reason
			what = fmt.Sprintf("in %v a packet that RFC 5880 6.8.6 says must be discarded (%s, state field %v) changed the state to %v", cur, reason, p.State, got)
		case p.State == bfdref.AdminDown:
			key = "C16:recv-admindown:" + cur.String()
			what = fmt.Sprintf("in %v a received AdminDown led to state %v in the next sent packet; RFC 5880 6.8.6 says %v", cur, got, accepted)
		default:
			key = fmt.Sprintf("C16:recv:%v:%v", cur, p.State)
			what = fmt.Sprintf("in %v a received %v (%s) led to state %v in the next sent packet; RFC 5880 6.8.6 allows %s", cur, p.State, reason, got, o.Want)
		}
		r.Violation(key, what, wit())
		return true, nil
	}

	for si, st := range h.Steps {
		switch kind := st.Kind; {
		case kind == "recv":
			if done, m := recvOne(si, *st.Pkt, "recv"); done {
				return m
			}
		case kind == "keepalive" && ref.State == bfdref.Up && len(arms) == 1:
			for _, p := range st.Pkts {
				// wait for the session's next transmission, then answer it
				rec, ok := snd.get(next, time.Now().Add(silence))
				if !ok {
					return miss("C16:silent", "Up session stopped transmitting while packets keep flowing")
				}
				next = rec.Seq + 1
				if !c16TimerSafe(bfdref.Up, arms, rec.T) {
					return inconclusive("m2-harness-late-keepalive")
				}
				eval("m2/Up/keepalive/" + stName(rec.State))
				if bfdref.State(rec.State) != bfdref.Up {
					obs = append(obs, c16Obs{Step: si, Kind: "keepalive", Before: "Up", Want: "Up", Got: stName(rec.State)})
					r.Violation("C16:dropped-while-flowing", fmt.Sprintf("session left Up (sent %s) %v after the last received packet although its detection time is %v",
						stName(rec.State), rec.T.Sub(arms[0].lo), arms[0].t), wit())
					return nil
				}
				if done, m := recvOne(si, p, "keepalive"); done {
					return m
				}
			}
			event("m2_keepalive")
		case kind == "expire" && (ref.State == bfdref.Init || ref.State == bfdref.Up) && len(arms) == 1:
			cur := ref.State
			a := arms[0]
			notBefore := a.lo.Add(a.t)
			deadline := a.hi.Add(a.t + slack)
			for {
				rec, ok := snd.get(next, deadline)
				if !ok || (bfdref.State(rec.State) == cur && rec.T.After(deadline)) {
					obs = append(obs, c16Obs{Step: si, Kind: "expire", Before: cur.String(), Want: "Down", Got: "still " + cur.String()})
					return miss("C16:detect-late:"+cur.String(), fmt.Sprintf("session in %v receiving nothing had not sent Down %v after its detection time of %v", cur, slack, a.t))
				}
				next = rec.Seq + 1
				got := bfdref.State(rec.State)
				if got == cur {
					continue
				}
				obs = append(obs, c16Obs{Step: si, Kind: "expire", Before: cur.String(), Want: "Down", Got: got.String(), DtMs: rec.T.Sub(a.lo).Milliseconds()})
				eval(fmt.Sprintf("m2/%v/expire/%v", cur, got))
				event("m2_expire")
				if got != bfdref.Down {
					r.Violation(fmt.Sprintf("C16:spontaneous:%v:%v", cur, got), fmt.Sprintf("session in %v receiving nothing sent state %v", cur, got), wit())
					return nil
				}
				if rec.T.Before(notBefore.Add(-time.Millisecond)) {
					r.Violation("C16:detect-early:"+cur.String(), fmt.Sprintf("session in %v went Down %v after the last received packet, before its detection time of %v",
						cur, rec.T.Sub(a.lo), a.t), wit())
					return nil
				}
				ref.Expire()
				arms = nil
				break
			}
		default: // quiet (also: expire/keepalive whose precondition does not hold)
			cur := ref.State
			rec, ok := snd.get(next, time.Now().Add(silence))
			if !ok {
				return miss("C16:silent", fmt.Sprintf("session in %v sent nothing for %v", cur, silence))
			}
			next = rec.Seq + 1
			if !c16TimerSafe(cur, arms, rec.T) {
				return inconclusive("m2-quiet-near-detection-time")
			}
			got := bfdref.State(rec.State)
			obs = append(obs, c16Obs{Step: si, Kind: "quiet", Before: cur.String(), Want: cur.String(), Got: got.String()})
			eval(fmt.Sprintf("m2/%v/quiet/%v", cur, got))
			if got != cur {
				r.Violation(fmt.Sprintf("C16:spontaneous:%v:%v", cur, got), fmt.Sprintf("session in %v changed to %v without receiving a packet or a detection timeout", cur, got), wit())
				return nil
			}
		}
	}
	event("m2_history_completed")
	if !rerun && r.WantSample() && h.Index%97 == 3 {
		r.Sample(wit())
	}
	return nil
}

// ---------------------------------------------------------------- monitor 3

type c16Act struct {
	Drop  bool           `json:"drop,omitempty"`
	Dup   bool           `json:"dup,omitempty"`
	Forge *bfdref.Packet `json:"forge,omitempty"`
}

type c16Pair struct {
	Monitor   string   `json:"monitor"`
	Index     int      `json:"index"`
	A         c16Cfg   `json:"a"`
	B         c16Cfg   `json:"b"`
	ActsAB    []c16Act `json:"hostile_a_to_b"`
	ActsBA    []c16Act `json:"hostile_b_to_a"`
	AdminDown bool     `json:"forges_admindown"`
	Stay      int      `json:"stay_packets"`
	// SendErrA/B: sequence numbers at which the sender of A / B reports an
	// error instead of transmitting (isolated: the detection multipliers are >= 3).
	SendErrA []int `json:"send_errors_a,omitempty"`
	SendErrB []int `json:"send_errors_b,omitempty"`
}

type c16Delivery struct {
	seq   int   // sender's sequence number; -1 for a forged packet
	state uint8 // State field of the delivered packet
	// certain: the receiver certainly accepted the packet (false for forged
	// packets whose acceptance the reference does not judge).
	certain bool
	lo, hi  time.Time
	t       time.Duration // detection time this packet establishes at the receiver
}

type c16Link struct {
	name    string
	in      chan c16Queued
	dst     *bfd.Session
	dstRx   uint32 // receiver's required min rx, microseconds
	dstDisc uint32 // receiver's local discriminator

	mu        sync.Mutex
	acts      []c16Act
	idx       int  // packets taken from the sender so far
	cut       bool // drop everything
	clean     bool // hostile script finished
	cleanAt   time.Time
	delivered []c16Delivery
	overflow  int
	stuck     bool
	note      chan struct{}
}

type c16Queued struct {
	p   layers.BFD
	seq int
}

func (l *c16Link) push(p layers.BFD, seq int) {
	select {
	case l.in <- c16Queued{p, seq}:
	default:
		l.mu.Lock()
		l.overflow++
		l.mu.Unlock()
	}
}

func (l *c16Link) deliver(p *layers.BFD, seq int, forged *bfdref.Packet) bool {
	// called with l.mu held
	done := make(chan struct{})
	lo := time.Now()
	go func() {
		l.dst.ReceiveMessage(p)
		close(done)
	}()
	tm := time.NewTimer(c16Handoff)
	defer tm.Stop()
	select {
	case <-done:
	case <-tm.C:
		l.stuck = true
		return false
	}
	certain := true
	if forged != nil {
		switch v, _ := bfdref.Classify(*forged, l.dstDisc); v {
		case bfdref.Discard:
			return true // never reaches the session's queue: arms nothing
		case bfdref.Unjudged:
			certain = false
		}
	}
	iv := uint64(l.dstRx)
	if uint64(p.DesiredMinTxInterval) > iv {
		iv = uint64(p.DesiredMinTxInterval)
	}
	l.delivered = append(l.delivered, c16Delivery{seq: seq, state: uint8(p.State), certain: certain, lo: lo, hi: time.Now(),
		t: time.Duration(uint64(p.DetectMultiplier)*iv) * time.Microsecond})
	return true
}

// run moves packets from the sender to the receiving session until stop is
// closed. Decisions are a function of the packet index only.
func (l *c16Link) run(stop chan struct{}, wg *sync.WaitGroup) {
	defer wg.Done()
	for {
		var q c16Queued
		select {
		case <-stop:
			return
		case q = <-l.in:
		}
		l.mu.Lock()
		i := l.idx
		l.idx++
		var act c16Act
		if i < len(l.acts) {
			act = l.acts[i]
		}
		becameClean := l.idx >= len(l.acts) && !l.clean
		ok := true
		if !l.cut {
			if act.Forge != nil {
				ok = l.deliver(c16Layer(*act.Forge), -1, act.Forge)
			}
			if ok && !act.Drop {
				// discardable packets never reach the session's queue; they
				// are not deliveries. Real sessions only send valid packets.
				ok = l.deliver(&q.p, q.seq, nil)
				if ok && act.Dup {
					ok = l.deliver(&q.p, q.seq, nil)
				}
			}
		}
		if becameClean {
			// set only after the last hostile action (including its forged
			// packet) has been handed over: from cleanAt on, everything the
			// receiver gets is a genuine packet, in order.
			l.clean = true
			l.cleanAt = time.Now()
		}
		l.mu.Unlock()
		select {
		case l.note <- struct{}{}:
		default:
		}
		if !ok {
			return
		}
	}
}

// firstDeliveredFrom returns the completion time of the first delivery of a
// sender packet with sequence number >= seq.
func (l *c16Link) firstDeliveredFrom(seq int) (time.Time, bool) {
	l.mu.Lock()
	defer l.mu.Unlock()
	for _, d := range l.delivered {
		if d.seq >= seq {
			return d.hi, true
		}
	}
	return time.Time{}, false
}

func c16GenPair(rng *rand.Rand, idx int) c16Pair {
	iv := []int{80, 100, 150, 200}
	p := c16Pair{Monitor: "m3", Index: idx}
	p.A = c16GenCfg(rng, iv, iv, 3)
	p.B = c16GenCfg(rng, iv, iv, 3)
	if p.B.Disc == p.A.Disc {
		p.B.Disc ^= 0x10
	}
	// detection time at each receiver: at least 400 ms
	for uint32(p.B.Mult)*uint32(max(p.A.RxMs, p.B.TxMs)) < 400 {
		p.B.Mult++
	}
	for uint32(p.A.Mult)*uint32(max(p.B.RxMs, p.A.TxMs)) < 400 {
		p.A.Mult++
	}
	p.AdminDown = rng.IntN(100) < 20
	p.Stay = 8 + rng.IntN(8)
	clean := rng.IntN(4) == 0
	gen := func(from, to c16Cfg) []c16Act {
		if clean {
			return nil
		}
		k := 3 + rng.IntN(6)
		loss := []int{20, 40, 60, 80, 100}[rng.IntN(5)]
		acts := make([]c16Act, k)
		for i := range acts {
			a := &acts[i]
			a.Drop = rng.IntN(100) < loss
			a.Dup = rng.IntN(100) < 25
			if rng.IntN(100) < 45 {
				states := []bfdref.State{bfdref.Down, bfdref.Init, bfdref.Up, bfdref.Down, bfdref.Up}
				if p.AdminDown {
					states = append(states, bfdref.AdminDown, bfdref.AdminDown)
				}
				f := bfdref.Packet{Version: 1, State: states[rng.IntN(len(states))], DetectMult: uint8(1 + rng.IntN(5)),
					MyDisc: from.Disc, YourDisc: to.Disc,
					DesiredMinTx: uint32(iv[rng.IntN(len(iv))]) * 1000, RequiredMinRx: uint32(iv[rng.IntN(len(iv))]) * 1000}
				switch rng.IntN(10) {
				case 0:
					f.MyDisc = rng.Uint32() | 1
				case 1:
					f.YourDisc = 0
				case 2:
					f.YourDisc = rng.Uint32() | 1
				case 3:
					f.Version = 0
				case 4:
					f.DetectMult = 0
				}
				a.Forge = &f
			}
		}
		return acts
	}
	p.ActsAB = gen(p.A, p.B)
	p.ActsBA = gen(p.B, p.A)
	if p.AdminDown {
		has := false
		for _, as := range [][]c16Act{p.ActsAB, p.ActsBA} {
			for _, a := range as {
				if a.Forge != nil && a.Forge.State == bfdref.AdminDown && a.Forge.Version == 1 && a.Forge.DetectMult != 0 {
					has = true
				}
			}
		}
		p.AdminDown = has
	}
	if rng.IntN(3) == 0 {
		gen := func() []int {
			var out []int
			q := 1 + rng.IntN(12)
			for k := 1 + rng.IntN(2); k > 0; k-- {
				out = append(out, q)
				q += 9 + rng.IntN(10)
			}
			return out
		}
		switch rng.IntN(3) {
		case 0:
			p.SendErrA = gen()
		case 1:
			p.SendErrB = gen()
		default:
			p.SendErrA, p.SendErrB = gen(), gen()
		}
	}
	return p
}

// c16LegitLeave decides whether a session that was Up (its detection timer
// armed by delivery ds[since] or a later one) and whose first non-Up packet
// was sent at instant t may have left Up according to RFC 5880: because a
// Down/AdminDown packet was handed to it before t, or because a detection
// timeout was possible — the timer armed by some delivery i (it cannot fire
// before lo_i + T_i) was not certainly re-armed in time: the next certainly
// accepted delivery completed its hand-off at or after lo_i + T_i, or there is
// none and t is at or after lo_i + T_i. (An expiry that fires after the next
// hand-off is cancelled by it.) Sound under arbitrary scheduling delays.
func c16LegitLeave(ds []c16Delivery, since int, t time.Time) (bool, string) {
	known := false
	for i := max(since, 0); i < len(ds) && ds[i].lo.Before(t); i++ {
		known = true
		if s := bfdref.State(ds[i].state); s == bfdref.Down || s == bfdref.AdminDown {
			return true, "received " + s.String()
		}
		expiry := ds[i].lo.Add(ds[i].t - time.Millisecond)
		rearmed := false
		for j := i + 1; j < len(ds) && ds[j].lo.Before(t); j++ {
			if !ds[j].certain {
				continue
			}
			rearmed = true
			if !ds[j].hi.Before(expiry) {
				return true, "gap between deliveries reached the detection time"
			}
			break
		}
		if !rearmed && !t.Before(expiry) {
			return true, "nothing received for the detection time"
		}
	}
	if !known {
		return true, "no delivery known"
	}
	return false, ""
}

// c16RunPair runs two real sessions over the scripted link.
func c16RunPair(r *mon.Run, pc c16Pair, rerun bool) *c16Miss {
	note := make(chan struct{}, 1)
	sa, sb := newC16Sender(note), newC16Sender(note)
	ab := &c16Link{name: "a->b", in: make(chan c16Queued, 512), acts: pc.ActsAB, dstRx: uint32(pc.B.RxMs) * 1000, dstDisc: pc.B.Disc, note: note}
	ba := &c16Link{name: "b->a", in: make(chan c16Queued, 512), acts: pc.ActsBA, dstRx: uint32(pc.A.RxMs) * 1000, dstDisc: pc.A.Disc, note: note}
	if len(pc.ActsAB) == 0 {
		ab.clean, ab.cleanAt = true, time.Now()
	}
	if len(pc.ActsBA) == 0 {
		ba.clean, ba.cleanAt = true, time.Now()
	}
	sa.fwd, sb.fwd = ab.push, ba.push
	sa.errAt, sb.errAt = map[int]bool{}, map[int]bool{}
	for _, q := range pc.SendErrA {
		sa.errAt[q] = true
	}
	for _, q := range pc.SendErrB {
		sb.errAt[q] = true
	}
	if len(pc.SendErrA)+len(pc.SendErrB) > 0 {
		r.Event("pair_with_send_errors")
	}
	la := c16Start(pc.A, sa)
	lb := c16Start(pc.B, sb)
	ab.dst, ba.dst = lb.s, la.s
	stop := make(chan struct{})
	var wg sync.WaitGroup
	wg.Add(2)
	go ab.run(stop, &wg)
	go ba.run(stop, &wg)
	var phases []string
	defer func() {
		close(stop)
		wg.Wait()
		if !ab.stuck && !ba.stuck {
			la.stop()
			lb.stop()
		}
	}()

	slack, silence := c16Slack, c16Silence
	if rerun {
		slack, silence = 2*slack, 2*silence
	}
	txMax := max(pc.A.TxMs, pc.A.RxMs, pc.B.TxMs, pc.B.RxMs)
	expected := c16MaxDown + 4*time.Duration(txMax)*time.Millisecond
	bound := 20 * expected
	wit := func() any {
		tail := func(s *c16Sender) []c16Sent {
			n := s.count()
			return s.snapshot(max(0, n-14))
		}
		dl := func(l *c16Link) [][5]float64 {
			ds := lockedDeliveries(l)
			ds = ds[max(0, len(ds)-14):]
			out := make([][5]float64, len(ds))
			for i, d := range ds {
				out[i] = [5]float64{float64(d.seq), float64(d.state), float64(d.lo.Sub(sa.t0).Microseconds()) / 1000,
					float64(d.hi.Sub(sa.t0).Microseconds()) / 1000, float64(d.t.Milliseconds())}
			}
			return out
		}
		return map[string]any{"pair": pc, "phases": phases, "last_sent_a": tail(sa), "last_sent_b": tail(sb),
			"last_deliveries_to_b_seq_state_lo_hi_detect_ms": dl(ab), "last_deliveries_to_a_seq_state_lo_hi_detect_ms": dl(ba),
			"expected_negotiation_ms": expected.Milliseconds(), "bound_ms": bound.Milliseconds()}
	}
	miss := func(key, what string) *c16Miss {
		return &c16Miss{Key: key, What: what, Monitor: "m3", Index: pc.Index, Witness: wit()}
	}
	eval := func(class string) {
		if !rerun {
			r.Eval(1)
			r.Class(class)
		}
	}
	event := func(e string) {
		if !rerun {
			r.Event(e)
		}
	}
	wait := func(deadline time.Time) bool {
		d := time.Until(deadline)
		if d <= 0 {
			return false
		}
		tm := time.NewTimer(d)
		defer tm.Stop()
		select {
		case <-note:
		case <-tm.C:
		}
		return true
	}
	// upRun: index of the first packet of the trailing run of Up packets and
	// the send time of the latest packet.
	upRun := func(s *c16Sender) (start, last int, lastT time.Time, ok bool) {
		s.mu.Lock()
		defer s.mu.Unlock()
		n := len(s.recs)
		if n == 0 || s.recs[n-1].State != uint8(bfdref.Up) {
			return 0, 0, time.Time{}, false
		}
		i := n - 1
		for i > 0 && s.recs[i-1].State == uint8(bfdref.Up) {
			i--
		}
		return i, n - 1, s.recs[n-1].T, true
	}
	// stableUp: both sessions are Up and everything in flight between them was
	// sent by an Up session. Each side's latest packet is Up and was sent after
	// the first delivered packet of the peer's current run of Up packets had
	// been handed to it and after the last forged packet had been handed to it.
	// The link is FIFO and forges nothing any more, so
	// whatever a side receives from then on is an Up packet; by induction both
	// stay Up unless a detection timeout is possible.
	type stable struct {
		aSeq, bSeq int       // latest (Up) packets of a and b
		aT, bT     time.Time // their send times
	}
	stableUp := func() (stable, bool) {
		a0, aN, aT, okA := upRun(sa)
		b0, bN, bT, okB := upRun(sb)
		if !okA || !okB {
			return stable{}, false
		}
		dB, ok1 := ab.firstDeliveredFrom(a0) // a's Up run has reached b
		dA, ok2 := ba.firstDeliveredFrom(b0) // b's Up run has reached a
		ab.mu.Lock()
		cleanB := ab.cleanAt // nothing forged reaches b after this instant
		ab.mu.Unlock()
		ba.mu.Lock()
		cleanA := ba.cleanAt
		ba.mu.Unlock()
		if ok1 && ok2 && aT.After(dA) && bT.After(dB) && aT.After(cleanA) && bT.After(cleanB) {
			return stable{aN, bN, aT, bT}, true
		}
		return stable{}, false
	}
	waitStable := func(until time.Time) (stable, bool) {
		for {
			if s, ok := stableUp(); ok {
				return s, true
			}
			if ab.isStuck() || ba.isStuck() {
				return stable{}, false
			}
			if !wait(until) {
				return stableUp()
			}
		}
	}
	// sinceIdx: the last delivery whose hand-off completed before instant t.
	sinceIdx := func(ds []c16Delivery, t time.Time) int {
		k := -1
		for i, d := range ds {
			if d.hi.Before(t) {
				k = i
			}
		}
		return k
	}

	// phase 1: hostile link. Every packet index is consumed within one Down
	// transmit interval, so the phase ends by itself.
	kind := "hostile"
	if len(pc.ActsAB) == 0 && len(pc.ActsBA) == 0 {
		kind = "clean"
	}
	if pc.AdminDown {
		kind = "hostile+admindown"
	}
	noRecoveryKey := "C16:no-recovery"
	if pc.AdminDown {
		noRecoveryKey = "C16:no-recovery-after-admindown"
	}
	hostileDeadline := time.Now().Add(time.Duration(max(len(pc.ActsAB), len(pc.ActsBA))+3)*c16MaxDown + silence)
	var behavedAt time.Time
	for {
		ab.mu.Lock()
		ba.mu.Lock()
		both := ab.clean && ba.clean
		behavedAt = ab.cleanAt
		if ba.cleanAt.After(behavedAt) {
			behavedAt = ba.cleanAt
		}
		ba.mu.Unlock()
		ab.mu.Unlock()
		if both {
			phases = append(phases, fmt.Sprintf("link well-behaved after %d/%d packets", len(pc.ActsAB), len(pc.ActsBA)))
			break
		}
		if ab.isStuck() || ba.isStuck() {
			return miss("C16:stuck", "a session stopped taking received packets during the hostile phase")
		}
		if !wait(hostileDeadline) {
			key := "C16:silent"
			if pc.AdminDown {
				key = noRecoveryKey
			}
			return miss(key, "a session stopped transmitting during the hostile phase")
		}
	}

	// phases 2+3: bounded progress — both Up within bound after the link
	// behaves — and then stay Up while packets keep flowing. A session that
	// leaves Up is judged by c16LegitLeave; a legitimate flap (possible only
	// when this process is starved) restarts the wait, a few times.
	progressFrom := behavedAt
	var stayFromA, stayFromB int // first packet index of the final stay phase
	var sinceA, sinceB int
	for attempt := 0; ; attempt++ {
		st, ok := waitStable(progressFrom.Add(bound))
		if !ok {
			if ab.isStuck() || ba.isStuck() {
				return miss("C16:stuck", "a session stopped taking received packets")
			}
			eval("m3/" + kind + "/recover/missed")
			return miss(noRecoveryKey, fmt.Sprintf("both sessions were not Up %v (20 x expected negotiation time %v) after the link started to deliver every packet", bound, expected))
		}
		if attempt == 0 {
			phases = append(phases, fmt.Sprintf("both Up %v after the link behaved", time.Since(behavedAt).Round(time.Millisecond)))
			eval("m3/" + kind + "/recover/up")
			event("m3_recovered")
		}
		stayFromA, stayFromB = st.aSeq, st.bSeq
		sinceA = sinceIdx(lockedDeliveries(ba), st.aT)
		sinceB = sinceIdx(lockedDeliveries(ab), st.bT)
		stayDeadline := time.Now().Add(time.Duration(pc.Stay*txMax)*time.Millisecond*2 + silence)
		flapped := false
		for {
			badA, badB := firstNotUp(sa.snapshot(stayFromA)), firstNotUp(sb.snapshot(stayFromB))
			if badA != nil || badB != nil {
				flapped = true
				for _, x := range []struct {
					name  string
					bad   *c16Sent
					ds    []c16Delivery
					since int
				}{{"a", badA, lockedDeliveries(ba), sinceA}, {"b", badB, lockedDeliveries(ab), sinceB}} {
					if x.bad == nil {
						continue
					}
					if ok, _ := c16LegitLeave(x.ds, x.since, x.bad.T); !ok {
						eval("m3/" + kind + "/stay/dropped")
						r.Violation("C16:dropped-while-flowing", fmt.Sprintf("session %s left Up (sent %s) although it had received no Down and every packet reached it within its detection time",
							x.name, stName(x.bad.State)), wit())
						return nil
					}
				}
				break
			}
			if sa.count() >= stayFromA+pc.Stay && sb.count() >= stayFromB+pc.Stay {
				break
			}
			if !wait(stayDeadline) {
				return miss("C16:silent", "an Up session stopped transmitting on a clean link")
			}
		}
		if !flapped {
			break
		}
		if !rerun {
			r.Inconclusive("m3-legitimate-flap")
		}
		if attempt >= 3 {
			return nil
		}
		progressFrom = time.Now()
	}
	eval("m3/" + kind + "/stay/up")
	event("m3_stayed_up")
	phases = append(phases, fmt.Sprintf("stayed Up for %d more packets each", pc.Stay))

	// phase 4: the link goes dead; each session goes Down after its own
	// detection time, not before.
	ab.mu.Lock()
	ba.mu.Lock()
	ab.cut, ba.cut = true, true
	cutAt := time.Now()
	dsToB := append([]c16Delivery(nil), ab.delivered...)
	dsToA := append([]c16Delivery(nil), ba.delivered...)
	ba.mu.Unlock()
	ab.mu.Unlock()
	type side struct {
		name    string
		snd     *c16Sender
		from    int
		ds      []c16Delivery
		since   int
		judged  bool
		down    bool
		lastLeg string
	}
	sides := []*side{{name: "a", snd: sa, from: stayFromA, ds: dsToA, since: sinceA}, {name: "b", snd: sb, from: stayFromB, ds: dsToB, since: sinceB}}
	maxT := max(dsToA[len(dsToA)-1].t, dsToB[len(dsToB)-1].t)
	cutDeadline := cutAt.Add(maxT + slack + c16MaxDown)
	for {
		for _, sd := range sides {
			for _, rec := range sd.snd.snapshot(sd.from) {
				sd.from = rec.Seq + 1
				st := bfdref.State(rec.State)
				if st == bfdref.Down && rec.T.After(cutAt) {
					sd.down = true
				}
				if sd.judged || st == bfdref.Up {
					continue
				}
				sd.judged = true // the first non-Up packet
				ok, why := c16LegitLeave(sd.ds, sd.since, rec.T)
				sd.lastLeg = why
				eval("m3/" + kind + "/cut/" + st.String())
				if !ok {
					last := sd.ds[len(sd.ds)-1]
					r.Violation("C16:detect-early:Up", fmt.Sprintf("session %s left Up (sent %v) %v after its last received packet, before its detection time %v, without having received Down",
						sd.name, st, rec.T.Sub(last.lo), last.t), wit())
					return nil
				}
			}
		}
		if sides[0].down && sides[1].down {
			break
		}
		if !wait(cutDeadline) {
			return miss("C16:detect-late:Up", fmt.Sprintf("a session that stopped receiving had not sent Down %v after its detection time (at most %v)", slack, maxT))
		}
	}
	event("m3_timed_out")
	phases = append(phases, fmt.Sprintf("link cut: both Down (a: %s; b: %s)", sides[0].lastLeg, sides[1].lastLeg))

	// phase 5: the link behaves again; both come Up again.
	ab.mu.Lock()
	ba.mu.Lock()
	ab.cut, ba.cut = false, false
	ba.mu.Unlock()
	ab.mu.Unlock()
	restored := time.Now()
	if _, ok := waitStable(restored.Add(bound)); !ok {
		if ab.isStuck() || ba.isStuck() {
			return miss("C16:stuck", "a session stopped taking received packets")
		}
		eval("m3/" + kind + "/restore/missed")
		return miss("C16:no-recovery-after-timeout", fmt.Sprintf("both sessions were not Up again %v after the dead link was restored", bound))
	}
	eval("m3/" + kind + "/restore/up")
	event("m3_restored")
	phases = append(phases, fmt.Sprintf("link restored: both Up after %v", time.Since(restored).Round(time.Millisecond)))
	if !rerun && r.WantSample() && pc.Index%13 == 1 {
		r.Sample(wit())
	}
	return nil
}

func lockedDeliveries(l *c16Link) []c16Delivery {
	l.mu.Lock()
	defer l.mu.Unlock()
	return append([]c16Delivery(nil), l.delivered...)
}

func (l *c16Link) isStuck() bool {
	l.mu.Lock()
	defer l.mu.Unlock()
	return l.stuck
}

func firstNotUp(recs []c16Sent) *c16Sent {
	for i := range recs {
		if recs[i].State != uint8(bfdref.Up) {
			return &recs[i]
		}
	}
	return nil
}

// ---------------------------------------------------------------- driver

func checkC16(r *mon.Run) {
	r.Rule = "m1: transition table (4 states x received Down/Init/Up + timer) and every packet script up to length 4/5 through Session.Run; " +
		"m2: PRNG histories of 4-12 steps (received state x packet variant {valid, must-discard, unjudged} | withheld packets | keepalive) " +
		"against real sessions, state read from the next causally-later transmitted packet; m3: two real sessions over a link that " +
		"drops/duplicates/forges per packet index, then behaves, is cut, and is restored. Reference: RFC 5880 6.8.6/6.8.4 (verif/bfdref). " +
		"class = monitor/state before/input/rule/outcome"
	r.Assumptions = []string{
		"time.Timer never fires early and one monotonic clock orders timestamps taken in different goroutines",
		"selection of the session by Your Discriminator (RFC: discard on mismatch) is not judged: the router selects the session by link; observed and recorded as a class",
		"packets using features the implementation documents as unsupported (poll, final, demand, echo) are not judged",
		"'eventually' is decided as bounded progress: 20 x (1 s Down transmit interval + 4 x largest negotiated interval); a miss is re-run once in isolation before it is reported",
		"intervals in generated packets are at most 1.5 s; the effect of very large advertised intervals on recovery time is not explored",
	}

	if p := r.ReplayFile(); p != "" {
		c16Replay(r, p)
		return
	}

	t0 := time.Now()
	c16Table(r)
	tTable := time.Since(t0)

	nHist := r.Pick(900, 9000)
	nPair := r.Pick(70, 700)
	par := r.Pick(300, 300)
	parPairs := r.Pick(70, 100)

	var mu sync.Mutex
	var misses []*c16Miss
	addMiss := func(m *c16Miss) {
		if m != nil {
			mu.Lock()
			misses = append(misses, m)
			mu.Unlock()
		}
	}
	var wg sync.WaitGroup
	wg.Add(2)
	go func() {
		defer wg.Done()
		sem := make(chan struct{}, par)
		var w sync.WaitGroup
		for i := 0; i < nHist; i++ {
			h := c16GenHistory(r.Rand(fmt.Sprint("m2/", i)), i)
			sem <- struct{}{}
			w.Add(1)
			go func() {
				defer w.Done()
				defer func() { <-sem }()
				addMiss(c16RunHistory(r, h, false))
			}()
		}
		w.Wait()
	}()
	go func() {
		defer wg.Done()
		sem := make(chan struct{}, parPairs)
		var w sync.WaitGroup
		for i := 0; i < nPair; i++ {
			pc := c16GenPair(r.Rand(fmt.Sprint("m3/", i)), i)
			sem <- struct{}{}
			w.Add(1)
			go func() {
				defer w.Done()
				defer func() { <-sem }()
				addMiss(c16RunPair(r, pc, false))
			}()
		}
		w.Wait()
	}()
	wg.Wait()

	// progress misses: re-run in isolation (nothing else is running now), a
	// few per key; only a reproduced miss is a violation.
	sort.Slice(misses, func(i, j int) bool {
		if misses[i].Key != misses[j].Key {
			return misses[i].Key < misses[j].Key
		}
		if misses[i].Monitor != misses[j].Monitor {
			return misses[i].Monitor < misses[j].Monitor
		}
		return misses[i].Index < misses[j].Index
	})
	perKey := map[string]int{}
	var rr sync.WaitGroup
	for _, m := range misses {
		r.Event("progress_miss")
		if perKey[m.Key] >= 2 {
			r.Inconclusive("progress-miss-not-rerun:" + m.Key)
			continue
		}
		perKey[m.Key]++
		rr.Add(1)
		go func(m *c16Miss) {
			defer rr.Done()
			var again *c16Miss
			if m.Monitor == "m2" {
				again = c16RunHistory(r, c16GenHistory(r.Rand(fmt.Sprint("m2/", m.Index)), m.Index), true)
			} else {
				again = c16RunPair(r, c16GenPair(r.Rand(fmt.Sprint("m3/", m.Index)), m.Index), true)
			}
			if again != nil && again.Key == m.Key {
				r.Violation(again.Key, again.What+" (reproduced in an isolated re-run)", again.Witness)
			} else {
				r.Inconclusive("progress-miss-not-reproduced:" + m.Key)
			}
		}(m)
	}
	rr.Wait()

	r.Extra("wall_table_s", tTable.Seconds())
	r.Extra("histories", nHist)
	r.Extra("pairs", nPair)
	r.Require(int64(nHist*3), 60, "pair_with_send_errors", "table_cell", "script_run", "m2_recv_accept", "m2_recv_discard", "m2_recv_unjudged",
		"m2_expire", "m2_keepalive", "m3_recovered", "m3_stayed_up", "m3_timed_out", "m3_restored")
}

// c16Replay re-runs the history of a replay file (same seed required for
// generated cases; m1 scripts are deterministic and re-run by the table).
func c16Replay(r *mon.Run, path string) {
	b, err := os.ReadFile(path)
	if err != nil {
		fmt.Fprintln(os.Stderr, "replay:", err)
		os.Exit(2)
	}
	var f struct {
		Witness struct {
			Monitor string      `json:"monitor"`
			History *c16History `json:"history"`
			Pair    *c16Pair    `json:"pair"`
		} `json:"witness"`
	}
	if err := json.Unmarshal(b, &f); err != nil {
		fmt.Fprintln(os.Stderr, "replay:", err)
		os.Exit(2)
	}
	report := func(m *c16Miss) {
		if m != nil {
			r.Violation(m.Key, m.What, m.Witness)
		}
	}
	switch {
	case f.Witness.History != nil:
		report(c16RunHistory(r, *f.Witness.History, false))
	case f.Witness.Pair != nil:
		report(c16RunPair(r, *f.Witness.Pair, false))
	default:
		c16Table(r)
	}
	r.Sample(map[string]any{"replayed": path})
	r.Class("replay")
	r.Class("replay/" + path)
	r.Eval(1)
}
