// Command bfd serves the BFD session property (C16). Built with the race
// detector.
package main

import "verif/mon"

func main() {
	mon.Main(map[string]func(*mon.Run){
		"C16": checkC16,
	})
}
