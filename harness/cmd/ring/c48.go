package main

import (
	"encoding/json"
	"fmt"
	"math/rand/v2"
	"os"
	"runtime"
	"sort"
	"strings"
	"sync"
	"sync/atomic"
	"time"

	"github.com/anishathalye/porcupine"

	"github.com/scionproto/scion/private/ringbuf"

	"verif/mon"
)

// C48 — the ring buffer is a linearizable bounded FIFO queue.
//
// Randomised concurrent histories against the real private/ringbuf.Ring. Every
// entry carries a unique id. Call and return of every operation are stamped by
// one atomic logical clock at the client boundary. Oracles (none of them shares
// code with ringbuf):
//   - porcupine linearizability check against the bounded-FIFO sequential
//     model below (a blocking call is not enabled while it would block);
//   - direct monitors: FIFO order per id, at-most-once, no loss, no phantom,
//     count bounds, closure rules;
//   - release of blocked callers, decided on goroutine dumps (never on time):
//     a caller parked in sync.Cond.Wait inside ringbuf although the ring is
//     closed / has data / has space while nobody else can still wake it.

// ---------- generated program ----------

type c48Op struct {
	Kind  string `json:"op"`            // "W" write, "R" read, "C" close
	IDs   []int  `json:"ids,omitempty"` // W: the entries offered, in order
	K     int    `json:"k,omitempty"`   // R: length of the buffer offered
	Block bool   `json:"block,omitempty"`
	Yield int    `json:"yield,omitempty"` // runtime.Gosched() calls before the call
}

type c48Prog struct {
	Index   int       `json:"index"`
	Cap     int       `json:"cap"`
	Prefill bool      `json:"prefill"` // ring created full with pre-allocated entries
	Mix     string    `json:"mix"`
	Mode    string    `json:"mode"`    // closer: "yield" = close after its yields, "quiesce" = close once every other client finished or parked
	Clients [][]c48Op `json:"clients"` // client 0 performs the one Close
}

var c48Mixes = []struct {
	name           string
	pWrite, pBlock float64
}{
	{"balanced", 0.5, 0.5},
	{"wheavy", 0.72, 0.5},
	{"rheavy", 0.28, 0.5},
	{"blocking", 0.5, 0.92},
	{"nonblock", 0.5, 0},
}

func c48CapBucket(c int) string {
	switch {
	case c == 1:
		return "1"
	case c <= 3:
		return "2-3"
	case c <= 7:
		return "4-7"
	}
	return "8-16"
}

func genC48(rng *rand.Rand, index int) *c48Prog {
	p := &c48Prog{Index: index}
	switch rng.IntN(4) {
	case 0:
		p.Cap = 1
	case 1:
		p.Cap = 2 + rng.IntN(2)
	case 2:
		p.Cap = 4 + rng.IntN(4)
	default:
		p.Cap = 8 + rng.IntN(9)
	}
	g := 2 + rng.IntN(7)
	mix := c48Mixes[rng.IntN(len(c48Mixes))]
	p.Mix = mix.name
	p.Prefill = rng.IntN(5) == 0
	p.Mode = "yield"
	if rng.IntN(10) < 3 {
		p.Mode = "quiesce"
	}
	nextID := 1
	batch := func() int {
		switch x := rng.IntN(20); {
		case x == 0:
			return 0
		case x < 10:
			return 1 + rng.IntN(min(p.Cap+2, 20))
		default:
			return 1 + rng.IntN(20)
		}
	}
	genOp := func(nonBlock bool) c48Op {
		op := c48Op{Yield: rng.IntN(12)}
		if rng.IntN(4) == 0 {
			op.Yield = 0
		}
		op.Block = !nonBlock && rng.Float64() < mix.pBlock
		if rng.Float64() < mix.pWrite {
			op.Kind = "W"
			n := batch()
			op.IDs = make([]int, n)
			for i := range op.IDs {
				op.IDs[i] = nextID
				nextID++
			}
		} else {
			op.Kind = "R"
			op.K = batch()
		}
		return op
	}
	// Client 0 closes; before its Close it only issues non-blocking calls, so
	// the Close is always reached and every other client is eventually released.
	var c0 []c48Op
	for i := rng.IntN(4); i > 0; i-- {
		c0 = append(c0, genOp(true))
	}
	cl := c48Op{Kind: "C", Yield: rng.IntN(300)}
	if rng.IntN(5) == 0 {
		cl.Yield = 0
	}
	c0 = append(c0, cl)
	for i := rng.IntN(3); i > 0; i-- {
		c0 = append(c0, genOp(false))
	}
	p.Clients = append(p.Clients, c0)
	for c := 1; c < g; c++ {
		var ops []c48Op
		for i := 1 + rng.IntN(6); i > 0; i-- {
			ops = append(ops, genOp(false))
		}
		p.Clients = append(p.Clients, ops)
	}
	return p
}

// ---------- sequential specification (the oracle) ----------

// The abstract state is the stored sequence of ids (2 bytes each; the
// pre-allocated entries of a Prefill ring, whose mutual order no statement
// fixes, are all represented by the token 0) and the closed flag.
type c48State struct {
	q      string
	closed bool
}

type c48In struct {
	kind  byte
	ids   string
	k     int
	block bool
}

type c48Out struct {
	n   int
	ids string
}

func c48Enc(ids []int) string {
	b := make([]byte, 0, 2*len(ids))
	for _, id := range ids {
		if id < 0 {
			id = 0 // pre-allocated entry token
		}
		b = append(b, byte(id>>8), byte(id))
	}
	return string(b)
}

// c48Model: bounded FIFO of the given capacity.
//   - Write(ids, block): closed → -1. len(ids)==0 → 0 (after close -1 is accepted
//     too, the statement is silent). Full: non-blocking → 0, blocking → not enabled.
//     Otherwise 1 <= n <= min(free, len(ids)) and ids[:n] are appended.
//   - Read(k, block): k==0 → 0 (-1 accepted when closed and empty). Non-empty
//     (closed or not): 1 <= n <= min(stored, k) and exactly the n oldest entries
//     are returned. Empty: closed → -1, non-blocking → 0, blocking → not enabled.
//   - Close: sets closed.
func c48Model(capacity int, init string) porcupine.Model {
	return porcupine.Model{
		Init: func() any { return c48State{q: init} },
		Step: func(st, in, out any) (bool, any) {
			s := st.(c48State)
			i := in.(c48In)
			o := out.(c48Out)
			stored := len(s.q) / 2
			switch i.kind {
			case 'C':
				return true, c48State{q: s.q, closed: true}
			case 'W':
				l := len(i.ids) / 2
				if l == 0 {
					return o.n == 0 || (o.n == -1 && s.closed), s
				}
				if s.closed {
					return o.n == -1, s
				}
				free := capacity - stored
				if free <= 0 {
					if i.block {
						return false, s
					}
					return o.n == 0, s
				}
				if o.n < 1 || o.n > min(free, l) {
					return false, s
				}
				return true, c48State{q: s.q + i.ids[:2*o.n]}
			case 'R':
				if i.k == 0 {
					return o.n == 0 || (o.n == -1 && s.closed && stored == 0), s
				}
				if stored > 0 {
					if o.n < 1 || o.n > min(stored, i.k) || o.ids != s.q[:2*o.n] {
						return false, s
					}
					return true, c48State{q: s.q[2*o.n:], closed: s.closed}
				}
				if s.closed {
					return o.n == -1, s
				}
				if i.block {
					return false, s
				}
				return o.n == 0, s
			}
			return false, s
		},
	}
}

// ---------- execution and recording ----------

type c48Rec struct {
	Client  int   `json:"c"`
	Op      c48Op `json:"op"`
	Call    int64 `json:"call"`
	Ret     int64 `json:"ret"`
	N       int   `json:"n"`
	Got     []int `json:"got,omitempty"`
	Blocked bool  `json:"blocked,omitempty"`
	Overrun bool  `json:"overrun,omitempty"` // buffer touched beyond the returned count
}

const (
	c48KindNone = iota
	c48KindBlockR
	c48KindBlockW
	c48KindOther
)

type c48Exec struct {
	p        *c48Prog
	ring     *ringbuf.Ring
	ptr      string
	clock    atomic.Int64
	closeRet atomic.Int64
	finished []atomic.Bool
	curKind  []atomic.Int32
	written  atomic.Int64
	read     atomic.Int64
	recs     [][]c48Rec

	// set by client 0 in quiesce mode before it finishes
	quiesced       bool
	quiesceGiveUp  bool
	quiesceStored  int
	quiesceParkedR int
	quiesceParkedW int
}

const c48Phantom = -1 << 30

func (x *c48Exec) do(c int, op c48Op) c48Rec {
	rec := c48Rec{Client: c, Op: op}
	for i := 0; i < op.Yield; i++ {
		runtime.Gosched()
	}
	switch op.Kind {
	case "W":
		el := make(ringbuf.EntryList, len(op.IDs))
		for i, id := range op.IDs {
			el[i] = id
		}
		kind := int32(c48KindOther)
		if op.Block && len(el) > 0 {
			kind = c48KindBlockW
		}
		x.curKind[c].Store(kind)
		rec.Call = x.clock.Add(1)
		n, b := x.ring.Write(el, op.Block)
		rec.Ret = x.clock.Add(1)
		rec.N, rec.Blocked = n, b
		if n > 0 {
			x.written.Add(int64(n))
		}
		x.curKind[c].Store(c48KindNone)
	case "R":
		buf := make(ringbuf.EntryList, op.K)
		kind := int32(c48KindOther)
		if op.Block && op.K > 0 {
			kind = c48KindBlockR
		}
		x.curKind[c].Store(kind)
		rec.Call = x.clock.Add(1)
		n, b := x.ring.Read(buf, op.Block)
		rec.Ret = x.clock.Add(1)
		rec.N, rec.Blocked = n, b
		for i, v := range buf {
			if i < n {
				if id, ok := v.(int); ok {
					rec.Got = append(rec.Got, id)
				} else {
					rec.Got = append(rec.Got, c48Phantom)
				}
			} else if v != nil {
				rec.Overrun = true
			}
		}
		if n > 0 {
			x.read.Add(int64(n))
		}
		x.curKind[c].Store(c48KindNone)
	case "C":
		x.curKind[c].Store(c48KindOther)
		rec.Call = x.clock.Add(1)
		x.ring.Close()
		rec.Ret = x.clock.Add(1)
		x.closeRet.Store(rec.Ret)
		x.curKind[c].Store(c48KindNone)
	}
	return rec
}

// c48Parked returns how many goroutines are, at the instant of the dump,
// parked (state sync.Cond.Wait, i.e. not runnable) inside a Read or Write of
// the ring with the given address. runtime.Stack(all) stops the world, so the
// dump is one consistent snapshot.
func c48Parked(ptr string) int {
	buf := make([]byte, 1<<20)
	for {
		n := runtime.Stack(buf, true)
		if n < len(buf) {
			buf = buf[:n]
			break
		}
		buf = make([]byte, 2*len(buf))
	}
	count := 0
	for _, blk := range strings.Split(string(buf), "\n\n") {
		nl := strings.IndexByte(blk, '\n')
		if nl < 0 || !strings.Contains(blk[:nl], "[sync.Cond.Wait") {
			continue
		}
		if !strings.Contains(blk, "sync.(*Cond).Wait") {
			continue
		}
		if c48HasFrame(blk, "private/ringbuf.(*Ring).Read("+ptr) || c48HasFrame(blk, "private/ringbuf.(*Ring).Write("+ptr) {
			count++
		}
	}
	return count
}

func c48HasFrame(blk, frame string) bool {
	for off := 0; ; {
		i := strings.Index(blk[off:], frame)
		if i < 0 {
			return false
		}
		end := off + i + len(frame)
		if end >= len(blk) {
			return false
		}
		ch := blk[end]
		isHex := (ch >= '0' && ch <= '9') || (ch >= 'a' && ch <= 'f')
		if !isHex {
			return true
		}
		off = end
	}
}

func (x *c48Exec) unfinished(except int) int {
	u := 0
	for c := range x.finished {
		if c != except && !x.finished[c].Load() {
			u++
		}
	}
	return u
}

// waitQuiescent is run by client 0 before its Close in quiesce mode: it waits
// until every other client has finished or is parked inside a blocking ring
// call. The wait itself uses cheap flags and short sleeps only to decide when to
// look; quiescence is established by the goroutine dump alone.
func (x *c48Exec) waitQuiescent() {
	for attempt := 0; attempt < 40; attempt++ {
		ok := false
		for spin := 0; spin < 4000; spin++ {
			ok = true
			for c := 1; c < len(x.finished); c++ {
				if x.finished[c].Load() {
					continue
				}
				k := x.curKind[c].Load()
				if k != c48KindBlockR && k != c48KindBlockW {
					ok = false
					break
				}
			}
			if ok {
				break
			}
			if spin%8 == 7 {
				time.Sleep(20 * time.Microsecond)
			} else {
				runtime.Gosched()
			}
		}
		if !ok {
			break
		}
		u := x.unfinished(0) // read before the dump: can only shrink afterwards
		if u == 0 {
			x.quiesced = true
			return
		}
		if c48Parked(x.ptr) == u {
			// Everybody else is parked, nobody but this goroutine runs: the
			// counters are stable and complete.
			x.quiesced = true
			pre := 0
			if x.p.Prefill {
				pre = x.p.Cap
			}
			x.quiesceStored = pre + int(x.written.Load()) - int(x.read.Load())
			for c := 1; c < len(x.finished); c++ {
				if x.finished[c].Load() {
					continue
				}
				switch x.curKind[c].Load() {
				case c48KindBlockR:
					x.quiesceParkedR++
				case c48KindBlockW:
					x.quiesceParkedW++
				}
			}
			return
		}
		time.Sleep(100 * time.Microsecond)
	}
	x.quiesceGiveUp = true
}

type c48Witness struct {
	Prog    *c48Prog `json:"prog"`
	History []c48Rec `json:"history,omitempty"`
	Note    string   `json:"note"`
	Stuck   []string `json:"stuck,omitempty"`
}

const c48ReplayNote = "the history is the witness; the goroutine schedule cannot be replayed, --replay re-runs the generated program many times"

type c48Ctx struct {
	r       *mon.Run
	stop    atomic.Bool
	dumpOK  bool
	timeout time.Duration
}

// runHistory executes one generated program and judges the observed history.
func (cx *c48Ctx) runHistory(p *c48Prog) {
	r := cx.r
	var seq atomic.Int64
	var ring *ringbuf.Ring
	if p.Prefill {
		ring = ringbuf.New(p.Cap, func() any { return -int(seq.Add(1)) }, "verif_c48")
	} else {
		ring = ringbuf.New(p.Cap, nil, "verif_c48")
	}
	x := &c48Exec{p: p, ring: ring, ptr: fmt.Sprintf("%p", ring)}
	g := len(p.Clients)
	x.finished = make([]atomic.Bool, g)
	x.curKind = make([]atomic.Int32, g)
	x.recs = make([][]c48Rec, g)
	start := make(chan struct{})
	var wg sync.WaitGroup
	for c := 0; c < g; c++ {
		wg.Add(1)
		go func(c int) {
			defer wg.Done()
			<-start
			for _, op := range p.Clients[c] {
				if c == 0 && op.Kind == "C" && p.Mode == "quiesce" && cx.dumpOK {
					x.waitQuiescent()
				}
				x.recs[c] = append(x.recs[c], x.do(c, op))
			}
			x.finished[c].Store(true)
		}(c)
	}
	close(start)
	done := make(chan struct{})
	go func() { wg.Wait(); close(done) }()

	// Wait for every client. The timer only decides when to look at a dump.
	interval := 300 * time.Millisecond
	waited := time.Duration(0)
wait:
	for {
		select {
		case <-done:
			break wait
		case <-time.After(interval):
		}
		waited += interval
		interval = time.Second
		if x.closeRet.Load() != 0 && cx.dumpOK {
			u := x.unfinished(-1) // before the dump
			if u > 0 && c48Parked(x.ptr) == u {
				// Close has returned; every client that has not finished is
				// parked in sync.Cond.Wait inside this ring; nobody is left who
				// could wake them: they are never released.
				var stuck []string
				for c := range x.finished {
					if !x.finished[c].Load() {
						kind := map[int32]string{c48KindBlockR: "blocking Read", c48KindBlockW: "blocking Write"}[x.curKind[c].Load()]
						stuck = append(stuck, fmt.Sprintf("client %d parked in %s", c, kind))
					}
				}
				r.Eval(1)
				r.Event("history")
				r.Violation("C48:blocked-after-close",
					fmt.Sprintf("Close returned but %d caller(s) stay parked in sync.Cond.Wait inside ringbuf forever (cap %d, %d clients)", u, p.Cap, g),
					c48Witness{Prog: p, Note: c48ReplayNote, Stuck: stuck})
				cx.stop.Store(true)
				return
			}
		}
		if waited > 120*time.Second {
			r.Inconclusive("watchdog: clients neither finished nor provably parked")
			return
		}
	}

	// All clients returned. Drain: everything still stored must come out
	// before closure is reported.
	var hist []c48Rec
	for c := range x.recs {
		hist = append(hist, x.recs[c]...)
	}
	drainOK := false
	for i := 0; i < p.Cap+3; i++ {
		rec := x.do(g-1, c48Op{Kind: "R", K: p.Cap + 1})
		rec.Client = g
		hist = append(hist, rec)
		if rec.N == -1 {
			drainOK = true
			break
		}
	}
	sort.Slice(hist, func(i, j int) bool { return hist[i].Call < hist[j].Call })
	cx.judge(p, x, hist, drainOK)
}

type c48Entry struct {
	id         int
	w, r       int // index into hist of the write / read call (-1: pre-allocated / never read)
	wpos, rpos int
}

func (cx *c48Ctx) judge(p *c48Prog, x *c48Exec, hist []c48Rec, drainOK bool) {
	r := cx.r
	r.Eval(1)
	r.Event("history")
	wit := func() c48Witness { return c48Witness{Prog: p, History: hist, Note: c48ReplayNote} }
	viol := func(key, what string) { r.Violation(key, what, wit()) }

	var closeCall, closeRet int64
	for _, h := range hist {
		if h.Op.Kind == "C" {
			closeCall, closeRet = h.Call, h.Ret
		}
	}

	// --- direct monitors ---
	entries := map[int]*c48Entry{}
	var order []*c48Entry
	if p.Prefill {
		for i := 1; i <= p.Cap; i++ {
			e := &c48Entry{id: -i, w: -1, r: -1}
			entries[-i] = e
			order = append(order, e)
		}
	}
	totalWritten := len(order)
	sawBlocking, sawPending := false, false
	firstClosedRet := int64(0) // return stamp of the earliest-returning Read that reported closure
	for hi, h := range hist {
		if h.Blocked {
			sawBlocking = true
			if !h.Op.Block {
				viol("C48:blocked-flag", fmt.Sprintf("non-blocking %s reports that it blocked", h.Op.Kind))
			}
		}
		switch h.Op.Kind {
		case "W":
			r.Event("write")
			l := len(h.Op.IDs)
			if h.N < -1 || h.N > l || h.N > p.Cap {
				viol("C48:count-bound", fmt.Sprintf("Write of %d entries into capacity %d returned %d", l, p.Cap, h.N))
			}
			for i := 0; i < h.N && i < l; i++ {
				e := &c48Entry{id: h.Op.IDs[i], w: hi, wpos: i, r: -1}
				entries[e.id] = e
				order = append(order, e)
				totalWritten++
			}
			switch {
			case l == 0:
				r.Event("zero_len_call")
			case h.N == -1:
				if h.Blocked {
					r.Event("blocked_write_released_by_close")
				}
				if h.Call > closeRet && closeRet != 0 {
					r.Event("write_after_close_fails")
				}
			case h.N == 0:
				r.Event("nonblocking_write_full")
			case h.Blocked:
				r.Event("blocked_write_released_by_space")
			}
			if h.N == -1 && h.Ret < closeCall {
				viol("C48:closed-before-close", "Write reported closure before Close was called")
			}
			if closeRet != 0 && h.Call > closeRet && l > 0 && h.N != -1 {
				viol("C48:write-after-close", fmt.Sprintf("Write called after Close returned gave %d, not -1", h.N))
			}
		case "R":
			r.Event("read")
			if h.N < -1 || h.N > h.Op.K || h.N > p.Cap {
				viol("C48:count-bound", fmt.Sprintf("Read into %d slots from capacity %d returned %d", h.Op.K, p.Cap, h.N))
			}
			if h.Overrun {
				viol("C48:read-overrun", fmt.Sprintf("Read returned %d but touched the buffer beyond that", h.N))
			}
			switch {
			case h.Op.K == 0:
				r.Event("zero_len_call")
			case h.N == -1:
				r.Event("read_reports_closed")
				if h.Blocked {
					r.Event("blocked_read_released_by_close")
				}
				if firstClosedRet == 0 || h.Ret < firstClosedRet {
					firstClosedRet = h.Ret
				}
			case h.N == 0:
				r.Event("nonblocking_read_empty")
			default:
				if h.Blocked {
					r.Event("blocked_read_released_by_data")
				}
				if closeRet != 0 && h.Call > closeRet {
					sawPending = true
				}
			}
			if h.N == -1 && h.Ret < closeCall {
				viol("C48:closed-before-close", "Read reported closure before Close was called")
			}
		}
	}
	// reads: phantom / duplicate
	for hi, h := range hist {
		if h.Op.Kind != "R" {
			continue
		}
		for i, id := range h.Got {
			e, ok := entries[id]
			if !ok {
				what := fmt.Sprintf("Read returned entry %d that no Write had stored", id)
				if id == c48Phantom {
					what = fmt.Sprintf("Read counted slot %d of its buffer as transferred but left it nil / not an entry", i)
				}
				viol("C48:phantom-entry", what)
				continue
			}
			if e.r >= 0 {
				viol("C48:duplicate-read", fmt.Sprintf("entry %d was returned by two reads", id))
				continue
			}
			e.r, e.rpos = hi, i
		}
	}
	// closure must not be reported while entries remain: nothing may be read by
	// a call that starts after some Read has already returned -1.
	if firstClosedRet != 0 {
		for _, h := range hist {
			if h.Op.Kind == "R" && h.N > 0 && h.Call > firstClosedRet {
				viol("C48:closed-before-drained", fmt.Sprintf("a Read reported closure (returned at %d) although %d entries were still delivered by a later Read (called at %d)", firstClosedRet, h.N, h.Call))
				break
			}
		}
	}
	// no loss
	if drainOK {
		for _, e := range order {
			if e.r < 0 {
				viol("C48:lost-entry", fmt.Sprintf("entry %d was stored by a Write but never returned by any Read, including the drain after Close", e.id))
				break
			}
		}
	} else {
		viol("C48:drain-not-closed", "after Close and after all entries were read, non-blocking Reads still do not report closure")
	}
	// FIFO: a definitely written before b  =>  b not definitely read before a
	wBefore := func(a, b *c48Entry) bool {
		if a.w == -1 || b.w == -1 {
			return a.w == -1 && b.w != -1
		}
		if a.w == b.w {
			return a.wpos < b.wpos
		}
		return hist[a.w].Ret < hist[b.w].Call
	}
	rBefore := func(b, a *c48Entry) bool {
		if a.r < 0 || b.r < 0 {
			return false
		}
		if a.r == b.r {
			return b.rpos < a.rpos
		}
		return hist[b.r].Ret < hist[a.r].Call
	}
fifo:
	for _, a := range order {
		for _, b := range order {
			if a != b && wBefore(a, b) && rBefore(b, a) {
				viol("C48:fifo-order", fmt.Sprintf("entry %d was written before entry %d but read after it", a.id, b.id))
				break fifo
			}
		}
	}

	// release by data / space, judged at the dump-confirmed quiescent point
	if x.quiesced {
		r.Event("quiescent_point_judged")
		if x.quiesceParkedR > 0 {
			r.Event("quiescent_parked_reader")
			if x.quiesceStored > 0 {
				viol("C48:not-released-by-data", fmt.Sprintf("%d blocking Read(s) stay parked although %d entries are stored and no other call is in progress", x.quiesceParkedR, x.quiesceStored))
			}
		}
		if x.quiesceParkedW > 0 {
			r.Event("quiescent_parked_writer")
			if x.quiesceStored < p.Cap {
				viol("C48:not-released-by-space", fmt.Sprintf("%d blocking Write(s) stay parked although only %d of %d slots are used and no other call is in progress", x.quiesceParkedW, x.quiesceStored, p.Cap))
			}
		}
	} else if x.quiesceGiveUp {
		r.Event("quiescent_point_not_reached")
	}

	// --- linearizability ---
	ops := make([]porcupine.Operation, 0, len(hist))
	for _, h := range hist {
		in := c48In{kind: h.Op.Kind[0], block: h.Op.Block, k: h.Op.K, ids: c48Enc(h.Op.IDs)}
		out := c48Out{n: h.N, ids: c48Enc(h.Got)}
		ops = append(ops, porcupine.Operation{ClientId: h.Client, Input: in, Output: out, Call: h.Call, Return: h.Ret})
	}
	init := ""
	if p.Prefill {
		init = c48Enc(make([]int, p.Cap))
	}
	switch porcupine.CheckOperationsTimeout(c48Model(p.Cap, init), ops, cx.timeout) {
	case porcupine.Ok:
		r.Event("porcupine_ok")
	case porcupine.Illegal:
		r.Event("porcupine_illegal")
		viol("C48:not-linearizable", fmt.Sprintf("history of %d calls by %d clients on capacity %d has no linearization in the bounded-FIFO model", len(hist), len(p.Clients), p.Cap))
	default:
		r.Event("porcupine_timeout")
		r.Inconclusive("porcupine timeout")
	}

	// --- classes and coverage labels ---
	sawWrap := totalWritten > p.Cap
	if sawWrap {
		r.Event("index_wraparound")
	}
	if c48Straddle(p, hist) {
		r.Event("batch_straddles_end_of_slice")
	}
	if sawBlocking {
		r.Event("history_with_blocked_call")
	}
	if sawPending {
		r.Event("read_after_close_returns_entries")
	}
	if p.Prefill {
		r.Event("prefilled_ring")
	}
	r.Class(fmt.Sprintf("cap=%s/g=%d/%s/blocked=%v/wrap=%v/pending-at-close=%v",
		c48CapBucket(p.Cap), len(p.Clients), p.Mix, sawBlocking, sawWrap, sawPending))
	if r.WantSample() && p.Index%97 == 5 && len(hist) <= 14 {
		r.Sample(c48Witness{Prog: p, History: hist, Note: "sample"})
	}
}

// c48Straddle replays the transfers in order of their return stamps (which
// respects real-time order) on slot arithmetic only, and reports whether some
// batch crossed the end of the backing slice. Coverage label only.
func c48Straddle(p *c48Prog, hist []c48Rec) bool {
	h := append([]c48Rec(nil), hist...)
	sort.Slice(h, func(i, j int) bool { return h[i].Ret < h[j].Ret })
	w, rd := 0, 0
	for _, e := range h {
		if e.N < 2 {
			continue
		}
		switch e.Op.Kind {
		case "W":
			if w%p.Cap+e.N > p.Cap {
				return true
			}
			w += e.N
		case "R":
			if rd%p.Cap+e.N > p.Cap {
				return true
			}
			rd += e.N
		}
	}
	return false
}

// c48DumpSelfTest makes sure a goroutine parked in a blocking Read is
// recognised in the dump (the format of goroutine dumps is not an API).
func c48DumpSelfTest() bool {
	ring := ringbuf.New(1, nil, "verif_c48")
	ptr := fmt.Sprintf("%p", ring)
	done := make(chan struct{})
	go func() {
		ring.Read(make(ringbuf.EntryList, 1), true)
		close(done)
	}()
	ok := false
	for i := 0; i < 5000 && !ok; i++ {
		ok = c48Parked(ptr) == 1
		if !ok {
			time.Sleep(time.Millisecond)
		}
	}
	other := ringbuf.New(1, nil, "verif_c48")
	if c48Parked(fmt.Sprintf("%p", other)) != 0 {
		ok = false
	}
	ring.Close()
	<-done
	if c48Parked(ptr) != 0 {
		ok = false
	}
	return ok
}

func checkC48(r *mon.Run) {
	r.Rule = "one case = one concurrent history on a fresh ringbuf.Ring: capacity 1..16 (20% created pre-filled), 2..8 client goroutines, " +
		"1..6 calls each, batch sizes 0..20, blocking/non-blocking Read/Write per op-mix, PRNG-determined Gosched yields, exactly one Close by " +
		"client 0 (after PRNG yields, or at a goroutine-dump-confirmed quiescent point), then a drain; judged by porcupine against a bounded-FIFO " +
		"model plus direct monitors; class = capacity bucket x goroutines x op mix x saw-blocked-call x indices wrapped x entries delivered after Close"
	r.Assumptions = []string{
		"schedules are sampled by the Go scheduler on the available cores, not enumerated",
		"a short transfer (1 <= n < possible) is accepted by the model: the statement only bounds transfers from above",
		"the mutual order of pre-allocated entries of a pre-filled ring is not judged (no statement fixes it)",
		"parked callers are recognised from runtime.Stack text (self-tested at start)",
	}
	cx := &c48Ctx{r: r, timeout: 20 * time.Second}
	cx.dumpOK = c48DumpSelfTest()
	if cx.dumpOK {
		r.Event("dump_selftest_ok")
	} else {
		r.Inconclusive("goroutine dump self-test failed: release of blocked callers not judged")
	}

	total := r.Pick(6000, 200000)
	reps := 1
	first := 0
	if f := r.ReplayFile(); f != "" {
		var rp struct {
			Witness c48Witness `json:"witness"`
		}
		b, err := os.ReadFile(f)
		if err != nil || json.Unmarshal(b, &rp) != nil || rp.Witness.Prog == nil {
			fmt.Fprintf(os.Stderr, "C48: cannot read replay file %s\n", f)
			os.Exit(2)
		}
		first, total, reps = rp.Witness.Prog.Index, rp.Witness.Prog.Index+1, 2000
		r.Class("replay")
	}
	workers := min(runtime.GOMAXPROCS(0), 12)
	var next atomic.Int64
	next.Store(int64(first) * int64(reps))
	var wg sync.WaitGroup
	for w := 0; w < workers; w++ {
		wg.Add(1)
		go func() {
			defer wg.Done()
			for !cx.stop.Load() {
				i := int(next.Add(1) - 1)
				idx := i / reps
				if idx >= total {
					return
				}
				p := genC48(r.Rand(fmt.Sprintf("c48/%d", idx)), idx)
				cx.runHistory(p)
				if r.Violations() > 40 {
					cx.stop.Store(true)
				}
			}
		}()
	}
	wg.Wait()
	if r.ReplayFile() != "" {
		r.Require(1, 2, "history")
		return
	}
	r.Require(int64(total)*95/100, 120,
		"dump_selftest_ok", "history", "porcupine_ok", "index_wraparound", "batch_straddles_end_of_slice",
		"history_with_blocked_call", "blocked_read_released_by_data", "blocked_write_released_by_space",
		"blocked_read_released_by_close", "blocked_write_released_by_close", "write_after_close_fails",
		"read_after_close_returns_entries", "read_reports_closed", "nonblocking_write_full", "nonblocking_read_empty",
		"zero_len_call", "prefilled_ring", "quiescent_point_judged", "quiescent_parked_reader", "quiescent_parked_writer")
}
