// Command ring serves the ring-buffer property (C48).
package main

import "verif/mon"

func main() {
	mon.Main(map[string]func(*mon.Run){
		"C48": checkC48,
	})
}
