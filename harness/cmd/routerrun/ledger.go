package main

import (
	"fmt"
	"runtime"
	"sort"
	"strings"
	"sync"
	"sync/atomic"
	"unsafe"

	"github.com/scionproto/scion/router"
)

// The ownership ledger behind router.VerifPoolHook.
//
// Design constraint: the ledger must not introduce happens-before edges
// between goroutines that the router itself does not have, or it would hide
// from the race detector exactly the conflicting accesses C14 is about. There
// is therefore no global lock and no global atomic on the hot path: every
// packet has its own atomic state word (consecutive owners of one packet are
// ordered by the pool channel anyway), and all bookkeeping (stage sequence of
// the current life cycle, per-sequence counters) lives in the packet's own
// record and is written only by the goroutine that currently owns the packet.
// The records are merged by the main goroutine once the data plane is idle.

const (
	stUnknown uint32 = iota
	stFree
	stHeld
	stPutting // transient, inside the Put hook
)

const (
	tokRead  = 250 // filled by a ReadBatch
	tokWrite = 251 // handed to a WriteBatch
)

const (
	pktStructSize = 64
	pktBufSize    = router.VerifBufSize
)

type pktRec struct {
	state   atomic.Uint32
	inWrite atomic.Int32  // conn id + 1 currently writing this buffer
	fed     atomic.Uint64 // serial<<24 | len<<8 | class, set by the ReadBatch that filled it
	seq     atomic.Uint64 // stage tokens of the current life cycle, 8 bits each
	life    atomic.Uint64 // number of completed life cycles
	bufBase uintptr
	// bookkeeping of completed life cycles, guarded by mu (a per-packet lock:
	// it orders only goroutines that handle this very packet, which the pool
	// channel orders anyway)
	mu   sync.Mutex
	seqs map[uint64]uint32
	gets uint64
	puts uint64
	_    [32]byte // keep records of different packets on different cache lines
}

func (p *pktRec) addTok(t uint8) {
	s := p.seq.Load()
	if s>>56 != 0 {
		return
	}
	if t == tokWrite && uint8(s) == tokWrite && uint8(s>>8) == tokWrite && uint8(s>>16) == tokWrite {
		return // cap runs of writes
	}
	p.seq.Store(s<<8 | uint64(t))
}

type violation struct {
	Key     string `json:"key"`
	What    string `json:"what"`
	Witness any    `json:"witness"`
}

type ledger struct {
	seed     uint64
	capacity func() (int, int) // pool capacity and fill

	recs    atomic.Pointer[[]pktRec]
	base    uintptr // address of packet 0
	bufBase uintptr // address of buffer 0

	sites   sync.Map // [6]uintptr -> uint8 site id
	sitesMu sync.Mutex
	siteNm  []string // id -> name (id 0 unused)

	shutdown atomic.Bool // set right before Shutdown is called

	vmu     sync.Mutex
	emitNow func(violation)
	viols   []violation
	nviol   map[string]int
}

func newLedger(seed uint64, capacity func() (int, int)) *ledger {
	return &ledger{seed: seed, capacity: capacity, siteNm: []string{"?"}, nviol: map[string]int{}}
}

func (l *ledger) key(k string) string {
	if l.shutdown.Load() {
		return "C14:shutdown:" + k
	}
	return "C14:" + k
}

func (l *ledger) violate(key, what string, witness any) {
	l.vmu.Lock()
	defer l.vmu.Unlock()
	l.nviol[key]++
	if l.nviol[key] <= 3 {
		v := violation{Key: key, What: what, Witness: witness}
		l.viols = append(l.viols, v)
		if l.emitNow != nil {
			// report at once: the process may not live to see the next phase report
			l.emitNow(v)
		}
	}
}

func mix(x uint64) uint64 {
	x += 0x9e3779b97f4a7c15
	x = (x ^ (x >> 30)) * 0xbf58476d1ce4e5b9
	x = (x ^ (x >> 27)) * 0x94d049bb133111eb
	return x ^ (x >> 31)
}

var spinSink atomic.Uint64 // written only by perturb's spin; never read for decisions

// perturb widens the set of interleavings: a deterministic function of
// (seed, packet, life cycle, op) decides whether the calling stage yields or
// spins for a moment at the hand-over point.
func (l *ledger) perturb(idx int, life uint64, op int) {
	h := mix(l.seed ^ uint64(idx)<<40 ^ life<<2 ^ uint64(op))
	switch {
	case h%11 == 0:
		runtime.Gosched()
	case h%53 == 1:
		n := int(h>>20) % 3000
		var x uint64
		for i := 0; i < n; i++ {
			x += uint64(i) ^ h
		}
		if x == 42 {
			spinSink.Add(1)
		}
	case h%97 == 2:
		runtime.Gosched()
		runtime.Gosched()
		runtime.Gosched()
	}
}

// site identifies the router function that called PacketPool.Get/Put.
func (l *ledger) site() uint8 {
	var pcs [6]uintptr
	// skip Callers and site; the frames of the hook itself and of the pool
	// functions are skipped by name below (they may or may not be inlined)
	n := runtime.Callers(2, pcs[:])
	if v, ok := l.sites.Load(pcs); ok {
		return v.(uint8)
	}
	name := "unknown"
	fr := runtime.CallersFrames(pcs[:n])
	for {
		f, more := fr.Next()
		fn := f.Function
		if fn != "" && !strings.HasPrefix(fn, "main.") && !strings.Contains(fn, "PacketPool).") &&
			!strings.Contains(fn, "verifPool") {
			fn = strings.TrimPrefix(fn, "github.com/scionproto/scion/")
			fn = strings.TrimPrefix(fn, "router/underlayproviders/")
			name = fmt.Sprintf("%s:%d", fn, f.Line)
			break
		}
		if !more {
			break
		}
	}
	l.sitesMu.Lock()
	defer l.sitesMu.Unlock()
	for i, s := range l.siteNm {
		if s == name {
			l.sites.Store(pcs, uint8(i))
			return uint8(i)
		}
	}
	if len(l.siteNm) >= 240 {
		return 0
	}
	l.siteNm = append(l.siteNm, name)
	id := uint8(len(l.siteNm) - 1)
	l.sites.Store(pcs, id)
	return id
}

func (l *ledger) siteName(id uint8) string {
	switch id {
	case tokRead:
		return "READ"
	case tokWrite:
		return "WRITE"
	}
	l.sitesMu.Lock()
	defer l.sitesMu.Unlock()
	if int(id) < len(l.siteNm) {
		return l.siteNm[id]
	}
	return "?"
}

func (l *ledger) seqString(s uint64) string {
	var toks []string
	for i := 7; i >= 0; i-- {
		t := uint8(s >> (8 * uint(i)))
		if t == 0 {
			continue
		}
		toks = append(toks, l.siteName(t))
	}
	return strings.Join(toks, " > ")
}

func (l *ledger) rec(pkt *router.Packet) (*pktRec, int) {
	rp := l.recs.Load()
	if rp == nil {
		return nil, -1
	}
	off := uintptr(unsafe.Pointer(pkt)) - l.base
	idx := int(off / pktStructSize)
	if uintptr(unsafe.Pointer(pkt)) < l.base || off%pktStructSize != 0 || idx >= len(*rp) {
		return nil, -1
	}
	return &(*rp)[idx], idx
}

// recOfBuf maps an address inside a packet buffer to the packet's record.
func (l *ledger) recOfBuf(b []byte) (*pktRec, int) {
	rp := l.recs.Load()
	if rp == nil || cap(b) == 0 {
		return nil, -1
	}
	a := uintptr(unsafe.Pointer(unsafe.SliceData(b)))
	if a < l.bufBase {
		return nil, -1
	}
	idx := int((a - l.bufBase) / pktBufSize)
	if idx >= len(*rp) {
		return nil, -1
	}
	r := &(*rp)[idx]
	if a < r.bufBase || a >= r.bufBase+pktBufSize {
		return nil, -1
	}
	return r, idx
}

// hook is installed as router.VerifPoolHook.
func (l *ledger) hook(op int, pkt *router.Packet) {
	if l.recs.Load() == nil {
		// First call: initPacketPool's first Put, on the goroutine that runs
		// dataPlane.Run, before any other goroutine of the data plane exists.
		c, _ := l.capacity()
		recs := make([]pktRec, c)
		l.base = uintptr(unsafe.Pointer(pkt))
		l.bufBase = uintptr(unsafe.Pointer(unsafe.SliceData(pkt.RawPacket)))
		l.recs.Store(&recs)
	}
	r, idx := l.rec(pkt)
	if r == nil {
		l.violate(l.key("foreign-packet"), fmt.Sprintf("pool op %d on a packet that is not one of the pool's %d packets", op, len(*l.recs.Load())), nil)
		return
	}
	site := l.site()
	switch op {
	case 1: // Put, before the packet enters the pool
		if r.state.Load() == stUnknown {
			// registration by initPacketPool (single goroutine, before the
			// data plane's goroutines exist)
			r.mu.Lock()
			r.bufBase = uintptr(unsafe.Pointer(unsafe.SliceData(pkt.RawPacket)))
			r.seqs = map[uint64]uint32{}
			r.mu.Unlock()
			r.state.Store(stFree)
			return
		}
		if !r.state.CompareAndSwap(stHeld, stPutting) {
			l.violate(l.key("double-put"),
				fmt.Sprintf("Put of a packet that is not held (ledger state %d: 1=free 3=being put): returned twice", r.state.Load()),
				map[string]any{"packet": idx, "put_site": l.siteName(site), "life_cycle_so_far": l.seqString(r.seq.Load()),
					"completed_life_cycles": r.life.Load()})
			return
		}
		if w := r.inWrite.Load(); w != 0 {
			l.violate(l.key("put-during-write"),
				"packet returned to the pool while a WriteBatch on its buffer is in progress",
				map[string]any{"packet": idx, "put_site": l.siteName(site), "conn": w - 1})
		}
		r.addTok(site)
		r.mu.Lock()
		r.seqs[r.seq.Load()]++
		r.puts++
		r.mu.Unlock()
		r.seq.Store(0)
		r.fed.Store(0)
		life := r.life.Add(1)
		r.state.Store(stFree)
		l.perturb(idx, life, 1)
	case 0: // Get, after the packet left the pool
		if !r.state.CompareAndSwap(stFree, stHeld) {
			l.violate(l.key("get-held"),
				fmt.Sprintf("pool handed out a packet that is not free (ledger state %d: 2=held)", r.state.Load()),
				map[string]any{"packet": idx, "get_site": l.siteName(site), "life_cycle_of_holder": l.seqString(r.seq.Load())})
			return
		}
		r.mu.Lock()
		r.gets++
		r.mu.Unlock()
		r.seq.Store(uint64(site))
		l.perturb(idx, r.life.Load(), 0)
	}
}

// ledgerSummary is what the main goroutine extracts once the data plane is idle.
type ledgerSummary struct {
	Capacity  int               `json:"capacity"`
	Gets      uint64            `json:"gets"`
	Puts      uint64            `json:"puts"`
	Held      []int             `json:"held"`
	HeldLife  map[int]uint64    `json:"-"`
	Free      int               `json:"free"`
	Seqs      map[string]uint64 `json:"seqs"`
	HeldSeqs  map[int]string    `json:"-"`
	Anomalies int               `json:"anomalies"`
}

// summarize reads the ledger. While BFD sessions (or anything else) are still
// active the result is not a consistent cut; see stableCut.
func (l *ledger) summarize() ledgerSummary {
	s := ledgerSummary{Seqs: map[string]uint64{}, HeldSeqs: map[int]string{}, HeldLife: map[int]uint64{}}
	rp := l.recs.Load()
	if rp == nil {
		return s
	}
	s.Capacity = len(*rp)
	for i := range *rp {
		r := &(*rp)[i]
		life := r.life.Load()
		switch r.state.Load() {
		case stFree:
			s.Free++
		case stHeld:
			s.Held = append(s.Held, i)
			s.HeldSeqs[i] = l.seqString(r.seq.Load())
			s.HeldLife[i] = life
		default:
			s.Anomalies++
		}
		r.mu.Lock()
		s.Gets += r.gets
		s.Puts += r.puts
		for k, n := range r.seqs {
			s.Seqs[l.seqString(k)] += uint64(n)
		}
		r.mu.Unlock()
	}
	sort.Ints(s.Held)
	return s
}

func (l *ledger) violations() ([]violation, map[string]int) {
	l.vmu.Lock()
	defer l.vmu.Unlock()
	m := map[string]int{}
	for k, v := range l.nviol {
		m[k] = v
	}
	return append([]violation(nil), l.viols...), m
}
