package main

import (
	"runtime"
	"strings"
)

// Idle detection without clocks: a consistent snapshot of all goroutines
// (runtime.Stack stops the world) in which every goroutine of the data plane
// is blocked at the head of its loop proves that all queues are empty and that
// no stage holds a packet except the receivers, which hold exactly the
// buffers they handed to the blocked ReadBatch.

type roleCount struct {
	Processors, SlowPath, Senders, Receivers, InternalProc, BFD int
}

// starved counts goroutines blocked in PacketPool.Get on an empty pool.
type starvedCount struct {
	Receivers, BFD int
}

type idleSnap struct {
	Idle  roleCount // goroutines found blocked at their loop head
	Busy  roleCount // goroutines of that role found anywhere else
	Other int
	// Starved: receivers / BFD senders blocked inside PacketPool.Get (they are
	// counted neither idle nor busy).
	Starved starvedCount
	// BusyWhere lists "role: state @ top frame" of the busy ones (diagnostics).
	BusyWhere []string
}

func snapshotGoroutines() idleSnap {
	buf := make([]byte, 1<<20)
	for {
		n := runtime.Stack(buf, true)
		if n < len(buf) {
			buf = buf[:n]
			break
		}
		buf = make([]byte, 2*len(buf))
	}
	var s idleSnap
	for _, g := range strings.Split(string(buf), "\n\n") {
		lines := strings.Split(g, "\n")
		if len(lines) < 2 || !strings.HasPrefix(lines[0], "goroutine ") {
			continue
		}
		state := ""
		if i := strings.Index(lines[0], "["); i >= 0 {
			state = lines[0][i+1:]
			if j := strings.IndexAny(state, ",]"); j >= 0 {
				state = state[:j]
			}
		}
		top := lines[1]
		if i := strings.LastIndex(top, "("); i > 0 {
			top = top[:i]
		}
		has := func(sub string) bool {
			for i := 1; i < len(lines); i += 1 {
				if strings.HasPrefix(lines[i], "\t") {
					continue
				}
				if strings.Contains(lines[i], sub) {
					return true
				}
			}
			return false
		}
		note := func(role string, idle bool, ci, cb *int) {
			if idle {
				*ci++
			} else {
				*cb++
				s.BusyWhere = append(s.BusyWhere, role+": "+state+" @ "+top)
			}
		}
		switch {
		case has("router.(*dataPlane).runProcessor("):
			note("processor", state == "chan receive" && strings.HasSuffix(top, "router.(*dataPlane).runProcessor"),
				&s.Idle.Processors, &s.Busy.Processors)
		case has("router.(*dataPlane).runSlowPathProcessor("):
			note("slowpath", state == "chan receive" && strings.HasSuffix(top, "router.(*dataPlane).runSlowPathProcessor"),
				&s.Idle.SlowPath, &s.Busy.SlowPath)
		case has("udpip.(*udpConnection).send("):
			// the only blocking point of the send loop is the blocking read of
			// its queue in readUpTo (a plain receive, or a select if the queue
			// read is combined with a stop channel)
			note("sender", (state == "chan receive" || state == "select") &&
				(strings.HasSuffix(top, "udpip.readUpTo") || strings.HasSuffix(top, "udpip.(*udpConnection).send")),
				&s.Idle.Senders, &s.Busy.Senders)
		case has("udpip.(*udpConnection).receive(") && state == "chan receive" && strings.HasSuffix(top, "router.(*PacketPool).Get"):
			s.Starved.Receivers++
		case has("bfd.(*Session).Run(") && state == "chan receive" && strings.HasSuffix(top, "router.(*PacketPool).Get"):
			s.Starved.BFD++
		case has("udpip.(*udpConnection).receive("):
			note("receiver", state == "chan receive" && strings.HasSuffix(top, "main.(*fconn).park"),
				&s.Idle.Receivers, &s.Busy.Receivers)
		case has("udpip.(*internalLink).runProcessor("):
			note("internalproc", state == "select" && strings.HasSuffix(top, "udpip.(*internalLink).runProcessor"),
				&s.Idle.InternalProc, &s.Busy.InternalProc)
		case has("bfd.(*Session).Run("):
			note("bfd", state == "select" && strings.HasSuffix(top, "bfd.(*Session).Run"),
				&s.Idle.BFD, &s.Busy.BFD)
		default:
			s.Other++
		}
	}
	return s
}
