package main

import (
	"context"
	"encoding/binary"
	"fmt"
	"math/rand/v2"
	"net"
	"net/netip"
	"sort"
	"strings"
	"sync"
	"sync/atomic"
	"time"

	"github.com/scionproto/scion/pkg/addr"
	"github.com/scionproto/scion/pkg/log"
	"github.com/scionproto/scion/private/topology"
	"github.com/scionproto/scion/private/underlay/conn"
	"github.com/scionproto/scion/router"
	"github.com/scionproto/scion/router/bfd"

	"verif/mon"
	"verif/rfix"
)

// C15: three running data planes (A0, A1 of AS A; B0 of AS B) joined by
// in-memory wires that carry only BFD (everything else the routers emit is
// observed and swallowed), each wire with a "cut" switch. The routers' real
// BFD sessions run over the real bfdSend path. Probe packets are injected
// through ReadBatch and their fate is observed at WriteBatch.

var c15Magic = [4]byte{'C', '1', '5', 0xa5}

type dgram struct {
	b    []byte
	addr *net.UDPAddr
}

type wire struct {
	name      string
	cut       atomic.Bool
	bfd       bool
	delivered atomic.Int64 // BFD datagrams carried
	dropped   atomic.Int64 // BFD datagrams dropped because cut
}

type emission struct {
	Router string `json:"router"`
	Via    string `json:"via"`  // ext:<if> | sib:<k> | host
	Kind   string `json:"kind"` // fwd | scmp
	Type   uint8  `json:"scmp_type,omitempty"`
	Code   uint8  `json:"scmp_code,omitempty"`
	IA     uint64 `json:"scmp_ia,omitempty"`
	IfA    uint64 `json:"scmp_if_a,omitempty"`
	IfB    uint64 `json:"scmp_if_b,omitempty"`
	Hex    string `json:"hex,omitempty"`
}

type wconn struct {
	w             *c15World
	rt            *c15Router
	name          string
	local, remote netip.AddrPort
	in            chan dgram
	closed        chan struct{}
	once          sync.Once
	peer          *wconn
	wire          *wire
	self          *net.UDPAddr // this conn's local address as seen by the peer
	overflow      atomic.Int64
	// stall, when set, holds every WriteBatch of this connection until the
	// channel is closed (a slow or blocked socket).
	stall atomic.Pointer[chan struct{}]
}

func (c *wconn) ReadBatch(msgs conn.Messages) (int, error) {
	var d dgram
	select {
	case d = <-c.in:
	case <-c.closed:
		return 0, errConnClosed
	}
	n := 0
	for {
		msgs[n].N = copy(msgs[n].Buffers[0], d.b)
		msgs[n].Addr = d.addr
		n++
		if n == len(msgs) {
			return n, nil
		}
		select {
		case d = <-c.in:
		default:
			return n, nil
		}
	}
}

func (c *wconn) push(d dgram) {
	select {
	case c.in <- d:
	default:
		c.overflow.Add(1)
	}
}

func (c *wconn) WriteBatch(msgs conn.Messages, _ int) (int, error) {
	if ch := c.stall.Load(); ch != nil {
		select {
		case <-*ch:
		case <-c.closed:
		}
	}
	for i := range msgs {
		b := msgs[i].Buffers[0]
		dst, wr, via := c.peer, c.wire, c.name
		if c.peer == nil { // unconnected internal socket: route by destination address
			dst, wr, via = nil, nil, "host"
			if a, ok := msgs[i].Addr.(*net.UDPAddr); ok && a != nil {
				ap := a.AddrPort()
				ap = netip.AddrPortFrom(ap.Addr().Unmap(), ap.Port())
				if o := c.rt.as.internal[ap]; o != nil && o != c {
					dst, wr = o, c.rt.as.sibWire
					via = fmt.Sprintf("sib:%d", o.rt.idx)
				}
			}
		}
		if len(b) > 4 && b[4] == 203 { // BFD: the only traffic the wires carry
			if dst == nil || wr == nil {
				continue
			}
			if wr.cut.Load() {
				wr.dropped.Add(1)
				continue
			}
			wr.delivered.Add(1)
			dst.push(dgram{b: append([]byte(nil), b...), addr: c.self})
			continue
		}
		c.w.observe(c.rt, via, b)
	}
	return len(msgs), nil
}

func (c *wconn) Close() error {
	c.once.Do(func() { close(c.closed) })
	return nil
}

type c15AS struct {
	ia       addr.IA
	key      []byte
	internal map[netip.AddrPort]*wconn // internal conns of the AS's routers by address
	sibWire  *wire
}

type c15Router struct {
	name   string
	idx    int
	as     *c15AS
	star   *rfix.Star
	conns  []*wconn
	byNm   map[string]*wconn
	ifs    map[uint16]rfix.IfSpec
	cancel context.CancelFunc
}

type probeTmpl struct {
	rt      *c15Router
	b       []byte
	in      *wconn
	src     *net.UDPAddr
	inIf    uint16 // AS-level ingress interface (0: from a host)
	inKind  string // ext | host | sibling
	egIf    uint16
	egScope string // external | sibling
	desc    string
}

type c15World struct {
	r       *mon.Run
	id      int
	reuse   bool
	sibBFD  bool
	bfdMs   int
	routers []*c15Router
	wires   []*wire
	probes  []*probeTmpl

	mu     sync.Mutex
	emis   map[uint64][]emission
	notify chan struct{}
	serial uint64

	stats map[string]int64

	stopFlood atomic.Bool
	flooded   atomic.Int64
}

func (w *c15World) observe(rt *c15Router, via string, b []byte) {
	var ser uint64
	var em emission
	found := false
	tail := func(p []byte) (uint64, bool) {
		if len(p) >= 12 && string(p[len(p)-12:len(p)-8]) == string(c15Magic[:]) {
			return binary.BigEndian.Uint64(p[len(p)-8:]), true
		}
		return 0, false
	}
	if len(b) > 4 && b[4] == 202 {
		m := rfix.ParseSCMP(b)
		if m.OK && m.Quote != nil {
			if s, ok := tail(m.Quote); ok {
				ser, found = s, true
				em = emission{Kind: "scmp", Type: m.Type, Code: m.Code, IA: m.IA, IfA: m.IfA, IfB: m.IfB}
			}
		}
	} else if s, ok := tail(b); ok {
		ser, found = s, true
		em = emission{Kind: "fwd"}
	}
	if !found {
		return
	}
	em.Router, em.Via = rt.name, via
	if len(b) <= 400 {
		em.Hex = mon.Hex(b)
	}
	w.mu.Lock()
	w.emis[ser] = append(w.emis[ser], em)
	w.mu.Unlock()
	select {
	case w.notify <- struct{}{}:
	default:
	}
}

// await waits for the first emission that carries the serial.
func (w *c15World) await(ser uint64, watchdog time.Duration) ([]emission, bool) {
	deadline := time.NewTimer(watchdog)
	defer deadline.Stop()
	for {
		w.mu.Lock()
		e := append([]emission(nil), w.emis[ser]...)
		w.mu.Unlock()
		if len(e) > 0 {
			return e, true
		}
		select {
		case <-w.notify:
		case <-time.After(2 * time.Millisecond):
		case <-deadline.C:
			return nil, false
		}
	}
}

type c15Opener struct {
	rt    *c15Router
	w     *c15World
	reuse bool
}

func (o *c15Opener) Open(l, r netip.AddrPort, _ *conn.Config) (router.BatchConn, error) {
	c := &wconn{w: o.w, rt: o.rt, local: l, remote: r, in: make(chan dgram, 1024), closed: make(chan struct{})}
	c.self = net.UDPAddrFromAddrPort(l)
	o.rt.conns = append(o.rt.conns, c)
	return c, nil
}
func (o *c15Opener) UDPCanReuseLocal() bool { return o.reuse }

func distinctIfs(rng *rand.Rand, n int) []uint16 {
	used := map[uint16]bool{0: true}
	var out []uint16
	for len(out) < n {
		var v uint16
		if rng.IntN(2) == 0 {
			v = uint16(1 + rng.IntN(60))
		} else {
			v = uint16(1 + rng.IntN(65535))
		}
		if !used[v] {
			used[v] = true
			out = append(out, v)
		}
	}
	return out
}

func buildC15World(r *mon.Run, rng *rand.Rand, id int) (*c15World, error) {
	w := &c15World{r: r, id: id, reuse: rng.IntN(2) == 0, sibBFD: rng.IntN(4) != 0, bfdMs: 25 + rng.IntN(30),
		emis: map[uint64][]emission{}, notify: make(chan struct{}, 1), stats: map[string]int64{}}
	// the seed is part of the AS numbers: metric label sets (global registry) stay distinct per world
	iaA := addr.MustIAFrom(1, addr.AS(0xff00_0000_0000+uint64(r.Seed%200)<<16+uint64(2*id+0x100)))
	iaB := addr.MustIAFrom(2, addr.AS(0xff00_0000_0000+uint64(r.Seed%200)<<16+uint64(2*id+0x101)))
	mkKey := func() []byte {
		k := make([]byte, 16)
		for i := range k {
			k[i] = byte(rng.IntN(256))
		}
		return k
	}
	asA := &c15AS{ia: iaA, key: mkKey(), internal: map[netip.AddrPort]*wconn{}, sibWire: &wire{name: "A0<->A1 sibling", bfd: w.sibBFD}}
	asB := &c15AS{ia: iaB, key: mkKey(), internal: map[netip.AddrPort]*wconn{}}
	xa := distinctIfs(rng, 4) // x1 x2 x3 (A0), z1 (A1)
	yb := distinctIfs(rng, 4) // y1..y4 (B0)
	x1, x2, x3, z1 := xa[0], xa[1], xa[2], xa[3]
	z1BFD := rng.IntN(2) == 0
	ext := func(id uint16, rem addr.IA, bfd bool) rfix.IfSpec {
		return rfix.IfSpec{ID: id, LinkTo: topology.Core, Remote: rem, Owned: true, BFD: bfd, MTU: 1400}
	}
	sib := func(id uint16, rem addr.IA, k int) rfix.IfSpec {
		return rfix.IfSpec{ID: id, LinkTo: topology.Core, Remote: rem, Owned: false, Sibling: k, BFD: w.sibBFD, MTU: 1400}
	}
	type rdef struct {
		name string
		as   *c15AS
		idx  int
		ifs  []rfix.IfSpec
	}
	defs := []rdef{
		{"A0", asA, 0, []rfix.IfSpec{ext(x1, iaB, true), ext(x2, iaB, false), ext(x3, iaB, true), sib(z1, iaB, 1)}},
		{"A1", asA, 1, []rfix.IfSpec{ext(z1, iaB, z1BFD), sib(x1, iaB, 0), sib(x2, iaB, 0), sib(x3, iaB, 0)}},
		{"B0", asB, 0, []rfix.IfSpec{ext(yb[0], iaA, true), ext(yb[1], iaA, false), ext(yb[2], iaA, true), ext(yb[3], iaA, z1BFD)}},
	}
	for _, d := range defs {
		rt := &c15Router{name: d.name, idx: d.idx, as: d.as, byNm: map[string]*wconn{}, ifs: map[uint16]rfix.IfSpec{}}
		for _, f := range d.ifs {
			rt.ifs[f.ID] = f
		}
		s, err := rfix.NewStarRun(rfix.StarCfg{
			IA: d.as.ia, HopKey: d.as.key, Ifs: d.ifs, ReuseLocal: w.reuse, RouterIndex: d.idx,
			RangeSet: true, PortStart: 31000, PortEnd: 32767,
			Opener: &c15Opener{rt: rt, w: w, reuse: w.reuse},
		}, rfix.RunCfg{NumProcessors: 2, NumSlowPathProcessors: 1, BatchSize: 8, BFDDetectMult: 3,
			BFDDesiredMinTx: time.Duration(w.bfdMs) * time.Millisecond, BFDRequiredMinRx: time.Duration(w.bfdMs) * time.Millisecond})
		if err != nil {
			return nil, fmt.Errorf("%s: %w", d.name, err)
		}
		rt.star = s
		for _, c := range rt.conns {
			switch {
			case !c.remote.IsValid():
				c.name = "int"
				d.as.internal[c.local] = c
			default:
				for _, f := range d.ifs {
					if f.Owned && rfix.ExtRemoteAddr(f.ID) == c.remote {
						c.name = fmt.Sprintf("ext:%d", f.ID)
					}
				}
				if c.name == "" {
					for k := 0; k <= 2; k++ {
						if rfix.SiblingAddr(k) == c.remote {
							c.name = fmt.Sprintf("sib:%d", k)
						}
					}
				}
			}
			rt.byNm[c.name] = c
		}
		w.routers = append(w.routers, rt)
	}
	a0, a1, b0 := w.routers[0], w.routers[1], w.routers[2]
	join := func(ra *c15Router, ia uint16, rb *c15Router, ib uint16, bfd bool) error {
		ca, cb := ra.byNm[fmt.Sprintf("ext:%d", ia)], rb.byNm[fmt.Sprintf("ext:%d", ib)]
		if ca == nil || cb == nil {
			return fmt.Errorf("no conn for %s.%d / %s.%d", ra.name, ia, rb.name, ib)
		}
		wr := &wire{name: fmt.Sprintf("%s.%d<->%s.%d", ra.name, ia, rb.name, ib), bfd: bfd}
		ca.peer, cb.peer, ca.wire, cb.wire = cb, ca, wr, wr
		w.wires = append(w.wires, wr)
		return nil
	}
	for _, e := range []error{join(a0, x1, b0, yb[0], true), join(a0, x2, b0, yb[1], false), join(a0, x3, b0, yb[2], true), join(a1, z1, b0, yb[3], z1BFD)} {
		if e != nil {
			return nil, e
		}
	}
	w.wires = append(w.wires, asA.sibWire)
	if w.reuse {
		c01, c10 := a0.byNm["sib:1"], a1.byNm["sib:0"]
		if c01 == nil || c10 == nil {
			return nil, fmt.Errorf("sibling conns missing")
		}
		c01.peer, c10.peer, c01.wire, c10.wire = c10, c01, asA.sibWire, asA.sibWire
	}
	// --- probe templates ---
	type combo struct {
		rt     *c15Router
		in, eg uint16 // in == 0: from a host
	}
	combos := []combo{
		{a0, x2, x1}, {a0, x2, x3}, {a0, 0, x1}, {a0, 0, x3}, {a0, x1, x2}, {a0, x3, x2}, {a0, 0, x2},
		{a0, x2, z1}, {a0, x1, z1}, {a0, x3, x1},
		{a1, x1, z1}, {a1, x2, z1}, {a1, 0, z1}, {a1, z1, x1}, {a1, z1, x2},
		{b0, yb[1], yb[0]}, {b0, 0, yb[0]}, {b0, yb[0], yb[1]}, {b0, yb[1], yb[2]}, {b0, 0, yb[3]},
	}
	now := time.Now().Unix()
	for _, cb := range combos {
		got := 0
		for try := 0; try < 4000 && got < 3; try++ {
			sh := rfix.ShTransit
			if cb.in == 0 {
				sh = rfix.ShSrc
			}
			sc := cb.rt.star.GenScenario(rng, sh, now)
			if sc.InIf != cb.in || sc.EgIf != cb.eg || sc.EgIf == 0 {
				continue
			}
			b, err := sc.Packet(rng, func(p *rfix.PktSpec) {
				p.L4 = rfix.L4UDP
				p.Payload = make([]byte, 12+rng.IntN(100))
				for i := range p.Payload {
					p.Payload[i] = byte(rng.IntN(256))
				}
			})
			if err != nil {
				continue
			}
			pt := &probeTmpl{rt: cb.rt, b: b, inIf: cb.in, egIf: cb.eg}
			switch {
			case cb.in == 0:
				pt.in, pt.src, pt.inKind = cb.rt.byNm["int"], sc.In.Src, "host"
			case cb.rt.ifs[cb.in].Owned:
				a := rfix.ExtRemoteAddr(cb.in)
				pt.in, pt.src, pt.inKind = cb.rt.byNm[fmt.Sprintf("ext:%d", cb.in)], net.UDPAddrFromAddrPort(a), "ext"
			default:
				k := cb.rt.ifs[cb.in].Sibling
				pt.src, pt.inKind = net.UDPAddrFromAddrPort(rfix.SiblingAddr(k)), "sibling"
				if w.reuse {
					pt.in = cb.rt.byNm[fmt.Sprintf("sib:%d", k)]
				} else {
					pt.in = cb.rt.byNm["int"]
				}
			}
			if pt.in == nil {
				return nil, fmt.Errorf("no ingress conn for %s in=%d", cb.rt.name, cb.in)
			}
			pt.egScope = "external"
			if !cb.rt.ifs[cb.eg].Owned {
				pt.egScope = "sibling"
			}
			pt.desc = fmt.Sprintf("%s %s(if %d)->%s(if %d) kinds=%v", cb.rt.name, pt.inKind, cb.in, pt.egScope, cb.eg, sc.Kinds)
			w.probes = append(w.probes, pt)
			got++
		}
		if got == 0 {
			return nil, fmt.Errorf("no probe for %s in=%d eg=%d", cb.rt.name, cb.in, cb.eg)
		}
	}
	return w, nil
}

func (w *c15World) start() {
	for _, rt := range w.routers {
		ctx, cancel := context.WithCancel(context.Background())
		rt.cancel = cancel
		go func(rt *c15Router) {
			_ = rt.star.C.DataPlane.Run(ctx)
		}(rt)
	}
}

// sessions returns every BFD session of the world with the wire it runs over.
type sessRef struct {
	rt   *c15Router
	ifID uint16
	s    *bfd.Session
	wire *wire
}

func (w *c15World) sessions() []sessRef {
	var out []sessRef
	for _, rt := range w.routers {
		seen := map[*bfd.Session]bool{}
		ids := make([]int, 0, len(rt.ifs))
		for id := range rt.ifs {
			ids = append(ids, int(id))
		}
		sort.Ints(ids)
		for _, id := range ids {
			f := rt.ifs[uint16(id)]
			l := rt.star.Link(f.ID)
			if l == nil || l.BFDSession() == nil || seen[l.BFDSession()] {
				continue
			}
			seen[l.BFDSession()] = true
			var wr *wire
			if f.Owned {
				if c := rt.byNm[fmt.Sprintf("ext:%d", f.ID)]; c != nil {
					wr = c.wire
				}
			} else {
				wr = rt.as.sibWire
			}
			out = append(out, sessRef{rt: rt, ifID: f.ID, s: l.BFDSession(), wire: wr})
		}
	}
	return out
}

// waitStates waits until every session is up exactly if its wire is not cut.
func (w *c15World) waitStates(watchdog time.Duration) bool {
	deadline := time.Now().Add(watchdog)
	ss := w.sessions()
	for {
		ok := true
		for _, s := range ss {
			if s.wire == nil {
				continue
			}
			if s.s.IsUp() == s.wire.cut.Load() {
				ok = false
			}
		}
		if ok {
			return true
		}
		if time.Now().After(deadline) {
			return false
		}
		time.Sleep(3 * time.Millisecond)
	}
}

type probeWitness struct {
	World     int        `json:"world"`
	Probe     string     `json:"probe"`
	LocalIA   string     `json:"local_ia"`
	Phase     string     `json:"phase"`
	State     string     `json:"session_state_before_and_after"`
	Changes   float64    `json:"session_state_changes_before_and_after"`
	Reuse     bool       `json:"udp_can_reuse_local"`
	Input     string     `json:"input_hex"`
	Emissions []emission `json:"emissions"`
	History   []string   `json:"history"`
}

// probe injects one probe and judges its fate under the bracket rule.
func (w *c15World) probe(pt *probeTmpl, phase string, hist []string) {
	r := w.r
	w.serial++
	ser := uint64(w.id)<<40 | w.serial
	b := append([]byte(nil), pt.b...)
	copy(b[len(b)-12:], c15Magic[:])
	binary.BigEndian.PutUint64(b[len(b)-8:], ser)

	link := pt.rt.star.Link(pt.egIf)
	sess := link.BFDSession()
	var c0, c1 float64
	var u0, u1 bool
	if sess != nil {
		c0 = router.VerifMetricValue(sess.Metrics.StateChanges)
		u0 = sess.IsUp()
	}
	pt.in.push(dgram{b: b, addr: pt.src})
	em, ok := w.await(ser, 5*time.Second)
	if sess != nil {
		u1 = sess.IsUp()
		c1 = router.VerifMetricValue(sess.Metrics.StateChanges)
	}
	if !ok {
		r.Inconclusive("probe-lost")
		return
	}
	if sess != nil && (u0 != u1 || c0 != c1 || c0 < 0) {
		r.Inconclusive("bfd-state-bracket")
		r.Event("probe_during_state_change")
		return
	}
	state := "nobfd"
	if sess != nil {
		state = "down"
		if u0 {
			state = "up"
		}
	}
	wit := func() probeWitness {
		// later emissions of the same serial, if any
		w.mu.Lock()
		all := append([]emission(nil), w.emis[ser]...)
		w.mu.Unlock()
		return probeWitness{World: w.id, Probe: pt.desc, LocalIA: pt.rt.as.ia.String(), Phase: phase, State: state, Changes: c0,
			Reuse: w.reuse, Input: mon.Hex(b), Emissions: all, History: hist}
	}
	r.Eval(1)
	first := em[0]
	outcome := first.Kind
	if first.Kind == "scmp" {
		outcome = fmt.Sprintf("scmp%d", first.Type)
	}
	r.Class(fmt.Sprintf("%s/%s->%s/%s/%s/%s/reuse=%v", pt.rt.name, pt.inKind, pt.egScope, state, outcome, strings.SplitN(phase, ":", 2)[0], w.reuse))
	wantVia := fmt.Sprintf("ext:%d", pt.egIf)
	if pt.egScope == "sibling" {
		wantVia = fmt.Sprintf("sib:%d", pt.rt.ifs[pt.egIf].Sibling)
	}
	localIA := uint64(pt.rt.as.ia)
	switch state {
	case "up", "nobfd":
		switch {
		case first.Kind == "fwd" && first.Via == wantVia:
			r.Event("probe_forwarded_" + state)
			if state == "up" && strings.Contains(phase, "cycle>0") {
				r.Event("forwarded_after_restore")
			}
		case first.Kind == "fwd":
			r.Violation("C15:forwarded-elsewhere:"+pt.egScope, fmt.Sprintf("probe left over %s instead of %s", first.Via, wantVia), wit())
		case first.Type == 5 || first.Type == 6:
			r.Violation("C15:up-not-forwarded:"+pt.egScope+":"+state,
				fmt.Sprintf("link usable (BFD session %s throughout) but the probe was answered with SCMP type %d instead of being forwarded", state, first.Type), wit())
		default:
			// a different SCMP means the probe itself was not acceptable: not C15's business
			r.Inconclusive(fmt.Sprintf("probe-rejected-scmp-%d-%d", first.Type, first.Code))
		}
	case "down":
		wantType := uint8(5)
		if pt.egScope == "sibling" {
			wantType = 6
		}
		switch {
		case first.Kind == "fwd":
			r.Violation("C15:down-forwarded:"+pt.egScope,
				fmt.Sprintf("BFD session of the egress link was not up throughout, yet the probe was forwarded over %s", first.Via), wit())
		case first.Type != wantType:
			if first.Type == 5 || first.Type == 6 {
				r.Violation(fmt.Sprintf("C15:down-wrong-scmp:%s:type%d", pt.egScope, first.Type),
					fmt.Sprintf("egress link (%s) down: answered with SCMP type %d, want %d", pt.egScope, first.Type, wantType), wit())
			} else {
				r.Inconclusive(fmt.Sprintf("probe-rejected-scmp-%d-%d", first.Type, first.Code))
			}
		default:
			r.Event(fmt.Sprintf("probe_scmp%d_down", first.Type))
			if first.IA != localIA {
				r.Violation("C15:scmp-ia:"+pt.egScope, fmt.Sprintf("SCMP type %d names ISD-AS %x, want the local %x", first.Type, first.IA, localIA), wit())
			}
			if wantType == 5 && first.IfA != uint64(pt.egIf) {
				r.Violation("C15:scmp-ifid:external", fmt.Sprintf("ExternalInterfaceDown names interface %d, want the egress interface %d", first.IfA, pt.egIf), wit())
			}
			if wantType == 6 {
				if first.IfB != uint64(pt.egIf) {
					r.Violation("C15:scmp-ifid:sibling-egress", fmt.Sprintf("InternalConnectivityDown names egress %d, want %d", first.IfB, pt.egIf), wit())
				}
				if pt.inKind == "ext" && first.IfA != uint64(pt.inIf) {
					r.Violation("C15:scmp-ifid:sibling-ingress", fmt.Sprintf("InternalConnectivityDown names ingress %d, want %d", first.IfA, pt.inIf), wit())
				}
			}
			// "forwards no packet over that link": no forwarding emission may exist for this probe
			w.mu.Lock()
			all := append([]emission(nil), w.emis[ser]...)
			w.mu.Unlock()
			for _, e := range all {
				if e.Kind == "fwd" {
					r.Violation("C15:down-forwarded:"+pt.egScope, "probe was answered with SCMP and ALSO forwarded", wit())
				}
			}
		}
	}
	if r.WantSample() && w.serial%97 == 1 {
		r.Sample(wit())
	}
}

// burst: while the session of the probe's egress link is down, the socket the
// SCMP answers leave through is held up and a burst of probes is pushed in, so
// that the router runs out of room for answers. Whatever it does with the
// excess, none of the burst may appear on the link that is down.
func (w *c15World) burst(pt *probeTmpl, n int, phase string, hist []string) {
	r := w.r
	link := pt.rt.star.Link(pt.egIf)
	sess := link.BFDSession()
	if sess == nil || sess.IsUp() {
		return
	}
	c0 := router.VerifMetricValue(sess.Metrics.StateChanges)
	gate := make(chan struct{})
	pt.in.stall.Store(&gate)
	sers := make([]uint64, 0, n)
	for i := 0; i < n; i++ {
		w.serial++
		ser := uint64(w.id)<<40 | w.serial
		b := append([]byte(nil), pt.b...)
		copy(b[len(b)-12:], c15Magic[:])
		binary.BigEndian.PutUint64(b[len(b)-8:], ser)
		pt.in.push(dgram{b: b, addr: pt.src})
		sers = append(sers, ser)
	}
	// let the pipeline absorb the burst (bounded; scheduling only decides how
	// much is exposed, never the verdict)
	for spin := 0; spin < 100 && len(pt.in.in) > 0; spin++ {
		time.Sleep(time.Millisecond)
	}
	time.Sleep(10 * time.Millisecond)
	pt.in.stall.Store(nil)
	close(gate)
	time.Sleep(20 * time.Millisecond)
	u1 := sess.IsUp()
	c1 := router.VerifMetricValue(sess.Metrics.StateChanges)
	r.Event("burst_towards_down_link")
	if u1 || c0 != c1 || c0 < 0 {
		r.Inconclusive("bfd-state-bracket")
		return
	}
	answered, fwd := 0, 0
	var bad *emission
	w.mu.Lock()
	for _, ser := range sers {
		for i := range w.emis[ser] {
			e := w.emis[ser][i]
			switch {
			case e.Kind == "scmp":
				answered++
			case e.Kind == "fwd" && e.Router == pt.rt.name:
				fwd++
				if bad == nil {
					bad = &e
				}
			}
		}
	}
	w.mu.Unlock()
	r.Eval(n)
	r.EventN("burst_probe", int64(n))
	if answered < n {
		r.Event("burst_with_unanswered_probes")
	}
	r.Class(fmt.Sprintf("%s/%s->%s/down/burst/%s", pt.rt.name, pt.inKind, pt.egScope, strings.SplitN(phase, ":", 2)[0]))
	if bad != nil {
		key := "C15:down-forwarded:" + pt.egScope
		r.Violation(key, fmt.Sprintf("BFD session of the egress link was down throughout, yet %d of %d probes of a burst were forwarded over %s while the router was short of room for SCMP answers",
			fwd, n, bad.Via), map[string]any{"world": w.id, "probe": pt.desc, "phase": phase, "burst": n, "forwarded": fwd, "answered_scmp": answered,
			"first_forwarded": bad, "history": hist})
	}
}

func (w *c15World) run(rng *rand.Rand, cycles, perPhase int) {
	r := w.r
	w.start()
	var hist []string
	note := func(f string, a ...any) {
		hist = append(hist, fmt.Sprintf(f, a...))
		if len(hist) > 40 {
			hist = hist[len(hist)-40:]
		}
	}
	probes := func(n int, phase string, prefer func(*probeTmpl) bool) {
		for i := 0; i < n; i++ {
			pt := w.probes[rng.IntN(len(w.probes))]
			if prefer != nil && rng.IntN(3) != 0 {
				for k := 0; k < 20 && !prefer(pt); k++ {
					pt = w.probes[rng.IntN(len(w.probes))]
				}
			}
			w.probe(pt, phase, append([]string(nil), hist...))
		}
	}
	// While BFD sessions change state, the routers' management API (interface state
	// listing, as the control service and the mgmt endpoint poll it) is queried
	// concurrently from other goroutines, and a modest stream of unjudged probes keeps
	// flowing over the links concerned: link state is consulted concurrently with the
	// transitions. A stale view would show in the judged stable phase that follows.
	var flooding atomic.Bool
	var floodWG sync.WaitGroup
	for _, rt := range w.routers {
		for k := 0; k < 2; k++ {
			floodWG.Add(1)
			go func(rt *c15Router) {
				defer floodWG.Done()
				for !w.stopFlood.Load() {
					if !flooding.Load() {
						time.Sleep(200 * time.Microsecond)
						continue
					}
					_, _ = rt.star.C.ListExternalInterfaces()
					_, _ = rt.star.C.ListSiblingInterfaces()
					w.flooded.Add(1)
				}
			}(rt)
		}
	}
	floodWG.Add(1)
	go func() {
		defer floodWG.Done()
		i := 0
		for !w.stopFlood.Load() {
			time.Sleep(300 * time.Microsecond)
			if !flooding.Load() {
				continue
			}
			pt := w.probes[i%len(w.probes)]
			i++
			if pt.rt.star.Link(pt.egIf).BFDSession() == nil {
				continue
			}
			b := append([]byte(nil), pt.b...)
			copy(b[len(b)-12:], []byte("FLOODfloodFL")) // no probe magic: not recorded
			pt.in.push(dgram{b: b, addr: pt.src})
		}
	}()
	defer func() {
		w.stopFlood.Store(true)
		floodWG.Wait()
		r.EventN("concurrent_state_queries_during_transitions", w.flooded.Load())
	}()
	upWatch, downWatch := 40*time.Second, 30*time.Second
	if !w.waitStates(upWatch) {
		r.Inconclusive("bfd-initial-up-watchdog")
		w.stop()
		return
	}
	r.Event("world_all_sessions_up")
	note("all sessions up")
	for cyc := 0; cyc < cycles; cyc++ {
		tag := "cycle0"
		if cyc > 0 {
			tag = "cycle>0"
		}
		probes(perPhase, "stable:all-up:"+tag, nil)
		// cut a PRNG-chosen non-empty subset of wires
		var cut []*wire
		for len(cut) == 0 {
			for _, wr := range w.wires {
				if rng.IntN(3) == 0 {
					cut = append(cut, wr)
				}
			}
		}
		isCut := func(pt *probeTmpl) bool {
			l := pt.rt.star.Link(pt.egIf)
			return l.BFDSession() != nil
		}
		for _, wr := range cut {
			wr.cut.Store(true)
			note("cut %s", wr.name)
		}
		flooding.Store(true)
		probes(perPhase/4, "transition:after-cut:"+tag, isCut)
		ok := w.waitStates(downWatch)
		flooding.Store(false)
		if !ok {
			r.Inconclusive("bfd-down-watchdog")
			break
		}
		r.Event("phase_cut_links_down")
		note("sessions on cut wires down")
		probes(perPhase, "stable:some-down:"+tag, func(pt *probeTmpl) bool {
			s := pt.rt.star.Link(pt.egIf).BFDSession()
			return s != nil && !s.IsUp()
		})
		for k, done := 0, 0; k < 200 && done < 2; k++ {
			pt := w.probes[rng.IntN(len(w.probes))]
			if s := pt.rt.star.Link(pt.egIf).BFDSession(); s != nil && !s.IsUp() {
				w.burst(pt, 1500, "stable:some-down:"+tag, append([]string(nil), hist...))
				done++
			}
		}
		for _, wr := range cut {
			wr.cut.Store(false)
			note("restore %s", wr.name)
		}
		flooding.Store(true)
		probes(perPhase/4, "transition:after-restore:"+tag, isCut)
		ok = w.waitStates(upWatch)
		flooding.Store(false)
		if !ok {
			r.Inconclusive("bfd-recovery-watchdog")
			break
		}
		r.Event("phase_restored_links_up")
		note("all sessions up again")
	}
	probes(perPhase/2, "stable:all-up:cycle>0", nil)
	w.stop()
}

// stop silences the world. The data planes are deliberately NOT shut down
// (Shutdown with transmitting BFD sessions is C14's shutdown phase); all wires
// are cut and nothing is injected any more.
func (w *c15World) stop() {
	r := w.r
	for _, wr := range w.wires {
		wr.cut.Store(true)
		if wr.bfd {
			r.EventN("bfd_datagrams_carried", wr.delivered.Load())
			r.EventN("bfd_datagrams_dropped_by_cut", wr.dropped.Load())
		}
	}
	var onehopRx, intraRx, tx float64
	for _, s := range w.sessions() {
		rx := router.VerifMetricValue(s.s.Metrics.PacketsReceived)
		tx += router.VerifMetricValue(s.s.Metrics.PacketsSent)
		if s.rt.ifs[s.ifID].Owned {
			onehopRx += rx
		} else {
			intraRx += rx
		}
		r.EventN("bfd_session_state_changes", int64(router.VerifMetricValue(s.s.Metrics.StateChanges)))
	}
	r.EventN("bfd_onehop_packets_accepted_by_peer_session", int64(onehopRx))
	r.EventN("bfd_intra_as_packets_accepted_by_peer_session", int64(intraRx))
	r.EventN("bfd_packets_sent_by_sessions", int64(tx))
	for _, rt := range w.routers {
		for _, c := range rt.conns {
			if n := c.overflow.Load(); n > 0 {
				r.EventN("wire_queue_overflow", n)
			}
		}
	}
}

func checkC15(r *mon.Run) {
	_ = log.Setup(log.Config{Console: log.ConsoleConfig{Level: "error", StacktraceLevel: "none"}})
	r.Rule = "worlds of three RUNNING data planes (A0, A1 of one AS, B0 of another; Connector + udpip; both UDPCanReuseLocal modes) joined by in-memory wires carrying only the routers' own BFD " +
		"(one-hop BFD on 3-4 inter-AS links, empty-path BFD on the A0<->A1 sibling link; one inter-AS link without BFD; timers 25-55 ms x3), each wire with a cut switch; " +
		"histories: all up -> cut PRNG subset -> sessions down -> restore -> up again, several cycles; probes (valid transit / host-origin packets of the star fixture whose egress is a chosen link) are injected " +
		"via ReadBatch and observed at WriteBatch by serial; session state = bfd.Session.IsUp + its state-change counter read before injection and after the outcome (bracket rule); " +
		"class = router/ingress kind->egress scope/session state/outcome/phase/reuse mode"
	r.Assumptions = []string{
		"the session state is sampled from bfd.Session (IsUp and the StateChanges metric), not from Link.IsUp, which is one of the mechanisms under test",
		"probes whose bracket straddles a state change, or that are lost (busy queues), are inconclusive",
		"waiting for BFD to detect/recover uses watchdogs that only produce inconclusive (recovery itself is C16)",
		"a probe answered with an SCMP other than type 5/6 is a fixture problem, counted as inconclusive",
		"InternalConnectivityDown's ingress field is judged only for probes that entered through an external interface of the probed router",
	}
	nWorlds := r.Pick(8, 48)
	cycles := r.Pick(3, 5)
	perPhase := r.Pick(160, 240)
	par := 8
	var wg sync.WaitGroup
	sem := make(chan struct{}, par)
	for i := 0; i < nWorlds; i++ {
		rng := r.Rand(fmt.Sprint("c15-world-", i))
		w, err := buildC15World(r, rng, i)
		if err != nil {
			fmt.Println("C15 fixture error:", err)
			r.Inconclusive("fixture")
			continue
		}
		wg.Add(1)
		sem <- struct{}{}
		go func() {
			defer wg.Done()
			defer func() { <-sem }()
			w.run(rng, cycles, perPhase)
		}()
	}
	wg.Wait()
	c15ParamPhase(r)
	r.Require(int64(nWorlds*cycles*perPhase), 20, "world_all_sessions_up", "phase_cut_links_down", "phase_restored_links_up", "burst_towards_down_link", "burst_with_unanswered_probes", "bfd_params_round",
		"probe_forwarded_up", "probe_forwarded_nobfd", "probe_scmp5_down", "probe_scmp6_down", "forwarded_after_restore",
		"bfd_onehop_packets_accepted_by_peer_session", "bfd_intra_as_packets_accepted_by_peer_session")
}
