package main

import "verif/mon"

func checkC15(r *mon.Run) {}
