package main

import (
	"bufio"
	"bytes"
	"context"
	"encoding/json"
	"fmt"
	"os"
	"os/exec"
	"path/filepath"
	"sort"
	"strings"
	"sync"
	"time"

	"verif/mon"
)

type childResult struct {
	cfg      childCfg
	reports  []phaseReport
	exit     int
	timedOut bool
	stderr   string
	raceLog  string
	wall     time.Duration
}

func (c *childResult) phase(name string) *phaseReport {
	for i := range c.reports {
		if c.reports[i].Phase == name {
			return &c.reports[i]
		}
	}
	return nil
}

func runChild(cfg childCfg, raceDir string, gomaxprocs int, watchdog time.Duration) *childResult {
	cfg.RaceLog = filepath.Join(raceDir, fmt.Sprintf("race-%s-%d", cfg.Mode, cfg.Run))
	js, _ := json.Marshal(cfg)
	ctx, cancel := context.WithTimeout(context.Background(), watchdog)
	defer cancel()
	cmd := exec.CommandContext(ctx, os.Args[0])
	env := []string{}
	for _, e := range os.Environ() {
		if strings.HasPrefix(e, "GORACE=") || strings.HasPrefix(e, "GOMAXPROCS=") || strings.HasPrefix(e, "ROUTERRUN_") {
			continue
		}
		env = append(env, e)
	}
	env = append(env, "ROUTERRUN_C14_CHILD="+string(js),
		"GORACE=halt_on_error=0 log_path="+cfg.RaceLog,
		fmt.Sprintf("GOMAXPROCS=%d", gomaxprocs))
	cmd.Env = env
	var out, errb bytes.Buffer
	cmd.Stdout, cmd.Stderr = &out, &errb
	t0 := time.Now()
	err := cmd.Run()
	res := &childResult{cfg: cfg, wall: time.Since(t0)}
	if ctx.Err() != nil {
		res.timedOut = true
	}
	if err != nil {
		res.exit = -1
		if ee, ok := err.(*exec.ExitError); ok {
			res.exit = ee.ExitCode()
		}
	}
	res.stderr = errb.String()
	sc := bufio.NewScanner(&out)
	sc.Buffer(make([]byte, 1<<20), 64<<20)
	for sc.Scan() {
		line := sc.Text()
		if !strings.HasPrefix(line, "C14CHILD ") {
			continue
		}
		var p phaseReport
		if json.Unmarshal([]byte(line[9:]), &p) == nil {
			res.reports = append(res.reports, p)
		}
	}
	if m, _ := filepath.Glob(cfg.RaceLog + ".*"); len(m) > 0 {
		var all []byte
		for _, f := range m {
			b, _ := os.ReadFile(f)
			all = append(all, b...)
		}
		res.raceLog = string(all)
	}
	return res
}

// raceReport is one parsed race-detector report.
type raceReport struct {
	off  int
	key  string
	text string
}

func shortFn(fn string) string {
	fn = strings.TrimSpace(fn)
	if i := strings.LastIndex(fn, "("); i > 0 && strings.HasSuffix(fn, ")") {
		fn = fn[:i]
	}
	fn = strings.TrimPrefix(fn, "github.com/scionproto/scion/")
	fn = strings.TrimPrefix(fn, "router/underlayproviders/")
	return fn
}

func parseRaceLog(log string) []raceReport {
	var out []raceReport
	pos := 0
	for {
		i := strings.Index(log[pos:], "WARNING: DATA RACE")
		if i < 0 {
			break
		}
		start := pos + i
		end := len(log)
		if j := strings.Index(log[start:], "\n==================\n"); j >= 0 {
			end = start + j
		}
		text := log[start:end]
		// first frame after each access header
		var fns []string
		lines := strings.Split(text, "\n")
		for k, l := range lines {
			if !(strings.Contains(l, " at 0x") && strings.Contains(l, " by ")) {
				continue
			}
			// first frame of the access that is not in the Go runtime
			for m := k + 1; m < len(lines) && strings.TrimSpace(lines[m]) != ""; m++ {
				if strings.HasPrefix(lines[m], "      ") { // file:line of the frame above
					continue
				}
				fn := shortFn(lines[m])
				if strings.HasPrefix(fn, "runtime.") || strings.HasPrefix(fn, "sync.") || strings.HasPrefix(fn, "sync/atomic.") ||
					strings.HasPrefix(fn, "internal/") {
					continue
				}
				fns = append(fns, fn)
				break
			}
		}
		sort.Strings(fns)
		out = append(out, raceReport{off: start, key: strings.Join(fns, "|"), text: text})
		pos = end
	}
	return out
}

// panicSite extracts the panic message and the first scion frame from a dead
// child's stderr (zap "Panic" entry written by log.HandlePanic, or a Go
// runtime panic / fatal error dump).
func panicSite(stderr string) (msg, site, stack string) {
	root := os.Getenv("VERIF_REPO")
	if root == "" {
		root = "/repo"
	}
	s := stderr
	if i := strings.Index(s, `"stack": "`); i >= 0 {
		if j := strings.Index(s, `"msg": `); j >= 0 {
			m := s[j+7:]
			if k := strings.Index(m, `, "stack"`); k >= 0 {
				msg = strings.Trim(m[:k], `"{}`)
			}
		}
		st := s[i+10:]
		st = strings.ReplaceAll(st, `\n`, "\n")
		st = strings.ReplaceAll(st, `\t`, "\t")
		stack = st
	} else if i := strings.Index(s, "panic: "); i >= 0 {
		stack = s[i:]
		msg = strings.SplitN(stack[7:], "\n", 2)[0]
	} else if i := strings.Index(s, "fatal error: "); i >= 0 {
		stack = s[i:]
		msg = strings.SplitN(stack, "\n", 2)[0]
	} else {
		return "", "unknown", s
	}
	site = "unknown"
	prev := ""
	for _, l := range strings.Split(stack, "\n") {
		l = strings.TrimSpace(l)
		if !strings.HasPrefix(l, root+"/") || strings.Contains(l, "/pkg/log/") {
			prev = l
			continue
		}
		// stable identity: slug of the message + the function (no line numbers)
		site = slug(msg) + ":" + shortFn(prev)
		break
	}
	if len(stack) > 4000 {
		stack = stack[:4000]
	}
	return
}

func slug(s string) string {
	var b strings.Builder
	for _, c := range strings.ToLower(s) {
		switch {
		case c >= 'a' && c <= 'z':
			b.WriteRune(c)
		case c >= '0' && c <= '9':
			b.WriteByte('N')
		default:
			if b.Len() > 0 && !strings.HasSuffix(b.String(), "-") {
				b.WriteByte('-')
			}
		}
		if b.Len() >= 48 {
			break
		}
	}
	return strings.Trim(b.String(), "-")
}

func checkC14(r *mon.Run) {
	r.Level = "fault_enumeration"
	r.Rule = "one child process per run: a real data plane (router.Connector + udpip provider, 2-4 processors, 1-2 slow-path processors, batch 2-8, " +
		"3-6 links incl. sibling links in both UDPCanReuseLocal modes and BFD-enabled links) is Run over fault-injecting BatchConns: ReadBatch yields PRNG bursts of " +
		"valid (forward/deliver), SCMP-provoking (bad MAC, expired, router-alert traceroute), BFD, STUN and garbage datagrams; WriteBatch returns full/partial/zero/-1 and delays. " +
		"A per-packet atomic ledger behind router.VerifPoolHook checks free<->held on every Get/Put, the conns check that every buffer they read into / write from is held, " +
		"that no buffer is in two writes at once and that forwarded datagrams still carry the serial fed into their buffer; idleness is established by a goroutine snapshot " +
		"(all data-plane goroutines blocked at their loop heads), then held == buffers parked in blocked ReadBatch calls and pool fill + parked == capacity; then Shutdown and pool full. " +
		"Separate runs call Shutdown under load. class = distinct per-packet stage sequence (get site > READ > WRITE* > put site) or drop path/fault kind observed"
	r.Assumptions = []string{
		"interleavings are sampled (GOMAXPROCS 2-8, PRNG yields/spins at every pool hand-over), not enumerated",
		"'used by two stages at once' without a ledger anomaly is visible only through the race detector (both stages must touch the packet) or the payload-serial check",
		"packets still queued when Shutdown is called under load are stranded by design (processors stop); they are counted, not judged; the same holds for a BFD packet that a session queues on a connection whose sender Shutdown has already stopped",
		"BFD sessions cannot be paused: a failure of the Shutdown of an otherwise idle data plane whose stack shows a BFD session transmitting is filed under the shutdown-under-load keys (C14:shutdown:...)",
	}
	rng := r.Rand("c14")
	nRuns := r.Pick(40, 1000)
	nLoad := r.Pick(12, 150)
	packets := 20000
	par := 8
	raceDir, err := os.MkdirTemp("", "routerrun-c14-")
	if err != nil {
		fmt.Println("cannot create temp dir:", err)
		r.Inconclusive("tempdir")
		return
	}
	defer os.RemoveAll(raceDir)

	type job struct {
		cfg childCfg
		gmp int
	}
	var jobs []job
	for i := 0; i < nRuns+nLoad; i++ {
		mode := "quiesce"
		if i >= nRuns {
			mode = "load"
		}
		jobs = append(jobs, job{childCfg{Seed: rng.Uint64(), Run: i, Mode: mode, Packets: packets}, []int{2, 3, 4, 6, 8}[rng.IntN(5)]})
	}
	if rf := r.ReplayFile(); rf != "" {
		// a witness names the run; the schedule itself cannot be replayed
		if b, err := os.ReadFile(rf); err == nil {
			var wit struct {
				Witness struct {
					Child childCfg `json:"child"`
				} `json:"witness"`
			}
			if json.Unmarshal(b, &wit) == nil && wit.Witness.Child.Seed != 0 {
				jobs = nil
				for k := 0; k < 10; k++ {
					jobs = append(jobs, job{wit.Witness.Child, []int{2, 3, 4, 6, 8}[k%5]})
				}
				nRuns, nLoad = 0, 0
			}
		}
	}
	results := make([]*childResult, len(jobs))
	var wg sync.WaitGroup
	sem := make(chan struct{}, par)
	for i := range jobs {
		wg.Add(1)
		sem <- struct{}{}
		go func(i int) {
			defer wg.Done()
			defer func() { <-sem }()
			results[i] = runChild(jobs[i].cfg, raceDir, jobs[i].gmp, 180*time.Second)
		}(i)
	}
	wg.Wait()

	seqTotals := map[string]uint64{}
	var evalTotal int64
	quiescentOK, shutdownOK, loadSurvived, loadCrashed := 0, 0, 0, 0
	for _, res := range results {
		c14Judge(r, res, seqTotals, &evalTotal, &quiescentOK, &shutdownOK, &loadSurvived, &loadCrashed)
	}
	for s := range seqTotals {
		r.Class("seq: " + s)
	}
	type kv struct {
		Seq string `json:"sequence"`
		N   uint64 `json:"count"`
	}
	var top []kv
	for s, n := range seqTotals {
		top = append(top, kv{s, n})
	}
	sort.Slice(top, func(i, j int) bool { return top[i].N > top[j].N || top[i].N == top[j].N && top[i].Seq < top[j].Seq })
	r.Extra("distinct_stage_sequences", len(top))
	if len(top) > 60 {
		top = top[:60]
	}
	r.Extra("stage_sequences_top", top)
	r.Extra("runs", map[string]int{"quiescent_ledger_ok": quiescentOK, "shutdown_after_quiescence_ok": shutdownOK,
		"shutdown_under_load_survived": loadSurvived, "shutdown_under_load_crashed": loadCrashed})
	if len(jobs) > 0 && nRuns > 0 {
		r.Require(int64(nRuns)*int64(packets)/2, 20, "run_quiescent_ok", "run_shutdown_ok", "run_load_shutdown")
		r.RequireClasses("path:busy-processor", "path:busy-slow-path", "path:busy-forwarder", "path:invalid",
			"path:write-partial", "path:write-error", "path:write-zero", "path:write-full",
			"path:bfd-sent", "path:bfd-received", "path:scmp-sent", "path:forwarded", "path:stun", "path:read-error")
	}
}

func c14Judge(r *mon.Run, res *childResult, seqTotals map[string]uint64, evalTotal *int64,
	quiescentOK, shutdownOK, loadSurvived, loadCrashed *int) {
	cfg := res.cfg
	wit := func(extra map[string]any) map[string]any {
		m := map[string]any{"child": cfg, "note": "re-run with --replay repeats this run's configuration; the goroutine schedule cannot be replayed"}
		if st := res.phase("start"); st != nil && st.Desc != nil {
			m["run"] = st.Desc
		}
		for k, v := range extra {
			m[k] = v
		}
		return m
	}
	load := cfg.Mode == "load"
	races := parseRaceLog(res.raceLog)
	// phase boundary inside the race log
	boundary := int64(1) << 62
	bname := "quiescent"
	if load {
		bname = "pre-shutdown"
	}
	if p := res.phase(bname); p != nil {
		boundary = p.RaceLogSize
	} else if res.phase("start") == nil {
		boundary = 0
	}
	for _, rc := range races {
		key := "C14:race:" + rc.key
		what := "race detector report while the data plane was running"
		if int64(rc.off) >= boundary {
			if load {
				key = "C14:shutdown:race:" + rc.key
				what = "race detector report during/after Shutdown under load"
			} else {
				key = "C14:race:quiescent-shutdown:" + rc.key
				what = "race detector report during Shutdown of an idle data plane"
			}
		}
		r.Violation(key, what, wit(map[string]any{"report": rc.text}))
	}
	seenViol := map[string]bool{}
	for _, p := range res.reports {
		for _, v := range p.Violations {
			id := v.Key + "|" + v.What
			if seenViol[id] {
				continue
			}
			seenViol[id] = true
			r.Violation(v.Key, v.What, wit(map[string]any{"detail": v.Witness, "phase": p.Phase}))
		}
		if p.Inconclusive != "" {
			r.Inconclusive(p.Inconclusive)
			if p.Snap != nil && len(p.Snap.BusyWhere) > 0 {
				r.Extra("last_quiesce_watchdog_busy", p.Snap.BusyWhere)
			}
		}
	}
	if res.timedOut {
		r.Inconclusive("child-watchdog")
		return
	}
	if res.exit != 0 {
		msg, site, stack := panicSite(res.stderr)
		var key, what string
		switch {
		case load && res.phase("pre-shutdown") != nil:
			key = "C14:shutdown:panic:" + site
			what = "data plane died during Shutdown under load: " + msg
			*loadCrashed++
			r.Event("run_load_shutdown")
			r.Class("phase:shutdown-under-load-crashed")
		case !load && res.phase("quiescent") != nil && strings.Contains(stack, "bfdSend).Send"):
			// a BFD session's transmit timer fired inside the Shutdown of the
			// otherwise idle data plane: BFD senders are load (see Assumptions)
			key = "C14:shutdown:panic:" + site
			what = "data plane died during Shutdown (idle except for a BFD session transmitting): " + msg
		case !load && res.phase("quiescent") != nil:
			key = "C14:panic:quiescent-shutdown:" + site
			what = "data plane died during Shutdown of an idle data plane: " + msg
		default:
			key = "C14:panic:" + site
			what = "data plane died while running: " + msg
		}
		r.Violation(key, fmt.Sprintf("%s (child exit status %d)", what, res.exit), wit(map[string]any{"stack": stack}))
	}
	addPaths := func(p *phaseReport) {
		d := p.Drops
		ev := func(cls string, n int64) {
			if n > 0 {
				r.Class("path:" + cls)
				r.EventN(strings.ReplaceAll(cls, "-", "_"), n)
			}
		}
		ev("busy-processor", int64(d.BusyProcessor))
		ev("busy-slow-path", int64(d.BusySlowPath))
		ev("busy-forwarder", int64(d.BusyForwarder))
		ev("invalid", int64(d.Invalid))
		for _, c := range p.Conns {
			ev("write-partial", c.WPartial)
			ev("write-error", c.WError)
			ev("write-zero", c.WZero)
			ev("write-full", c.WFull)
			ev("bfd-sent", c.OutBFD)
			ev("scmp-sent", c.OutSCMP)
			ev("forwarded", c.OutOther)
			ev("read-error", c.ReadErrors)
			ev("bfd-received", c.FedClass["B"])
			ev("stun", c.FedClass["S"])
			ev("serial-intact-checks", c.Intact)
		}
	}
	if load {
		if p := res.phase("shutdown-under-load"); p != nil && res.exit == 0 && p.Inconclusive == "" {
			*loadSurvived++
			r.Event("run_load_shutdown")
			r.Class("phase:shutdown-under-load-survived")
			if p.Ledger != nil {
				r.Eval(int(p.Ledger.Puts))
				r.EventN("stranded_after_shutdown_under_load", int64(len(p.Ledger.Held)))
			}
			addPaths(p)
		}
		return
	}
	if a := res.phase("quiescent"); a != nil && a.Inconclusive == "" && a.Ledger != nil {
		r.Eval(int(a.Ledger.Puts) + 1)
		*evalTotal += int64(a.Ledger.Puts)
		for s, n := range a.Ledger.Seqs {
			seqTotals[s] += n
		}
		if len(a.Violations) == 0 {
			*quiescentOK++
			r.Event("run_quiescent_ok")
			r.Class("phase:quiescent-ledger-ok")
		}
		if a.Note != "" {
			r.Event("note_parked_mismatch")
			r.Extra("parked_note", a.Note)
		}
		if r.WantSample() {
			st := res.phase("start")
			r.Sample(map[string]any{"run": st.Desc, "gets": a.Ledger.Gets, "puts": a.Ledger.Puts, "parked": a.Parked,
				"pool_cap": a.PoolCap, "pool_fill": a.PoolFill, "drops": a.Drops, "conns": a.Conns, "wall_ms": a.WallMs})
		}
		b := res.phase("after-shutdown")
		if b != nil && b.Ledger != nil {
			r.Eval(1)
			for s, n := range b.Ledger.Seqs {
				if n > a.Ledger.Seqs[s] {
					seqTotals[s] += n - a.Ledger.Seqs[s]
				}
			}
			if b.StrandedBFD > 0 {
				r.EventN("stranded_bfd_packet_after_quiescent_shutdown", int64(b.StrandedBFD))
			}
			if len(b.Violations) == len(a.Violations) && res.exit == 0 {
				*shutdownOK++
				r.Event("run_shutdown_ok")
				r.Class("phase:shutdown-after-quiescence-ok")
			}
			addPaths(b)
		} else {
			addPaths(a)
		}
	}
}
