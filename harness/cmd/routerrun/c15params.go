package main

import (
	"context"
	"errors"
	"fmt"
	"net"
	"net/netip"
	"sync"
	"time"

	"github.com/scionproto/scion/pkg/addr"
	"github.com/scionproto/scion/private/topology"
	"github.com/scionproto/scion/private/underlay/conn"
	"github.com/scionproto/scion/router"

	"verif/mon"
	"verif/rfix"
)

// Parameter phase of C15: links whose BFD is enabled with parameters taken
// from the edges of what the topology file format admits (intervals of
// nanoseconds, hours, a multiplier of 255 ...). Whatever the session does with
// them, as long as it is not up nothing may leave through the link, and
// packets that would use it are answered with SCMP external-interface-down.

type c15pDgram struct {
	b   []byte
	src *net.UDPAddr
}

type c15pConn struct {
	ifID   uint16
	in     chan c15pDgram
	closed chan struct{}
	once   sync.Once
	mu     sync.Mutex
	out    [][]byte
}

func (c *c15pConn) ReadBatch(msgs conn.Messages) (int, error) {
	select {
	case d := <-c.in:
		msgs[0].N = copy(msgs[0].Buffers[0], d.b)
		msgs[0].Addr = d.src
		return 1, nil
	case <-c.closed:
		return 0, errors.New("closed")
	}
}

func (c *c15pConn) WriteBatch(msgs conn.Messages, _ int) (int, error) {
	c.mu.Lock()
	for _, m := range msgs {
		c.out = append(c.out, append([]byte{}, m.Buffers[0]...))
	}
	c.mu.Unlock()
	return len(msgs), nil
}

func (c *c15pConn) Close() error { c.once.Do(func() { close(c.closed) }); return nil }

type c15pOpener struct {
	mu    sync.Mutex
	conns map[uint16]*c15pConn
}

func (o *c15pOpener) Open(l, r netip.AddrPort, _ *conn.Config) (router.BatchConn, error) {
	o.mu.Lock()
	defer o.mu.Unlock()
	var id uint16
	if r.IsValid() && r.Addr().Is4() && r.Addr().As4()[0] == 203 {
		a := r.Addr().As4()
		id = uint16(a[2])<<8 | uint16(a[3])
	}
	c := &c15pConn{ifID: id, in: make(chan c15pDgram, 1024), closed: make(chan struct{})}
	if _, dup := o.conns[id]; dup && id == 0 {
		id = uint16(60000 + len(o.conns))
	}
	o.conns[id] = c
	return c, nil
}

func (o *c15pOpener) UDPCanReuseLocal() bool { return true }

func c15ParamPhase(r *mon.Run) {
	type bp struct {
		name   string
		rx, tx time.Duration
		mult   uint8
	}
	params := []bp{
		{"rx=2h", 2 * time.Hour, 0, 0}, {"tx=2h", 0, 2 * time.Hour, 0}, {"rx=72m", 72 * time.Minute, 0, 0},
		{"rx=500ns", 500 * time.Nanosecond, 0, 0}, {"tx=1ns", 0, time.Nanosecond, 0}, {"rx=-1s", -time.Second, 0, 0},
		{"mult=255", 0, 0, 255}, {"rx=71m", 71 * time.Minute, 0, 0}, {"defaults", 0, 0, 0},
	}
	rounds := r.Pick(len(params), 4*len(params))
	for round := 0; round < rounds; round++ {
		rng := r.Rand(fmt.Sprintf("c15-params-%d", round))
		p := params[round%len(params)]
		key := make([]byte, 16)
		for i := range key {
			key[i] = byte(rng.IntN(256))
		}
		in := rfix.IfSpec{ID: uint16(100 + rng.IntN(100)), LinkTo: topology.Child, Remote: addr.MustParseIA("1-ff00:0:211"), Owned: true, MTU: 1400}
		eg := rfix.IfSpec{ID: uint16(300 + rng.IntN(100)), LinkTo: topology.Parent, Remote: addr.MustParseIA("1-ff00:0:212"), Owned: true, MTU: 1400,
			BFD: true, BFDRx: p.rx, BFDTx: p.tx, BFDMult: p.mult}
		op := &c15pOpener{conns: map[uint16]*c15pConn{}}
		s, err := rfix.NewStarRun(rfix.StarCfg{IA: addr.MustIAFrom(1, addr.AS(0xff00_0000_0410+uint64(round))), HopKey: rfix.DeriveHopKey(key),
			Ifs: []rfix.IfSpec{in, eg}, ReuseLocal: true, Opener: op},
			rfix.RunCfg{NumProcessors: 1, NumSlowPathProcessors: 1, BatchSize: 8, BFDDetectMult: 3,
				BFDDesiredMinTx: 50 * time.Millisecond, BFDRequiredMinRx: 50 * time.Millisecond})
		if err != nil {
			// the configuration is refused outright: nothing to forward over
			r.Class("bfd-params/" + p.name + "/configuration-refused")
			r.Event("bfd_params_round")
			continue
		}
		ctx, cancel := context.WithCancel(context.Background())
		runErr := make(chan error, 1)
		go func() { runErr <- s.C.DataPlane.Run(ctx) }()
		for deadline := time.Now().Add(5 * time.Second); !router.VerifIsRunning(s.C) && time.Now().Before(deadline); {
			time.Sleep(time.Millisecond)
		}
		ing := op.conns[in.ID]
		if !router.VerifIsRunning(s.C) || ing == nil {
			select {
			case e := <-runErr:
				r.Class("bfd-params/" + p.name + "/run-refused")
				_ = e
			default:
				r.Inconclusive("data-plane-not-started")
			}
			r.Event("bfd_params_round")
			cancel()
			continue
		}
		time.Sleep(30 * time.Millisecond) // let the session goroutines start (or fail to)
		n := 200
		src := net.UDPAddrFromAddrPort(rfix.ExtRemoteAddr(in.ID))
		for i := 0; i < n; i++ {
			sc := s.GenScenarioOpt(rng, rfix.ShTransit, time.Now().Unix(), rfix.ScnOpt{InIf: &in, EgIf: &eg})
			b, err := sc.Packet(rng, nil)
			if err != nil {
				continue
			}
			ing.in <- c15pDgram{b: b, src: src}
		}
		for spin := 0; spin < 300 && len(ing.in) > 0; spin++ {
			time.Sleep(time.Millisecond)
		}
		time.Sleep(30 * time.Millisecond)
		// the session is never up: nobody answers on the far side
		link := s.Link(eg.ID)
		up := link != nil && link.BFDSession() != nil && link.BFDSession().IsUp()
		cancel()
		select {
		case <-runErr:
		case <-time.After(5 * time.Second):
		}
		fwd, answered := 0, 0
		var first []byte
		if c := op.conns[eg.ID]; c != nil {
			c.mu.Lock()
			for _, o := range c.out {
				if h, err := rfix.ParseHdr(o); err == nil && (h.PathType == 2 || h.PathType == 0) {
					continue // the link's own BFD packets
				}
				fwd++
				if first == nil {
					first = o
				}
			}
			c.mu.Unlock()
		}
		ing.mu.Lock()
		for _, o := range ing.out {
			if m := rfix.ParseSCMP(o); m.OK && m.Type == 5 {
				answered++
			}
		}
		ing.mu.Unlock()
		r.Eval(n)
		r.Event("bfd_params_round")
		r.Class(fmt.Sprintf("bfd-params/%s/forwarded=%v/answered=%v", p.name, fwd > 0, answered > 0))
		if up {
			r.Inconclusive("session-up-without-peer")
			continue
		}
		if fwd > 0 {
			r.Violation("C15:down-forwarded:external/bfd-params="+p.name,
				fmt.Sprintf("BFD is enabled on the egress link with %s and its session is not up, yet %d of %d packets were forwarded over the link (%d answered with SCMP external-interface-down)",
					p.name, fwd, n, answered), map[string]any{"round": round, "params": p.name, "first_forwarded_hex": mon.Hex(first)})
		}
	}
}
