package main

import (
	"context"
	"encoding/json"
	"fmt"
	"math/rand/v2"
	"net"
	"net/netip"
	"os"
	"runtime"
	"sort"
	"strings"
	"sync"
	"sync/atomic"
	"time"

	"github.com/gopacket/gopacket/layers"

	"github.com/scionproto/scion/pkg/addr"
	"github.com/scionproto/scion/pkg/log"
	"github.com/scionproto/scion/private/topology"
	"github.com/scionproto/scion/router"

	"verif/mon"
	"verif/rfix"
)

// One C14 run = one child process: a panic in a data-plane goroutine ends in
// log.HandlePanic -> os.Exit(255) and the processors of a shut-down data plane
// never terminate, so runs must not share a process. The parent (c14.go)
// aggregates the reports printed here.

type childCfg struct {
	Seed    uint64 `json:"seed"`
	Run     int    `json:"run"`
	Mode    string `json:"mode"` // "quiesce": load, idle, ledger check, shutdown; "load": shutdown under load
	Packets int    `json:"packets"`
	RaceLog string `json:"race_log"` // GORACE log_path prefix of this child
}

type linkDesc struct {
	IfID    uint16 `json:"if"`
	Type    string `json:"type"`
	Owned   bool   `json:"owned"`
	Sibling int    `json:"sibling,omitempty"`
	BFD     bool   `json:"bfd"`
}

type runDesc struct {
	Run        int        `json:"run"`
	Mode       string     `json:"mode"`
	Processors int        `json:"processors"`
	SlowPath   int        `json:"slow_path_processors"`
	Batch      int        `json:"batch"`
	ReuseLocal bool       `json:"reuse_local"`
	Links      []linkDesc `json:"links"`
	Conns      int        `json:"connections"`
	BFDms      int        `json:"bfd_interval_ms"`
	Sessions   int        `json:"bfd_sessions"`
}

type connReport struct {
	Name       string           `json:"name"`
	Fed        int64            `json:"fed"`
	FedClass   map[string]int64 `json:"fed_by_class"`
	ReadErrors int64            `json:"read_errors"`
	WriteCalls int64            `json:"write_calls"`
	WriteMsgs  int64            `json:"write_msgs"`
	WFull      int64            `json:"w_full"`
	WPartial   int64            `json:"w_partial"`
	WZero      int64            `json:"w_zero"`
	WError     int64            `json:"w_error"`
	OutBFD     int64            `json:"out_bfd"`
	OutSCMP    int64            `json:"out_scmp"`
	OutOther   int64            `json:"out_other"`
	Intact     int64            `json:"intact_checks"`
}

type phaseReport struct {
	Phase        string                   `json:"phase"`
	Desc         *runDesc                 `json:"desc,omitempty"`
	Inconclusive string                   `json:"inconclusive,omitempty"`
	Ledger       *ledgerSummary           `json:"ledger,omitempty"`
	Parked       int                      `json:"parked"`
	ExpectParked int                      `json:"expect_parked"`
	PoolCap      int                      `json:"pool_cap"`
	PoolFill     int                      `json:"pool_fill"`
	Conns        []connReport             `json:"conns,omitempty"`
	Drops        router.VerifLinkCounters `json:"drops"`
	Violations   []violation              `json:"violations,omitempty"`
	ViolCounts   map[string]int           `json:"violation_counts,omitempty"`
	RaceLogSize  int64                    `json:"race_log_size"`
	Snap         *idleSnap                `json:"snap,omitempty"`
	Note         string                   `json:"note,omitempty"`
	WallMs       int64                    `json:"wall_ms"`
	FedDoneMs    int64                    `json:"fed_done_ms,omitempty"`
	StrandedBFD  int                      `json:"stranded_bfd,omitempty"`
}

var emitMu sync.Mutex

func emit(p *phaseReport) {
	emitMu.Lock()
	defer emitMu.Unlock()
	b, err := json.Marshal(p)
	if err != nil {
		b = []byte(fmt.Sprintf(`{"phase":%q,"note":"marshal error: %s"}`, p.Phase, err))
	}
	fmt.Printf("C14CHILD %s\n", b)
	os.Stdout.Sync()
}

func raceLogSize(prefix string) int64 {
	if prefix == "" {
		return 0
	}
	fi, err := os.Stat(fmt.Sprintf("%s.%d", prefix, os.Getpid()))
	if err != nil {
		return 0
	}
	return fi.Size()
}

type c14World struct {
	cfg      childCfg
	desc     runDesc
	star     *rfix.Star
	led      *ledger
	conns    []*fconn
	sessions int
	stopFeed atomic.Bool
	links    []router.Link
	tParked  time.Time
	// sawRunning: the data plane's running flag has been seen set (it is
	// cleared again by Shutdown)
	sawRunning bool
}

func ltName(t topology.LinkType) string { return t.String() }

func buildC14World(cfg childCfg) (*c14World, error) {
	rng := rand.New(rand.NewPCG(cfg.Seed, uint64(cfg.Run)*0x9e3779b97f4a7c15+1))
	w := &c14World{cfg: cfg}
	procs, slow, batch := 2+rng.IntN(3), 1+rng.IntN(2), 2+rng.IntN(7)
	reuse := rng.IntN(2) == 0
	nLinks := 3 + rng.IntN(4)
	profile := rng.IntN(3)
	used := map[uint16]bool{0: true}
	var ifs []rfix.IfSpec
	for i := 0; i < nLinks; i++ {
		var id uint16
		for used[id] {
			if rng.IntN(2) == 0 {
				id = uint16(1 + rng.IntN(40))
			} else {
				id = uint16(1 + rng.IntN(65535))
			}
		}
		used[id] = true
		var lt topology.LinkType
		switch profile {
		case 0:
			lt = topology.Core
		case 1:
			lt = []topology.LinkType{topology.Parent, topology.Child, topology.Child}[i%3]
		default:
			lt = []topology.LinkType{topology.Core, topology.Parent, topology.Child, topology.Core, topology.Peer, topology.Child}[(i+rng.IntN(2))%6]
		}
		f := rfix.IfSpec{
			ID: id, LinkTo: lt,
			Remote: addr.MustIAFrom(addr.ISD(1+i%3), addr.AS(0xff00_0000_0300+uint64(i))),
			Owned:  i < 2 || rng.IntN(2) == 0, Sibling: 1 + rng.IntN(2),
			BFD: i == 0 || rng.IntN(2) == 0, MTU: 1400,
		}
		if i == nLinks-1 {
			f.Owned = false
		}
		ifs = append(ifs, f)
	}
	key := make([]byte, 16)
	for i := range key {
		key[i] = byte(rng.IntN(256))
	}
	led := newLedger(cfg.Seed^uint64(cfg.Run)<<20, nil)
	w.led = led
	op := &fOpener{reuse: reuse}
	op.mk = func(l, r netip.AddrPort) router.BatchConn {
		c := &fconn{
			id: len(w.conns), local: l, remote: r, led: led,
			rngR:     rand.New(rand.NewPCG(cfg.Seed, uint64(cfg.Run)<<16|uint64(len(w.conns))<<1)),
			rngW:     rand.New(rand.NewPCG(cfg.Seed, uint64(cfg.Run)<<16|uint64(len(w.conns))<<1|1)),
			stopFeed: &w.stopFeed,
			closed:   make(chan struct{}), faults: true, pauses: true,
		}
		w.conns = append(w.conns, c)
		return c
	}
	scfg := rfix.StarCfg{
		IA:         addr.MustIAFrom(addr.ISD(1+rng.IntN(3)), addr.AS(0xff00_0000_0100+uint64(rng.IntN(200)))),
		HopKey:     key, // already-derived hop key (what Connector.SetKey receives)
		Ifs:        ifs,
		ReuseLocal: reuse,
		SCMPAuth:   rng.IntN(4) == 0,
		RangeSet:   true, PortStart: 31000, PortEnd: 32767,
		Opener: op,
	}
	bfdMs := 2 + rng.IntN(8)
	s, err := rfix.NewStarRun(scfg, rfix.RunCfg{
		NumProcessors: procs, NumSlowPathProcessors: slow, BatchSize: batch,
		BFDDetectMult: 3, BFDDesiredMinTx: time.Duration(bfdMs) * time.Millisecond,
		BFDRequiredMinRx: time.Duration(bfdMs) * time.Millisecond,
	})
	if err != nil {
		return nil, err
	}
	w.star = s
	led.capacity = func() (int, int) { return router.VerifPoolCap(s.C) }
	w.desc = runDesc{Run: cfg.Run, Mode: cfg.Mode, Processors: procs, SlowPath: slow, Batch: batch,
		ReuseLocal: reuse, Conns: len(w.conns), BFDms: bfdMs}
	for _, f := range ifs {
		w.desc.Links = append(w.desc.Links, linkDesc{IfID: f.ID, Type: ltName(f.LinkTo), Owned: f.Owned, Sibling: f.Sibling, BFD: f.BFD})
	}
	// links and BFD sessions actually instantiated
	seenLink := map[router.Link]bool{}
	w.links = append(w.links, s.Link(0))
	seenLink[s.Link(0)] = true
	for _, f := range ifs {
		l := s.Link(f.ID)
		if l == nil || seenLink[l] {
			continue
		}
		seenLink[l] = true
		w.links = append(w.links, l)
		if l.BFDSession() != nil {
			w.sessions++
		}
	}
	w.desc.Sessions = w.sessions

	// --- input templates ---
	connOf := map[string]*fconn{} // "int", "ext:<id>", "sib:<k>"
	for _, c := range w.conns {
		switch {
		case !c.remote.IsValid():
			c.name = "int"
		default:
			for _, f := range ifs {
				if f.Owned && rfix.ExtRemoteAddr(f.ID) == c.remote {
					c.name = fmt.Sprintf("ext:%d", f.ID)
				}
			}
			if c.name == "" {
				for k := 1; k <= 2; k++ {
					if rfix.SiblingAddr(k) == c.remote {
						c.name = fmt.Sprintf("sib:%d", k)
					}
				}
			}
		}
		connOf[c.name] = c
	}
	ifByID := map[uint16]rfix.IfSpec{}
	for _, f := range ifs {
		ifByID[f.ID] = f
	}
	add := func(c *fconn, t tmpl, weight int) {
		c.tmpls = append(c.tmpls, t)
		c.wsum += weight
		c.weights = append(c.weights, c.wsum)
	}
	sibSrc := func(k int) *net.UDPAddr { a := rfix.SiblingAddr(k); return udpAddr(a.Addr().AsSlice(), int(a.Port())) }
	// where does a packet arriving from sibling k enter?
	sibConn := func(k int) *fconn {
		if reuse {
			return connOf[fmt.Sprintf("sib:%d", k)]
		}
		return connOf["int"]
	}
	classes := []byte{clForward, clForward, clForward, clForward, clDeliver, clDeliver, clBadMAC, clBadMAC, clExpired, clTrace}
	nScn := 0
	for i := 0; i < 320; i++ {
		cl := classes[rng.IntN(len(classes))]
		sp := genScenarioPkt(s, rng, cl, allShapes)
		if sp == nil {
			continue
		}
		var c *fconn
		var src *net.UDPAddr
		switch {
		case sp.sc.In.IfID == 0:
			c, src = connOf["int"], sp.sc.In.Src
		case ifByID[sp.sc.In.IfID].Owned:
			c = connOf[fmt.Sprintf("ext:%d", sp.sc.In.IfID)]
			a := rfix.ExtRemoteAddr(sp.sc.In.IfID)
			src = udpAddr(a.Addr().AsSlice(), int(a.Port()))
		default:
			k := ifByID[sp.sc.In.IfID].Sibling
			c, src = sibConn(k), sibSrc(k)
		}
		if c == nil {
			continue
		}
		add(c, tmpl{b: sp.b, class: sp.class, addr: src, serOff: sp.serOff}, 10)
		nScn++
	}
	if nScn < 50 {
		return nil, fmt.Errorf("only %d scenario packets fit the interface set", nScn)
	}
	hostSrc := udpAddr([]byte{10, 9, 9, 9}, 40000)
	for _, c := range w.conns {
		src := hostSrc
		var bfdT [][]byte
		switch {
		case c.name == "int":
			for i := 0; i < 3; i++ {
				add(c, tmpl{b: stunRequest(rng), class: clSTUN, addr: udpAddr([]byte{10, 7, byte(i), 1}, 50000+i), serOff: -1}, 1+c.wsum/100)
			}
			if !reuse {
				for k := 1; k <= 2; k++ {
					if l := linkToSibling(s, ifs, k); l != nil && l.BFDSession() != nil {
						for _, b := range bfdVariants(rng, scfg.IA, scfg.IA, rfix.SiblingAddr(k).Addr(), rfix.SiblingAddr(0).Addr(), true, 0) {
							add(c, tmpl{b: b, class: clBFD, addr: sibSrc(k), serOff: -1}, 1+c.wsum/120)
						}
					}
				}
			}
		case len(c.name) > 4 && c.name[:4] == "ext:":
			var id uint16
			fmt.Sscanf(c.name[4:], "%d", &id)
			a := rfix.ExtRemoteAddr(id)
			src = udpAddr(a.Addr().AsSlice(), int(a.Port()))
			if ifByID[id].BFD {
				bfdT = bfdVariants(rng, ifByID[id].Remote, scfg.IA, rfix.ExtRemoteAddr(id).Addr(), rfix.ExtLocalAddr(id).Addr(), false, id)
			}
		default:
			var k int
			fmt.Sscanf(c.name[4:], "%d", &k)
			src = sibSrc(k)
			if l := linkToSibling(s, ifs, k); l != nil && l.BFDSession() != nil {
				bfdT = bfdVariants(rng, scfg.IA, scfg.IA, rfix.SiblingAddr(k).Addr(), rfix.SiblingAddr(0).Addr(), true, 0)
			}
		}
		for _, b := range bfdT {
			add(c, tmpl{b: b, class: clBFD, addr: src, serOff: -1}, 1+c.wsum/60)
		}
		// garbage
		gw := 1 + c.wsum/80
		add(c, tmpl{b: nil, class: clGarbage, addr: src, serOff: -1}, gw)
		for i := 0; i < 3; i++ {
			g := make([]byte, 1+rng.IntN(120))
			for j := range g {
				g[j] = byte(rng.IntN(256))
			}
			if len(g) > 4 {
				g[4] = byte(30 + rng.IntN(100)) // not a next-header value the router accepts
			}
			add(c, tmpl{b: g, class: clGarbage, addr: src, serOff: -1}, gw)
		}
		// SCION-looking, corrupted: prefix of a real packet with damaged header fields
		var real []tmpl
		for _, t := range c.tmpls {
			if t.class == clForward || t.class == clDeliver {
				real = append(real, t)
			}
		}
		for i := 0; i < 4 && len(real) > 0; i++ {
			t := real[rng.IntN(len(real))]
			g := append([]byte(nil), t.b...)
			switch rng.IntN(4) {
			case 0:
				g = g[:36+rng.IntN(len(g)-36)]
			case 1:
				g[5] = byte(rng.IntN(256)) // header length
			case 2:
				g[8] = byte(4 + rng.IntN(200)) // path type
			default:
				g[6], g[7] = byte(rng.IntN(256)), byte(rng.IntN(256)) // payload length
			}
			add(c, tmpl{b: g, class: clGarbageS, addr: t.addr, serOff: -1}, gw)
		}
	}
	// budgets
	for i, c := range w.conns {
		if cfg.Mode == "load" {
			c.budget = -1
			continue
		}
		c.budget = int64(cfg.Packets / len(w.conns))
		if i == 0 {
			c.budget += int64(cfg.Packets % len(w.conns))
		}
	}
	return w, nil
}

func linkToSibling(s *rfix.Star, ifs []rfix.IfSpec, k int) router.Link {
	for _, f := range ifs {
		if !f.Owned && f.Sibling == k {
			return s.Link(f.ID)
		}
	}
	return nil
}

func bfdVariants(rng *rand.Rand, srcIA, dstIA addr.IA, src, dst netip.Addr, intra bool, egIf uint16) [][]byte {
	my := uint32(1 + rng.IntN(1<<30))
	your := uint32(1 + rng.IntN(1<<30))
	us := uint32(2000 + rng.IntN(4000))
	sh, dh := addr.HostIP(src), addr.HostIP(dst)
	return [][]byte{
		buildBFD(srcIA, dstIA, sh, dh, intra, egIf, bfdCtl(layers.BFDStateDown, my, 0, us, us, 3)),
		buildBFD(srcIA, dstIA, sh, dh, intra, egIf, bfdCtl(layers.BFDStateInit, my, your, us, us, 3)),
		buildBFD(srcIA, dstIA, sh, dh, intra, egIf, bfdCtl(layers.BFDStateUp, my, your, us, us, 3)),
		buildBFD(srcIA, dstIA, sh, dh, intra, egIf, bfdCtl(layers.BFDStateUp, my, your, us, us, 3)),
	}
}

func (w *c14World) connReports() []connReport {
	var out []connReport
	for _, c := range w.conns {
		r := connReport{Name: c.name, Fed: c.st.Fed.Load(), FedClass: map[string]int64{},
			ReadErrors: c.st.ReadErrors.Load(), WriteCalls: c.st.WriteCalls.Load(), WriteMsgs: c.st.WriteMsgs.Load(),
			WFull: c.st.WFull.Load(), WPartial: c.st.WPartial.Load(), WZero: c.st.WZero.Load(), WError: c.st.WError.Load(),
			OutBFD: c.st.OutBFD.Load(), OutSCMP: c.st.OutSCMP.Load(), OutOther: c.st.OutOther.Load(),
			Intact: c.st.IntactChecks.Load()}
		for i := range c.st.FedByClass {
			if n := c.st.FedByClass[i].Load(); n > 0 {
				r.FedClass[string(rune(i))] = n
			}
		}
		out = append(out, r)
	}
	return out
}

func (w *c14World) fedTotal() int64 {
	var n int64
	for _, c := range w.conns {
		n += c.st.Fed.Load()
	}
	return n
}

func (w *c14World) drops() router.VerifLinkCounters {
	var t router.VerifLinkCounters
	for _, l := range w.links {
		c := router.VerifLinkCountersOf(l)
		t.Input += c.Input
		t.Processed += c.Processed
		t.Output += c.Output
		t.BusyProcessor += c.BusyProcessor
		t.BusySlowPath += c.BusySlowPath
		t.BusyForwarder += c.BusyForwarder
		t.Invalid += c.Invalid
	}
	return t
}

func (w *c14World) expectedRoles() roleCount {
	return roleCount{Processors: w.desc.Processors, SlowPath: w.desc.SlowPath, Senders: len(w.conns),
		Receivers: len(w.conns), InternalProc: 1, BFD: w.sessions}
}

// stableCut waits for a consistent cut of an idle data plane: a goroutine
// snapshot showing every data-plane goroutine blocked at its loop head
// (expected role counts given by want), bracketed by two ledger readings with
// identical Get/Put totals, i.e. no pool operation happened around the
// snapshot (BFD sessions keep transmitting on their own schedule, so idleness
// is only ever momentary). A cut in which some receivers (or BFD senders) are
// instead blocked inside PacketPool.Get on an empty pool while everything else
// is idle is also returned (starved=true): nobody can ever return a packet.
// Returns ok=false if the watchdog fires first.
func (w *c14World) stableCut(want roleCount, needParked bool, watchdog time.Duration) (sum ledgerSummary, fill int, snap idleSnap, starved, ok bool) {
	deadline := time.Now().Add(watchdog)
	lastSnap := time.Time{}
	for {
		allParked := true
		if needParked {
			for _, c := range w.conns {
				if c.parked.Load() == nil {
					allParked = false
				}
			}
		}
		// while input is still being fed, look only now and then (a goroutine
		// snapshot stops the world)
		if !w.sawRunning && router.VerifIsRunning(w.star.C) {
			w.sawRunning = true
		}
		if !w.sawRunning || w.led.recs.Load() == nil {
			// the data plane has not initialized its pool yet (the running
			// flag is an atomic set after initPacketPool)
			allParked = false
		} else if allParked || time.Since(lastSnap) > 40*time.Millisecond {
			lastSnap = time.Now()
			s1 := w.led.summarize()
			snap = snapshotGoroutines()
			_, fill = router.VerifPoolCap(w.star.C)
			if snap.Busy == (roleCount{}) {
				got := snap.Idle
				got.Receivers += snap.Starved.Receivers
				got.BFD += snap.Starved.BFD
				if got == want {
					s2 := w.led.summarize()
					if s1.Gets == s2.Gets && s1.Puts == s2.Puts && len(s1.Held) == len(s2.Held) {
						st := snap.Starved.Receivers+snap.Starved.BFD > 0
						if !st && allParked {
							return s2, fill, snap, false, true
						}
						if st && fill == 0 {
							return s2, fill, snap, true, true
						}
					}
				}
			}
		}
		if time.Now().After(deadline) {
			return ledgerSummary{}, 0, snap, false, false
		}
		time.Sleep(2 * time.Millisecond)
	}
}

func c14Child(cfg childCfg) {
	t0 := time.Now()
	_ = log.Setup(log.Config{Console: log.ConsoleConfig{Level: "error", StacktraceLevel: "none"}})
	w, err := buildC14World(cfg)
	if err != nil {
		emit(&phaseReport{Phase: "setup", Inconclusive: "fixture: " + err.Error()})
		os.Exit(0)
	}
	w.led.emitNow = func(v violation) {
		emit(&phaseReport{Phase: "violation", Violations: []violation{v}})
	}
	router.VerifPoolHook = w.led.hook
	ctx, cancel := context.WithCancel(context.Background())
	defer cancel()
	go func() {
		_ = w.star.C.DataPlane.Run(ctx)
	}()
	d := w.desc
	emit(&phaseReport{Phase: "start", Desc: &d, WallMs: time.Since(t0).Milliseconds()})

	if cfg.Mode == "load" {
		c14ShutdownUnderLoad(w, t0)
		return
	}

	// ---- phase A: feed everything, wait for the data plane to fall idle ----
	sum, fill, snap, starved, idle := w.stableCut(w.expectedRoles(), true, 60*time.Second)
	rep := &phaseReport{Phase: "quiescent", ExpectParked: d.Batch * len(w.conns)}
	if idle && starved {
		// Deadlock by pool exhaustion: every stage is idle, the pool is empty
		// and receivers wait for a buffer that nobody holds.
		rep.Ledger = &sum
		rep.PoolCap, _ = router.VerifPoolCap(w.star.C)
		rep.Snap = &snap
		held := len(sum.Held)
		mayHold := len(w.conns) * d.Batch // receivers, parked or in the middle of a refill
		var last []string
		for _, idx := range sum.Held {
			if len(last) < 12 {
				last = append(last, sum.HeldSeqs[idx])
			}
		}
		if held-mayHold > 0 {
			w.led.violate("C14:leak", fmt.Sprintf("pool exhausted while every stage is idle: %d packets are held, the %d receivers can account for at most %d; the others were taken from the pool and never returned", held, len(w.conns), mayHold),
				map[string]any{"held": held, "capacity": rep.PoolCap, "receivers_blocked_in_pool_get": snap.Starved.Receivers, "last_seen_of_some_held_packets": last, "desc": w.desc})
		} else {
			rep.Inconclusive = "starved-but-accountable"
		}
		v, vc := w.led.violations()
		rep.Violations, rep.ViolCounts = v, vc
		rep.Conns = w.connReports()
		rep.Drops = w.drops()
		rep.WallMs = time.Since(t0).Milliseconds()
		emit(rep)
		os.Exit(0)
	}
	if !idle {
		rep.Inconclusive = "quiesce-watchdog"
		rep.Snap = &snap
		v, vc := w.led.violations()
		rep.Violations, rep.ViolCounts = v, vc
		rep.Conns = w.connReports()
		rep.Drops = w.drops()
		rep.WallMs = time.Since(t0).Milliseconds()
		emit(rep)
		os.Exit(0)
	}
	c14LedgerCheck(w, rep, sum, fill, false)
	rep.FedDoneMs = w.tParked.Sub(t0).Milliseconds()
	rep.RaceLogSize = raceLogSize(cfg.RaceLog)
	rep.WallMs = time.Since(t0).Milliseconds()
	emit(rep)

	// ---- phase B: Shutdown of the idle data plane ----
	// (BFD sessions keep transmitting on their own schedule during Shutdown)
	p, stack := mon.Try(func() { w.star.C.DataPlane.Shutdown() })
	rep2 := &phaseReport{Phase: "after-shutdown"}
	if p != nil {
		w.led.violate("C14:panic:"+mon.PanicSite(stack), fmt.Sprintf("Shutdown of an idle data plane panicked: %v", p), map[string]any{"stack": stack})
	}
	// receivers, senders and the internal link's processor have exited
	// (stop() waits for them); the BFD goroutines leave once they see their
	// closed channels; the processors stay blocked on their queues forever.
	after := roleCount{Processors: d.Processors, SlowPath: d.SlowPath}
	sum2, fill2, snap2, _, ok2 := w.stableCut(after, false, 30*time.Second)
	if !ok2 {
		rep2.Inconclusive = "post-shutdown-watchdog"
		rep2.Snap = &snap2
	} else {
		c14LedgerCheck(w, rep2, sum2, fill2, true)
	}
	rep2.RaceLogSize = raceLogSize(cfg.RaceLog)
	rep2.WallMs = time.Since(t0).Milliseconds()
	emit(rep2)
	os.Exit(0)
}

// c14LedgerCheck applies the conservation oracle on an idle data plane.
func c14LedgerCheck(w *c14World, rep *phaseReport, sum ledgerSummary, fill int, afterShutdown bool) {
	rep.Ledger = &sum
	rep.PoolCap, _ = router.VerifPoolCap(w.star.C)
	rep.PoolFill = fill
	parked := map[int]string{}
	if !afterShutdown {
		for _, c := range w.conns {
			if p := c.parked.Load(); p != nil {
				for _, idx := range *p {
					if other, dup := parked[idx]; dup {
						w.led.violate("C14:parked-twice", "the same buffer is prefetched by two receivers",
							map[string]any{"packet": idx, "conns": []string{other, c.name}})
					}
					parked[idx] = c.name
				}
			}
		}
	}
	rep.Parked = len(parked)
	var leaked []map[string]any
	stranded := 0
	for _, idx := range sum.Held {
		if _, ok := parked[idx]; !ok {
			if afterShutdown && strings.HasPrefix(sum.HeldSeqs[idx], "router.(*bfdSend).Send") && !strings.Contains(sum.HeldSeqs[idx], ">") {
				// A BFD session transmitted while Shutdown was in progress: the
				// packet sits in the egress queue of a connection whose sender
				// has already been stopped. Like packets queued for processors
				// at Shutdown under load, it is stranded by the shutdown order;
				// counted, not judged.
				stranded++
				continue
			}
			leaked = append(leaked, map[string]any{"packet": idx, "last_seen": sum.HeldSeqs[idx]})
		}
	}
	rep.StrandedBFD = stranded
	what := "idle data plane (every goroutine blocked at its loop head)"
	key := "C14:leak"
	if afterShutdown {
		what = "after Shutdown of an idle data plane"
		key = "C14:leak-after-shutdown"
	}
	if len(leaked) > 0 {
		if len(leaked) > 8 {
			leaked = leaked[:8]
		}
		w.led.violate(key, fmt.Sprintf("%s: %d packet(s) are held by nobody: taken from the pool and never returned (in != out + held)", what, len(sum.Held)-len(parked)-stranded),
			map[string]any{"leaked": leaked, "gets": sum.Gets, "puts": sum.Puts, "parked": len(parked), "desc": w.desc})
	}
	if sum.Anomalies > 0 {
		w.led.violate(key+":state", fmt.Sprintf("%s: %d packet(s) in a transient or unknown ledger state", what, sum.Anomalies), nil)
	}
	if int(sum.Gets-sum.Puts) != len(sum.Held) {
		w.led.violate("C14:ledger-arithmetic", fmt.Sprintf("gets-puts=%d but %d packets are held", sum.Gets-sum.Puts, len(sum.Held)), nil)
	}
	if rep.PoolFill+len(parked)+stranded != rep.PoolCap && len(leaked) == 0 {
		// The fill level is read from the pool's channel while the ledger is
		// updated by a hook one statement after the channel operation: a BFD
		// sender waking up between the two reads shows as a transient
		// difference of one. A leak is permanent: the difference is reported
		// only if it persists over further stable cuts.
		persistent := true
		for try := 0; try < 4 && persistent; try++ {
			time.Sleep(3 * time.Millisecond)
			_, f2 := router.VerifPoolCap(w.star.C)
			s2 := w.led.summarize()
			if s2.Gets == sum.Gets && s2.Puts == sum.Puts && f2+len(parked)+stranded == rep.PoolCap {
				persistent = false
				rep.PoolFill = f2
			}
			if s2.Gets != sum.Gets || s2.Puts != sum.Puts {
				// the data plane moved on (BFD tick): take a fresh stable cut
				want := w.expectedRoles()
				if afterShutdown {
					want = roleCount{Processors: w.desc.Processors, SlowPath: w.desc.SlowPath}
				}
				if s3, f3, _, _, ok := w.stableCut(want, !afterShutdown, 10*time.Second); ok {
					if f3+len(s3.Held) == rep.PoolCap {
						persistent = false
						rep.PoolFill = f3
					}
				}
			}
		}
		if persistent {
			w.led.violate(key+":pool-fill", fmt.Sprintf("%s: pool fill %d + parked %d != capacity %d", what, rep.PoolFill, len(parked), rep.PoolCap), nil)
		} else {
			rep.Note += " transient pool-fill difference (non-atomic read), gone at the next cut"
		}
	}
	if !afterShutdown && len(parked) != rep.ExpectParked {
		// not a verdict of C14 by itself: reported so that a wrong assumption of
		// the harness about the prefetch depth is visible
		rep.Note = fmt.Sprintf("parked %d != batch*connections %d", len(parked), rep.ExpectParked)
	}
	v, vc := w.led.violations()
	rep.Violations, rep.ViolCounts = v, vc
	rep.Conns = w.connReports()
	rep.Drops = w.drops()
}

func c14ShutdownUnderLoad(w *c14World, t0 time.Time) {
	rng := rand.New(rand.NewPCG(w.cfg.Seed, uint64(w.cfg.Run)<<8|0xaa))
	trigger := int64(w.cfg.Packets/10 + rng.IntN(w.cfg.Packets))
	deadline := time.Now().Add(60 * time.Second)
	for w.fedTotal() < trigger && time.Now().Before(deadline) {
		time.Sleep(200 * time.Microsecond)
	}
	rep := &phaseReport{Phase: "shutdown-under-load"}
	if w.fedTotal() < trigger {
		rep.Inconclusive = "load-watchdog"
		emit(rep)
		os.Exit(0)
	}
	pre, _ := w.led.violations()
	emit(&phaseReport{Phase: "pre-shutdown", Violations: pre, RaceLogSize: raceLogSize(w.cfg.RaceLog), Conns: w.connReports()})
	w.led.shutdown.Store(true)
	p, stack := mon.Try(func() { w.star.C.DataPlane.Shutdown() })
	w.stopFeed.Store(true)
	if p != nil {
		w.led.violate("C14:shutdown:panic:"+mon.PanicSite(stack), fmt.Sprintf("Shutdown under load panicked: %v", p), map[string]any{"stack": stack})
	}
	// give the processors time to drain what is still queued (they may hit
	// closed link queues / closed BFD sessions)
	for i := 0; i < 60; i++ {
		runtime.Gosched()
		time.Sleep(time.Millisecond)
	}
	sum := w.led.summarizeRacy()
	rep.Ledger = &sum
	rep.PoolCap, rep.PoolFill = router.VerifPoolCap(w.star.C)
	v, vc := w.led.violations()
	rep.Violations, rep.ViolCounts = v, vc
	rep.Conns = w.connReports()
	rep.Drops = w.drops()
	rep.RaceLogSize = raceLogSize(w.cfg.RaceLog)
	rep.WallMs = time.Since(t0).Milliseconds()
	rep.Note = fmt.Sprintf("stranded after shutdown under load (not judged): %d", len(sum.Held))
	emit(rep)
	os.Exit(0)
}

// summarizeRacy reads only the atomic parts of the ledger; usable while
// data-plane goroutines may still be running.
func (l *ledger) summarizeRacy() ledgerSummary {
	s := ledgerSummary{Seqs: map[string]uint64{}, HeldSeqs: map[int]string{}}
	rp := l.recs.Load()
	if rp == nil {
		return s
	}
	s.Capacity = len(*rp)
	for i := range *rp {
		r := &(*rp)[i]
		switch r.state.Load() {
		case stFree:
			s.Free++
		case stHeld:
			s.Held = append(s.Held, i)
		default:
			s.Anomalies++
		}
		s.Puts += r.life.Load()
	}
	sort.Ints(s.Held)
	return s
}
