package main

import (
	"encoding/binary"
	"errors"
	"math/rand/v2"
	"net"
	"net/netip"
	"runtime"
	"sync"
	"sync/atomic"
	"time"

	"github.com/scionproto/scion/private/underlay/conn"
	"github.com/scionproto/scion/router"
)

// Classes of fed packets (what the generator intended).
const (
	clForward  = 'F' // valid, to be forwarded over an external or sibling link
	clDeliver  = 'D' // valid, to be delivered to a local host
	clBadMAC   = 'M' // current hop MAC corrupted -> SCMP parameter problem
	clExpired  = 'X' // expired hop with valid MAC -> SCMP
	clTrace    = 'T' // traceroute request with router alert -> slow path
	clBFD      = 'B' // BFD control packet (one-hop or empty path)
	clGarbage  = 'G' // not SCION at all (short / impossible next-header)
	clGarbageS = 'H' // SCION-looking start, corrupted
	clSTUN     = 'S' // STUN binding request (internal interface only)
)

var errConnClosed = errors.New("fake conn closed")
var errInjected = errors.New("injected i/o error")

// tmpl is one pre-built input datagram.
type tmpl struct {
	b      []byte
	class  byte
	addr   *net.UDPAddr // source address reported with the datagram (never mutated)
	serOff int          // offset of the 8-byte serial in b; <0: none
}

type connStats struct {
	Fed          atomic.Int64
	FedByClass   [256]atomic.Int64
	ReadCalls    atomic.Int64
	ReadErrors   atomic.Int64
	WriteCalls   atomic.Int64
	WriteMsgs    atomic.Int64
	WFull        atomic.Int64
	WPartial     atomic.Int64
	WZero        atomic.Int64
	WError       atomic.Int64
	OutBFD       atomic.Int64
	OutSCMP      atomic.Int64
	OutOther     atomic.Int64
	IntactChecks atomic.Int64
}

// fconn is the fault-injecting BatchConn of the C14 check. ReadBatch is only
// ever called by the connection's receiver goroutine and WriteBatch only by
// its sender goroutine (udpConnection.receive / send); each side has its own
// PRNG stream.
type fconn struct {
	id            int
	name          string
	local, remote netip.AddrPort
	led           *ledger
	rngR, rngW    *rand.Rand
	tmpls         []tmpl
	weights       []int // cumulative weights over tmpls
	wsum          int
	budget        int64  // datagrams still to feed; <0: unlimited
	serial        uint64 // receiver-local; the conn id is in the top bits
	stopFeed      *atomic.Bool
	closed        chan struct{}
	closeOnce     sync.Once
	parked        atomic.Pointer[[]int] // non-nil while the receiver is blocked in ReadBatch
	st            connStats
	bfdMu         sync.Mutex        // guards bfdSeen (sender goroutine vs. main goroutine only)
	bfdSeen       map[uint32]*bfdTx // by MyDiscriminator of the BFD packets written
	faults        bool              // inject write faults and delays
	pauses        bool
}

// bfdTx records when a BFD session (identified by its discriminator) last
// transmitted (diagnostics only).
type bfdTx struct {
	last, prev int64
	state      int
}

func (c *fconn) pick() *tmpl {
	x := c.rngR.IntN(c.wsum)
	lo, hi := 0, len(c.weights)-1
	for lo < hi {
		m := (lo + hi) / 2
		if x < c.weights[m] {
			hi = m
		} else {
			lo = m + 1
		}
	}
	return &c.tmpls[lo]
}

func (c *fconn) park(msgs conn.Messages) (int, error) {
	idxs := make([]int, 0, len(msgs))
	for i := range msgs {
		r, idx := c.led.recOfBuf(msgs[i].Buffers[0])
		if r == nil {
			c.led.violate(c.led.key("read-foreign-buffer"), "receiver offered a buffer that does not belong to a pool packet", map[string]any{"conn": c.name})
			continue
		}
		if st := r.state.Load(); st != stHeld {
			c.led.violate(c.led.key("read-not-held"),
				"receiver offered a prefetched buffer to ReadBatch that the ledger does not show as held",
				map[string]any{"conn": c.name, "packet": idx, "state": st})
		}
		idxs = append(idxs, idx)
	}
	c.parked.Store(&idxs)
	<-c.closed
	c.parked.Store(nil)
	return 0, errConnClosed
}

func (c *fconn) ReadBatch(msgs conn.Messages) (int, error) {
	c.st.ReadCalls.Add(1)
	select {
	case <-c.closed:
		return 0, errConnClosed
	default:
	}
	if c.budget == 0 || c.stopFeed.Load() || len(c.tmpls) == 0 {
		return c.park(msgs)
	}
	if c.pauses {
		switch x := c.rngR.IntN(1000); {
		case x < 250:
			runtime.Gosched()
		case x < 330:
			time.Sleep(time.Duration(20+c.rngR.IntN(300)) * time.Microsecond)
		case x < 338:
			time.Sleep(time.Duration(1+c.rngR.IntN(4)) * time.Millisecond)
		case x < 345:
			c.st.ReadErrors.Add(1)
			return 0, errInjected
		}
	}
	n := 1 + c.rngR.IntN(len(msgs))
	if c.budget > 0 && int64(n) > c.budget {
		n = int(c.budget)
	}
	for i := 0; i < n; i++ {
		t := c.pick()
		buf := msgs[i].Buffers[0]
		r, idx := c.led.recOfBuf(buf)
		if r == nil {
			c.led.violate(c.led.key("read-foreign-buffer"), "receiver offered a buffer that does not belong to a pool packet", map[string]any{"conn": c.name})
		} else {
			if st := r.state.Load(); st != stHeld {
				c.led.violate(c.led.key("read-not-held"),
					"receiver fills a buffer that the ledger does not show as held (free = it is also in the pool)",
					map[string]any{"conn": c.name, "packet": idx, "state": st, "life_cycle": c.led.seqString(r.seq.Load())})
			}
			if w := r.inWrite.Load(); w != 0 {
				c.led.violate(c.led.key("read-during-write"),
					"receiver fills a buffer while a WriteBatch on the same buffer is in progress",
					map[string]any{"conn": c.name, "packet": idx, "writer_conn": w - 1})
			}
		}
		l := copy(buf, t.b)
		c.serial++
		ser := (uint64(c.id)<<34 | c.serial&(1<<34-1)) & (1<<40 - 1)
		if t.class != clGarbage && t.class != clSTUN && l >= 4 {
			// flow id: not covered by any MAC; spreads packets over processors
			f := c.rngR.Uint32()
			buf[1] = buf[1]&0xf0 | byte(f)&0x0f
			buf[2], buf[3] = byte(f>>8), byte(f>>16)
		}
		if t.serOff >= 0 {
			binary.BigEndian.PutUint64(buf[t.serOff:], ser)
		}
		msgs[i].N = l
		msgs[i].Addr = t.addr
		if r != nil {
			r.addTok(tokRead)
			cls := uint64(t.class)
			if t.serOff < 0 {
				cls |= 0x80 // no serial inside
			}
			r.fed.Store(ser<<24 | uint64(l)<<8 | cls)
		}
		c.st.FedByClass[t.class].Add(1)
	}
	if c.budget > 0 {
		c.budget -= int64(n)
	}
	c.st.Fed.Add(int64(n))
	return n, nil
}

func (c *fconn) WriteBatch(msgs conn.Messages, _ int) (int, error) {
	if len(msgs) == 0 {
		return 0, nil
	}
	c.st.WriteCalls.Add(1)
	c.st.WriteMsgs.Add(int64(len(msgs)))
	recs := make([]*pktRec, len(msgs))
	for i := range msgs {
		buf := msgs[i].Buffers[0]
		r, idx := c.led.recOfBuf(buf)
		if r == nil {
			c.led.violate(c.led.key("write-foreign-buffer"), "sender writes a buffer that does not belong to a pool packet", map[string]any{"conn": c.name})
			continue
		}
		if st := r.state.Load(); st != stHeld {
			c.led.violate(c.led.key("write-not-held"),
				"sender writes a packet that the ledger does not show as held (free = it was already returned to the pool and may be handed out again)",
				map[string]any{"conn": c.name, "packet": idx, "state": st, "life_cycle": c.led.seqString(r.seq.Load())})
		}
		if !r.inWrite.CompareAndSwap(0, int32(c.id+1)) {
			c.led.violate(c.led.key("concurrent-write"),
				"the same packet buffer is in two WriteBatch calls at once",
				map[string]any{"conn": c.name, "packet": idx, "other_conn": r.inWrite.Load() - 1})
			continue
		}
		recs[i] = r
		r.addTok(tokWrite)
		switch {
		case len(buf) > 4 && buf[4] == 203:
			c.st.OutBFD.Add(1)
			if p := bfdPayload(buf); len(p) >= 8 {
				disc := binary.BigEndian.Uint32(p[4:8])
				c.bfdMu.Lock()
				if c.bfdSeen == nil {
					c.bfdSeen = map[uint32]*bfdTx{}
				}
				t := c.bfdSeen[disc]
				if t == nil {
					t = &bfdTx{}
					c.bfdSeen[disc] = t
				}
				t.prev, t.last, t.state = t.last, time.Now().UnixNano(), int(p[1]>>6)
				c.bfdMu.Unlock()
			}
		case len(buf) > 4 && buf[4] == 202:
			c.st.OutSCMP.Add(1)
		default:
			c.st.OutOther.Add(1)
		}
		// Integrity of the payload: a datagram that went through unchanged in
		// length must still carry the serial number that was fed into this
		// very buffer. Anything else means the buffer was refilled while it
		// was queued for sending.
		if fed := r.fed.Load(); fed != 0 && fed&0x80 == 0 && int(fed>>8&0xffff) == len(buf) && len(buf) >= 8 {
			c.st.IntactChecks.Add(1)
			if got := binary.BigEndian.Uint64(buf[len(buf)-8:]); got != fed>>24 {
				c.led.violate(c.led.key("buffer-overwritten"),
					"forwarded datagram does not carry the serial number that was read into its buffer",
					map[string]any{"conn": c.name, "packet": idx, "fed_serial": fed >> 24, "found": got})
			}
		}
	}
	res, err := len(msgs), error(nil)
	if c.faults {
		switch x := c.rngW.IntN(1000); {
		case x < 120:
			runtime.Gosched()
		case x < 200:
			time.Sleep(time.Duration(20+c.rngW.IntN(400)) * time.Microsecond)
		case x < 206:
			time.Sleep(time.Duration(1+c.rngW.IntN(3)) * time.Millisecond)
		}
		switch x := c.rngW.IntN(1000); {
		case x < 100 && len(msgs) > 1:
			res = 1 + c.rngW.IntN(len(msgs)-1)
			c.st.WPartial.Add(1)
		case x < 150:
			res = 0
			c.st.WZero.Add(1)
		case x < 210:
			res, err = -1, errInjected
			c.st.WError.Add(1)
		default:
			c.st.WFull.Add(1)
		}
	} else {
		c.st.WFull.Add(1)
	}
	for _, r := range recs {
		if r != nil {
			r.inWrite.Store(0)
		}
	}
	return res, err
}

func (c *fconn) Close() error {
	c.closeOnce.Do(func() { close(c.closed) })
	return nil
}

// bfdPayload returns the bytes after the SCION header of a packet whose next
// header is BFD (no extension headers).
func bfdPayload(b []byte) []byte {
	if len(b) < 12 {
		return nil
	}
	hl := int(b[5]) * 4
	if hl > len(b) {
		return nil
	}
	return b[hl:]
}

// fOpener is the ConnOpener handed to the udpip provider.
type fOpener struct {
	reuse bool
	mu    sync.Mutex
	mk    func(l, r netip.AddrPort) router.BatchConn
}

func (o *fOpener) Open(l, r netip.AddrPort, _ *conn.Config) (router.BatchConn, error) {
	o.mu.Lock()
	defer o.mu.Unlock()
	return o.mk(l, r), nil
}

func (o *fOpener) UDPCanReuseLocal() bool { return o.reuse }
