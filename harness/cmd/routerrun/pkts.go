package main

import (
	"encoding/binary"
	"hash/crc32"
	"math/rand/v2"
	"net"
	"time"

	"github.com/gopacket/gopacket"
	"github.com/gopacket/gopacket/layers"

	"github.com/scionproto/scion/pkg/addr"
	"github.com/scionproto/scion/pkg/slayers"
	"github.com/scionproto/scion/pkg/slayers/path"
	"github.com/scionproto/scion/pkg/slayers/path/empty"
	"github.com/scionproto/scion/pkg/slayers/path/onehop"

	"verif/rfix"
)

// buildBFD serializes a BFD control packet the way a neighbouring router
// would send it: over a one-hop path (inter-AS link) or an empty path
// (sibling link).
func buildBFD(srcIA, dstIA addr.IA, src, dst addr.Host, intra bool, egIf uint16, b *layers.BFD) []byte {
	scn := &slayers.SCION{
		Version: 0, TrafficClass: 0xb8, FlowID: 0xdead, NextHdr: slayers.L4BFD,
		SrcIA: srcIA, DstIA: dstIA,
	}
	if err := scn.SetSrcAddr(src); err != nil {
		panic(err)
	}
	if err := scn.SetDstAddr(dst); err != nil {
		panic(err)
	}
	if intra {
		scn.PathType = empty.PathType
		scn.Path = &empty.Path{}
	} else {
		scn.PathType = onehop.PathType
		scn.Path = &onehop.Path{
			Info:     path.InfoField{ConsDir: true, Timestamp: uint32(time.Now().Unix() - 10)},
			FirstHop: path.HopField{ConsEgress: egIf, ExpTime: 63},
		}
	}
	buf := gopacket.NewSerializeBuffer()
	if err := gopacket.SerializeLayers(buf, gopacket.SerializeOptions{FixLengths: true}, scn, b); err != nil {
		panic(err)
	}
	return append([]byte(nil), buf.Bytes()...)
}

func bfdCtl(state layers.BFDState, my, your uint32, txUs, rxUs uint32, mult uint8) *layers.BFD {
	return &layers.BFD{
		Version: 1, State: state, DetectMultiplier: layers.BFDDetectMultiplier(mult),
		MyDiscriminator: layers.BFDDiscriminator(my), YourDiscriminator: layers.BFDDiscriminator(your),
		DesiredMinTxInterval:  layers.BFDTimeInterval(txUs),
		RequiredMinRxInterval: layers.BFDTimeInterval(rxUs),
	}
}

// stunRequest builds a STUN binding request (RFC 5389 header + FINGERPRINT),
// independently of pkg/stun.
func stunRequest(rng *rand.Rand) []byte {
	b := []byte{0x00, 0x01, 0x00, 0x08, 0x21, 0x12, 0xa4, 0x42}
	for i := 0; i < 12; i++ {
		b = append(b, byte(rng.IntN(256)))
	}
	fp := crc32.ChecksumIEEE(b) ^ 0x5354554e
	b = append(b, 0x80, 0x28, 0x00, 0x04)
	b = binary.BigEndian.AppendUint32(b, fp)
	return b
}

// scenarioPkt is a generated scenario packet with its meta data.
type scenarioPkt struct {
	sc     *rfix.Scn
	b      []byte
	class  byte
	serOff int
}

var allShapes = []rfix.Shape{rfix.ShSrc, rfix.ShDst, rfix.ShTransit, rfix.ShXover, rfix.ShPeerUp, rfix.ShPeerDown}

// genScenarioPkt builds one packet of the requested class on a scenario that
// fits the star's interface set; nil if none fits.
func genScenarioPkt(s *rfix.Star, rng *rand.Rand, class byte, shapes []rfix.Shape) *scenarioPkt {
	now := time.Now().Unix()
	sc := s.GenScenarioFit(rng, shapes, now, 40)
	if sc == nil {
		return nil
	}
	if class == clDeliver && !sc.Deliver || class == clForward && sc.Deliver {
		if sc.Deliver {
			class = clDeliver
		} else {
			class = clForward
		}
	}
	tgt := sc.LocalHops[0]
	segIdx, _ := sc.Spec.Locate(tgt)
	l4 := rfix.L4UDP
	switch class {
	case clExpired:
		seg := sc.Spec.Segs[segIdx].Seg
		seg.Ts = uint32(now - 3*86400)
		seg.Seal(rng)
	case clTrace:
		h := sc.Spec.HopAt(tgt)
		h.InAlert, h.EgAlert = true, true
		l4 = rfix.L4SCMPTraceReq
	}
	b, err := sc.Packet(rng, func(p *rfix.PktSpec) {
		p.L4 = l4
		if l4 == rfix.L4UDP {
			p.Payload = make([]byte, 8+rng.IntN(300))
			for i := range p.Payload {
				p.Payload[i] = byte(rng.IntN(256))
			}
		}
		p.HBH = rng.IntN(8) == 0
		p.E2E = rng.IntN(8) == 0
	})
	if err != nil {
		return nil
	}
	if class == clBadMAC {
		h, err := rfix.ParseHdr(b)
		if err != nil || len(h.HopOff) <= h.CurrHF {
			return nil
		}
		b[h.HopOff[h.CurrHF]+6+rng.IntN(6)] ^= 1 << rng.IntN(8)
	}
	sp := &scenarioPkt{sc: sc, b: b, class: class, serOff: -1}
	if l4 == rfix.L4UDP {
		sp.serOff = len(b) - 8
	}
	return sp
}

func udpAddr(ip []byte, port int) *net.UDPAddr {
	return &net.UDPAddr{IP: append(net.IP(nil), ip...), Port: port}
}
