// Command routerrun serves the router properties that need complete, running
// data planes (dataPlane.Run with all its goroutines) over fault-injecting
// in-memory connections: C14 (packet buffer ownership) and C15 (no traffic over
// links whose BFD session is not up). Built with the race detector.
package main

import (
	"encoding/json"
	"fmt"
	"os"

	"verif/mon"
)

func main() {
	if js := os.Getenv("ROUTERRUN_C14_CHILD"); js != "" {
		var cfg childCfg
		if err := json.Unmarshal([]byte(js), &cfg); err != nil {
			fmt.Fprintln(os.Stderr, "bad child config:", err)
			os.Exit(2)
		}
		c14Child(cfg)
		return
	}
	mon.Main(map[string]func(*mon.Run){
		"C14": checkC14,
		"C15": checkC15,
	})
}
