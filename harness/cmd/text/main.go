// Command text serves the text-format and path-policy properties (C46, C47).
package main

import "verif/mon"

func main() {
	mon.Main(map[string]func(*mon.Run){
		"C46": checkC46,
		"C47": checkC47,
	})
}
