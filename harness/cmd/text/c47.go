package main

import (
	"sync/atomic"
	"encoding/json"
	"fmt"
	"math/rand/v2"
	"net"
	"os"
	"sort"
	"strings"

	"github.com/scionproto/scion/pkg/addr"
	"github.com/scionproto/scion/pkg/segment/iface"
	"github.com/scionproto/scion/pkg/snet"
	"github.com/scionproto/scion/private/path/pathpol"

	"verif/mon"
)

// =====================================================================
// C47 — path-policy sequences, ACLs and policy filters.
//
// Everything in the "reference model" sections is written from
// doc/dev/design/PathPolicy.md and antlr/Sequence.g4 (syntax only); it never
// looks at the regular expression the implementation compiles and never calls
// pathpol to compute an expectation.
// =====================================================================

// ---- reference model: hops, hop predicates, sequence language ----

// c47Hop is one AS-level hop of a path: numeric ISD, AS, ingress and egress
// interface (0 = "no such interface": ingress of the source, egress of the
// destination).
type c47Hop struct {
	ISD, AS, In, Out uint64
}

func (h c47Hop) String() string {
	return fmt.Sprintf("%d-%s#%d,%d", h.ISD, c47CanonAS(h.AS), h.In, h.Out)
}

// c47Pred is a hop predicate as written in an expression.
type c47Pred struct {
	ISD    uint64 // 0 = wildcard
	HasAS  bool
	ASWild bool   // "-0"
	AS     uint64 // numeric value when !ASWild
	ASText string // spelling used in the expression (without '-')
	NIf    int    // 0, 1 (#if) or 2 (#in,out)
	If     [2]uint64
}

// c47PredMatch: ISD / AS / interfaces compare numerically, 0 is a wildcard; a
// single interface matches in either direction.
func c47PredMatch(p *c47Pred, h c47Hop) bool {
	if p.ISD != 0 && p.ISD != h.ISD {
		return false
	}
	if p.HasAS && !p.ASWild && p.AS != h.AS {
		return false
	}
	switch p.NIf {
	case 1:
		if p.If[0] != 0 && p.If[0] != h.In && p.If[0] != h.Out {
			return false
		}
	case 2:
		if p.If[0] != 0 && p.If[0] != h.In {
			return false
		}
		if p.If[1] != 0 && p.If[1] != h.Out {
			return false
		}
	}
	return true
}

// c47Node is the AST of a sequence expression.
// Op: 'h' hop, '?', '+', '*' (postfix on A), '|' and '.' (binary A,B),
// '(' explicit parentheses around A.
type c47Node struct {
	Op   byte
	A, B *c47Node
	P    *c47Pred
	id   int
}

type c47MemoKey struct{ id, i, j int }

// c47Matcher decides membership of a hop list in the language of an AST by
// memoised span matching (regular-expression semantics over hop tokens).
type c47Matcher struct {
	hops []c47Hop
	memo map[c47MemoKey]bool
}

func (m *c47Matcher) match(n *c47Node, i, j int) bool {
	k := c47MemoKey{n.id, i, j}
	if v, ok := m.memo[k]; ok {
		return v
	}
	m.memo[k] = false // guards against (impossible) cycles
	var res bool
	switch n.Op {
	case 'h':
		res = j == i+1 && c47PredMatch(n.P, m.hops[i])
	case '(':
		res = m.match(n.A, i, j)
	case '?':
		res = i == j || m.match(n.A, i, j)
	case '|':
		res = m.match(n.A, i, j) || m.match(n.B, i, j)
	case '.':
		for s := i; s <= j && !res; s++ {
			res = m.match(n.A, i, s) && m.match(n.B, s, j)
		}
	case '*':
		if i == j {
			res = true
		} else {
			for s := i + 1; s <= j && !res; s++ {
				res = m.match(n.A, i, s) && m.match(n, s, j)
			}
		}
	case '+':
		res = m.match(n.A, i, j)
		for s := i + 1; s < j && !res; s++ {
			res = m.match(n.A, i, s) && m.match(n, s, j)
		}
	}
	m.memo[k] = res
	return res
}

func c47InLanguage(root *c47Node, hops []c47Hop) bool {
	m := &c47Matcher{hops: hops, memo: map[c47MemoKey]bool{}}
	return m.match(root, 0, len(hops))
}

func c47Number(n *c47Node, next *int) {
	if n == nil {
		return
	}
	n.id = *next
	*next++
	c47Number(n.A, next)
	c47Number(n.B, next)
}

// ---- printer (the harness's own; follows antlr/Sequence.g4) ----

// Grammar precedence (alternative order in the left-recursive rule, pinned by
// upstream's "Or has higher priority than concatenation" test):
// postfix (3) > '|' (2) > juxtaposition (1).
func c47Prec(n *c47Node) int {
	switch n.Op {
	case '.':
		return 1
	case '|':
		return 2
	}
	return 3
}

func c47PrintPred(p *c47Pred) string {
	var sb strings.Builder
	fmt.Fprintf(&sb, "%d", p.ISD)
	if !p.HasAS {
		return sb.String()
	}
	if p.ASWild {
		sb.WriteString("-0")
	} else {
		sb.WriteString("-" + p.ASText)
	}
	switch p.NIf {
	case 1:
		fmt.Fprintf(&sb, "#%d", p.If[0])
	case 2:
		fmt.Fprintf(&sb, "#%d,%d", p.If[0], p.If[1])
	}
	return sb.String()
}

type c47Printer struct {
	rng        *rand.Rand
	fullParens bool // parenthesise every composite operand
	canonical  bool // print AS literals in canonical spelling
}

func (pr *c47Printer) sp() string {
	if pr.rng != nil && pr.rng.IntN(4) == 0 {
		return " "
	}
	return ""
}

func (pr *c47Printer) operand(n *c47Node, minPrec int) string {
	s := pr.print(n)
	if c47Prec(n) < minPrec || (pr.fullParens && n.Op != 'h' && n.Op != '(') {
		return "(" + pr.sp() + s + pr.sp() + ")"
	}
	return s
}

func (pr *c47Printer) print(n *c47Node) string {
	switch n.Op {
	case 'h':
		if pr.canonical && n.P.HasAS && !n.P.ASWild {
			q := *n.P
			q.ASText = c47CanonAS(q.AS)
			return c47PrintPred(&q)
		}
		return c47PrintPred(n.P)
	case '(':
		return "(" + pr.sp() + pr.print(n.A) + pr.sp() + ")"
	case '?', '+', '*':
		return pr.operand(n.A, 3) + pr.sp() + string(n.Op)
	case '|':
		return pr.operand(n.A, 2) + pr.sp() + "|" + pr.sp() + pr.operand(n.B, 2)
	case '.':
		return pr.operand(n.A, 1) + " " + pr.operand(n.B, 1)
	}
	panic("c47: bad node")
}

// ---- AS spellings ----

const c47MaxBGP = uint64(1)<<32 - 1

func c47CanonAS(as uint64) string {
	if as <= c47MaxBGP {
		return fmt.Sprintf("%d", as)
	}
	return fmt.Sprintf("%x:%x:%x", (as>>32)&0xffff, (as>>16)&0xffff, as&0xffff)
}

// c47Spell returns a grammar-valid spelling of as of the requested class and
// the class the produced text really has ("canonical" when the request cannot
// be honoured, e.g. upper-casing a text without letters).
func c47Spell(rng *rand.Rand, as uint64, class string) (text, got string) {
	canon := c47CanonAS(as)
	switch class {
	case "uppercase-hex":
		if as > c47MaxBGP {
			b := []byte(canon)
			changed := false
			all := rng.IntN(2) == 0
			for i, c := range b {
				if c >= 'a' && c <= 'f' && (all || rng.IntN(2) == 0) {
					b[i] = c - 'a' + 'A'
					changed = true
				}
			}
			if !changed {
				for i, c := range b {
					if c >= 'a' && c <= 'f' {
						b[i] = c - 'a' + 'A'
						changed = true
						break
					}
				}
			}
			if changed {
				return string(b), "uppercase-hex"
			}
		}
	case "hex-for-bgp-range":
		if as <= c47MaxBGP {
			return fmt.Sprintf("%x:%x:%x", (as>>32)&0xffff, (as>>16)&0xffff, as&0xffff), "hex-for-bgp-range"
		}
	}
	return canon, "canonical"
}

// ---- alphabet and generators ----

var (
	c47ISDs = []uint64{1, 2, 12}
	c47ASes = []uint64{0xff00_0000_0110, 272, 0xff00_0000_0abc, 196610, 0x1_0000_0000}
	c47IFs  = []uint64{1, 2, 21}
)

func c47Pick(rng *rand.Rand, xs []uint64) uint64 { return xs[rng.IntN(len(xs))] }

func c47GenPred(rng *rand.Rand, spell string) *c47Pred {
	p := &c47Pred{}
	if rng.IntN(4) != 0 {
		p.ISD = c47Pick(rng, c47ISDs)
	}
	form := rng.IntN(10)
	if form < 2 { // ISD only
		return p
	}
	p.HasAS = true
	if rng.IntN(4) == 0 {
		p.ASWild = true
	} else {
		p.AS = c47Pick(rng, c47ASes)
		p.ASText, _ = c47Spell(rng, p.AS, spell)
	}
	switch {
	case form < 5:
	case form < 7:
		p.NIf = 1
		if rng.IntN(5) != 0 {
			p.If[0] = c47Pick(rng, c47IFs)
		}
	default:
		p.NIf = 2
		for k := 0; k < 2; k++ {
			if rng.IntN(3) != 0 {
				p.If[k] = c47Pick(rng, c47IFs)
			}
		}
	}
	return p
}

func c47GenNode(rng *rand.Rand, depth int, spell string) *c47Node {
	if depth <= 0 || rng.IntN(10) < 3 {
		return &c47Node{Op: 'h', P: c47GenPred(rng, spell)}
	}
	switch rng.IntN(10) {
	case 0:
		return &c47Node{Op: '?', A: c47GenNode(rng, depth-1, spell)}
	case 1:
		return &c47Node{Op: '+', A: c47GenNode(rng, depth-1, spell)}
	case 2:
		return &c47Node{Op: '*', A: c47GenNode(rng, depth-1, spell)}
	case 3, 4:
		return &c47Node{Op: '|', A: c47GenNode(rng, depth-1, spell), B: c47GenNode(rng, depth-1, spell)}
	case 5:
		return &c47Node{Op: '(', A: c47GenNode(rng, depth-1, spell)}
	default:
		return &c47Node{Op: '.', A: c47GenNode(rng, depth-1, spell), B: c47GenNode(rng, depth-1, spell)}
	}
}

func c47Walk(n *c47Node, f func(*c47Node)) {
	if n == nil {
		return
	}
	f(n)
	c47Walk(n.A, f)
	c47Walk(n.B, f)
}

// c47SpellClass is the spelling class of an expression: the non-canonical
// class used by any of its AS literals (generators use one class per
// expression), or "canonical".
func c47SpellClass(root *c47Node) string {
	cls := "canonical"
	c47Walk(root, func(n *c47Node) {
		if n.Op != 'h' || !n.P.HasAS || n.P.ASWild {
			return
		}
		if n.P.ASText == c47CanonAS(n.P.AS) {
			return
		}
		if n.P.AS <= c47MaxBGP {
			cls = "hex-for-bgp-range"
		} else {
			cls = "uppercase-hex"
		}
	})
	return cls
}

func c47OpsSignature(root *c47Node) string {
	seen := map[byte]bool{}
	forms := map[string]bool{}
	c47Walk(root, func(n *c47Node) {
		if n.Op == 'h' {
			f := "isd"
			if n.P.HasAS {
				f = fmt.Sprintf("as%d", n.P.NIf)
			}
			forms[f] = true
			return
		}
		seen[n.Op] = true
	})
	var ops []string
	for _, o := range []byte("?+*|.(") {
		if seen[o] {
			ops = append(ops, string(o))
		}
	}
	var fs []string
	for f := range forms {
		fs = append(fs, f)
	}
	sort.Strings(fs)
	return "ops=" + strings.Join(ops, "") + "/preds=" + strings.Join(fs, ",")
}

// c47Concretise turns a predicate into a hop it matches (before the path-level
// fix-ups of first ingress / last egress).
func c47Concretise(rng *rand.Rand, p *c47Pred) c47Hop {
	h := c47Hop{ISD: p.ISD, In: c47Pick(rng, c47IFs), Out: c47Pick(rng, c47IFs)}
	if h.ISD == 0 {
		h.ISD = c47Pick(rng, c47ISDs)
	}
	if p.HasAS && !p.ASWild {
		h.AS = p.AS
	} else {
		h.AS = c47Pick(rng, c47ASes)
	}
	switch p.NIf {
	case 1:
		if p.If[0] != 0 {
			if rng.IntN(2) == 0 {
				h.In = p.If[0]
			} else {
				h.Out = p.If[0]
			}
		}
	case 2:
		if p.If[0] != 0 {
			h.In = p.If[0]
		}
		if p.If[1] != 0 {
			h.Out = p.If[1]
		}
	}
	return h
}

func c47Member(rng *rand.Rand, n *c47Node, budget *int) []c47Hop {
	if *budget <= 0 {
		return nil
	}
	switch n.Op {
	case 'h':
		*budget--
		return []c47Hop{c47Concretise(rng, n.P)}
	case '(':
		return c47Member(rng, n.A, budget)
	case '?':
		if rng.IntN(2) == 0 {
			return nil
		}
		return c47Member(rng, n.A, budget)
	case '*', '+':
		k := rng.IntN(3)
		if n.Op == '+' {
			k++
		}
		var out []c47Hop
		for ; k > 0; k-- {
			out = append(out, c47Member(rng, n.A, budget)...)
		}
		return out
	case '|':
		if rng.IntN(2) == 0 {
			return c47Member(rng, n.A, budget)
		}
		return c47Member(rng, n.B, budget)
	case '.':
		a := c47Member(rng, n.A, budget)
		return append(a, c47Member(rng, n.B, budget)...)
	}
	return nil
}

func c47RandomHop(rng *rand.Rand) c47Hop {
	return c47Hop{ISD: c47Pick(rng, c47ISDs), AS: c47Pick(rng, c47ASes), In: c47Pick(rng, c47IFs), Out: c47Pick(rng, c47IFs)}
}

// c47FixPath makes a hop list a well-formed path: 0 or >= 2 hops, first
// ingress and last egress are 0, every other interface is non-zero.
func c47FixPath(rng *rand.Rand, hops []c47Hop) []c47Hop {
	if len(hops) == 0 {
		return nil
	}
	out := append([]c47Hop(nil), hops...)
	if len(out) == 1 {
		if rng.IntN(2) == 0 {
			out = append(out, c47RandomHop(rng))
		} else {
			out = append([]c47Hop{c47RandomHop(rng)}, out...)
		}
	}
	for i := range out {
		if out[i].In == 0 {
			out[i].In = c47Pick(rng, c47IFs)
		}
		if out[i].Out == 0 {
			out[i].Out = c47Pick(rng, c47IFs)
		}
	}
	out[0].In = 0
	out[len(out)-1].Out = 0
	return out
}

func c47Mutate(rng *rand.Rand, hops []c47Hop) []c47Hop {
	out := append([]c47Hop(nil), hops...)
	if len(out) == 0 {
		return []c47Hop{c47RandomHop(rng), c47RandomHop(rng)}
	}
	i := rng.IntN(len(out))
	switch rng.IntN(7) {
	case 0:
		out[i].ISD = c47Pick(rng, c47ISDs)
	case 1:
		out[i].AS = c47Pick(rng, c47ASes)
	case 2:
		out[i].In = c47Pick(rng, c47IFs)
	case 3:
		out[i].Out = c47Pick(rng, c47IFs)
	case 4: // drop a hop
		out = append(out[:i], out[i+1:]...)
	case 5: // duplicate a hop
		out = append(out[:i+1], out[i:]...)
	case 6: // swap in/out
		out[i].In, out[i].Out = out[i].Out, out[i].In
	}
	return out
}

// ---- the path objects handed to the code under test ----

type c47Path struct {
	idx  int
	hops []c47Hop
	meta *snet.PathMetadata
	src  addr.IA
	dst  addr.IA
}

func (p *c47Path) UnderlayNextHop() *net.UDPAddr { return nil }
func (p *c47Path) Dataplane() snet.DataplanePath { return nil }
func (p *c47Path) Source() addr.IA               { return p.src }
func (p *c47Path) Destination() addr.IA          { return p.dst }
func (p *c47Path) Metadata() *snet.PathMetadata  { return p.meta }
func c47IA(isd, as uint64) addr.IA               { return addr.MustIAFrom(addr.ISD(isd), addr.AS(as)) }
func c47PI(isd, as, id uint64) snet.PathInterface {
	return snet.PathInterface{IA: c47IA(isd, as), ID: iface.ID(id)}
}

var c47LocalIA = c47IA(1, 0xff00_0000_0999)

func c47NewPath(idx int, hops []c47Hop) *c47Path {
	p := &c47Path{idx: idx, hops: hops, src: c47LocalIA, dst: c47LocalIA}
	var ifs []snet.PathInterface
	for i, h := range hops {
		if i > 0 {
			ifs = append(ifs, c47PI(h.ISD, h.AS, h.In))
		}
		if i < len(hops)-1 {
			ifs = append(ifs, c47PI(h.ISD, h.AS, h.Out))
		}
	}
	if len(hops) > 0 {
		p.src = c47IA(hops[0].ISD, hops[0].AS)
		p.dst = c47IA(hops[len(hops)-1].ISD, hops[len(hops)-1].AS)
	}
	p.meta = &snet.PathMetadata{Interfaces: ifs}
	return p
}

func c47HopsText(hops []c47Hop) string {
	s := make([]string, len(hops))
	for i, h := range hops {
		s[i] = h.String()
	}
	return strings.Join(s, " ")
}

type c47SeqWitness struct {
	Expr      string   `json:"expr"`
	CanonExpr string   `json:"canon_expr,omitempty"`
	Path      string   `json:"path"`
	Hops      []c47Hop `json:"hops"`
	Kept      bool     `json:"kept_by_implementation"`
	InLang    bool     `json:"in_language_per_reference"`
	CanonKept *bool    `json:"kept_with_canonical_spelling,omitempty"`
}

// c47EvalSeq runs the real filter on the paths and returns kept[idx].
func c47EvalSeq(seq *pathpol.Sequence, paths []*c47Path) []bool {
	in := make([]snet.Path, len(paths))
	for i, p := range paths {
		in[i] = p
	}
	kept := make([]bool, len(paths))
	for _, q := range seq.Eval(in) {
		kept[q.(*c47Path).idx] = true
	}
	return kept
}

// c47JudgeSeq compares the implementation's verdict for every path with the
// reference and attributes mismatches.
var c47Broken atomic.Int64

func c47JudgeSeq(r *mon.Run, root *c47Node, expr string, hopLists [][]c47Hop, sampleEvery int) {
	next := 0
	c47Number(root, &next)
	spell := c47SpellClass(root)
	sig := c47OpsSignature(root)
	// A policy with a broken sequence was submitted before (and refused): what
	// the parser did with it must leave no trace in the next, valid one.
	if c47Broken.Add(1)%4 == 0 {
		bad := []string{expr + ")", "(" + expr, expr + " |", "0-0#", expr + " 1-ff00:0:110 0* 1-ff00:0:112)", "1-ff00:0:110 ?? 2", ""}[int(c47Broken.Load()/4)%7]
		var berr error
		if p, stack := mon.Try(func() { _, berr = pathpol.NewSequence(bad) }); p != nil {
			r.Violation("C47:panic:"+mon.PanicSite(stack), fmt.Sprintf("NewSequence(%q) panicked: %v", bad, p), c47SeqWitness{Expr: bad})
		} else if berr != nil {
			r.Event("seq_rejected_before_valid")
		}
	}
	var seq *pathpol.Sequence
	var err error
	if p, stack := mon.Try(func() { seq, err = pathpol.NewSequence(expr) }); p != nil {
		r.Violation("C47:panic:"+mon.PanicSite(stack), fmt.Sprintf("NewSequence(%q) panicked: %v", expr, p), c47SeqWitness{Expr: expr})
		return
	}
	if err != nil {
		r.Eval(1)
		r.Violation("C47:seq:rejects-valid", fmt.Sprintf("NewSequence(%q) refused a grammatical expression: %v", expr, err), c47SeqWitness{Expr: expr})
		return
	}
	paths := make([]*c47Path, len(hopLists))
	for i, h := range hopLists {
		paths[i] = c47NewPath(i, h)
	}
	var kept []bool
	if p, stack := mon.Try(func() { kept = c47EvalSeq(seq, paths) }); p != nil {
		r.Violation("C47:panic:"+mon.PanicSite(stack), fmt.Sprintf("Sequence(%q).Eval panicked: %v", expr, p), c47SeqWitness{Expr: expr})
		return
	}
	var canonKept []bool
	canonExpr := ""
	sampled := false
	for i, hops := range hopLists {
		want := c47InLanguage(root, hops)
		r.Eval(1)
		outcome := "nomatch"
		if want {
			outcome = "match"
		}
		r.Class("seq/" + sig + "/spell=" + spell + "/" + outcome)
		r.Event("seq_" + outcome)
		if sampleEvery > 0 && !sampled && len(hops) > 0 && (want || 2*i > len(hopLists)) && r.WantSample() {
			sampled = true
			r.Sample(c47SeqWitness{Expr: expr, Path: c47HopsText(hops), Hops: hops, Kept: kept[i], InLang: want})
		}
		if kept[i] == want {
			continue
		}
		w := c47SeqWitness{Expr: expr, Path: c47HopsText(hops), Hops: hops, Kept: kept[i], InLang: want}
		key := "C47:seq:kept-not-in-language"
		if want {
			key = "C47:seq:dropped-in-language"
		}
		if spell != "canonical" {
			// Attribute to the spelling only if the same expression with
			// canonical AS spellings is judged correctly on this path.
			if canonKept == nil {
				canonExpr = (&c47Printer{canonical: true, fullParens: true}).print(root)
				if cs, cerr := pathpol.NewSequence(canonExpr); cerr == nil {
					canonKept = c47EvalSeq(cs, paths)
				} else {
					canonKept = make([]bool, 0)
				}
			}
			if len(canonKept) == len(paths) {
				ck := canonKept[i]
				w.CanonExpr, w.CanonKept = canonExpr, &ck
				if ck == want {
					key = "C47:as-spelling:" + spell
				}
			}
		}
		r.Violation(key, fmt.Sprintf("sequence %q on path [%s]: implementation kept=%v, reference in-language=%v",
			expr, w.Path, kept[i], want), w)
	}
}

func c47PathsFor(rng *rand.Rand, root *c47Node, nMember, nRandom int) [][]c47Hop {
	lists := [][]c47Hop{nil} // the empty path
	for i := 0; i < nMember; i++ {
		budget := 6
		m := c47FixPath(rng, c47Member(rng, root, &budget))
		lists = append(lists, m)
		mm := m
		for k := rng.IntN(2) + 1; k > 0; k-- {
			mm = c47Mutate(rng, mm)
		}
		lists = append(lists, c47FixPath(rng, mm))
	}
	for i := 0; i < nRandom; i++ {
		n := 2 + rng.IntN(4)
		h := make([]c47Hop, n)
		for j := range h {
			h[j] = c47RandomHop(rng)
		}
		lists = append(lists, c47FixPath(rng, h))
	}
	return lists
}

// c47AllTwoHop enumerates every 2-hop path over the alphabet.
func c47AllTwoHop() [][]c47Hop {
	var out [][]c47Hop
	for _, i1 := range c47ISDs {
		for _, a1 := range c47ASes {
			for _, o1 := range c47IFs {
				for _, i2 := range c47ISDs {
					for _, a2 := range c47ASes {
						for _, n2 := range c47IFs {
							out = append(out, []c47Hop{{ISD: i1, AS: a1, Out: o1}, {ISD: i2, AS: a2, In: n2}})
						}
					}
				}
			}
		}
	}
	return out
}

// ---- reference model: ACL ----

type c47ACLEntry struct {
	Allow   bool
	HasRule bool
	P       c47Pred // ISD, AS (ASWild/AS), NIf (1 or 2 when written), If
}

func c47ACLEntryText(e c47ACLEntry) string {
	s := "-"
	if e.Allow {
		s = "+"
	}
	if !e.HasRule {
		return s
	}
	return s + " " + c47PrintPred(&e.P)
}

// interface-level reading (PathPolicy.md "allowing all interfaces in ASes",
// one decision per path interface): an interface of AS x with id v entered
// (ingress) or left (egress) matches ISD/AS by wildcard-or-equal, a single
// interface id by wildcard-or-equal, and a pair by its ingress resp. egress
// member.
func c47ACLIfMatch(p *c47Pred, isd, as, id uint64, ingress bool) bool {
	if p.ISD != 0 && p.ISD != isd {
		return false
	}
	if p.HasAS && !p.ASWild && p.AS != as {
		return false
	}
	switch p.NIf {
	case 1:
		return p.If[0] == 0 || p.If[0] == id
	case 2:
		v := p.If[1]
		if ingress {
			v = p.If[0]
		}
		return v == 0 || v == id
	}
	return true
}

// c47ACLAcceptIface: every interface of the path is judged by the first entry
// matching it; the path is accepted iff none is denied.
func c47ACLAcceptIface(acl []c47ACLEntry, hops []c47Hop) bool {
	judge := func(isd, as, id uint64, ingress bool) bool {
		for i := range acl {
			if !acl[i].HasRule || c47ACLIfMatch(&acl[i].P, isd, as, id, ingress) {
				return acl[i].Allow
			}
		}
		return false
	}
	for i, h := range hops {
		if i > 0 && !judge(h.ISD, h.AS, h.In, true) {
			return false
		}
		if i < len(hops)-1 && !judge(h.ISD, h.AS, h.Out, false) {
			return false
		}
	}
	return true
}

// c47ACLAcceptHop: hop-level reading ("If a deny entry matches any hop on a
// path, the path is not allowed ... every hop of the path must be allowed ...
// the first matched entry wins") with the hop predicate semantics of the
// sequence language.
func c47ACLAcceptHop(acl []c47ACLEntry, hops []c47Hop) bool {
	for _, h := range hops {
		ok := false
		for i := range acl {
			if !acl[i].HasRule || c47PredMatch(&acl[i].P, h) {
				ok = acl[i].Allow
				break
			}
		}
		if !ok {
			return false
		}
	}
	return true
}

func c47GenACL(rng *rand.Rand) []c47ACLEntry {
	n := rng.IntN(5)
	var acl []c47ACLEntry
	for i := 0; i < n; i++ {
		var p *c47Pred
		for {
			p = c47GenPred(rng, []string{"canonical", "uppercase-hex", "hex-for-bgp-range"}[rng.IntN(3)])
			if p.ISD == 0 && (!p.HasAS || p.ASWild) {
				continue // would be a catch-all before the end
			}
			if p.HasAS && p.ASWild && (p.If[0] != 0 || p.If[1] != 0) {
				continue // interfaces need an AS in the ACL syntax
			}
			break
		}
		acl = append(acl, c47ACLEntry{Allow: rng.IntN(2) == 0, HasRule: true, P: *p})
	}
	// final catch-all in one of its spellings
	last := c47ACLEntry{Allow: rng.IntN(3) != 0}
	switch rng.IntN(5) {
	case 0:
	case 1:
		last.HasRule = true
	case 2:
		last.HasRule, last.P = true, c47Pred{HasAS: true, ASWild: true}
	case 3:
		last.HasRule, last.P = true, c47Pred{HasAS: true, ASWild: true, NIf: 1}
	case 4:
		last.HasRule, last.P = true, c47Pred{HasAS: true, ASWild: true, NIf: 2}
	}
	return append(acl, last)
}

func c47BuildACL(rng *rand.Rand, acl []c47ACLEntry) (*pathpol.ACL, string, error) {
	texts := make([]string, len(acl))
	for i, e := range acl {
		texts[i] = c47ACLEntryText(e)
	}
	if rng.IntN(2) == 0 {
		b, _ := json.Marshal(texts)
		var a pathpol.ACL
		err := json.Unmarshal(b, &a)
		return &a, "json", err
	}
	entries := make([]*pathpol.ACLEntry, len(acl))
	for i, t := range texts {
		entries[i] = &pathpol.ACLEntry{}
		if err := entries[i].LoadFromString(t); err != nil {
			return nil, "entries", err
		}
	}
	a, err := pathpol.NewACL(entries...)
	return a, "entries", err
}

// c47CheckFilter checks that out is exactly the sub-list of in selected by
// want (nil want: only sub-list / order properties are checked). Returns the
// keep vector observed, or nil if out is not an order-preserving sub-list.
func c47CheckFilter(in []*c47Path, out []snet.Path) (kept []bool, problem string) {
	kept = make([]bool, len(in))
	pos := 0
	for _, q := range out {
		cp, ok := q.(*c47Path)
		if !ok {
			return nil, "returned a path object that was not in the input"
		}
		found := false
		for pos < len(in) {
			if in[pos] == cp {
				kept[pos] = true
				pos++
				found = true
				break
			}
			pos++
		}
		if !found {
			return nil, fmt.Sprintf("output is not an order-preserving sub-list of the input (at output path [%s])", c47HopsText(cp.hops))
		}
	}
	return kept, ""
}

type c47FilterWitness struct {
	Kind     string   `json:"kind"`
	ACL      []string `json:"acl,omitempty"`
	Policy   any      `json:"policy,omitempty"`
	Paths    []string `json:"paths"`
	Got      []bool   `json:"kept_by_implementation"`
	Want     []bool   `json:"accepted_per_reference,omitempty"`
	Built    string   `json:"built_via,omitempty"`
	Problem  string   `json:"problem,omitempty"`
	Position int      `json:"first_difference"`
}

func c47PathTexts(paths []*c47Path) []string {
	s := make([]string, len(paths))
	for i, p := range paths {
		s[i] = c47HopsText(p.hops)
	}
	return s
}

func c47InputList(rng *rand.Rand, n int) []*c47Path {
	var paths []*c47Path
	for len(paths) < n {
		var hops []c47Hop
		switch rng.IntN(12) {
		case 0: // empty path
		default:
			k := 2 + rng.IntN(4)
			hops = make([]c47Hop, k)
			for j := range hops {
				hops[j] = c47RandomHop(rng)
			}
			hops = c47FixPath(rng, hops)
		}
		p := c47NewPath(len(paths), hops)
		paths = append(paths, p)
		if rng.IntN(10) == 0 && len(paths) < n { // an equal path as a second object
			paths = append(paths, c47NewPath(len(paths), hops))
		}
	}
	return paths
}

func c47ToSnet(paths []*c47Path) []snet.Path {
	in := make([]snet.Path, len(paths))
	for i, p := range paths {
		in[i] = p
	}
	return in
}

func c47ACLShape(acl []c47ACLEntry) string {
	ifSpecific, allow, deny := false, false, false
	for _, e := range acl[:len(acl)-1] {
		if e.P.If[0] != 0 || e.P.If[1] != 0 {
			ifSpecific = true
		}
		if e.Allow {
			allow = true
		} else {
			deny = true
		}
	}
	return fmt.Sprintf("n=%d/if=%v/allow=%v/deny=%v/default=%v", len(acl), ifSpecific, allow, deny, acl[len(acl)-1].Allow)
}

func c47CheckACL(r *mon.Run, rng *rand.Rand, i int) {
	acl := c47GenACL(rng)
	texts := make([]string, len(acl))
	for k, e := range acl {
		texts[k] = c47ACLEntryText(e)
	}
	impl, via, err := c47BuildACL(rng, acl)
	if err != nil {
		r.Eval(1)
		r.Violation("C47:acl:rejects-valid", fmt.Sprintf("ACL %v (via %s) refused: %v", texts, via, err),
			c47FilterWitness{Kind: "acl", ACL: texts, Built: via})
		return
	}
	paths := c47InputList(rng, 4+rng.IntN(12))
	var out []snet.Path
	if p, stack := mon.Try(func() { out = impl.Eval(c47ToSnet(paths)) }); p != nil {
		r.Violation("C47:panic:"+mon.PanicSite(stack), fmt.Sprintf("ACL.Eval panicked: %v", p),
			c47FilterWitness{Kind: "acl", ACL: texts, Paths: c47PathTexts(paths), Built: via})
		return
	}
	r.Eval(1)
	r.Event("acl_filter")
	got, problem := c47CheckFilter(paths, out)
	w := c47FilterWitness{Kind: "acl", ACL: texts, Paths: c47PathTexts(paths), Got: got, Built: via}
	if problem != "" {
		w.Problem = problem
		r.Violation("C47:acl:not-ordered-sublist", "ACL.Eval: "+problem, w)
		return
	}
	wantI := make([]bool, len(paths))
	wantH := make([]bool, len(paths))
	agree := true
	for k, p := range paths {
		wantI[k] = c47ACLAcceptIface(acl, p.hops)
		wantH[k] = c47ACLAcceptHop(acl, p.hops)
		if wantI[k] != wantH[k] {
			agree = false
		}
	}
	nk := 0
	for _, k := range got {
		if k {
			nk++
		}
	}
	outcome := "some"
	if nk == 0 {
		outcome = "none"
	} else if nk == len(paths) {
		outcome = "all"
	}
	if !agree {
		// The documentation can be read per interface or per hop and the two
		// readings differ on this input: the accept decision itself is not
		// judged, only that the filter is a pure per-path selection.
		r.Class("acl/ambiguous-doc-reading/" + outcome)
		r.Event("acl_ambiguous_not_judged")
		for k, p := range paths {
			single := impl.Eval([]snet.Path{p})
			if (len(single) == 1) != got[k] || len(single) > 1 {
				w.Position = k
				r.Violation("C47:acl:list-vs-single", fmt.Sprintf("ACL %v: path [%s] kept=%v in the list but %d paths when filtered alone",
					texts, c47HopsText(p.hops), got[k], len(single)), w)
				return
			}
		}
		return
	}
	r.Class("acl/" + c47ACLShape(acl) + "/" + outcome)
	r.Event("acl_judged")
	if r.WantSample() && i%97 == 5 {
		w.Want = wantI
		r.Sample(w)
	}
	for k := range paths {
		if got[k] != wantI[k] {
			w.Want, w.Position = wantI, k
			key := "C47:acl:kept-denied-path"
			if wantI[k] {
				key = "C47:acl:dropped-allowed-path"
			}
			r.Violation(key, fmt.Sprintf("ACL %v on path [%s]: implementation kept=%v, reference accept=%v",
				texts, c47HopsText(paths[k].hops), got[k], wantI[k]), w)
			return
		}
	}
}

// ---- reference model: policy ----

type c47Policy struct {
	ACL     []c47ACLEntry // nil: none
	Seq     *c47Node      // nil: none
	SeqText string
	Local   []uint64 // allowed source IAs (nil: no filter)
	Remote  []c47RemoteRule
	Options []c47Option
}

type c47RemoteRule struct {
	ISD, AS uint64
	Reject  bool
}

type c47Option struct {
	Weight int
	Pol    *c47Policy
}

func c47HopIA(h c47Hop) uint64 { return h.ISD<<48 | h.AS }

// c47PolicyAccept returns the reference keep vector of pol over paths (paths
// whose alive flag is false are not part of the input). aclHop selects the
// hop-level reading of ACLs.
func c47PolicyAccept(pol *c47Policy, paths []*c47Path, alive []bool, aclHop bool) []bool {
	keep := make([]bool, len(paths))
	for i, p := range paths {
		if !alive[i] {
			continue
		}
		ok := true
		if pol.Local != nil {
			src, dst := uint64(p.src), uint64(p.dst)
			in := false
			for _, a := range pol.Local {
				if a == src {
					in = true
				}
			}
			ok = ok && src != dst && in
		}
		if ok && pol.Remote != nil {
			ok = false
			if len(p.hops) > 0 {
				d := p.hops[len(p.hops)-1]
				for _, rr := range pol.Remote {
					if (rr.ISD == 0 || rr.ISD == d.ISD) && (rr.AS == 0 || rr.AS == d.AS) {
						ok = !rr.Reject
						break
					}
				}
			}
		}
		if ok && pol.ACL != nil {
			if aclHop {
				ok = c47ACLAcceptHop(pol.ACL, p.hops)
			} else {
				ok = c47ACLAcceptIface(pol.ACL, p.hops)
			}
		}
		if ok && pol.Seq != nil {
			ok = c47InLanguage(pol.Seq, p.hops)
		}
		keep[i] = ok
	}
	if len(pol.Options) == 0 {
		return keep
	}
	// Options: highest weight first; all options of one weight are united; the
	// first weight whose union is non-empty decides. Paths are identified by
	// their interface list.
	weights := map[int]bool{}
	for _, o := range pol.Options {
		weights[o.Weight] = true
	}
	var ws []int
	for w := range weights {
		ws = append(ws, w)
	}
	sort.Sort(sort.Reverse(sort.IntSlice(ws)))
	chosen := map[string]bool{}
	for _, w := range ws {
		for _, o := range pol.Options {
			if o.Weight != w {
				continue
			}
			sub := c47PolicyAccept(o.Pol, paths, keep, aclHop)
			for i, k := range sub {
				if k {
					chosen[c47HopsText(paths[i].hops)] = true
				}
			}
		}
		if len(chosen) > 0 {
			break
		}
	}
	out := make([]bool, len(paths))
	for i := range paths {
		out[i] = keep[i] && chosen[c47HopsText(paths[i].hops)]
	}
	return out
}

func c47GenPolicy(rng *rand.Rand, depth int) *c47Policy {
	pol := &c47Policy{}
	if rng.IntN(3) != 0 {
		pol.ACL = c47GenACL(rng)
	}
	if rng.IntN(3) == 0 {
		pol.Seq = c47GenNode(rng, 2, "canonical")
		next := 0
		c47Number(pol.Seq, &next)
		pol.SeqText = (&c47Printer{rng: rng, fullParens: rng.IntN(2) == 0}).print(pol.Seq)
	}
	if rng.IntN(8) == 0 {
		pol.Local = []uint64{}
		for k := rng.IntN(3) + 1; k > 0; k-- {
			pol.Local = append(pol.Local, c47Pick(rng, c47ISDs)<<48|c47Pick(rng, c47ASes))
		}
	}
	if rng.IntN(8) == 0 {
		pol.Remote = []c47RemoteRule{}
		for k := rng.IntN(3) + 1; k > 0; k-- {
			rr := c47RemoteRule{Reject: rng.IntN(2) == 0}
			if rng.IntN(3) != 0 {
				rr.ISD = c47Pick(rng, c47ISDs)
			}
			if rng.IntN(2) == 0 {
				rr.AS = c47Pick(rng, c47ASes)
			}
			pol.Remote = append(pol.Remote, rr)
		}
	}
	if depth > 0 && rng.IntN(2) == 0 {
		for k := rng.IntN(3) + 1; k > 0; k-- {
			pol.Options = append(pol.Options, c47Option{Weight: rng.IntN(3), Pol: c47GenPolicy(rng, depth-1)})
		}
	}
	return pol
}

func c47BuildPolicy(rng *rand.Rand, pol *c47Policy) (*pathpol.Policy, error) {
	var acl *pathpol.ACL
	if pol.ACL != nil {
		a, _, err := c47BuildACL(rng, pol.ACL)
		if err != nil {
			return nil, err
		}
		acl = a
	}
	var seq *pathpol.Sequence
	if pol.Seq != nil {
		s, err := pathpol.NewSequence(pol.SeqText)
		if err != nil {
			return nil, err
		}
		seq = s
	}
	var opts []pathpol.Option
	for _, o := range pol.Options {
		sub, err := c47BuildPolicy(rng, o.Pol)
		if err != nil {
			return nil, err
		}
		opts = append(opts, pathpol.Option{Weight: o.Weight, Policy: &pathpol.ExtPolicy{Policy: sub}})
	}
	p := pathpol.NewPolicy("p", acl, seq, opts)
	if pol.Local != nil {
		p.LocalISDAS = &pathpol.LocalISDAS{}
		for _, a := range pol.Local {
			p.LocalISDAS.AllowedIAs = append(p.LocalISDAS.AllowedIAs, addr.IA(a))
		}
	}
	if pol.Remote != nil {
		p.RemoteISDAS = &pathpol.RemoteISDAS{}
		for _, rr := range pol.Remote {
			p.RemoteISDAS.Rules = append(p.RemoteISDAS.Rules, pathpol.ISDASRule{IA: c47IA(rr.ISD, rr.AS), Reject: rr.Reject})
		}
	}
	return p, nil
}

func c47PolicyDescr(pol *c47Policy) map[string]any {
	m := map[string]any{}
	if pol.ACL != nil {
		t := make([]string, len(pol.ACL))
		for i, e := range pol.ACL {
			t[i] = c47ACLEntryText(e)
		}
		m["acl"] = t
	}
	if pol.Seq != nil {
		m["sequence"] = pol.SeqText
	}
	if pol.Local != nil {
		var t []string
		for _, a := range pol.Local {
			t = append(t, fmt.Sprintf("%d-%s", a>>48, c47CanonAS(a&(1<<48-1))))
		}
		m["local_isd_ases"] = t
	}
	if pol.Remote != nil {
		var t []string
		for _, rr := range pol.Remote {
			t = append(t, fmt.Sprintf("%d-%s reject=%v", rr.ISD, c47CanonAS(rr.AS), rr.Reject))
		}
		m["remote_isd_ases"] = t
	}
	if len(pol.Options) > 0 {
		var t []any
		for _, o := range pol.Options {
			t = append(t, map[string]any{"weight": o.Weight, "policy": c47PolicyDescr(o.Pol)})
		}
		m["options"] = t
	}
	return m
}

func c47PolicyShape(pol *c47Policy) string {
	return fmt.Sprintf("acl=%v/seq=%v/isdas=%v/options=%d", pol.ACL != nil, pol.Seq != nil, pol.Local != nil || pol.Remote != nil, len(pol.Options))
}

func c47CheckPolicy(r *mon.Run, rng *rand.Rand, i int) {
	pol := c47GenPolicy(rng, 2)
	descr := c47PolicyDescr(pol)
	impl, err := c47BuildPolicy(rng, pol)
	if err != nil {
		r.Eval(1)
		r.Violation("C47:policy:rejects-valid", fmt.Sprintf("policy refused: %v", err), c47FilterWitness{Kind: "policy", Policy: descr})
		return
	}
	paths := c47InputList(rng, 4+rng.IntN(12))
	var out []snet.Path
	if p, stack := mon.Try(func() { out = impl.Filter(c47ToSnet(paths)) }); p != nil {
		r.Violation("C47:panic:"+mon.PanicSite(stack), fmt.Sprintf("Policy.Filter panicked: %v", p),
			c47FilterWitness{Kind: "policy", Policy: descr, Paths: c47PathTexts(paths)})
		return
	}
	r.Eval(1)
	r.Event("policy_filter")
	got, problem := c47CheckFilter(paths, out)
	w := c47FilterWitness{Kind: "policy", Policy: descr, Paths: c47PathTexts(paths), Got: got}
	if problem != "" {
		w.Problem = problem
		r.Violation("C47:policy:not-ordered-sublist", "Policy.Filter: "+problem, w)
		return
	}
	alive := make([]bool, len(paths))
	for k := range alive {
		alive[k] = true
	}
	wantI := c47PolicyAccept(pol, paths, alive, false)
	wantH := c47PolicyAccept(pol, paths, alive, true)
	nk := 0
	for _, k := range got {
		if k {
			nk++
		}
	}
	outcome := "some"
	if nk == 0 {
		outcome = "none"
	} else if nk == len(paths) {
		outcome = "all"
	}
	for k := range paths {
		if wantI[k] != wantH[k] {
			r.Class("policy/ambiguous-doc-reading/" + outcome)
			r.Event("policy_ambiguous_not_judged")
			return
		}
	}
	r.Class("policy/" + c47PolicyShape(pol) + "/" + outcome)
	r.Event("policy_judged")
	if r.WantSample() && i%89 == 3 {
		w.Want = wantI
		r.Sample(w)
	}
	for k := range paths {
		if got[k] != wantI[k] {
			w.Want, w.Position = wantI, k
			key := "C47:policy:kept-rejected-path"
			if wantI[k] {
				key = "C47:policy:dropped-accepted-path"
			}
			r.Violation(key, fmt.Sprintf("policy %v on path [%s]: implementation kept=%v, reference accept=%v",
				descr, c47HopsText(paths[k].hops), got[k], wantI[k]), w)
			return
		}
	}
}

// ---- replay ----

func c47Replay(r *mon.Run) bool {
	b, err := os.ReadFile(r.ReplayFile())
	if err != nil {
		return false
	}
	var rep struct {
		Witness c47SeqWitness `json:"witness"`
	}
	if json.Unmarshal(b, &rep) != nil || rep.Witness.Expr == "" {
		return false
	}
	seq, err := pathpol.NewSequence(rep.Witness.Expr)
	if err != nil {
		fmt.Printf("replay: NewSequence(%q): %v\n", rep.Witness.Expr, err)
		return true
	}
	p := c47NewPath(0, rep.Witness.Hops)
	kept := len(seq.Eval([]snet.Path{p})) == 1
	fmt.Printf("replay: expr=%q path=[%s] kept=%v (reference at the time: in-language=%v)\n",
		rep.Witness.Expr, c47HopsText(rep.Witness.Hops), kept, rep.Witness.InLang)
	r.Eval(1)
	r.Class("replay/kept=" + fmt.Sprint(kept))
	r.Class("replay/want=" + fmt.Sprint(rep.Witness.InLang))
	r.Sample(rep.Witness)
	if kept != rep.Witness.InLang {
		r.Violation("C47:replay", "replayed witness still differs from the reference verdict", rep.Witness)
	}
	return true
}

// ---- the check ----

func checkC47(r *mon.Run) {
	r.Rule = "random sequence ASTs (depth <= 4; hop predicates ISD / ISD-AS / ISD-AS#if / ISD-AS#in,out with 0 wildcards over " +
		"3 ISDs x 5 ASes x 3 interfaces; AS literals spelled canonically, with upper-case hex letters, or in hex for a " +
		"BGP-range AS) printed by the harness's printer (grammar precedence or full parentheses, optional blanks) x paths " +
		"(empty path, members generated from the AST, mutated members, random paths of 2-5 hops, every 2-hop path for a " +
		"subset), judged by a span-matching regular-language recogniser over numeric hop tokens; ACLs and policies " +
		"(ACL+sequence+ISD-AS filters+weighted options, nested) x path lists with duplicates, judged by first-match " +
		"reference filters for exactness and input order; class = operator set x predicate forms x spelling x outcome, " +
		"resp. ACL/policy shape x outcome"
	r.Assumptions = []string{
		"syntax is antlr/Sequence.g4 including its operator precedence (postfix > '|' > juxtaposition), which upstream's test suite pins",
		"AS literals outside addr's domain (decimal > 2^32-1, hex group > ffff, 0:0:0) and ISD/interface ids > 16/64 bits are not generated",
		"paths have an even number of interfaces (0 or >= 2 hops); the source has ingress 0, the destination egress 0",
		"ACL accept decisions are judged only where the per-interface and the per-hop reading of PathPolicy.md agree; " +
			"otherwise only order/sub-list/list-vs-single consistency is judged (counted as *_ambiguous_not_judged)",
	}
	if r.ReplayFile() != "" && c47Replay(r) {
		return
	}
	rng := r.Rand("c47")

	// --- fixed expressions from PathPolicy.md and the F7 spellings ---
	H := func(isd uint64, hasAS, wild bool, as uint64, text string, nif int, i0, i1 uint64) *c47Node {
		return &c47Node{Op: 'h', P: &c47Pred{ISD: isd, HasAS: hasAS, ASWild: wild, AS: as, ASText: text, NIf: nif, If: [2]uint64{i0, i1}}}
	}
	cat := func(ns ...*c47Node) *c47Node {
		n := ns[0]
		for _, m := range ns[1:] {
			n = &c47Node{Op: '.', A: n, B: m}
		}
		return n
	}
	a110 := uint64(0xff00_0000_0110)
	fixedExprs := []*c47Node{
		cat(H(1, true, false, a110, "ff00:0:110", 0, 0, 0), H(1, true, false, 272, "272", 0, 0, 0)),
		cat(H(1, true, false, a110, "FF00:0:110", 0, 0, 0), H(1, true, false, 272, "272", 0, 0, 0)),
		cat(H(1, true, false, a110, "ff00:0:110", 0, 0, 0), H(1, true, false, 272, "0:0:110", 0, 0, 0)),
		cat(H(1, true, false, a110, "ff00:0:110", 1, 1, 0), &c47Node{Op: '+', A: H(1, false, false, 0, "", 0, 0, 0)},
			&c47Node{Op: '?', A: H(2, true, false, 272, "272", 0, 0, 0)}, H(2, true, false, 196610, "196610", 1, 1, 0)),
		cat(&c47Node{Op: '+', A: H(0, false, false, 0, "", 0, 0, 0)}, H(1, true, false, a110, "ff00:0:110", 1, 0, 0),
			H(1, true, false, a110, "ff00:0:110", 1, 0, 0), &c47Node{Op: '+', A: H(0, false, false, 0, "", 0, 0, 0)}),
		{Op: '*', A: H(0, false, false, 0, "", 0, 0, 0)},
	}
	twoHop := c47AllTwoHop()
	minimal := []c47Hop{{ISD: 1, AS: a110, Out: 1}, {ISD: 1, AS: 272, In: 2}}
	for i, root := range fixedExprs {
		expr := (&c47Printer{}).print(root)
		if i == 1 || i == 2 {
			// the two non-canonical spellings of F7 on their minimal path only, so
			// that each spelling class gets its own first witness
			c47JudgeSeq(r, root, expr, [][]c47Hop{nil, minimal}, 0)
			continue
		}
		lists := append(c47PathsFor(rng, root, 40, 40), twoHop...)
		lists = append(lists, minimal)
		c47JudgeSeq(r, root, expr, lists, 0)
	}

	// --- random expressions ---
	nExpr := r.Pick(2500, 40000)
	for i := 0; i < nExpr; i++ {
		spell := "canonical"
		switch rng.IntN(6) {
		case 0:
			spell = "uppercase-hex"
		case 1:
			spell = "hex-for-bgp-range"
		}
		root := c47GenNode(rng, 1+rng.IntN(4), spell)
		pr := &c47Printer{rng: rng, fullParens: rng.IntN(2) == 0}
		expr := pr.print(root)
		lists := c47PathsFor(rng, root, 30, 30)
		if i%r.Pick(25, 10) == 0 {
			lists = append(lists, twoHop...)
		}
		every := 0
		if i%400 == 17 {
			every = 1
		}
		c47JudgeSeq(r, root, expr, lists, every)
	}

	// --- ACLs and policies ---
	nACL := r.Pick(20000, 300000)
	for i := 0; i < nACL; i++ {
		c47CheckACL(r, rng, i)
	}
	nPol := r.Pick(15000, 200000)
	for i := 0; i < nPol; i++ {
		c47CheckPolicy(r, rng, i)
	}

	r.Require(int64(nExpr)*20, 60, "seq_rejected_before_valid", "seq_match", "seq_nomatch", "acl_judged", "policy_judged", "acl_filter", "policy_filter")
}
