package main

import (
	"fmt"
	"math/big"
	"math/rand/v2"
	"net/netip"
	"strings"

	"github.com/scionproto/scion/pkg/addr"

	"verif/mon"
)

// ---- reference model (independent of pkg/addr) ----

const refMaxBGP = uint64(1)<<32 - 1

// refFmtAS is the documented text form: decimal up to 2^32-1, else three
// sep-separated 16-bit lowercase hex groups; empty sep means ':'.
func refFmtAS(as uint64, sep string) string {
	if sep == "" {
		sep = ":"
	}
	if as <= refMaxBGP {
		return fmt.Sprintf("%d", as)
	}
	return fmt.Sprintf("%x%s%x%s%x", (as>>32)&0xffff, sep, (as>>16)&0xffff, sep, as&0xffff)
}

func allIn(s, set string) bool {
	if s == "" {
		return false
	}
	for _, c := range s {
		if !strings.ContainsRune(set, c) {
			return false
		}
	}
	return true
}

// refParseAS: the numeric meaning of an AS text, or !ok when the text has none.
func refParseAS(s, sep string) (uint64, bool) {
	if sep == "" {
		sep = ":"
	}
	parts := strings.Split(s, sep)
	switch len(parts) {
	case 1:
		if !allIn(s, "0123456789") {
			return 0, false
		}
		v, _ := new(big.Int).SetString(s, 10)
		if v.Cmp(new(big.Int).SetUint64(refMaxBGP)) > 0 {
			return 0, false
		}
		return v.Uint64(), true
	case 3:
		var out uint64
		for _, p := range parts {
			if !allIn(p, "0123456789abcdefABCDEF") {
				return 0, false
			}
			v, _ := new(big.Int).SetString(p, 16)
			if v.Cmp(big.NewInt(0xffff)) > 0 {
				return 0, false
			}
			out = out<<16 | v.Uint64()
		}
		return out, true
	}
	return 0, false
}

func refParseISD(s string) (uint64, bool) {
	if !allIn(s, "0123456789") {
		return 0, false
	}
	v, _ := new(big.Int).SetString(s, 10)
	if v.Cmp(big.NewInt(0xffff)) > 0 {
		return 0, false
	}
	return v.Uint64(), true
}

func refParseIA(s, sep string, prefix bool) (uint64, bool) {
	parts := strings.Split(s, "-")
	if len(parts) != 2 {
		return 0, false
	}
	if prefix {
		if !strings.HasPrefix(parts[0], "ISD") || !strings.HasPrefix(parts[1], "AS") {
			return 0, false
		}
		parts[0], parts[1] = parts[0][3:], parts[1][2:]
	}
	i, ok := refParseISD(parts[0])
	if !ok {
		return 0, false
	}
	a, ok := refParseAS(parts[1], sep)
	if !ok {
		return 0, false
	}
	return i<<48 | a, true
}

var refSVC = map[string]uint16{
	"DS": 1, "DS_A": 1, "DS_M": 0x8001,
	"CS": 2, "CS_A": 2, "CS_M": 0x8002,
	"Wildcard": 0x10, "Wildcard_A": 0x10, "Wildcard_M": 0x8010,
}

// ---- generators ----

func genAS(rng *rand.Rand) uint64 {
	edges := []uint64{0, 1, 9, 10, 65535, 65536, refMaxBGP - 1, refMaxBGP, refMaxBGP + 1, refMaxBGP + 2,
		1 << 33, 0xff00_0000_0110, 1<<48 - 2, 1<<48 - 1, 0x1_0000_0000, 0x1_0000_ffff, 0xffff_0000_0000, 0x0001_0001_0001}
	switch rng.IntN(4) {
	case 0:
		return edges[rng.IntN(len(edges))]
	case 1:
		return rng.Uint64() & refMaxBGP
	case 2:
		return rng.Uint64() & (1<<48 - 1)
	default:
		// sparse groups: zero groups in hex form
		var v uint64
		for i := 0; i < 3; i++ {
			v <<= 16
			if rng.IntN(2) == 0 {
				v |= uint64(rng.IntN(1 << 16))
			}
		}
		return v
	}
}

var safeSeps = []string{":", "_", "", ".", "/", "::", "~", "|", "__", ";", "x", "=", "%", "@"}

func asClass(as uint64) string {
	switch {
	case as == 0:
		return "zero"
	case as <= refMaxBGP:
		return "bgp"
	default:
		return "hex"
	}
}

func mutateText(rng *rand.Rand, s string) string {
	alphabet := "0123456789abcdefABCDEFxX:-_ ,+.#ISDASg\t[]"
	b := []byte(s)
	switch rng.IntN(8) {
	case 0: // insert
		p := rng.IntN(len(b) + 1)
		c := alphabet[rng.IntN(len(alphabet))]
		b = append(b[:p], append([]byte{c}, b[p:]...)...)
	case 1: // delete
		if len(b) > 0 {
			p := rng.IntN(len(b))
			b = append(b[:p], b[p+1:]...)
		}
	case 2: // replace
		if len(b) > 0 {
			b[rng.IntN(len(b))] = alphabet[rng.IntN(len(alphabet))]
		}
	case 3: // append overflow digits
		b = append(b, []byte(fmt.Sprintf("%d", rng.IntN(100000)))...)
	case 4: // prepend sign / space
		b = append([]byte{" +-0"[rng.IntN(4)]}, b...)
	case 5: // duplicate a separator
		if i := strings.IndexAny(string(b), ":-,"); i >= 0 {
			b = append(b[:i+1], b[i:]...)
		}
	case 6: // upper-case
		b = []byte(strings.ToUpper(string(b)))
	case 7: // extra group
		b = append(b, []byte(":"+fmt.Sprintf("%x", rng.IntN(1<<16)))...)
	}
	return string(b)
}

func checkC46(r *mon.Run) {
	r.Rule = "value × format option (prefix on/off × separator) round trips for ISD, AS, ISD-AS, SVC, host, address, " +
		"address+port, judged against an independent formatter/parser; accepted mutated/random texts must carry the " +
		"reference's numeric meaning; class = kind/value class/option or kind/mutation/outcome"
	r.Assumptions = []string{
		"separators containing '-' or hexadecimal digits are outside the sensible domain and not generated",
		"the reference grammar (decimal digits; 1+ hex digits per group with value <= 0xffff) is the documented one",
	}
	rng := r.Rand("c46")
	type w struct {
		Kind, Text, Sep string
		Prefix          bool
		Value           uint64
		Got             string
	}

	// --- ISD: every value (exhaustive, cheap) ---
	for v := 0; v <= 0xffff; v++ {
		isd := addr.ISD(v)
		for _, prefix := range []bool{false, true} {
			var opts []addr.FormatOption
			if prefix {
				opts = append(opts, addr.WithDefaultPrefix())
			}
			txt := addr.FormatISD(isd, opts...)
			want := fmt.Sprintf("%d", v)
			if prefix {
				want = "ISD" + want
			}
			r.Eval(1)
			if txt != want {
				r.Violation("C46:isd-format", "FormatISD differs from documented form", w{Kind: "isd", Value: uint64(v), Prefix: prefix, Got: txt, Text: want})
				continue
			}
			back, err := addr.ParseFormattedISD(txt, opts...)
			if err != nil || back != isd {
				r.Violation("C46:isd-roundtrip", fmt.Sprintf("ParseFormattedISD(%q) = %v, %v", txt, back, err), w{Kind: "isd", Value: uint64(v), Prefix: prefix, Text: txt})
			}
		}
		if s := isd.String(); s != fmt.Sprintf("%d", v) {
			r.Violation("C46:isd-string", "ISD.String", w{Kind: "isd", Value: uint64(v), Got: s})
		}
		if back, err := addr.ParseISD(fmt.Sprintf("%d", v)); err != nil || back != isd {
			r.Violation("C46:isd-parse", "ParseISD", w{Kind: "isd", Value: uint64(v)})
		}
	}
	r.Class("isd/all-values")
	r.Event("isd_roundtrip")

	// --- AS and ISD-AS round trips under all options ---
	n := r.Pick(60000, 2000000)
	for i := 0; i < n; i++ {
		as := genAS(rng)
		sep := safeSeps[rng.IntN(len(safeSeps))]
		prefix := rng.IntN(2) == 0
		useSep := rng.IntN(4) != 0
		var opts []addr.FormatOption
		effSep := ":"
		if useSep {
			opts = append(opts, addr.WithSeparator(sep))
			effSep = sep
		}
		if prefix {
			opts = append(opts, addr.WithDefaultPrefix())
		}
		if len(opts) == 2 {
			// A caller that keeps its options in one slice and first uses a prefix
			// of it: the callee must leave the rest of the slice alone.
			if rng.IntN(2) == 0 {
				opts[0], opts[1] = opts[1], opts[0]
			}
			one := opts[:1]
			t1 := addr.FormatAS(addr.AS(as), one...)
			b1, e1 := addr.ParseFormattedAS(t1, one...)
			r.Eval(1)
			r.Event("options_prefix_then_full")
			if e1 != nil || uint64(b1) != as {
				r.Violation("C46:as-roundtrip", fmt.Sprintf("ParseFormattedAS(FormatAS(%#x)) with the first of two options = %#x, %v (text %q)", as, uint64(b1), e1, t1),
					w{Kind: "as", Value: as, Sep: effSep, Prefix: prefix, Got: t1})
			}
		}
		sepClass := effSep
		key := "as/" + asClass(as) + "/sep=" + sepClass + fmt.Sprintf("/prefix=%v", prefix)
		r.Class(key)
		r.Eval(1)
		txt := addr.FormatAS(addr.AS(as), opts...)
		want := refFmtAS(as, effSep)
		if prefix {
			want = "AS" + want
		}
		wit := w{Kind: "as", Value: as, Sep: effSep, Prefix: prefix, Got: txt, Text: want}
		if r.WantSample() && i%1000 == 7 {
			r.Sample(wit)
		}
		vk := "C46:as-format"
		if effSep == "" && as > refMaxBGP {
			vk = "C46:empty-separator"
		}
		if txt != want {
			r.Violation(vk, fmt.Sprintf("FormatAS(%#x, sep=%q, prefix=%v) = %q, documented form %q", as, effSep, prefix, txt, want), wit)
		}
		back, err := addr.ParseFormattedAS(txt, opts...)
		if err != nil || uint64(back) != as {
			r.Violation(strings.Replace(vk, "format", "roundtrip", 1), fmt.Sprintf("ParseFormattedAS(FormatAS(%#x)) = %#x, %v (text %q sep %q)", as, uint64(back), err, txt, effSep), wit)
		}
		r.Event("as_roundtrip")

		// ISD-AS
		isd := uint64(rng.IntN(1 << 16))
		if rng.IntN(8) == 0 {
			isd = []uint64{0, 1, 65535}[rng.IntN(3)]
		}
		ia := addr.MustIAFrom(addr.ISD(isd), addr.AS(as))
		txtIA := addr.FormatIA(ia, opts...)
		wantIA := fmt.Sprintf("%d-%s", isd, refFmtAS(as, effSep))
		if prefix {
			wantIA = fmt.Sprintf("ISD%d-AS%s", isd, refFmtAS(as, effSep))
		}
		wit = w{Kind: "ia", Value: uint64(ia), Sep: effSep, Prefix: prefix, Got: txtIA, Text: wantIA}
		r.Eval(1)
		vk = "C46:ia-format"
		if effSep == "" && as > refMaxBGP {
			vk = "C46:empty-separator"
		}
		if txtIA != wantIA {
			r.Violation(vk, fmt.Sprintf("FormatIA = %q, documented form %q", txtIA, wantIA), wit)
		}
		backIA, err := addr.ParseFormattedIA(txtIA, opts...)
		if err != nil || backIA != ia {
			r.Violation(strings.Replace(vk, "format", "roundtrip", 1), fmt.Sprintf("ParseFormattedIA(%q) = %v, %v", txtIA, backIA, err), wit)
		}
		r.Event("ia_roundtrip")
		// default String / ParseIA / MarshalText
		if !useSep && !prefix {
			s := ia.String()
			p, err := addr.ParseIA(s)
			if s != wantIA || err != nil || p != ia {
				r.Violation("C46:ia-string", fmt.Sprintf("IA.String/ParseIA: %q -> %v, %v", s, p, err), wit)
			}
			var u addr.IA
			mt, _ := ia.MarshalText()
			if err := u.UnmarshalText(mt); err != nil || u != ia {
				r.Violation("C46:ia-text", "IA Marshal/UnmarshalText", wit)
			}
			var ua addr.AS
			mt, err = addr.AS(as).MarshalText()
			if err != nil || ua.UnmarshalText(mt) != nil || uint64(ua) != as {
				r.Violation("C46:as-text", "AS Marshal/UnmarshalText", wit)
			}
		}
	}

	// --- SVC / host / address ---
	svcVals := []uint16{1, 2, 0x10, 0x8001, 0x8002, 0x8010}
	for _, v := range svcVals {
		s := addr.SVC(v)
		txt := s.String()
		back, err := addr.ParseSVC(txt)
		r.Eval(1)
		r.Class("svc/" + txt)
		if want, ok := refSVC[txt]; !ok || want != v || err != nil || back != s {
			r.Violation("C46:svc-roundtrip", fmt.Sprintf("SVC %#x -> %q -> %#x, %v", v, txt, uint16(back), err), w{Kind: "svc", Value: uint64(v), Text: txt})
		}
	}
	for name, v := range refSVC {
		got, err := addr.ParseSVC(name)
		r.Eval(1)
		if err != nil || uint16(got) != v {
			r.Violation("C46:svc-parse", fmt.Sprintf("ParseSVC(%q) = %#x, %v; documented %#x", name, uint16(got), err, v), w{Kind: "svc", Text: name})
		}
	}
	nh := r.Pick(20000, 400000)
	for i := 0; i < nh; i++ {
		var h addr.Host
		var cls string
		switch rng.IntN(4) {
		case 0:
			var b [4]byte
			for j := range b {
				b[j] = byte(rng.IntN(256))
			}
			h = addr.HostIP(netip.AddrFrom4(b))
			cls = "ipv4"
		case 1:
			var b [16]byte
			for j := range b {
				if rng.IntN(3) != 0 {
					b[j] = byte(rng.IntN(256))
				}
			}
			a := netip.AddrFrom16(b)
			h = addr.HostIP(a)
			cls = "ipv6"
			if a.Is4In6() {
				cls = "ipv4in6"
			}
		case 2:
			var b [16]byte
			b[10], b[11] = 0xff, 0xff
			for j := 12; j < 16; j++ {
				b[j] = byte(rng.IntN(256))
			}
			h = addr.HostIP(netip.AddrFrom16(b))
			cls = "ipv4in6"
		default:
			h = addr.HostSVC(addr.SVC(svcVals[rng.IntN(len(svcVals))]))
			cls = "svc"
		}
		r.Class("host/" + cls)
		r.Eval(1)
		txt := h.String()
		back, err := addr.ParseHost(txt)
		if err != nil || back != h {
			r.Violation("C46:host-roundtrip/"+cls, fmt.Sprintf("ParseHost(%q) = %v, %v", txt, back, err), w{Kind: "host", Text: txt})
		}
		as := genAS(rng)
		ia := addr.MustIAFrom(addr.ISD(rng.IntN(1<<16)), addr.AS(as))
		a := addr.Addr{IA: ia, Host: h}
		atxt := a.String()
		ab, err := addr.ParseAddr(atxt)
		r.Eval(1)
		if err != nil || ab != a {
			r.Violation("C46:addr-roundtrip/"+cls, fmt.Sprintf("ParseAddr(%q) = %v, %v", atxt, ab, err), w{Kind: "addr", Text: atxt})
		}
		port := uint16(rng.IntN(1 << 16))
		ptxt := addr.FormatAddrPort(a, port)
		pa, pp, err := addr.ParseAddrPort(ptxt)
		r.Eval(1)
		if err != nil || pa != a || pp != port {
			r.Violation("C46:addrport-roundtrip/"+cls, fmt.Sprintf("ParseAddrPort(%q) = %v, %d, %v", ptxt, pa, pp, err), w{Kind: "addrport", Text: ptxt})
		}
		if r.WantSample() && i%5000 == 3 {
			r.Sample(w{Kind: "addrport", Text: ptxt})
		}
		r.Event("host_roundtrip")
	}

	// --- rejection: accepted text must have the reference's meaning ---
	nm := r.Pick(150000, 3000000)
	for i := 0; i < nm; i++ {
		as := genAS(rng)
		isd := uint64(rng.IntN(1 << 16))
		base := refFmtAS(as, ":")
		kind := "as"
		if rng.IntN(2) == 0 {
			kind = "ia"
			base = fmt.Sprintf("%d-%s", isd, base)
		}
		txt := base
		for k := rng.IntN(3) + 1; k > 0; k-- {
			txt = mutateText(rng, txt)
		}
		if rng.IntN(10) == 0 { // pure random string
			l := rng.IntN(20)
			alphabet := "0123456789abcdefABCDEF:-_ ,+x"
			b := make([]byte, l)
			for j := range b {
				b[j] = alphabet[rng.IntN(len(alphabet))]
			}
			txt = string(b)
		}
		r.Eval(1)
		var got uint64
		var err error
		var want uint64
		var ok bool
		if kind == "as" {
			var g addr.AS
			g, err = addr.ParseAS(txt)
			got = uint64(g)
			want, ok = refParseAS(txt, ":")
		} else {
			var g addr.IA
			g, err = addr.ParseIA(txt)
			got = uint64(g)
			want, ok = refParseIA(txt, ":", false)
		}
		outcome := "rejected"
		if err == nil {
			outcome = "accepted"
		}
		r.Class("mutated/" + kind + "/" + outcome + fmt.Sprintf("/ref=%v", ok))
		r.Event("mutated_" + outcome)
		if err == nil && (!ok || got != want) {
			r.Violation("C46:accepts-malformed/"+kind, fmt.Sprintf("Parse(%q) accepted with value %#x; reference: ok=%v value=%#x", txt, got, ok, want), w{Kind: kind, Text: txt, Value: got})
		}
		if err != nil && ok {
			r.Violation("C46:rejects-wellformed/"+kind, fmt.Sprintf("Parse(%q) rejected (%v) but text denotes %#x", txt, err, want), w{Kind: kind, Text: txt, Value: want})
		}
		if r.WantSample() && i%30000 == 11 {
			r.Sample(w{Kind: kind + "-mutated-" + outcome, Text: txt, Value: got})
		}
	}
	// out-of-range numbers, explicit
	for _, s := range []string{"4294967296", "65536-1", "1-4294967296", "1-10000:0:0", "1-0:10000:0", "1-0:0:10000",
		"-1", "1--1", "18446744073709551616", "1-18446744073709551616", "65536", "0x10", "1-0x10", "1-ffff:ffff:ffff:0"} {
		r.Eval(1)
		r.Class("explicit-out-of-range")
		if v, err := addr.ParseIA(s); err == nil {
			if want, ok := refParseIA(s, ":", false); !ok || want != uint64(v) {
				r.Violation("C46:accepts-malformed/ia", fmt.Sprintf("ParseIA(%q) = %v", s, v), w{Kind: "ia", Text: s})
			}
		}
		if v, err := addr.ParseAS(s); err == nil {
			if want, ok := refParseAS(s, ":"); !ok || want != uint64(v) {
				r.Violation("C46:accepts-malformed/as", fmt.Sprintf("ParseAS(%q) = %v", s, v), w{Kind: "as", Text: s})
			}
		}
	}
	// SVC / host rejection
	for i := 0; i < r.Pick(20000, 200000); i++ {
		names := []string{"DS", "CS", "Wildcard", "DS_A", "CS_M", "Wildcard_M", "1.2.3.4", "::1"}
		txt := mutateText(rng, names[rng.IntN(len(names))])
		r.Eval(1)
		if v, err := addr.ParseSVC(txt); err == nil {
			if want, ok := refSVC[txt]; !ok || want != uint16(v) {
				r.Violation("C46:accepts-malformed/svc", fmt.Sprintf("ParseSVC(%q) = %#x", txt, uint16(v)), w{Kind: "svc", Text: txt})
			}
			r.Class("mutated/svc/accepted")
		} else {
			if _, ok := refSVC[txt]; ok {
				r.Violation("C46:rejects-wellformed/svc", fmt.Sprintf("ParseSVC(%q): %v", txt, err), w{Kind: "svc", Text: txt})
			}
			r.Class("mutated/svc/rejected")
		}
		if h, err := addr.ParseHost(txt); err == nil {
			// accepted host must reformat to a text that parses to the same value
			if h2, err2 := addr.ParseHost(h.String()); err2 != nil || h2 != h {
				r.Violation("C46:host-unstable", fmt.Sprintf("ParseHost(%q)=%v does not round trip", txt, h), w{Kind: "host", Text: txt})
			}
			if h.Type() == addr.HostTypeSVC {
				if want, ok := refSVC[txt]; !ok || want != uint16(h.SVC()) {
					r.Violation("C46:accepts-malformed/host-svc", fmt.Sprintf("ParseHost(%q) = %v", txt, h), w{Kind: "host", Text: txt})
				}
			} else if ip, e := netip.ParseAddr(txt); e != nil || ip != h.IP() {
				r.Violation("C46:accepts-malformed/host-ip", fmt.Sprintf("ParseHost(%q) = %v", txt, h), w{Kind: "host", Text: txt})
			}
		}
	}
	r.Require(int64(n), 30, "isd_roundtrip", "as_roundtrip", "ia_roundtrip", "options_prefix_then_full", "host_roundtrip", "mutated_accepted", "mutated_rejected")
}
