package main

import (
	"encoding/binary"
	"math/rand/v2"

	"github.com/scionproto/scion/pkg/addr"
	"github.com/scionproto/scion/pkg/slayers/path/scion"
)

// Protocol numbers (doc/protocols/scion-header.rst, assigned protocol numbers).
const (
	protoTCP  = 6
	protoUDP  = 17
	protoHBH  = 200
	protoE2E  = 201
	protoSCMP = 202
	protoBFD  = 203
	protoExp  = 253
)

// rawSpec is a byte-level description of a SCION packet. It is serialized
// without the slayers encoder, so that header fields can take any value.
type rawSpec struct {
	TC       uint8
	Flow     uint32
	PathType uint8
	DT, ST   uint8 // 4-bit type/length nibbles
	DstIA    uint64
	SrcIA    uint64
	DstHost  []byte
	SrcHost  []byte
	Path     []byte
	HBH      []byte // complete hop-by-hop extension header (NextHdr byte is filled in), nil = none
	E2E      []byte // complete end-to-end extension header, nil = none
	L4       uint8
	L4Bytes  []byte
}

func (s *rawSpec) hdrLen() int { return 12 + 16 + len(s.DstHost) + len(s.SrcHost) + len(s.Path) }

// Build serializes the packet; HdrLen and PayloadLen are set consistently.
func (s *rawSpec) Build() []byte {
	hl := s.hdrLen()
	pl := len(s.HBH) + len(s.E2E) + len(s.L4Bytes)
	b := make([]byte, hl+pl)
	binary.BigEndian.PutUint32(b[0:4], uint32(s.TC)<<20|s.Flow&0xfffff)
	next := s.L4
	if s.E2E != nil {
		next = protoE2E
	}
	if s.HBH != nil {
		next = protoHBH
	}
	b[4] = next
	b[5] = uint8(hl / 4)
	binary.BigEndian.PutUint16(b[6:8], uint16(pl))
	b[8] = s.PathType
	b[9] = s.DT<<4 | s.ST&0xf
	binary.BigEndian.PutUint64(b[12:20], s.DstIA)
	binary.BigEndian.PutUint64(b[20:28], s.SrcIA)
	o := 28
	o += copy(b[o:], s.DstHost)
	o += copy(b[o:], s.SrcHost)
	o += copy(b[o:], s.Path)
	if s.HBH != nil {
		n := copy(b[o:], s.HBH)
		b[o] = s.L4
		if s.E2E != nil {
			b[o] = protoE2E
		}
		o += n
	}
	if s.E2E != nil {
		n := copy(b[o:], s.E2E)
		b[o] = s.L4
		o += n
	}
	copy(b[o:], s.L4Bytes)
	return b
}

// hostBytes returns the wire form and type nibble of an IP or SVC host.
func hostBytes(h addr.Host) ([]byte, uint8) {
	switch h.Type() {
	case addr.HostTypeSVC:
		b := make([]byte, 4)
		binary.BigEndian.PutUint16(b, uint16(h.SVC()))
		return b, 0b0100
	default:
		ip := h.IP()
		if ip.Is4() {
			return ip.AsSlice(), 0b0000
		}
		return ip.AsSlice(), 0b0011
	}
}

func pathBytes(d *scion.Decoded) []byte {
	b := make([]byte, d.Len())
	if err := d.SerializeTo(b); err != nil {
		panic(err)
	}
	return b
}

// mkExt builds an extension header around the given option bytes, padding
// with Pad1/PadN options to a multiple of four bytes. The NextHdr byte (index
// 0) is left for Build to fill in.
func mkExt(opts []byte) []byte {
	b := append([]byte{0, 0}, opts...)
	switch pad := (4 - len(b)%4) % 4; pad {
	case 1:
		b = append(b, 0)
	case 2:
		b = append(b, 1, 0)
	case 3:
		b = append(b, 1, 1, 0)
	}
	b[1] = uint8(len(b)/4 - 1)
	return b
}

func padNOpt(n int) []byte {
	b := make([]byte, 2+n)
	b[0], b[1] = 1, uint8(n)
	return b
}

func randBytes(rng *rand.Rand, n int) []byte {
	b := make([]byte, n)
	i := 0
	for ; i+8 <= n; i += 8 {
		binary.LittleEndian.PutUint64(b[i:], rng.Uint64())
	}
	for ; i < n; i++ {
		b[i] = byte(rng.IntN(256))
	}
	return b
}

// ---- layer-4 builders ----

func udpBytes(src, dst uint16, data []byte) []byte {
	b := make([]byte, 8+len(data))
	binary.BigEndian.PutUint16(b[0:], src)
	binary.BigEndian.PutUint16(b[2:], dst)
	binary.BigEndian.PutUint16(b[4:], uint16(8+len(data)))
	copy(b[8:], data)
	return b
}

func tcpBytes(src, dst uint16, data []byte) []byte {
	b := make([]byte, 20+len(data))
	binary.BigEndian.PutUint16(b[0:], src)
	binary.BigEndian.PutUint16(b[2:], dst)
	b[12] = 5 << 4
	copy(b[20:], data)
	return b
}

// scmpBytes is an SCMP message: type, code, checksum (left as given), then
// info block and data block.
func scmpBytes(typ, code uint8, body ...[]byte) []byte {
	b := []byte{typ, code, 0, 0}
	for _, x := range body {
		b = append(b, x...)
	}
	return b
}

func u16(v uint16) []byte { return []byte{byte(v >> 8), byte(v)} }
func u64(v uint64) []byte {
	b := make([]byte, 8)
	binary.BigEndian.PutUint64(b, v)
	return b
}

// scmpInfoLen is the size of the info block (after the 4-byte SCMP header)
// of each SCMP type per doc/protocols/scmp.rst.
func scmpInfoLen(typ uint8) int {
	switch typ {
	case 5:
		return 16
	case 6:
		return 24
	case 130, 131:
		return 20
	default:
		return 4
	}
}

// scmpWithQuote builds an SCMP message of the given type with a
// pseudo-random info block and the given data block.
func scmpWithQuote(rng *rand.Rand, typ, code uint8, data []byte) []byte {
	info := randBytes(rng, scmpInfoLen(typ))
	return scmpBytes(typ, code, info, data)
}

// ---- walking a packet's next-header chain (reference side) ----

// chain describes the positions of the extension headers and the L4 payload.
type chain struct {
	ok      bool
	hbhOff  int // -1 if absent
	e2eOff  int
	l4Off   int
	l4Proto uint8
	// offset of the byte holding the last NextHdr value (the L4 protocol)
	lastNextOff int
}

// walkChain follows NextHdr from the SCION header through at most one HBH and
// one E2E extension (in that order), independently of slayers.
func walkChain(b []byte) chain {
	c := chain{hbhOff: -1, e2eOff: -1}
	if len(b) < 12 {
		return c
	}
	off := int(b[5]) * 4
	if off > len(b) || off < 12 {
		return c
	}
	nh := b[4]
	c.lastNextOff = 4
	if nh == protoHBH {
		if off+2 > len(b) {
			return c
		}
		l := (int(b[off+1]) + 1) * 4
		if off+l > len(b) {
			return c
		}
		c.hbhOff = off
		nh = b[off]
		c.lastNextOff = off
		off += l
	}
	if nh == protoE2E {
		if off+2 > len(b) {
			return c
		}
		l := (int(b[off+1]) + 1) * 4
		if off+l > len(b) {
			return c
		}
		c.e2eOff = off
		nh = b[off]
		c.lastNextOff = off
		off += l
	}
	c.l4Off, c.l4Proto, c.ok = off, nh, true
	return c
}

// isSCMPError reports whether the packet carries (behind its extension
// headers) an SCMP message whose type is an error type (< 128), and whether
// that could be determined at all.
func isSCMPError(b []byte) (isErr, isSCMP, determinable bool) {
	c := walkChain(b)
	if !c.ok {
		return false, false, false
	}
	if c.l4Proto != protoSCMP {
		return false, false, true
	}
	if len(b)-c.l4Off < 4 {
		return false, true, false
	}
	return b[c.l4Off] < 128, true, true
}
