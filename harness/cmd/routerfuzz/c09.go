package main

import (
	"net/netip"
	"bytes"
	"encoding/binary"
	"encoding/hex"
	"encoding/json"
	"fmt"
	"github.com/scionproto/scion/private/drkey/drkeyutil"
	"os"
	"sync"
	"time"

	"github.com/gopacket/gopacket"

	"github.com/scionproto/scion/pkg/addr"
	"github.com/scionproto/scion/pkg/drkey"
	"github.com/scionproto/scion/pkg/slayers"
	"github.com/scionproto/scion/pkg/spao"
	"github.com/scionproto/scion/private/topology"
	"github.com/scionproto/scion/router"

	"verif/mon"
	"verif/rfix"
)

// Causes the C09 generator injects, one per case, into an otherwise valid packet.
const (
	cBadMAC = iota
	cExpired
	cUnknownIngress
	cUnknownEgress
	cSrcIA
	cDstIA
	cInvalidPath
	cSegChange
	cBadSize
	cDstHost
	cSrcHost
	cNoSVC
	cIfDown // only on routers whose links have (never started, hence down) BFD sessions
	numCauses
)

var causeNames = [...]string{"bad-mac", "expired", "unknown-ingress", "unknown-egress", "src-ia", "dst-ia",
	"invalid-path", "seg-change", "bad-size", "dst-host", "src-host", "no-svc", "if-down"}

// expectation is what doc/protocols/scmp.rst prescribes for the injected cause.
type expectation struct {
	typ, code uint8
	ptr       int // -1: the pointer is not judged (the documentation does not fix it for this cause)
	// type 5/6 info block
	ifInfo          bool
	ingress, egress uint64
}

type c09Witness struct {
	fuzzWitness
	Cause    string `json:"cause"`
	Scenario string `json:"scenario"`
	Expect   string `json:"expected"`
}

// allowed interface-type pairs (ingress, egress) inside a segment and at a
// segment change, from the statement of the link-type property; used only to
// pick a forbidden pair for injection.
func pairAllowed(in, eg topology.LinkType, xover bool) bool {
	if xover {
		return (in == topology.Core && eg == topology.Child) || (in == topology.Child && eg == topology.Core) ||
			(in == topology.Child && eg == topology.Child)
	}
	return (in == topology.Core && eg == topology.Core) || (in == topology.Child && eg == topology.Parent) ||
		(in == topology.Parent && eg == topology.Child) || (in == topology.Child && eg == topology.Peer) ||
		(in == topology.Peer && eg == topology.Child)
}

var allLinkTypes = []topology.LinkType{topology.Core, topology.Parent, topology.Child, topology.Peer}

// c09One generates, runs and judges one case. It returns false if the drawn
// combination was not applicable (the caller draws again).
func (f *fz) c09One(idx int) bool {
	rng := f.rng
	si := f.star()
	s, v := f.stars[si], f.variants[si]
	now := time.Now()
	cause := rng.IntN(int(cIfDown))
	if v.BFD {
		cause = cIfDown
	}
	// shape compatible with the cause
	var shape rfix.Shape
	switch cause {
	case cInvalidPath:
		shape = rfix.ShTransit
	case cSegChange:
		shape = rfix.ShXover
	case cDstHost, cNoSVC:
		shape = rfix.ShDst
	case cSrcHost:
		shape = rfix.ShSrc
	case cUnknownIngress:
		shape = pick(rng, rfix.ShDst, rfix.ShTransit, rfix.ShXover, rfix.ShPeerUp, rfix.ShPeerDown)
	case cUnknownEgress, cIfDown:
		shape = pick(rng, rfix.ShSrc, rfix.ShTransit, rfix.ShXover, rfix.ShPeerUp, rfix.ShPeerDown)
	default:
		shape = rfix.Shape(rng.IntN(int(rfix.NumShapes)))
	}
	sc := s.GenScenario(rng, shape, now.Unix())
	in := sc.In
	external := sc.Arr == rfix.ArrExternal && in.IfID != 0
	switch cause {
	case cInvalidPath, cSegChange, cUnknownIngress:
		if !external {
			return false
		}
	}
	// lengthen the path: total hop counts around the point where the reply
	// header no longer fits the 512-byte headroom, and up to the maximum of 64
	hops := sc.Spec.NumHops()
	target := hops
	switch rng.IntN(6) {
	case 0:
		target = 16 + rng.IntN(10)
	case 1:
		target = 32 + rng.IntN(10) // boundary region: 12+addr+4+8n+12h+8(+32) vs 512
	case 2:
		target = 44 + rng.IntN(16)
	case 3:
		target = 64 - rng.IntN(3)
	}
	if target > hops {
		extra := make([]int, len(sc.Spec.Segs))
		for left := target - hops; left > 0; left-- {
			i := rng.IntN(len(extra))
			if len(sc.Spec.Segs[i].Seg.Hops)+extra[i] < 63 {
				extra[i]++
			}
		}
		sc.FuzzPadSegments(rng, extra)
	}
	ex := expectation{ptr: -1}
	cur := sc.Spec.Cur
	lastLocal := sc.LocalHops[len(sc.LocalHops)-1]
	tgtHop := -1  // hop the pointer must designate
	tgtInfo := -1 // or info field
	var rawPatch func(b []byte, h *rfix.Hdr) []byte
	curConsDir := sc.FuzzConsDirOf(cur)
	opts := pktOpts{L4: rng.IntN(l4BFD), Ext: rng.IntN(4), Epic: rng.IntN(16) == 0}
	// ---- inject the cause ----
	switch cause {
	case cBadMAC:
		t := sc.LocalHops[rng.IntN(len(sc.LocalHops))]
		bit := rng.IntN(48)
		rawPatch = func(b []byte, h *rfix.Hdr) []byte { b[h.HopOff[t]+6+bit/8] ^= 1 << (bit % 8); return b }
		ex.typ, ex.code, tgtHop = 4, 51, t
	case cExpired:
		t := sc.LocalHops[rng.IntN(len(sc.LocalHops))]
		segIdx, _ := sc.Spec.Locate(t)
		seg := sc.Spec.Segs[segIdx].Seg
		hop := sc.Spec.HopAt(t)
		off := pick(rng, -2*time.Second, -5*time.Second, -time.Minute, -time.Hour, -24*time.Hour)
		hop.Exp = uint8(rng.IntN(256))
		life := time.Duration(rfix.ExpDurationNs(hop.Exp))
		seg.Ts = uint32(now.Add(off).Add(-life).Unix())
		for i := range seg.Hops {
			if &seg.Hops[i] != hop {
				seg.Hops[i].Exp = 255
			}
		}
		// (the other hops of this segment belong to other ASes: the two hops this AS
		// validates at a cross-over lie in different segments)
		seg.Seal(rng)
		ex.typ, ex.code, tgtHop = 4, 52, t
	case cUnknownIngress:
		other, ok := s.FuzzPickIf(rng, -1, 1, in.IfID)
		if !ok {
			return false
		}
		in = rfix.Ingress{IfID: other.ID}
		ex.typ, tgtHop = 4, cur
		ex.code = 50
		if curConsDir {
			ex.code = 49
		}
	case cUnknownEgress:
		var eg uint16
		if !external && rng.IntN(2) == 0 {
			// from inside the AS towards an interface of a sibling router
			fi, ok := s.FuzzPickIf(rng, -1, 0, 0)
			if !ok {
				return false
			}
			eg = fi.ID
		} else {
			for {
				eg = uint16(1 + rng.IntN(65535))
				if _, used := s.FuzzIf(eg); !used {
					break
				}
			}
		}
		sc.FuzzSetEgress(rng, lastLocal, eg)
		ex.typ, tgtHop = 4, lastLocal
		ex.code = 49
		if sc.FuzzConsDirOf(lastLocal) {
			ex.code = 50
		}
	case cSrcIA, cDstIA:
		// applied on the rawSpec below
	case cInvalidPath, cSegChange:
		inIf, _ := s.FuzzIf(sc.InIf)
		var cands []topology.LinkType
		for _, lt := range allLinkTypes {
			if !pairAllowed(inIf.LinkTo, lt, cause == cSegChange) {
				cands = append(cands, lt)
			}
		}
		eg, ok := s.FuzzPickIf(rng, int(cands[rng.IntN(len(cands))]), -1, sc.InIf)
		if !ok {
			return false
		}
		sc.FuzzSetEgress(rng, lastLocal, eg.ID)
		if cause == cInvalidPath {
			ex.typ, ex.code, tgtHop = 4, 48, lastLocal
		} else {
			ex.typ, ex.code = 4, 53
			tgtInfo, _ = sc.Spec.Locate(lastLocal)
		}
	case cBadSize:
		ex.typ, ex.code = 4, 19
		k := rng.IntN(3)
		rawPatch = func(b []byte, h *rfix.Hdr) []byte {
			pl := binary.BigEndian.Uint16(b[6:])
			switch k {
			case 0:
				binary.BigEndian.PutUint16(b[6:], pl+uint16(1+rng.IntN(300)))
			case 1:
				d := uint16(1 + rng.IntN(300))
				if d > pl {
					d = pl
				}
				if d == 0 {
					b = append(b, 0)
				} else {
					binary.BigEndian.PutUint16(b[6:], pl-d)
				}
			default:
				b = append(b, randBytes(rng, 1+rng.IntN(64))...)
			}
			return b
		}
	case cDstHost:
		ex.typ, ex.code = 4, 34
	case cSrcHost:
		ex.typ, ex.code = 4, 33
	case cNoSVC:
		sc.DstHost = addr.HostSVC(pick(rng, addr.SvcDS, addr.SvcWildcard, addr.SvcDS|addr.SVCMcast, addr.SVC(0x0003), addr.SVC(0x7fff)))
		ex.typ, ex.code = 1, 0
	case cIfDown:
		l := s.Link(sc.EgIf)
		if l == nil {
			return false
		}
		if l.IsUp() {
			cause = -1 // valid packet on a router with BFD: must simply be forwarded
		} else if l.Scope() == router.External {
			ex = expectation{typ: 5, ptr: -1, ifInfo: true, egress: uint64(sc.EgIf)}
		} else {
			ig := uint64(0)
			if external {
				ig = uint64(in.IfID)
			}
			ex = expectation{typ: 6, ptr: -1, ifInfo: true, ingress: ig, egress: uint64(sc.EgIf)}
		}
	}
	// ---- size, layer 4, source host form ----
	sizeClass := rng.IntN(7)
	switch sizeClass {
	case 0:
		opts.Size = rng.IntN(16)
	case 1:
		opts.Size = 16 + rng.IntN(300)
	case 2:
		opts.Size = 300 + rng.IntN(600)
	case 3:
		opts.Size = 1000 + rng.IntN(400) // around the 1232 bound
	case 4:
		opts.Size = 1400 + rng.IntN(3000)
	case 5:
		opts.Size = 4400 + rng.IntN(4000)
	case 6:
		opts.Size = maxInput // trimmed below to fill the buffer exactly
	}
	rs := scnSpec(rng, sc, opts)
	srcForm := "ip4"
	if len(rs.SrcHost) == 16 {
		srcForm = "ip6"
	}
	switch cause {
	case cSrcIA:
		if sc.Shape == rfix.ShSrc {
			rs.SrcIA = uint64(rfix.OtherIA)
		} else {
			rs.SrcIA = uint64(s.Cfg.IA)
		}
		ex.typ, ex.code, ex.ptr = 4, 33, 20
	case cDstIA:
		if sc.Shape == rfix.ShDst {
			rs.DstIA = uint64(rfix.OtherIA)
		} else {
			rs.DstIA = uint64(s.Cfg.IA)
		}
		ex.typ, ex.code, ex.ptr = 4, 34, 12
	case cDstHost:
		switch rng.IntN(5) {
		case 0:
			rs.DstHost, rs.DT = append(make([]byte, 10), 0xff, 0xff, 10, 1, 2, 3), 0b0011 // v4-mapped
		case 1:
			rs.DstHost, rs.DT = make([]byte, 4), 0b0000 // 0.0.0.0
		case 2:
			rs.DstHost, rs.DT = make([]byte, 16), 0b0011 // ::
		case 3:
			rs.DstHost, rs.DT = randBytes(rng, 8), pick[uint8](rng, 0b0001, 0b0101, 0b1001) // 8-byte types
		case 4:
			rs.DstHost, rs.DT = randBytes(rng, 4), pick[uint8](rng, 0b1000, 0b1100) // unknown 4-byte types
		}
	case cSrcHost:
		switch rng.IntN(3) {
		case 0:
			rs.SrcHost, rs.ST = append(make([]byte, 10), 0xff, 0xff, 10, 1, 2, 3), 0b0011
			srcForm = "ip4in6"
		case 1:
			rs.SrcHost, rs.ST = randBytes(rng, 12), pick[uint8](rng, 0b0010, 0b0110)
			srcForm = "unknown12"
		case 2:
			rs.SrcHost, rs.ST = randBytes(rng, 4), pick[uint8](rng, 0b1000, 0b1100)
			srcForm = "unknown4"
		}
	}
	// offenders outside the AS may carry any source host form
	if rs.SrcIA != uint64(s.Cfg.IA) && cause != cSrcHost {
		switch rng.IntN(8) {
		case 0:
			rs.SrcHost, rs.ST = []byte{0, byte(1 + rng.IntN(2)), 0, 0}, 0b0100
			srcForm = "svc"
		case 1:
			rs.SrcHost, rs.ST = randBytes(rng, 8), pick[uint8](rng, 0b0001, 0b0101)
			srcForm = "unknown8"
		case 2:
			rs.SrcHost, rs.ST = randBytes(rng, 4), 0b1000
			srcForm = "unknown4"
		}
	}
	// keep the whole packet inside the receive buffer
	if over := rs.hdrLen() + len(rs.HBH) + len(rs.E2E) + len(rs.L4Bytes) - maxInput; over > 0 {
		if over >= len(rs.L4Bytes)-24 {
			return false
		}
		rs.L4Bytes = rs.L4Bytes[:len(rs.L4Bytes)-over]
	}
	raw := rs.Build()
	h, err := rfix.ParseHdr(raw)
	if err != nil {
		reportViolation(f.r, "C09:fixture-parse", "reference parser rejects a generated packet: "+err.Error(), hex.EncodeToString(raw))
		return true
	}
	if tgtHop >= 0 {
		ex.ptr = h.HopOff[tgtHop]
	}
	if tgtInfo >= 0 {
		ex.ptr = h.InfoOff[tgtInfo]
	}
	if rawPatch != nil {
		raw = rawPatch(raw, h)
		if len(raw) > maxInput {
			raw = raw[:maxInput]
		}
	}
	// ---- run ----
	f.li.put(f.id, v.Idx, "c09", raw, in)
	var again []byte
	if f.acrossEpoch {
		again = append([]byte(nil), raw...)
	}
	t0 := time.Now()
	res := s.Process(raw, in)
	t1 := time.Now()
	f.a.eval()
	cname := "valid"
	if cause >= 0 {
		cname = causeNames[cause]
	}
	wit := func() c09Witness {
		return c09Witness{fuzzWitness: mkWitness(s, v, "c09", raw, in, &res), Cause: cname,
			Scenario: fmt.Sprintf("%s kinds=%v consdir=%v in=%d eg=%d hops=%d cur=%d local=%v epic=%v src=%s", sc.Shape, sc.Kinds, sc.ConsDirs, sc.InIf, sc.EgIf, h.NumHF, cur, sc.LocalHops, opts.Epic, srcForm),
			Expect:   fmt.Sprintf("type %d code %d pointer %d", ex.typ, ex.code, ex.ptr)}
	}
	if f.panicOnly {
		// C08 mode: same structured inputs, judged only by C08's statement
		f.a.event("structured_error_case")
		if res.Panic != "" {
			f.violation("C08:panic:"+panicFunc(res.Stack), "router packet processing panicked on a structured error-provoking packet ("+cname+"): "+res.Panic,
				mkWitness(s, v, "c09gen:"+cname, raw, in, &res))
			return true
		}
		if res.Out != nil {
			if _, err := rfix.ParseHdr(res.Out); err != nil {
				f.violation("C08:malformed-output:structured:"+cname, "emitted packet is inconsistent: "+err.Error(), mkWitness(s, v, "c09gen:"+cname, raw, in, &res))
			}
		}
		f.r.Class("c09gen:" + cname + "/" + outcomeOf(&res))
		return true
	}
	if res.Panic != "" {
		// a crash is C08's subject; here it only means that no SCMP message could be judged
		f.r.Inconclusive("router-panic(judged-by-C08)")
		f.a.event("panic_not_judged_here")
		return true
	}
	outcome := outcomeOf(&res)
	authS := "noauth"
	if v.Auth {
		authS = "auth"
	}
	kind := ingressKind(s, in)
	offErr, offSCMP, offKnown := isSCMPError(raw)
	l4class := "l4-other"
	switch {
	case offKnown && offErr:
		l4class = "l4-scmp-error"
	case offKnown && offSCMP:
		l4class = "l4-scmp-info"
	}
	place := "none"
	emittedErr := res.ViaSlow && res.SlowKind >= 0 && res.Out != nil
	if emittedErr {
		place = "headroom"
		if res.BufOffset > router.VerifMinHeadroom {
			place = "packed-at-end"
		}
		f.a.class("placement:" + place + "/" + authS)
		f.a.event("placement_" + place)
	}
	f.a.class(fmt.Sprintf("%s/%s/%s/%s/ext%d/%s/src-%s/%s", cname, kind, authS, l4class, opts.Ext, place, srcForm, outcome))
	f.a.class(fmt.Sprintf("cause:%s/%s", cname, outcome))
	f.a.class(fmt.Sprintf("offender-l4:%s/%s", l4Names[opts.L4], map[bool]string{true: "answered", false: "silent"}[emittedErr]))
	f.a.class(fmt.Sprintf("size%d/hops%d/%s", sizeClass, h.NumHF/8, place))
	if !emittedErr {
		if offKnown && offErr && res.ViaSlow && res.SlowKind >= 0 {
			f.a.event("scmp_error_offender_not_answered")
		}
		if cause < 0 && res.Forwarded() {
			f.a.event("valid_forwarded")
		}
		return true
	}
	f.a.event("scmp_error_emitted")
	f.a.event("emitted:" + cname)
	if f.id == 0 && f.r.WantSample() && idx%97 == 0 {
		f.r.Sample(wit())
	}
	viol := func(key, what string) { reportViolation(f.r, key, what, wit()) }
	f.judgeSCMPError(s, v, raw, h, &res, cname, cause >= 0, ex, opts.Epic, outcome, t0, t1, viol)
	if f.acrossEpoch && v.Auth && f.drk != nil {
		// the same offender, the same router, the next DRKey epoch
		d := f.drk.EpochDuration
		next := time.Now().Truncate(d).Add(d).Add(30 * time.Millisecond)
		time.Sleep(time.Until(next))
		t0 = time.Now()
		res = s.Process(again, in)
		t1 = time.Now()
		f.a.eval()
		if res.Panic == "" && res.ViaSlow && res.SlowKind >= 0 && res.Out != nil {
			f.a.event("across_epoch_rejudged")
			f.a.class("across-epoch/" + cname)
			outcome = outcomeOf(&res)
			viol2 := func(key, what string) {
				reportViolation(f.r, key, what+" (same offender again in the next DRKey epoch)", wit())
			}
			f.judgeSCMPError(s, v, again, h, &res, cname, cause >= 0, ex, opts.Epic, outcome, t0, t1, viol2)
		}
	}
	return true
}

// judgeSCMPError applies the C09 oracle to one SCMP error message the router
// emitted (res.Out) in answer to the offending packet raw, whose header
// layout (before any defect injection that changes lengths) is h.
func (f *fz) judgeSCMPError(s *rfix.Star, v starVariant, raw []byte, h *rfix.Hdr, res *rfix.Result, cname string,
	haveCause bool, ex expectation, epic bool, outcome string, t0, t1 time.Time, viol func(key, what string)) {
	offErr, offSCMP, offKnown := isSCMPError(raw)
	out := res.Out
	// (1) never in response to an SCMP error
	if offKnown && offErr {
		viol("C09:error-for-scmp-error", fmt.Sprintf("an SCMP error (%s) was generated in response to a packet that itself carries an SCMP error message (type %d)", outcome, raw[walkChain(raw).l4Off]))
		return
	}
	if offKnown && offSCMP {
		f.a.event("scmp_info_offender_answered")
	}
	// (2) size bound
	if len(out) > 1232 {
		viol("C09:too-long", fmt.Sprintf("SCMP error message is %d bytes long, more than 1232", len(out)))
	}
	// (3) structure
	jv := judgeSCION(out, &f.sl)
	if !jv.ok {
		viol("C09:malformed:"+jv.cat, "emitted SCMP packet is not a consistent SCION packet: "+jv.detail)
		return
	}
	m := rfix.ParseSCMP(out)
	if !m.OK {
		viol("C09:unparsable-scmp", "emitted packet does not carry a well-formed SCMP error message")
		return
	}
	oh := m.Hdr
	// (4) addressed to the offender's source, from this router
	if oh.DstIA != binary.BigEndian.Uint64(raw[20:28]) || oh.DT != h.ST || oh.DL != h.SL || !bytes.Equal(oh.DstHost, raw[28+len(h.DstHost):28+len(h.DstHost)+len(h.SrcHost)]) {
		viol("C09:not-addressed-to-source", fmt.Sprintf("destination of the SCMP message (%x, type %d/%d, %x) is not the offending packet's source (%x, type %d/%d, %x)",
			oh.DstIA, oh.DT, oh.DL, oh.DstHost, h.SrcIA, h.ST, h.SL, h.SrcHost))
	}
	localAP := rfix.SiblingAddr(0)
	if s.Cfg.InternalAddr != "" {
		localAP = netip.MustParseAddrPort(s.Cfg.InternalAddr)
	}
	local := localAP.Addr().AsSlice()
	wantSL := uint8(len(local)/4 - 1)
	if oh.SrcIA != uint64(s.Cfg.IA) || oh.ST != 0 || oh.SL != wantSL || !bytes.Equal(oh.SrcHost, local) {
		viol("C09:not-from-router", fmt.Sprintf("source of the SCMP message (%x, type %d/%d, %x) is not the local ISD-AS %x and router address %x", oh.SrcIA, oh.ST, oh.SL, oh.SrcHost, uint64(s.Cfg.IA), local))
	}
	// (5) checksum
	if !m.CsumOK {
		viol("C09:checksum", "checksum over pseudo header and SCMP message does not fold to 0xffff")
	}
	// (6) type, code, pointer
	if haveCause {
		if m.Type != ex.typ || m.Code != ex.code {
			viol("C09:wrong-typecode:"+cname, fmt.Sprintf("SCMP %d/%d for injected cause %s, expected %d/%d", m.Type, m.Code, cname, ex.typ, ex.code))
		} else if ex.typ == 4 {
			switch {
			case ex.ptr < 0:
				f.a.class(fmt.Sprintf("pointer-not-judged:%s=%d", cname, m.Pointer))
			case int(m.Pointer) != ex.ptr && epic:
				viol("C09:wrong-pointer:epic", fmt.Sprintf("pointer %d does not designate the offending field at offset %d of the EPIC packet", m.Pointer, ex.ptr))
			case int(m.Pointer) != ex.ptr:
				viol("C09:wrong-pointer:"+cname, fmt.Sprintf("pointer %d does not designate the offending field at offset %d", m.Pointer, ex.ptr))
			default:
				f.a.event("pointer_ok")
			}
		}
		if ex.ifInfo && m.Type == ex.typ {
			bad := m.IA != uint64(s.Cfg.IA) || (ex.typ == 5 && m.IfA != ex.egress) ||
				(ex.typ == 6 && (m.IfA != ex.ingress || m.IfB != ex.egress))
			if bad {
				viol("C09:wrong-interface-info", fmt.Sprintf("interface-down message reports IA %x if %d/%d, expected local IA %x ingress %d egress %d", m.IA, m.IfA, m.IfB, uint64(s.Cfg.IA), ex.ingress, ex.egress))
			}
		}
	} else {
		viol("C09:error-for-valid-packet", "an SCMP error was generated for a packet without injected defect (fixture or router defect)")
	}
	// (7) quote is a prefix of the offending packet (path state the router
	// legitimately updates before it detects the problem is masked: CurrINF/CurrHF,
	// SegIDs, router-alert flags)
	q := m.Quote
	if len(q) > len(raw) {
		viol("C09:quote-not-prefix", fmt.Sprintf("quote (%d bytes) is longer than the offending packet (%d)", len(q), len(raw)))
	} else {
		exact := bytes.Equal(q, raw[:len(q)])
		if !exact {
			a, b := append([]byte(nil), q...), append([]byte(nil), raw[:len(q)]...)
			maskMutable(a, h)
			maskMutable(b, h)
			if !bytes.Equal(a, b) {
				d := 0
				for d < len(a) && a[d] == b[d] {
					d++
				}
				viol("C09:quote-not-prefix", fmt.Sprintf("quoted bytes differ from the offending packet at offset %d (outside mutable path state)", d))
			} else {
				f.a.event("quote_prefix_modulo_path_state")
			}
		} else {
			f.a.event("quote_exact_prefix")
		}
		if len(q) == len(raw) || len(out) == 1232 {
			f.a.event("quote_maximal")
		} else {
			f.a.event("quote_not_maximal(not judged)")
		}
	}
	// (8) authentication
	if v.Auth {
		f.checkAuth(out, &m, t0, t1, viol)
	}
}

// maskMutable zeroes, in a prefix b of a packet with header layout h, the path
// state a router updates while processing.
func maskMutable(b []byte, h *rfix.Hdr) {
	if h.PathType != 1 && h.PathType != 3 {
		return
	}
	if len(h.InfoOff) == 0 {
		return
	}
	if o := h.InfoOff[0] - 4; o < len(b) {
		b[o] = 0
	}
	for _, o := range h.InfoOff {
		if o+4 <= len(b) {
			b[o+2], b[o+3] = 0, 0
		}
	}
	for _, o := range h.HopOff {
		if o < len(b) {
			b[o] &^= 3
		}
	}
}

// checkAuth verifies the authenticator of an authenticated SCMP error: SPAO
// option present in the end-to-end extension, DRKey SPI for SCMP / AS-host /
// sender side, AES-CMAC, timestamp inside the bracket of the call relative to
// the FakeProvider epoch, and the MAC recomputed under the FakeProvider
// AS-host key for (destination IA, destination host).
func (f *fz) checkAuth(out []byte, m *rfix.SCMPInfo, t0, t1 time.Time, viol func(key, what string)) {
	if !m.HasE2E {
		viol("C09:auth-missing", "SCMP authentication is enabled but the error message has no end-to-end extension")
		return
	}
	var e2e slayers.EndToEndExtn
	if err := e2e.DecodeFromBytes(m.E2E, gopacket.NilDecodeFeedback); err != nil {
		viol("C09:auth-missing", "end-to-end extension does not decode: "+err.Error())
		return
	}
	eo, err := e2e.FindOption(slayers.OptTypeAuthenticator)
	if err != nil {
		viol("C09:auth-missing", "end-to-end extension carries no authenticator option")
		return
	}
	ao, err := slayers.ParsePacketAuthOption(eo)
	if err != nil || len(ao.Authenticator()) != 16 {
		viol("C09:auth-malformed", "authenticator option is malformed")
		return
	}
	if uint32(ao.SPI()) != uint32(drkey.SCMP) || ao.Algorithm() != slayers.PacketAuthCMAC {
		viol("C09:auth-malformed", fmt.Sprintf("SPI %#x / algorithm %d, expected DRKey SCMP AS-host sender-side (%#x) with AES-CMAC", uint32(ao.SPI()), ao.Algorithm(), uint32(drkey.SCMP)))
		return
	}
	dst, err := f.sl.DstAddr()
	if err != nil {
		viol("C09:auth-malformed", "destination host of an authenticated message does not parse")
		return
	}
	drk := fakeDRKey
	if f.drk != nil {
		drk = f.drk
	}
	k0, _ := drk.GetASHostKey(t0, f.sl.DstIA, dst)
	k1, _ := drk.GetASHostKey(t1, f.sl.DstIA, dst)
	if k0.Epoch != k1.Epoch {
		f.r.Inconclusive("time-bracket(drkey-epoch)")
		return
	}
	abs := spao.AbsoluteTimestamp(k0.Epoch, ao.TimestampSN())
	if abs.Before(t0.Add(-time.Microsecond)) || abs.After(t1.Add(time.Microsecond)) {
		viol("C09:auth-timestamp", fmt.Sprintf("authenticator timestamp %v is outside the processing interval [%v, %v]", abs, t0, t1))
	}
	want, err := spao.ComputeAuthCMAC(spao.MACInput{Key: k0.Key[:], Header: ao, ScionLayer: &f.sl,
		PldType: slayers.L4SCMP, Pld: m.Upper}, make([]byte, spao.MACBufferSize), make([]byte, 16))
	if err != nil {
		viol("C09:auth-malformed", "MAC input cannot be serialized: "+err.Error())
		return
	}
	if !bytes.Equal(want, ao.Authenticator()) {
		viol("C09:auth-mac", fmt.Sprintf("authenticator %x differs from the recomputation %x under the FakeProvider AS-host key", ao.Authenticator(), want))
		return
	}
	f.a.event("auth_mac_ok")
}

var c09Variants = []starVariant{
	{Idx: 0, Reuse: true, Auth: false},
	{Idx: 1, Reuse: true, Auth: true},
	{Idx: 2, Reuse: false, Auth: false},
	{Idx: 3, Reuse: false, Auth: true},
	{Idx: 4, Reuse: true, Auth: false, BFD: true},
	{Idx: 5, Reuse: false, Auth: true, BFD: true},
	{Idx: 6, Reuse: true, Auth: false, SvcChurn: true},
	{Idx: 7, Reuse: true, Auth: false, V6Internal: true},
	{Idx: 8, Reuse: false, Auth: true, V6Internal: true},
}

func checkC09(r *mon.Run) {
	r.Rule = "one defect per otherwise valid packet: invalid hop MAC, expired hop, unknown ingress / egress interface, invalid source / destination ISD-AS, forbidden interface pair inside a segment, " +
		"forbidden segment change, wrong payload length, unusable destination host, unusable source host, SVC without back-end, egress link down (BFD session never up) -- for every role of the AS and ingress kind, " +
		"paths of up to 64 hops (reply header in the 512-byte headroom and packed at the end of the buffer), offender sizes up to the 8488-byte buffer, no/HBH/E2E/both extensions, every L4 kind incl. all SCMP types, " +
		"source host forms IPv4/IPv6/SVC/unknown, SCION and EPIC path types, SCMP authentication on/off. Oracle on the emitted bytes: addressing, checksum, type/code/pointer per scmp.rst, quote prefix, <= 1232 bytes, " +
		"silence towards SCMP errors, authenticator recomputation. class = cause/ingress/auth/offender-L4/ext/placement/source-form/outcome"
	r.Assumptions = []string{
		"the MAC input of the authenticator is serialized by spao.ComputeAuthCMAC (trusted here, judged by C21); the key is derived independently by calling drkeyutil.FakeProvider for (destination IA, destination host) at the option's timestamp",
		"the pointer of causes for which scmp.rst fixes no location (payload size, unusable host address) is recorded, not judged",
		"quoted bytes are compared modulo the path state a router updates before detecting the problem (CurrINF/CurrHF, SegID, router-alert flags)",
		"expired-hop and authenticator-timestamp cases use the time-bracket rule; a router panic is counted as inconclusive here (it is C08's subject)",
	}
	if rp := r.ReplayFile(); rp != "" {
		replayC09(r, rp)
		return
	}
	workers := r.Pick(8, 16)
	cases := r.Pick(9000, 400_000) // per worker
	li := openLastInput(r, workers)
	defer li.close()
	fzs := make([]*fz, workers)
	for w := range fzs {
		f := &fz{r: r, id: w, rng: r.Rand(fmt.Sprintf("c09-w%d", w)), a: newAgg(r), li: li, variants: c09Variants}
		for _, v := range c09Variants {
			f.stars = append(f.stars, newFuzzStar(r, v))
		}
		fzs[w] = f
	}
	// epoch phase: routers whose DRKey epochs last 2 s (the documented testing
	// knob of the router), created while the knob is set; each worker provokes
	// authenticated errors and repeats them in the following epoch
	const epochLen = 2 * time.Second
	os.Setenv(drkeyutil.EnvVarEpochDuration, epochLen.String())
	efs := make([]*fz, r.Pick(4, 8))
	for w := range efs {
		v := starVariant{Idx: 20 + w, Reuse: w%2 == 0, Auth: true}
		efs[w] = &fz{r: r, id: 0, rng: r.Rand(fmt.Sprintf("c09-epoch-%d", w)), a: newAgg(r), li: &lastInput{}, variants: []starVariant{v},
			stars: []*rfix.Star{newFuzzStar(r, v)}, acrossEpoch: true,
			drk: &drkeyutil.FakeProvider{EpochDuration: epochLen, AcceptanceWindow: drkeyutil.LoadAcceptanceWindow()}}
	}
	os.Unsetenv(drkeyutil.EnvVarEpochDuration)
	var wg sync.WaitGroup
	for _, f := range efs {
		wg.Add(1)
		go func(f *fz) {
			defer wg.Done()
			n := f.r.Pick(2, 12)
			for i := 0; i < n; i++ {
				before := f.a.count("across_epoch_rejudged")
				for try := 0; try < 400 && f.a.count("across_epoch_rejudged") == before; try++ {
					f.acrossEpoch = true
					f.c09One(i)
				}
			}
			f.a.flush()
		}(f)
	}
	for _, f := range fzs {
		wg.Add(1)
		go func(f *fz) {
			defer wg.Done()
			for i := 0; i < cases; i++ {
				for try := 0; try < 50 && !f.c09One(i); try++ {
				}
				if i%4096 == 0 {
					f.a.flush()
				}
				if f.r.Violations() > 200 {
					break
				}
			}
			f.a.flush()
		}(f)
	}
	wg.Wait()
	need := []string{"placement_headroom", "placement_packed-at-end", "quote_exact_prefix", "pointer_ok", "auth_mac_ok",
		"scmp_error_offender_not_answered", "scmp_info_offender_answered", "quote_maximal", "across_epoch_rejudged"}
	for c := 0; c < int(numCauses); c++ {
		need = append(need, "emitted:"+causeNames[c])
	}
	r.Require(int64(workers*cases*9/10), 400, need...)
	r.RequireClasses("placement:headroom/auth", "placement:headroom/noauth", "placement:packed-at-end/auth", "placement:packed-at-end/noauth")
}

// replayC09 re-runs the offending packet of a witness on the same router
// configuration and judges the answer against the expectation recorded in it.
func replayC09(r *mon.Run, path string) {
	b, err := os.ReadFile(path)
	var file struct {
		Witness c09Witness `json:"witness"`
	}
	if err == nil {
		err = json.Unmarshal(b, &file)
	}
	if err != nil || file.Witness.Input == "" {
		fmt.Println("replay: cannot read witness:", err)
		return
	}
	w := file.Witness
	v := w.Star
	for _, cv := range c09Variants {
		if cv.Idx == v.Idx {
			v = cv
		}
	}
	s := newFuzzStar(r, v)
	f := &fz{r: r, rng: r.Rand("replay"), a: newAgg(r), li: &lastInput{}, variants: []starVariant{v}, stars: []*rfix.Star{s}}
	raw, _ := hex.DecodeString(w.Input)
	in := w.ingress()
	ex := expectation{ptr: -1}
	var t, c uint8
	fmt.Sscanf(w.Expect, "type %d code %d pointer %d", &t, &c, &ex.ptr)
	ex.typ, ex.code = t, c
	hb := append([]byte(nil), raw...)
	if len(hb) >= 8 && int(hb[5])*4 <= len(hb) { // layout only: make PayloadLen consistent for the reference parser
		binary.BigEndian.PutUint16(hb[6:], uint16(len(hb)-int(hb[5])*4))
	}
	h, err := rfix.ParseHdr(hb)
	if err != nil {
		fmt.Println("replay: offending packet has no parsable layout:", err)
		return
	}
	t0 := time.Now()
	res := s.Process(raw, in)
	t1 := time.Now()
	f.a.eval()
	fmt.Printf("replay: cause %s expected %q -> %s output %x\n", w.Cause, w.Expect, outcomeOf(&res), res.Out)
	if res.ViaSlow && res.SlowKind >= 0 && res.Out != nil {
		viol := func(key, what string) {
			reportViolation(r, key, what, c09Witness{fuzzWitness: mkWitness(s, v, "replay", raw, in, &res), Cause: w.Cause, Scenario: w.Scenario, Expect: w.Expect})
		}
		f.judgeSCMPError(s, v, raw, h, &res, w.Cause, w.Cause != "valid", ex, raw[8] == 3, outcomeOf(&res), t0, t1, viol)
	}
	f.a.flush()
	r.Class("replay")
	r.Class("replay-2")
	r.Sample(map[string]any{"replayed": w.Cause, "outcome": outcomeOf(&res)})
}
