package main

import "verif/mon"

func checkC09(r *mon.Run) {}
