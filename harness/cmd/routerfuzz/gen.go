package main

import (
	"encoding/binary"
	"hash/crc32"
	"math/rand/v2"
	"net"
	"time"

	"github.com/gopacket/gopacket"

	"github.com/scionproto/scion/pkg/addr"
	"github.com/scionproto/scion/pkg/drkey"
	"github.com/scionproto/scion/pkg/slayers"
	"github.com/scionproto/scion/pkg/spao"
	"github.com/scionproto/scion/private/drkey/drkeyutil"

	"verif/rfix"
)

// maxInput is the largest datagram the receive path can hand to a processor:
// the packet buffer minus the headroom reserved in front of it.
const maxInput = 9000 - 512

// ---- layer-4 content ----

const (
	l4UDP = iota
	l4TCP
	l4EchoReq
	l4EchoRep
	l4TraceReq
	l4TraceRep
	l4ErrDestUnreach
	l4ErrPktTooBig
	l4ErrParam
	l4ErrExtDown
	l4ErrIntDown
	l4ErrUnknown  // SCMP error type without defined format
	l4InfoUnknown // SCMP informational type without defined format
	l4Exp
	l4BFD
	numL4
)

var l4Names = [...]string{"udp", "tcp", "echo-req", "echo-rep", "trace-req", "trace-rep",
	"err-1", "err-2", "err-4", "err-5", "err-6", "err-unknown", "info-unknown", "exp", "bfd"}

// scmpTypeOf returns the SCMP type a layer-4 kind stands for (ok=false for
// non-SCMP kinds).
func scmpTypeOf(kind int, rng *rand.Rand) (uint8, bool) {
	switch kind {
	case l4EchoReq:
		return 128, true
	case l4EchoRep:
		return 129, true
	case l4TraceReq:
		return 130, true
	case l4TraceRep:
		return 131, true
	case l4ErrDestUnreach:
		return 1, true
	case l4ErrPktTooBig:
		return 2, true
	case l4ErrParam:
		return 4, true
	case l4ErrExtDown:
		return 5, true
	case l4ErrIntDown:
		return 6, true
	case l4ErrUnknown:
		return pick[uint8](rng, 0, 3, 7, 100, 101, 127), true
	case l4InfoUnknown:
		return pick[uint8](rng, 132, 200, 201, 255), true
	}
	return 0, false
}

// genL4 returns protocol number and bytes of a well-formed layer-4 unit of
// the given kind whose total size is about size bytes.
func genL4(rng *rand.Rand, kind int, size int) (uint8, []byte) {
	data := func(hdr int) []byte {
		n := size - hdr
		if n < 0 {
			n = 0
		}
		return randBytes(rng, n)
	}
	port := func() uint16 { return uint16(1 + rng.IntN(65535)) }
	switch kind {
	case l4UDP:
		return protoUDP, udpBytes(port(), port(), data(8))
	case l4TCP:
		return protoTCP, tcpBytes(port(), port(), data(20))
	case l4Exp:
		return protoExp, data(0)
	case l4BFD:
		return protoBFD, bfdBytes(rng)
	}
	typ, _ := scmpTypeOf(kind, rng)
	code := uint8(0)
	if typ == 1 {
		code = uint8(rng.IntN(7))
	} else if typ == 4 {
		code = pick[uint8](rng, 0, 1, 16, 19, 33, 34, 48, 51, 52, 64)
	}
	return protoSCMP, scmpWithQuote(rng, typ, code, data(4+scmpInfoLen(typ)))
}

// bfdBytes is a plausible BFD control packet (RFC 5880 section 4.1), lightly
// randomized.
func bfdBytes(rng *rand.Rand) []byte {
	b := make([]byte, 24)
	b[0] = 1<<5 | uint8(rng.IntN(9))                   // version 1, diag
	b[1] = uint8(rng.IntN(4))<<6 | uint8(rng.IntN(64)) // state, flags
	b[2] = uint8(1 + rng.IntN(5))                      // detect mult
	b[3] = 24                                          // length
	binary.BigEndian.PutUint32(b[4:], rng.Uint32()|1)  // my discriminator
	binary.BigEndian.PutUint32(b[8:], rng.Uint32()>>uint(rng.IntN(33)))
	binary.BigEndian.PutUint32(b[12:], uint32(rng.IntN(2_000_000)))
	binary.BigEndian.PutUint32(b[16:], uint32(rng.IntN(2_000_000)))
	switch rng.IntN(8) {
	case 0:
		b[3] = uint8(rng.IntN(256))
	case 1:
		b[1] |= 1 << 2 // authentication present, but no section
	case 2:
		b = append(b, randBytes(rng, 1+rng.IntN(30))...)
		b[1] |= 1 << 2
		b[3] = uint8(len(b))
	case 3:
		b = b[:rng.IntN(len(b))]
	}
	return b
}

// ---- scenario packets ----

// pktOpts selects the variable parts of a scenario packet.
type pktOpts struct {
	L4      int
	Ext     int // bit 0: HBH, bit 1: E2E
	Size    int // approximate layer-4 size
	Epic    bool
	Alerts  bool // set router-alert flags on the hop fields of the AS under test
	SPAO    int  // 0 none; E2E carries an authenticator option: 1 valid, 2 wrong MAC, 3 malformed
	L4Bytes []byte
	L4Proto uint8 // used when L4Bytes != nil
}

// scnSpec renders a scenario into a rawSpec.
func scnSpec(rng *rand.Rand, sc *rfix.Scn, o pktOpts) *rawSpec {
	if o.Alerts {
		for _, g := range sc.LocalHops {
			h := sc.Spec.HopAt(g)
			h.InAlert = rng.IntN(2) == 0
			h.EgAlert = rng.IntN(2) == 0
		}
	}
	d := sc.Spec.Decoded(sc.Arr)
	rs := &rawSpec{
		TC: uint8(rng.IntN(256)), Flow: uint32(rng.IntN(1 << 20)),
		PathType: 1, DstIA: uint64(sc.DstIA), SrcIA: uint64(sc.SrcIA),
		Path: pathBytes(d),
	}
	rs.DstHost, rs.DT = hostBytes(sc.DstHost)
	rs.SrcHost, rs.ST = hostBytes(sc.SrcHost)
	if o.Epic {
		rs.PathType = 3
		ep := make([]byte, 16, 16+len(rs.Path))
		binary.BigEndian.PutUint32(ep[0:], uint32(rng.IntN(5_000_000))) // timestamp offset (~21 us units)
		binary.BigEndian.PutUint32(ep[4:], rng.Uint32())
		copy(ep[8:], randBytes(rng, 8))
		rs.Path = append(ep, rs.Path...)
	}
	if o.L4Bytes != nil {
		rs.L4, rs.L4Bytes = o.L4Proto, o.L4Bytes
	} else {
		rs.L4, rs.L4Bytes = genL4(rng, o.L4, o.Size)
	}
	if o.Ext&1 != 0 {
		rs.HBH = mkExt(padNOpt(rng.IntN(11)))
	}
	if o.Ext&2 != 0 || o.SPAO != 0 {
		rs.E2E = mkExt(padNOpt(rng.IntN(7)))
	}
	return rs
}

var fakeDRKey = &drkeyutil.FakeProvider{
	EpochDuration:    drkeyutil.LoadEpochDuration(),
	AcceptanceWindow: drkeyutil.LoadAcceptanceWindow(),
}

// addSPAO puts an authenticator option into the packet's end-to-end extension.
// mode 1: the MAC an honest sender would compute for the router's DRKey
// (FakeProvider); 2: a wrong MAC; 3: malformed option (short data, odd sizes,
// unknown algorithm, non-DRKey SPI).
func addSPAO(rng *rand.Rand, rs *rawSpec, mode int, now time.Time) {
	spi := uint32(drkey.SCMP) // AS-host, sender side
	switch rng.IntN(4) {
	case 0:
		spi |= 1 << 16 // receiver side
	case 1:
		spi |= 1 << 17 // host-host
	}
	macLen := 16
	opt := []byte{2, 0}
	meta := make([]byte, 12)
	binary.BigEndian.PutUint32(meta[0:], spi)
	key, _ := fakeDRKey.GetASHostKey(now, 0, addr.Host{})
	ts, _ := spao.RelativeTimestamp(key.Epoch, now)
	meta[6], meta[7] = byte(ts>>40), byte(ts>>32)
	binary.BigEndian.PutUint32(meta[8:], uint32(ts))
	if mode == 3 {
		switch rng.IntN(6) {
		case 0:
			meta = meta[:rng.IntN(12)] // shorter than the metadata
			macLen = 0
		case 1:
			macLen = rng.IntN(40)
		case 2:
			meta[4] = uint8(1 + rng.IntN(255)) // algorithm
		case 3:
			binary.BigEndian.PutUint32(meta[0:], rng.Uint32()) // any SPI (also non-DRKey)
		case 4:
			copy(meta[6:], randBytes(rng, 6)) // timestamp anywhere
		case 5:
			binary.BigEndian.PutUint32(meta[0:], 0)
		}
	}
	opt = append(opt, meta...)
	opt = append(opt, randBytes(rng, macLen)...)
	opt[1] = uint8(len(opt) - 2)
	opts := opt
	if rng.IntN(3) == 0 { // another option first (the authenticator is then not 4n+2 aligned)
		opts = append(padNOpt(rng.IntN(5)), opt...)
	}
	rs.E2E = mkExt(opts)
	if mode != 1 {
		return
	}
	// honest MAC: decode what we built and let spao serialize the MAC input
	pkt := rs.Build()
	var sl slayers.SCION
	if err := sl.DecodeFromBytes(pkt, gopacket.NilDecodeFeedback); err != nil {
		return
	}
	c := walkChain(pkt)
	if !c.ok || c.e2eOff < 0 {
		return
	}
	var e2e slayers.EndToEndExtn
	if err := e2e.DecodeFromBytes(pkt[c.e2eOff:], gopacket.NilDecodeFeedback); err != nil {
		return
	}
	eo, err := e2e.FindOption(slayers.OptTypeAuthenticator)
	if err != nil {
		return
	}
	ao, err := slayers.ParsePacketAuthOption(eo)
	if err != nil {
		return
	}
	mac, err := spao.ComputeAuthCMAC(spao.MACInput{Key: key.Key[:], Header: ao, ScionLayer: &sl,
		PldType: slayers.L4ProtocolType(c.l4Proto), Pld: pkt[c.l4Off:]}, make([]byte, spao.MACBufferSize), make([]byte, 16))
	if err != nil {
		return
	}
	// locate the authenticator bytes inside rs.E2E and patch them
	for i := 2; i+2 <= len(rs.E2E); {
		t := rs.E2E[i]
		if t == 0 {
			i++
			continue
		}
		l := int(rs.E2E[i+1])
		if t == 2 && l >= 12+16 && i+2+l <= len(rs.E2E) {
			copy(rs.E2E[i+2+12:], mac)
			return
		}
		i += 2 + l
	}
}

// ---- one-hop paths ----

// ohpPacket builds a one-hop-path packet: outbound (from a local host through
// an owned interface, first hop authentic under the AS key) or inbound (from
// the neighbour behind an owned interface, to be completed by this router).
func ohpPacket(rng *rand.Rand, s *rfix.Star, now int64, outbound bool) ([]byte, rfix.Ingress) {
	f, _ := s.FuzzPickIf(rng, -1, 1, 0)
	ts := uint32(now - int64(rng.IntN(600)) - 5)
	segID := uint16(rng.IntN(1 << 16))
	exp := uint8(63)
	p := make([]byte, 32)
	p[0] = 1 // ConsDir
	binary.BigEndian.PutUint16(p[2:], segID)
	binary.BigEndian.PutUint32(p[4:], ts)
	p[8+1] = exp
	binary.BigEndian.PutUint16(p[8+4:], f.ID) // ConsEgress
	rs := &rawSpec{TC: uint8(rng.IntN(256)), Flow: uint32(rng.IntN(1 << 20)), PathType: 2}
	rs.L4, rs.L4Bytes = genL4(rng, pick(rng, l4UDP, l4UDP, l4EchoReq, l4BFD, l4Exp), 8+rng.IntN(80))
	in := rfix.Ingress{}
	if outbound {
		mac := rfix.HopMAC(s.Cfg.HopKey, segID, ts, exp, 0, f.ID)
		copy(p[8+6:], mac[:6])
		rs.SrcIA, rs.DstIA = uint64(s.Cfg.IA), uint64(f.Remote)
		h := rfix.RandHost(rng)
		rs.SrcHost, rs.ST = hostBytes(h)
		rs.DstHost, rs.DT = hostBytes(pick(rng, rfix.RandHost(rng), svcCSHost))
		in.Src = &net.UDPAddr{IP: h.IP().AsSlice(), Port: 30000 + rng.IntN(1000)}
	} else {
		copy(p[8+6:], randBytes(rng, 6))
		rs.SrcIA, rs.DstIA = uint64(f.Remote), uint64(s.Cfg.IA)
		rs.SrcHost, rs.ST = hostBytes(rfix.RandHost(rng))
		rs.DstHost, rs.DT = hostBytes(pick(rng, rfix.RandHost(rng), svcCSHost))
		in.IfID = f.ID
	}
	rs.Path = p
	return rs.Build(), in
}

// ---- hostile SCMP content addressed to the AS under test ----

// innerPacket builds the packet an SCMP error quotes: what a local host would
// have sent (source = the outer destination), in many degrees of damage.
func innerPacket(rng *rand.Rand, outer *rawSpec) []byte {
	in := &rawSpec{TC: uint8(rng.IntN(256)), Flow: uint32(rng.IntN(1 << 20)),
		PathType: 1, DstIA: outer.SrcIA, SrcIA: outer.DstIA,
		DstHost: outer.SrcHost, DT: outer.ST, SrcHost: outer.DstHost, ST: outer.DT,
		Path: outer.Path}
	// inner path type and content
	switch rng.IntN(10) {
	case 0:
		in.PathType, in.Path = 0, nil
	case 1:
		in.PathType, in.Path = 2, randBytes(rng, 32)
	case 2:
		in.PathType = 3
		in.Path = append(randBytes(rng, 16), outer.Path...)
	case 3:
		in.PathType = uint8(4 + rng.IntN(252))
		in.Path = randBytes(rng, 4*rng.IntN(20))
	case 4: // wild path meta over plausible length
		in.Path = append([]byte(nil), outer.Path...)
		if len(in.Path) >= 4 {
			binary.BigEndian.PutUint32(in.Path, rng.Uint32())
		}
	}
	// inner layer 4
	switch rng.IntN(12) {
	case 0, 1, 2:
		in.L4, in.L4Bytes = genL4(rng, l4UDP, 8+rng.IntN(40))
		if rng.IntN(4) == 0 {
			in.L4Bytes[0], in.L4Bytes[1] = 0, 0 // source port 0
		}
	case 3:
		in.L4, in.L4Bytes = genL4(rng, l4EchoReq, 8+rng.IntN(20))
	case 4:
		in.L4, in.L4Bytes = genL4(rng, l4TraceReq, 24)
	case 5:
		in.L4, in.L4Bytes = genL4(rng, pick(rng, l4EchoRep, l4TraceRep, l4InfoUnknown), 8+rng.IntN(20))
	case 6: // nested SCMP error quoting something again
		deep := randBytes(rng, rng.IntN(60))
		if rng.IntN(2) == 0 {
			deep = (&rawSpec{PathType: 0, DstHost: outer.SrcHost, DT: outer.ST, SrcHost: outer.DstHost, ST: outer.DT,
				L4: protoSCMP, L4Bytes: scmpWithQuote(rng, 1, 0, nil)}).Build()
		}
		in.L4, in.L4Bytes = protoSCMP, scmpWithQuote(rng, pick[uint8](rng, 1, 2, 4, 5, 6, 100), 0, deep)
	case 7:
		in.L4, in.L4Bytes = genL4(rng, l4TCP, 20+rng.IntN(20))
	case 8:
		in.L4, in.L4Bytes = uint8(rng.IntN(256)), randBytes(rng, rng.IntN(40))
	case 9: // SCMP with truncated header/info block
		in.L4, in.L4Bytes = protoSCMP, randBytes(rng, rng.IntN(9))
		if len(in.L4Bytes) > 0 {
			in.L4Bytes[0] = pick[uint8](rng, 128, 130, 1, 4, 129)
		}
	case 10:
		in.L4, in.L4Bytes = protoUDP, randBytes(rng, rng.IntN(8)) // truncated UDP header
	case 11:
		in.L4, in.L4Bytes = genL4(rng, l4BFD, 24)
	}
	if rng.IntN(5) == 0 {
		in.HBH = mkExt(padNOpt(rng.IntN(9)))
	}
	if rng.IntN(5) == 0 {
		in.E2E = mkExt(padNOpt(rng.IntN(9)))
	}
	b := in.Build()
	// damage to the inner header's length-ish fields
	switch rng.IntN(10) {
	case 0:
		b[5] = uint8(rng.IntN(256)) // HdrLen
	case 1:
		binary.BigEndian.PutUint16(b[6:], uint16(rng.IntN(1<<16))) // PayloadLen
	case 2:
		b[9] = uint8(rng.IntN(256)) // address types/lengths
	case 3:
		b[4] = pick[uint8](rng, protoHBH, protoE2E, protoSCMP, protoUDP, 0, 255)
	case 4:
		if c := walkChain(b); c.ok && c.hbhOff >= 0 {
			b[c.hbhOff+1] = uint8(rng.IntN(256))
		} else if c.ok && c.e2eOff >= 0 {
			b[c.e2eOff+1] = uint8(rng.IntN(256))
		}
	}
	// truncation
	switch rng.IntN(4) {
	case 0:
		b = b[:rng.IntN(len(b)+1)]
	case 1:
		if c := walkChain(b); c.ok {
			cut := c.l4Off + rng.IntN(10) - 1
			if cut >= 0 && cut <= len(b) {
				b = b[:cut]
			}
		}
	}
	return b
}

// hostileSCMP returns SCMP bytes (protocol 202) for a packet addressed to the
// AS under test.
func hostileSCMP(rng *rand.Rand, outer *rawSpec) []byte {
	switch rng.IntN(10) {
	case 0: // echo / traceroute replies with short or odd bodies
		typ := pick[uint8](rng, 129, 131)
		return scmpBytes(typ, uint8(rng.IntN(2)), randBytes(rng, rng.IntN(26)))
	case 1: // bare or truncated SCMP header
		b := randBytes(rng, rng.IntN(8))
		if len(b) > 0 {
			b[0] = pick[uint8](rng, 1, 2, 4, 5, 6, 129, 131, 100)
		}
		return b
	case 2: // error with info block but no or tiny quote
		typ := pick[uint8](rng, 1, 2, 4, 5, 6, 3, 100)
		return scmpBytes(typ, 0, randBytes(rng, rng.IntN(scmpInfoLen(typ)+3)))
	case 3: // random bytes as quote
		typ := pick[uint8](rng, 1, 2, 4, 5, 6)
		return scmpWithQuote(rng, typ, uint8(rng.IntN(70)), randBytes(rng, rng.IntN(200)))
	default:
		typ := pick[uint8](rng, 1, 1, 2, 4, 4, 5, 6, 0, 3, 100, 127)
		return scmpWithQuote(rng, typ, uint8(rng.IntN(70)), innerPacket(rng, outer))
	}
}

// ---- STUN ----

const stunCookie = "\x21\x12\xa4\x42"

// stunMsg builds STUN-like messages (RFC 5389): honest binding requests with
// fingerprint and many broken variants.
func stunMsg(rng *rand.Rand) []byte {
	b := []byte{0x00, 0x01, 0, 0}
	b = append(b, stunCookie...)
	b = append(b, randBytes(rng, 12)...)
	// optional attributes before the fingerprint
	for n := rng.IntN(3); n > 0; n-- {
		l := rng.IntN(13)
		a := make([]byte, 4+(l+3)&^3)
		binary.BigEndian.PutUint16(a[0:], pick[uint16](rng, 0x0006, 0x8022, 0x0024, 0x0020, uint16(rng.IntN(1<<16))))
		binary.BigEndian.PutUint16(a[2:], uint16(l))
		b = append(b, a...)
	}
	binary.BigEndian.PutUint16(b[2:], uint16(len(b)-20+8))
	fp := crc32.ChecksumIEEE(b) ^ 0x5354554e
	b = append(b, 0x80, 0x28, 0, 4, byte(fp>>24), byte(fp>>16), byte(fp>>8), byte(fp))
	switch rng.IntN(12) {
	case 0: // truncated
		b = b[:rng.IntN(len(b))]
	case 1: // wrong cookie
		b[4+rng.IntN(4)] ^= 1 << rng.IntN(8)
	case 2: // bad message length field
		binary.BigEndian.PutUint16(b[2:], uint16(rng.IntN(1<<16)))
	case 3: // bad attribute length in the last attribute
		binary.BigEndian.PutUint16(b[len(b)-6:], uint16(rng.IntN(1<<16)))
	case 4: // fingerprint of length 0
		b = append(b[:len(b)-8], 0x80, 0x28, 0, 0)
	case 5: // wrong fingerprint
		b[len(b)-1] ^= 0x5a
	case 6: // not a binding request
		b[0], b[1] = pick[uint8](rng, 0x01, 0x00, 0x3f), uint8(rng.IntN(256))
	case 7: // top bits set
		b[0] |= uint8(1+rng.IntN(3)) << 6
	case 8: // trailing garbage
		b = append(b, randBytes(rng, 1+rng.IntN(40))...)
	case 9: // header only
		b = b[:20]
	case 10: // attribute soup
		b = append(b[:20], randBytes(rng, rng.IntN(64))...)
	}
	return b
}

// ---- mutation of valid packets ----

// boundaries lists the structural offsets of a packet per the reference
// parser (packets the reference parser cannot read get the generic ones).
func boundaries(b []byte) []int {
	out := []int{0, 4, 8, 12, 28, len(b)}
	h, err := rfix.ParseHdr(b)
	if err != nil {
		return out
	}
	out = append(out, 28+len(h.DstHost), h.PathOff, h.HdrLen)
	if h.PathType == 1 || h.PathType == 3 {
		out = append(out, h.PathOff+4)
	}
	out = append(out, h.InfoOff...)
	out = append(out, h.HopOff...)
	c := walkChain(b)
	if c.ok {
		if c.hbhOff >= 0 {
			out = append(out, c.hbhOff, c.hbhOff+2)
		}
		if c.e2eOff >= 0 {
			out = append(out, c.e2eOff, c.e2eOff+2)
		}
		out = append(out, c.l4Off, c.l4Off+4, c.l4Off+8, c.l4Off+20, c.l4Off+24)
	}
	return out
}

func interesting(rng *rand.Rand, orig uint8) uint8 {
	switch rng.IntN(10) {
	case 0:
		return 0
	case 1:
		return 1
	case 2:
		return 0xff
	case 3:
		return 0x7f
	case 4:
		return 0x80
	case 5:
		return orig + 1
	case 6:
		return orig - 1
	case 7:
		return orig ^ 1<<rng.IntN(8)
	case 8:
		return orig + 4
	}
	return uint8(rng.IntN(256))
}

// mutate applies one mutation operator to a copy of base and names it.
func mutate(rng *rand.Rand, base []byte) ([]byte, string) {
	b := append([]byte(nil), base...)
	if len(b) < 12 {
		return append(b, randBytes(rng, 1+rng.IntN(20))...), "append"
	}
	h, herr := rfix.ParseHdr(b)
	c := walkChain(b)
	fixPayloadLen := func() {
		if len(b) >= 8 {
			pl := len(b) - int(b[5])*4
			if pl >= 0 && pl < 1<<16 {
				binary.BigEndian.PutUint16(b[6:], uint16(pl))
			}
		}
	}
	switch op := rng.IntN(17); op {
	case 0: // bit flips anywhere
		for n := 1 + rng.IntN(3); n > 0; n-- {
			b[rng.IntN(len(b))] ^= 1 << rng.IntN(8)
		}
		return b, "bitflip"
	case 1: // bit flip in the headers only
		lim := int(b[5]) * 4
		if c.ok {
			lim = c.l4Off + 8
		}
		if lim > len(b) || lim <= 0 {
			lim = len(b)
		}
		b[rng.IntN(lim)] ^= 1 << rng.IntN(8)
		return b, "bitflip-hdr"
	case 2:
		b[5] = interesting(rng, b[5])
		return b, "hdrlen"
	case 3: // header length changed, payload length kept consistent
		b[5] = interesting(rng, b[5])
		fixPayloadLen()
		return b, "hdrlen-fixpl"
	case 4:
		if rng.IntN(2) == 0 {
			b[6] = interesting(rng, b[6])
		} else {
			b[7] = interesting(rng, b[7])
		}
		return b, "payloadlen"
	case 5:
		b[4] = pick(rng, interesting(rng, b[4]), protoHBH, protoE2E, protoSCMP, protoUDP, protoBFD, protoTCP)
		return b, "nexthdr"
	case 6:
		b[8] = pick(rng, interesting(rng, b[8]), 0, 1, 2, 3, 4)
		return b, "pathtype"
	case 7:
		switch rng.IntN(3) {
		case 0:
			b[9] = interesting(rng, b[9])
		case 1:
			b[9] = b[9]&0x0f | uint8(rng.IntN(16))<<4
		default:
			b[9] = b[9]&0xf0 | uint8(rng.IntN(16))
		}
		return b, "addrtype"
	case 8: // address type/length changed with HdrLen adjusted to the new address sizes
		old := 4*(int(b[9]>>4&3)+1) + 4*(int(b[9]&3)+1)
		b[9] = uint8(rng.IntN(256))
		nw := 4*(int(b[9]>>4&3)+1) + 4*(int(b[9]&3)+1)
		b[5] = uint8(int(b[5]) + (nw-old)/4)
		fixPayloadLen()
		return b, "addrtype-fixlen"
	case 9: // path meta fields
		if herr == nil && (h.PathType == 1 || h.PathType == 3) {
			o := h.InfoOff[0] - 4
			m := binary.BigEndian.Uint32(b[o:])
			switch rng.IntN(5) {
			case 0:
				m = m&^(3<<30) | uint32(rng.IntN(4))<<30
			case 1:
				m = m&^(0x3f<<24) | uint32(rng.IntN(64))<<24
			case 2:
				sh := uint(6 * rng.IntN(3))
				m = m&^(0x3f<<sh) | uint32(rng.IntN(64))<<sh
			case 3:
				sh := uint(6 * rng.IntN(3))
				v := (m >> sh) & 0x3f
				m = m&^(0x3f<<sh) | ((v+uint32(rng.IntN(3))-1)&0x3f)<<sh
			default:
				m ^= 1 << rng.IntN(32)
			}
			binary.BigEndian.PutUint32(b[o:], m)
			return b, "pathmeta"
		}
		b[rng.IntN(len(b))] = uint8(rng.IntN(256))
		return b, "setbyte"
	case 10: // info / hop field flags, expiry, interface ids
		if herr == nil && len(h.HopOff) > 0 {
			if rng.IntN(3) == 0 && len(h.InfoOff) > 0 {
				o := h.InfoOff[rng.IntN(len(h.InfoOff))]
				b[o] = interesting(rng, b[o])
				return b, "infoflags"
			}
			o := h.HopOff[rng.IntN(len(h.HopOff))]
			switch rng.IntN(3) {
			case 0:
				b[o] = pick[uint8](rng, 1, 2, 3, b[o]^1, b[o]^2, uint8(rng.IntN(256)))
				return b, "hopflags"
			case 1:
				b[o+1] = interesting(rng, b[o+1])
				return b, "hopexp"
			default:
				b[o+2+rng.IntN(4)] ^= 1 << rng.IntN(8)
				return b, "hopif"
			}
		}
		b[rng.IntN(len(b))] = uint8(rng.IntN(256))
		return b, "setbyte"
	case 11: // extension header NextHdr / ExtLen / option type / OptDataLen
		off := -1
		if c.ok && c.hbhOff >= 0 && (c.e2eOff < 0 || rng.IntN(2) == 0) {
			off = c.hbhOff
		} else if c.ok && c.e2eOff >= 0 {
			off = c.e2eOff
		}
		if off >= 0 && off+4 <= len(b) {
			i := off + rng.IntN(4)
			if i == off {
				b[i] = pick(rng, interesting(rng, b[i]), protoHBH, protoE2E, protoSCMP, protoUDP)
			} else {
				b[i] = interesting(rng, b[i])
			}
			return b, [...]string{"ext-nexthdr", "ext-len", "opt-type", "opt-datalen"}[i-off]
		}
		// no extension present: claim one
		b[4] = pick[uint8](rng, protoHBH, protoE2E)
		return b, "nexthdr-ext"
	case 12: // layer-4 header bytes
		if c.ok && c.l4Off < len(b) {
			n := len(b) - c.l4Off
			if n > 8 {
				n = 8
			}
			i := c.l4Off + rng.IntN(n)
			b[i] = interesting(rng, b[i])
			return b, "l4hdr"
		}
		b[len(b)-1] ^= 0xff
		return b, "setbyte"
	case 13: // truncation at a structural boundary +-1
		bs := boundaries(b)
		cut := bs[rng.IntN(len(bs))] + rng.IntN(3) - 1
		if cut < 0 {
			cut = 0
		}
		if cut > len(b) {
			cut = len(b)
		}
		return b[:cut], "truncate"
	case 14: // truncation with the payload length made consistent again
		bs := boundaries(b)
		cut := bs[rng.IntN(len(bs))] + rng.IntN(3) - 1
		if cut < 12 {
			cut = 12
		}
		if cut > len(b) {
			cut = len(b)
		}
		b = b[:cut]
		fixPayloadLen()
		return b, "truncate-fixpl"
	case 15: // appended garbage
		n := pick(rng, 1, 2, 3, 4, 7, 64, 1+rng.IntN(500))
		if rng.IntN(20) == 0 {
			n = maxInput - len(b)
		}
		b = append(b, randBytes(rng, n)...)
		if rng.IntN(2) == 0 {
			fixPayloadLen()
			return b, "append-fixpl"
		}
		return b, "append"
	default: // insert or delete a 4-byte line inside the header
		hl := int(b[5]) * 4
		if hl > len(b) || hl < 16 {
			hl = len(b)
		}
		at := 4 * rng.IntN(hl/4)
		if rng.IntN(2) == 0 {
			b = append(b[:at], append(randBytes(rng, 4), b[at:]...)...)
			if rng.IntN(2) == 0 {
				b[5]++
			}
			return b, "insert-line"
		}
		if at+4 <= len(b) {
			b = append(b[:at], b[at+4:]...)
			if rng.IntN(2) == 0 && len(b) > 5 {
				b[5]--
			}
		}
		return b, "delete-line"
	}
}

// semiRandom returns random bytes whose first twelve bytes look like a SCION
// common header consistent with the length, so that decoding gets further
// than the first length check.
func semiRandom(rng *rand.Rand, n int) []byte {
	b := randBytes(rng, n)
	if n < 12 {
		return b
	}
	b[0] &= 0x0f
	b[4] = pick[uint8](rng, protoUDP, protoSCMP, protoHBH, protoE2E, protoBFD, protoTCP, protoExp)
	b[8] = uint8(rng.IntN(5))
	b[9] = pick[uint8](rng, 0x00, 0x03, 0x30, 0x33, 0x40, 0x04, uint8(rng.IntN(256)))
	hl := 9 + rng.IntN(60)
	if rng.IntN(4) == 0 {
		hl = rng.IntN(256)
	}
	b[5] = uint8(hl)
	if pl := n - hl*4; pl >= 0 && pl < 1<<16 && rng.IntN(4) != 0 {
		binary.BigEndian.PutUint16(b[6:], uint16(pl))
	}
	po := 12 + 16 + 4*(int(b[9]>>4&3)+1) + 4*(int(b[9]&3)+1)
	if (b[8] == 1 || b[8] == 3) && po+20 < n && rng.IntN(3) != 0 {
		if b[8] == 3 {
			po += 16
		}
		// plausible path meta: segment lengths that fit the header
		avail := (hl*4 - po - 4) / 12
		if avail > 0 {
			s0 := 1 + rng.IntN(min(avail, 63))
			m := uint32(rng.IntN(s0))<<24 | uint32(s0)<<12
			if po+4 <= n {
				binary.BigEndian.PutUint32(b[po:], m)
			}
		}
	}
	return b
}
