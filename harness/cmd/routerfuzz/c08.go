package main

import (
	"bytes"
	"encoding/binary"
	"encoding/hex"
	"fmt"
	"github.com/scionproto/scion/private/drkey/drkeyutil"
	"math/rand/v2"
	"net"
	"net/netip"
	"sync"
	"time"

	"github.com/scionproto/scion/pkg/addr"
	"github.com/scionproto/scion/pkg/slayers"
	"github.com/scionproto/scion/router"
	"github.com/scionproto/scion/router/underlayproviders/udpip"

	"verif/mon"
	"verif/rfix"
)

var svcCSHost = addr.HostSVC(addr.SvcCS)

// fz is one fuzzing worker: its own router instances (a Star is not
// goroutine-safe), its own PRNG stream and its own slot in the last-input page.
type fz struct {
	r        *mon.Run
	id       int
	rng      *rand.Rand
	a        *agg
	li       *lastInput
	stars    []*rfix.Star
	variants []starVariant
	stunPkt  *router.Packet
	sl       slayers.SCION
	gated    int64 // inputs the receive path would not hand to a processor
	// panicOnly: run C09's structured error-provoking generator but judge only
	// what C08 states (no panic, emitted packets consistent).
	panicOnly bool
	// acrossEpoch: after an authenticated SCMP error was judged, wait for the
	// next DRKey epoch and provoke the same error with the same packet again on
	// the same router (drk is the provider matching the router's epoch length).
	acrossEpoch bool
	drk         *drkeyutil.FakeProvider
}

func (f *fz) star() int { return f.rng.IntN(len(f.stars)) }

func (f *fz) violation(key, what string, w fuzzWitness) {
	reportViolation(f.r, key, what, w)
}

// randIngress picks any link of the router: internal (IPv4 or IPv6 sender),
// an owned external interface, or a sibling-owned interface.
func (f *fz) randIngress(s *rfix.Star) rfix.Ingress {
	switch f.rng.IntN(4) {
	case 0:
		return rfix.Ingress{Src: &net.UDPAddr{IP: net.IP{10, 9, byte(f.rng.IntN(256)), byte(1 + f.rng.IntN(250))}, Port: 1 + f.rng.IntN(65535)}}
	case 1:
		ip := append([]byte{0xfd, 0}, randBytes(f.rng, 14)...)
		return rfix.Ingress{Src: &net.UDPAddr{IP: ip, Port: 1 + f.rng.IntN(65535)}}
	case 2:
		i, _ := s.FuzzPickIf(f.rng, -1, 1, 0)
		return rfix.Ingress{IfID: i.ID}
	default:
		i, _ := s.FuzzPickIf(f.rng, -1, 0, 0)
		return rfix.Ingress{IfID: i.ID}
	}
}

// feed pushes one input through the router the way the receive path does:
// every link first computes the processor id; inputs for which that fails are
// dropped by external and sibling links and handed to the internal link's own
// processing (STUN) by the internal link; all others go to a fast-path
// processor and, on request, to the slow-path processor.
func (f *fz) feed(si int, gen string, raw []byte, in rfix.Ingress) {
	s, v := f.stars[si], f.variants[si]
	if len(raw) > maxInput {
		raw = raw[:maxInput]
	}
	if in.IfID == 0 && in.Src == nil {
		in.Src = &net.UDPAddr{IP: net.IP{10, 9, 9, 9}, Port: 40000}
	}
	f.li.put(f.id, v.Idx, gen, raw, in)
	f.a.eval()
	kind := ingressKind(s, in)
	authS := "noauth"
	if v.Auth {
		authS = "auth"
	}
	cls := func(outcome string) { f.a.class(gen + "/" + kind + "/" + authS + "/" + outcome) }

	var procOK bool
	if p, st := mon.Try(func() { _, procOK = udpip.VerifComputeProcID(raw, 4, 0x9e3779b9) }); p != nil {
		f.violation("C08:panic:"+panicFunc(st), fmt.Sprintf("computeProcID panicked: %v", p),
			mkWitness(s, v, gen, raw, in, &rfix.Result{Panic: fmt.Sprint(p), Stack: st}))
		cls("panic")
		return
	}
	if !procOK {
		f.gated++
		if kind != "internal" {
			f.a.event("receive_drop_not_scion")
			cls("receive-drop")
			return
		}
		cls(f.internalProcess(si, gen, raw, in))
		return
	}
	res := s.Process(raw, in)
	out := outcomeOf(&res)
	cls(out)
	f.a.event("outcome:" + out)
	if res.Panic != "" {
		f.violation("C08:panic:"+panicFunc(res.Stack), "router packet processing panicked: "+res.Panic,
			mkWitness(s, v, gen, raw, in, &res))
		return
	}
	if res.Out == nil {
		return
	}
	f.a.event("emitted")
	jv := judgeSCION(res.Out, &f.sl)
	if jv.version != 0 {
		f.a.event("emitted_with_nonzero_version(not judged)")
	}
	if !jv.ok {
		how := "forwarded"
		switch {
		case res.ViaSlow && res.SlowKind >= 0:
			how = "scmp"
		case res.ViaSlow:
			how = "alert"
		case res.OutScope == router.Internal:
			how = "delivered"
		}
		// canonical key: by the root cause visible in the input where there is one
		// (the symptom in the output varies with the garbage), else by the symptom
		key := "C08:malformed-output:" + how + ":" + jv.cat
		if ic := inputInconsistency(raw); ic != "" {
			key = "C08:malformed-output:input-" + ic
		}
		f.violation(key,
			fmt.Sprintf("a packet that left the router (%s, egress %d) is not a consistent SCION packet: %s", out, res.Egress, jv.detail),
			mkWitness(s, v, gen, raw, in, &res))
		return
	}
	f.a.event("emitted_consistent")
	if f.id == 0 && f.r.WantSample() && f.rng.IntN(400) == 0 {
		f.r.Sample(mkWitness(s, v, gen, raw, in, &res))
	}
}

// inputInconsistency names a length inconsistency of the input that a router
// must not let through: a header longer than its address and path content
// ("hdrlen-slack"), or a PayloadLen that is not the rest of the datagram
// ("payloadlen-mismatch"), each with the input's path type.
func inputInconsistency(raw []byte) string {
	if len(raw) < 12 {
		return ""
	}
	hb := int(raw[5]) * 4
	po := 12 + 16 + 4*(int(raw[9]>>4&3)+1) + 4*(int(raw[9]&3)+1)
	pl := -1
	meta := func(o int) int {
		if o+4 > len(raw) {
			return -1
		}
		m := binary.BigEndian.Uint32(raw[o:])
		n, hops := 0, 0
		for _, sh := range []uint{12, 6, 0} {
			if l := int(m>>sh) & 0x3f; l > 0 {
				n++
				hops += l
			}
		}
		return 4 + 8*n + 12*hops
	}
	switch raw[8] {
	case 0:
		pl = 0
	case 1:
		pl = meta(po)
	case 2:
		pl = 32
	case 3:
		if l := meta(po + 16); l >= 0 {
			pl = 16 + l
		}
	}
	if pl >= 0 && hb > po+pl {
		return fmt.Sprintf("hdrlen-slack:pathtype-%d", raw[8])
	}
	if hb <= len(raw) && int(binary.BigEndian.Uint16(raw[6:])) != len(raw)-hb {
		return fmt.Sprintf("payloadlen-mismatch:pathtype-%d", raw[8])
	}
	return ""
}

// internalProcess runs the internal link's own packet processing (STUN) and
// judges a response against RFC 5389: success response to the request's
// transaction, XOR-MAPPED-ADDRESS equal to the requester's underlay address.
func (f *fz) internalProcess(si int, gen string, raw []byte, in rfix.Ingress) string {
	s, v := f.stars[si], f.variants[si]
	link := s.Link(0)
	if f.stunPkt == nil {
		f.stunPkt = router.VerifNewPacket(raw, router.VerifMinHeadroom, link, in.Src)
	} else {
		router.VerifRefill(f.stunPkt, raw, router.VerifMinHeadroom, link, in.Src)
	}
	p := f.stunPkt
	var err error
	if pv, st := mon.Try(func() { _, err = udpip.VerifInternalProcess(link, p) }); pv != nil {
		f.violation("C08:panic:"+panicFunc(st), fmt.Sprintf("internal link packet processing panicked: %v", pv),
			mkWitness(s, v, gen, raw, in, &rfix.Result{Panic: fmt.Sprint(pv), Stack: st}))
		return "panic"
	}
	if err != nil {
		f.a.event("stun_rejected")
		return "stun-rejected"
	}
	if p.Link == nil {
		f.a.event("internal_drop")
		return "internal-drop"
	}
	out := p.RawPacket
	f.a.event("stun_response")
	if why := checkSTUNResponse(raw, out, in.Src); why != "" {
		w := mkWitness(s, v, gen, raw, in, nil)
		w.Output = hex.EncodeToString(out)
		f.violation("C08:stun-response-malformed", "STUN response emitted on the internal link is malformed: "+why, w)
		return "stun-response-bad"
	}
	if f.id == 0 && f.r.WantSample() && f.rng.IntN(50) == 0 {
		w := mkWitness(s, v, gen, raw, in, nil)
		w.Output = hex.EncodeToString(out)
		f.r.Sample(w)
	}
	return "stun-response"
}

// checkSTUNResponse is the reference check of a binding success response.
func checkSTUNResponse(req, out []byte, src *net.UDPAddr) string {
	if len(req) < 20 {
		return "response to something shorter than a STUN header"
	}
	ip, ok := netip.AddrFromSlice(src.IP)
	if !ok {
		return ""
	}
	al := 4
	fam := byte(1)
	if !ip.Is4() {
		al, fam = 16, 2
	}
	if len(out) != 20+8+al {
		return fmt.Sprintf("length %d, want %d", len(out), 20+8+al)
	}
	if out[0] != 0x01 || out[1] != 0x01 {
		return "not a binding success response"
	}
	if int(binary.BigEndian.Uint16(out[2:])) != len(out)-20 {
		return "message length field does not match"
	}
	if string(out[4:8]) != stunCookie {
		return "magic cookie"
	}
	if !bytes.Equal(out[8:20], req[8:20]) {
		return "transaction id differs from the request"
	}
	if binary.BigEndian.Uint16(out[20:]) != 0x0020 || int(binary.BigEndian.Uint16(out[22:])) != 4+al {
		return "XOR-MAPPED-ADDRESS attribute header"
	}
	if out[25] != fam {
		return "address family"
	}
	if binary.BigEndian.Uint16(out[26:])^0x2112 != uint16(src.Port) {
		return "port is not the requester's"
	}
	raw := ip.AsSlice()
	x := append([]byte(stunCookie), req[8:20]...)
	for i := 0; i < al; i++ {
		if out[28+i]^x[i] != raw[i] {
			return "address is not the requester's"
		}
	}
	return ""
}

// ---- generators ----

// genMutations: (a) a valid packet of a random role/ingress/extension/L4 kind
// (also EPIC and one-hop paths) is fed unchanged once, then several mutants.
func (f *fz) genMutations(nMut int) {
	rng := f.rng
	si := f.star()
	s := f.stars[si]
	now := time.Now()
	var base []byte
	var in rfix.Ingress
	gen := "mut"
	switch k := rng.IntN(20); {
	case k < 2:
		base, in = ohpPacket(rng, s, now.Unix(), k == 0)
		gen = "mut-ohp"
	default:
		sc := s.GenScenario(rng, rfix.Shape(rng.IntN(int(rfix.NumShapes))), now.Unix())
		if sc.Deliver && rng.IntN(6) == 0 {
			// service destinations: registered, withdrawn, never registered, multicast
			sc.DstHost = addr.HostSVC([]addr.SVC{addr.SvcCS, addr.SvcDS, addr.SvcDS, addr.SvcCS | addr.SVCMcast, addr.SvcWildcard, addr.SVC(3)}[rng.IntN(6)])
		}
		o := pktOpts{L4: rng.IntN(numL4), Ext: rng.IntN(4), Size: 8 + rng.IntN(120), Epic: k == 2 || k == 3, Alerts: rng.IntN(3) == 0}
		if rng.IntN(4) == 0 {
			o.L4 = l4TraceReq
			o.Alerts = true
		}
		if rng.IntN(30) == 0 {
			o.Size = 1000 + rng.IntN(7000)
		}
		rs := scnSpec(rng, sc, o)
		if o.L4 == l4TraceReq && rng.IntN(2) == 0 {
			addSPAO(rng, rs, 1+rng.IntN(3), now)
		}
		base, in = rs.Build(), sc.In
		if o.Epic {
			gen = "mut-epic"
		}
	}
	f.feed(si, gen+":none", base, in)
	for i := 0; i < nMut; i++ {
		m, name := mutate(rng, base)
		if rng.IntN(4) == 0 { // second operator on top
			var n2 string
			m, n2 = mutate(rng, m)
			_ = n2
			name = "double"
		}
		min := in
		if rng.IntN(12) == 0 {
			min = f.randIngress(s)
		}
		f.feed(si, gen+":"+name, m, min)
	}
}

// genHostile: (b) valid packets addressed to the AS under test whose SCMP
// payload is hostile, so that the destination-port extraction from SCMP
// (getDstPortSCMP) and the traceroute/authentication code run.
func (f *fz) genHostile() {
	rng := f.rng
	si := f.star()
	s := f.stars[si]
	now := time.Now()
	switch rng.IntN(5) {
	case 0: // router alert with every kind of SCMP content and authenticator options
		sc := s.GenScenario(rng, rfix.Shape(rng.IntN(int(rfix.NumShapes))), now.Unix())
		o := pktOpts{L4: pick(rng, l4TraceReq, l4TraceReq, l4TraceReq, l4EchoReq, l4TraceRep, l4ErrParam, l4UDP), Ext: rng.IntN(4), Size: rng.IntN(40), Alerts: true}
		rs := scnSpec(rng, sc, o)
		if rng.IntN(3) == 0 { // short or odd traceroute bodies
			rs.L4Bytes = scmpBytes(130, uint8(rng.IntN(2)), randBytes(rng, rng.IntN(30)))
		}
		mode := rng.IntN(4)
		if mode != 0 {
			addSPAO(rng, rs, mode, now)
		}
		f.feed(si, fmt.Sprintf("hostile-alert:spao%d", mode), rs.Build(), sc.In)
	default:
		sc := s.GenScenario(rng, rfix.ShDst, now.Unix())
		if rng.IntN(6) == 0 {
			sc.DstHost = svcCSHost
		}
		rs := scnSpec(rng, sc, pktOpts{L4: l4UDP, Ext: rng.IntN(4), Size: 8})
		rs.L4, rs.L4Bytes = protoSCMP, hostileSCMP(rng, rs)
		b := rs.Build()
		name := "hostile-scmp"
		if rng.IntN(5) == 0 {
			b, _ = mutate(rng, b)
			name = "hostile-scmp-mut"
		}
		f.feed(si, name, b, sc.In)
	}
}

// genRandom: (c) byte strings without structure, lengths 0..maxInput, on any
// link; half of them with a plausible common header in front.
func (f *fz) genRandom() {
	rng := f.rng
	si := f.star()
	var n int
	switch rng.IntN(10) {
	case 0:
		n = rng.IntN(13)
	case 1:
		n = rng.IntN(maxInput + 1)
	case 2:
		n = maxInput - rng.IntN(3)
	case 3:
		n = maxInput + 1 + rng.IntN(512) // longer than the buffer: the receive path truncates
	default:
		n = rng.IntN(300)
	}
	in := f.randIngress(f.stars[si])
	if rng.IntN(2) == 0 {
		f.feed(si, "random", randBytes(rng, n), in)
	} else {
		f.feed(si, "semirandom", semiRandom(rng, n), in)
	}
}

// genSTUN: (d) STUN-like messages on the internal link.
func (f *fz) genSTUN() {
	rng := f.rng
	si := f.star()
	in := f.randIngress(f.stars[si])
	for in.IfID != 0 {
		in = f.randIngress(f.stars[si])
	}
	b := stunMsg(rng)
	f.feed(si, "stun", b, in)
	if rng.IntN(8) == 0 { // the same on a link where STUN is not served
		f.feed(si, "stun", b, f.randIngress(f.stars[si]))
	}
}

// genBFD feeds BFD control messages to a router whose links have BFD sessions.
// The sessions are not running (nothing drains a session's queue of 10
// messages, an 11th would block), so a fresh router is built per call and
// every link with a session gets at most 8 messages.
func (f *fz) genBFD(round int) {
	rng := f.rng
	saveS, saveV := f.stars, f.variants
	defer func() { f.stars, f.variants = saveS, saveV }()
	v := starVariant{Idx: 100 + rng.IntN(4), Reuse: round%2 == 0, Auth: round%4 < 2, BFD: true}
	s := newFuzzStar(f.r, v)
	f.stars, f.variants = []*rfix.Star{s}, []starVariant{v}
	seen := map[router.Link]bool{}
	for _, fi := range s.Cfg.Ifs {
		l := s.Link(fi.ID)
		if l == nil || l.BFDSession() == nil || seen[l] {
			continue
		}
		seen[l] = true
		for i := 0; i < 8; i++ {
			var b []byte
			in := rfix.Ingress{IfID: fi.ID}
			if !fi.Owned { // sibling link: empty path
				sib := rfix.SiblingAddr(fi.Sibling).Addr()
				rs := &rawSpec{TC: 0xb8, Flow: 0xdead, PathType: 0, DstIA: uint64(s.Cfg.IA), SrcIA: uint64(s.Cfg.IA),
					L4: protoBFD, L4Bytes: bfdBytes(rng)}
				rs.SrcHost, rs.ST = hostBytes(addr.HostIP(sib))
				rs.DstHost, rs.DT = hostBytes(addr.HostIP(rfix.SiblingAddr(0).Addr()))
				b = rs.Build()
			} else { // external link: one-hop path from the neighbour
				p := make([]byte, 32)
				p[0] = 1
				binary.BigEndian.PutUint32(p[4:], uint32(time.Now().Unix()-10))
				p[9] = 63
				binary.BigEndian.PutUint16(p[12:], uint16(1+rng.IntN(65535)))
				copy(p[14:], randBytes(rng, 6))
				rs := &rawSpec{TC: 0xb8, Flow: 0xdead, PathType: 2, DstIA: uint64(s.Cfg.IA), SrcIA: uint64(fi.Remote),
					Path: p, L4: protoBFD, L4Bytes: bfdBytes(rng)}
				rs.SrcHost, rs.ST = hostBytes(addr.HostIP(rfix.ExtRemoteAddr(fi.ID).Addr()))
				rs.DstHost, rs.DT = hostBytes(addr.HostIP(rfix.ExtLocalAddr(fi.ID).Addr()))
				b = rs.Build()
			}
			name := "bfd"
			if rng.IntN(3) == 0 {
				b, _ = mutate(rng, b)
				name = "bfd-mut"
			}
			f.feed(0, name, b, in)
		}
	}
}

var c08Variants = []starVariant{
	{Idx: 0, Reuse: true, Auth: false},
	{Idx: 1, Reuse: true, Auth: true},
	{Idx: 2, Reuse: false, Auth: false},
	{Idx: 3, Reuse: false, Auth: true},
	{Idx: 4, Reuse: true, Auth: false, SvcChurn: true},
	{Idx: 5, Reuse: false, Auth: true, SvcChurn: true},
	{Idx: 6, Reuse: true, Auth: true, V6Internal: true},
}

func checkC08(r *mon.Run) {
	r.Rule = "inputs: (a) valid packets of every role of the AS (source, destination, transit, cross-over, peering), SCION/EPIC/one-hop paths, every L4 kind and extension combination, " +
		"then byte-level mutants (bit flips, edits of HdrLen/PayloadLen/NextHdr/PathType/address type-length/path meta/info and hop flags/extension NextHdr-ExtLen/option type-length/L4 header, " +
		"truncation at structural boundaries +-1 with and without consistent PayloadLen, appended garbage, inserted/deleted header lines); (b) packets addressed to the AS with hostile SCMP content " +
		"(nested errors, truncated and bogus inner headers, inner path types 0-3 and unknown, short echo/traceroute bodies), router-alert packets with authenticator options; (c) random and semi-random " +
		"byte strings of length 0..8488 (buffer minus headroom) and longer; (d) STUN-like messages; BFD control messages on routers with BFD sessions. Every input goes through the receive path's " +
		"processor-id gate, then the real fast path and slow path (or the internal link's STUN processing). class = generator:operator / ingress kind / auth / outcome"
	r.Assumptions = []string{
		"the router is driven through the verif export wrappers (no behaviour added); rfix.Star.Process mirrors runProcessor/runSlowPathProcessor",
		"inputs for which computeProcID fails never reach a packet processor in the real receive path and are judged on the path they do take",
		"the SCION version nibble of an emitted packet is not part of the statement and is not judged",
		"a process-fatal error (checkptr, concurrent map access) kills the child: the driver reports it; the last input of every worker is in logs/C08.<tier>.lastinput.bin",
	}
	if rp := r.ReplayFile(); rp != "" {
		replayC08(r, rp)
		return
	}
	workers := r.Pick(8, 16)
	li := openLastInput(r, workers)
	defer li.close()
	fzs := make([]*fz, workers)
	for w := range fzs {
		f := &fz{r: r, id: w, rng: r.Rand(fmt.Sprintf("c08-w%d", w)), a: newAgg(r), li: li, variants: c08Variants, panicOnly: true}
		for _, v := range c08Variants {
			f.stars = append(f.stars, newFuzzStar(r, v))
		}
		fzs[w] = f
	}
	rounds := r.Pick(3000, 75_000) // per worker; a round is 8.5 inputs
	var wg sync.WaitGroup
	for _, f := range fzs {
		wg.Add(1)
		go func(f *fz) {
			defer wg.Done()
			for i := 0; i < rounds; i++ {
				// one round: 1 valid + 5 mutants, 1 hostile, 1 random, STUN every other round
				f.genMutations(5)
				f.genHostile()
				f.genRandom()
				if i%2 == 0 {
					f.genSTUN()
				}
				// structured error-provoking packets (every SCMP cause, paths of up to 64
				// hops so that the reply header sweeps across the headroom boundary, auth
				// on/off): the slow path's own serialization must not crash either
				for try := 0; try < 20 && !f.c09One(i); try++ {
				}
				if i%1024 == 0 {
					f.genBFD(i / 1024)
					f.a.flush()
				}
				if f.r.Violations() > 200 {
					break
				}
			}
			f.a.flush()
		}(f)
	}
	wg.Wait()
	var gated int64
	for _, f := range fzs {
		gated += f.gated
	}
	r.Extra("inputs_stopped_by_receive_gate", gated)
	r.Extra("max_input_len", maxInput)
	r.Require(int64(r.Pick(180_000, 10_000_000)), 300,
		"emitted_consistent", "stun_response", "stun_rejected", "receive_drop_not_scion",
		"structured_error_case", "outcome:forward", "outcome:deliver", "outcome:discard", "outcome:traceroute-reply", "outcome:alert-declined-sent-back", "outcome:scmp-4-51", "outcome:done")
	r.RequireClasses(
		"mut:none/external/noauth/forward", "mut:none/internal/auth/forward", "mut:none/sibling/noauth/forward",
		"mut:none/external/auth/deliver", "stun/internal/noauth/stun-response",
		"random/external/noauth/receive-drop", "hostile-scmp/external/noauth/deliver",
	)
}

// replayC08 re-runs witnesses: a replay JSON written by a violation, or the
// last-input page left behind by a crashed child.
func replayC08(r *mon.Run, path string) {
	var ws []fuzzWitness
	if w, err := loadReplay(path); err == nil && w.Input != "" {
		ws = append(ws, *w)
	} else if l, err := readLastInputs(path); err == nil {
		ws = l
	}
	li := &lastInput{}
	for i, w := range ws {
		raw, _ := hex.DecodeString(w.Input)
		v := w.Star
		for _, cv := range c08Variants {
			if cv.Idx == v.Idx {
				v = cv
			}
		}
		if v.Idx >= 100 {
			v.BFD = true
		}
		f := &fz{r: r, id: 0, rng: r.Rand("replay"), a: newAgg(r), li: li, variants: []starVariant{v}, stars: []*rfix.Star{newFuzzStar(r, v)}}
		fmt.Printf("replay %d: star %+v ingress %d src %q gen %q len %d\n", i, v, w.Ingress, w.Src, w.Gen, len(raw))
		f.feed(0, "replay", raw, w.ingress())
		f.a.flush()
	}
	r.Class("replay")
	r.Class("replay-2")
	r.Sample(map[string]any{"replayed": len(ws)})
}
