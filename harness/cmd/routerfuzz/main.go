// Command routerfuzz serves the router robustness properties: hostile and
// malformed inputs on every link of a real data plane (C08) and the
// well-formedness of the SCMP errors it answers with (C09).
package main

import (
	"os"
	"runtime/pprof"

	"verif/mon"
)

func main() {
	// optional CPU profile for tuning the generators (not used by the driver)
	if p := os.Getenv("ROUTERFUZZ_CPUPROFILE"); p != "" {
		if f, err := os.Create(p); err == nil {
			_ = pprof.StartCPUProfile(f)
			stop := func(r *mon.Run) {}
			_ = stop
			wrap := func(c func(*mon.Run)) func(*mon.Run) {
				return func(r *mon.Run) { c(r); pprof.StopCPUProfile(); f.Close() }
			}
			mon.Main(map[string]func(*mon.Run){"C08": wrap(checkC08), "C09": wrap(checkC09)})
			return
		}
	}
	mon.Main(map[string]func(*mon.Run){
		"C08": checkC08,
		"C09": checkC09,
	})
}
