// Command routerfuzz serves the router robustness properties: hostile and
// malformed inputs on every link of a real data plane (C08) and the
// well-formedness of the SCMP errors it answers with (C09).
package main

import "verif/mon"

func main() {
	mon.Main(map[string]func(*mon.Run){
		"C08": checkC08,
		"C09": checkC09,
	})
}
