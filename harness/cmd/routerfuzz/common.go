package main

import (
	"encoding/binary"
	"encoding/hex"
	"encoding/json"
	"fmt"
	"math/rand/v2"
	"net"
	"net/netip"
	"os"
	"path/filepath"
	"strings"
	"sync"
	"syscall"

	"github.com/gopacket/gopacket"

	"github.com/scionproto/scion/pkg/addr"
	"github.com/scionproto/scion/pkg/slayers"
	"github.com/scionproto/scion/router"

	"verif/mon"
	"verif/rfix"
)

// ---- star fixtures ----

// starVariant selects one router configuration.
type starVariant struct {
	Idx   int  `json:"idx"`
	Reuse bool `json:"reuse_local"`
	Auth  bool `json:"scmp_auth"`
	BFD   bool `json:"bfd_on_odd_interfaces"`
	// SvcChurn: services were registered and withdrawn again through the
	// management API before the traffic starts (DS added and removed; a second
	// CS instance added, the first removed).
	SvcChurn bool `json:"svc_churn,omitempty"`
	// V6Internal: the router's internal address (the source of the SCMP
	// messages it originates) is an IPv6 address.
	V6Internal bool `json:"v6_internal,omitempty"`
}

// newFuzzStar builds the configuration number v.Idx of the run
// deterministically from the seed: random local IA and key, the standard 16
// interfaces, CS registered as the only service.
func newFuzzStar(r *mon.Run, v starVariant) *rfix.Star {
	rng := r.Rand(fmt.Sprintf("star-%d", v.Idx))
	key := make([]byte, 16)
	for i := range key {
		key[i] = byte(rng.IntN(256))
	}
	ifs := rfix.StdIfs(rng)
	if v.BFD {
		for i := range ifs {
			ifs[i].BFD = i%2 == 1
		}
	}
	cfg := rfix.StarCfg{
		IA:         addr.MustIAFrom(addr.ISD(1+rng.IntN(3)), addr.AS(0xff00_0000_0100+uint64(rng.IntN(200)))),
		HopKey:     rfix.DeriveHopKey(key),
		Ifs:        ifs,
		ReuseLocal: v.Reuse,
		SCMPAuth:   v.Auth,
		RangeSet:   true, PortStart: 31000, PortEnd: 32767,
		InternalAddr: map[bool]string{true: "[fd00:77::1]:30042", false: ""}[v.V6Internal],
		Svc: map[addr.SVC][]netip.AddrPort{
			addr.SvcCS: {netip.MustParseAddrPort("10.0.0.77:30252")},
		},
	}
	s, err := rfix.NewStar(cfg)
	if err != nil {
		fmt.Println("fixture error:", err)
		panic(err)
	}
	if v.SvcChurn {
		ds := netip.MustParseAddrPort("10.0.0.78:30254")
		cs2 := netip.MustParseAddrPort("10.0.0.79:30252")
		cs1 := netip.MustParseAddrPort("10.0.0.77:30252")
		must := func(err error) {
			if err != nil {
				panic("fixture: service churn: " + err.Error())
			}
		}
		must(s.C.AddSvc(cfg.IA, addr.SvcDS, addr.HostIP(ds.Addr()), ds.Port()))
		must(s.C.DelSvc(cfg.IA, addr.SvcDS, addr.HostIP(ds.Addr()), ds.Port()))
		must(s.C.AddSvc(cfg.IA, addr.SvcCS, addr.HostIP(cs2.Addr()), cs2.Port()))
		must(s.C.DelSvc(cfg.IA, addr.SvcCS, addr.HostIP(cs1.Addr()), cs1.Port()))
	}
	return s
}

func ingressKind(s *rfix.Star, in rfix.Ingress) string {
	if in.IfID == 0 {
		return "internal"
	}
	if f, ok := s.FuzzIf(in.IfID); ok && !f.Owned {
		return "sibling"
	}
	return "external"
}

// ---- witnesses ----

type fuzzWitness struct {
	Star     starVariant `json:"star"`
	LocalIA  string      `json:"local_ia"`
	Gen      string      `json:"generator"`
	Ingress  uint16      `json:"ingress_if"`
	Src      string      `json:"src_underlay,omitempty"`
	Input    string      `json:"input_hex"`
	Output   string      `json:"output_hex,omitempty"`
	Disp     int         `json:"fast_disposition"`
	SlowKind int         `json:"slow_kind"`
	SlowCode int         `json:"slow_code"`
	SlowPtr  uint16      `json:"slow_pointer"`
	SlowErr  string      `json:"slow_err,omitempty"`
	Note     string      `json:"note,omitempty"`
}

func mkWitness(s *rfix.Star, v starVariant, gen string, raw []byte, in rfix.Ingress, res *rfix.Result) fuzzWitness {
	w := fuzzWitness{Star: v, LocalIA: s.Cfg.IA.String(), Gen: gen, Ingress: in.IfID, Input: hex.EncodeToString(raw)}
	if in.Src != nil {
		w.Src = in.Src.String()
	}
	if res != nil {
		w.Output = hex.EncodeToString(res.Out)
		w.Disp, w.SlowKind, w.SlowCode, w.SlowPtr, w.SlowErr = int(res.Disp), res.SlowKind, res.SlowCode, res.SlowPtr, res.SlowErr
		if res.Panic != "" {
			w.Note = "panic: " + res.Panic + "\n" + trim(res.Stack, 2500)
		}
	}
	return w
}

func trim(s string, n int) string {
	if len(s) > n {
		return s[:n]
	}
	return s
}

// loadReplay reads a witness written by mon.Violation.
func loadReplay(path string) (*fuzzWitness, error) {
	b, err := os.ReadFile(path)
	if err != nil {
		return nil, err
	}
	var f struct {
		Witness fuzzWitness `json:"witness"`
	}
	if err := json.Unmarshal(b, &f); err != nil {
		return nil, err
	}
	return &f.Witness, nil
}

func (w *fuzzWitness) ingress() rfix.Ingress {
	in := rfix.Ingress{IfID: w.Ingress}
	if w.Src != "" {
		if ap, err := netip.ParseAddrPort(w.Src); err == nil {
			in.Src = &net.UDPAddr{IP: ap.Addr().AsSlice(), Port: int(ap.Port())}
		}
	}
	return in
}

// ---- violations ----

// panicFunc returns the name of the innermost function of the repository
// under test on a panic stack (e.g. "router.(*scionPacketProcessor).processBFD",
// "pkg/addr.Host.IP"): a key that does not move when lines do.
func panicFunc(stack string) string {
	root := os.Getenv("VERIF_REPO")
	if root == "" {
		root = "/repo"
	}
	lines := strings.Split(stack, "\n")
	for i, l := range lines {
		if i == 0 || !strings.HasPrefix(strings.TrimSpace(l), root+"/") {
			continue
		}
		fn := strings.TrimSpace(lines[i-1])
		if j := strings.LastIndex(fn, "("); j > 0 && strings.HasSuffix(fn, ")") {
			fn = fn[:j]
		}
		return strings.TrimPrefix(fn, "github.com/scionproto/scion/")
	}
	return "unknown"
}

var (
	violMu   sync.Mutex
	violSeen = map[string]int{}
)

// reportViolation forwards to the monitor and, because the monitor writes
// replay files for the first few violations only, keeps one witness file per
// distinct key (replays/<id>/<seed>-key-<key>.json, same layout).
func reportViolation(r *mon.Run, key, what string, w any) {
	violMu.Lock()
	violSeen[key]++
	first := violSeen[key] == 1
	violMu.Unlock()
	if first {
		dir := filepath.Join(mon.VerifDir(), "replays", r.ID)
		_ = os.MkdirAll(dir, 0o755)
		name := strings.NewReplacer(":", "_", "/", "_", " ", "_").Replace(key)
		b, err := json.MarshalIndent(map[string]any{
			"property": r.ID, "seed": r.Seed, "tier": r.Tier, "key": key, "what": what, "witness": w,
		}, "", " ")
		if err == nil {
			_ = os.WriteFile(filepath.Join(dir, fmt.Sprintf("%d-key-%s.json", r.Seed, name)), b, 0o644)
		}
	}
	r.Violation(key, what, w)
}

// ---- last-input page: survives a process-fatal error ----

// A "fatal error" (checkptr, concurrent map access) cannot be recovered, so
// each worker copies the input it is about to feed into a shared file mapping
// (MAP_SHARED survives the death of the process). Layout per worker slot
// (slotSize bytes): magic "VFZ1", len u32, ifID u16, star idx u16, src port
// u16, src ip len u8, pad, src ip 16 bytes, gen name 32 bytes, data.
const slotSize = 16384

type lastInput struct {
	mem  []byte
	path string
}

func openLastInput(r *mon.Run, workers int) *lastInput {
	dir := filepath.Join(mon.VerifDir(), "logs")
	_ = os.MkdirAll(dir, 0o755)
	// one file per (property, tier, tree): concurrent runs must not share a mapping
	name := r.ID + "." + r.Tier
	if root := os.Getenv("VERIF_REPO"); root != "" && root != "/repo" {
		name += ".scratch"
	}
	p := filepath.Join(dir, name+".lastinput.bin")
	f, err := os.OpenFile(p, os.O_RDWR|os.O_CREATE, 0o644)
	if err != nil {
		return &lastInput{}
	}
	defer f.Close()
	if err := f.Truncate(int64(workers * slotSize)); err != nil {
		return &lastInput{}
	}
	mem, err := syscall.Mmap(int(f.Fd()), 0, workers*slotSize, syscall.PROT_READ|syscall.PROT_WRITE, syscall.MAP_SHARED)
	if err != nil {
		return &lastInput{}
	}
	fmt.Printf("last input of every worker is kept in %s (slot size %d; decode with -replay %s)\n", p, slotSize, p)
	return &lastInput{mem: mem, path: p}
}

func (l *lastInput) put(worker int, starIdx int, gen string, raw []byte, in rfix.Ingress) {
	if l.mem == nil {
		return
	}
	s := l.mem[worker*slotSize : (worker+1)*slotSize]
	copy(s[0:4], "VFZ1")
	binary.LittleEndian.PutUint32(s[4:8], uint32(len(raw)))
	binary.LittleEndian.PutUint16(s[8:10], in.IfID)
	binary.LittleEndian.PutUint16(s[10:12], uint16(starIdx))
	s[14] = 0
	if in.Src != nil {
		binary.LittleEndian.PutUint16(s[12:14], uint16(in.Src.Port))
		s[14] = uint8(copy(s[16:32], in.Src.IP))
	}
	n := copy(s[32:64], gen)
	for i := 32 + n; i < 64; i++ {
		s[i] = 0
	}
	copy(s[64:], raw)
}

func (l *lastInput) close() {
	if l.mem != nil {
		_ = syscall.Munmap(l.mem)
		l.mem = nil
	}
}

// readLastInputs decodes a last-input file into witnesses.
func readLastInputs(path string) ([]fuzzWitness, error) {
	b, err := os.ReadFile(path)
	if err != nil {
		return nil, err
	}
	var out []fuzzWitness
	for o := 0; o+slotSize <= len(b); o += slotSize {
		s := b[o : o+slotSize]
		if string(s[0:4]) != "VFZ1" {
			continue
		}
		n := int(binary.LittleEndian.Uint32(s[4:8]))
		if n > slotSize-64 {
			n = slotSize - 64
		}
		w := fuzzWitness{
			Ingress: binary.LittleEndian.Uint16(s[8:10]),
			Star:    starVariant{Idx: int(binary.LittleEndian.Uint16(s[10:12]))},
			Gen:     strings.TrimRight(string(s[32:64]), "\x00"),
			Input:   hex.EncodeToString(s[64 : 64+n]),
		}
		if l := int(s[14]); l == 4 || l == 16 {
			ip, _ := netip.AddrFromSlice(s[16 : 16+l])
			w.Src = netip.AddrPortFrom(ip, binary.LittleEndian.Uint16(s[12:14])).String()
		}
		out = append(out, w)
	}
	return out, nil
}

// ---- per-worker aggregation of observations ----

// agg batches evaluations, classes and events of one worker so that the
// shared monitor is not hit for every packet.
type agg struct {
	r       *mon.Run
	evals   int
	classes map[string]struct{}
	events  map[string]int64
}

func newAgg(r *mon.Run) *agg {
	return &agg{r: r, classes: map[string]struct{}{}, events: map[string]int64{}}
}

func (a *agg) eval()                    { a.evals++ }
func (a *agg) count(k string) int64     { return a.events[k] }
func (a *agg) class(k string)           { a.classes[k] = struct{}{} }
func (a *agg) event(k string)           { a.events[k]++ }
func (a *agg) eventN(k string, n int64) { a.events[k] += n }

var flushMu sync.Mutex

func (a *agg) flush() {
	flushMu.Lock()
	defer flushMu.Unlock()
	a.r.Eval(a.evals)
	a.evals = 0
	for k := range a.classes {
		a.r.Class(k)
	}
	a.classes = map[string]struct{}{}
	for k, n := range a.events {
		a.r.EventN(k, n)
	}
	a.events = map[string]int64{}
}

// ---- output oracle shared by both checks ----

// outVerdict is the judgement of one byte string that left the router.
type outVerdict struct {
	ok      bool
	cat     string // stable category of the inconsistency
	detail  string
	hdr     *rfix.Hdr
	version uint8
}

// categorize maps a reference-parser error to a stable category.
func categorize(msg string) string {
	switch {
	case strings.HasPrefix(msg, "short common header"):
		return "short"
	case strings.HasPrefix(msg, "HdrLen"):
		return "hdrlen-exceeds-packet"
	case strings.HasPrefix(msg, "PayloadLen"):
		return "payloadlen"
	case strings.HasPrefix(msg, "address header"):
		return "addrhdr-exceeds-hdrlen"
	case strings.HasPrefix(msg, "empty path with"):
		return "empty-path-length"
	case strings.HasPrefix(msg, "one-hop path length"):
		return "onehop-path-length"
	case strings.HasPrefix(msg, "EPIC path too short"):
		return "epic-path-length"
	case strings.HasPrefix(msg, "unknown path type"):
		return "unknown-path-type"
	case strings.HasPrefix(msg, "path shorter than meta"):
		return "path-length"
	case strings.HasPrefix(msg, "path length"):
		return "path-length"
	case strings.HasPrefix(msg, "non-contiguous segments"), strings.HasPrefix(msg, "no segments"):
		return "segments"
	case strings.HasPrefix(msg, "CurrHF"):
		return "currhf-out-of-range"
	case strings.HasPrefix(msg, "CurrINF"):
		return "currinf"
	}
	return "other"
}

// judgeSCION checks that out is a consistent SCION packet: the independent
// reference parser accepts it (HdrLen*4 <= len, PayloadLen == len-HdrLen*4,
// path fills the header exactly, CurrHF/CurrINF inside their segments) and
// slayers.SCION decodes it. The version nibble is not part of the property
// statement: it is masked for the reference parser and reported separately.
func judgeSCION(out []byte, sl *slayers.SCION) outVerdict {
	v := outVerdict{}
	b := out
	if len(out) > 0 && out[0]&0xf0 != 0 {
		v.version = out[0] >> 4
		b = append([]byte(nil), out...)
		b[0] &= 0x0f
	}
	h, err := rfix.ParseHdr(b)
	if err != nil {
		v.cat, v.detail = categorize(err.Error()), err.Error()
		return v
	}
	v.hdr = h
	if err := sl.DecodeFromBytes(out, gopacket.NilDecodeFeedback); err != nil {
		v.cat, v.detail = "slayers-decode", err.Error()
		return v
	}
	v.ok = true
	return v
}

func outcomeOf(res *rfix.Result) string {
	switch {
	case res.Panic != "":
		return "panic"
	case res.Disp == router.VerifDiscard:
		return "discard"
	case res.Disp == router.VerifDone:
		return "done"
	case res.Disp == router.VerifForward:
		if res.Out == nil {
			return "forward-no-link"
		}
		if res.OutScope == router.Internal {
			return "deliver"
		}
		if res.OutScope == router.Sibling {
			return "forward-sibling"
		}
		return "forward"
	case res.Disp == router.VerifSlowPath:
		if res.SlowErr != "" || res.Out == nil {
			if res.SlowKind < 0 {
				return "alert-noanswer"
			}
			return fmt.Sprintf("scmp-%d-%d-noanswer", res.SlowKind, res.SlowCode)
		}
		if res.SlowKind < 0 {
			// either a traceroute reply, or the slow path declined and the packet
			// goes out again as it is (over the link it came from)
			if m := rfix.ParseSCMP(res.Out); m.OK && m.Type == 131 {
				return "traceroute-reply"
			}
			return "alert-declined-sent-back"
		}
		return fmt.Sprintf("scmp-%d-%d", res.SlowKind, res.SlowCode)
	}
	return fmt.Sprintf("disp-%d", res.Disp)
}

func pick[T any](rng *rand.Rand, xs ...T) T { return xs[rng.IntN(len(xs))] }
