package main

import (
	"context"
	"fmt"
	"time"

	"github.com/scionproto/scion/private/storage/db"
	"github.com/scionproto/scion/private/storage/path/sqlite"
)

func main() {
	for _, mem := range []bool{true, false} {
		for i := 0; i < 3; i++ {
			name := fmt.Sprintf("/dev/shm/probe_%d.db", i)
			if mem {
				name = fmt.Sprintf("probe_%d", i)
			}
			t0 := time.Now()
			b, err := sqlite.New(name, &db.SqliteConfig{InMemory: mem})
			if err != nil {
				panic(err)
			}
			t1 := time.Now()
			b.GetAll(context.Background())
			t2 := time.Now()
			for k := 0; k < 30; k++ {
				b.GetAll(context.Background())
			}
			t3 := time.Now()
			b.Close()
			t4 := time.Now()
			fmt.Println(mem, "new", t1.Sub(t0), "first get", t2.Sub(t1), "30 get", t3.Sub(t2), "close", t4.Sub(t3))
		}
	}
}
