package main

// Reference models for C32 and C33, written from doc/cryptography/trc.rst,
// doc/cryptography/certificates.rst and the property statements. They read
// only the generator's *plans* (pkitrcgen.Payload, CertSpec, SigSpec): which
// fields were set to what, which certificate generation sits where, who votes
// and which key produced which SignerInfo. They never parse DER and never call
// pkg/scrypto/cppki.

import (
	"bytes"
	"sort"
	"strings"

	gen "verif/pkitrcgen"
)

// ---- C33: payload rules ----

// Rule names (one per clause of the C33 statement).
const (
	ruleVersion       = "version"
	ruleISDWildcard   = "isd-wildcard"
	ruleISDRange      = "isd-out-of-range" // only expressible on the wire
	ruleBaseZero      = "base-zero"
	ruleBaseGtSerial  = "base-gt-serial"
	ruleValidityEmpty = "validity-empty"
	ruleBaseGrace     = "base-grace-period"
	ruleBaseVotes     = "base-votes"
	ruleQuorumZero    = "quorum-zero"
	ruleQuorumNeg     = "quorum-negative"
	ruleQuorumBig     = "quorum-gt-255"
	ruleQuorumSens    = "quorum-gt-sensitive"
	ruleQuorumReg     = "quorum-gt-regular"
	ruleCoreEmpty     = "core-empty"
	ruleCoreWildcard  = "core-wildcard"
	ruleCoreDup       = "core-duplicate"
	ruleAuthEmpty     = "auth-empty"
	ruleAuthWildcard  = "auth-wildcard"
	ruleAuthDup       = "auth-duplicate"
	ruleCertClass     = "cert-unclassifiable"
	ruleCertISD       = "cert-other-isd"
	ruleCertValidity  = "cert-validity-not-covering"
	ruleDupIssuerSN   = "dup-issuer-serial"
	ruleDupSubject    = "dup-subject-in-class"
)

// payloadViolations lists the rules of the C33 statement that the planned
// payload breaks (sorted, without repetitions). ambiguous is set when the plan
// contains something the statement does not decide (validity of exactly one
// instant).
func payloadViolations(p *gen.Payload) (rules []string, ambiguous bool) {
	set := map[string]bool{}
	if p.Version != 0 {
		set[ruleVersion] = true
	}
	if p.ISD == 0 {
		set[ruleISDWildcard] = true
	}
	if p.ISD < 0 || p.ISD > 65535 {
		set[ruleISDRange] = true
	}
	if p.Base < 1 {
		set[ruleBaseZero] = true
	}
	if p.Base > p.Serial {
		set[ruleBaseGtSerial] = true
	}
	if p.NotAfter.Before(p.NotBefore) {
		set[ruleValidityEmpty] = true
	} else if p.NotAfter.Equal(p.NotBefore) {
		ambiguous = true
	}
	if p.Serial == p.Base {
		if p.GracePeriod != 0 {
			set[ruleBaseGrace] = true
		}
		if len(p.Votes) != 0 {
			set[ruleBaseVotes] = true
		}
	}
	switch {
	case p.Quorum == 0:
		set[ruleQuorumZero] = true
	case p.Quorum < 0:
		set[ruleQuorumNeg] = true
	case p.Quorum > 255:
		set[ruleQuorumBig] = true
	}
	asRules := func(list []string, empty, wildcard, dup string) {
		if len(list) == 0 {
			set[empty] = true
		}
		seen := map[uint64]bool{}
		for _, s := range list {
			v, ok := gen.ParseASText(s)
			if !ok {
				ambiguous = true // generator never plans unparsable AS text
				continue
			}
			if v == 0 {
				set[wildcard] = true
			}
			if seen[v] {
				set[dup] = true
			}
			seen[v] = true
		}
	}
	asRules(p.Core, ruleCoreEmpty, ruleCoreWildcard, ruleCoreDup)
	asRules(p.Auth, ruleAuthEmpty, ruleAuthWildcard, ruleAuthDup)

	nSens, nReg := int64(0), int64(0)
	type isn struct{ issuer, serial string }
	seenISN := map[isn]bool{}
	seenSubj := map[string]bool{}
	for _, c := range p.Certs {
		s := c.Spec
		if s.Defect != gen.NoDefect || s.Kind > gen.Root {
			set[ruleCertClass] = true
		}
		switch s.Kind {
		case gen.Sensitive:
			nSens++
		case gen.Regular:
			nReg++
		}
		if s.IA != "" && s.Defect != gen.DefRootNoIA {
			if isdOfIA(s.IA) != p.ISD {
				set[ruleCertISD] = true
			}
		}
		if s.NotBefore.After(p.NotBefore) || s.NotAfter.Before(p.NotAfter) {
			set[ruleCertValidity] = true
		}
		k := isn{s.IssuerDN(), s.Serial.String()}
		if seenISN[k] {
			set[ruleDupIssuerSN] = true
		}
		seenISN[k] = true
		sk := s.Kind.String() + "|" + s.DN()
		if seenSubj[sk] {
			set[ruleDupSubject] = true
		}
		seenSubj[sk] = true
	}
	if p.Quorum > nSens {
		set[ruleQuorumSens] = true
	}
	if p.Quorum > nReg {
		set[ruleQuorumReg] = true
	}
	for k := range set {
		rules = append(rules, k)
	}
	sort.Strings(rules)
	return rules, ambiguous
}

func isdOfIA(ia string) int64 {
	i := strings.IndexByte(ia, '-')
	if i < 0 {
		return -1
	}
	var v int64
	for _, c := range ia[:i] {
		if c < '0' || c > '9' {
			return -1
		}
		v = v*10 + int64(c-'0')
	}
	return v
}

// ---- C32: update / base acceptance ----

// sigFact is what the plan says about one SignerInfo.
type sigFact struct {
	sid    *gen.Cert // certificate named by the signer identifier
	key    *gen.Key  // key that produced the signature
	intact bool      // signature bytes untouched and digest taken over this payload
}

func factsOf(sigs []gen.SigSpec, payload []byte) []sigFact {
	out := make([]sigFact, 0, len(sigs))
	for _, s := range sigs {
		out = append(out, sigFact{
			sid:    s.SID,
			key:    s.SigningKey(),
			intact: s.Tamper == gen.TamperNone && !s.Lift && (s.DigestOver == nil || bytes.Equal(s.DigestOver, payload)),
		})
	}
	return out
}

// hasSigned: some SignerInfo names c (issuer and serial number) and carries an
// intact signature by c's own key.
func hasSigned(c *gen.Cert, facts []sigFact) bool {
	for _, f := range facts {
		if f.sid.Spec.IssuerDN() == c.Spec.IssuerDN() && f.sid.Spec.Serial.Cmp(c.Spec.Serial) == 0 &&
			f.key.ID == c.Spec.Key.ID && f.intact {
			return true
		}
	}
	return false
}

func sameStrings(a, b []string) bool {
	if len(a) != len(b) {
		return false
	}
	for i := range a {
		if a[i] != b[i] {
			return false
		}
	}
	return true
}

func certsOfKind(p *gen.Payload, k gen.Kind) []*gen.Cert {
	var out []*gen.Cert
	for _, c := range p.Certs {
		if c.Spec.Kind == k && c.Spec.Defect == gen.NoDefect {
			out = append(out, c)
		}
	}
	return out
}

func containsCert(list []*gen.Cert, c *gen.Cert) bool {
	for _, x := range list {
		if x.ID == c.ID {
			return true
		}
	}
	return false
}

func findDN(list []*gen.Cert, dn string) *gen.Cert {
	for _, x := range list {
		if x.Spec.DN() == dn {
			return x
		}
	}
	return nil
}

func indexOfCert(p *gen.Payload, c *gen.Cert) int64 {
	for i, x := range p.Certs {
		if x.ID == c.ID {
			return int64(i)
		}
	}
	return -1
}

// stmtAllowsUpdate evaluates the necessary conditions of the C32 statement for
// accepting succ as successor of pred. why names the first failed condition.
func stmtAllowsUpdate(pred, succ *gen.Payload, succDER []byte, sigs []gen.SigSpec) (ok bool, why string) {
	if pred == nil {
		return false, "no predecessor"
	}
	if succ.ISD != pred.ISD {
		return false, "ISD differs"
	}
	if succ.Base != pred.Base {
		return false, "base differs"
	}
	if succ.Serial != pred.Serial+1 {
		return false, "serial not predecessor+1"
	}
	if succ.NoTrustReset != pred.NoTrustReset {
		return false, "trust-reset flag differs"
	}
	if rules, _ := payloadViolations(succ); len(rules) > 0 {
		return false, "payload invalid: " + strings.Join(rules, ",")
	}
	facts := factsOf(sigs, succDER)
	// every newly introduced voting certificate has signed
	for _, k := range []gen.Kind{gen.Sensitive, gen.Regular} {
		old := certsOfKind(pred, k)
		for _, c := range certsOfKind(succ, k) {
			if !containsCert(old, c) && !hasSigned(c, facts) {
				return false, "new " + k.String() + " voting certificate has not signed"
			}
		}
	}
	// distinct predecessor certificates of a class that signed as voters
	voters := func(k gen.Kind) (n int64, voted map[int64]bool) {
		voted = map[int64]bool{}
		for _, v := range succ.Votes {
			if v < 0 || v >= int64(len(pred.Certs)) || voted[v] {
				continue
			}
			c := pred.Certs[v]
			if c.Spec.Kind != k || !hasSigned(c, facts) {
				continue
			}
			voted[v] = true
			n++
		}
		return n, voted
	}
	nSens, _ := voters(gen.Sensitive)
	if nSens >= pred.Quorum {
		return true, "sensitive"
	}
	nReg, voted := voters(gen.Regular)
	if nReg < pred.Quorum {
		return false, "fewer than quorum distinct voters of one class signed"
	}
	// regular update restrictions
	if succ.Quorum != pred.Quorum {
		return false, "regular votes but quorum changed"
	}
	if !sameASes(succ.Core, pred.Core) {
		return false, "regular votes but core ASes changed"
	}
	if !sameASes(succ.Auth, pred.Auth) {
		return false, "regular votes but authoritative ASes changed"
	}
	ps, ss := certsOfKind(pred, gen.Sensitive), certsOfKind(succ, gen.Sensitive)
	if len(ps) != len(ss) {
		return false, "regular votes but sensitive certificates changed"
	}
	for _, c := range ss {
		if !containsCert(ps, c) {
			return false, "regular votes but sensitive certificates changed"
		}
	}
	for _, k := range []gen.Kind{gen.Root, gen.Regular} {
		pk, sk := certsOfKind(pred, k), certsOfKind(succ, k)
		if len(pk) != len(sk) {
			return false, "regular votes but " + k.String() + " certificate added or removed"
		}
		for _, c := range sk {
			o := findDN(pk, c.Spec.DN())
			if o == nil {
				return false, "regular votes but " + k.String() + " certificate added or removed"
			}
			if o.ID == c.ID {
				continue
			}
			if k == gen.Regular && !voted[indexOfCert(pred, o)] {
				return false, "replaced regular voter did not vote"
			}
			if k == gen.Root && !hasSigned(o, facts) {
				return false, "replaced root did not acknowledge"
			}
		}
	}
	return true, "regular"
}

// sameASes compares AS sequences by value, element by element.
func sameASes(a, b []string) bool {
	if len(a) != len(b) {
		return false
	}
	for i := range a {
		x, ok1 := gen.ParseASText(a[i])
		y, ok2 := gen.ParseASText(b[i])
		if !ok1 || !ok2 || x != y {
			return false
		}
	}
	return true
}

// stmtAllowsBase: a base TRC is accepted only if valid and signed by all its
// voting certificates.
func stmtAllowsBase(p *gen.Payload, der []byte, sigs []gen.SigSpec) (bool, string) {
	if rules, _ := payloadViolations(p); len(rules) > 0 {
		return false, "payload invalid: " + strings.Join(rules, ",")
	}
	facts := factsOf(sigs, der)
	for _, c := range p.Certs {
		if c.Spec.Kind.Voting() && !hasSigned(c, facts) {
			return false, c.Spec.Kind.String() + " voting certificate has not signed"
		}
	}
	return true, "base"
}
