package main

import (
	"bytes"
	"crypto"
	"crypto/ecdsa"
	"crypto/ed25519"
	cryptorand "crypto/rand"
	"crypto/rsa"
	"crypto/sha256"
	"crypto/sha512"
	"crypto/x509"
	"encoding/hex"
	"encoding/json"
	"fmt"
	"math/big"
	"math/rand/v2"
	"os"
	"sync"
	"time"

	cryptopb "github.com/scionproto/scion/pkg/proto/crypto"
	"github.com/scionproto/scion/pkg/scrypto/signed"

	"verif/mon"
	gen "verif/pkitrcgen"
)

// ---- independent protobuf encoding of proto/crypto/v1/signed.proto ----

func pbVarint(b []byte, v uint64) []byte {
	for v >= 0x80 {
		b = append(b, byte(v)|0x80)
		v >>= 7
	}
	return append(b, byte(v))
}

func pbBytes(b []byte, field int, v []byte) []byte {
	b = pbVarint(b, uint64(field<<3|2))
	b = pbVarint(b, uint64(len(v)))
	return append(b, v...)
}

func pbInt(b []byte, field int, v int64) []byte {
	b = pbVarint(b, uint64(field<<3|0))
	return pbVarint(b, uint64(v))
}

// refHeader is what the signer claims to sign.
type refHeader struct {
	Algo      int64 // wire value of SignatureAlgorithm
	KeyID     []byte
	HasTime   bool
	Seconds   int64
	Nanos     int64
	Metadata  []byte
	ADLen     int64
	Body      []byte
	AD        [][]byte
	CurveName string
}

func (h *refHeader) encodeHeaderAndBody() []byte {
	var hdr []byte
	if h.Algo != 0 {
		hdr = pbInt(hdr, 1, h.Algo)
	}
	if len(h.KeyID) > 0 {
		hdr = pbBytes(hdr, 2, h.KeyID)
	}
	if h.HasTime {
		var ts []byte
		if h.Seconds != 0 {
			ts = pbInt(ts, 1, h.Seconds)
		}
		if h.Nanos != 0 {
			ts = pbInt(ts, 2, h.Nanos)
		}
		hdr = pbBytes(hdr, 3, ts)
	}
	if len(h.Metadata) > 0 {
		hdr = pbBytes(hdr, 4, h.Metadata)
	}
	if h.ADLen != 0 {
		hdr = pbInt(hdr, 5, h.ADLen)
	}
	var out []byte
	if len(hdr) > 0 {
		out = pbBytes(out, 1, hdr)
	}
	if len(h.Body) > 0 {
		out = pbBytes(out, 2, h.Body)
	}
	return out
}

type pbField struct {
	num   int
	wt    int
	val   uint64
	bytes []byte
}

// pbParse is a minimal protobuf wire parser (varint and length-delimited).
func pbParse(b []byte) ([]pbField, bool) {
	var out []pbField
	rd := func() (uint64, bool) {
		var v uint64
		for s := uint(0); s < 70; s += 7 {
			if len(b) == 0 {
				return 0, false
			}
			c := b[0]
			b = b[1:]
			v |= uint64(c&0x7f) << s
			if c < 0x80 {
				return v, true
			}
		}
		return 0, false
	}
	for len(b) > 0 {
		k, ok := rd()
		if !ok {
			return nil, false
		}
		f := pbField{num: int(k >> 3), wt: int(k & 7)}
		switch f.wt {
		case 0:
			if f.val, ok = rd(); !ok {
				return nil, false
			}
		case 2:
			l, ok := rd()
			if !ok || l > uint64(len(b)) {
				return nil, false
			}
			f.bytes, b = b[:l], b[l:]
		default:
			return nil, false
		}
		out = append(out, f)
	}
	return out, true
}

// decodeRef reads header-and-body bytes back into the claimed content.
func decodeRef(hb []byte) (*refHeader, bool) {
	h := &refHeader{}
	top, ok := pbParse(hb)
	if !ok {
		return nil, false
	}
	for _, f := range top {
		switch {
		case f.num == 1 && f.wt == 2:
			fs, ok := pbParse(f.bytes)
			if !ok {
				return nil, false
			}
			for _, g := range fs {
				switch {
				case g.num == 1 && g.wt == 0:
					h.Algo = int64(g.val)
				case g.num == 2 && g.wt == 2:
					h.KeyID = g.bytes
				case g.num == 3 && g.wt == 2:
					h.HasTime = true
					ts, ok := pbParse(g.bytes)
					if !ok {
						return nil, false
					}
					for _, t := range ts {
						if t.num == 1 {
							h.Seconds = int64(t.val)
						}
						if t.num == 2 {
							h.Nanos = int64(t.val)
						}
					}
				case g.num == 4 && g.wt == 2:
					h.Metadata = g.bytes
				case g.num == 5 && g.wt == 0:
					h.ADLen = int64(int32(g.val))
				}
			}
		case f.num == 2 && f.wt == 2:
			h.Body = f.bytes
		}
	}
	return h, true
}

func refHash(algo int64) crypto.Hash {
	switch algo {
	case 1:
		return crypto.SHA256
	case 2:
		return crypto.SHA384
	case 3:
		return crypto.SHA512
	}
	return 0
}

// refDigest is the documented signature input: hash over header-and-body
// followed by the concatenated associated data.
func refDigest(algo int64, hb []byte, ad [][]byte) []byte {
	var in []byte
	in = append(in, hb...)
	for _, d := range ad {
		in = append(in, d...)
	}
	switch refHash(algo) {
	case crypto.SHA256:
		s := sha256.Sum256(in)
		return s[:]
	case crypto.SHA384:
		s := sha512.Sum384(in)
		return s[:]
	case crypto.SHA512:
		s := sha512.Sum512(in)
		return s[:]
	}
	return in
}

// ---- case generation ----

func rbytes(rng *rand.Rand, n int) []byte {
	b := make([]byte, n)
	for i := range b {
		b[i] = byte(rng.UintN(256))
	}
	return b
}

func rlen(rng *rand.Rand, maxLen int) int {
	switch rng.IntN(6) {
	case 0:
		return 0
	case 1:
		return 1
	}
	return rng.IntN(maxLen + 1)
}

func genHeader(rng *rand.Rand, curve gen.Curve) *refHeader {
	h := &refHeader{CurveName: curve.String()}
	h.Algo = int64(curve) + 1 // SHA-256/384/512 for P-256/384/521
	if rng.IntN(5) == 0 {
		h.Algo = 1 + int64(rng.IntN(3)) // any listed algorithm: all are ECDSA
	}
	h.KeyID = rbytes(rng, rlen(rng, 40))
	if rng.IntN(4) != 0 {
		h.HasTime = true
		h.Seconds = rng.Int64N(4_200_000_000)
		if rng.IntN(10) == 0 {
			h.Seconds = -rng.Int64N(1_000_000_000)
		}
		h.Nanos = int64(rng.IntN(1_000_000_000))
		if rng.IntN(3) == 0 {
			h.Nanos = 0
		}
		if h.Seconds == -62135596800 && h.Nanos == 0 { // time.Time zero value means "absent" in the API
			h.Seconds++
		}
	}
	h.Metadata = rbytes(rng, rlen(rng, 60))
	bl := rlen(rng, 300)
	if rng.IntN(40) == 0 {
		bl = 5000 + rng.IntN(3000)
	}
	h.Body = rbytes(rng, bl)
	nAD := rng.IntN(5)
	for i := 0; i < nAD; i++ {
		n := rlen(rng, 40)
		if rng.IntN(6) == 0 {
			// large pieces (earlier AS entries with many peers or static info)
			// next to small ones: sizes around typical buffering thresholds
			n = []int{255, 256, 511, 512, 513, 1023, 1024, 4096, 5000}[rng.IntN(9)] + rng.IntN(3)
		}
		d := rbytes(rng, n)
		h.AD = append(h.AD, d)
		h.ADLen += int64(len(d))
	}
	return h
}

func (h *refHeader) apiHeader() signed.Header {
	hdr := signed.Header{
		SignatureAlgorithm:   signed.SignatureAlgorithm(h.Algo),
		VerificationKeyID:    h.KeyID,
		Metadata:             h.Metadata,
		AssociatedDataLength: int(h.ADLen),
	}
	if h.HasTime {
		hdr.Timestamp = time.Unix(h.Seconds, h.Nanos).UTC()
	}
	return hdr
}

func concat(ad [][]byte) []byte {
	var out []byte
	for _, d := range ad {
		out = append(out, d...)
	}
	return out
}

// resplit cuts the same concatenation at other points.
func resplit(rng *rand.Rand, all []byte) [][]byte {
	switch rng.IntN(4) {
	case 0:
		return [][]byte{all}
	case 1: // byte by byte
		var out [][]byte
		for i := range all {
			out = append(out, all[i:i+1])
		}
		return out
	case 2: // with empty chunks in between
		cut := 0
		if len(all) > 0 {
			cut = rng.IntN(len(all) + 1)
		}
		return [][]byte{{}, all[:cut], nil, all[cut:], {}}
	}
	var out [][]byte
	rest := all
	for len(rest) > 0 {
		n := 1 + rng.IntN(len(rest))
		out = append(out, rest[:n])
		rest = rest[n:]
	}
	return out
}

type c38Witness struct {
	Producer  string   `json:"producer"`
	Curve     string   `json:"curve"`
	Mutation  string   `json:"mutation"`
	Detail    string   `json:"detail,omitempty"`
	HdrBody   string   `json:"header_and_body_hex"`
	Signature string   `json:"signature_hex"`
	AD        []string `json:"associated_data_hex"`
	KeyPKIX   string   `json:"public_key_pkix_hex,omitempty"`
	KeyType   string   `json:"key_type"`
	Expect    string   `json:"expect"`
	Got       string   `json:"got"`
}

func hexList(l [][]byte) []string {
	out := make([]string, 0, len(l))
	for _, d := range l {
		out = append(out, hex.EncodeToString(d))
	}
	return out
}

func pkixHex(k crypto.PublicKey) string {
	b, err := x509.MarshalPKIXPublicKey(k)
	if err != nil {
		return ""
	}
	return hex.EncodeToString(b)
}

var (
	otherKeysOnce sync.Once
	rsaPub        *rsa.PublicKey
)

func rsaKey() *rsa.PublicKey {
	otherKeysOnce.Do(func() {
		k, err := rsa.GenerateKey(cryptorand.Reader, 2048)
		if err != nil {
			panic(err)
		}
		rsaPub = &k.PublicKey
	})
	return rsaPub
}

// verify calls the function under test.
func c38Verify(msg *cryptopb.SignedMessage, key crypto.PublicKey, ad [][]byte) (m *signed.Message, err error, pv any, stack string) {
	pv, stack = mon.Try(func() { m, err = signed.Verify(msg, key, ad...) })
	return
}

func sameContent(h *refHeader, m *signed.Message) string {
	want := h.apiHeader()
	switch {
	case m.Header.SignatureAlgorithm != want.SignatureAlgorithm:
		return "signature algorithm"
	case !bytes.Equal(m.Header.VerificationKeyID, want.VerificationKeyID):
		return "verification key id"
	case !m.Header.Timestamp.Equal(want.Timestamp) || m.Header.Timestamp.IsZero() != want.Timestamp.IsZero():
		return "timestamp"
	case !bytes.Equal(m.Header.Metadata, want.Metadata):
		return "metadata"
	case m.Header.AssociatedDataLength != want.AssociatedDataLength:
		return "associated data length"
	case !bytes.Equal(m.Body, h.Body):
		return "body"
	}
	return ""
}

func checkC38(r *mon.Run) {
	r.Rule = "random header/body/associated-data x P-256/384/521 x {signed.Sign, independent protobuf encoder + crypto/ecdsa}; " +
		"the untouched message and every re-split of the same associated-data concatenation must verify and return the signed " +
		"content; ~45 single mutations per message (bit/byte of header-and-body, signature bits/truncation/extension/component " +
		"edits, associated-data content/length/order, other key, other key type, algorithm values outside the list) must fail; " +
		"class = mutation kind / curve / outcome"
	r.Assumptions = []string{
		"the ECDSA (r, n-s) twin of a signature is a valid signature and is never generated as a mutation",
		"semantically equal protobuf re-encodings of header-and-body are recorded, not judged",
		"hash/curve pairings other than the recommended ones are all ECDSA and therefore consistent with the key",
	}
	if r.ReplayFile() != "" {
		replayC38(r)
		return
	}
	e := getEnv(r)
	n := r.Pick(900, 30000)
	workers := 14
	var wg sync.WaitGroup
	for wk := 0; wk < workers; wk++ {
		wg.Add(1)
		go func(wk int) {
			defer wg.Done()
			for i := wk; i < n; i += workers {
				c38Case(r, e, i)
			}
		}(wk)
	}
	wg.Wait()
	r.Require(int64(n)*30, 60, "verified", "rejected", "producer_sign", "producer_reference", "resplit_verified")
}

func c38Case(r *mon.Run, e *env, i int) {
	rng := r.Rand(fmt.Sprint("c38/", i))
	curve := gen.Curve(i % 3)
	if r.Tier == "quick" && curve == gen.P521 && i%2 == 0 {
		curve = gen.P256 // P-521 verification is ~50x slower; keep a sixth of the quick cases on it
	}
	key := e.pool.Key(curve, rng.IntN(e.pool.Len(curve)))
	pub := &key.Priv.PublicKey
	h := genHeader(rng, curve)
	producer := "sign"
	if i%3 == 1 || rng.IntN(4) == 0 {
		producer = "reference"
	}
	var msg *cryptopb.SignedMessage
	if producer == "sign" {
		var err error
		pv, st := mon.Try(func() { msg, err = signed.Sign(h.apiHeader(), h.Body, key.Priv, h.AD...) })
		if pv != nil {
			r.Violation("C38:panic:"+mon.PanicSite(st), fmt.Sprintf("Sign panicked: %v", pv), map[string]any{"stack": st})
			return
		}
		if err != nil {
			r.Violation("C38:sign-refuses", "Sign refuses a well-formed request: "+err.Error(),
				map[string]any{"curve": curve.String(), "algo": h.Algo, "ad_len": h.ADLen})
			return
		}
		r.Event("producer_sign")
	} else {
		hb := h.encodeHeaderAndBody()
		sig, err := ecdsa.SignASN1(cryptorand.Reader, key.Priv, refDigest(h.Algo, hb, h.AD))
		if err != nil {
			panic(err)
		}
		msg = &cryptopb.SignedMessage{HeaderAndBody: hb, Signature: sig}
		r.Event("producer_reference")
	}
	cv := curve.String()
	wit := func(mut, detail string, m *cryptopb.SignedMessage, k crypto.PublicKey, ad [][]byte, expect, got string) c38Witness {
		return c38Witness{Producer: producer, Curve: cv, Mutation: mut, Detail: detail, HdrBody: mon.Hex(m.HeaderAndBody),
			Signature: mon.Hex(m.Signature), AD: hexList(ad), KeyPKIX: pkixHex(k), KeyType: fmt.Sprintf("%T", k),
			Expect: expect, Got: got}
	}

	// --- the untouched message ---
	mustVerify := func(mut string, ad [][]byte, ev string) bool {
		r.Eval(1)
		m, err, pv, st := c38Verify(msg, pub, ad)
		switch {
		case pv != nil:
			r.Violation("C38:panic:"+mon.PanicSite(st), fmt.Sprintf("Verify panicked: %v", pv), wit(mut, st, msg, pub, ad, "verify", "panic"))
			return false
		case err != nil:
			r.Class(mut + "/" + cv + "/" + producer + "/rejected")
			r.Violation("C38:rejects-genuine/"+mut, fmt.Sprintf("a message signed by the matching key over this header, body and associated data (%s producer, %s) does not verify: %v",
				producer, mut, err), wit(mut, "", msg, pub, ad, "verify", err.Error()))
			return false
		}
		r.Class(mut + "/" + cv + "/" + producer + "/verified")
		r.Event(ev)
		if d := sameContent(h, m); d != "" {
			r.Violation("C38:returned-content-differs/"+d, "successful verification returns a different "+d,
				wit(mut, d, msg, pub, ad, "signed content", fmt.Sprintf("%+v", m.Header)))
		}
		return true
	}
	if !mustVerify("untouched", h.AD, "verified") {
		return
	}
	if producer == "sign" {
		// what Sign produced must be a signature by this key over the documented input
		r.Eval(1)
		if !ecdsa.VerifyASN1(pub, refDigest(h.Algo, msg.HeaderAndBody, h.AD), msg.Signature) {
			r.Violation("C38:sign-not-over-documented-input", "Sign's signature is not over hash(header_and_body || associated data)",
				wit("untouched", "", msg, pub, h.AD, "reference verification succeeds", "fails"))
		}
		d, ok := decodeRef(msg.HeaderAndBody)
		if !ok {
			r.Violation("C38:sign-encoding", "Sign produced unparsable header_and_body", wit("untouched", "", msg, pub, h.AD, "", ""))
		} else if d.Algo != h.Algo || !bytes.Equal(d.KeyID, h.KeyID) || !bytes.Equal(d.Metadata, h.Metadata) ||
			d.ADLen != h.ADLen || !bytes.Equal(d.Body, h.Body) || d.HasTime != h.HasTime ||
			(h.HasTime && (d.Seconds != h.Seconds || d.Nanos != h.Nanos)) {
			r.Violation("C38:sign-encoding", "header_and_body produced by Sign does not carry the given header and body",
				wit("untouched", fmt.Sprintf("%+v", d), msg, pub, h.AD, "", ""))
		}
	}
	// --- same concatenation, other split points ---
	all := concat(h.AD)
	for k := 0; k < 3; k++ {
		mustVerify("resplit", resplit(rng, all), "resplit_verified")
	}

	// --- single mutations: all must fail ---
	mustFail := func(mut, detail string, m *cryptopb.SignedMessage, k crypto.PublicKey, ad [][]byte) {
		r.Eval(1)
		res, err, pv, st := c38Verify(m, k, ad)
		switch {
		case pv != nil:
			r.Violation("C38:panic:"+mon.PanicSite(st), fmt.Sprintf("Verify panicked (%s): %v", mut, pv), wit(mut, st, m, k, ad, "error", "panic"))
		case err == nil:
			r.Class(mut + "/" + cv + "/verified")
			_ = res
			r.Violation("C38:accepts/"+mut, fmt.Sprintf("verification succeeds after mutation %s (%s)", mut, detail),
				wit(mut, detail, m, k, ad, "error", "verified"))
		default:
			r.Class(mut + "/" + cv + "/rejected")
			r.Event("rejected")
			if r.WantSample() && rng.IntN(50) == 0 {
				r.Sample(wit(mut, detail, m, k, ad, "error", err.Error()))
			}
		}
	}
	clone := func() *cryptopb.SignedMessage {
		return &cryptopb.SignedMessage{HeaderAndBody: append([]byte{}, msg.HeaderAndBody...), Signature: append([]byte{}, msg.Signature...)}
	}
	hb := msg.HeaderAndBody
	// header-and-body: bits at chosen and random positions
	if len(hb) > 0 {
		pos := []int{0, len(hb) - 1, len(hb) / 2}
		for k := 0; k < 9; k++ {
			pos = append(pos, rng.IntN(len(hb)))
		}
		for _, p := range pos {
			m := clone()
			bit := rng.IntN(8)
			m.HeaderAndBody[p] ^= 1 << bit
			mustFail("header-and-body-bitflip", fmt.Sprintf("byte %d bit %d", p, bit), m, pub, h.AD)
		}
		{
			m := clone()
			p := rng.IntN(len(hb))
			m.HeaderAndBody[p] = byte(int(m.HeaderAndBody[p]) + 1 + rng.IntN(255))
			mustFail("header-and-body-byte-replaced", fmt.Sprint("byte ", p), m, pub, h.AD)
		}
		{
			m := clone()
			p := rng.IntN(len(hb))
			m.HeaderAndBody = append(m.HeaderAndBody[:p], m.HeaderAndBody[p+1:]...)
			mustFail("header-and-body-byte-deleted", fmt.Sprint("byte ", p), m, pub, h.AD)
		}
		{
			m := clone()
			m.HeaderAndBody = m.HeaderAndBody[:len(hb)-1-rng.IntN(min(len(hb), 4))]
			mustFail("header-and-body-truncated", "", m, pub, h.AD)
		}
	}
	{
		m := clone()
		p := rng.IntN(len(hb) + 1)
		m.HeaderAndBody = append(m.HeaderAndBody[:p:p], append([]byte{byte(rng.UintN(256))}, m.HeaderAndBody[p:]...)...)
		mustFail("header-and-body-byte-inserted", fmt.Sprint("at ", p), m, pub, h.AD)
	}
	// semantic edits through the independent encoder, original signature kept
	for _, ed := range []string{"body", "metadata", "key-id", "timestamp", "algorithm"} {
		g := *h
		switch ed {
		case "body":
			g.Body = append(append([]byte{}, h.Body...), 0x01)
		case "metadata":
			g.Metadata = append([]byte{0x7f}, h.Metadata...)
		case "key-id":
			g.KeyID = append(append([]byte{}, h.KeyID...), 0x00)
		case "timestamp":
			g.HasTime, g.Seconds = true, h.Seconds+1
		case "algorithm":
			g.Algo = h.Algo%3 + 1
		}
		m := clone()
		m.HeaderAndBody = g.encodeHeaderAndBody()
		if bytes.Equal(m.HeaderAndBody, hb) {
			continue
		}
		mustFail("header-field-edited/"+ed, "", m, pub, h.AD)
	}
	// signature
	sig := msg.Signature
	{
		pos := []int{0, len(sig)*8 - 1}
		for k := 0; k < 8; k++ {
			pos = append(pos, rng.IntN(len(sig)*8))
		}
		for _, p := range pos {
			m := clone()
			m.Signature[p/8] ^= 1 << (p % 8)
			mustFail("signature-bitflip", fmt.Sprint("bit ", p), m, pub, h.AD)
		}
		for _, cut := range []int{1, 1 + rng.IntN(len(sig)-1), len(sig)} {
			m := clone()
			m.Signature = m.Signature[:len(sig)-cut]
			mustFail("signature-truncated", fmt.Sprint("by ", cut), m, pub, h.AD)
		}
		for _, ext := range [][]byte{{0}, {byte(rng.UintN(256))}, rbytes(rng, 1+rng.IntN(8))} {
			m := clone()
			m.Signature = append(m.Signature, ext...)
			mustFail("signature-extended", fmt.Sprint("by ", len(ext)), m, pub, h.AD)
		}
		if rr, ss, ok := parseSig(sig); ok {
			nOrd := curve.Elliptic().Params().N
			edits := map[string][2]*big.Int{
				"swap-r-s":    {ss, rr},
				"r-plus-one":  {new(big.Int).Add(rr, big.NewInt(1)), ss},
				"s-plus-one":  {rr, new(big.Int).Add(ss, big.NewInt(1))},
				"s-zero":      {rr, big.NewInt(0)},
				"r-zero":      {big.NewInt(0), ss},
				"r-plus-n":    {new(big.Int).Add(rr, nOrd), ss},
				"s-plus-n":    {rr, new(big.Int).Add(ss, nOrd)},
				"r-negated":   {new(big.Int).Neg(rr), ss},
				"both-n-less": {new(big.Int).Sub(nOrd, rr), new(big.Int).Sub(nOrd, ss)},
			}
			names := []string{"swap-r-s", "r-plus-one", "s-plus-one", "s-zero", "r-zero", "r-plus-n", "s-plus-n", "r-negated", "both-n-less"}
			for _, name := range names {
				v := edits[name]
				if name == "swap-r-s" && rr.Cmp(ss) == 0 {
					continue
				}
				m := clone()
				m.Signature = encodeSig(v[0], v[1])
				mustFail("signature-component/"+name, "", m, pub, h.AD)
			}
		}
		{ // a genuine signature of the same key over something else
			other, err := ecdsa.SignASN1(cryptorand.Reader, key.Priv, refDigest(h.Algo, append(append([]byte{}, hb...), 1), h.AD))
			if err == nil {
				m := clone()
				m.Signature = other
				mustFail("signature-of-other-message", "", m, pub, h.AD)
			}
		}
	}
	// associated data
	if len(all) > 0 {
		for k := 0; k < 3; k++ {
			ad := [][]byte{append([]byte{}, all...)}
			p := rng.IntN(len(all) * 8)
			ad[0][p/8] ^= 1 << (p % 8)
			mustFail("associated-data-bitflip", fmt.Sprint("bit ", p), msg, pub, resplitKeep(rng, ad[0], h.AD))
		}
		mustFail("associated-data-omitted", "", msg, pub, nil)
		mustFail("associated-data-truncated", "", msg, pub, [][]byte{all[:len(all)-1]})
		if len(all) > 1 && !bytes.Equal(rotate(all), all) {
			mustFail("associated-data-rotated", "same bytes, other order", msg, pub, [][]byte{rotate(all)})
		}
		if len(h.AD) >= 2 {
			sw := append([][]byte{}, h.AD...)
			sw[0], sw[len(sw)-1] = sw[len(sw)-1], sw[0]
			if !bytes.Equal(concat(sw), all) {
				mustFail("associated-data-chunks-reordered", "", msg, pub, sw)
			}
		}
	}
	mustFail("associated-data-extended", "", msg, pub, append(append([][]byte{}, h.AD...), []byte{byte(rng.UintN(256))}))
	if len(all) == 0 {
		mustFail("associated-data-added", "", msg, pub, [][]byte{rbytes(rng, 1+rng.IntN(20))})
	}
	// keys
	{
		o := e.pool.Key(curve, key.ID+1+rng.IntN(e.pool.Len(curve)-1))
		if o.ID != key.ID {
			mustFail("other-key-same-curve", "", msg, &o.Priv.PublicKey, h.AD)
		}
		oc := gen.Curve((int(curve) + 1 + rng.IntN(2)) % 3)
		mustFail("other-key-other-curve", oc.String(), msg, &e.pool.Key(oc, rng.IntN(100)).Priv.PublicKey, h.AD)
		seed := sha256.Sum256(hb)
		mustFail("non-ecdsa-key/ed25519", "", msg, ed25519.NewKeyFromSeed(seed[:]).Public(), h.AD)
		if i%20 == 0 {
			mustFail("non-ecdsa-key/rsa", "", msg, rsaKey(), h.AD)
		}
		mustFail("non-ecdsa-key/nil", "", msg, nil, h.AD)
	}
	// algorithm values that name no algorithm, signed by the right key
	for _, a := range []int64{0, 4, 99, -1, 1 << 20} {
		g := *h
		g.Algo = a
		ghb := g.encodeHeaderAndBody()
		for _, how := range []string{"raw-input", "sha256", "sha512"} {
			var digest []byte
			switch how {
			case "raw-input":
				digest = refDigest(0, ghb, h.AD)
			case "sha256":
				digest = refDigest(1, ghb, h.AD)
			default:
				digest = refDigest(3, ghb, h.AD)
			}
			s, err := ecdsa.SignASN1(cryptorand.Reader, key.Priv, digest)
			if err != nil {
				continue
			}
			mustFail("unlisted-algorithm", fmt.Sprintf("value %d signed over %s", a, how),
				&cryptopb.SignedMessage{HeaderAndBody: ghb, Signature: s}, pub, h.AD)
			if curve != gen.P256 {
				break // one signing variant is enough on the slow curves
			}
		}
	}
	// Sign itself must refuse an unlisted algorithm; if it does not, the result must not verify
	if i%10 == 0 {
		hd := h.apiHeader()
		hd.SignatureAlgorithm = signed.SignatureAlgorithm([]int{0, 4, 77}[rng.IntN(3)])
		var m2 *cryptopb.SignedMessage
		var err error
		if pv, _ := mon.Try(func() { m2, err = signed.Sign(hd, h.Body, key.Priv, h.AD...) }); pv == nil && err == nil && m2 != nil {
			r.Class("sign-accepts-unlisted-algorithm")
			mustFail("unlisted-algorithm-from-sign", "", m2, pub, h.AD)
		} else {
			r.Class("sign-refuses-unlisted-algorithm")
		}
	}
	// recorded only: semantically equal protobuf re-encoding (body before header)
	if len(h.Body) > 0 {
		top, ok := pbParse(hb)
		if ok && len(top) == 2 {
			var alt []byte
			alt = pbBytes(alt, 2, top[1].bytes)
			alt = pbBytes(alt, 1, top[0].bytes)
			m := clone()
			m.HeaderAndBody = alt
			_, err, _, _ := c38Verify(m, pub, h.AD)
			out := "rejected"
			if err == nil {
				out = "verified"
			}
			r.Class("unjudged/protobuf-fields-reordered/" + out)
		}
	}
	if r.WantSample() && i%97 == 0 {
		r.Sample(wit("untouched", "", msg, pub, h.AD, "verify", "verified"))
	}
}

// resplitKeep returns the mutated concatenation cut like the original chunks.
func resplitKeep(rng *rand.Rand, all []byte, like [][]byte) [][]byte {
	var out [][]byte
	off := 0
	for _, d := range like {
		out = append(out, all[off:off+len(d)])
		off += len(d)
	}
	return out
}

func rotate(b []byte) []byte {
	out := append([]byte{}, b[1:]...)
	return append(out, b[0])
}

// parseSig / encodeSig: minimal DER for ECDSA-Sig-Value ::= SEQUENCE { r, s INTEGER }.
func parseSig(sig []byte) (r, s *big.Int, ok bool) {
	rd := func(b []byte, tag byte) (val, rest []byte, ok bool) {
		if len(b) < 2 || b[0] != tag {
			return nil, nil, false
		}
		l := int(b[1])
		b = b[2:]
		if l&0x80 != 0 {
			n := l & 0x7f
			if n == 0 || n > 2 || len(b) < n {
				return nil, nil, false
			}
			l = 0
			for i := 0; i < n; i++ {
				l = l<<8 | int(b[i])
			}
			b = b[n:]
		}
		if l > len(b) {
			return nil, nil, false
		}
		return b[:l], b[l:], true
	}
	seq, rest, ok := rd(sig, 0x30)
	if !ok || len(rest) != 0 {
		return nil, nil, false
	}
	rb, seq, ok := rd(seq, 0x02)
	if !ok {
		return nil, nil, false
	}
	sb, seq, ok := rd(seq, 0x02)
	if !ok || len(seq) != 0 {
		return nil, nil, false
	}
	return new(big.Int).SetBytes(rb), new(big.Int).SetBytes(sb), true
}

func derInt(v *big.Int) []byte {
	var b []byte
	if v.Sign() < 0 {
		// two's complement of the magnitude
		n := len(v.Bytes()) + 1
		mod := new(big.Int).Lsh(big.NewInt(1), uint(8*n))
		b = new(big.Int).Add(mod, v).Bytes()
		for len(b) > 1 && b[0] == 0xff && b[1]&0x80 != 0 {
			b = b[1:]
		}
	} else {
		b = v.Bytes()
		if len(b) == 0 {
			b = []byte{0}
		}
		if b[0]&0x80 != 0 {
			b = append([]byte{0}, b...)
		}
	}
	return append(derLen(0x02, len(b)), b...)
}

func derLen(tag byte, l int) []byte {
	switch {
	case l < 0x80:
		return []byte{tag, byte(l)}
	case l < 0x100:
		return []byte{tag, 0x81, byte(l)}
	}
	return []byte{tag, 0x82, byte(l >> 8), byte(l)}
}

func encodeSig(r, s *big.Int) []byte {
	body := append(derInt(r), derInt(s)...)
	return append(derLen(0x30, len(body)), body...)
}

// replayC38 re-runs one recorded Verify call.
func replayC38(r *mon.Run) {
	b, err := os.ReadFile(r.ReplayFile())
	if err != nil {
		fmt.Fprintln(os.Stderr, "replay:", err)
		os.Exit(2)
	}
	var f struct {
		Key     string     `json:"key"`
		Witness c38Witness `json:"witness"`
	}
	if err := json.Unmarshal(b, &f); err != nil {
		fmt.Fprintln(os.Stderr, "replay:", err)
		os.Exit(2)
	}
	w := f.Witness
	hb, _ := hex.DecodeString(w.HdrBody)
	sig, _ := hex.DecodeString(w.Signature)
	var ad [][]byte
	for _, s := range w.AD {
		d, _ := hex.DecodeString(s)
		ad = append(ad, d)
	}
	raw, _ := hex.DecodeString(w.KeyPKIX)
	key, err := x509.ParsePKIXPublicKey(raw)
	if err != nil {
		fmt.Println("replay: witness key not replayable:", err)
		r.Eval(1)
		r.Class("replay")
		r.Class("replay/not-replayable")
		r.Sample(map[string]any{"replay": r.ReplayFile(), "result": "key not replayable"})
		return
	}
	_, verr, pv, st := c38Verify(&cryptopb.SignedMessage{HeaderAndBody: hb, Signature: sig}, key, ad)
	r.Eval(1)
	r.Class("replay")
	r.Class("replay/" + w.Expect)
	res := "verified"
	if verr != nil {
		res = "rejected: " + verr.Error()
	}
	switch {
	case pv != nil:
		r.Violation("C38:panic:"+mon.PanicSite(st), fmt.Sprint(pv), w)
	case w.Expect == "error" && verr == nil:
		r.Violation(f.Key, "replayed witness still verifies", w)
	case w.Expect == "verify" && verr != nil:
		r.Violation(f.Key, "replayed witness is still rejected", w)
	}
	fmt.Println("replay result:", res)
	r.Sample(map[string]any{"replay": r.ReplayFile(), "result": res})
}
