package main

import (
	"bytes"
	"fmt"
	"math/big"
	"math/rand/v2"
	"strings"
	"sync"
	"time"

	"github.com/scionproto/scion/pkg/scrypto/cppki"

	"verif/mon"
	gen "verif/pkitrcgen"
)

// ---- single-rule violation generators ----

// mutator turns a valid plan into one that breaks exactly the named rule.
// It returns false when the plan at hand cannot host the violation.
type mutator struct {
	rule    string // rule of the C33 statement (key of the violation)
	variant string
	// extra lists rules that necessarily break together with rule in this variant.
	extra []string
	// wireOnly: not representable in the Go struct (decoder path only).
	apply func(e *env, t *trcPlan, rng *rand.Rand) bool
}

var adhocSerial struct {
	sync.Mutex
	n int64
}

func nextSerial() *big.Int {
	adhocSerial.Lock()
	defer adhocSerial.Unlock()
	adhocSerial.n++
	return big.NewInt(9_000_000_000 + adhocSerial.n)
}

// adhoc issues a certificate like like, with the listed overrides.
func adhoc(e *env, like *gen.Cert, rng *rand.Rand, f func(s *gen.CertSpec)) *gen.Cert {
	s := like.Spec
	s.Serial = nextSerial()
	s.Key = e.spareKey(like.Spec.Key.Curve, rng.IntN(40))
	f(&s)
	return gen.MustIssue(s)
}

func (t *trcPlan) replaceCert(i int, c *gen.Cert) {
	t.slots[i] = slot{ent: -1, kind: c.Spec.Kind}
	t.p.Certs[i] = c
}

// iaLessOnly rebuilds the certificate list from voting certificates without an
// ISD-AS attribute and no roots, so that the TRC's ISD can be varied alone.
func iaLessOnly(t *trcPlan, rng *rand.Rand) {
	var ents []int
	for _, en := range t.w.Entities {
		if en.Idx%3 == 1 {
			ents = append(ents, en.Idx)
		}
	}
	t.slots = nil
	nS, nR := 1+rng.IntN(len(ents)), 1+rng.IntN(len(ents))
	for _, en := range ents[:nS] {
		t.slots = append(t.slots, slot{en, gen.Sensitive, 0})
	}
	for _, en := range ents[:nR] {
		t.slots = append(t.slots, slot{en, gen.Regular, 0})
	}
	t.p.Certs = make([]*gen.Cert, len(t.slots))
	t.sync()
	t.p.Quorum = 1 + int64(rng.IntN(min(nS, nR)))
}

func makeBase(t *trcPlan) {
	t.p.Serial = t.p.Base
	t.p.Votes = nil
	t.p.GracePeriod = 0
}

func makeNonBase(t *trcPlan, rng *rand.Rand) {
	if t.p.Serial == t.p.Base {
		t.p.Serial = t.p.Base + 1 + int64(rng.IntN(9))
		t.p.Votes = []int64{0}
		t.p.GracePeriod = 3600
	}
}

func asListMutators(field string, get func(p *gen.Payload) *[]string, empty, wildcard, dup string) []mutator {
	return []mutator{
		{rule: empty, apply: func(e *env, t *trcPlan, rng *rand.Rand) bool {
			*get(t.p) = nil
			return true
		}},
		{rule: wildcard, variant: "decimal", apply: func(e *env, t *trcPlan, rng *rand.Rand) bool {
			l := get(t.p)
			i := rng.IntN(len(*l) + 1)
			*l = append((*l)[:i:i], append([]string{"0"}, (*l)[i:]...)...)
			return true
		}},
		{rule: wildcard, variant: "hex", apply: func(e *env, t *trcPlan, rng *rand.Rand) bool {
			l := get(t.p)
			(*l)[rng.IntN(len(*l))] = "0:0:0"
			return true
		}},
		{rule: dup, variant: "same-text", apply: func(e *env, t *trcPlan, rng *rand.Rand) bool {
			l := get(t.p)
			*l = append(*l, (*l)[rng.IntN(len(*l))])
			return true
		}},
		{rule: dup, variant: "other-spelling", apply: func(e *env, t *trcPlan, rng *rand.Rand) bool {
			l := get(t.p)
			src := (*l)[rng.IntN(len(*l))]
			v, _ := gen.ParseASText(src)
			alt := fmt.Sprintf("%X:%X:%X", v>>32&0xffff, v>>16&0xffff, v&0xffff)
			if alt == src {
				alt = strings.ToLower(alt)
			}
			if alt == src {
				return false
			}
			*l = append([]string{alt}, *l...)
			return true
		}},
	}
}

func votingIdx(t *trcPlan) []int {
	return append(t.indices(gen.Sensitive), t.indices(gen.Regular)...)
}

func allMutators() []mutator {
	ms := []mutator{
		{rule: ruleVersion, apply: func(e *env, t *trcPlan, rng *rand.Rand) bool {
			t.p.Version = []int64{1, 2, -1, 255, 1 << 40}[rng.IntN(5)]
			return true
		}},
		{rule: ruleISDWildcard, apply: func(e *env, t *trcPlan, rng *rand.Rand) bool {
			iaLessOnly(t, rng)
			t.p.ISD = 0
			return true
		}},
		{rule: ruleBaseZero, variant: "base-trc", apply: func(e *env, t *trcPlan, rng *rand.Rand) bool {
			makeBase(t)
			t.p.Base, t.p.Serial = 0, 0
			return true
		}},
		{rule: ruleBaseZero, variant: "non-base-trc", apply: func(e *env, t *trcPlan, rng *rand.Rand) bool {
			makeNonBase(t, rng)
			t.p.Base = 0
			return true
		}},
		{rule: ruleBaseGtSerial, apply: func(e *env, t *trcPlan, rng *rand.Rand) bool {
			makeNonBase(t, rng) // keep votes and grace period legal for a non-base TRC
			t.p.Base = t.p.Serial + 1 + int64(rng.IntN(5))
			return true
		}},
		{rule: ruleValidityEmpty, apply: func(e *env, t *trcPlan, rng *rand.Rand) bool {
			d := []time.Duration{time.Second, time.Hour, 400 * 24 * time.Hour}[rng.IntN(3)]
			if t.p.NotBefore.Add(-d).Before(gen.WorldNotBefore) {
				d = time.Second
			}
			t.p.NotAfter = t.p.NotBefore.Add(-d)
			// keep the certificates covering [notAfter, notBefore] as well
			return !t.p.NotAfter.Before(gen.WorldNotBefore)
		}},
		{rule: ruleBaseGrace, apply: func(e *env, t *trcPlan, rng *rand.Rand) bool {
			makeBase(t)
			t.p.GracePeriod = []int64{1, 3600, -1, 1 << 33}[rng.IntN(4)]
			return true
		}},
		{rule: ruleBaseVotes, apply: func(e *env, t *trcPlan, rng *rand.Rand) bool {
			makeBase(t)
			for i := 0; i <= rng.IntN(3); i++ {
				t.p.Votes = append(t.p.Votes, int64(i))
			}
			return true
		}},
		{rule: ruleQuorumZero, apply: func(e *env, t *trcPlan, rng *rand.Rand) bool {
			t.p.Quorum = 0
			return true
		}},
		{rule: ruleQuorumNeg, apply: func(e *env, t *trcPlan, rng *rand.Rand) bool {
			t.p.Quorum = []int64{-1, -2, -255, -256, -1 << 31, -1 << 62}[rng.IntN(6)]
			return true
		}},
		{rule: ruleQuorumSens, apply: func(e *env, t *trcPlan, rng *rand.Rand) bool {
			// sensitive voters = quorum-1, regular voters >= quorum
			for len(t.indices(gen.Sensitive)) >= int(t.p.Quorum) {
				idx := t.indices(gen.Sensitive)
				t.removeAt(idx[rng.IntN(len(idx))])
			}
			return true
		}},
		{rule: ruleQuorumReg, apply: func(e *env, t *trcPlan, rng *rand.Rand) bool {
			for len(t.indices(gen.Regular)) >= int(t.p.Quorum) {
				idx := t.indices(gen.Regular)
				t.removeAt(idx[rng.IntN(len(idx))])
			}
			return true
		}},
		{rule: ruleCertISD, apply: func(e *env, t *trcPlan, rng *rand.Rand) bool {
			other := otherWorld(e, t.w, rng)
			i := rng.IntN(len(t.p.Certs))
			k := t.p.Certs[i].Spec.Kind
			for tries := 0; tries < 20; tries++ {
				c := other.Cert(rng.IntN(len(other.Entities)), k, 0)
				if c.Spec.IA != "" {
					t.replaceCert(i, c)
					return true
				}
			}
			return false
		}},
		{rule: ruleCertValidity, variant: "trc-ends-after-certs", apply: func(e *env, t *trcPlan, rng *rand.Rand) bool {
			t.p.NotAfter = gen.WorldNotAfter.Add(time.Duration(1+rng.IntN(1000)) * time.Second)
			return true
		}},
		{rule: ruleCertValidity, variant: "trc-starts-before-certs", apply: func(e *env, t *trcPlan, rng *rand.Rand) bool {
			t.p.NotBefore = gen.WorldNotBefore.Add(-time.Duration(1+rng.IntN(1000)) * time.Second)
			return true
		}},
		{rule: ruleCertValidity, variant: "one-cert-starts-late", apply: func(e *env, t *trcPlan, rng *rand.Rand) bool {
			i := rng.IntN(len(t.p.Certs))
			t.replaceCert(i, adhoc(e, t.p.Certs[i], rng, func(s *gen.CertSpec) {
				s.NotBefore = t.p.NotBefore.Add(time.Second)
			}))
			return true
		}},
		{rule: ruleCertValidity, variant: "one-cert-ends-early", apply: func(e *env, t *trcPlan, rng *rand.Rand) bool {
			i := rng.IntN(len(t.p.Certs))
			t.replaceCert(i, adhoc(e, t.p.Certs[i], rng, func(s *gen.CertSpec) {
				s.NotAfter = t.p.NotAfter.Add(-time.Second)
			}))
			return true
		}},
		{rule: ruleDupIssuerSN, variant: "across-classes", apply: func(e *env, t *trcPlan, rng *rand.Rand) bool {
			// a regular (or sensitive) certificate with the distinguished name and
			// serial number of a certificate of the other voting class
			si, ri := t.indices(gen.Sensitive), t.indices(gen.Regular)
			from, to := si[rng.IntN(len(si))], ri[rng.IntN(len(ri))]
			if rng.IntN(2) == 0 {
				from, to = to, from
			}
			src := t.p.Certs[from]
			kind := t.p.Certs[to].Spec.Kind
			t.replaceCert(to, adhoc(e, src, rng, func(s *gen.CertSpec) {
				s.Kind = kind
				s.Serial = src.Spec.Serial
			}))
			return true
		}},
		{rule: ruleDupSubject, variant: "second-cert-same-name", apply: func(e *env, t *trcPlan, rng *rand.Rand) bool {
			i := rng.IntN(len(t.p.Certs))
			c := adhoc(e, t.p.Certs[i], rng, func(s *gen.CertSpec) {})
			t.add(slot{ent: -1, kind: c.Spec.Kind}, c)
			return true
		}},
		{rule: ruleDupSubject, variant: "same-cert-twice", extra: []string{ruleDupIssuerSN},
			apply: func(e *env, t *trcPlan, rng *rand.Rand) bool {
				i := rng.IntN(len(t.p.Certs))
				t.add(t.slots[i], t.p.Certs[i])
				return true
			}},
	}
	ms = append(ms, asListMutators("core", func(p *gen.Payload) *[]string { return &p.Core },
		ruleCoreEmpty, ruleCoreWildcard, ruleCoreDup)...)
	ms = append(ms, asListMutators("auth", func(p *gen.Payload) *[]string { return &p.Auth },
		ruleAuthEmpty, ruleAuthWildcard, ruleAuthDup)...)
	for _, d := range gen.VotingDefects {
		d := d
		ms = append(ms, mutator{rule: ruleCertClass, variant: "voting/" + string(d),
			apply: func(e *env, t *trcPlan, rng *rand.Rand) bool {
				idx := votingIdx(t)
				i := idx[rng.IntN(len(idx))]
				t.replaceCert(i, adhoc(e, t.p.Certs[i], rng, func(s *gen.CertSpec) {
					s.Defect = d
					if s.IA == "" && (d == gen.DefNonCanonIA || d == gen.DefWildcardIA) {
						s.IA = t.w.Entities[0].IA
					}
				}))
				return true
			}})
	}
	for _, d := range gen.RootDefects {
		d := d
		ms = append(ms, mutator{rule: ruleCertClass, variant: "root/" + string(d),
			apply: func(e *env, t *trcPlan, rng *rand.Rand) bool {
				idx := t.indices(gen.Root)
				if len(idx) == 0 {
					c := adhoc(e, t.w.Cert(0, gen.Root, 0), rng, func(s *gen.CertSpec) { s.Defect = d })
					t.add(slot{ent: -1, kind: gen.Root}, c)
					return true
				}
				i := idx[rng.IntN(len(idx))]
				t.replaceCert(i, adhoc(e, t.p.Certs[i], rng, func(s *gen.CertSpec) { s.Defect = d }))
				return true
			}})
	}
	for _, k := range []gen.Kind{gen.CA, gen.AS} {
		k := k
		ms = append(ms, mutator{rule: ruleCertClass, variant: "kind/" + k.String(),
			apply: func(e *env, t *trcPlan, rng *rand.Rand) bool {
				en := rng.IntN(len(t.w.Entities))
				root := t.w.Cert(en, gen.Root, 0)
				ca := adhoc(e, root, rng, func(s *gen.CertSpec) {
					s.Kind, s.Issuer, s.CN = gen.CA, root, root.Spec.CN+" CA"
				})
				c := ca
				if k == gen.AS {
					c = adhoc(e, root, rng, func(s *gen.CertSpec) {
						s.Kind, s.Issuer, s.CN = gen.AS, ca, root.Spec.CN+" AS"
					})
				}
				if rng.IntN(2) == 0 || len(t.indices(gen.Root)) == 0 {
					t.add(slot{ent: -1, kind: k}, c)
				} else {
					idx := t.indices(gen.Root)
					t.replaceCert(idx[rng.IntN(len(idx))], c)
				}
				return true
			}})
	}
	return ms
}

func indexOfWorld(e *env, w *gen.World) int {
	for i, x := range e.worlds {
		if x == w {
			return i
		}
	}
	return 0
}

// ---- comparison of TRC values (round trip) ----

func diffTRC(a, b *cppki.TRC) string {
	switch {
	case a.Version != b.Version:
		return "version"
	case a.ID != b.ID:
		return "id"
	case !a.Validity.NotBefore.Equal(b.Validity.NotBefore) || !a.Validity.NotAfter.Equal(b.Validity.NotAfter):
		return "validity"
	case a.GracePeriod != b.GracePeriod:
		return "grace period"
	case a.NoTrustReset != b.NoTrustReset:
		return "noTrustReset"
	case a.Quorum != b.Quorum:
		return "quorum"
	case a.Description != b.Description:
		return "description"
	case len(a.Votes) != len(b.Votes):
		return "votes"
	case len(a.CoreASes) != len(b.CoreASes):
		return "core ASes"
	case len(a.AuthoritativeASes) != len(b.AuthoritativeASes):
		return "authoritative ASes"
	case len(a.Certificates) != len(b.Certificates):
		return "certificates"
	}
	for i := range a.Votes {
		if a.Votes[i] != b.Votes[i] {
			return "votes"
		}
	}
	for i := range a.CoreASes {
		if a.CoreASes[i] != b.CoreASes[i] {
			return "core ASes"
		}
	}
	for i := range a.AuthoritativeASes {
		if a.AuthoritativeASes[i] != b.AuthoritativeASes[i] {
			return "authoritative ASes"
		}
	}
	for i := range a.Certificates {
		if !bytes.Equal(a.Certificates[i].Raw, b.Certificates[i].Raw) {
			return "certificates"
		}
	}
	return ""
}

// ---- the check ----

type c33Witness struct {
	Rule      string   `json:"rule,omitempty"`
	Variant   string   `json:"variant,omitempty"`
	Path      string   `json:"path"`
	Plan      planDesc `json:"plan"`
	ModelSays []string `json:"model_violations"`
	PayloadDE string   `json:"payload_der_hex,omitempty"`
	Got       string   `json:"got"`
}

// planDesc is a readable rendering of a payload plan.
type planDesc struct {
	Version     int64    `json:"version"`
	ISD         int64    `json:"isd"`
	Base        int64    `json:"base"`
	Serial      int64    `json:"serial"`
	NotBefore   string   `json:"not_before"`
	NotAfter    string   `json:"not_after"`
	Grace       int64    `json:"grace_s"`
	NoTrustRst  bool     `json:"no_trust_reset"`
	Votes       []int64  `json:"votes"`
	Quorum      int64    `json:"quorum"`
	Core        []string `json:"core"`
	Auth        []string `json:"auth"`
	DescLen     int      `json:"description_len"`
	Certificate []string `json:"certificates"`
}

func describe(p *gen.Payload) planDesc {
	d := planDesc{Version: p.Version, ISD: p.ISD, Base: p.Base, Serial: p.Serial,
		NotBefore: p.NotBefore.UTC().Format(time.RFC3339), NotAfter: p.NotAfter.UTC().Format(time.RFC3339),
		Grace: p.GracePeriod, NoTrustRst: p.NoTrustReset, Votes: p.Votes, Quorum: p.Quorum,
		Core: p.Core, Auth: p.Auth, DescLen: len(p.Description)}
	for i, c := range p.Certs {
		s := c.Spec
		x := fmt.Sprintf("%d:%s %s sn=%s %s", i, s.Kind, s.DN(), s.Serial, s.Key.Curve)
		if s.Defect != gen.NoDefect {
			x += " defect=" + string(s.Defect)
		}
		d.Certificate = append(d.Certificate, x)
	}
	return d
}

func errStr(err error) string {
	if err == nil {
		return "accepted"
	}
	s := err.Error()
	if len(s) > 300 {
		s = s[:300]
	}
	return "rejected: " + s
}

// judgeValid runs a payload the model considers valid through Validate,
// DecodeTRC and the Encode/DecodeTRC round trip.
func judgeValid(r *mon.Run, t *trcPlan, variant string) {
	p := t.p
	rules, amb := payloadViolations(p)
	if len(rules) > 0 || amb {
		panic(fmt.Sprintf("harness: generator produced an invalid 'valid' payload (%s): %v", variant, rules))
	}
	der, err := p.DER()
	if err != nil {
		panic(fmt.Sprintf("harness: encoding a valid payload: %v", err))
	}
	wit := func(path, got string) c33Witness {
		return c33Witness{Variant: variant, Path: path, Plan: describe(p), PayloadDE: mon.Hex(der), Got: got}
	}
	// struct path
	trc, ok := p.Struct(der)
	if !ok {
		panic("harness: valid payload not representable")
	}
	r.Eval(1)
	r.Event("valid_validate")
	r.Class("valid/" + variant + "/validate")
	var verr error
	if pv, st := mon.Try(func() { verr = trc.Validate() }); pv != nil {
		r.Violation("C33:panic:"+mon.PanicSite(st), fmt.Sprintf("Validate panicked: %v", pv), wit("validate", st))
		return
	}
	if verr != nil {
		r.Violation("C33:valid-rejected/"+variant, "TRC.Validate rejects a payload that satisfies every rule of the statement: "+verr.Error(),
			wit("validate", errStr(verr)))
		return
	}
	// decoder path on the independently encoded DER
	r.Eval(1)
	r.Event("valid_decode")
	dec, derr := cppki.DecodeTRC(der)
	if derr != nil {
		r.Violation("C33:valid-rejected/"+variant, "DecodeTRC rejects the schema encoding of a valid payload: "+derr.Error(),
			wit("decode", errStr(derr)))
	} else if d := diffTRC(&dec, &trc); d != "" {
		r.Violation("C33:decode-differs/"+d, "DecodeTRC of the schema encoding yields a different "+d, wit("decode", d))
	}
	// round trip through the implementation's encoder
	r.Eval(1)
	r.Event("roundtrip")
	r.Class("roundtrip/" + variant)
	in := trc
	in.Raw = nil
	enc, eerr := in.Encode()
	if eerr != nil {
		r.Violation("C33:encode-fails/"+variant, "Encode fails on a valid TRC: "+eerr.Error(), wit("encode", errStr(eerr)))
		return
	}
	back, berr := cppki.DecodeTRC(enc)
	if berr != nil {
		w := wit("roundtrip", errStr(berr))
		w.PayloadDE = mon.Hex(enc)
		r.Violation("C33:roundtrip-decode-fails/"+variant, "DecodeTRC(Encode(trc)) fails: "+berr.Error(), w)
		return
	}
	if d := diffTRC(&back, &in); d != "" {
		w := wit("roundtrip", d)
		w.PayloadDE = mon.Hex(enc)
		r.Violation("C33:roundtrip-differs/"+d, "DecodeTRC(Encode(trc)) differs in "+d, w)
	}
	if !bytes.Equal(back.Raw, enc) {
		r.Violation("C33:roundtrip-differs/raw", "decoded TRC does not keep the encoded bytes", wit("roundtrip", "raw"))
	}
	if r.WantSample() {
		r.Sample(map[string]any{"kind": "valid", "variant": variant, "plan": describe(p), "validate": "accepted",
			"decode": errStr(derr), "roundtrip": "equal"})
	}
}

// judgeInvalid runs a payload that breaks rule through both paths.
func judgeInvalid(r *mon.Run, t *trcPlan, m mutator) {
	p := t.p
	rules, _ := payloadViolations(p)
	if !contains(rules, m.rule) {
		panic(fmt.Sprintf("harness: mutator %s/%s does not break its rule (model: %v)", m.rule, m.variant, rules))
	}
	want := append([]string{m.rule}, m.extra...)
	for _, x := range rules {
		if !contains(want, x) {
			// the plan at hand broke a second rule as well: not a single-rule case
			r.Inconclusive("mutator-not-isolated")
			return
		}
	}
	der, derErr := p.DER()
	key := "C33:" + m.rule
	cls := "violation/" + m.rule
	if m.variant != "" {
		cls += "/" + m.variant
	}
	r.Class(cls)
	wit := func(path, got string) c33Witness {
		w := c33Witness{Rule: m.rule, Variant: m.variant, Path: path, Plan: describe(p), ModelSays: rules, Got: got}
		if derErr == nil {
			w.PayloadDE = mon.Hex(der)
		}
		return w
	}
	if trc, ok := p.Struct(der); ok {
		r.Eval(1)
		r.Event("invalid_validate")
		var verr error
		if pv, st := mon.Try(func() { verr = trc.Validate() }); pv != nil {
			r.Violation("C33:panic:"+mon.PanicSite(st), fmt.Sprintf("Validate panicked: %v", pv), wit("validate", st))
		} else if verr == nil {
			r.Class(cls + "/validate/accepted")
			r.Violation(key, fmt.Sprintf("TRC.Validate accepts a payload that breaks rule %q (%s)", m.rule, m.variant),
				wit("validate", "accepted"))
		} else {
			r.Class(cls + "/validate/rejected")
			r.Event("rejected")
			if r.WantSample() {
				r.Sample(map[string]any{"kind": "violation", "rule": m.rule, "variant": m.variant, "plan": describe(p),
					"validate": errStr(verr)})
			}
		}
		// Encode must not produce bytes for it either (it validates first); if it
		// does, the decoder is handed those bytes below through the DER path anyway.
	}
	if derErr == nil {
		r.Eval(1)
		r.Event("invalid_decode")
		var dec cppki.TRC
		var err error
		if pv, st := mon.Try(func() { dec, err = cppki.DecodeTRC(der) }); pv != nil {
			r.Violation("C33:panic:"+mon.PanicSite(st), fmt.Sprintf("DecodeTRC panicked: %v", pv), wit("decode", st))
		} else if err == nil {
			_ = dec
			r.Class(cls + "/decode/accepted")
			r.Violation(key, fmt.Sprintf("DecodeTRC returns a payload that breaks rule %q (%s) as valid", m.rule, m.variant),
				wit("decode", "accepted"))
		} else {
			r.Class(cls + "/decode/rejected")
			r.Event("rejected")
		}
	}
}

func contains(l []string, s string) bool {
	for _, x := range l {
		if x == s {
			return true
		}
	}
	return false
}

// bigWorld: 256 voting entities, for the quorum bounds 255/256.
func bigWorld(e *env) *gen.World {
	return gen.NewWorld(e.pool, 7, 256, 1, 0)
}

func bigPlan(w *gen.World, nS, nR int, quorum int64) *trcPlan {
	t := &trcPlan{w: w, p: &gen.Payload{}}
	for i := 0; i < nS; i++ {
		t.slots = append(t.slots, slot{i, gen.Sensitive, 0})
	}
	for i := 0; i < nR; i++ {
		t.slots = append(t.slots, slot{i, gen.Regular, 0})
	}
	t.slots = append(t.slots, slot{0, gen.Root, 0})
	t.p.Certs = make([]*gen.Cert, len(t.slots))
	t.sync()
	p := t.p
	p.ISD, p.Base, p.Serial = int64(w.ISD), 1, 1
	p.NotBefore = time.Date(2024, 1, 1, 0, 0, 0, 0, time.UTC)
	p.NotAfter = time.Date(2025, 1, 1, 0, 0, 0, 0, time.UTC)
	p.Quorum = quorum
	p.Core = []string{"ff00:0:110"}
	p.Auth = []string{"ff00:0:110"}
	p.Description = "big"
	return t
}

func checkC33(r *mon.Run) {
	r.Rule = "random TRC payload plans that satisfy every rule of the statement (Validate and DecodeTRC must accept, " +
		"Encode->DecodeTRC must give the same TRC) and, per plan, one single-rule violation from a generator per rule " +
		"(Validate on the struct and DecodeTRC on an independently produced DER encoding must reject); " +
		"class = valid|violation / rule / variant / path / outcome"
	r.Assumptions = []string{
		"the reference rule set (cmd/pkitrc/refmodel.go) is the statement's; it reads the generator's plan only",
		"validity of exactly one instant, sub-second times, serial numbers >= 2^63 and negative wire values for ISD/serial/base are recorded, not judged",
		"a certificate is 'classifiable' when it was issued to the profile of certificates.rst/trc.rst; each mis-issued variant breaks a MUST there",
	}
	e := getEnv(r)
	ms := allMutators()
	n := r.Pick(1500, 40000)
	workers := 12
	var wg sync.WaitGroup
	for wk := 0; wk < workers; wk++ {
		wg.Add(1)
		go func(wk int) {
			defer wg.Done()
			for i := wk; i < n; i += workers {
				rng := r.Rand(fmt.Sprint("c33/", i))
				w := e.worlds[rng.IntN(len(e.worlds))]
				t := e.randomPayload(rng, w, payloadOpts{maxVer: worldVersions - 1})
				variant := "random"
				switch rng.IntN(6) {
				case 0: // same name in two classes, different serial numbers
					si := t.indices(gen.Sensitive)
					ri := t.indices(gen.Regular)
					src := t.p.Certs[si[rng.IntN(len(si))]]
					to := ri[rng.IntN(len(ri))]
					t.replaceCert(to, adhoc(e, src, rng, func(s *gen.CertSpec) { s.Kind = gen.Regular }))
					variant = "same-name-two-classes"
				case 1: // same serial number under different issuers
					a, b := rng.IntN(len(t.p.Certs)), rng.IntN(len(t.p.Certs))
					if a != b {
						sn := t.p.Certs[a].Spec.Serial
						t.replaceCert(b, adhoc(e, t.p.Certs[b], rng, func(s *gen.CertSpec) { s.Serial = sn }))
						variant = "same-serial-other-issuer"
					}
				case 2: // certificate validity exactly the TRC validity
					i := rng.IntN(len(t.p.Certs))
					t.replaceCert(i, adhoc(e, t.p.Certs[i], rng, func(s *gen.CertSpec) {
						s.NotBefore, s.NotAfter = t.p.NotBefore, t.p.NotAfter
					}))
					variant = "cert-validity-equals-trc"
				}
				if t.p.IsBase() {
					variant += "/base"
				} else {
					variant += "/non-base"
				}
				judgeValid(r, t, variant)

				// two single-rule violations per valid plan; the first walks the
				// generator list so that every rule is hit equally often
				for j := 0; j < 2; j++ {
					mi := (i*2 + j) % len(ms)
					if j == 1 {
						mi = rng.IntN(len(ms))
					}
					m := ms[mi]
					bad := t.clone()
					if !m.apply(e, bad, rng) {
						r.Inconclusive("mutator-not-applicable")
						continue
					}
					judgeInvalid(r, bad, m)
				}
			}
		}(wk)
	}
	wg.Wait()

	// quorum bounds with enough voters to isolate the 255 limit
	bw := bigWorld(e)
	for _, c := range []struct {
		nS, nR int
		q      int64
		ok     bool
	}{{255, 255, 255, true}, {256, 256, 255, true}, {256, 256, 256, false}, {256, 255, 255, true}} {
		t := bigPlan(bw, c.nS, c.nR, c.q)
		if c.ok {
			judgeValid(r, t, fmt.Sprintf("quorum-%d-of-%d-%d", c.q, c.nS, c.nR))
		} else {
			judgeInvalid(r, t, mutator{rule: ruleQuorumBig, variant: fmt.Sprintf("%d-of-%d-%d", c.q, c.nS, c.nR)})
		}
	}
	{ // 256 with few voters (both rules break)
		rng := r.Rand("c33/q256")
		for i := 0; i < 20; i++ {
			t := e.randomPayload(rng, e.worlds[i%len(e.worlds)], payloadOpts{})
			t.p.Quorum = []int64{256, 257, 1 << 20, 1 << 40}[i%4]
			judgeInvalid(r, t, mutator{rule: ruleQuorumBig, variant: "few-voters", extra: []string{ruleQuorumSens, ruleQuorumReg}})
		}
	}

	c33Observations(r, e)

	for _, m := range ms {
		k := "violation/" + m.rule
		if m.variant != "" {
			k += "/" + m.variant
		}
		r.RequireClasses(k)
	}
	r.Require(int64(n)*4, 60, "valid_validate", "valid_decode", "roundtrip", "invalid_validate", "invalid_decode", "rejected")
}

// c33Observations records, without judging, what the code does on inputs the
// statement does not decide.
func c33Observations(r *mon.Run, e *env) {
	rng := r.Rand("c33/obs")
	obs := map[string]string{}
	note := func(k string, err error) {
		out := "rejected"
		if err == nil {
			out = "accepted"
		}
		obs[k] = out
		r.Class("observed/" + k + "/" + out)
	}
	w := e.worlds[2] // ISD 65535
	{
		t := e.randomPayload(rng, w, payloadOpts{})
		t.p.NotAfter = t.p.NotBefore
		trc, _ := t.p.Struct(nil)
		note("validity-single-instant", trc.Validate())
	}
	{
		t := e.randomPayload(rng, w, payloadOpts{})
		t.p.ISD = -1 // uint16(-1) == 65535
		der, _ := t.p.DER()
		_, err := cppki.DecodeTRC(der)
		note("wire-isd-minus-one-with-isd-65535-certs", err)
	}
	{
		t := e.randomPayload(rng, w, payloadOpts{forceNonBase: true})
		t.p.Base, t.p.Serial = -7, -5
		der, _ := t.p.DER()
		_, err := cppki.DecodeTRC(der)
		note("wire-negative-base-and-serial", err)
	}
	{
		t := e.randomPayload(rng, w, payloadOpts{forceNonBase: true})
		trc, _ := t.p.Struct(nil)
		trc.ID.Base = 1
		trc.ID.Serial = 1 << 63
		err := trc.Validate()
		if err == nil {
			var enc []byte
			if enc, err = trc.Encode(); err == nil {
				_, err = cppki.DecodeTRC(enc)
			}
		}
		note("serial-2^63-roundtrip", err)
	}
	{
		t := e.randomPayload(rng, w, payloadOpts{})
		trc, _ := t.p.Struct(nil)
		trc.Validity.NotBefore = trc.Validity.NotBefore.Add(500 * time.Millisecond)
		enc, err := trc.Encode()
		if err == nil {
			var back cppki.TRC
			if back, err = cppki.DecodeTRC(enc); err == nil && diffTRC(&back, &trc) != "" {
				err = fmt.Errorf("differs")
			}
		}
		note("sub-second-validity-roundtrip-equal", err)
	}
	{ // two sensitive voters whose names differ only in the ISD-AS attribute
		t := e.randomPayload(rng, w, payloadOpts{})
		si := t.indices(gen.Sensitive)
		src := t.p.Certs[si[0]]
		c := adhoc(e, src, rng, func(s *gen.CertSpec) { s.IA = fmt.Sprintf("%d-ff00:0:999", w.ISD) })
		t.add(slot{ent: -1, kind: gen.Sensitive}, c)
		if rules, _ := payloadViolations(t.p); len(rules) == 0 {
			trc, _ := t.p.Struct(nil)
			note("names-differ-only-in-isd-as", trc.Validate())
		}
	}
	r.Extra("observations_not_judged", obs)
}
