// Command pkitrc serves the TRC and signed-message properties:
// C32 (TRC updates need the required votes and signatures), C33 (TRC payload
// validation and encode/decode round trip) and C38 (signed control-plane
// messages verify only when untouched).
package main

import "verif/mon"

func main() {
	mon.Main(map[string]func(*mon.Run){
		"C32": checkC32,
		"C33": checkC33,
		"C38": checkC38,
	})
}
