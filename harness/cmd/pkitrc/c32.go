package main

import (
	"crypto"
	"encoding/hex"
	"encoding/json"
	"fmt"
	"math/rand/v2"
	"os"
	"sort"
	"strings"
	"sync"
	"time"

	"github.com/scionproto/scion/pkg/scrypto/cms/protocol"
	"github.com/scionproto/scion/pkg/scrypto/cppki"

	"verif/mon"
	gen "verif/pkitrcgen"
)

// updPlan is one predecessor/successor pair (or a base TRC when pred == nil
// and kind == "base") with its signer set.
type updPlan struct {
	pred     *trcPlan
	passNil  bool // hand a nil predecessor to Verify although one exists
	passPred bool // hand a predecessor to Verify although succ is a base TRC
	succ     *trcPlan
	kind     string // "regular" | "sensitive" | "base"
	changes  []string
	defect   string
	unjudged string // reason why the statement does not decide this plan
	sigs     []gen.SigSpec
	// bookkeeping of the generator
	mustVote []int       // predecessor indices of replaced regular voters
	acks     []*gen.Cert // predecessor roots that were replaced
	noteIdx  int         // predecessor index the defect is about (class only)
}

func (u *updPlan) voteClass() gen.Kind {
	if u.kind == "regular" {
		return gen.Regular
	}
	return gen.Sensitive
}

func countKind(t *trcPlan, k gen.Kind) int { return len(t.indices(k)) }

func removeString(l []string, i int) []string { return append(l[:i:i], l[i+1:]...) }

// change applies one named modification to the successor. It returns false if
// the plan at hand cannot host it.
func (u *updPlan) change(e *env, rng *rand.Rand, name string) bool {
	s := u.succ
	w := s.w
	kindOf := func(n string) gen.Kind {
		switch {
		case strings.HasSuffix(n, "sensitive"):
			return gen.Sensitive
		case strings.HasSuffix(n, "regular"):
			return gen.Regular
		}
		return gen.Root
	}
	switch {
	case strings.HasPrefix(name, "replace-"):
		k := kindOf(name)
		var cand []int
		for _, i := range s.indices(k) {
			// only certificates still identical to the predecessor's
			if s.slots[i].ent >= 0 && s.slots[i].ver < worldVersions-1 && indexOfCert(u.pred.p, s.p.Certs[i]) >= 0 {
				cand = append(cand, i)
			}
		}
		if len(cand) == 0 {
			return false
		}
		i := cand[rng.IntN(len(cand))]
		if rng.IntN(2) == 0 { // favour certificates far back in the list
			for _, c := range cand {
				i = max(i, c)
			}
		}
		old := s.p.Certs[i]
		s.slots[i].ver++
		s.sync()
		switch k {
		case gen.Regular:
			u.mustVote = append(u.mustVote, int(indexOfCert(u.pred.p, old)))
		case gen.Root:
			u.acks = append(u.acks, old)
		}
	case strings.HasPrefix(name, "add-"):
		k := kindOf(name)
		var cand []int
		for en := range w.Entities {
			if !s.hasEntity(en, k) && !u.pred.hasEntity(en, k) {
				cand = append(cand, en)
			}
		}
		if len(cand) == 0 {
			return false
		}
		sl := slot{cand[rng.IntN(len(cand))], k, rng.IntN(worldVersions)}
		s.add(sl, w.Cert(sl.ent, sl.kind, sl.ver))
	case strings.HasPrefix(name, "remove-"):
		k := kindOf(name)
		idx := s.indices(k)
		if len(idx) == 0 || (k.Voting() && len(idx) < 2) {
			return false
		}
		var cand []int
		for _, i := range idx {
			if indexOfCert(u.pred.p, s.p.Certs[i]) >= 0 {
				cand = append(cand, i)
			}
		}
		if len(cand) == 0 {
			return false
		}
		s.removeAt(cand[rng.IntN(len(cand))])
	case name == "quorum-up":
		if int(s.p.Quorum)+1 > min(countKind(s, gen.Sensitive), countKind(s, gen.Regular)) {
			return false
		}
		s.p.Quorum++
	case name == "quorum-down":
		if s.p.Quorum < 2 {
			return false
		}
		s.p.Quorum--
	case name == "core-add", name == "auth-add":
		list := &s.p.Core
		if name == "auth-add" {
			list = &s.p.Auth
		}
		var cand []string
		for _, en := range w.Entities {
			a := asTextOf(en.IA)
			if !contains(*list, a) {
				cand = append(cand, a)
			}
		}
		if len(cand) == 0 {
			return false
		}
		a := cand[rng.IntN(len(cand))]
		pos := rng.IntN(len(*list) + 1)
		*list = append((*list)[:pos:pos], append([]string{a}, (*list)[pos:]...)...)
	case name == "core-remove", name == "auth-remove":
		list := &s.p.Core
		if name == "auth-remove" {
			list = &s.p.Auth
		}
		if len(*list) < 2 {
			return false
		}
		*list = removeString(*list, rng.IntN(len(*list)))
	case name == "core-replace":
		var cand []string
		for _, en := range w.Entities {
			if a := asTextOf(en.IA); !contains(s.p.Core, a) {
				cand = append(cand, a)
			}
		}
		if len(cand) == 0 {
			return false
		}
		s.p.Core[rng.IntN(len(s.p.Core))] = cand[rng.IntN(len(cand))]
	case name == "dn-ia-swap-regular", name == "dn-ia-swap-root":
		// A certificate with another distinguished name (other ISD-AS attribute,
		// all other attributes equal) takes the place of a predecessor certificate:
		// by trc.rst one certificate is removed and another one added.
		k := kindOf(name)
		var cand []int
		for _, i := range s.indices(k) {
			if s.slots[i].ent >= 0 && indexOfCert(u.pred.p, s.p.Certs[i]) >= 0 {
				cand = append(cand, i)
			}
		}
		if len(cand) == 0 {
			return false
		}
		i := cand[rng.IntN(len(cand))]
		old := s.p.Certs[i]
		otherIA := w.Entities[(s.slots[i].ent+1+rng.IntN(len(w.Entities)-1))%len(w.Entities)].IA
		if otherIA == old.Spec.IA {
			return false
		}
		s.replaceCert(i, adhoc(e, old, rng, func(cs *gen.CertSpec) { cs.IA = otherIA }))
		if k == gen.Regular {
			u.mustVote = append(u.mustVote, int(indexOfCert(u.pred.p, old)))
		} else {
			u.acks = append(u.acks, old)
		}
	default:
		panic("harness: unknown change " + name)
	}
	u.changes = append(u.changes, name)
	return true
}

// pickVotes selects k distinct voters of the update's class from the
// predecessor, replaced regular voters first.
func (u *updPlan) pickVotes(rng *rand.Rand, k int) bool {
	cls := u.pred.indices(u.voteClass())
	var votes []int
	if u.kind == "regular" {
		votes = append(votes, u.mustVote...)
	}
	if len(votes) > k || k > len(cls) {
		return false
	}
	perm := rng.Perm(len(cls))
	for _, pi := range perm {
		if len(votes) >= k {
			break
		}
		i := cls[pi]
		dup := false
		for _, v := range votes {
			dup = dup || v == i
		}
		if !dup {
			votes = append(votes, i)
		}
	}
	rng.Shuffle(len(votes), func(i, j int) { votes[i], votes[j] = votes[j], votes[i] })
	u.succ.p.Votes = u.succ.p.Votes[:0]
	for _, v := range votes {
		u.succ.p.Votes = append(u.succ.p.Votes, int64(v))
	}
	return true
}

// signAll attaches exactly the signatures trc.rst asks for: one per vote, one
// per voting certificate that is not in the predecessor, and (regular update)
// one per replaced predecessor root.
func (u *updPlan) signAll(rng *rand.Rand) {
	u.sigs = u.sigs[:0]
	seen := map[int64]bool{}
	if u.pred != nil && u.kind != "base" {
		for _, v := range u.succ.p.Votes {
			if v < 0 || v >= int64(len(u.pred.p.Certs)) || seen[v] {
				continue
			}
			seen[v] = true
			u.sigs = append(u.sigs, gen.SigSpec{SID: u.pred.p.Certs[v]})
		}
	}
	for _, c := range u.succ.p.Certs {
		if !c.Spec.Kind.Voting() {
			continue
		}
		if u.pred == nil || u.kind == "base" || indexOfCert(u.pred.p, c) < 0 {
			u.sigs = append(u.sigs, gen.SigSpec{SID: c})
		}
	}
	if u.kind == "regular" {
		for _, c := range u.acks {
			u.sigs = append(u.sigs, gen.SigSpec{SID: c})
		}
	}
	rng.Shuffle(len(u.sigs), func(i, j int) { u.sigs[i], u.sigs[j] = u.sigs[j], u.sigs[i] })
}

func (u *updPlan) sigIndex(c *gen.Cert) int {
	for i, s := range u.sigs {
		if s.SID.ID == c.ID {
			return i
		}
	}
	return -1
}

func (u *updPlan) dropSig(c *gen.Cert) bool {
	i := u.sigIndex(c)
	if i < 0 {
		return false
	}
	u.sigs = append(u.sigs[:i:i], u.sigs[i+1:]...)
	return true
}

// newVoters lists the successor's voting certificates that the predecessor
// does not contain.
func (u *updPlan) newVoters() []*gen.Cert {
	var out []*gen.Cert
	for _, c := range u.succ.p.Certs {
		if c.Spec.Kind.Voting() && (u.pred == nil || u.kind == "base" || indexOfCert(u.pred.p, c) < 0) {
			out = append(out, c)
		}
	}
	return out
}

// need steers buildClean towards plans that can host a defect.
type need struct {
	replacedRoot    bool
	replacedRegular bool
	newVoter        bool
	exactQuorum     bool // votes = max(quorum, replaced regular voters)
	noChange        bool
	only            string // single change to apply (sensitive kind)
}

var sensitiveChanges = []string{"replace-sensitive", "add-sensitive", "remove-sensitive", "add-regular", "remove-regular",
	"add-root", "remove-root", "replace-regular", "replace-root", "quorum-up", "quorum-down", "core-add", "core-remove",
	"core-replace", "auth-add", "auth-remove"}

// newSuccessor clones the predecessor into a successor skeleton.
func newSuccessor(rng *rand.Rand, pred *trcPlan) *trcPlan {
	s := pred.clone()
	p := s.p
	p.Serial = pred.p.Serial + 1
	p.Votes = nil
	p.GracePeriod = int64(rng.IntN(90 * 24 * 3600))
	if rng.IntN(8) == 0 {
		p.GracePeriod = 0
	}
	shift := time.Duration(rng.Int64N(200*24*3600)) * time.Second
	p.NotBefore = pred.p.NotBefore.Add(shift)
	if p.NotBefore.After(gen.WorldNotAfter.Add(-48 * time.Hour)) {
		p.NotBefore = pred.p.NotBefore
	}
	room := int64(gen.WorldNotAfter.Sub(p.NotBefore) / time.Second)
	p.NotAfter = p.NotBefore.Add(time.Duration(3600+rng.Int64N(room-3600)) * time.Second)
	if rng.IntN(2) == 0 {
		p.Description = descriptions[rng.IntN(len(descriptions))]
	}
	return s
}

// buildClean produces an update that follows trc.rst to the letter.
func buildClean(e *env, rng *rand.Rand, pred *trcPlan, kind string, n need) *updPlan {
	u := &updPlan{pred: pred, kind: kind, succ: newSuccessor(rng, pred)}
	q := int(pred.p.Quorum)
	if n.newVoter && kind == "regular" {
		n.replacedRegular = true
	}
	switch kind {
	case "regular":
		if !n.noChange {
			nReg := rng.IntN(min(q, 2) + 1)
			if n.replacedRegular && nReg == 0 {
				nReg = 1
			}
			for i := 0; i < nReg; i++ {
				if !u.change(e, rng, "replace-regular") {
					break
				}
			}
			nRoot := rng.IntN(3)
			if n.replacedRoot && nRoot == 0 {
				nRoot = 1
			}
			for i := 0; i < nRoot; i++ {
				if !u.change(e, rng, "replace-root") {
					break
				}
			}
		}
		if (n.replacedRegular && len(u.mustVote) == 0) || (n.replacedRoot && len(u.acks) == 0) {
			return nil
		}
	case "sensitive":
		switch {
		case n.noChange:
		case n.only != "":
			if !u.change(e, rng, n.only) {
				return nil
			}
		default:
			want := 1 + rng.IntN(3)
			for tries := 0; tries < 12 && len(u.changes) < want; tries++ {
				u.change(e, rng, sensitiveChanges[rng.IntN(len(sensitiveChanges))])
			}
			if n.newVoter && len(u.newVoters()) == 0 {
				names := []string{"replace-sensitive", "add-sensitive", "add-regular", "replace-regular"}
				for tries := 0; tries < 8 && len(u.newVoters()) == 0; tries++ {
					u.change(e, rng, names[rng.IntN(len(names))])
				}
			}
			if len(u.changes) == 0 {
				return nil
			}
		}
		// keep the successor's own quorum satisfiable
		if m := int64(min(countKind(u.succ, gen.Sensitive), countKind(u.succ, gen.Regular))); u.succ.p.Quorum > m {
			u.succ.p.Quorum = m
			u.changes = append(u.changes, "quorum-fit")
		}
	}
	if n.newVoter && len(u.newVoters()) == 0 {
		return nil
	}
	if rng.IntN(2) == 0 {
		u.succ.shuffle(rng)
	}
	nCls := len(pred.indices(u.voteClass()))
	lo := q
	if kind == "regular" {
		lo = max(q, len(u.mustVote))
	}
	k := lo
	if !n.exactQuorum && nCls > lo {
		k = lo + rng.IntN(nCls-lo+1)
	}
	if !u.pickVotes(rng, k) {
		return nil
	}
	u.signAll(rng)
	return u
}

// defect is one way of breaking a clean plan.
type defect struct {
	name  string
	kinds []string // update kinds it applies to
	need  need
	apply func(e *env, rng *rand.Rand, u *updPlan) bool
}

func otherWorld(e *env, w *gen.World, rng *rand.Rand) *gen.World {
	return e.worlds[(indexOfWorld(e, w)+1+rng.IntN(len(e.worlds)-1))%len(e.worlds)]
}

// aVoter returns a predecessor certificate that votes in the plan.
func (u *updPlan) aVoter(rng *rand.Rand) *gen.Cert {
	var cand []*gen.Cert
	for _, v := range u.succ.p.Votes {
		if v >= 0 && v < int64(len(u.pred.p.Certs)) {
			cand = append(cand, u.pred.p.Certs[v])
		}
	}
	if len(cand) == 0 {
		return nil
	}
	return cand[rng.IntN(len(cand))]
}

func tamperOf(rng *rand.Rand) (gen.Tamper, int) {
	t := []gen.Tamper{gen.TamperFlipBit, gen.TamperFlipBit, gen.TamperTruncate, gen.TamperExtend, gen.TamperOtherMsg}[rng.IntN(5)]
	return t, 16 + rng.IntN(4000)
}

// sigDefects builds the four ways of invalidating the signature of the
// certificate chosen by who.
func sigDefects(prefix string, kinds []string, n need, who func(u *updPlan, rng *rand.Rand) *gen.Cert) []defect {
	return []defect{
		{name: "missing-" + prefix, kinds: kinds, need: n, apply: func(e *env, rng *rand.Rand, u *updPlan) bool {
			c := who(u, rng)
			return c != nil && u.dropSig(c)
		}},
		{name: "corrupt-" + prefix, kinds: kinds, need: n, apply: func(e *env, rng *rand.Rand, u *updPlan) bool {
			c := who(u, rng)
			if c == nil || u.sigIndex(c) < 0 {
				return false
			}
			s := &u.sigs[u.sigIndex(c)]
			s.Tamper, s.TamperPos = tamperOf(rng)
			return true
		}},
		{name: "wrong-key-" + prefix, kinds: kinds, need: n, apply: func(e *env, rng *rand.Rand, u *updPlan) bool {
			c := who(u, rng)
			if c == nil || u.sigIndex(c) < 0 {
				return false
			}
			s := &u.sigs[u.sigIndex(c)]
			// the key of another generation of the same entity when there is one
			// (old key instead of new, new instead of old), else an unrelated key
			s.Key = e.spareKey(c.Spec.Key.Curve, rng.IntN(40))
			for _, t := range []*trcPlan{u.pred, u.succ} {
				if t == nil {
					continue
				}
				for _, o := range t.p.Certs {
					if o.ID != c.ID && o.Spec.DN() == c.Spec.DN() && o.Spec.Kind == c.Spec.Kind && rng.IntN(2) == 0 {
						s.Key = o.Spec.Key
					}
				}
			}
			return s.Key.ID != c.Spec.Key.ID
		}},
		{name: "replayed-" + prefix, kinds: kinds, need: n, apply: func(e *env, rng *rand.Rand, u *updPlan) bool {
			c := who(u, rng)
			if c == nil || u.sigIndex(c) < 0 {
				return false
			}
			// a genuine signature of that certificate, lifted from another payload
			other := u.succ.p.Clone()
			other.Description += " (other)"
			der, err := other.DER()
			if err != nil {
				return false
			}
			u.sigs[u.sigIndex(c)].DigestOver = der
			return true
		}},
		{name: "lifted-" + prefix, kinds: kinds, need: n, apply: func(e *env, rng *rand.Rand, u *updPlan) bool {
			c := who(u, rng)
			if c == nil || u.sigIndex(c) < 0 {
				return false
			}
			// the signature value of that certificate from another payload which
			// this process has verified before (run does that), under signed
			// attributes that were repointed to this payload
			u.sigs[u.sigIndex(c)].Lift = true
			return true
		}},
	}
}

func updateDefects() []defect {
	both := []string{"regular", "sensitive"}
	reg := []string{"regular"}
	sens := []string{"sensitive"}
	ds := []defect{
		{name: "wrong-isd", kinds: sens, apply: func(e *env, rng *rand.Rand, u *updPlan) bool {
			// a complete, valid TRC of another ISD, voted by the predecessor's voters
			ow := otherWorld(e, u.pred.w, rng)
			t := e.randomPayload(rng, ow, payloadOpts{forceNonBase: true})
			t.p.Base, t.p.Serial, t.p.NoTrustReset = u.pred.p.Base, u.pred.p.Serial+1, u.pred.p.NoTrustReset
			t.p.Votes = u.succ.p.Votes
			u.succ = t
			u.changes = []string{"all-certificates"}
			u.signAll(rng)
			return true
		}},
		{name: "wrong-base", kinds: both, apply: func(e *env, rng *rand.Rand, u *updPlan) bool {
			var cand []int64
			if u.pred.p.Base > 1 {
				cand = append(cand, u.pred.p.Base-1)
			}
			if u.pred.p.Base+1 < u.succ.p.Serial { // else the successor would turn into a base TRC
				cand = append(cand, u.pred.p.Base+1)
			}
			if len(cand) == 0 {
				return false
			}
			u.succ.p.Base = cand[rng.IntN(len(cand))]
			return true
		}},
		{name: "serial-unchanged", kinds: both, apply: func(e *env, rng *rand.Rand, u *updPlan) bool {
			u.succ.p.Serial = u.pred.p.Serial
			return u.succ.p.Serial > u.succ.p.Base
		}},
		{name: "serial-plus-two", kinds: both, apply: func(e *env, rng *rand.Rand, u *updPlan) bool {
			u.succ.p.Serial = u.pred.p.Serial + 2 + int64(rng.IntN(3))
			return true
		}},
		{name: "serial-minus-one", kinds: both, apply: func(e *env, rng *rand.Rand, u *updPlan) bool {
			u.succ.p.Serial = u.pred.p.Serial - 1
			return u.succ.p.Serial > u.succ.p.Base
		}},
		{name: "trust-reset-flag-flipped", kinds: both, apply: func(e *env, rng *rand.Rand, u *updPlan) bool {
			u.succ.p.NoTrustReset = !u.pred.p.NoTrustReset
			return true
		}},
		{name: "nil-predecessor", kinds: both, apply: func(e *env, rng *rand.Rand, u *updPlan) bool {
			u.passNil = true
			return true
		}},
		{name: "duplicate-votes", kinds: both, need: need{exactQuorum: true}, apply: func(e *env, rng *rand.Rand, u *updPlan) bool {
			// quorum entries, one voter listed twice => quorum-1 distinct voters
			v := u.succ.p.Votes
			if len(v) < 2 || len(v) != int(u.pred.p.Quorum) {
				return false
			}
			i, j := rng.IntN(len(v)), rng.IntN(len(v))
			if i == j {
				j = (i + 1) % len(v)
			}
			v[j] = v[i]
			if rng.IntN(2) == 0 { // even longer list, still quorum-1 distinct
				u.succ.p.Votes = append(v, v[rng.IntN(len(v))])
			}
			u.signAll(rng)
			return true
		}},
		{name: "fewer-votes-than-quorum", kinds: both, need: need{exactQuorum: true}, apply: func(e *env, rng *rand.Rand, u *updPlan) bool {
			v := u.succ.p.Votes
			if len(v) != int(u.pred.p.Quorum) {
				return false
			}
			u.succ.p.Votes = v[:len(v)-1]
			u.signAll(rng)
			return true
		}},
		{name: "out-of-range-vote", kinds: both, need: need{exactQuorum: true}, apply: func(e *env, rng *rand.Rand, u *updPlan) bool {
			v := u.succ.p.Votes
			if len(v) != int(u.pred.p.Quorum) {
				return false
			}
			n := int64(len(u.pred.p.Certs))
			v[rng.IntN(len(v))] = []int64{n, n + 7, -1, -n, 1 << 31, 1 << 40, -1 << 40}[rng.IntN(7)]
			u.signAll(rng)
			return true
		}},
		{name: "vote-of-other-voting-class", kinds: both, need: need{exactQuorum: true}, apply: func(e *env, rng *rand.Rand, u *updPlan) bool {
			// quorum-1 voters of the right class plus one of the other class
			v := u.succ.p.Votes
			if len(v) != int(u.pred.p.Quorum) {
				return false
			}
			otherK := gen.Regular
			if u.kind == "regular" {
				otherK = gen.Sensitive
			}
			idx := u.pred.indices(otherK)
			v[rng.IntN(len(v))] = int64(idx[rng.IntN(len(idx))])
			u.signAll(rng)
			return true
		}},
		{name: "vote-of-root-certificate", kinds: both, need: need{exactQuorum: true}, apply: func(e *env, rng *rand.Rand, u *updPlan) bool {
			v := u.succ.p.Votes
			idx := u.pred.indices(gen.Root)
			if len(v) != int(u.pred.p.Quorum) || len(idx) == 0 {
				return false
			}
			v[rng.IntN(len(v))] = int64(idx[rng.IntN(len(idx))])
			u.signAll(rng)
			return true
		}},
		{name: "regular-voters-on-sensitive-change", kinds: sens, apply: func(e *env, rng *rand.Rand, u *updPlan) bool {
			// everything a sensitive update needs, but the voters are regular ones
			idx := u.pred.indices(gen.Regular)
			k := int(u.pred.p.Quorum) + rng.IntN(len(idx)-int(u.pred.p.Quorum)+1)
			u.succ.p.Votes = u.succ.p.Votes[:0]
			for _, pi := range rng.Perm(len(idx))[:k] {
				u.succ.p.Votes = append(u.succ.p.Votes, int64(idx[pi]))
			}
			// also give it the root acknowledgements and votes of replaced regular
			// voters a regular update would need, so that only the change itself is left
			for i, c := range u.pred.p.Certs {
				if c.Spec.Kind == gen.Regular && indexOfCert(u.succ.p, c) < 0 && !containsInt64(u.succ.p.Votes, int64(i)) {
					u.succ.p.Votes = append(u.succ.p.Votes, int64(i))
				}
			}
			u.signAll(rng)
			for _, c := range u.pred.p.Certs {
				if c.Spec.Kind == gen.Root && indexOfCert(u.succ.p, c) < 0 {
					u.sigs = append(u.sigs, gen.SigSpec{SID: c})
				}
			}
			// changes that leave every regular-update restriction intact are no defect
			for _, c := range u.changes {
				if c != "replace-regular" && c != "replace-root" {
					return true
				}
			}
			return false
		}},
		{name: "votes-meet-only-the-new-quorum", kinds: sens, need: need{only: "quorum-down", exactQuorum: true},
			apply: func(e *env, rng *rand.Rand, u *updPlan) bool {
				if !u.pickVotes(rng, int(u.succ.p.Quorum)) {
					return false
				}
				u.signAll(rng)
				return true
			}},
		{name: "voter-signature-by-certificate-not-in-predecessor", kinds: both, need: need{exactQuorum: true},
			apply: func(e *env, rng *rand.Rand, u *updPlan) bool {
				c := u.aVoter(rng)
				if c == nil || u.sigIndex(c) < 0 {
					return false
				}
				// another generation of the voter's certificate (same name, other serial
				// number and key), or the same-named certificate of the successor
				var out *gen.Cert
				for _, o := range u.succ.p.Certs {
					if o.ID != c.ID && o.Spec.DN() == c.Spec.DN() && o.Spec.Kind == c.Spec.Kind {
						out = o
					}
				}
				if out == nil || rng.IntN(2) == 0 {
					out = adhoc(e, c, rng, func(*gen.CertSpec) {})
				}
				u.sigs[u.sigIndex(c)] = gen.SigSpec{SID: out}
				return true
			}},
		{name: "replaced-regular-voter-did-not-vote", kinds: reg, need: need{replacedRegular: true}, apply: func(e *env, rng *rand.Rand, u *updPlan) bool {
			// at least quorum other regular voters vote and sign
			skip := u.mustVote[rng.IntN(len(u.mustVote))]
			if rng.IntN(2) == 0 { // prefer the certificate with the highest index in the predecessor
				for _, m := range u.mustVote {
					skip = max(skip, m)
				}
			}
			u.noteIdx = skip
			var others []int
			for _, i := range u.pred.indices(gen.Regular) {
				if i != skip {
					others = append(others, i)
				}
			}
			if len(others) < int(u.pred.p.Quorum) {
				return false
			}
			u.succ.p.Votes = u.succ.p.Votes[:0]
			for _, i := range others {
				u.succ.p.Votes = append(u.succ.p.Votes, int64(i))
			}
			u.signAll(rng)
			return true
		}},
	}
	for _, c := range []string{"quorum-up", "quorum-down", "core-add", "core-remove", "core-replace", "auth-add", "auth-remove",
		"replace-sensitive", "add-sensitive", "remove-sensitive", "add-root", "remove-root", "add-regular", "remove-regular",
		"dn-ia-swap-regular", "dn-ia-swap-root"} {
		c := c
		ds = append(ds, defect{name: "regular-voters-with-" + c, kinds: reg, apply: func(e *env, rng *rand.Rand, u *updPlan) bool {
			if !u.change(e, rng, c) {
				return false
			}
			// the successor must stay a valid payload with an unchanged quorum
			if c != "quorum-up" && c != "quorum-down" &&
				int(u.succ.p.Quorum) > min(countKind(u.succ, gen.Sensitive), countKind(u.succ, gen.Regular)) {
				return false
			}
			// regular voters vote (replaced ones included), every new voter signs, every replaced root acknowledges
			k := max(int(u.pred.p.Quorum), len(u.mustVote))
			if !u.pickVotes(rng, k) {
				return false
			}
			u.signAll(rng)
			return true
		}})
	}
	ds = append(ds, sigDefects("voter-signature", both, need{exactQuorum: true},
		func(u *updPlan, rng *rand.Rand) *gen.Cert { return u.aVoter(rng) })...)
	ds = append(ds, sigDefects("new-voter-signature", both, need{newVoter: true},
		func(u *updPlan, rng *rand.Rand) *gen.Cert {
			nv := u.newVoters()
			if len(nv) == 0 {
				return nil
			}
			return nv[rng.IntN(len(nv))]
		})...)
	ds = append(ds, sigDefects("root-acknowledgement", reg, need{replacedRoot: true},
		func(u *updPlan, rng *rand.Rand) *gen.Cert {
			if len(u.acks) == 0 {
				return nil
			}
			return u.acks[rng.IntN(len(u.acks))]
		})...)
	ds = append(ds, defect{name: "root-acknowledgement-by-new-root-only", kinds: reg, need: need{replacedRoot: true},
		apply: func(e *env, rng *rand.Rand, u *updPlan) bool {
			old := u.acks[rng.IntN(len(u.acks))]
			for _, c := range u.succ.p.Certs {
				if c.Spec.Kind == gen.Root && c.Spec.DN() == old.Spec.DN() && c.ID != old.ID {
					u.sigs[u.sigIndex(old)] = gen.SigSpec{SID: c}
					return true
				}
			}
			return false
		}})
	// payload rule violations on an otherwise perfect update
	for _, m := range allMutators() {
		m := m
		switch m.rule {
		case ruleBaseGrace, ruleBaseVotes, ruleBaseZero, ruleBaseGtSerial, ruleISDWildcard, ruleQuorumSens, ruleQuorumReg:
			continue // these reshape ID or voter sets; the update rules would interfere
		}
		if m.rule == ruleCertClass && !(strings.HasSuffix(m.variant, string(gen.DefNoTimeStamping)) ||
			strings.HasSuffix(m.variant, string(gen.DefBothVotingEKU)) || strings.HasPrefix(m.variant, "kind/") ||
			strings.HasSuffix(m.variant, string(gen.DefRootNoIA))) {
			continue
		}
		ds = append(ds, defect{name: "invalid-payload/" + m.rule, kinds: sens, apply: func(e *env, rng *rand.Rand, u *updPlan) bool {
			if !m.apply(e, u.succ, rng) {
				return false
			}
			u.changes = append(u.changes, "payload:"+m.rule)
			u.signAll(rng) // whoever is new signs as well
			return true
		}})
	}
	return ds
}

func containsInt64(l []int64, v int64) bool {
	for _, x := range l {
		if x == v {
			return true
		}
	}
	return false
}

// spec-only plans: trc.rst asks for rejection, the statement does not decide.
func unjudgedVariants() []defect {
	both := []string{"regular", "sensitive"}
	return []defect{
		{name: "duplicate-vote-beyond-quorum", kinds: both, apply: func(e *env, rng *rand.Rand, u *updPlan) bool {
			v := u.succ.p.Votes
			u.succ.p.Votes = append(v, v[rng.IntN(len(v))])
			return true
		}},
		{name: "extra-out-of-range-vote", kinds: both, apply: func(e *env, rng *rand.Rand, u *updPlan) bool {
			u.succ.p.Votes = append(u.succ.p.Votes, int64(len(u.pred.p.Certs)+rng.IntN(5)))
			return true
		}},
		{name: "superfluous-signature", kinds: both, apply: func(e *env, rng *rand.Rand, u *updPlan) bool {
			for _, c := range u.pred.p.Certs {
				if u.sigIndex(c) < 0 {
					u.sigs = append(u.sigs, gen.SigSpec{SID: c})
					return true
				}
			}
			return false
		}},
		{name: "one-of-more-than-quorum-voters-unsigned", kinds: both, apply: func(e *env, rng *rand.Rand, u *updPlan) bool {
			if len(u.succ.p.Votes) <= int(u.pred.p.Quorum) || len(u.mustVote) > 0 {
				return false
			}
			c := u.aVoter(rng)
			return c != nil && u.dropSig(c)
		}},
		{name: "digest-not-matching-curve", kinds: both, apply: func(e *env, rng *rand.Rand, u *updPlan) bool {
			s := &u.sigs[rng.IntN(len(u.sigs))]
			for _, h := range []crypto.Hash{crypto.SHA256, crypto.SHA384, crypto.SHA512} {
				if h != gen.NaturalHash(s.SigningKey().Curve) && rng.IntN(2) == 0 {
					s.Hash = h
				}
			}
			return s.Hash != 0
		}},
		{name: "subject-key-identifier-sid", kinds: both, apply: func(e *env, rng *rand.Rand, u *updPlan) bool {
			u.sigs[rng.IntN(len(u.sigs))].SKID = true
			return true
		}},
		{name: "unchanged-payload-voted-by-sensitive-voters", kinds: []string{"sensitive-nochange"},
			apply: func(e *env, rng *rand.Rand, u *updPlan) bool { return true }},
	}
}

// ---- execution ----

// tally counts outcomes per plan label for the evidence file.
var tally struct {
	sync.Mutex
	m map[string]*[2]int64 // [accepted, rejected]
}

func tallyAdd(label string, accepted bool) {
	tally.Lock()
	defer tally.Unlock()
	if tally.m == nil {
		tally.m = map[string]*[2]int64{}
	}
	c := tally.m[label]
	if c == nil {
		c = &[2]int64{}
		tally.m[label] = c
	}
	if accepted {
		c[0]++
	} else {
		c[1]++
	}
}

type c32Witness struct {
	Kind      string            `json:"kind"`
	Changes   []string          `json:"changes,omitempty"`
	Defect    string            `json:"defect,omitempty"`
	Expect    string            `json:"expect"`
	ModelWhy  string            `json:"model"`
	Pred      *planDesc         `json:"predecessor,omitempty"`
	Succ      planDesc          `json:"trc"`
	Sigs      []string          `json:"signer_infos"`
	NilPred   bool              `json:"nil_predecessor_passed,omitempty"`
	Got       map[string]string `json:"got"`
	PredDER   string            `json:"pred_payload_der_hex,omitempty"`
	SignedDER string            `json:"signed_trc_der_hex,omitempty"`
}

func describeSigs(sigs []gen.SigSpec) []string {
	var out []string
	for _, s := range sigs {
		x := fmt.Sprintf("sid={%s sn=%s} key=%d(cert key=%d)", s.SID.Spec.DN(), s.SID.Spec.Serial, s.SigningKey().ID, s.SID.Spec.Key.ID)
		if s.Tamper != gen.TamperNone {
			x += " tamper=" + string(s.Tamper)
		}
		if s.Lift {
			x += " signature-lifted-from-verified-TRC"
		}
		if s.DigestOver != nil {
			x += " digest-over-other-payload"
		}
		if s.Hash != 0 {
			x += fmt.Sprintf(" hash=%v", s.Hash)
		}
		if s.SKID {
			x += " sid-form=skid"
		}
		out = append(out, x)
	}
	return out
}

// run executes the plan on both paths and judges it.
func (u *updPlan) run(r *mon.Run) {
	succDER, err := u.succ.p.DER()
	if err != nil {
		panic(fmt.Sprintf("harness: encoding successor: %v", err))
	}
	var allows bool
	var why string
	var predP *gen.Payload
	if u.kind == "base" {
		allows, why = stmtAllowsBase(u.succ.p, succDER, u.sigs)
	} else {
		if !u.passNil {
			predP = u.pred.p
		}
		allows, why = stmtAllowsUpdate(predP, u.succ.p, succDER, u.sigs)
	}
	expect := "reject"
	switch {
	case u.unjudged != "":
		expect = "unjudged"
	case u.defect == "":
		expect = "accept"
		if !allows {
			panic(fmt.Sprintf("harness: clean %s plan (%v) fails the statement's conditions: %s", u.kind, u.changes, why))
		}
	case allows:
		// the planned defect leaves the statement's conditions intact
		expect = "unjudged"
		u.unjudged = "defect-within-statement"
	}

	anyLift := false
	for _, s := range u.sigs {
		anyLift = anyLift || s.Lift
	}
	if anyLift {
		u.warmUpLift(r)
	}
	infos := make([]protocol.SignerInfo, 0, len(u.sigs))
	for _, s := range u.sigs {
		si, err := gen.SignerInfo(succDER, s)
		if err != nil {
			panic(fmt.Sprintf("harness: signing: %v", err))
		}
		infos = append(infos, si)
	}
	signed, err := gen.SignedData(succDER, infos)
	if err != nil {
		panic(fmt.Sprintf("harness: %v", err))
	}

	var predDER []byte
	var predDecoded, predStruct *cppki.TRC
	if u.pred != nil && u.kind != "base" || u.passPred {
		predDER, err = u.pred.p.DER()
		if err != nil {
			panic(fmt.Sprintf("harness: encoding predecessor: %v", err))
		}
		d, derr := cppki.DecodeTRC(predDER)
		if derr != nil {
			r.Inconclusive("predecessor-rejected-by-decoder")
			return
		}
		s, ok := u.pred.p.Struct(predDER)
		if !ok {
			panic("harness: predecessor not representable")
		}
		if !u.passNil {
			predDecoded, predStruct = &d, &s
		}
	}

	got := map[string]string{}
	wit := func() c32Witness {
		w := c32Witness{Kind: u.kind, Changes: u.changes, Defect: u.defect, Expect: expect, ModelWhy: why,
			Succ: describe(u.succ.p), Sigs: describeSigs(u.sigs), NilPred: u.passNil, Got: got,
			SignedDER: mon.Hex(signed)}
		if u.pred != nil && u.kind != "base" || u.passPred {
			d := describe(u.pred.p)
			w.Pred = &d
			w.PredDER = mon.Hex(predDER)
		}
		return w
	}
	label := u.defect
	if label == "" {
		label = "clean"
	}
	if u.pred != nil && len(u.pred.p.Certs) > 64 {
		r.Class("large-predecessor(>64 certificates)/" + u.kind + "/" + label)
		r.Event("large_predecessor_case")
		if u.noteIdx >= 64 {
			r.Class("defect-about-certificate-index>=64/" + label)
			r.Event("defect_about_certificate_index_ge_64")
		}
	}
	if u.unjudged != "" {
		label = "unjudged:" + u.unjudged
		if u.defect != "" {
			label += ":" + u.defect
		}
	}
	judge := func(path string, verr error, pv any, stack string) {
		r.Eval(1)
		r.Event("verify_" + path)
		if pv != nil {
			got[path] = fmt.Sprintf("panic: %v", pv)
			w := wit()
			w.Got = map[string]string{path: got[path], "stack": stack}
			r.Violation("C32:panic:"+mon.PanicSite(stack), fmt.Sprintf("Verify panicked (%s path, %s): %v", path, label, pv), w)
			return
		}
		got[path] = errStr(verr)
		outcome := "rejected"
		if verr == nil {
			outcome = "accepted"
		}
		r.Event(outcome)
		tallyAdd(u.kind+"/"+label+" expect="+expect, verr == nil)
		cls := u.kind + "/" + label + "/" + outcome
		if u.defect == "" && u.unjudged == "" {
			ch := append([]string(nil), u.changes...)
			sort.Strings(ch)
			cls = u.kind + "/clean[" + strings.Join(uniq(ch), "+") + "]/" + outcome
		}
		r.Class(cls)
		switch {
		case expect == "accept" && verr != nil:
			r.Violation("C32:rejected-valid/"+u.kind, fmt.Sprintf("%s path: a %s TRC that follows trc.rst to the letter (changes %v) is rejected: %v",
				path, u.kind, u.changes, verr), wit())
		case expect == "reject" && verr == nil:
			r.Violation("C32:accepted/"+u.defect, fmt.Sprintf("%s path: %s TRC accepted although the statement forbids it (%s; defect %s)",
				path, u.kind, why, u.defect), wit())
		}
	}

	// path 1: the wire: DecodeSignedTRC, then Verify
	{
		var verr error
		pv, st := mon.Try(func() {
			dec, derr := cppki.DecodeSignedTRC(signed)
			if derr != nil {
				verr = fmt.Errorf("DecodeSignedTRC: %w", derr)
				return
			}
			verr = dec.Verify(predDecoded)
		})
		judge("decode", verr, pv, st)
	}
	// path 2: the in-memory value built from the plan, Verify validates it itself
	if trc, ok := u.succ.p.Struct(succDER); ok {
		s := cppki.SignedTRC{Raw: signed, TRC: trc, SignerInfos: infos}
		var verr error
		pv, st := mon.Try(func() { verr = s.Verify(predStruct) })
		judge("struct", verr, pv, st)
	}
	if r.WantSample() && (u.defect != "" || u.kind == "regular") {
		w := wit()
		w.PredDER, w.SignedDER = "", ""
		r.Sample(w)
	}
}

// warmUpLift builds the same TRC with another description, genuinely signed
// by the planned signers, lets the implementation verify it (as a verifier
// that has seen an earlier, genuine TRC would have), and keeps the signature
// values of the signers planned as lifted.
func (u *updPlan) warmUpLift(r *mon.Run) {
	other := u.succ.p.Clone()
	other.Description += " (other)"
	oder, err := other.DER()
	if err != nil {
		panic(fmt.Sprintf("harness: encoding warm-up payload: %v", err))
	}
	var infos []protocol.SignerInfo
	for i, s := range u.sigs {
		s2 := s
		s2.Lift, s2.LiftSig = false, nil
		si, err := gen.SignerInfo(oder, s2)
		if err != nil {
			panic(fmt.Sprintf("harness: signing warm-up: %v", err))
		}
		infos = append(infos, si)
		if s.Lift {
			u.sigs[i].LiftSig = si.Signature
		}
	}
	signed, err := gen.SignedData(oder, infos)
	if err != nil {
		panic(fmt.Sprintf("harness: %v", err))
	}
	var pred *cppki.TRC
	if u.pred != nil && u.kind != "base" && !u.passNil {
		if pd, err := u.pred.p.DER(); err == nil {
			if d, derr := cppki.DecodeTRC(pd); derr == nil {
				pred = &d
			}
		}
	}
	var verr error
	pv, _ := mon.Try(func() {
		dec, derr := cppki.DecodeSignedTRC(signed)
		if derr != nil {
			verr = derr
			return
		}
		verr = dec.Verify(pred)
	})
	switch {
	case pv != nil:
		r.Event("lift_warmup_panicked")
	case verr == nil:
		r.Event("lift_warmup_accepted")
	default:
		r.Event("lift_warmup_rejected")
	}
}

func uniq(l []string) []string {
	var out []string
	for i, s := range l {
		if i == 0 || s != l[i-1] {
			out = append(out, s)
		}
	}
	return out
}

// baseDefects: ways of breaking a base TRC.
func baseDefects() []defect {
	b := []string{"base"}
	voting := func(k gen.Kind) func(u *updPlan, rng *rand.Rand) *gen.Cert {
		return func(u *updPlan, rng *rand.Rand) *gen.Cert {
			idx := u.succ.indices(k)
			return u.succ.p.Certs[idx[rng.IntN(len(idx))]]
		}
	}
	ds := sigDefects("sensitive-voter-signature", b, need{}, voting(gen.Sensitive))
	ds = append(ds, sigDefects("regular-voter-signature", b, need{}, voting(gen.Regular))...)
	ds = append(ds, defect{name: "no-signatures", kinds: b, apply: func(e *env, rng *rand.Rand, u *updPlan) bool {
		u.sigs = nil
		return true
	}})
	ds = append(ds, defect{name: "only-sensitive-voters-signed", kinds: b, apply: func(e *env, rng *rand.Rand, u *updPlan) bool {
		var keep []gen.SigSpec
		for _, s := range u.sigs {
			if s.SID.Spec.Kind == gen.Sensitive {
				keep = append(keep, s)
			}
		}
		u.sigs = keep
		return true
	}})
	for _, m := range allMutators() {
		m := m
		switch m.rule {
		case ruleBaseZero, ruleBaseGtSerial:
			continue // no longer a base TRC
		}
		if m.rule == ruleCertClass && !(strings.HasSuffix(m.variant, string(gen.DefNoTimeStamping)) ||
			strings.HasPrefix(m.variant, "kind/") || strings.HasSuffix(m.variant, string(gen.DefDigitalSig))) {
			continue
		}
		ds = append(ds, defect{name: "invalid-payload/" + m.rule, kinds: b, apply: func(e *env, rng *rand.Rand, u *updPlan) bool {
			if !m.apply(e, u.succ, rng) || !u.succ.p.IsBase() {
				return false
			}
			u.changes = append(u.changes, "payload:"+m.rule)
			u.signAll(rng)
			return true
		}})
	}
	return ds
}

func buildBase(e *env, rng *rand.Rand, w *gen.World) *updPlan {
	u := &updPlan{kind: "base", succ: e.randomPayload(rng, w, payloadOpts{forceBase: true, maxVer: worldVersions - 1})}
	u.signAll(rng)
	return u
}

func checkC32(r *mon.Run) {
	r.Rule = "scenario = random valid predecessor TRC from a certificate world (3 ISDs x 8 entities x 3 classes x 4 generations, " +
		"P-256/384/521); per scenario: clean regular/sensitive updates and base TRCs (must verify) and one plan per defect " +
		"(must not verify), each run through DecodeSignedTRC+Verify and through Verify on the in-memory value; " +
		"the expectation comes from a plan-level model of the statement; class = kind/defect-or-change-set/outcome"
	r.Assumptions = []string{
		"reference model cmd/pkitrc/refmodel.go (statement + trc.rst) reads only the generator's plan",
		"plans that only trc.rst (not the statement) rejects - duplicate or out-of-range votes beyond a satisfied quorum, superfluous or " +
			"unsigned surplus voters, digest/curve mismatch, subjectKeyIdentifier SIDs, unchanged payload voted by sensitive voters - are recorded, not judged",
		"predecessors are valid TRCs (plus one probe with a decoder-accepted negative quorum)",
		"certificate serial numbers are unique per issuer across generations",
	}
	if r.ReplayFile() != "" {
		replayC32(r)
		return
	}
	e := getEnv(r)
	upd := updateDefects()
	unj := unjudgedVariants()
	based := baseDefects()
	nScen := r.Pick(90, 1500)
	workers := 14
	var wg sync.WaitGroup
	for wk := 0; wk < workers; wk++ {
		wg.Add(1)
		go func(wk int) {
			defer wg.Done()
			for sc := wk; sc < nScen; sc += workers {
				rng := r.Rand(fmt.Sprint("c32/", sc))
				w := e.worlds[rng.IntN(len(e.worlds))]
				opts := payloadOpts{maxVer: 1}
				if sc%3 != 0 {
					opts.minVoters = 2 + rng.IntN(2)
				}
				pred := e.randomPayload(rng, w, opts)
				if sc%3 != 0 && pred.p.Quorum < 2 {
					pred.p.Quorum = 2
				}
				// clean updates
				for i := 0; i < 12; i++ {
					kind := []string{"regular", "sensitive"}[i%2]
					if u := buildClean(e, rng, pred, kind, need{exactQuorum: i < 4, noChange: kind == "regular" && i == 4}); u != nil {
						u.run(r)
					} else {
						r.Inconclusive("clean-plan-not-constructible")
					}
				}
				// one plan per defect
				for _, d := range upd {
					if strings.HasPrefix(d.name, "invalid-payload/") && rng.IntN(5) >= 2 {
						continue // payload rules are C33's subject; sample 40% of them per scenario
					}
					for _, kind := range d.kinds {
						u := buildClean(e, rng, pred, kind, d.need)
						if u == nil || !d.apply(e, rng, u) {
							r.Inconclusive("defect-not-applicable")
							continue
						}
						u.defect = d.name
						u.run(r)
					}
				}
				// plans the statement does not decide
				for _, d := range unj {
					for _, kind := range d.kinds {
						n := need{}
						k := kind
						if kind == "sensitive-nochange" {
							k, n.noChange = "sensitive", true
						}
						u := buildClean(e, rng, pred, k, n)
						if u == nil || !d.apply(e, rng, u) {
							continue
						}
						u.unjudged = d.name
						u.run(r)
					}
				}
				// base TRCs
				for i := 0; i < 5; i++ {
					buildBase(e, rng, w).run(r)
				}
				for _, d := range based {
					if strings.HasPrefix(d.name, "invalid-payload/") && rng.IntN(5) >= 2 {
						continue
					}
					u := buildBase(e, rng, w)
					if !d.apply(e, rng, u) {
						r.Inconclusive("defect-not-applicable")
						continue
					}
					u.defect = d.name
					u.run(r)
				}
				{ // base TRC handed in together with a predecessor: API misuse, recorded only
					u := buildBase(e, rng, w)
					u.pred, u.passPred, u.unjudged = pred, true, "base-with-predecessor"
					u.run(r)
				}
			}
		}(wk)
	}
	wg.Wait()
	c32NegativeQuorumProbe(r, e)
	{
		out := map[string]string{}
		tally.Lock()
		for k, v := range tally.m {
			out[k] = fmt.Sprintf("accepted=%d rejected=%d", v[0], v[1])
		}
		tally.Unlock()
		r.Extra("outcomes_by_plan", out)
	}
	r.Require(int64(nScen)*100, 80, "verify_decode", "verify_struct", "accepted", "rejected", "lift_warmup_accepted", "large_predecessor_case", "defect_about_certificate_index_ge_64")
	r.RequireClasses("regular/duplicate-votes/rejected", "sensitive/duplicate-votes/rejected",
		"regular/missing-new-voter-signature/rejected", "regular/missing-root-acknowledgement/rejected",
		"regular/replaced-regular-voter-did-not-vote/rejected", "regular/regular-voters-with-quorum-up/rejected",
		"sensitive/wrong-isd/rejected", "base/missing-regular-voter-signature/rejected")
}

// c32NegativeQuorumProbe: DESIGN §5 F8. If the decoder hands out a predecessor
// with a negative quorum, verifying an update without votes against it must
// not crash.
func c32NegativeQuorumProbe(r *mon.Run, e *env) {
	rng := r.Rand("c32/negq")
	for i := 0; i < 6; i++ {
		pred := e.randomPayload(rng, e.worlds[i%len(e.worlds)], payloadOpts{})
		pred.p.Quorum = []int64{-1, -3, -255}[i%3]
		predDER, _ := pred.p.DER()
		d, err := cppki.DecodeTRC(predDER)
		if err != nil {
			r.Class("probe/negative-quorum-predecessor/rejected-by-decoder")
			continue
		}
		r.Class("probe/negative-quorum-predecessor/decoded")
		u := &updPlan{pred: pred, kind: "sensitive", succ: newSuccessor(rng, pred)}
		u.succ.p.Quorum = 1
		u.succ.p.Votes = nil
		u.signAll(rng)
		succDER, _ := u.succ.p.DER()
		signed, _ := gen.SignedData(succDER, nil)
		r.Eval(1)
		var verr error
		pv, st := mon.Try(func() {
			dec, derr := cppki.DecodeSignedTRC(signed)
			if derr != nil {
				verr = derr
				return
			}
			verr = dec.Verify(&d)
		})
		wit := map[string]any{"predecessor": describe(pred.p), "trc": describe(u.succ.p), "pred_payload_der_hex": mon.Hex(predDER),
			"signed_trc_der_hex": mon.Hex(signed), "note": "predecessor accepted by DecodeTRC with a negative quorum; successor has no votes"}
		if pv != nil {
			wit["stack"] = st
			r.Violation("C32:panic:"+mon.PanicSite(st), fmt.Sprintf("Verify panicked against a decoder-accepted predecessor with quorum %d: %v",
				pred.p.Quorum, pv), wit)
		} else if verr == nil {
			r.Violation("C32:accepted/no-votes-negative-quorum", "update without any vote accepted", wit)
		}
	}
}

// replayC32 re-runs the wire path of a recorded witness.
func replayC32(r *mon.Run) {
	b, err := os.ReadFile(r.ReplayFile())
	if err != nil {
		fmt.Fprintln(os.Stderr, "replay:", err)
		os.Exit(2)
	}
	var f struct {
		Key     string     `json:"key"`
		Witness c32Witness `json:"witness"`
	}
	if err := json.Unmarshal(b, &f); err != nil {
		fmt.Fprintln(os.Stderr, "replay:", err)
		os.Exit(2)
	}
	w := f.Witness
	signed, _ := hex.DecodeString(w.SignedDER)
	var pred *cppki.TRC
	if w.PredDER != "" && !w.NilPred {
		raw, _ := hex.DecodeString(w.PredDER)
		d, err := cppki.DecodeTRC(raw)
		if err != nil {
			fmt.Println("replay: predecessor no longer decodes:", err)
			r.Class("replay/predecessor-rejected")
			r.Class("replay")
			r.Eval(1)
			r.Sample(map[string]any{"replay": r.ReplayFile(), "result": "predecessor rejected by DecodeTRC: " + err.Error()})
			return
		}
		pred = &d
	}
	var verr error
	pv, st := mon.Try(func() {
		dec, derr := cppki.DecodeSignedTRC(signed)
		if derr != nil {
			verr = derr
			return
		}
		verr = dec.Verify(pred)
	})
	r.Eval(1)
	r.Class("replay")
	r.Class("replay/" + w.Expect)
	res := errStr(verr)
	if pv != nil {
		res = fmt.Sprintf("panic: %v", pv)
		r.Violation("C32:panic:"+mon.PanicSite(st), res, w)
	} else if w.Expect == "reject" && verr == nil {
		r.Violation(f.Key, "replayed witness is still accepted", w)
	} else if w.Expect == "accept" && verr != nil {
		r.Violation(f.Key, "replayed witness is still rejected: "+verr.Error(), w)
	}
	fmt.Println("replay result:", res)
	r.Sample(map[string]any{"replay": r.ReplayFile(), "result": res})
}
