package main

import (
	"fmt"
	"math/rand/v2"
	"sync"
	"time"

	"verif/mon"
	gen "verif/pkitrcgen"
)

// env is the per-run population: key pool and one certificate world per ISD.
type env struct {
	pool   *gen.KeyPool
	worlds []*gen.World
}

const (
	worldEntities = 8
	worldVersions = 4
)

var (
	envOnce sync.Once
	theEnv  *env
)

// getEnv builds the pool and worlds once per run from the seed.
func getEnv(r *mon.Run) *env {
	envOnce.Do(func() {
		pool := gen.NewKeyPool(r.Rand("pkitrc-keypool"), 340, 340, 340)
		e := &env{pool: pool}
		for i, isd := range []int{1, 19, 65535} {
			e.worlds = append(e.worlds, gen.NewWorld(pool, isd, worldEntities, worldVersions, i*100))
		}
		// a large ISD: TRCs with up to ~90 certificates (indices beyond 64)
		e.worlds = append(e.worlds, gen.NewWorld(pool, 77, 30, worldVersions, 17))
		theEnv = e
	})
	return theEnv
}

// spareKey returns a pool key that no world certificate uses.
func (e *env) spareKey(c gen.Curve, i int) *gen.Key { return e.pool.Key(c, 300+((i%40)+40)%40) }

// slot addresses a world certificate.
type slot struct {
	ent  int
	kind gen.Kind
	ver  int
}

// trcPlan is a payload together with the origin of each certificate
// (slots[i].ent < 0 for certificates from outside the world).
type trcPlan struct {
	w     *gen.World
	p     *gen.Payload
	slots []slot
}

func (t *trcPlan) clone() *trcPlan {
	return &trcPlan{w: t.w, p: t.p.Clone(), slots: append([]slot(nil), t.slots...)}
}

// sync rebuilds p.Certs from world slots (foreign certificates stay).
func (t *trcPlan) sync() {
	for i, s := range t.slots {
		if s.ent >= 0 {
			t.p.Certs[i] = t.w.Cert(s.ent, s.kind, s.ver)
		}
	}
}

func (t *trcPlan) indices(k gen.Kind) []int {
	var out []int
	for i, c := range t.p.Certs {
		if c.Spec.Kind == k {
			out = append(out, i)
		}
	}
	return out
}

func (t *trcPlan) removeAt(i int) {
	t.slots = append(t.slots[:i:i], t.slots[i+1:]...)
	t.p.Certs = append(t.p.Certs[:i:i], t.p.Certs[i+1:]...)
}

func (t *trcPlan) add(s slot, c *gen.Cert) {
	t.slots = append(t.slots, s)
	t.p.Certs = append(t.p.Certs, c)
}

func (t *trcPlan) hasEntity(ent int, k gen.Kind) bool {
	for _, s := range t.slots {
		if s.ent == ent && s.kind == k {
			return true
		}
	}
	return false
}

func (t *trcPlan) shuffle(rng *rand.Rand) {
	rng.Shuffle(len(t.slots), func(i, j int) {
		t.slots[i], t.slots[j] = t.slots[j], t.slots[i]
		t.p.Certs[i], t.p.Certs[j] = t.p.Certs[j], t.p.Certs[i]
	})
}

func asTextOf(ia string) string {
	for i := 0; i < len(ia); i++ {
		if ia[i] == '-' {
			return ia[i+1:]
		}
	}
	return ia
}

var descriptions = []string{
	"", "ISD test", "Trust root configuration of the verification ISD", "Zürich — 測試 ISD — тест",
	"line one\nline two", "ISD \"quoted\" <&>",
}

// payloadOpts steers randomPayload.
type payloadOpts struct {
	forceBase    bool
	forceNonBase bool
	minVoters    int // lower bound for sensitive and regular voter count
	maxVer       int // highest certificate generation used
}

// randomPayload builds a payload that satisfies every rule of the C33
// statement (by construction; the reference model re-checks it).
func (e *env) randomPayload(rng *rand.Rand, w *gen.World, o payloadOpts) *trcPlan {
	nEnt := len(w.Entities)
	pick := func(n int) []int {
		perm := rng.Perm(nEnt)
		return perm[:n]
	}
	lo := max(o.minVoters, 1)
	nS := lo + rng.IntN(5-lo+1)
	nR := lo + rng.IntN(5-lo+1)
	nRoot := 1 + rng.IntN(3)
	if rng.IntN(12) == 0 {
		nRoot = 0
	}
	if nEnt >= 25 && rng.IntN(3) != 0 {
		// large TRC: more than 64 certificates in most cases
		nS = 20 + rng.IntN(nEnt-19)
		nR = 20 + rng.IntN(nEnt-19)
		nRoot = 20 + rng.IntN(nEnt-19)
	}
	t := &trcPlan{w: w, p: &gen.Payload{}}
	ver := func() int {
		if o.maxVer <= 0 {
			return 0
		}
		return rng.IntN(o.maxVer + 1)
	}
	for _, en := range pick(nS) {
		t.slots = append(t.slots, slot{en, gen.Sensitive, ver()})
	}
	for _, en := range pick(nR) {
		t.slots = append(t.slots, slot{en, gen.Regular, ver()})
	}
	for _, en := range pick(nRoot) {
		t.slots = append(t.slots, slot{en, gen.Root, ver()})
	}
	t.p.Certs = make([]*gen.Cert, len(t.slots))
	t.sync()
	if rng.IntN(3) != 0 {
		t.shuffle(rng)
	}
	p := t.p
	p.ISD = int64(w.ISD)
	switch rng.IntN(4) {
	case 0:
		p.Base = 1
	case 1:
		p.Base = 1 + int64(rng.IntN(20))
	case 2:
		p.Base = 1 + int64(rng.IntN(1<<30))
	default:
		p.Base = 1 + rng.Int64N(1<<61)
	}
	base := rng.IntN(3) == 0
	if o.forceBase {
		base = true
	}
	if o.forceNonBase {
		base = false
	}
	p.Serial = p.Base
	if !base {
		p.Serial = p.Base + 1 + int64(rng.IntN(30))
		p.GracePeriod = int64(rng.IntN(366 * 24 * 3600))
		if rng.IntN(6) == 0 {
			p.GracePeriod = 0
		}
		nv := 1 + rng.IntN(5)
		for _, v := range rng.Perm(12)[:nv] {
			p.Votes = append(p.Votes, int64(v))
		}
	}
	start := time.Date(2021, 1, 1, 0, 0, 0, 0, time.UTC).Add(time.Duration(rng.Int64N(9*365*24*3600)) * time.Second)
	dur := time.Duration(3600+rng.Int64N(5*365*24*3600)) * time.Second
	p.NotBefore, p.NotAfter = start, start.Add(dur)
	if rng.IntN(25) == 0 { // exactly the certificates' validity
		p.NotBefore, p.NotAfter = gen.WorldNotBefore, gen.WorldNotAfter
	}
	p.NoTrustReset = rng.IntN(3) == 0
	p.Quorum = 1 + int64(rng.IntN(min(nS, nR)))
	if rng.IntN(4) == 0 {
		p.Quorum = int64(min(nS, nR))
	}
	nCore := 1 + rng.IntN(4)
	for _, en := range pick(nCore) {
		p.Core = append(p.Core, asTextOf(w.Entities[en].IA))
	}
	nAuth := 1 + rng.IntN(nCore)
	p.Auth = append(p.Auth, p.Core[:nAuth]...)
	if rng.IntN(3) == 0 {
		rng.Shuffle(len(p.Auth), func(i, j int) { p.Auth[i], p.Auth[j] = p.Auth[j], p.Auth[i] })
	}
	p.Description = descriptions[rng.IntN(len(descriptions))]
	if rng.IntN(20) == 0 {
		p.Description = fmt.Sprintf("%01500d", rng.IntN(1000))
	}
	return t
}
