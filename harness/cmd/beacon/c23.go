package main

import (
	"bytes"
	"context"
	"crypto/ecdsa"
	"crypto/elliptic"
	"errors"
	"fmt"
	"hash"
	"math/rand/v2"
	"os"
	"strings"
	"sync"
	"sync/atomic"
	"time"

	"google.golang.org/protobuf/proto"

	"github.com/scionproto/scion/control/beaconing"
	"github.com/scionproto/scion/control/ifstate"
	"github.com/scionproto/scion/pkg/addr"
	cppb "github.com/scionproto/scion/pkg/proto/control_plane"
	cryptopb "github.com/scionproto/scion/pkg/proto/crypto"
	"github.com/scionproto/scion/pkg/scrypto"
	"github.com/scionproto/scion/pkg/scrypto/signed"
	seg "github.com/scionproto/scion/pkg/segment"
	"github.com/scionproto/scion/pkg/segment/extensions/discovery"
	"github.com/scionproto/scion/private/topology"

	"verif/beaconpki"
	"verif/beaconref"
	"verif/mon"
)

const c23Unit = 337500 * time.Millisecond // (24*60*60)/256 s, scion-header.rst "ExpTime"

// ---- fixtures ----

type c23Master struct {
	raw []byte
	ref *beaconref.CMAC  // reference MAC under the independently derived key
	mac func() hash.Hash // the real factory handed to the extender
}

type c23World struct {
	keys    []*beaconpki.Key
	masters []c23Master
}

func c23NewWorld(rng *rand.Rand) (*c23World, error) {
	w := &c23World{}
	curves := []elliptic.Curve{
		elliptic.P256(), elliptic.P256(), elliptic.P256(), elliptic.P256(), elliptic.P256(),
		elliptic.P256(), elliptic.P256(), elliptic.P256(), elliptic.P384(), elliptic.P384(),
		elliptic.P521(),
	}
	for _, c := range curves {
		k, err := beaconpki.NewKey(c)
		if err != nil {
			return nil, err
		}
		w.keys = append(w.keys, k)
	}
	for i := 0; i < 24; i++ {
		l := []int{16, 16, 1, 7, 24, 32, 40}[rng.IntN(7)]
		raw := make([]byte, l)
		for j := range raw {
			raw[j] = byte(rng.IntN(256))
		}
		hk, err := beaconref.DeriveHFKey(raw)
		if err != nil {
			return nil, err
		}
		ref, err := beaconref.NewCMAC(hk)
		if err != nil {
			return nil, err
		}
		f, err := scrypto.HFMacFactory(raw)
		if err != nil {
			return nil, err
		}
		w.masters = append(w.masters, c23Master{raw: raw, ref: ref, mac: f})
	}
	return w, nil
}

type c23SignerCfg struct {
	key        *beaconpki.Key
	notBefore  time.Time
	expiration time.Time
	kind       string
	fault      *c23FaultKey // wrapper around key.Priv handed to the extender (c23fault.go); nil = the bare key
}

type c23SignerW struct {
	Kind           string  `json:"kind"`
	NotBeforeRelTs float64 `json:"not_before_minus_ts_s"`
	ExpRelTs       float64 `json:"expiration_minus_ts_s"`
	ExpRelNow      float64 `json:"expiration_minus_now_s"`
	Curve          string  `json:"curve"`
	Fault          string  `json:"sign_fault,omitempty"` // injected behaviour of the key backend in this call
	SignCalls      int32   `json:"sign_calls"`
	SignFails      int32   `json:"sign_calls_failed"`
}

type c23Witness struct {
	Replay     string            `json:"replay"`
	Chain      int               `json:"chain"`
	Call       string            `json:"call"`
	Pos        int               `json:"position"`
	Local      string            `json:"local"`
	Ingress    uint16            `json:"ingress"`
	Egress     uint16            `json:"egress"`
	Peers      []uint16          `json:"peers"`
	Interfaces map[string]string `json:"interfaces"`
	MaxExp     uint8             `json:"max_exp_time"`
	EPIC       bool              `json:"epic"`
	TsUnix     int64             `json:"segment_timestamp"`
	TsAgeS     float64           `json:"now_minus_ts_s"`
	SegID      uint16            `json:"segment_id"`
	MasterKey  string            `json:"master_key"`
	Signers    []c23SignerW      `json:"signers"`
	ASMTU      uint16            `json:"as_mtu"`
	History    []string          `json:"history,omitempty"` // long-lived extender: everything done with it before this call
	Err        string            `json:"error,omitempty"`
	Observed   map[string]any    `json:"observed,omitempty"`
	fault      c23FaultObs
}

// fixedSigners is the SignerGen handed to the extender.
type fixedSigners []beaconing.Signer

func (f fixedSigners) Generate(context.Context) ([]beaconing.Signer, error) { return f, nil }

// c23Verifier is a seg.Verifier written on crypto/ecdsa + the documented
// signature input; it resolves keys by subject key id.
type c23Verifier struct {
	keys map[string]*ecdsa.PublicKey
}

func (v c23Verifier) Verify(_ context.Context, m *cryptopb.SignedMessage, ad ...[]byte) (*signed.Message, error) {
	meta, err := beaconref.ParseSigned(m.HeaderAndBody)
	if err != nil {
		return nil, err
	}
	pub, ok := v.keys[string(meta.SKID)]
	if !ok {
		return nil, errors.New("unknown subject key id")
	}
	// the associated data is handed over in pieces; entry 0 = info and no earlier entries
	info := []byte{}
	for _, d := range ad {
		info = append(info, d...)
	}
	if err := beaconref.VerifyEntry(pub, info, []beaconref.RawEntry{{HeaderAndBody: m.HeaderAndBody, Signature: m.Signature}}, 0); err != nil {
		return nil, err
	}
	return &signed.Message{Body: meta.Body}, nil
}

// ---- generation ----

func c23IfID(rng *rand.Rand, used map[uint16]bool) uint16 {
	for {
		var v uint16
		switch rng.IntN(6) {
		case 0:
			v = []uint16{1, 2, 255, 256, 65534, 65535, 0x8000, 0x7fff}[rng.IntN(8)]
		default:
			v = uint16(1 + rng.IntN(65535))
		}
		if v != 0 && !used[v] {
			used[v] = true
			return v
		}
	}
}

func c23IA(rng *rand.Rand, used map[addr.IA]bool) addr.IA {
	for {
		var as uint64
		switch rng.IntN(3) {
		case 0:
			as = uint64(1 + rng.IntN(1<<31))
		case 1:
			as = 0xff00_0000_0000 + uint64(1+rng.IntN(0xffff))
		default:
			as = 1 + rng.Uint64()%(1<<48-1)
		}
		ia := addr.MustIAFrom(addr.ISD(1+rng.IntN(65535)), addr.AS(as))
		if !used[ia] {
			used[ia] = true
			return ia
		}
	}
}

func c23MaxExp(rng *rand.Rand) uint8 {
	switch rng.IntN(5) {
	case 0:
		return []uint8{0, 1, 63, 127, 254, 255}[rng.IntN(6)]
	default:
		return uint8(rng.IntN(256))
	}
}

// c23GenSigners draws 1..3 signer validity windows relative to ts and now.
// With adequate set, at least one signer covers [ts, now] and leaves room for
// the minimum hop lifetime.
func c23GenSigners(rng *rand.Rand, w *c23World, ts, now time.Time, adequate, thorough bool) []c23SignerCfg {
	n := 1 + rng.IntN(3)
	perm := rng.Perm(len(w.keys))
	out := make([]c23SignerCfg, 0, n)
	for i := 0; i < n; i++ {
		s := c23SignerCfg{key: w.keys[perm[i]]}
		switch rng.IntN(8) {
		case 0:
			s.notBefore = ts
		case 1:
			s.notBefore = ts.Add(-time.Second)
		case 2:
			s.notBefore = ts.Add(time.Duration(1+rng.IntN(7200)) * time.Second) // starts after the segment
		default:
			s.notBefore = ts.Add(-time.Duration(1+rng.IntN(90*24*3600)) * time.Second)
		}
		switch rng.IntN(10) {
		case 0, 1, 2:
			s.kind = "far"
			s.expiration = ts.Add(24*time.Hour + time.Duration(rng.Int64N(int64(60*24*time.Hour))))
		case 3, 4, 5:
			s.kind = "mid"
			s.expiration = ts.Add(c23Unit + time.Duration(rng.Int64N(int64(24*time.Hour-c23Unit))))
		case 6, 7:
			s.kind = "exact"
			e := uint8(rng.IntN(256))
			s.expiration = ts.Add(beaconref.ExpTimeDuration(e) + []time.Duration{0, 0, 1, -1, time.Second, -time.Second}[rng.IntN(6)])
		case 8:
			s.kind = "tiny"
			s.expiration = ts.Add(time.Duration(rng.Int64N(int64(c23Unit))))
			if rng.IntN(3) == 0 {
				s.expiration = ts.Add(c23Unit - 1)
			}
		default:
			s.kind = "expired"
			s.expiration = now.Add(-time.Duration(2+rng.IntN(3600)) * time.Second)
		}
		if thorough && rng.IntN(25) == 0 {
			s.kind = "now-boundary"
			s.expiration = now.Add(time.Duration(rng.Int64N(int64(40*time.Millisecond))) - 10*time.Millisecond)
		}
		// quick tier: stay away from the "expires now" boundary. (All random
		// numbers are drawn unconditionally so that the wall clock never
		// changes how much of the PRNG stream a case consumes.)
		shift := time.Duration(rng.IntN(1000)) * time.Millisecond
		if !thorough || s.kind != "now-boundary" {
			if d := s.expiration.Sub(now); d > -2*time.Second && d < 5*time.Second {
				s.expiration = now.Add(5*time.Second + shift)
			}
		}
		out = append(out, s)
	}
	fixIdx, fixNB, fixKind := rng.IntN(len(out)), rng.IntN(3600), rng.IntN(3)
	fixExtra := time.Duration(rng.Int64N(int64(24 * time.Hour)))
	if adequate {
		ok := false
		for _, s := range out {
			if c23Covers(s, ts, now.Add(5*time.Second)) && !s.expiration.Before(ts.Add(c23Unit)) {
				ok = true
			}
		}
		if !ok {
			s := &out[fixIdx]
			s.notBefore = ts.Add(-time.Duration(fixNB) * time.Second)
			lo := ts.Add(c23Unit)
			if m := now.Add(5 * time.Second); m.After(lo) {
				lo = m
			}
			switch fixKind {
			case 0:
				s.kind = "adequate-min"
				s.expiration = lo
			case 1:
				s.kind = "adequate-mid"
				s.expiration = lo.Add(fixExtra)
			default:
				s.kind = "adequate-far"
				s.expiration = lo.Add(24*time.Hour + fixExtra)
			}
		}
	}
	return out
}

func c23Covers(s c23SignerCfg, ts, now time.Time) bool {
	return !s.notBefore.After(ts) && !s.expiration.Before(now)
}

// c23ExpectOK: in the well-formed domain (consistent ingress/egress, known
// interfaces) extension can succeed iff some signer covers [ts, now] and
// expires no earlier than the minimum hop lifetime after ts.
func c23ExpectOK(signers []c23SignerCfg, ts, now time.Time) bool {
	for _, s := range signers {
		if c23Covers(s, ts, now) && !s.expiration.Before(ts.Add(c23Unit)) {
			return true
		}
	}
	return false
}

type c23Node struct {
	ia      addr.IA
	master  c23Master
	infos   map[uint16]ifstate.InterfaceInfo
	ingress uint16
	egress  uint16
	peers   []uint16
	mtu     uint16
	// ridReloaded (histories only): interfaces whose remote interface id was
	// changed by an in-place topology reload since the id was introduced.
	ridReloaded map[uint16]bool
	// mustFail (histories only): the call is outside the domain in which an
	// entry can satisfy the statement (e.g. egress interface not in the
	// topology) and has to fail; the value names the reason.
	mustFail string
}

type c23Pre struct {
	info   []byte
	raws   []beaconref.RawEntry
	sigmas [][6]byte
}

func (n *c23Node) extender(signers []c23SignerCfg, maxExp uint8, epic bool) *beaconing.DefaultExtender {
	ss := c23TrustSigners(n.ia, signers)
	return &beaconing.DefaultExtender{
		IA:                   n.ia,
		SignerGen:            ss,
		MAC:                  n.master.mac,
		Intfs:                ifstate.NewInterfaces(n.infos, ifstate.Config{}),
		MTU:                  n.mtu,
		MaxExpTime:           func() uint8 { return maxExp },
		Task:                 "verif",
		StaticInfo:           func() *beaconing.StaticInfoCfg { return nil },
		DiscoveryInformation: func() *discovery.Extension { return nil },
		EPIC:                 epic,
	}
}

func c23InfoStr(inf ifstate.InterfaceInfo) string {
	return fmt.Sprintf("%s#%d mtu=%d %s", inf.IA, inf.RemoteID, inf.MTU, inf.LinkType)
}

func prefixBucket(p int) string {
	switch {
	case p == 0:
		return "0"
	case p <= 3:
		return "1-3"
	default:
		return "4-9"
	}
}

type c23Ctx struct {
	r           *mon.Run
	w           *c23World
	thorough    bool
	mainSamples atomic.Int32
	obsPrinted  atomic.Int32
}

func (c *c23Ctx) witness(chain int, call string, pos int, n *c23Node, in, eg uint16, peers []uint16, maxExp uint8,
	epic bool, ps *seg.PathSegment, signers []c23SignerCfg, now time.Time) *c23Witness {
	w := &c23Witness{
		Replay: fmt.Sprintf("deterministic per seed: re-run C23 with --seed %d --tier %s and look for chain %d", c.r.Seed, c.r.Tier, chain),
		Chain:  chain, Call: call, Pos: pos, Local: n.ia.String(), Ingress: in, Egress: eg, Peers: peers,
		MaxExp: maxExp, EPIC: epic, TsUnix: ps.Info.Timestamp.Unix(), TsAgeS: now.Sub(ps.Info.Timestamp).Seconds(),
		SegID: ps.Info.SegmentID, MasterKey: mon.Hex(n.master.raw), Interfaces: map[string]string{},
	}
	for id, inf := range n.infos {
		w.Interfaces[fmt.Sprint(id)] = c23InfoStr(inf)
	}
	w.ASMTU = n.mtu
	for _, s := range signers {
		w.Signers = append(w.Signers, c23SignerW{
			Kind: s.kind, NotBeforeRelTs: s.notBefore.Sub(ps.Info.Timestamp).Seconds(),
			ExpRelTs: s.expiration.Sub(ps.Info.Timestamp).Seconds(), ExpRelNow: s.expiration.Sub(now).Seconds(),
			Curve: s.key.Priv.Curve.Params().Name,
		})
		if s.fault != nil && s.fault.mode != c23FaultNone {
			w.Signers[len(w.Signers)-1].Fault = c23FaultNames[s.fault.mode]
		}
	}
	return w
}

// judge checks the entry that a successful Extend appended. It returns the
// entry's raw signed part and hop MAC for the running chain, ok=false if the
// entry is too broken to continue from.
//
// kp is the prefix of the violation keys: "C23:" for calls on a fresh extender,
// "C23:history:" / "C23:after-reload:" for calls on a long-lived extender (see
// c23hist.go). n is the oracle's view of the AS at the time of the call.
func (c *c23Ctx) judge(kp string, wit *c23Witness, ps *seg.PathSegment, pre c23Pre, n *c23Node, in, eg uint16,
	peers []uint16, maxExp uint8, signers []c23SignerCfg, cls string) (beaconref.RawEntry, [6]byte, bool) {

	r := c.r
	obs := map[string]any{}
	wit.Observed = obs
	var none [6]byte
	idx := len(pre.raws)
	pb := seg.PathSegmentToPB(ps)
	if len(pb.AsEntries) != idx+1 {
		r.Violation(kp+"entry-count", fmt.Sprintf("successful Extend left %d entries, expected %d", len(pb.AsEntries), idx+1), wit)
		return beaconref.RawEntry{}, none, false
	}
	if !bytes.Equal(pb.SegmentInfo, pre.info) {
		r.Violation(kp+"info-changed", "segment information changed by Extend", wit)
	}
	for i := 0; i < idx; i++ {
		s := pb.AsEntries[i].Signed
		if s == nil || !bytes.Equal(s.HeaderAndBody, pre.raws[i].HeaderAndBody) || !bytes.Equal(s.Signature, pre.raws[i].Signature) {
			r.Violation(kp+"earlier-entries-modified", fmt.Sprintf("earlier entry %d changed by Extend", i), wit)
			return beaconref.RawEntry{}, none, false
		}
	}
	last := pb.AsEntries[idx].Signed
	if last == nil {
		r.Violation(kp+"signature", "new entry carries no signed message", wit)
		return beaconref.RawEntry{}, none, false
	}
	raw := beaconref.RawEntry{HeaderAndBody: last.HeaderAndBody, Signature: last.Signature}
	meta, err := beaconref.ParseSigned(last.HeaderAndBody)
	if err != nil {
		r.Violation(kp+"signature", "new entry's signed message does not parse: "+err.Error(), wit)
		return raw, none, false
	}
	var body cppb.ASEntrySignedBody
	if err := proto.Unmarshal(meta.Body, &body); err != nil || body.HopEntry == nil || body.HopEntry.HopField == nil {
		r.Violation(kp+"signature", fmt.Sprintf("signed body is not an AS entry with a hop field: %v", err), wit)
		return raw, none, false
	}
	obs["signed_local"] = addr.IA(body.IsdAs).String()
	obs["signed_next"] = addr.IA(body.NextIsdAs).String()

	// -- names the local AS and the neighbour behind the egress interface
	if addr.IA(body.IsdAs) != n.ia {
		r.Violation(kp+"local", fmt.Sprintf("entry names %s as local AS, extender is %s", addr.IA(body.IsdAs), n.ia), wit)
	}
	var wantNext addr.IA
	egKnown := true
	if eg != 0 {
		var egInfo ifstate.InterfaceInfo
		egInfo, egKnown = n.infos[eg]
		wantNext = egInfo.IA
	}
	if !egKnown {
		r.Violation(kp+"next", fmt.Sprintf("entry names %s as next AS, but egress %d is not an interface of the topology at the time of the call",
			addr.IA(body.NextIsdAs), eg), wit)
	} else if addr.IA(body.NextIsdAs) != wantNext {
		r.Violation(kp+"next", fmt.Sprintf("entry names %s as next AS, neighbour behind egress %d is %s", addr.IA(body.NextIsdAs), eg, wantNext), wit)
	}
	// -- MTUs and peer entries name what the topology says about the interfaces
	c.judgeTopo(kp, wit, &body, n, in, eg, peers)

	// -- signed over info and all earlier entries and signatures, by one of the configured signers
	// The signer used is determined from the entry itself: the candidate under
	// whose public key the signature verifies (the candidates of one call have
	// distinct keys). The key id in the signed header has to name the same signer.
	var used, named *c23SignerCfg
	entries := append(append([]beaconref.RawEntry(nil), pre.raws...), raw)
	var namedErr error
	verifying := 0
	for i := range signers {
		verr := beaconref.VerifyEntry(&signers[i].key.Priv.PublicKey, pre.info, entries, idx)
		if verr == nil {
			verifying++
			used = &signers[i]
		}
		if bytes.Equal(signers[i].key.SKID, meta.SKID) {
			named, namedErr = &signers[i], verr
		}
	}
	if verifying != 1 {
		used = named // none (reported below) or, never seen, several: fall back to the key id
	}
	if used != nil && used != named {
		obs["signer_by_signature"] = used.kind
		r.Event("signer_by_signature_differs_from_key_id")
	}
	if named == nil {
		r.Violation(kp+"unknown-signer", fmt.Sprintf("entry signed with key id %x which is none of the configured signers", meta.SKID), wit)
	} else {
		obs["signer_used"] = named.kind
		if namedErr != nil {
			r.Violation(kp+"signature", "independent verification over info + earlier entries and signatures failed: "+namedErr.Error(), wit)
		} else {
			r.Event("sig_verified")
			if verifying == 1 && len(signers) > 1 {
				r.Event("signer_identified_among_several")
			}
		}
		used := named
		// cross-check through pkg/segment's own associated-data plumbing
		v := c23Verifier{keys: map[string]*ecdsa.PublicKey{string(used.key.SKID): &used.key.Priv.PublicKey}}
		if err := ps.VerifyASEntry(context.Background(), v, idx); err != nil {
			r.Violation(kp+"verify-asentry", "PathSegment.VerifyASEntry with an independent ECDSA verifier failed: "+err.Error(), wit)
		}
	}

	// -- hop field: requested interfaces, MAC under beta_idx
	hf := body.HopEntry.HopField
	betas := beaconref.BetaChain(ps.Info.SegmentID, pre.sigmas)
	beta := betas[idx]
	tsSec := uint32(ps.Info.Timestamp.Unix())
	ok := true
	if hf.Ingress != uint64(in) || hf.Egress != uint64(eg) {
		r.Violation(kp+"hop-interfaces", fmt.Sprintf("hop field is for %d>%d, extension was for %d>%d", hf.Ingress, hf.Egress, in, eg), wit)
	}
	var sigma [6]byte
	if len(hf.Mac) != 6 || hf.ExpTime > 255 || hf.Ingress > 65535 || hf.Egress > 65535 {
		r.Violation(kp+"hop-mac", fmt.Sprintf("hop field not encodable: mac %x exp_time %d", hf.Mac, hf.ExpTime), wit)
		return raw, none, false
	}
	copy(sigma[:], hf.Mac)
	want := beaconref.HopMAC(n.master.ref, beta, tsSec, uint8(hf.ExpTime), uint16(hf.Ingress), uint16(hf.Egress))
	obs["hop_mac"], obs["ref_hop_mac"], obs["beta"], obs["exp_time"] = mon.Hex(sigma[:]), mon.Hex(want[:]), beta, hf.ExpTime
	if sigma != want {
		r.Violation(kp+"hop-mac", fmt.Sprintf("hop MAC %x, reference AES-CMAC under beta_%d=%#04x gives %x", sigma, idx, beta, want), wit)
		ok = false
	}
	r.Event("hop_mac_checked")

	// -- peer hop fields: MAC under beta_{idx+1}
	betaNext := beaconref.NextBeta(beta, sigma)
	exps := []uint32{hf.ExpTime}
	for j, pe := range body.PeerEntries {
		ph := pe.GetHopField()
		if ph == nil || len(ph.Mac) != 6 || ph.ExpTime > 255 || ph.Ingress > 65535 || ph.Egress > 65535 {
			r.Violation(kp+"peer-mac", fmt.Sprintf("peer entry %d has no encodable hop field", j), wit)
			continue
		}
		var pm [6]byte
		copy(pm[:], ph.Mac)
		pw := beaconref.HopMAC(n.master.ref, betaNext, tsSec, uint8(ph.ExpTime), uint16(ph.Ingress), uint16(ph.Egress))
		if pm != pw {
			obs["peer_mac"], obs["ref_peer_mac"], obs["beta_next"] = mon.Hex(pm[:]), mon.Hex(pw[:]), betaNext
			r.Violation(kp+"peer-mac", fmt.Sprintf("peer entry %d (ingress %d) MAC %x, reference under beta_%d=%#04x gives %x",
				j, ph.Ingress, pm, idx+1, betaNext, pw), wit)
		}
		exps = append(exps, ph.ExpTime)
		r.Event("peer_mac_checked")
	}
	obs["peer_entries"] = len(body.PeerEntries)

	// -- hop expiry <= configured maximum and <= expiry of the signer used
	bound := "max"
	for j, e := range exps {
		what := "hop field"
		if j > 0 {
			what = fmt.Sprintf("peer hop field %d", j-1)
		}
		if e > uint32(maxExp) {
			r.Violation(kp+"exp-exceeds-max", fmt.Sprintf("%s ExpTime %d exceeds configured maximum %d", what, e, maxExp), wit)
		}
		if used != nil {
			if exp := beaconref.HopExpiry(ps.Info.Timestamp, uint8(e)); exp.After(used.expiration) {
				key := kp + "exp-exceeds-signer"
				if wit.fault.fired {
					key = kp + "signer-fault:expiry-exceeds-signer-used"
				}
				r.Violation(key, fmt.Sprintf("%s ExpTime %d expires %v after the signer used (signer expiry - ts = %v, hop lifetime %v)",
					what, e, exp.Sub(used.expiration), used.expiration.Sub(ps.Info.Timestamp), beaconref.ExpTimeDuration(uint8(e))), wit)
			}
		}
	}
	tight := "n/a"
	if used != nil {
		lim := maxExp
		if m, has := beaconref.MaxExpTimeWithin(used.expiration.Sub(ps.Info.Timestamp)); has && m < maxExp {
			lim, bound = m, "signer"
		} else if has && m == maxExp {
			bound = "both"
		}
		tight = "slack"
		if uint32(lim) == hf.ExpTime {
			tight = "tight"
		}
		r.Event("exp_bound_by_" + bound)
	}

	// -- the in-memory entry is the signed one, and the result is a parsable beacon/segment
	ent := ps.ASEntries[idx]
	if ent.Local != addr.IA(body.IsdAs) || ent.Next != addr.IA(body.NextIsdAs) ||
		uint64(ent.HopEntry.HopField.ConsIngress) != hf.Ingress || uint64(ent.HopEntry.HopField.ConsEgress) != hf.Egress ||
		uint32(ent.HopEntry.HopField.ExpTime) != hf.ExpTime || ent.HopEntry.HopField.MAC != sigma ||
		len(ent.PeerEntries) != len(body.PeerEntries) {
		r.Violation(kp+"struct-mismatch", "in-memory AS entry differs from what was signed", wit)
	}
	var perr error
	if eg == 0 {
		_, perr = seg.SegmentFromPB(pb)
	} else {
		_, perr = seg.BeaconFromPB(pb)
	}
	if perr != nil {
		r.Violation(kp+"unparsable", "result of a successful Extend is rejected by the segment parser: "+perr.Error(), wit)
	}
	peersCls := "0"
	switch {
	case len(body.PeerEntries) == 1:
		peersCls = "1"
	case len(body.PeerEntries) > 1:
		peersCls = "2+"
	}
	r.Class(fmt.Sprintf("%s/bound=%s/%s/peers=%s", cls, bound, tight, peersCls))
	if r.WantSample() && idx >= 2 && len(body.PeerEntries) > 0 {
		// 4 samples from the main phase, the rest from calls after a reload
		if (kp == "C23:" && c.mainSamples.Add(1) <= 4) || kp == "C23:after-reload:" {
			r.Sample(wit)
		}
	}
	return raw, sigma, ok
}

// judgeTopo compares what the signed entry says about the AS and its interfaces
// against the topology n.infos: AS MTU, MTU of the ingress interface, and per
// peer entry the neighbour, its interface id and the MTU of the peering
// interface. A peer entry is demanded for every requested peer interface that
// is in the topology with a remote interface id; none is allowed for an
// interface that was not requested or is not in the topology; interfaces
// without remote interface id are not judged either way.
func (c *c23Ctx) judgeTopo(kp string, wit *c23Witness, body *cppb.ASEntrySignedBody, n *c23Node, in, eg uint16, peers []uint16) {
	r := c.r
	if body.Mtu != uint32(n.mtu) {
		c.obsTopo(kp+"mtu", fmt.Sprintf("entry carries AS MTU %d, the extender is configured with %d", body.Mtu, n.mtu))
	}
	if inInfo, known := n.infos[in]; in == 0 || known {
		if body.HopEntry.IngressMtu != uint32(inInfo.MTU) {
			c.obsTopo(kp+"ingress-mtu", fmt.Sprintf("hop entry carries ingress MTU %d, ingress interface %d has MTU %d",
				body.HopEntry.IngressMtu, in, inInfo.MTU))
		}
		r.Event("ingress_mtu_checked")
	}
	requested := map[uint16]bool{}
	for _, id := range peers {
		requested[id] = true
	}
	seen := map[uint16]bool{}
	for j, pe := range body.PeerEntries {
		ph := pe.GetHopField()
		if ph == nil || ph.Ingress > 65535 {
			continue // reported as peer-mac
		}
		id := uint16(ph.Ingress)
		info, known := n.infos[id]
		switch {
		case !requested[id]:
			c.obsTopo(kp+"peer-unexpected", fmt.Sprintf("peer entry %d is for interface %d which was not requested as peer", j, id))
			continue
		case !known:
			c.obsTopo(kp+"peer-unexpected", fmt.Sprintf("peer entry %d is for interface %d which is not in the topology at the time of the call", j, id))
			continue
		case seen[id]:
			c.obsTopo(kp+"peer-unexpected", fmt.Sprintf("two peer entries for interface %d", id))
			continue
		}
		seen[id] = true
		if ph.Egress != uint64(eg) {
			c.obsTopo(kp+"peer-hop-interfaces", fmt.Sprintf("peer hop field is for %d>%d, extension was for egress %d", ph.Ingress, ph.Egress, eg))
		}
		if addr.IA(pe.PeerIsdAs) != info.IA {
			c.obsTopo(kp+"peer", fmt.Sprintf("peer entry for interface %d names %s, the neighbour behind it is %s", id, addr.IA(pe.PeerIsdAs), info.IA))
		}
		if info.RemoteID != 0 && pe.PeerInterface != uint64(info.RemoteID) {
			c.obsTopo(kp+"peer-interface", fmt.Sprintf("peer entry for interface %d names remote interface %d, the topology says %s#%d",
				id, pe.PeerInterface, info.IA, info.RemoteID))
		}
		if pe.PeerMtu != uint32(info.MTU) {
			c.obsTopo(kp+"peer-mtu", fmt.Sprintf("peer entry for interface %d carries MTU %d, the interface has MTU %d", id, pe.PeerMtu, info.MTU))
		}
		r.Event("peer_entry_checked")
	}
	for _, id := range peers {
		info, known := n.infos[id]
		if !known || info.RemoteID == 0 || info.IA.IsWildcard() {
			if !seen[id] {
				r.Event("peer_skipped_as_expected")
			}
			continue
		}
		if seen[id] {
			continue
		}
		key := kp + "peer-missing"
		what := fmt.Sprintf("no peer entry for requested peer interface %d (%s#%d in the topology)", id, info.IA, info.RemoteID)
		if n.ridReloaded[id] {
			key = kp + "peer-interface"
			what += "; its remote interface id was set by a topology reload"
		}
		c.obsTopo(key, what)
	}
}

// obsTopo records a difference between the entry and the topology that the
// statement of C23 does not speak about (MTUs, peer entries' neighbour, remote
// interface id, presence): an observation, never a verdict.
func (c *c23Ctx) obsTopo(key, what string) {
	k := strings.TrimPrefix(strings.TrimPrefix(strings.TrimPrefix(key, "C23:"), "after-reload:"), "history:")
	c.r.Event("obs_topo_differs/" + k)
	if c.obsPrinted.Add(1) <= 5 {
		fmt.Printf("OBSERVATION c23 (%s): %s\n", key, what)
	}
}

func (c *c23Ctx) runChain(rng *rand.Rand, chain int) {
	r, w := c.r, c.w
	m := 1 + rng.IntN(10) // entries in this chain: prefixes of 0..9 earlier entries
	terminate := rng.IntN(3) == 0 && m >= 2
	now := time.Now()
	ages := []time.Duration{0, time.Second, 30 * time.Second, 5 * time.Minute, time.Hour, 6 * time.Hour, 23 * time.Hour}
	age := ages[rng.IntN(len(ages))] + time.Duration(rng.IntN(1000))*time.Millisecond
	if rng.IntN(20) == 0 {
		age = -time.Duration(3+rng.IntN(60)) * time.Second // timestamp slightly in the future
	}
	segID := uint16(rng.IntN(1 << 16))
	if rng.IntN(8) == 0 {
		segID = []uint16{0, 1, 0xffff, 0x8000}[rng.IntN(4)]
	}
	ps, err := seg.CreateSegment(now.Add(-age), segID)
	if err != nil {
		r.Inconclusive("create-segment")
		return
	}
	ts := ps.Info.Timestamp

	// topology along the chain
	usedIA := map[addr.IA]bool{}
	ias := make([]addr.IA, m+1)
	for i := range ias {
		ias[i] = c23IA(rng, usedIA)
	}
	nodes := make([]*c23Node, m)
	for i := range nodes {
		nodes[i] = &c23Node{ia: ias[i], master: w.masters[rng.IntN(len(w.masters))], infos: map[uint16]ifstate.InterfaceInfo{},
			mtu: uint16(1 + rng.IntN(65535))}
	}
	usedIf := make([]map[uint16]bool, m)
	for i := range usedIf {
		usedIf[i] = map[uint16]bool{}
	}
	for i := 0; i < m; i++ {
		if i > 0 {
			nodes[i].ingress = c23IfID(rng, usedIf[i])
		}
		if !(terminate && i == m-1) {
			nodes[i].egress = c23IfID(rng, usedIf[i])
		}
	}
	for i, n := range nodes {
		if n.ingress != 0 {
			n.infos[n.ingress] = ifstate.InterfaceInfo{ID: n.ingress, IA: ias[i-1], LinkType: topology.Parent,
				RemoteID: nodes[i-1].egress, MTU: uint16(1 + rng.IntN(9000))}
		}
		if n.egress != 0 {
			rem := uint16(1 + rng.IntN(65535))
			if i+1 < m {
				rem = nodes[i+1].ingress
			}
			n.infos[n.egress] = ifstate.InterfaceInfo{ID: n.egress, IA: ias[i+1], LinkType: topology.Child,
				RemoteID: rem, MTU: uint16(1 + rng.IntN(9000))}
		}
		// peer set: valid peers, peers whose remote interface is unknown, ids not in the topology
		np := []int{0, 0, 1, 1, 2, 3, 5}[rng.IntN(7)]
		for p := 0; p < np; p++ {
			id := c23IfID(rng, usedIf[i])
			n.peers = append(n.peers, id)
			switch rng.IntN(6) {
			case 0: // not in the topology
			case 1: // remote interface id not learned yet
				n.infos[id] = ifstate.InterfaceInfo{ID: id, IA: c23IA(rng, usedIA), LinkType: topology.Peer, MTU: 1400}
			default:
				n.infos[id] = ifstate.InterfaceInfo{ID: id, IA: c23IA(rng, usedIA), LinkType: topology.Peer,
					RemoteID: uint16(1 + rng.IntN(65535)), MTU: uint16(1 + rng.IntN(9000))}
			}
		}
	}

	pre := c23Pre{info: append([]byte(nil), ps.Info.Raw...)}
	for pos, n := range nodes {
		kind := "propagate"
		switch {
		case pos == 0:
			kind = "originate"
		case n.egress == 0:
			kind = "terminate"
		}
		cls := kind + "/prefix=" + prefixBucket(pos)

		// --- inconsistent ingress/egress for this position: must fail (on copies)
		type probe struct {
			name   string
			in, eg uint16
		}
		var probes []probe
		if pos == 0 {
			probes = []probe{{"first-with-nonzero-ingress", c23IfID(rng, map[uint16]bool{}), n.egress}, {"both-zero", 0, 0}}
			// make the non-zero ingress a perfectly known interface so that only the position is wrong
		} else {
			probes = []probe{{"later-with-zero-ingress", 0, n.egress}, {"both-zero", 0, 0}}
			if n.egress == 0 {
				probes[0].eg = c23IfID(rng, map[uint16]bool{})
			}
		}
		for _, pr := range probes {
			if rng.IntN(3) != 0 {
				continue
			}
			pn := *n
			pn.infos = map[uint16]ifstate.InterfaceInfo{}
			for k, v := range n.infos {
				pn.infos[k] = v
			}
			for _, id := range []uint16{pr.in, pr.eg} {
				if _, known := pn.infos[id]; id != 0 && !known {
					pn.infos[id] = ifstate.InterfaceInfo{ID: id, IA: c23IA(rng, usedIA), LinkType: topology.Child,
						RemoteID: 7, MTU: 1400}
				}
			}
			tnow := time.Now()
			signers := c23GenSigners(rng, w, ts, tnow, true, c.thorough)
			maxExp := c23MaxExp(rng)
			cp := ps.ShallowCopy()
			wit := c.witness(chain, "probe:"+pr.name, pos, &pn, pr.in, pr.eg, n.peers, maxExp, false, cp, signers, tnow)
			var perr error
			pv, stack := mon.Try(func() {
				perr = pn.extender(signers, maxExp, false).Extend(context.Background(), cp, pr.in, pr.eg, n.peers)
			})
			r.Eval(1)
			if pv != nil {
				r.Violation("C23:panic:"+mon.PanicSite(stack), fmt.Sprintf("Extend panicked: %v\n%s", pv, stack), wit)
				continue
			}
			if perr == nil {
				r.Class("probe/" + pr.name + "/accepted")
				r.Violation("C23:accepted-inconsistent:"+pr.name, fmt.Sprintf("Extend(ingress=%d, egress=%d) at position %d succeeded", pr.in, pr.eg, pos), wit)
			} else {
				r.Class("probe/" + pr.name + "/rejected/" + kind)
				r.Event("probe_rejected")
				if len(cp.ASEntries) != pos {
					r.Event("probe_rejected_but_extended")
				}
			}
		}

		// --- consistent extension, arbitrary signer windows and MaxExpTime (on a copy)
		nVar := 1
		if rng.IntN(2) == 0 {
			nVar = 2
		}
		for v := 0; v < nVar; v++ {
			c.extendOnce(rng, chain, "variant", pos, n, ps.ShallowCopy(), pre, cls, false)
		}
		// --- the extension the chain continues from: adequate signer guaranteed
		raw, sigma, ok := c.extendOnce(rng, chain, "extend", pos, n, ps, pre, cls, true)
		if !ok {
			return
		}
		pre.raws = append(pre.raws, raw)
		pre.sigmas = append(pre.sigmas, sigma)
	}
}

// extendOnce performs one consistent Extend call on a fresh extender and judges it.
func (c *c23Ctx) extendOnce(rng *rand.Rand, chain int, call string, pos int, n *c23Node, ps *seg.PathSegment,
	pre c23Pre, cls string, adequate bool) (beaconref.RawEntry, [6]byte, bool) {
	return c.extendWith(rng, nil, chain, call, pos, n, ps, pre, cls, adequate)
}

// extendWith performs one consistent Extend call and judges it. With h == nil
// a fresh extender is built for the call; otherwise the long-lived extender of
// the history h is reconfigured (signers, MaxExpTime, EPIC) and reused, and n
// is the oracle's snapshot of the AS at the time of the call.
func (c *c23Ctx) extendWith(rng *rand.Rand, h *c23Hist, chain int, call string, pos int, n *c23Node, ps *seg.PathSegment,
	pre c23Pre, cls string, adequate bool) (beaconref.RawEntry, [6]byte, bool) {

	r := c.r
	ts := ps.Info.Timestamp
	maxExp := c23MaxExp(rng)
	epic := rng.IntN(4) == 0
	peers := append([]uint16(nil), n.peers...)
	tgen := time.Now()
	signers := c23GenSigners(rng, c.w, ts, tgen, adequate, c.thorough)
	// fault injection at the signing seam (c23fault.go): everywhere except in the
	// call a chain of the main phase continues from
	c23PlanFaults(rng, signers, ts, tgen, h != nil || call != "extend")
	wit := c.witness(chain, call, pos, n, n.ingress, n.egress, peers, maxExp, epic, ps, signers, tgen)
	kp := "C23:"
	var ext *beaconing.DefaultExtender
	if h == nil {
		ext = n.extender(signers, maxExp, epic)
	} else {
		kp = h.keyPrefix()
		ext = h.configure(n, signers, maxExp, epic)
		wit.History = h.history()
	}
	var err error
	t0 := time.Now()
	pv, stack := mon.Try(func() {
		err = ext.Extend(context.Background(), ps, n.ingress, n.egress, peers)
	})
	t1 := time.Now()
	r.Eval(1)
	var none [6]byte
	fo := c23ObserveFaults(signers, ts, t0)
	wit.fault = fo
	for i, s := range signers {
		wit.Signers[i].SignCalls, wit.Signers[i].SignFails = s.fault.calls.Load(), s.fault.fails.Load()
	}
	phase := "main"
	if h != nil {
		phase = "history"
	}
	if fo.armed {
		r.Event("signer_fault_armed_" + phase)
		c.faultClass("signer-fault/" + fo.scenario) // which signers fail x how, whatever the outcome
	}
	if fo.fired {
		r.Event("signer_fault_fired_" + phase)
	}
	if pv != nil {
		key := kp + "panic:"
		if fo.fired {
			key = kp + "signer-fault:panic:"
		}
		r.Violation(key+mon.PanicSite(stack), fmt.Sprintf("Extend panicked: %v\n%s", pv, stack), wit)
		return beaconref.RawEntry{}, none, false
	}
	if n.mustFail != "" && err != nil {
		wit.Err = err.Error()
		r.Class(cls + "/rejected/" + n.mustFail)
		r.Event("history_rejected_" + n.mustFail)
		return beaconref.RawEntry{}, none, false
	}
	if err != nil && fo.fired {
		// the key backend refused to sign during this call: giving up is acceptable
		// (the statement does not demand a retry or a fallback), whatever else holds
		wit.Err = err.Error()
		c.faultClass("signer-fault/" + fo.scenario + "/error")
		r.Event("signer_fault_extend_err")
		if !strings.Contains(err.Error(), errC23KeyBackend.Error()) {
			r.Event("signer_fault_error_not_reported") // observation only
		}
		if len(ps.ASEntries) != pos {
			r.Event("error_but_extended")
		}
		return beaconref.RawEntry{}, none, false
	}
	exp0, exp1 := c23ExpectOK(signers, ts, t0), c23ExpectOK(signers, ts, t1)
	if exp0 != exp1 {
		r.Inconclusive("time-bracket")
	}
	if err != nil {
		wit.Err = err.Error()
		switch {
		case exp0 != exp1:
		case exp0:
			r.Violation(kp+"unexpected-error", fmt.Sprintf("consistent extension (%s, ingress %d, egress %d) with a covering, "+
				"long-enough signer failed: %v", cls, n.ingress, n.egress, err), wit)
		default:
			reason := "no-covering-signer"
			for _, s := range signers {
				if c23Covers(s, ts, t0) {
					reason = "signer-shorter-than-min-hop-lifetime"
				}
			}
			r.Class(cls + "/error/" + reason)
			r.Event("extend_err_expected")
		}
		if len(ps.ASEntries) != pos {
			r.Event("error_but_extended")
		}
		return beaconref.RawEntry{}, none, false
	}
	r.Event("extend_ok")
	if h != nil {
		r.Event("history_extend_ok")
	}
	switch {
	case fo.fired:
		// signing failed at least once and Extend still delivered an entry (retry or
		// fallback to another signer): judged like any other entry
		c.faultClass("signer-fault/" + fo.scenario + "/ok-after-failed-sign")
		r.Event("signer_fault_extend_ok_after_failed_sign")
	case fo.armed:
		c.faultClass("signer-fault/" + fo.scenario + "/ok-fault-not-reached")
		r.Event("signer_fault_extend_ok_not_reached")
	}
	// success: every clause of the statement is judged on the entry, whatever the expectation was
	// (a success without adequate signer necessarily breaks the expiry bound or uses an unknown key)
	return c.judge(kp, wit, ps, pre, n, n.ingress, n.egress, peers, maxExp, signers, cls)
}

func checkC23(r *mon.Run) {
	r.Rule = "chains of 1..10 real DefaultExtender.Extend calls (origination, propagation, termination) over generated " +
		"line topologies: random ISD-AS, interface ids (incl. 1/65535), 0..5 peers (valid / remote id unknown / not in topology), " +
		"MaxExpTime 0..255, EPIC on/off, AS master keys of several lengths (real scrypto.HFMacFactory), 1..3 ECDSA P-256/384/521 " +
		"trust.Signers with validity windows relative to the segment timestamp (age 0..23 h, sometimes in the future): far, " +
		"mid, exactly n*337.5 s (+-1 ns/1 s), shorter than one unit, expired, not yet valid; at every position extra calls on " +
		"copies: inconsistent ingress/egress (must fail) and arbitrary signer windows. Every appended entry is judged on its wire " +
		"form by an independent AES-CMAC/hop-MAC/beta chain, independent ECDSA verification over the documented signature " +
		"input, and the documented ExpTime arithmetic. class = position kind x prefix length bucket x governing bound x " +
		"tightness x peer count, or probe kind x outcome, or error reason. History phase: ONE long-lived DefaultExtender on " +
		"ONE ifstate.Interfaces extends beacons (originate/propagate/terminate on fresh or prefix beacons) over 2..4 epochs; between " +
		"epochs the topology is reloaded in place through Interfaces.Update (interfaces re-homed to another ISD-AS, other remote " +
		"interface id / set / unset, other MTU, link type parent/child/peer/core changed so that the interface changes role, " +
		"removed, re-added, added), between calls the AS key, AS MTU, MaxExpTime, signers, EPIC, StaticInfo and Task change; the " +
		"same oracle judges every entry against the topology map handed to the last Update and the other state current at " +
		"the call (keys C23:history:* before, C23:after-reload:* after the first reload); class reload/<role>-<change> = what " +
		"happened to the ingress/egress/peer interface since this extender used it last. Fault dimension (all calls of both " +
		"phases except the call a main-phase chain continues from): every signer's private key is wrapped in a crypto.Signer whose " +
		"Sign, PRNG-chosen per call and signer, works, always fails (key backend unavailable) or fails on its first call only; " +
		"aimed at the preferred (latest-expiring covering) signer only, all signers, all but the preferred, or drawn " +
		"independently; a failing Extend after an injected signing error is accepted, a succeeding one is judged in full with " +
		"the signer used = the candidate whose public key verifies the entry's signature (keys C23:signer-fault:*); class " +
		"signer-fault/<which signers fail>/<how>[/<outcome>]"
	r.Assumptions = []string{
		"hop-field key = PBKDF2-HMAC-SHA256(master, \"Derive OF Key\", 1000, 16) (constants of the deployed key derivation; PBKDF2 itself from the Go standard library)",
		"well-formed domain for 'must succeed': known interfaces with non-wildcard remote ISD-AS, previous entry's Next = local AS, some signer covers [timestamp, now] and outlives timestamp + 337.5 s",
		"time.Now() inside Extend is handled by the bracket rule; quick tier keeps signer expirations >= 2 s away from now",
		"choice among several covering signers and tightness of ExpTime are recorded, not judged (the statement only bounds expiry by the signer actually used)",
		"ECDSA signatures are randomized, so signature bytes differ between runs of the same seed; case structure does not",
		"'neighbour behind the interface' is read from the topology for peer entries as well: a peer entry names ISD-AS, remote interface id and MTU of its peering interface, the hop entry the MTU of the ingress interface, the entry the configured AS MTU; a peer entry is demanded for every requested peer interface that the topology knows with a remote interface id, none may exist for an interface outside the request or the topology; peers without remote interface id are not judged",
		"fault dimension: an Extend that returns an error after one of its Sign calls failed is never judged (the statement does not demand retry or fallback); if no injected fault was reached the usual expectation applies; 'preferred signer' (latest-expiring covering one) only aims the faults and names the class, it decides nothing; the candidates of one call have distinct keys, so the signature identifies the signer used",
		"history phase: the topology current at a call is the map handed to ifstate.NewInterfaces / the last Interfaces.Update before the call (nothing is read back from the implementation); an egress interface that the last reload removed must make the extension fail; StaticInfo, EPIC and Task are varied but their output is not judged",
	}
	if err := beaconref.SelfTest(); err != nil {
		fmt.Fprintln(os.Stderr, "reference self-test failed:", err)
		os.Exit(2)
	}
	world, err := c23NewWorld(r.Rand("c23-world"))
	if err != nil {
		fmt.Fprintln(os.Stderr, "fixtures:", err)
		os.Exit(2)
	}
	c := &c23Ctx{r: r, w: world, thorough: r.Thorough()}
	const workers = 8
	chains := r.Pick(1800, 44000) // +12 % / +33 % for the calls that end in an injected signing failure
	hists := r.Pick(320, 8000)
	var wg sync.WaitGroup
	tStart := time.Now() // phase durations are reported in the evidence only, they decide nothing
	for wk := 0; wk < workers; wk++ {
		wg.Add(1)
		go func() {
			defer wg.Done()
			rng := r.Rand(fmt.Sprint("c23-w", wk))
			for ch := wk; ch < chains; ch += workers {
				c.runChain(rng, ch)
			}
		}()
	}
	wg.Wait()
	// history phase: long-lived extenders across topology reloads (c23hist.go)
	tHist := time.Now()
	for wk := 0; wk < workers; wk++ {
		wg.Add(1)
		go func() {
			defer wg.Done()
			rng := r.Rand(fmt.Sprint("c23-hist-w", wk))
			for hi := wk; hi < hists; hi += workers {
				c.runHistory(rng, 1000000+hi)
			}
		}()
	}
	wg.Wait()
	r.Extra("wall_s_by_phase", map[string]float64{"chains": tHist.Sub(tStart).Seconds(), "histories": time.Since(tHist).Seconds()})
	r.Require(int64(chains*4+hists*8), 60, "extend_ok", "extend_err_expected", "probe_rejected", "sig_verified",
		"hop_mac_checked", "peer_mac_checked", "exp_bound_by_signer", "exp_bound_by_max",
		"peer_entry_checked", "ingress_mtu_checked", "peer_skipped_as_expected",
		"history_extend_ok", "history_reload", "history_key_rotated", "history_as_mtu_changed", "history_staticinfo_on",
		"history_probe_rejected", "history_rejected_egress-removed",
		// fault injection at the signing seam reached Sign in both phases, and signers were told apart by signature
		"signer_fault_armed_main", "signer_fault_armed_history", "signer_fault_fired_main", "signer_fault_fired_history",
		"signer_fault_extend_err", "signer_identified_among_several")
	r.RequireClasses("probe/first-with-nonzero-ingress/rejected/originate", "probe/later-with-zero-ingress/rejected/propagate",
		"probe/later-with-zero-ingress/rejected/terminate", "probe/both-zero/rejected/originate",
		// a long-lived extender met every kind of in-place topology change in every role
		"reload/egress-rehomed", "reload/egress-readded", "reload/egress-linktype-changed", "reload/egress-removed",
		"reload/egress-unchanged", "reload/egress-first-use",
		"reload/ingress-rehomed", "reload/ingress-mtu-changed", "reload/ingress-readded",
		"reload/peer-rehomed", "reload/peer-remote-id-changed", "reload/peer-remote-id-set", "reload/peer-mtu-changed",
		"reload/peer-linktype-changed", "reload/peer-readded", "reload/peer-removed", "reload/peer-first-use",
		// which signers' key backend failed x how (outcome-independent classes)
		"signer-fault/preferred-fails/always", "signer-fault/preferred-fails/first-call",
		"signer-fault/all-fail/always", "signer-fault/all-fail/first-call",
		"signer-fault/only-covering-fails/always", "signer-fault/only-covering-fails/first-call",
		"signer-fault/nonpreferred-fails/always", "signer-fault/nonpreferred-fails/first-call",
		"signer-fault/noncovering-fails/always")
}
