package main

// C26 history phase: several SelectBeacons calls on the SAME algorithm
// instance (beacon.DefaultSelectionAlgorithm() used repeatedly, and the one
// inside a beacon.Store / beacon.CoreStore that is queried repeatedly for
// different usages while beacons are inserted into / removed from its DB).
// Between the calls the candidate set changes: a new shortest beacon of the
// same origin arrives, candidates recur (as the same object or re-read as a
// new object with the same content), candidates are removed, the result-set
// size changes. Every call is judged by the reference of the main phase on the
// inputs of that call alone: a result may not depend on earlier calls.

import (
	"context"
	"fmt"
	"math/rand/v2"
	"sort"

	"github.com/scionproto/scion/control/beacon"
	"github.com/scionproto/scion/pkg/addr"
	seg "github.com/scionproto/scion/pkg/segment"

	"verif/beaconref"
	"verif/mon"
)

// c26Step is one SelectBeacons call of a history.
type c26Step struct {
	Via   string `json:"via"`                  // algo | <store>:<query>
	IDs   []int  `json:"ids"`                  // identity of the candidates within the history (recurrence)
	Fresh []bool `json:"reread_as_new_object"` // candidate handed over as a new object with the same content
	c26Case
}

// c26HistWitness is the replay witness of a history: all calls made on the
// algorithm instance up to and including the judged one (the last).
type c26HistWitness struct {
	Mode  string    `json:"mode"`
	Steps []c26Step `json:"steps"`
}

// c26Tracker derives, from the inputs only, what changed between a call and
// the earlier calls on the same algorithm instance. Calls are grouped in
// streams (per beacon source for a core store, which selects per source).
type c26Tracker struct {
	streams map[string]*c26Stream
	seen    map[int]bool             // ids handed to an earlier call
	firstOf map[int][]beaconref.Link // id -> first candidate of the latest earlier call it was a candidate of
	steps   []c26Step
}

type c26Stream struct {
	prevIDs   map[int]bool
	prevFirst int
	prevLinks []beaconref.Link
	prevK     int
}

func newC26Tracker() *c26Tracker {
	return &c26Tracker{seen: map[int]bool{}, firstOf: map[int][]beaconref.Link{}, streams: map[string]*c26Stream{}}
}

func c26SameLinks(a, b []beaconref.Link) bool {
	if len(a) != len(b) {
		return false
	}
	for i := range a {
		if a[i] != b[i] {
			return false
		}
	}
	return true
}

func c26HasID(ids []int, id int) bool {
	for _, x := range ids {
		if x == id {
			return true
		}
	}
	return false
}

// observe records the classes of the call st and remembers it.
func (t *c26Tracker) observe(r *mon.Run, stream string, st c26Step) {
	cls := func(k string) { r.Class(k); r.Event(k) } // events too: the evidence lists all event types
	n := len(st.IDs)
	if sm := t.streams[stream]; sm != nil && n > 0 && len(sm.prevIDs) > 0 {
		first := st.IDs[0]
		switch {
		case first == sm.prevFirst:
			cls("history/same-first")
		case !t.seen[first]:
			if sm.prevLinks[0].IA == st.Cands[0][0].IA {
				cls("history/new-shortest-same-origin")
			} else {
				cls("history/new-shortest-other-origin")
			}
		case !c26HasID(st.IDs, sm.prevFirst):
			cls("history/first-removed")
		default:
			cls("history/first-changed-to-earlier-candidate")
		}
		recur, added, stale := 0, 0, false
		for i, id := range st.IDs {
			if !t.seen[id] {
				added++
				continue
			}
			recur++
			if i == 0 || n <= st.K || st.K < 2 {
				continue
			}
			// the candidate was ranked against another first beacon before, with another diversity
			of := t.firstOf[id]
			if !c26SameLinks(of, st.Cands[0]) &&
				beaconref.Diversity(beaconref.Cand{Links: of}, beaconref.Cand{Links: st.Cands[i]}) !=
					beaconref.Diversity(beaconref.Cand{Links: st.Cands[0]}, beaconref.Cand{Links: st.Cands[i]}) {
				stale = true
				if of[0].IA == st.Cands[0][0].IA {
					cls("history/recurring-candidate-diversity-changed/same-origin")
				}
			}
		}
		if recur > 0 {
			cls("history/candidates-recur")
		}
		if stale {
			cls("history/recurring-candidate-diversity-changed")
		}
		if added > 0 {
			cls("history/candidates-added")
		}
		removed := 0
		for id := range sm.prevIDs {
			if !c26HasID(st.IDs, id) {
				removed++
			}
		}
		if removed > 0 {
			cls("history/candidates-removed")
		}
		if st.K != sm.prevK {
			cls("history/k-changed")
		}
		if removed == 0 && added == 0 && st.K == sm.prevK {
			cls("history/identical-call")
		}
	}
	if n > 0 {
		sm := &c26Stream{prevIDs: map[int]bool{}, prevFirst: st.IDs[0], prevLinks: st.Cands[0], prevK: st.K}
		for _, id := range st.IDs {
			sm.prevIDs[id] = true
			t.seen[id] = true
			t.firstOf[id] = st.Cands[0]
		}
		t.streams[stream] = sm
	}
	t.steps = append(t.steps, st)
}

// judge compares the result of the call that was observed last.
func (t *c26Tracker) judge(r *mon.Run, mode string, beacons, res []beacon.Beacon, p any, stack string, sample bool) {
	st := &t.steps[len(t.steps)-1]
	wit := &c26HistWitness{Mode: mode, Steps: t.steps}
	c26Judge(r, "C26:history:", "history_", &st.c26Case, wit, beacons, res, p, stack, sample)
}

// judgeCtx is judge for a call made with a context of the context dimension
// (c26ctx.go); the context must be finished.
func (t *c26Tracker) judgeCtx(r *mon.Run, mode, via string, beacons, res []beacon.Beacon, p any, stack string, sample bool) {
	st := &t.steps[len(t.steps)-1]
	wit := &c26HistWitness{Mode: mode, Steps: t.steps}
	c26JudgeCtx(r, st.Ctx, via, &st.c26Case, wit, beacons, res, p, stack, sample)
}

// ---- generation ----

type c26Cand struct {
	id    int
	links []beaconref.Link
	seg   *seg.PathSegment
}

type c26World struct {
	origins []uint64
	ases    []uint64
	egMax   int
	pShare  float64
	nextID  int
	maxLen  int
}

func c26NewWorld(rng *rand.Rand) *c26World {
	w := &c26World{egMax: 1 + rng.IntN(3), pShare: []float64{0, 0.3, 0.6, 0.85}[rng.IntN(4)], maxLen: 2 + rng.IntN(5)}
	isd := addr.ISD(1 + rng.IntN(2))
	w.origins = []uint64{uint64(addr.MustIAFrom(isd, 0xff00_0000_0001))}
	if rng.IntN(5) == 0 {
		w.origins = append(w.origins, uint64(addr.MustIAFrom(isd, 0xff00_0000_0002)))
	}
	for i, n := 0, 3+rng.IntN(7); i < n; i++ {
		w.ases = append(w.ases, uint64(addr.MustIAFrom(isd, addr.AS(0xff00_0000_0100+uint64(i)))))
	}
	return w
}

// cand draws a loop-free beacon of the given length from origin; links are
// shared with base with the world's probability.
func (w *c26World) cand(rng *rand.Rand, origin uint64, length int, base []beaconref.Link) *c26Cand {
	length = min(length, len(w.ases)+1)
	used := map[uint64]bool{origin: true}
	links := make([]beaconref.Link, 0, length)
	for j := 0; j < length; j++ {
		share := j < len(base) && rng.Float64() < w.pShare
		var l beaconref.Link
		switch {
		case j == 0 && share && base[0].IA == origin:
			l = base[0]
		case j == 0:
			l = beaconref.Link{IA: origin, Egress: uint16(1 + rng.IntN(w.egMax))}
		case share && !used[base[j].IA]:
			l = base[j]
		default:
			for {
				l.IA = w.ases[rng.IntN(len(w.ases))]
				if !used[l.IA] {
					break
				}
			}
			l.Egress = uint16(1 + rng.IntN(w.egMax))
		}
		used[l.IA] = true
		links = append(links, l)
	}
	w.nextID++
	return &c26Cand{id: w.nextID, links: links, seg: c26Segment(links)}
}

// c26Order orders candidates by length; among equal lengths the newest or the
// oldest goes first (a DB promises the order by length only).
func c26Order(pool []*c26Cand, newestFirst bool) []*c26Cand {
	out := append([]*c26Cand(nil), pool...)
	sort.SliceStable(out, func(i, j int) bool {
		if len(out[i].links) != len(out[j].links) {
			return len(out[i].links) < len(out[j].links)
		}
		if newestFirst {
			return out[i].id > out[j].id
		}
		return out[i].id < out[j].id
	})
	return out
}

// c26Hand turns ordered candidates into the beacons handed to the algorithm;
// now and then a candidate is re-read as a new object with the same content.
func c26Hand(rng *rand.Rand, ordered []*c26Cand, via string, k int) (c26Step, []beacon.Beacon) {
	st := c26Step{Via: via, c26Case: c26Case{K: k}}
	beacons := make([]beacon.Beacon, len(ordered))
	for i, cd := range ordered {
		fresh := rng.IntN(2) == 0
		s := cd.seg
		if fresh {
			s = c26Segment(cd.links)
		}
		beacons[i] = beacon.Beacon{Segment: s, InIfID: uint16(10 + cd.id%1000)}
		st.IDs = append(st.IDs, cd.id)
		st.Fresh = append(st.Fresh, fresh)
		st.Cands = append(st.Cands, cd.links)
	}
	return st, beacons
}

func c26PickK(rng *rand.Rand, n int) int {
	switch x := rng.IntN(12); {
	case x == 0:
		return 1
	case x == 1:
		return n + rng.IntN(2)
	default:
		return 2 + rng.IntN(max(1, min(n-1, 4)))
	}
}

// c26Evolve changes the pool between two calls.
func c26Evolve(rng *rand.Rand, w *c26World, pool []*c26Cand, newestFirst bool) []*c26Cand {
	ordered := c26Order(pool, newestFirst)
	var first []beaconref.Link
	if len(ordered) > 0 {
		first = ordered[0].links
	}
	ops := 1 + rng.IntN(2)
	for ; ops > 0; ops-- {
		switch x := rng.IntN(10); {
		case x < 3 && len(first) > 0: // a new shortest beacon arrives
			origin := first[0].IA
			if len(w.origins) > 1 && rng.IntN(3) == 0 {
				origin = w.origins[rng.IntN(len(w.origins))]
			}
			l := len(first)
			if l > 1 {
				l -= rng.IntN(2) + rng.IntN(2)
				l = max(l, 1)
			}
			pool = append(pool, w.cand(rng, origin, l, first))
		case x < 5: // other beacons arrive
			for n := 1 + rng.IntN(3); n > 0; n-- {
				l := 1 + rng.IntN(w.maxLen)
				if len(first) > 0 {
					l = max(l, len(first))
				}
				pool = append(pool, w.cand(rng, w.origins[rng.IntN(len(w.origins))], l, first))
			}
		case x < 7 && len(pool) > 2: // beacons expire / are evicted
			for n := 1 + rng.IntN(2); n > 0 && len(pool) > 1; n-- {
				i := rng.IntN(len(pool))
				if rng.IntN(3) == 0 { // the current first one
					for j, cd := range pool {
						if cd == ordered[0] {
							i = j
						}
					}
				}
				pool = append(pool[:i:i], pool[i+1:]...)
			}
		default: // nothing happens to the pool; k may still change
		}
	}
	return pool
}

// c26AlgoHistory: repeated calls on one DefaultSelectionAlgorithm() instance.
// With probability 1/3 a call is followed by a call with the same candidates and
// a context of the context dimension (crng, c26ctx.go) on the same instance.
func c26AlgoHistory(r *mon.Run, rng, crng *rand.Rand, sample bool) {
	w := c26NewWorld(rng)
	algo := beacon.DefaultSelectionAlgorithm()
	t := newC26Tracker()
	newestFirst := rng.IntN(2) == 0
	var pool []*c26Cand
	var base []beaconref.Link
	for i, n := 0, 3+rng.IntN(7); i < n; i++ {
		cd := w.cand(rng, w.origins[0], 1+rng.IntN(w.maxLen), base)
		if i == 0 {
			base = cd.links
		}
		pool = append(pool, cd)
	}
	k := c26PickK(rng, len(pool))
	for step, steps := 0, 3+rng.IntN(5); step < steps; step++ {
		if step > 0 {
			pool = c26Evolve(rng, w, pool, newestFirst)
			if rng.IntN(3) == 0 {
				k = c26PickK(rng, len(pool))
			}
		}
		st, beacons := c26Hand(rng, c26Order(pool, newestFirst), "algo", k)
		t.observe(r, "", st)
		in := append([]beacon.Beacon(nil), beacons...)
		var res []beacon.Beacon
		p, stack := mon.Try(func() { res = algo.SelectBeacons(context.Background(), in, k) })
		t.judge(r, "algo", beacons, res, p, stack, sample && step == steps-1)
		if p != nil {
			return
		}
		if crng.IntN(3) != 0 {
			continue
		}
		st, beacons = c26Hand(crng, c26Order(pool, newestFirst), "algo", k)
		st.Ctx = c26GenCtx(crng, false, 0)
		lc := c26MakeCtx(st.Ctx)
		t.observe(r, "", st)
		in = append([]beacon.Beacon(nil), beacons...)
		res = nil
		p, stack = mon.Try(func() { res = algo.SelectBeacons(lc.ctx, in, k) })
		lc.finish()
		c26CtxClasses(r, st.Ctx, "history-algo")
		t.judgeCtx(r, "algo", "history-algo", beacons, res, p, stack, false)
		if p != nil {
			return
		}
	}
}

// ---- the same through a beacon.Store / beacon.CoreStore ----

type c26Row struct {
	cd    *c26Cand
	usage beacon.Usage
}

type c26DBCall struct {
	usage   beacon.Usage
	src     addr.IA
	setSize int
	step    c26Step
	beacons []beacon.Beacon
	// context dimension (c26ctx.go)
	failed        bool // the DB refused the read because the context it was given is done
	pollsAtReturn int
	doneAtReturn  bool
}

// c26DB is the beacon.DB the stores run on: an in-memory table that returns
// the admitted candidates ordered by length and records what it handed over.
type c26DB struct {
	rng         *rand.Rand
	rows        []c26Row
	newestFirst bool
	calls       []c26DBCall
	byContent   map[string]*c26Cand
	w           *c26World
}

func c26ContentKey(links []beaconref.Link) string { return fmt.Sprint(links) }

func (d *c26DB) CandidateBeacons(_ context.Context, setSize int, usage beacon.Usage, src addr.IA) ([]beacon.Beacon, error) {
	var pool []*c26Cand
	for _, row := range d.rows {
		if row.usage&usage == 0 || (!src.IsZero() && addr.IA(row.cd.links[0].IA) != src) {
			continue
		}
		pool = append(pool, row.cd)
	}
	ordered := c26Order(pool, d.newestFirst)
	if len(ordered) > setSize {
		ordered = ordered[:setSize]
	}
	st, beacons := c26Hand(d.rng, ordered, "", 0)
	d.calls = append(d.calls, c26DBCall{usage: usage, src: src, setSize: setSize, step: st, beacons: beacons})
	return append([]beacon.Beacon(nil), beacons...), nil
}

func (d *c26DB) BeaconSources(context.Context) ([]addr.IA, error) {
	seen := map[addr.IA]bool{}
	var out []addr.IA
	for _, row := range d.rows {
		if ia := addr.IA(row.cd.links[0].IA); !seen[ia] {
			seen[ia] = true
			out = append(out, ia)
		}
	}
	sort.Slice(out, func(i, j int) bool { return out[i] < out[j] })
	return out, nil
}

func (d *c26DB) InsertBeacon(_ context.Context, b beacon.Beacon, usage beacon.Usage) (beacon.InsertStats, error) {
	links := make([]beaconref.Link, 0, len(b.Segment.ASEntries))
	for _, e := range b.Segment.ASEntries {
		links = append(links, beaconref.Link{IA: uint64(e.Local), Egress: e.HopEntry.HopField.ConsEgress})
	}
	key := c26ContentKey(links)
	if cd, ok := d.byContent[key]; ok {
		for i := range d.rows {
			if d.rows[i].cd == cd {
				d.rows[i].usage = usage
				return beacon.InsertStats{Updated: 1}, nil
			}
		}
	}
	d.w.nextID++
	cd := &c26Cand{id: d.w.nextID, links: links, seg: b.Segment}
	d.byContent[key] = cd
	d.rows = append(d.rows, c26Row{cd: cd, usage: usage})
	return beacon.InsertStats{Inserted: 1}, nil
}

func (d *c26DB) remove(i int) {
	delete(d.byContent, c26ContentKey(d.rows[i].cd.links))
	d.rows = append(d.rows[:i:i], d.rows[i+1:]...)
}

type c26Query struct {
	name string
	k    int
	run  func() ([]beacon.Beacon, error)
}

// c26StoreHistory: one store (with the DefaultSelectionAlgorithm() instance it
// creates for itself) queried for its usages while its DB changes.
// Two of three queries are repeated with a context of the context dimension
// (crng, c26ctx.go): the store is given the context, the DB wrapper c26CtxDB
// honours / cancels it.
func c26StoreHistory(r *mon.Run, rng, crng *rand.Rand, sample bool) {
	w := c26NewWorld(rng)
	db := &c26DB{rng: rng, newestFirst: rng.IntN(2) == 0, byContent: map[string]*c26Cand{}, w: w}
	wdb := &c26CtxDB{c26DB: db}
	// policies: small result sets, candidate sets and differing filters, so that
	// the usages see different candidate lists (and different shortest beacons)
	pol := func(t beacon.PolicyType) beacon.Policy {
		p := beacon.Policy{Type: t, BestSetSize: 2 + rng.IntN(4), CandidateSetSize: 4 + rng.IntN(9)}
		p.Filter.MaxHopsLength = 3 + rng.IntN(5)
		if rng.IntN(3) == 0 {
			p.Filter.AsBlackList = []addr.AS{addr.IA(w.ases[rng.IntN(len(w.ases))]).AS()}
		}
		return p
	}
	core := rng.IntN(2) == 0
	mode := "store"
	var queries []c26Query
	var insert func(beacon.Beacon) (beacon.InsertStats, error)
	ctx := context.Background()
	if core {
		mode = "core-store"
		if len(w.origins) == 1 && rng.IntN(2) == 0 {
			w.origins = append(w.origins, uint64(addr.MustIAFrom(addr.IA(w.origins[0]).ISD(), 0xff00_0000_0002)))
		}
		pols := beacon.CorePolicies{Prop: pol(beacon.PropPolicy), CoreReg: pol(beacon.CoreRegPolicy)}
		s, err := beacon.NewCoreBeaconStore(pols, wdb)
		if err != nil {
			r.Inconclusive("store-setup")
			return
		}
		insert = func(b beacon.Beacon) (beacon.InsertStats, error) { return s.InsertBeacon(ctx, b) }
		queries = []c26Query{
			{"propagate", pols.Prop.BestSetSize, func() ([]beacon.Beacon, error) { return s.BeaconsToPropagate(ctx) }},
			{"register-core", pols.CoreReg.BestSetSize, func() ([]beacon.Beacon, error) {
				b, _, err := s.SegmentsToRegister(ctx, seg.TypeCore)
				return b, err
			}},
		}
	} else {
		pols := beacon.Policies{Prop: pol(beacon.PropPolicy), UpReg: pol(beacon.UpRegPolicy), DownReg: pol(beacon.DownRegPolicy)}
		s, err := beacon.NewBeaconStore(pols, wdb)
		if err != nil {
			r.Inconclusive("store-setup")
			return
		}
		insert = func(b beacon.Beacon) (beacon.InsertStats, error) { return s.InsertBeacon(ctx, b) }
		queries = []c26Query{
			{"propagate", pols.Prop.BestSetSize, func() ([]beacon.Beacon, error) { return s.BeaconsToPropagate(ctx) }},
			{"register-up", pols.UpReg.BestSetSize, func() ([]beacon.Beacon, error) {
				b, _, err := s.SegmentsToRegister(ctx, seg.TypeUp)
				return b, err
			}},
			{"register-down", pols.DownReg.BestSetSize, func() ([]beacon.Beacon, error) {
				b, _, err := s.SegmentsToRegister(ctx, seg.TypeDown)
				return b, err
			}},
		}
	}
	t := newC26Tracker()
	var pool []*c26Cand // mirror of what was offered to the store, to evolve from
	var base []beaconref.Link
	for i, n := 0, 4+rng.IntN(8); i < n; i++ {
		cd := w.cand(rng, w.origins[rng.IntN(len(w.origins))], 1+rng.IntN(w.maxLen), base)
		if i == 0 {
			base = cd.links
		}
		pool = append(pool, cd)
	}
	offered := map[int]bool{}
	sync := func() bool {
		// bring the DB in line with the pool, through the store
		keep := map[string]bool{}
		for _, cd := range pool {
			keep[c26ContentKey(cd.links)] = true
		}
		for i := len(db.rows) - 1; i >= 0; i-- {
			if !keep[c26ContentKey(db.rows[i].cd.links)] {
				db.remove(i)
			}
		}
		for _, cd := range pool {
			if offered[cd.id] {
				continue
			}
			offered[cd.id] = true
			var ierr error
			p, stack := mon.Try(func() { _, ierr = insert(beacon.Beacon{Segment: cd.seg, InIfID: uint16(10 + cd.id%1000)}) })
			if p != nil || ierr != nil {
				_ = stack
				r.Inconclusive("store-insert") // not this property
				return false
			}
		}
		return true
	}
	rounds := 2 + rng.IntN(4)
	srcReads := func() int { // DB reads of a query
		if !core {
			return 1
		}
		srcs, _ := db.BeaconSources(context.Background())
		return len(srcs)
	}
	cls := c26CtxCls
	// runQuery runs one query and judges the selection of every DB read; spec is
	// the context of the context dimension, nil for context.Background().
	runQuery := func(q c26Query, spec *c26CtxSpec, sample bool) (stop bool) {
		kp := "C26:history:"
		if spec != nil {
			lc := c26MakeCtx(spec)
			wdb.q, ctx, db.rng = &c26CtxQuery{lc: lc}, lc.ctx, crng
			kp = "C26:ctx:" + spec.keyWhen() + ":"
		}
		db.calls = nil
		var res []beacon.Beacon
		var qerr error
		p, stack := mon.Try(func() { res, qerr = q.run() })
		if spec != nil {
			lc := wdb.q.lc
			wdb.q, ctx, db.rng = nil, context.Background(), rng
			lc.finish()
			c26CtxClasses(r, spec, mode)
		}
		if p == nil && qerr != nil {
			if spec != nil && spec.Done {
				// the query failed while its context is done: acceptable, not judged
				cls("ctx/" + spec.When + "/" + mode + "/error")
				return false
			}
			r.Inconclusive("store-query")
			return true
		}
		calls := db.calls
		if p != nil {
			// the selection that panicked
			last := -1
			for ci, call := range calls {
				if !call.failed {
					last = ci
				}
			}
			if last < 0 {
				r.Violation(kp+"panic:"+mon.PanicSite(stack), fmt.Sprintf("%s panicked: %v", q.name, p),
					&c26HistWitness{Mode: mode, Steps: t.steps})
				return true
			}
			calls = calls[last : last+1]
		}
		// one selection per DB read; the result is the concatenation
		owner := map[*seg.PathSegment]int{}
		for ci, call := range calls {
			for _, b := range call.beacons {
				owner[b.Segment] = ci
			}
		}
		parts := make([][]beacon.Beacon, len(calls))
		foreign := 0
		for _, b := range res {
			ci, ok := owner[b.Segment]
			if !ok {
				foreign++
				continue
			}
			parts[ci] = append(parts[ci], b)
		}
		for ci, call := range calls {
			if call.failed {
				cls("ctx/" + spec.When + "/" + mode + "/db-read-refused")
				continue
			}
			st := call.step
			st.Via, st.K = mode+":"+q.name, q.k
			if spec != nil {
				cs := *spec
				cs.PollsBeforeSelect, cs.DoneBeforeSelect = call.pollsAtReturn, call.doneAtReturn
				st.Ctx = &cs
			}
			stream := ""
			if core {
				stream = call.src.String()
			}
			t.observe(r, stream, st)
			if spec == nil {
				r.Event("history_store_select")
				r.Class("history/" + mode + "/" + q.name)
				t.judge(r, mode, call.beacons, parts[ci], p, stack, sample)
				continue
			}
			if st.Ctx.DoneBeforeSelect {
				cls("ctx/" + spec.When + "/" + mode + "/done-before-selection")
			} else {
				cls("ctx/" + spec.When + "/" + mode + "/live-at-selection")
			}
			t.judgeCtx(r, mode, mode, call.beacons, parts[ci], p, stack, false)
		}
		if foreign > 0 {
			r.Violation(kp+"count", fmt.Sprintf("%s returned %d beacons that the DB did not hand over for this query", q.name, foreign),
				&c26HistWitness{Mode: mode, Steps: t.steps})
		}
		return p != nil
	}
	for round := 0; round < rounds; round++ {
		if round > 0 {
			pool = c26Evolve(rng, w, pool, db.newestFirst)
		}
		if !sync() {
			return
		}
		qs := rng.Perm(len(queries))
		for _, qi := range qs[:1+rng.IntN(len(qs))] {
			if runQuery(queries[qi], nil, sample && round == rounds-1) {
				return
			}
			if crng.IntN(3) != 0 && runQuery(queries[qi], c26GenCtx(crng, true, srcReads()), false) {
				return
			}
		}
	}
}

// c26ReplayHistory re-runs the calls of a history witness on one fresh
// DefaultSelectionAlgorithm() instance (stores only forward to theirs).
func c26ReplayHistory(r *mon.Run, wit c26HistWitness) {
	algo := beacon.DefaultSelectionAlgorithm()
	t := newC26Tracker()
	objs := map[int]*seg.PathSegment{}
	for _, st := range wit.Steps {
		beacons := make([]beacon.Beacon, len(st.Cands))
		for i, links := range st.Cands {
			id := i
			if i < len(st.IDs) {
				id = st.IDs[i]
			}
			s, ok := objs[id]
			if !ok || (i < len(st.Fresh) && st.Fresh[i]) {
				s = c26Segment(links)
			}
			if !ok {
				objs[id] = s
			}
			beacons[i] = beacon.Beacon{Segment: s, InIfID: uint16(10 + id%1000)}
		}
		st.Got, st.Note = nil, ""
		stream := ""
		if wit.Mode == "core-store" && len(st.Cands) > 0 && len(st.Cands[0]) > 0 {
			stream = addr.IA(st.Cands[0][0].IA).String()
		}
		in := append([]beacon.Beacon(nil), beacons...)
		var res []beacon.Beacon
		if st.Ctx != nil {
			// what the selection saw of the recorded context
			st.Ctx = c26ReplaySpec(st.Ctx)
			lc := c26MakeCtx(st.Ctx)
			t.observe(r, stream, st)
			p, stack := mon.Try(func() { res = algo.SelectBeacons(lc.ctx, in, st.K) })
			lc.finish()
			t.judgeCtx(r, wit.Mode, "replay", beacons, res, p, stack, true)
			if p != nil {
				return
			}
			continue
		}
		t.observe(r, stream, st)
		p, stack := mon.Try(func() { res = algo.SelectBeacons(context.Background(), in, st.K) })
		t.judge(r, wit.Mode, beacons, res, p, stack, true)
		if p != nil {
			return
		}
	}
}
