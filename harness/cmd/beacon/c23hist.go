package main

// C23 history phase: ONE long-lived beaconing.DefaultExtender on ONE
// ifstate.Interfaces is used for many Extend calls while everything it reads
// changes between the calls: the topology is reloaded in place through
// Interfaces.Update (interfaces re-homed to another neighbour, other remote
// interface id, other MTU, other link type, removed, re-added, new ones), the
// AS key is rotated, MaxExpTime / signers / EPIC / AS MTU / StaticInfo / Task
// change. Every appended entry is judged by the same independent oracle as in
// the main phase against the state that is current at the time of the call; the
// oracle's state is the topology map that was handed to NewInterfaces / the
// last Update, never anything read back from the implementation.

import (
	"context"
	"crypto"
	"fmt"
	"hash"
	"math/rand/v2"
	"sort"
	"time"

	"github.com/scionproto/scion/control/beaconing"
	"github.com/scionproto/scion/control/ifstate"
	"github.com/scionproto/scion/pkg/addr"
	"github.com/scionproto/scion/pkg/private/util"
	"github.com/scionproto/scion/pkg/scrypto/cppki"
	seg "github.com/scionproto/scion/pkg/segment"
	"github.com/scionproto/scion/pkg/segment/extensions/discovery"
	"github.com/scionproto/scion/pkg/segment/iface"
	"github.com/scionproto/scion/private/topology"
	"github.com/scionproto/scion/private/trust"

	"verif/beaconref"
	"verif/mon"
)

func c23TrustSigners(ia addr.IA, signers []c23SignerCfg) fixedSigners {
	var ss fixedSigners
	for _, s := range signers {
		var priv crypto.Signer = s.key.Priv
		if s.fault != nil {
			priv = s.fault // fault-injecting key backend, c23fault.go
		}
		ss = append(ss, trust.Signer{
			PrivateKey:    priv,
			Algorithm:     s.key.Algo,
			IA:            ia,
			SubjectKeyID:  s.key.SKID,
			Expiration:    s.expiration,
			TRCID:         cppki.TRCID{ISD: ia.ISD(), Base: 1, Serial: 1},
			ChainValidity: cppki.Validity{NotBefore: s.notBefore, NotAfter: s.expiration},
		})
	}
	return ss
}

type c23Use struct {
	info ifstate.InterfaceInfo
	gen  int
}

type c23Prefix struct {
	ps  *seg.PathSegment
	pre c23Pre
}

type c23Hist struct {
	c   *c23Ctx
	idx int
	ia  addr.IA

	// oracle state: the topology handed to NewInterfaces / the last Update
	cur map[uint16]ifstate.InterfaceInfo

	// implementation state
	intfs *ifstate.Interfaces
	ext   *beaconing.DefaultExtender

	// what the extender's function fields return at call time
	master  c23Master
	maxExp  uint8
	static  *beaconing.StaticInfoCfg
	signers fixedSigners
	mtu     uint16

	staticCfg *beaconing.StaticInfoCfg
	epoch     int
	calls     int
	usedIf    map[uint16]bool
	usedIA    map[addr.IA]bool
	removed   []uint16       // ids removed by a reload and not (yet) re-added
	gen       map[uint16]int // how often the id was (re-)introduced
	last      map[uint16]c23Use
	changed   map[uint16]bool // ids changed in place by the last reload
	rid       map[uint16]bool // see c23Node.ridReloaded
	prefixes  []c23Prefix
	log       []string
}

func (h *c23Hist) keyPrefix() string {
	if h.epoch == 0 {
		return "C23:history:"
	}
	return "C23:after-reload:"
}

func (h *c23Hist) history() []string { return append([]string(nil), h.log...) }

func (h *c23Hist) logf(f string, a ...any) { h.log = append(h.log, fmt.Sprintf(f, a...)) }

func c23CopyInfos(m map[uint16]ifstate.InterfaceInfo) map[uint16]ifstate.InterfaceInfo {
	o := make(map[uint16]ifstate.InterfaceInfo, len(m))
	for k, v := range m {
		o[k] = v
	}
	return o
}

func c23SortedIDs(m map[uint16]ifstate.InterfaceInfo) []uint16 {
	ids := make([]uint16, 0, len(m))
	for id := range m {
		ids = append(ids, id)
	}
	sort.Slice(ids, func(i, j int) bool { return ids[i] < ids[j] })
	return ids
}

func c23OtherU16(rng *rand.Rand, not uint16, max int) uint16 {
	for {
		if v := uint16(1 + rng.IntN(max)); v != not {
			return v
		}
	}
}

func (h *c23Hist) newInfo(rng *rand.Rand, id uint16, lt topology.LinkType) ifstate.InterfaceInfo {
	inf := ifstate.InterfaceInfo{ID: id, IA: c23IA(rng, h.usedIA), LinkType: lt,
		RemoteID: uint16(1 + rng.IntN(65535)), MTU: uint16(1 + rng.IntN(9000))}
	if lt == topology.Peer && rng.IntN(8) == 0 {
		inf.RemoteID = 0 // remote interface id not configured (yet)
	}
	return inf
}

var c23LinkTypes = []topology.LinkType{topology.Parent, topology.Child, topology.Child, topology.Peer, topology.Peer, topology.Core}

func c23NewHist(c *c23Ctx, rng *rand.Rand, idx int) *c23Hist {
	h := &c23Hist{c: c, idx: idx, usedIf: map[uint16]bool{}, usedIA: map[addr.IA]bool{}, gen: map[uint16]int{},
		last: map[uint16]c23Use{}, changed: map[uint16]bool{}, rid: map[uint16]bool{},
		cur: map[uint16]ifstate.InterfaceInfo{}}
	h.ia = c23IA(rng, h.usedIA)
	h.master = c.w.masters[rng.IntN(len(c.w.masters))]
	h.mtu = uint16(1 + rng.IntN(65535))
	types := []topology.LinkType{topology.Parent, topology.Child, topology.Peer}
	for extra := rng.IntN(6); extra > 0; extra-- {
		types = append(types, c23LinkTypes[rng.IntN(len(c23LinkTypes))])
	}
	for _, lt := range types {
		id := c23IfID(rng, h.usedIf)
		h.cur[id] = h.newInfo(rng, id, lt)
		h.gen[id] = 1
	}
	// static info configuration mentioning some of the initial interfaces
	cfg := &beaconing.StaticInfoCfg{
		Latency:  map[iface.ID]beaconing.InterfaceLatencies{},
		LinkType: map[iface.ID]beaconing.LinkType{},
		Geo:      map[iface.ID]beaconing.InterfaceGeodata{},
		Note:     "verif",
	}
	for _, id := range c23SortedIDs(h.cur) {
		if rng.IntN(2) == 0 {
			continue
		}
		cfg.Latency[iface.ID(id)] = beaconing.InterfaceLatencies{Inter: util.DurWrap{Duration: time.Duration(1+rng.IntN(50)) * time.Millisecond}}
		cfg.LinkType[iface.ID(id)] = beaconing.LinkType(rng.IntN(3))
		cfg.Geo[iface.ID(id)] = beaconing.InterfaceGeodata{Longitude: float32(rng.IntN(180)), Latitude: float32(rng.IntN(90)), Address: "x"}
	}
	h.staticCfg = cfg
	h.intfs = ifstate.NewInterfaces(c23CopyInfos(h.cur), ifstate.Config{})
	h.ext = &beaconing.DefaultExtender{
		IA:                   h.ia,
		SignerGen:            beaconing.SignerGenFunc(func(context.Context) ([]beaconing.Signer, error) { return h.signers, nil }),
		MAC:                  func() hash.Hash { return h.master.mac() },
		Intfs:                h.intfs,
		MTU:                  h.mtu,
		MaxExpTime:           func() uint8 { return h.maxExp },
		Task:                 "verif-history",
		StaticInfo:           func() *beaconing.StaticInfoCfg { return h.static },
		DiscoveryInformation: func() *discovery.Extension { return nil },
	}
	for _, id := range c23SortedIDs(h.cur) {
		h.logf("initial topology: interface %d = %s", id, c23InfoStr(h.cur[id]))
	}
	return h
}

// configure sets the per-call state of the long-lived extender.
func (h *c23Hist) configure(n *c23Node, signers []c23SignerCfg, maxExp uint8, epic bool) *beaconing.DefaultExtender {
	h.signers = c23TrustSigners(h.ia, signers)
	h.maxExp = maxExp
	h.ext.EPIC = epic
	return h.ext
}

// mutate changes extender state other than the topology between two calls.
func (h *c23Hist) mutate(rng *rand.Rand) {
	r := h.c.r
	if h.calls > 0 && rng.IntN(4) == 0 {
		h.master = h.c.w.masters[rng.IntN(len(h.c.w.masters))]
		h.logf("AS key rotated to %s", mon.Hex(h.master.raw))
		r.Event("history_key_rotated")
	}
	if h.calls > 0 && rng.IntN(6) == 0 {
		h.mtu = uint16(1 + rng.IntN(65535))
		h.ext.MTU = h.mtu
		h.logf("AS MTU set to %d", h.mtu)
		r.Event("history_as_mtu_changed")
	}
	if rng.IntN(3) == 0 {
		h.static = h.staticCfg
		r.Event("history_staticinfo_on")
	} else {
		h.static = nil
	}
	h.ext.Task = []string{"verif-history", "propagator", "originator", "registrar"}[rng.IntN(4)]
}

// reload draws a new topology from the current one and applies it in place.
func (h *c23Hist) reload(rng *rand.Rand) {
	next := map[uint16]ifstate.InterfaceInfo{}
	h.changed = map[uint16]bool{}
	var nowRemoved []uint16
	for _, id := range c23SortedIDs(h.cur) {
		old := h.cur[id]
		inf := old
		x := rng.IntN(20)
		rehome := func() { inf.IA = c23IA(rng, h.usedIA) }
		remote := func() {
			switch {
			case old.RemoteID == 0:
				inf.RemoteID = uint16(1 + rng.IntN(65535))
			case old.LinkType == topology.Peer && rng.IntN(5) == 0:
				inf.RemoteID = 0
			default:
				inf.RemoteID = c23OtherU16(rng, old.RemoteID, 65535)
			}
		}
		mtu := func() { inf.MTU = c23OtherU16(rng, old.MTU, 9000) }
		ltype := func() {
			for inf.LinkType == old.LinkType {
				inf.LinkType = c23LinkTypes[rng.IntN(len(c23LinkTypes))]
			}
		}
		switch {
		case x < 6: // unchanged
		case x < 9:
			rehome()
			if rng.IntN(2) == 0 && old.RemoteID != 0 {
				inf.RemoteID = c23OtherU16(rng, old.RemoteID, 65535)
			}
		case x < 11:
			remote()
		case x < 13:
			mtu()
		case x < 15:
			ltype()
		case x < 17:
			nowRemoved = append(nowRemoved, id)
			h.logf("reload %d: interface %d removed (was %s)", h.epoch+1, id, c23InfoStr(old))
			continue
		case x < 19:
			rehome()
			remote()
			mtu()
			if rng.IntN(2) == 0 {
				ltype()
			}
		}
		if inf != old {
			h.changed[id] = true
			h.logf("reload %d: interface %d changed in place: %s -> %s", h.epoch+1, id, c23InfoStr(old), c23InfoStr(inf))
			if inf.RemoteID != old.RemoteID {
				h.rid[id] = true
			}
		}
		next[id] = inf
	}
	// earlier removed interfaces may come back, as new interfaces
	var still []uint16
	for _, id := range h.removed {
		if rng.IntN(3) == 0 {
			next[id] = h.newInfo(rng, id, c23LinkTypes[rng.IntN(len(c23LinkTypes))])
			h.gen[id]++
			delete(h.rid, id)
			h.logf("reload %d: interface %d re-added as %s", h.epoch+1, id, c23InfoStr(next[id]))
			continue
		}
		still = append(still, id)
	}
	h.removed = append(still, nowRemoved...)
	add := func(lt topology.LinkType) {
		id := c23IfID(rng, h.usedIf)
		next[id] = h.newInfo(rng, id, lt)
		h.gen[id] = 1
		h.logf("reload %d: interface %d added as %s", h.epoch+1, id, c23InfoStr(next[id]))
	}
	for n := []int{0, 0, 1, 1, 2}[rng.IntN(5)]; n > 0; n-- {
		add(c23LinkTypes[rng.IntN(len(c23LinkTypes))])
	}
	if len(h.roleIDs(next, topology.Parent, topology.Core)) == 0 {
		add(topology.Parent)
	}
	if len(h.roleIDs(next, topology.Child, topology.Core)) == 0 {
		add(topology.Child)
	}
	h.cur = next
	h.epoch++
	h.intfs.Update(c23CopyInfos(next))
	h.c.r.Event("history_reload")
}

func (h *c23Hist) roleIDs(m map[uint16]ifstate.InterfaceInfo, types ...topology.LinkType) []uint16 {
	var out []uint16
	for _, id := range c23SortedIDs(m) {
		for _, t := range types {
			if m[id].LinkType == t {
				out = append(out, id)
			}
		}
	}
	return out
}

// pick prefers interfaces that the extender has used before and that the last
// reload changed in place or re-introduced.
func (h *c23Hist) pick(rng *rand.Rand, cands []uint16) uint16 {
	var hot []uint16
	for _, id := range cands {
		if u, used := h.last[id]; used && (h.changed[id] || u.gen != h.gen[id]) {
			hot = append(hot, id)
		}
	}
	a, b := rng.IntN(2), rng.IntN(1<<30)
	if len(hot) > 0 && a == 0 {
		return hot[b%len(hot)]
	}
	return cands[b%len(cands)]
}

// classify records what happened to an interface between its previous use by
// the long-lived extender and this use.
func (h *c23Hist) classify(role string, id uint16) {
	if h.epoch == 0 || id == 0 {
		return
	}
	cls := func(k string) { h.c.r.Class(k); h.c.r.Event(k) } // events too: the evidence lists all event types
	now, known := h.cur[id]
	u, used := h.last[id]
	switch {
	case !known:
		cls("reload/" + role + "-removed")
	case !used:
		cls("reload/" + role + "-first-use")
	case u.gen != h.gen[id]:
		cls("reload/" + role + "-readded")
	case u.info == now:
		cls("reload/" + role + "-unchanged")
	default:
		if u.info.IA != now.IA {
			cls("reload/" + role + "-rehomed")
		}
		switch {
		case u.info.RemoteID == now.RemoteID:
		case u.info.RemoteID == 0:
			cls("reload/" + role + "-remote-id-set")
		case now.RemoteID == 0:
			cls("reload/" + role + "-remote-id-unset")
		default:
			cls("reload/" + role + "-remote-id-changed")
		}
		if u.info.MTU != now.MTU {
			cls("reload/" + role + "-mtu-changed")
		}
		if u.info.LinkType != now.LinkType {
			cls("reload/" + role + "-linktype-changed")
		}
	}
}

func (h *c23Hist) used(ids ...uint16) {
	for _, id := range ids {
		if inf, known := h.cur[id]; known {
			h.last[id] = c23Use{info: inf, gen: h.gen[id]}
		}
	}
}

// buildPrefix returns a beacon of k entries made by throw-away upstream ASes,
// the last of which names next as its neighbour.
func (c *c23Ctx) buildPrefix(rng *rand.Rand, k int, next addr.IA, usedIA map[addr.IA]bool) (c23Prefix, bool) {
	now := time.Now()
	ages := []time.Duration{0, time.Second, 30 * time.Second, 5 * time.Minute, time.Hour}
	age := ages[rng.IntN(len(ages))] + time.Duration(rng.IntN(1000))*time.Millisecond
	ps, err := seg.CreateSegment(now.Add(-age), uint16(rng.IntN(1<<16)))
	if err != nil {
		c.r.Inconclusive("create-segment")
		return c23Prefix{}, false
	}
	p := c23Prefix{ps: ps, pre: c23Pre{info: append([]byte(nil), ps.Info.Raw...)}}
	ias := make([]addr.IA, k+1)
	for i := 0; i < k; i++ {
		ias[i] = c23IA(rng, usedIA)
	}
	ias[k] = next
	for i := 0; i < k; i++ {
		n := &c23Node{ia: ias[i], master: c.w.masters[rng.IntN(len(c.w.masters))], infos: map[uint16]ifstate.InterfaceInfo{},
			mtu: uint16(1 + rng.IntN(65535))}
		used := map[uint16]bool{}
		if i > 0 {
			n.ingress = c23IfID(rng, used)
			n.infos[n.ingress] = ifstate.InterfaceInfo{ID: n.ingress, IA: ias[i-1], LinkType: topology.Parent, RemoteID: 1, MTU: 1400}
		}
		n.egress = c23IfID(rng, used)
		n.infos[n.egress] = ifstate.InterfaceInfo{ID: n.egress, IA: ias[i+1], LinkType: topology.Child, RemoteID: 1, MTU: 1400}
		signer := c23SignerCfg{key: c.w.keys[rng.IntN(8)], notBefore: ps.Info.Timestamp.Add(-time.Hour),
			expiration: now.Add(30 * 24 * time.Hour), kind: "far"}
		var xerr error
		pv, _ := mon.Try(func() {
			xerr = n.extender([]c23SignerCfg{signer}, 63, false).Extend(context.Background(), ps, n.ingress, n.egress, nil)
		})
		if pv != nil || xerr != nil {
			// the main phase judges fresh extenders; here the prefix is only a fixture
			c.r.Inconclusive("history-prefix")
			return c23Prefix{}, false
		}
		pb := seg.PathSegmentToPB(ps)
		s := pb.AsEntries[i].Signed
		p.pre.raws = append(p.pre.raws, beaconref.RawEntry{HeaderAndBody: s.HeaderAndBody, Signature: s.Signature})
		p.pre.sigmas = append(p.pre.sigmas, ps.ASEntries[i].HopEntry.HopField.MAC)
	}
	return p, true
}

func epochBucket(e int) string {
	switch {
	case e == 0:
		return "0"
	case e == 1:
		return "1"
	default:
		return "2+"
	}
}

// call performs one Extend call with the long-lived extender.
func (h *c23Hist) call(rng *rand.Rand) {
	c, r := h.c, h.c.r
	h.mutate(rng)
	ins := h.roleIDs(h.cur, topology.Parent, topology.Core)
	egs := h.roleIDs(h.cur, topology.Child, topology.Core)
	kind := []string{"originate", "originate", "propagate", "propagate", "propagate", "terminate"}[rng.IntN(6)]
	if len(egs) == 0 {
		kind = "terminate"
	}
	if len(ins) == 0 {
		kind = "originate"
	}
	if len(ins) == 0 && len(egs) == 0 {
		return // not reachable: the generator keeps one of each
	}
	n := &c23Node{ia: h.ia, master: h.master, infos: c23CopyInfos(h.cur), mtu: h.mtu, ridReloaded: h.rid}
	if kind != "originate" {
		n.ingress = h.pick(rng, ins)
	}
	if kind != "terminate" {
		n.egress = h.pick(rng, egs)
		for tries := 0; n.egress == n.ingress && tries < 8 && len(egs) > 1; tries++ {
			n.egress = egs[rng.IntN(len(egs))]
		}
		if n.egress == n.ingress { // a single core interface cannot be both
			n.ingress, kind = 0, "originate"
		}
	}
	// now and then the egress interface has just been removed by the reload:
	// no neighbour can be named, the extension has to fail
	mustFail := ""
	if x := rng.IntN(8); x == 0 && len(h.removed) > 0 && n.egress != 0 {
		n.egress = h.removed[rng.IntN(len(h.removed))]
		if n.egress == n.ingress {
			return
		}
		mustFail = "egress-removed"
	}
	n.peers = h.roleIDs(h.cur, topology.Peer)
	rng.Shuffle(len(n.peers), func(i, j int) { n.peers[i], n.peers[j] = n.peers[j], n.peers[i] })
	if x := rng.IntN(3); x == 0 && len(h.removed) > 0 {
		if id := h.removed[rng.IntN(len(h.removed))]; id != n.egress && id != n.ingress {
			n.peers = append(n.peers, id)
		}
	}
	n.mustFail = mustFail

	var ps *seg.PathSegment
	var pre c23Pre
	if kind == "originate" {
		p, ok := c.buildPrefix(rng, 0, h.ia, h.usedIA)
		if !ok {
			return
		}
		ps, pre = p.ps, p.pre
	} else {
		if len(h.prefixes) == 0 || (len(h.prefixes) < 3 && rng.IntN(4) == 0) {
			k := 1 + rng.IntN(2)
			if rng.IntN(3) == 0 {
				k = 3 + rng.IntN(4)
			}
			p, ok := c.buildPrefix(rng, k, h.ia, h.usedIA)
			if !ok {
				return
			}
			h.prefixes = append(h.prefixes, p)
		}
		p := h.prefixes[rng.IntN(len(h.prefixes))]
		ps, pre = p.ps.ShallowCopy(), p.pre
	}
	pos := len(pre.raws)

	h.classify("ingress", n.ingress)
	h.classify("egress", n.egress)
	for _, id := range n.peers {
		h.classify("peer", id)
	}
	desc := fmt.Sprintf("epoch %d: Extend(%s, prefix of %d, ingress %d, egress %d, peers %v)", h.epoch, kind, pos, n.ingress, n.egress, n.peers)

	// inconsistent ingress/egress on the long-lived extender must keep failing
	if rng.IntN(5) == 0 {
		name, in, eg := "both-zero", uint16(0), uint16(0)
		switch x := rng.IntN(2); {
		case x == 0:
		case pos == 0 && len(ins) > 0 && ins[0] != n.egress:
			name, in, eg = "first-with-nonzero-ingress", ins[0], n.egress
		case pos > 0 && len(egs) > 0:
			name, in, eg = "later-with-zero-ingress", 0, egs[0]
		}
		cp := ps.ShallowCopy()
		wit := c.witness(h.idx, "history-probe:"+name, pos, n, in, eg, n.peers, h.maxExp, h.ext.EPIC, cp, nil, time.Now())
		wit.History = h.history()
		var perr error
		pv, stack := mon.Try(func() { perr = h.ext.Extend(context.Background(), cp, in, eg, n.peers) })
		r.Eval(1)
		switch {
		case pv != nil:
			r.Violation(h.keyPrefix()+"panic:"+mon.PanicSite(stack), fmt.Sprintf("Extend panicked: %v\n%s", pv, stack), wit)
		case perr == nil:
			r.Violation(h.keyPrefix()+"accepted-inconsistent:"+name,
				fmt.Sprintf("Extend(ingress=%d, egress=%d) at position %d succeeded on the long-lived extender", in, eg, pos), wit)
		default:
			r.Class("history/probe/" + name + "/rejected")
			r.Event("history_probe_rejected")
		}
	}

	cls := "history/" + kind + "/epoch=" + epochBucket(h.epoch)
	c.extendWith(rng, h, h.idx, "history", pos, n, ps, pre, cls, mustFail != "" || rng.IntN(8) != 0)
	h.calls++
	h.logf("%s", desc)
	h.used(n.ingress, n.egress)
	h.used(n.peers...)
}

func (c *c23Ctx) runHistory(rng *rand.Rand, idx int) {
	h := c23NewHist(c, rng, idx)
	epochs := 2 + rng.IntN(3) // the initial topology plus 1..3 reloads
	for e := 0; e < epochs; e++ {
		if e > 0 {
			h.reload(rng)
		}
		for calls := 3 + rng.IntN(4); calls > 0; calls-- {
			h.call(rng)
		}
	}
}
