package main

import (
	"context"
	"crypto/elliptic"
	"crypto/x509"
	"errors"
	"fmt"
	"math/rand/v2"
	"net"
	"os"
	"path/filepath"
	"sync"
	"sync/atomic"
	"time"

	"github.com/patrickmn/go-cache"
	"google.golang.org/protobuf/proto"

	"github.com/scionproto/scion/pkg/addr"
	cppb "github.com/scionproto/scion/pkg/proto/control_plane"
	"github.com/scionproto/scion/pkg/scrypto/cppki"
	seg "github.com/scionproto/scion/pkg/segment"
	"github.com/scionproto/scion/private/segment/segverifier"
	infra "github.com/scionproto/scion/private/segment/verifier"
	"github.com/scionproto/scion/private/storage/trust/sqlite"
	"github.com/scionproto/scion/private/trust"
	"github.com/scionproto/scion/private/trust/compat"

	"verif/beaconpki"
	"verif/beaconref"
	"verif/mon"
)

// ---- fixtures: forged PKI in a real sqlite trust DB ----

type c24Ident struct {
	kind   string
	ia     addr.IA
	key    *beaconpki.Key
	chains [][]*x509.Certificate
}

type c24AS struct {
	ia                                 addr.IA
	good, short, late, split, edge     *c24Ident
	shortNA, lateNB, splitANA, splitBN time.Time
	edgeNB, edgeNA                     time.Time
}

type c24World struct {
	now0     time.Time
	ases     []*c24AS
	orphan   []*beaconpki.Key // keys nobody certified
	db       sqlite.DB
	provider trust.FetchingProvider
	fetches  *atomic.Int64
	dir      string
}

type noRemote struct{ n *atomic.Int64 }

func (f noRemote) Chains(context.Context, trust.ChainQuery, net.Addr) ([][]*x509.Certificate, error) {
	f.n.Add(1)
	return nil, nil // the remote has nothing better than the local DB
}

func (f noRemote) TRC(context.Context, cppki.TRCID, net.Addr) (cppki.SignedTRC, error) {
	f.n.Add(1)
	return cppki.SignedTRC{}, errors.New("no such TRC")
}

func c24NewWorld() (*c24World, error) {
	w := &c24World{now0: time.Now().UTC().Truncate(time.Second), fetches: new(atomic.Int64)}
	dir, err := os.MkdirTemp("", "verif-c24-")
	if err != nil {
		return nil, err
	}
	w.dir = dir
	db, err := sqlite.New(filepath.Join(dir, "trust.db"), nil)
	if err != nil {
		return nil, err
	}
	w.db = db
	ctx := context.Background()
	now := w.now0
	for isdN := 1; isdN <= 2; isdN++ {
		isd, err := beaconpki.NewISD(addr.ISD(isdN), addr.AS(0xff00_0000_0100+uint64(isdN)*0x10), now)
		if err != nil {
			return nil, err
		}
		if _, err := db.InsertTRC(ctx, isd.Signed); err != nil {
			return nil, err
		}
		for a := 0; a < 5; a++ {
			ia := addr.MustIAFrom(addr.ISD(isdN), addr.AS(0xff00_0000_0100+uint64(isdN)*0x10+uint64(a)))
			as := &c24AS{ia: ia,
				shortNA: now.Add(2 * time.Hour), lateNB: now.Add(-5 * time.Minute),
				splitANA: now.Add(2 * time.Hour), splitBN: now.Add(-20 * time.Minute),
				edgeNB: now.Add(-time.Hour), edgeNA: now.Add(3 * time.Hour),
			}
			curve := elliptic.P256()
			if isdN == 1 && a == 3 {
				curve = elliptic.P384()
			}
			if isdN == 1 && a == 4 {
				curve = elliptic.P521()
			}
			mk := func(kind string, c elliptic.Curve, windows ...[2]time.Time) (*c24Ident, error) {
				k, err := beaconpki.NewKey(c)
				if err != nil {
					return nil, err
				}
				id := &c24Ident{kind: kind, ia: ia, key: k}
				for _, win := range windows {
					chain, err := isd.IssueAS(ia, k, win[0], win[1])
					if err != nil {
						return nil, fmt.Errorf("%s %s: %w", ia, kind, err)
					}
					if _, err := db.InsertChain(ctx, chain); err != nil {
						return nil, err
					}
					id.chains = append(id.chains, chain)
				}
				return id, nil
			}
			if as.good, err = mk("good", curve, [2]time.Time{now.Add(-30 * 24 * time.Hour), now.Add(300 * 24 * time.Hour)}); err != nil {
				return nil, err
			}
			if as.short, err = mk("short", elliptic.P256(), [2]time.Time{now.Add(-2 * time.Hour), as.shortNA}); err != nil {
				return nil, err
			}
			if as.late, err = mk("late", elliptic.P256(), [2]time.Time{as.lateNB, now.Add(100 * 24 * time.Hour)}); err != nil {
				return nil, err
			}
			if as.split, err = mk("split", elliptic.P256(),
				[2]time.Time{now.Add(-10 * 24 * time.Hour), as.splitANA},
				[2]time.Time{as.splitBN, now.Add(100 * 24 * time.Hour)}); err != nil {
				return nil, err
			}
			if as.edge, err = mk("edge", elliptic.P256(), [2]time.Time{as.edgeNB, as.edgeNA}); err != nil {
				return nil, err
			}
			w.ases = append(w.ases, as)
		}
	}
	for i := 0; i < 3; i++ {
		k, err := beaconpki.NewKey(elliptic.P256())
		if err != nil {
			return nil, err
		}
		w.orphan = append(w.orphan, k)
	}
	local := w.ases[0].ia
	w.provider = trust.FetchingProvider{
		DB:       db,
		Recurser: trust.ASLocalRecurser{IA: local},
		Fetcher:  noRemote{n: w.fetches},
		Router:   trust.LocalRouter{IA: local},
	}
	return w, nil
}

func (w *c24World) close() {
	_ = w.db.Close()
	_ = os.RemoveAll(w.dir)
}

func (w *c24World) verifier(c *cache.Cache) infra.Verifier {
	return compat.Verifier{Verifier: trust.Verifier{Engine: w.provider, Cache: c}}
}

// ---- segment construction (fixture; signing goes through the real AddASEntry + trust.Signer) ----

type c24Entry struct {
	as      *c24AS
	id      *c24Ident      // certified identity that signs; nil if key is set
	key     *beaconpki.Key // explicit key (foreign / uncertified)
	keyIDIA addr.IA        // ISD-AS written into the verification key id (0: the identity's / as.ia)
	exp     uint8
	ingress uint16
	egress  uint16
	mac     [6]byte
	peers   int
	mtu     int
}

type c24Spec struct {
	ts         time.Time
	segID      uint16
	terminated bool
	next       addr.IA // Next of the last entry of an open beacon
	entries    []c24Entry
}

func (s c24Spec) clone() c24Spec {
	c := s
	c.entries = append([]c24Entry(nil), s.entries...)
	return c
}

func c24GenSpec(rng *rand.Rand, w *c24World, n int) c24Spec {
	s := c24Spec{
		ts:         w.now0.Add(-time.Duration(rng.IntN(30*60)) * time.Second),
		segID:      uint16(rng.IntN(1 << 16)),
		terminated: rng.IntN(2) == 0,
	}
	perm := rng.Perm(len(w.ases))
	for i := 0; i < n; i++ {
		e := c24Entry{as: w.ases[perm[i]], exp: uint8(rng.IntN(256)), peers: []int{0, 0, 1, 2}[rng.IntN(4)], mtu: 1200 + rng.IntN(8000)}
		e.id = e.as.good
		if i > 0 {
			e.ingress = uint16(1 + rng.IntN(65535))
		}
		if !(s.terminated && i == n-1) {
			e.egress = uint16(1 + rng.IntN(65535))
		}
		for j := range e.mac {
			e.mac[j] = byte(rng.IntN(256))
		}
		s.entries = append(s.entries, e)
	}
	s.next = addr.MustIAFrom(addr.ISD(1+rng.IntN(2)), addr.AS(0xff00_0000_0900+uint64(rng.IntN(100))))
	return s
}

func (s c24Spec) build(rng *rand.Rand) (*seg.PathSegment, error) {
	ps, err := seg.CreateSegment(s.ts, s.segID)
	if err != nil {
		return nil, err
	}
	for i, e := range s.entries {
		ent := seg.ASEntry{
			Local: e.as.ia, MTU: e.mtu,
			HopEntry: seg.HopEntry{IngressMTU: 1400, HopField: seg.HopField{
				ExpTime: e.exp, ConsIngress: e.ingress, ConsEgress: e.egress, MAC: e.mac}},
		}
		switch {
		case i+1 < len(s.entries):
			ent.Next = s.entries[i+1].as.ia
		case !s.terminated:
			ent.Next = s.next
		}
		for p := 0; p < e.peers; p++ {
			ent.PeerEntries = append(ent.PeerEntries, seg.PeerEntry{
				Peer: addr.MustIAFrom(3, addr.AS(1+rng.IntN(1000))), PeerInterface: uint16(1 + rng.IntN(1000)), PeerMTU: 1400,
				HopField: seg.HopField{ExpTime: e.exp, ConsIngress: uint16(1 + rng.IntN(60000)), ConsEgress: e.egress, MAC: e.mac},
			})
		}
		key := e.key
		ia := e.keyIDIA
		if e.id != nil {
			key = e.id.key
			if ia == 0 {
				ia = e.id.ia
			}
		}
		if ia == 0 {
			ia = e.as.ia
		}
		signer := trust.Signer{
			PrivateKey: key.Priv, Algorithm: key.Algo, IA: ia, SubjectKeyID: key.SKID,
			Expiration: time.Now().Add(365 * 24 * time.Hour),
			TRCID:      cppki.TRCID{ISD: ia.ISD(), Base: 1, Serial: 1},
		}
		if err := ps.AddASEntry(context.Background(), ent, signer); err != nil {
			return nil, err
		}
	}
	return ps, nil
}

// ---- wire handling ----

// c24Wire does the round trip over the encoded form.
func c24Wire(pb *cppb.PathSegment) ([]byte, *cppb.PathSegment, error) {
	raw, err := proto.Marshal(pb)
	if err != nil {
		return nil, nil, err
	}
	var out cppb.PathSegment
	if err := proto.Unmarshal(raw, &out); err != nil {
		return raw, nil, err
	}
	return raw, &out, nil
}

// c24Lenient parses without the structural Validate step, so that
// VerifySegment alone has to notice a structural mutation.
func c24Lenient(pb *cppb.PathSegment) (*seg.PathSegment, error) {
	var si cppb.SegmentInformation
	if err := proto.Unmarshal(pb.SegmentInfo, &si); err != nil {
		return nil, err
	}
	if si.SegmentId > 65535 {
		return nil, errors.New("segment id overflows")
	}
	ps := &seg.PathSegment{Info: seg.Info{Raw: pb.SegmentInfo, Timestamp: time.Unix(si.Timestamp, 0), SegmentID: uint16(si.SegmentId)}}
	for _, e := range pb.AsEntries {
		a, err := seg.ASEntryFromPB(e)
		if err != nil {
			return nil, err
		}
		ps.ASEntries = append(ps.ASEntries, a)
	}
	if len(ps.ASEntries) == 0 {
		return nil, errors.New("no entries")
	}
	return ps, nil
}

type c24Case struct {
	Replay  string `json:"replay"`
	Base    int    `json:"base"`
	Entries int    `json:"entries"`
	Kind    string `json:"mutation"`
	Detail  string `json:"detail"`
	Config  string `json:"verifier"`
	Zone    string `json:"local_time_zone"`
	Path    string `json:"path"`
	Expect  string `json:"expect"`
	Outcome string `json:"outcome"`
	Segment string `json:"segment_wire_hex,omitempty"`
}

type c24Ctx struct {
	r *mon.Run
	w *c24World
	// items collects, per family, every generated segment once (with the
	// generator's verdict) for the schedule phase in c24sched.go.
	items *[]c24Item
	// zone is the local time zone (time.Local) the process runs under while
	// this part of the workload executes (c24local.go).
	zone     string
	lsamples *atomic.Int64
}

// check runs one (possibly mutated) wire segment through parse + VerifySegment
// with the given verifier and judges the outcome. beacon selects the parser.
func (c *c24Ctx) check(cs c24Case, pb *cppb.PathSegment, beacon bool, v infra.Verifier, wantOK bool, key string) bool {
	r := c.r
	r.Eval(1)
	raw, wire, err := c24Wire(pb)
	if c.items != nil && cs.Config == "uncached" {
		*c.items = append(*c.items, c24Item{kind: cs.Kind, detail: cs.Detail, pb: pb, beacon: beacon, genuine: wantOK})
	}
	cs.Expect = "rejected"
	if wantOK {
		cs.Expect = "verifies"
	}
	fail := func(what string) {
		// the shortest-lived fixture certificates end 2 h after setup; a run
		// that is still going by then cannot judge positive cases any more
		if wantOK && time.Since(c.w.now0) > 115*time.Minute {
			r.Inconclusive("fixture-certificates-expired-during-run")
			return
		}
		cs.Segment = mon.Hex(raw)
		r.Violation(key, what, cs)
	}
	ctx := context.Background()
	var ps *seg.PathSegment
	if err == nil {
		if beacon {
			ps, err = seg.BeaconFromPB(wire)
		} else {
			ps, err = seg.SegmentFromPB(wire)
		}
	}
	if err != nil {
		// parse failure = detection. For a mutation the verification step alone must notice it as well.
		cs.Path, cs.Outcome = "strict", "parse error: "+err.Error()
		if wantOK {
			fail(fmt.Sprintf("%s [%s]: expected to verify, parser rejected it: %v", cs.Kind, cs.Config, err))
			return false
		}
		r.Class(fmt.Sprintf("%s/%s/detected-by=parse", cs.Kind, cs.Config))
		r.Event("reject_parse")
		if wire == nil {
			return true
		}
		lp, lerr := c24Lenient(wire)
		if lerr != nil {
			r.Class(fmt.Sprintf("%s/%s/lenient=parse", cs.Kind, cs.Config))
			return true
		}
		var verr error
		pv, stack := mon.Try(func() { verr = segverifier.VerifySegment(ctx, v, nil, lp) })
		cs.Path = "lenient (no structural validation)"
		if pv != nil {
			cs.Outcome = fmt.Sprint("panic: ", pv)
			cs.Segment = mon.Hex(raw)
			r.Violation("C24:panic:"+mon.PanicSite(stack), fmt.Sprintf("VerifySegment panicked: %v\n%s", pv, stack), cs)
			return false
		}
		if verr == nil {
			cs.Outcome = "verified"
			fail(fmt.Sprintf("%s [%s]: structurally invalid after mutation, and VerifySegment on its own accepts it", cs.Kind, cs.Config))
			return false
		}
		r.Class(fmt.Sprintf("%s/%s/lenient=verify", cs.Kind, cs.Config))
		r.Event("reject_verify_lenient")
		return true
	}
	var verr error
	pv, stack := mon.Try(func() { verr = segverifier.VerifySegment(ctx, v, nil, ps) })
	cs.Path = "strict"
	if pv != nil {
		cs.Outcome = fmt.Sprint("panic: ", pv)
		cs.Segment = mon.Hex(raw)
		r.Violation("C24:panic:"+mon.PanicSite(stack), fmt.Sprintf("VerifySegment panicked: %v\n%s", pv, stack), cs)
		return false
	}
	if verr == nil {
		cs.Outcome = "verified"
	} else {
		cs.Outcome = "verification error: " + verr.Error()
		if len(cs.Outcome) > 400 {
			cs.Outcome = cs.Outcome[:400]
		}
	}
	switch {
	case wantOK && verr != nil:
		fail(fmt.Sprintf("%s [%s]: expected to verify, got: %v", cs.Kind, cs.Config, trunc(verr.Error(), 300)))
		return false
	case !wantOK && verr == nil:
		fail(fmt.Sprintf("%s [%s] (%s): mutated segment verifies", cs.Kind, cs.Config, cs.Detail))
		return false
	case wantOK:
		r.Class(fmt.Sprintf("%s/%s/verifies", cs.Kind, cs.Config))
		r.Event("accept")
	default:
		r.Class(fmt.Sprintf("%s/%s/detected-by=verify", cs.Kind, cs.Config))
		r.Event("reject_verify")
	}
	if r.WantSample() && !wantOK && cs.Kind == "malleate-earlier-signature" {
		cs.Segment = mon.Hex(raw)
		r.Sample(cs)
	}
	return true
}

func trunc(s string, n int) string {
	if len(s) > n {
		return s[:n]
	}
	return s
}

func clonePB(pb *cppb.PathSegment) *cppb.PathSegment {
	return proto.Clone(pb).(*cppb.PathSegment)
}

func c24Positions(rng *rand.Rand, l, sample int) []int {
	if sample <= 0 || sample >= l {
		out := make([]int, l)
		for i := range out {
			out[i] = i
		}
		return out
	}
	return rng.Perm(l)[:sample]
}

func (c *c24Ctx) family(rng *rand.Rand, base int) {
	var items []c24Item
	c = &c24Ctx{r: c.r, w: c.w, items: &items, zone: c.zone, lsamples: c.lsamples}
	r, w := c.r, c.w
	thorough := r.Thorough()
	n := 1 + base%10 // every length 1..10 is visited
	spec := c24GenSpec(rng, w, n)
	ps, err := spec.build(rng)
	if err != nil {
		r.Inconclusive("fixture-build: " + err.Error())
		return
	}
	pb := seg.PathSegmentToPB(ps)
	beacon := !spec.terminated
	other, err := c24GenSpec(rng, w, 1+rng.IntN(10)).build(rng)
	if err != nil {
		r.Inconclusive("fixture-build: " + err.Error())
		return
	}
	otherPB := seg.PathSegmentToPB(other)

	type vcfg struct {
		name string
		v    infra.Verifier
	}
	cfgs := []vcfg{
		{"uncached", w.verifier(nil)},
		{"cached", w.verifier(cache.New(time.Minute, 0))},
	}
	mk := func(kind, detail, cfg string) c24Case {
		return c24Case{
			Replay: fmt.Sprintf("deterministic per seed (keys and signatures are fresh): re-run C24 with --seed %d --tier %s, base %d", r.Seed, r.Tier, base),
			Base:   base, Entries: n, Kind: kind, Detail: detail, Config: cfg, Zone: c.zone,
		}
	}
	all := func(kind, detail string, m *cppb.PathSegment, asBeacon, wantOK bool, key string) {
		for _, cf := range cfgs {
			c.check(mk(kind, detail, cf.name), m, asBeacon, cf.v, wantOK, key)
		}
	}

	// 0. untouched (also warms the cache of the cached configuration)
	all("untouched", "", pb, beacon, true, "C24:rejects-valid:untouched")
	if rng.IntN(4) == 0 {
		all("untouched-second-pass", "", pb, beacon, true, "C24:rejects-valid:untouched")
	}
	// 1. truncated tail: every proper prefix is a verifiable beacon
	for m := 1; m < n; m++ {
		t := clonePB(pb)
		t.AsEntries = t.AsEntries[:m]
		all("truncate-tail", fmt.Sprintf("keep %d of %d", m, n), t, true, true, "C24:rejects-valid:truncated")
	}

	// 2. byte mutations of signed content and of earlier signatures
	nInfo, nHB, nSig := 4, 4, 3
	if thorough {
		nInfo, nHB, nSig = 0, 0, 0 // every byte
	}
	// Byte positions and masks come from a per-base sub-stream: field lengths
	// depend on fresh signatures/timestamps and must not shift the main stream.
	brng := r.Rand(fmt.Sprint("c24-bytes-", base))
	mask := func() byte { return byte(1 + brng.IntN(255)) }
	for _, p := range c24Positions(brng, len(pb.SegmentInfo), nInfo) {
		m := clonePB(pb)
		m.SegmentInfo[p] ^= mask()
		all("info-byte", fmt.Sprintf("byte %d", p), m, beacon, false, "C24:accepts:info-byte")
	}
	for i := 0; i < n; i++ {
		for _, p := range c24Positions(brng, len(pb.AsEntries[i].Signed.HeaderAndBody), nHB) {
			m := clonePB(pb)
			m.AsEntries[i].Signed.HeaderAndBody[p] ^= mask()
			all("header-and-body-byte", fmt.Sprintf("entry %d byte %d", i, p), m, beacon, false, "C24:accepts:header-and-body-byte")
		}
		if i < n-1 {
			for _, p := range c24Positions(brng, len(pb.AsEntries[i].Signed.Signature), nSig) {
				m := clonePB(pb)
				m.AsEntries[i].Signed.Signature[p] ^= mask()
				all("earlier-signature-byte", fmt.Sprintf("entry %d byte %d", i, p), m, beacon, false, "C24:accepts:earlier-signature-byte")
			}
		}
	}
	{ // length changes
		m := clonePB(pb)
		m.SegmentInfo = append(m.SegmentInfo, 0x18, byte(rng.IntN(128))) // extra (unknown) field
		all("info-append", "unknown field appended", m, beacon, false, "C24:accepts:info-append")
		i := rng.IntN(n)
		m = clonePB(pb)
		hb := m.AsEntries[i].Signed.HeaderAndBody
		m.AsEntries[i].Signed.HeaderAndBody = append(hb, 0x18, byte(rng.IntN(128)))
		all("header-and-body-append", fmt.Sprintf("entry %d", i), m, beacon, false, "C24:accepts:header-and-body-append")
		m = clonePB(pb)
		hb = m.AsEntries[i].Signed.HeaderAndBody
		p := rng.IntN(len(hb))
		m.AsEntries[i].Signed.HeaderAndBody = append(append([]byte(nil), hb[:p]...), hb[p+1:]...)
		all("header-and-body-delete", fmt.Sprintf("entry %d byte %d", i, p), m, beacon, false, "C24:accepts:header-and-body-delete")
		if n >= 2 {
			i = rng.IntN(n - 1)
			m = clonePB(pb)
			m.AsEntries[i].Signed.Signature = nil
			all("earlier-signature-removed", fmt.Sprintf("entry %d", i), m, beacon, false, "C24:accepts:earlier-signature-removed")
		}
	}

	// 3. ECDSA malleability (r, n-s): an earlier entry still verifies on its own, the chain must break
	for i := 0; i < n; i++ {
		curveN := spec.entries[i].id.key.Priv.Curve.Params().N
		ms, err := beaconref.MalleateECDSA(pb.AsEntries[i].Signed.Signature, curveN)
		if err != nil {
			r.Inconclusive("malleate")
			continue
		}
		m := clonePB(pb)
		m.AsEntries[i].Signed.Signature = ms
		if i < n-1 {
			all("malleate-earlier-signature", fmt.Sprintf("entry %d of %d", i, n), m, beacon, false, "C24:accepts:malleated-earlier-signature")
			// control: the malleated signature is a valid one — as last entry of the prefix it verifies
			t := clonePB(m)
			t.AsEntries = t.AsEntries[:i+1]
			_, wire, _ := c24Wire(t)
			if tp, err := seg.BeaconFromPB(wire); err == nil {
				if segverifier.VerifySegment(context.Background(), cfgs[0].v, nil, tp) == nil {
					r.Event("malleated_signature_valid_on_its_own")
				} else {
					r.Event("malleated_signature_invalid_on_its_own")
				}
			}
		} else {
			// last entry's own signature: nothing asserted, outcome recorded
			_, wire, _ := c24Wire(m)
			var lp *seg.PathSegment
			if beacon {
				lp, err = seg.BeaconFromPB(wire)
			} else {
				lp, err = seg.SegmentFromPB(wire)
			}
			if err == nil {
				if segverifier.VerifySegment(context.Background(), cfgs[0].v, nil, lp) == nil {
					r.Event("observed_malleated_last_signature_verifies")
				} else {
					r.Event("observed_malleated_last_signature_rejected")
				}
			}
		}
	}

	// 4. structural mutations
	if n >= 2 {
		adj := rng.IntN(n - 1)
		pairs := [][2]int{{0, n - 1}}
		if n > 2 {
			pairs = append(pairs, [2]int{adj, adj + 1})
		}
		for _, pr := range pairs {
			m := clonePB(pb)
			m.AsEntries[pr[0]], m.AsEntries[pr[1]] = m.AsEntries[pr[1]], m.AsEntries[pr[0]]
			all("reorder-entries", fmt.Sprintf("swap %d,%d", pr[0], pr[1]), m, beacon, false, "C24:accepts:reorder")
		}
		i := rng.IntN(n - 1)
		m := clonePB(pb)
		m.AsEntries = append(m.AsEntries[:i], m.AsEntries[i+1:]...)
		all("remove-entry", fmt.Sprintf("entry %d of %d", i, n), m, beacon, false, "C24:accepts:remove")
		// signatures / bodies exchanged between two entries
		a, b := rng.IntN(n), rng.IntN(n-1)
		if b >= a {
			b++
		}
		m = clonePB(pb)
		m.AsEntries[a].Signed.Signature, m.AsEntries[b].Signed.Signature = m.AsEntries[b].Signed.Signature, m.AsEntries[a].Signed.Signature
		all("swap-signatures", fmt.Sprintf("%d,%d", a, b), m, beacon, false, "C24:accepts:swap-signatures")
		m = clonePB(pb)
		m.AsEntries[a].Signed.HeaderAndBody, m.AsEntries[b].Signed.HeaderAndBody = m.AsEntries[b].Signed.HeaderAndBody, m.AsEntries[a].Signed.HeaderAndBody
		all("swap-bodies", fmt.Sprintf("%d,%d", a, b), m, beacon, false, "C24:accepts:swap-bodies")
	}
	insertAt := func(m *cppb.PathSegment, p int, e *cppb.ASEntry) {
		m.AsEntries = append(m.AsEntries, nil)
		copy(m.AsEntries[p+1:], m.AsEntries[p:])
		m.AsEntries[p] = e
	}
	{
		j, p := rng.IntN(n), rng.IntN(n+1)
		m := clonePB(pb)
		insertAt(m, p, proto.Clone(pb.AsEntries[j]).(*cppb.ASEntry))
		all("insert-duplicate", fmt.Sprintf("copy of entry %d at %d", j, p), m, beacon, false, "C24:accepts:insert")
		m = clonePB(pb)
		insertAt(m, n, proto.Clone(pb.AsEntries[n-1]).(*cppb.ASEntry))
		all("insert-duplicate", "copy of the last entry appended", m, beacon, false, "C24:accepts:insert")
		q := rng.IntN(len(otherPB.AsEntries))
		p = rng.IntN(n + 1)
		m = clonePB(pb)
		insertAt(m, p, proto.Clone(otherPB.AsEntries[q]).(*cppb.ASEntry))
		all("insert-foreign", fmt.Sprintf("entry %d of another valid segment at %d", q, p), m, beacon, false, "C24:accepts:insert")
		i := rng.IntN(n)
		m = clonePB(pb)
		m.AsEntries[i] = proto.Clone(otherPB.AsEntries[q]).(*cppb.ASEntry)
		all("replace-entry", fmt.Sprintf("entry %d by entry %d of another valid segment", i, q), m, beacon, false, "C24:accepts:replace-entry")
		m = clonePB(pb)
		m.SegmentInfo = append([]byte(nil), otherPB.SegmentInfo...)
		all("replace-info", "segment information of another valid segment", m, beacon, false, "C24:accepts:replace-info")
	}

	// 5. signer identity: entry i signed (correctly, over the right associated data) by somebody else;
	// all other entries remain validly signed.
	{
		i := rng.IntN(n)
		var y *c24AS
		for {
			y = w.ases[rng.IntN(len(w.ases))]
			if y != spec.entries[i].as {
				break
			}
		}
		variants := []struct {
			kind string
			f    func(e *c24Entry)
		}{
			{"foreign-signer/key-id-names-signer", func(e *c24Entry) { e.id = y.good }},
			{"foreign-signer/key-id-names-entry-as", func(e *c24Entry) { e.id = y.good; e.keyIDIA = e.as.ia }},
			{"uncertified-key", func(e *c24Entry) { e.id = nil; e.key = w.orphan[rng.IntN(len(w.orphan))] }},
			{"own-key-id-names-other-as", func(e *c24Entry) { e.keyIDIA = y.ia }},
		}
		for _, vr := range variants {
			s := spec.clone()
			vr.f(&s.entries[i])
			if mp, err := s.build(rng); err == nil {
				all(vr.kind, fmt.Sprintf("entry %d (%s) signer %s", i, spec.entries[i].as.ia, y.ia), seg.PathSegmentToPB(mp), beacon, false, "C24:accepts:"+vr.kind)
			} else {
				r.Inconclusive("fixture-build")
			}
		}
	}

	// 6. certificate validity vs. hop lifetime
	c.validity(rng, base, spec, mk)

	// 7. the same segments through the entry points the consumers use, under
	// delays, cancellations and deadline expiries (c24sched.go)
	c.schedPhase(base, items)
}

// validity builds segments in which one entry is signed with a key whose
// certificate does or does not cover [timestamp, timestamp + hop lifetime].
func (c *c24Ctx) validity(rng *rand.Rand, base int, spec c24Spec, mk func(kind, detail, cfg string) c24Case) {
	r, w := c.r, c.w
	n := len(spec.entries)
	i := rng.IntN(n)
	as := spec.entries[i].as
	now := w.now0
	// expFor returns an ExpTime whose lifetime is <= d (within) or > d.
	expFor := func(d time.Duration, within bool) (uint8, bool) {
		m, ok := beaconref.MaxExpTimeWithin(d)
		if within {
			if !ok {
				return 0, false
			}
			return uint8(rng.IntN(int(m) + 1)), true
		}
		lo := 0
		if ok {
			lo = int(m) + 1
		}
		if lo > 255 {
			return 0, false
		}
		if rng.IntN(2) == 0 {
			return uint8(lo), true // just beyond
		}
		return uint8(lo + rng.IntN(256-lo)), true
	}
	type scen struct {
		name   string
		id     *c24Ident
		ts     time.Time
		exp    uint8
		wantOK bool
		valid  bool
	}
	var pairs [][2]scen // [positive companion, negative]
	add := func(pos, neg scen) { pairs = append(pairs, [2]scen{pos, neg}) }
	mins := func(k int) time.Duration { return time.Duration(k) * time.Minute }

	{ // short: certificate ends 2 h after setup
		ts := now.Add(-time.Duration(rng.IntN(30*60)) * time.Second)
		room := as.shortNA.Sub(ts)
		eOK, ok1 := expFor(room, true)
		eBad, ok2 := expFor(room, false)
		add(scen{"cert-ends-after-hop-expiry", as.short, ts, eOK, true, ok1},
			scen{"cert-ends-before-hop-expiry", as.short, ts, eBad, false, ok2})
	}
	{ // late: certificate starts 5 min before setup
		tsOK := now.Add(-time.Duration(rng.IntN(4*60)) * time.Second)
		tsBad := now.Add(-mins(6) - time.Duration(rng.IntN(24*60))*time.Second)
		e := uint8(rng.IntN(256))
		add(scen{"cert-starts-before-timestamp", as.late, tsOK, e, true, true},
			scen{"cert-starts-after-timestamp", as.late, tsBad, e, false, true})
	}
	{ // split: two certificates for one key, neither covers the whole lifetime
		ts := now.Add(-mins(21) - time.Duration(rng.IntN(9*60))*time.Second)
		room := as.splitANA.Sub(ts)
		eOK, ok1 := expFor(room, true)
		eBad, ok2 := expFor(room, false)
		add(scen{"two-certs/first-covers", as.split, ts, eOK, true, ok1},
			scen{"two-certs/only-union-covers", as.split, ts, eBad, false, ok2})
	}
	{ // exact boundaries (certificate times have 1 s resolution, hop lifetimes 0.5 s)
		eOdd := uint8(31 + 2*rng.IntN(6))  // (1+e) even: whole seconds, 3h..3h56
		eEven := uint8(32 + 2*rng.IntN(5)) // lifetime ends on a half second
		dOdd, dEven := beaconref.ExpTimeDuration(eOdd), beaconref.ExpTimeDuration(eEven)
		add(scen{"hop-expiry==cert-not-after", as.edge, as.edgeNA.Add(-dOdd), eOdd, true, true},
			scen{"hop-expiry==cert-not-after+1s", as.edge, as.edgeNA.Add(-dOdd).Add(time.Second), eOdd, false, true})
		add(scen{"hop-expiry==cert-not-after-0.5s", as.edge, as.edgeNA.Add(-dEven - 500*time.Millisecond), eEven, true, true},
			scen{"hop-expiry==cert-not-after+0.5s", as.edge, as.edgeNA.Add(-dEven + 500*time.Millisecond), eEven, false, true})
		eIn := uint8(rng.IntN(42)) // <= 4 h - so that the lifetime ends inside the certificate
		add(scen{"timestamp==cert-not-before", as.edge, as.edgeNB, eIn, true, true},
			scen{"timestamp==cert-not-before-1s", as.edge, as.edgeNB.Add(-time.Second), eIn, false, true})
	}
	buildScen := func(s scen) (*cppb.PathSegment, bool) {
		sp := spec.clone()
		sp.ts = s.ts
		sp.segID = uint16(rng.IntN(1 << 16))
		sp.entries[i].id = s.id
		sp.entries[i].exp = s.exp
		ps, err := sp.build(rng)
		if err != nil {
			r.Inconclusive("fixture-build")
			return nil, false
		}
		if !ps.Info.Timestamp.Equal(s.ts) {
			r.Inconclusive("fixture-timestamp")
			return nil, false
		}
		return seg.PathSegmentToPB(ps), true
	}
	beacon := !spec.terminated
	for _, pr := range pairs {
		pos, neg := pr[0], pr[1]
		var posPB, negPB *cppb.PathSegment
		var ok bool
		if pos.valid {
			if posPB, ok = buildScen(pos); !ok {
				posPB = nil
			}
		}
		if neg.valid {
			if negPB, ok = buildScen(neg); !ok {
				negPB = nil
			}
		}
		detail := func(s scen) string {
			return fmt.Sprintf("entry %d of %d (%s), identity %s, timestamp = setup%+v, ExpTime %d (lifetime %v)",
				i, n, as.ia, s.id.kind, s.ts.Sub(now), s.exp, beaconref.ExpTimeDuration(s.exp))
		}
		// uncached and cold cache: negative first
		if negPB != nil {
			cs := mk("validity/"+neg.name, detail(neg), "uncached")
			c.check(cs, negPB, beacon, w.verifier(nil), false, "C24:accepts:cert-not-covering:"+neg.name)
			cs.Config = "cached-cold"
			c.check(cs, negPB, beacon, w.verifier(cache.New(time.Minute, 0)), false, "C24:accepts:cert-not-covering:"+neg.name)
		}
		if posPB != nil {
			cs := mk("validity/"+pos.name, detail(pos), "uncached")
			c.check(cs, posPB, beacon, w.verifier(nil), true, "C24:rejects-valid:"+pos.name)
			// warm cache: the same key has just been used for a lifetime its certificate covers
			warm := w.verifier(cache.New(time.Minute, 0))
			cs.Config = "cached"
			okWarm := c.check(cs, posPB, beacon, warm, true, "C24:rejects-valid:"+pos.name)
			if negPB != nil && okWarm {
				cs = mk("validity/"+neg.name, detail(neg)+"; cache warmed by a segment of the same key with "+detail(pos), "cached-warm")
				c.check(cs, negPB, beacon, warm, false, "C24:cached-chain-ignores-validity")
			}
		}
	}
}

func checkC24(r *mon.Run) {
	r.Rule = "segments of 1..10 entries (every length), open beacons and terminated segments, over 10 ASes in 2 ISDs whose forged " +
		"TRCs and certificate chains (P-256/384/521) sit in a real sqlite trust DB; verified by segverifier.VerifySegment with a real " +
		"trust.Verifier + FetchingProvider, without and with its chain cache. Mutations at the wire level (PathSegmentToPB -> " +
		"marshal -> mutate -> unmarshal -> SegmentFromPB/BeaconFromPB): XOR of bytes of segment info, every entry's header_and_body " +
		"and every earlier signature (sampled in quick, every byte in thorough), appended/deleted bytes, (r, n-s) malleation, " +
		"reorder/remove/insert/replace entries, swapped signatures or bodies, foreign info, truncated tails; re-signed variants: " +
		"foreign or uncertified signer, key id naming another AS, certificates not covering the hop lifetime incl. exact 1 s / 0.5 s " +
		"boundaries and two certificates whose union only covers. Structural mutations rejected by the parser are additionally fed " +
		"to VerifySegment without structural validation. class = mutation kind x verifier configuration x where it was detected. " +
		"Schedule phase (per family, PRNG-drawn): batches of 1-5 of the same genuine and altered segments go through " +
		"segverifier.StartVerification (UnitResult.SegError/Errors/Unit, one result per unit counted), seghandler.Handler.Handle " +
		"(Stats().VerifiedSegs, Storage.StoreSegs) and VerifySegment in goroutines, with a wrapper around the real verifier that per " +
		"unit and entry passes, yields, sleeps, returns ctx.Err(), ignores the context, blocks until the context is done, or cancels " +
		"the context from inside the call, under 8 schedules: no-fault, delay, cancel-before, expired-before, cancel-mid, " +
		"block-cancel (cancelled once every unit is blocked or finished), deadline-block and deadline-late (real 1-4 ms deadlines); " +
		"class = entry point / altered|genuine / schedule [/in-flight: that unit's worker was busy when the context became done]. " +
		"Local time zone of the verifying process (time.Local: UTC, +02:00, +05:45, +14:00, -08:00, -12:00; set between phases while no " +
		"worker runs) is a configuration dimension: the bases are split over UTC, an east and a west zone (all six in thorough), and a " +
		"local-trust-DB phase runs once per zone on a fresh in-memory sqlite trust DB behind FetchingProvider (recording remote) / " +
		"trust.Verifier (uncached, cold cache) / compat.Verifier / VerifySegment: segments of 1-3 entries parsed from the wire whose " +
		"probe entry is signed with a fresh key whose certificate(s) start d after / d before the timestamp or end d before / d after " +
		"the hop expiry, d in {0, 0.5 s, seconds, minutes, every hour 1..14, +-1 s around every zone offset}, plus two certificates of " +
		"which neither / one covers; class = localdb / zone / scenario / by=exact|seconds|minutes|hours / verifier / outcome. " +
		"Verifier state x engine faults (same phase, per zone 16 histories): ONE trust.Verifier (go-cache chain cache on / off) over a " +
		"switchable engine (FetchingProvider wrapper: GetChains error; trust DB Chains / SignedTRC read error; remote fetch error; " +
		"cancelled / expired context) first verifies a covered segment (warm-up), then segments signed by the same key (one certificate) " +
		"whose hop lifetime ends after NotAfter or starts before NotBefore by seconds/minutes/hours, and covered ones, under the " +
		"history's fault or a healthy engine (single-fault plans: fixed multiset in PRNG order; mixed plans: PRNG-drawn fault x segment); " +
		"class = cache-fault / cache=on|off / engine state / covered|uncovered / outcome [/ engine=not-asked|answered|failed]"
	r.Assumptions = []string{
		"oracle: verifies <=> untouched or truncated tail (or a re-signed positive control); everything else must be rejected by parser or VerifySegment",
		"all certificates and TRCs are valid at the wall-clock time of the run with margins of >= 2 h (run time is capped below that by the watchdog), so no verdict depends on time.Now()",
		"nothing is asserted about alterations of the last entry's own signature (ECDSA malleability); they are recorded as events",
		"the remote trust fetcher is a stub that has no additional material",
		"hash collisions / signature forgeries are not expected",
		"schedule phase: an altered segment must never be presented as verified whatever the schedule (so no verdict depends on timing); " +
			"a genuine segment is only required to verify under the no-fault schedule, under delay/cancellation/expiry its outcome is recorded; " +
			"a result missing after the 60 s watchdog, a surplus or an unattributable result is inconclusive",
		"the fault-injecting wrapper returns success only if the real verifier returned success for that very call",
		"local-trust-DB phase: oracle = verifies <=> some certificate of the signing key has NotBefore <= timestamp and NotAfter >= timestamp + (1+ExpTime)*337.5 s " +
			"(instants compared, computed from the issued certificate fields; the same inclusive lifetime as the validity cases of the main phase); the zone never enters the oracle; " +
			"late-starting certificates started >= 5 min before setup, early-ending ones end >= 2 h 10 min after it; whether the remote was asked is recorded, not judged",
		"cache-fault histories: an uncovered segment must never verify whatever the engine does and whatever the verifier has cached; a covered one must " +
			"verify when the engine is healthy for that call (also after earlier faults); a covered one under a fault is recorded, not judged; " +
			"faults are switches / already-done contexts, never timing",
		"time.Local is written only by the check's main goroutine between phases, after every worker goroutine has been joined, and restored at the end",
	}
	if err := beaconref.SelfTest(); err != nil {
		fmt.Fprintln(os.Stderr, "reference self-test failed:", err)
		os.Exit(2)
	}
	w, err := c24NewWorld()
	if err != nil {
		fmt.Fprintln(os.Stderr, "fixtures:", err)
		os.Exit(2)
	}
	defer w.close()
	// time.Local is a configuration dimension (c24local.go). It is written
	// only here and in c24EnterZone, on this goroutine, while no worker runs.
	origLocal := time.Local
	defer func() { time.Local = origLocal }()
	lsamples := new(atomic.Int64)

	// local-trust-DB phase: once per zone
	lfix, err := c24NewLFix(w.now0)
	if err != nil {
		fmt.Fprintln(os.Stderr, "fixtures (local trust DB phase):", err)
		os.Exit(2)
	}
	tLocal := time.Now()
	for _, z := range c24Zones() {
		if !c24EnterZone(r, z) {
			continue
		}
		(&c24Ctx{r: r, w: w, zone: z.name, lsamples: lsamples}).localDBPhase(lfix, z)
	}
	r.Extra("localdb_phase_wall_s", time.Since(tLocal).Seconds())

	// main phase: the bases are split over the zones in contiguous ranges (every
	// range visits every segment length); one round per zone, workers joined in between
	bases := r.Pick(100, 120)
	const workers = 12
	mz := c24MainZones(r)
	roundWall := map[string]float64{}
	for k, z := range mz {
		tRound := time.Now()
		lo, hi := k*bases/len(mz), (k+1)*bases/len(mz)
		// longest families first, handed out dynamically; the cases of a base
		// depend on the base's own PRNG stream only
		var order []int
		for n := 10; n >= 1; n-- {
			for b := lo; b < hi; b++ {
				if 1+b%10 == n {
					order = append(order, b)
				}
			}
		}
		if !c24EnterZone(r, z) {
			continue
		}
		c := &c24Ctx{r: r, w: w, zone: z.name, lsamples: lsamples}
		var next atomic.Int64
		var wg sync.WaitGroup
		for wk := 0; wk < workers; wk++ {
			wg.Add(1)
			go func() {
				defer wg.Done()
				for {
					i := int(next.Add(1)) - 1
					if i >= len(order) {
						return
					}
					b := order[i]
					c.family(r.Rand(fmt.Sprint("c24-b", b)), b)
				}
			}()
		}
		wg.Wait()
		r.Class("main-phase/local-zone-side=" + z.side)
		r.Event("main_phase_round/zone=" + z.name)
		roundWall[z.name] = time.Since(tRound).Seconds()
	}
	r.Extra("main_phase_round_wall_s", roundWall)
	time.Local = origLocal
	r.Extra("remote_fetch_attempts", w.fetches.Load())
	lcls, levs := c24LocalRequire()
	r.Require(int64(bases*80)+int64(len(lcls)), 120+len(lcls), append([]string{"accept", "reject_verify", "reject_parse", "reject_verify_lenient",
		"malleated_signature_valid_on_its_own",
		"sched_altered_rejected", "sched_altered_in_flight_when_context_done_rejected", "sched_genuine_verified",
		"sched_cancelled_from_inside_a_verification_call", "sched_segverifier_results"}, levs...)...)
	r.Extra("sched_segverifier_units_started", r.Events("sched_segverifier_units_started"))
	r.Extra("sched_segverifier_results", r.Events("sched_segverifier_results"))
	r.RequireClasses(c24SchedRequire()...)
	r.RequireClasses(lcls...)
	r.RequireClasses("main-phase/local-zone-side=utc", "main-phase/local-zone-side=east", "main-phase/local-zone-side=west")
	r.RequireClasses(
		"untouched/uncached/verifies", "untouched/cached/verifies",
		"truncate-tail/uncached/verifies", "truncate-tail/cached/verifies",
		"malleate-earlier-signature/uncached/detected-by=verify", "malleate-earlier-signature/cached/detected-by=verify",
		"validity/cert-ends-before-hop-expiry/uncached/detected-by=verify",
		"validity/hop-expiry==cert-not-after/uncached/verifies",
	)
}
