package main

import "verif/mon"

func checkC24(r *mon.Run) {}
