// Command beacon serves the beaconing and segment properties C23 (beacon
// extension), C24 (segment verification) and C26 (beacon selection).
package main

import "verif/mon"

func main() {
	mon.Main(map[string]func(*mon.Run){
		"C23": checkC23,
		"C24": checkC24,
		"C26": checkC26,
	})
}
