package main

// C24, local-trust-DB phase: verifier STATE x engine FAULTS.
//
// The control service and the daemon run ONE long-lived trust.Verifier with a
// chain cache in front of the trust engine (FetchingProvider over the trust DB
// and a remote fetcher). The clause "signed by a key certified ... with a
// certificate covering the hop field's lifetime" must hold whatever that
// verifier has seen before and whatever the engine does at the moment of the
// lookup. A history here is: one verifier (with / without cache) over an engine
// whose layers can be switched to fail; first a segment whose probe entry's
// certificate covers the lifetime is verified (warms the cache), then segments
// signed by the SAME key whose hop lifetime is or is not covered by that one
// certificate are verified while the engine is healthy or failing (GetChains
// error, DB read errors, remote fetch error, cancelled / expired context).
//
// Oracle (statement only): an uncovered segment never verifies; a covered one
// verifies while the engine is healthy; a covered one under a fault is recorded.

import (
	"context"
	"crypto/elliptic"
	"crypto/x509"
	"errors"
	"fmt"
	"math/rand/v2"
	"net"
	"sync"
	"sync/atomic"
	"time"

	"github.com/patrickmn/go-cache"

	"github.com/scionproto/scion/pkg/addr"
	cppb "github.com/scionproto/scion/pkg/proto/control_plane"
	"github.com/scionproto/scion/pkg/scrypto/cppki"
	seg "github.com/scionproto/scion/pkg/segment"
	"github.com/scionproto/scion/private/segment/segverifier"
	"github.com/scionproto/scion/private/storage/trust/sqlite"
	"github.com/scionproto/scion/private/trust"
	"github.com/scionproto/scion/private/trust/compat"

	"verif/beaconpki"
	"verif/beaconref"
	"verif/mon"
)

// ---- faults ----

const (
	c24FHealthy = iota
	c24FEngineError
	c24FDBChains
	c24FDBTRC
	c24FRemote
	c24FCtxCancelled
	c24FCtxExpired
	c24FCount
)

var c24FNames = [c24FCount]string{"healthy", "engine-error", "db-chains-error", "db-trc-error", "remote-error",
	"ctx-cancelled", "ctx-expired"}

// c24FState is the switch of one history's engine (a history is sequential;
// atomics only because the engine is called through interfaces).
type c24FState struct {
	mode        atomic.Int32
	engineCalls atomic.Int64 // GetChains calls that reached the engine
	engineErrs  atomic.Int64 // ... that returned an error
	remoteAsks  atomic.Int64
}

// c24FEngine wraps the real FetchingProvider.
type c24FEngine struct {
	st    *c24FState
	inner trust.Provider
}

func (e *c24FEngine) NotifyTRC(ctx context.Context, id cppki.TRCID, opts ...trust.Option) error {
	return e.inner.NotifyTRC(ctx, id, opts...)
}

func (e *c24FEngine) GetSignedTRC(ctx context.Context, id cppki.TRCID, opts ...trust.Option) (cppki.SignedTRC, error) {
	return e.inner.GetSignedTRC(ctx, id, opts...)
}

func (e *c24FEngine) GetChains(ctx context.Context, q trust.ChainQuery, opts ...trust.Option) ([][]*x509.Certificate, error) {
	e.st.engineCalls.Add(1)
	if e.st.mode.Load() == c24FEngineError {
		e.st.engineErrs.Add(1)
		return nil, errors.New("injected: trust engine unavailable")
	}
	chains, err := e.inner.GetChains(ctx, q, opts...)
	if err != nil {
		e.st.engineErrs.Add(1)
	}
	return chains, err
}

// c24FDB wraps the real sqlite trust DB.
type c24FDB struct {
	trust.DB
	st *c24FState
}

func (d c24FDB) Chains(ctx context.Context, q trust.ChainQuery) ([][]*x509.Certificate, error) {
	if d.st.mode.Load() == c24FDBChains {
		return nil, errors.New("injected: database is locked")
	}
	return d.DB.Chains(ctx, q)
}

func (d c24FDB) SignedTRC(ctx context.Context, id cppki.TRCID) (cppki.SignedTRC, error) {
	if d.st.mode.Load() == c24FDBTRC {
		return cppki.SignedTRC{}, errors.New("injected: disk I/O error")
	}
	return d.DB.SignedTRC(ctx, id)
}

// c24FFetcher is the remote: it has nothing; in remote-error mode it fails.
type c24FFetcher struct{ st *c24FState }

func (f c24FFetcher) Chains(context.Context, trust.ChainQuery, net.Addr) ([][]*x509.Certificate, error) {
	f.st.remoteAsks.Add(1)
	if f.st.mode.Load() == c24FRemote {
		return nil, errors.New("injected: remote unreachable")
	}
	return nil, nil
}

func (f c24FFetcher) TRC(context.Context, cppki.TRCID, net.Addr) (cppki.SignedTRC, error) {
	return cppki.SignedTRC{}, errors.New("no such TRC")
}

// ---- histories ----

const (
	c24FKCovered     = "covered"
	c24FKEndsBefore  = "cert-ends-before-hop-expiry"
	c24FKStartsAfter = "cert-starts-after-timestamp"
)

type c24FSeg struct {
	kind    string
	covered bool
	ts      time.Time
	exp     uint8
	by      time.Duration // how far the lifetime sticks out of the certificate (uncovered)
	spec    c24Spec
	brng    *rand.Rand
	pb      *cppb.PathSegment
	beacon  bool
}

type c24FStep struct{ fault, seg int }

type c24FHist struct {
	cacheOn bool
	plan    string
	ia      addr.IA
	n, idx  int
	nb, na  time.Time // requested, replaced by the issued certificate's fields
	segs    []*c24FSeg
	steps   []c24FStep // steps[0] = warm-up: healthy engine, covered segment
}

type c24FStepWit struct {
	Step      int    `json:"step"`
	Engine    string `json:"engine"`
	Segment   string `json:"segment"`
	Timestamp string `json:"segment_timestamp_utc"`
	ExpTime   uint8  `json:"exp_time"`
	HopExpiry string `json:"hop_expiry_utc"`
	Covered   bool   `json:"certificate_covers_the_lifetime"`
	Outcome   string `json:"outcome"`
	Lookups   int64  `json:"engine_chain_lookups"`
	Failed    int64  `json:"engine_chain_lookups_failed"`
	Wire      string `json:"segment_wire_hex,omitempty"`
}

type c24FWitness struct {
	Replay  string        `json:"replay"`
	Zone    string        `json:"local_time_zone"`
	Cache   string        `json:"verifier_chain_cache"`
	Plan    string        `json:"plan"`
	IA      string        `json:"probe_isd_as"`
	Entries int           `json:"entries"`
	Entry   int           `json:"probe_entry"`
	Cert    string        `json:"only_certificate_of_the_signing_key_utc"`
	Steps   []c24FStepWit `json:"history_on_one_verifier"`
}

// c24FMaxExpWithin: the largest ExpTime whose hop expiry is <= na (-1: none).
func c24FMaxExpWithin(ts, na time.Time) int {
	best := -1
	for e := 0; e <= 255; e++ {
		if beaconref.HopExpiry(ts, uint8(e)).After(na) {
			break
		}
		best = e
	}
	return best
}

// c24FGen draws the histories of one zone: per history a fresh key with ONE
// certificate [nb, na] (inserted into tdb here, before anything reads) and the
// segments signed with it. Every goroutine started here has finished on return.
func (c *c24Ctx) c24FGen(rng *rand.Rand, f *c24LFix, tdb sqlite.DB) []*c24FHist {
	r := c.r
	now := f.now0
	s := time.Second
	secs := func(lo, hi int) time.Duration { return time.Duration(lo+rng.IntN(hi-lo+1)) * s }
	// how far an uncovered lifetime sticks out: seconds, minutes, hours, in turn
	var turn int
	excess := func() time.Duration {
		turn++
		switch turn % 3 {
		case 0:
			return secs(1, 59)
		case 1:
			return secs(60, 3599)
		}
		return secs(3600, 14*3600)
	}
	var hists []*c24FHist
	mk := func(cacheOn bool, plan string, single int) {
		h := &c24FHist{cacheOn: cacheOn, plan: plan}
		probe := f.probes[rng.IntN(len(f.probes))]
		h.ia = probe.ia
		h.n = 1 + rng.IntN(3)
		h.idx = rng.IntN(h.n)
		h.nb = now.Add(-c24LPastMargin - secs(0, 20*60))
		h.na = now.Add(c24LFutureMargin + secs(0, 60*60))
		perm := rng.Perm(len(f.fillers))
		terminated := rng.IntN(2) == 0
		next := addr.MustIAFrom(addr.ISD(1+rng.IntN(2)), addr.AS(0xff00_0000_0900+uint64(rng.IntN(100))))
		// the same ASes at the same positions in every segment of the history:
		// after the warm-up the fillers' (covering) chains are cached as well
		addSeg := func(kind string, ts time.Time, exp uint8) {
			sg := &c24FSeg{kind: kind, covered: kind == c24FKCovered, ts: ts, exp: exp, beacon: !terminated}
			sg.spec = c24Spec{ts: ts, segID: uint16(rng.IntN(1 << 16)), terminated: terminated, next: next}
			for i := 0; i < h.n; i++ {
				e := c24Entry{as: f.fillers[perm[i]], exp: uint8(rng.IntN(256)), mtu: 1200 + rng.IntN(8000)}
				e.id = e.as.good
				if i == h.idx {
					e.as, e.id, e.exp = probe, nil, exp
				}
				if i > 0 {
					e.ingress = uint16(1 + rng.IntN(65535))
				}
				if !(terminated && i == h.n-1) {
					e.egress = uint16(1 + rng.IntN(65535))
				}
				for j := range e.mac {
					e.mac[j] = byte(rng.IntN(256))
				}
				sg.spec.entries = append(sg.spec.entries, e)
			}
			sg.brng = rand.New(rand.NewPCG(rng.Uint64(), rng.Uint64()))
			h.segs = append(h.segs, sg)
		}
		covered := func() {
			ts := h.nb.Add(secs(0, int(now.Sub(h.nb)/s)))
			emax := c24FMaxExpWithin(ts, h.na)
			if emax < 0 {
				r.Inconclusive("cache-fault-fixture-no-exptime")
				return
			}
			e := rng.IntN(emax + 1)
			if rng.IntN(3) == 0 {
				e = emax
			}
			addSeg(c24FKCovered, ts, uint8(e))
		}
		endsBefore := func() {
			ts := h.nb.Add(secs(0, int(now.Sub(h.nb)/s)))
			e, ok := c24MinExpFor(h.na.Sub(ts) + excess())
			if !ok {
				r.Inconclusive("cache-fault-fixture-no-exptime")
				return
			}
			if e += rng.IntN(3); e > 255 {
				e = 255
			}
			addSeg(c24FKEndsBefore, ts, uint8(e))
		}
		startsAfter := func() {
			ts := h.nb.Add(-excess())
			emax := c24FMaxExpWithin(ts, h.na)
			if emax < 0 {
				r.Inconclusive("cache-fault-fixture-no-exptime")
				return
			}
			addSeg(c24FKStartsAfter, ts, uint8(rng.IntN(emax+1)))
		}
		// pool: 0,1 covered; 2,3 ends-before; 4,5 starts-after
		covered()
		covered()
		endsBefore()
		endsBefore()
		startsAfter()
		startsAfter()
		if len(h.segs) != 6 {
			return
		}
		h.steps = []c24FStep{{c24FHealthy, 0}}
		if single >= 0 {
			mid := []c24FStep{{single, 2}, {single, 4}, {single, 1}, {c24FHealthy, 3}, {c24FHealthy, 5}, {c24FHealthy, 0}}
			rng.Shuffle(len(mid), func(i, j int) { mid[i], mid[j] = mid[j], mid[i] })
			h.steps = append(h.steps, mid...)
			h.steps = append(h.steps, c24FStep{single, 3}, c24FStep{single, 5}, c24FStep{c24FHealthy, 1})
		} else {
			for k := 0; k < 10; k++ {
				h.steps = append(h.steps, c24FStep{rng.IntN(c24FCount), rng.IntN(6)})
			}
		}
		hists = append(hists, h)
	}
	for _, cacheOn := range []bool{true, false} {
		for fault := 0; fault < c24FCount; fault++ {
			mk(cacheOn, "single-fault/"+c24FNames[fault], fault)
		}
		mk(cacheOn, "mixed-faults", -1)
	}

	// keys, certificates, inserts, signatures: in parallel, nothing reads yet
	okh := make([]bool, len(hists))
	var wg sync.WaitGroup
	for wk := 0; wk < c24LWorkers; wk++ {
		wg.Add(1)
		go func() {
			defer wg.Done()
			for i := wk; i < len(hists); i += c24LWorkers {
				okh[i] = c.c24FBuild(f, tdb, hists[i])
			}
		}()
	}
	wg.Wait()
	var out []*c24FHist
	for i, h := range hists {
		if okh[i] {
			out = append(out, h)
		}
	}
	return out
}

func (c *c24Ctx) c24FBuild(f *c24LFix, tdb sqlite.DB, h *c24FHist) bool {
	r := c.r
	now := f.now0
	k, err := beaconpki.NewKey(elliptic.P256())
	if err != nil {
		r.Inconclusive("cache-fault-fixture-key")
		return false
	}
	chain, err := f.isd(h.ia).IssueAS(h.ia, k, h.nb, h.na)
	if err != nil {
		r.Inconclusive("cache-fault-fixture-issue")
		return false
	}
	if _, err := tdb.InsertChain(context.Background(), chain); err != nil {
		r.Inconclusive("cache-fault-fixture-insert-chain")
		return false
	}
	h.nb, h.na = chain[0].NotBefore, chain[0].NotAfter
	// valid at run time with the margins the assumptions state
	if h.nb.After(now.Add(-c24LPastMargin)) || h.na.Before(now.Add(c24LFutureMargin)) {
		r.Inconclusive("cache-fault-fixture-margin")
		return false
	}
	id := &c24Ident{kind: "cache-fault", ia: h.ia, key: k, chains: [][]*x509.Certificate{chain}}
	for _, sg := range h.segs {
		// expectation from the statement: the certificate covers [ts, ts + lifetime]
		end := beaconref.HopExpiry(sg.ts, sg.exp)
		cov := !sg.ts.Before(h.nb) && !end.After(h.na)
		if cov != sg.covered {
			r.Inconclusive("cache-fault-fixture-polarity")
			return false
		}
		switch sg.kind {
		case c24FKEndsBefore:
			sg.by = end.Sub(h.na)
		case c24FKStartsAfter:
			sg.by = h.nb.Sub(sg.ts)
		}
		sg.spec.entries[h.idx].id = id
		ps, err := sg.spec.build(sg.brng)
		if err != nil {
			r.Inconclusive("cache-fault-fixture-build")
			return false
		}
		sg.pb = seg.PathSegmentToPB(ps)
	}
	return true
}

// cacheFaultPhase runs the histories of one zone (called from localDBPhase
// under the zone, after its workers have been joined; joins its own).
func (c *c24Ctx) cacheFaultPhase(f *c24LFix, z c24Zone, tdb sqlite.DB) {
	hists := c.c24FGen(c.r.Rand("c24-cache-fault-"+z.name), f, tdb)
	var wg sync.WaitGroup
	for wk := 0; wk < c24LWorkers; wk++ {
		wg.Add(1)
		go func() {
			defer wg.Done()
			for i := wk; i < len(hists); i += c24LWorkers {
				c.cacheFaultHistory(f, z, tdb, hists[i])
			}
		}()
	}
	wg.Wait()
	c.r.Event("cache_fault_phase/zone=" + z.name)
}

func (c *c24Ctx) cacheFaultHistory(f *c24LFix, z c24Zone, tdb sqlite.DB, h *c24FHist) {
	r := c.r
	st := &c24FState{}
	cacheName := "off"
	var ch *cache.Cache
	if h.cacheOn {
		cacheName = "on"
		ch = cache.New(time.Minute, 0)
	}
	// ONE verifier for the whole history, as the services hold it
	v := compat.Verifier{Verifier: trust.Verifier{
		Engine: &c24FEngine{st: st, inner: trust.FetchingProvider{
			DB:       c24FDB{DB: tdb, st: st},
			Recurser: trust.ASLocalRecurser{IA: f.local},
			Fetcher:  c24FFetcher{st: st},
			Router:   trust.LocalRouter{IA: f.local},
		}},
		Cache: ch,
	}}
	wit := c24FWitness{
		Replay: fmt.Sprintf("keys, certificates and signatures are fresh per process: re-run C24 with --seed %d --tier %s "+
			"(local trust DB phase, cache-fault histories, zone %s)", r.Seed, r.Tier, z.name),
		Zone: z.name, Cache: cacheName, Plan: h.plan, IA: h.ia.String(), Entries: h.n, Entry: h.idx,
		Cert: fmt.Sprintf("[%s, %s]", h.nb.UTC().Format(time.RFC3339), h.na.UTC().Format(time.RFC3339)),
	}
	for i, stp := range h.steps {
		sg := h.segs[stp.seg]
		fault := c24FNames[stp.fault]
		if i == 0 {
			fault = "warm-up"
		}
		r.Eval(1)
		raw, wire, err := c24Wire(sg.pb)
		if err != nil || wire == nil {
			r.Inconclusive("cache-fault-wire")
			return
		}
		var ps *seg.PathSegment
		if sg.beacon {
			ps, err = seg.BeaconFromPB(wire)
		} else {
			ps, err = seg.SegmentFromPB(wire)
		}
		if err != nil {
			r.Inconclusive("cache-fault-parse")
			return
		}
		if !ps.Info.Timestamp.Equal(sg.ts) {
			r.Inconclusive("cache-fault-fixture-timestamp")
			return
		}
		ctx, cancel := context.Background(), context.CancelFunc(func() {})
		switch stp.fault {
		case c24FCtxCancelled:
			ctx, cancel = context.WithCancel(ctx)
			cancel()
		case c24FCtxExpired:
			ctx, cancel = context.WithDeadline(ctx, time.Unix(1, 0))
		}
		calls0, errs0 := st.engineCalls.Load(), st.engineErrs.Load()
		st.mode.Store(int32(stp.fault))
		var verr error
		pv, stack := mon.Try(func() { verr = segverifier.VerifySegment(ctx, v, nil, ps) })
		st.mode.Store(c24FHealthy)
		cancel()
		calls, errs := st.engineCalls.Load()-calls0, st.engineErrs.Load()-errs0
		end := beaconref.HopExpiry(sg.ts, sg.exp)
		sw := c24FStepWit{Step: i, Engine: fault, Segment: sg.kind, Timestamp: sg.ts.UTC().Format(time.RFC3339),
			ExpTime: sg.exp, HopExpiry: end.UTC().Format(time.RFC3339Nano), Covered: sg.covered,
			Lookups: calls, Failed: errs}
		switch {
		case pv != nil:
			sw.Outcome = fmt.Sprint("panic: ", pv)
		case verr != nil:
			sw.Outcome = "verification error: " + trunc(verr.Error(), 300)
		default:
			sw.Outcome = "verified"
		}
		wit.Steps = append(wit.Steps, sw)
		last := &wit.Steps[len(wit.Steps)-1]
		desc := fmt.Sprintf("one trust.Verifier (chain cache %s) over the local trust DB, local time zone %s, step %d of the history, engine %s: "+
			"segment with timestamp %s, ExpTime %d, hop expiry %s, the signing key's only certificate is %s",
			cacheName, z.name, i, fault, sw.Timestamp, sg.exp, sw.HopExpiry, wit.Cert)
		switch {
		case pv != nil:
			last.Wire = mon.Hex(raw)
			r.Violation("C24:panic:"+mon.PanicSite(stack), fmt.Sprintf("VerifySegment panicked: %v\n%s", pv, stack), wit)
			return
		case !sg.covered && verr == nil:
			last.Wire = mon.Hex(raw)
			r.Violation("C24:cache-fault:verified-with-uncovering-certificate/"+c24FNames[stp.fault],
				desc+": the certificate does not cover the hop lifetime ("+sg.kind+" by "+sg.by.String()+"), the segment verifies", wit)
			return
		case sg.covered && stp.fault == c24FHealthy && verr != nil:
			if time.Since(f.now0) > 115*time.Minute {
				r.Inconclusive("fixture-certificates-expired-during-run")
				return
			}
			last.Wire = mon.Hex(raw)
			r.Violation("C24:cache-fault:valid-rejected/cache="+cacheName,
				desc+": the certificate covers the whole hop lifetime and the engine is healthy, verification failed: "+trunc(verr.Error(), 300), wit)
			return
		}
		outcome := "rejected"
		if verr == nil {
			outcome = "verifies"
		}
		engine := "not-asked"
		switch {
		case errs > 0:
			engine = "failed"
		case calls > 0:
			engine = "answered"
		}
		cov := "uncovered"
		if sg.covered {
			cov = "covered"
		}
		base := fmt.Sprintf("cache-fault/cache=%s/%s/%s/%s", cacheName, fault, cov, outcome)
		r.Class(base)
		r.Class(base + "/engine=" + engine)
		if !sg.covered {
			r.Class(fmt.Sprintf("cache-fault/cache=%s/%s/%s/by=%s/%s", cacheName, fault, sg.kind, c24LBucket(sg.by), outcome))
			r.Event("cache_fault_uncovered_rejected")
		} else if stp.fault == c24FHealthy {
			r.Event("cache_fault_covered_verified_on_healthy_engine")
		} else {
			r.Event("cache_fault_covered_under_fault_unjudged_" + outcome)
		}
	}
	r.Event("cache_fault_history/cache=" + cacheName)
	if h.cacheOn && h.plan == "single-fault/db-chains-error" && r.WantSample() && c24FSampleCtr.Add(1) <= 1 {
		r.Sample(wit)
	}
}

var c24FSampleCtr atomic.Int64

// c24CacheFaultRequire: without these the state x fault dimension was not exercised.
func c24CacheFaultRequire() (classes, events []string) {
	for _, cn := range []string{"on", "off"} {
		classes = append(classes,
			fmt.Sprintf("cache-fault/cache=%s/warm-up/covered/verifies", cn),
			fmt.Sprintf("cache-fault/cache=%s/healthy/covered/verifies", cn),
			fmt.Sprintf("cache-fault/cache=%s/healthy/uncovered/rejected/engine=answered", cn))
		for fault := 0; fault < c24FCount; fault++ {
			classes = append(classes, fmt.Sprintf("cache-fault/cache=%s/%s/uncovered/rejected", cn, c24FNames[fault]))
		}
		events = append(events, "cache_fault_history/cache="+cn)
	}
	// with a warm cache the lookup for the uncovered lifetime reaches the engine and fails there
	for fault := c24FHealthy + 1; fault < c24FCount; fault++ {
		classes = append(classes, fmt.Sprintf("cache-fault/cache=on/%s/uncovered/rejected/engine=failed", c24FNames[fault]))
	}
	for _, z := range c24Zones() {
		events = append(events, "cache_fault_phase/zone="+z.name)
	}
	events = append(events, "cache_fault_uncovered_rejected", "cache_fault_covered_verified_on_healthy_engine")
	return classes, events
}
