package main

import (
	"context"
	"encoding/json"
	"fmt"
	"math/rand/v2"
	"os"
	"sort"
	"strings"
	"time"

	"github.com/scionproto/scion/control/beacon"
	"github.com/scionproto/scion/pkg/addr"
	seg "github.com/scionproto/scion/pkg/segment"

	"verif/beaconref"
	"verif/mon"
)

// c26Case is a generated selection problem; it is also the replay witness.
type c26Case struct {
	K     int                `json:"k"`
	Cands [][]beaconref.Link `json:"candidates"` // ordered by length
	Got   []int              `json:"got,omitempty"`
	Note  string             `json:"note,omitempty"`
	Ctx   *c26CtxSpec        `json:"ctx,omitempty"` // context dimension (c26ctx.go); nil: context.Background()
}

func c26Gen(rng *rand.Rand) c26Case {
	pool := 3 + rng.IntN(9)
	ias := make([]uint64, pool)
	for i := range ias {
		ias[i] = uint64(addr.MustIAFrom(addr.ISD(1+rng.IntN(2)), addr.AS(0xff00_0000_0100+uint64(i))))
	}
	n := rng.IntN(13)
	if rng.IntN(40) == 0 {
		n = 13 + rng.IntN(20)
	}
	lens := make([]int, n)
	maxLen := min(pool, 8)
	narrow := rng.IntN(3) == 0 // many equal lengths
	for i := range lens {
		if narrow {
			lens[i] = 1 + rng.IntN(min(2, maxLen))
			if rng.IntN(2) == 0 {
				lens[i] = min(maxLen, 3)
			}
		} else {
			lens[i] = 1 + rng.IntN(maxLen)
		}
	}
	sort.Ints(lens)
	egMax := 1 + rng.IntN(3)
	pShare := []float64{0, 0.3, 0.6, 0.85, 1}[rng.IntN(5)]
	cands := make([][]beaconref.Link, n)
	for i := range cands {
		used := map[uint64]bool{}
		var links []beaconref.Link
		for j := 0; j < lens[i]; j++ {
			if i > 0 && j < len(cands[0]) && rng.Float64() < pShare && !used[cands[0][j].IA] {
				links = append(links, cands[0][j])
				used[cands[0][j].IA] = true
				continue
			}
			var ia uint64
			for {
				ia = ias[rng.IntN(pool)]
				if !used[ia] {
					break
				}
			}
			used[ia] = true
			links = append(links, beaconref.Link{IA: ia, Egress: uint16(1 + rng.IntN(egMax))})
		}
		cands[i] = links
	}
	// exact duplicates of an earlier candidate (same length keeps the order)
	if n >= 2 && rng.IntN(6) == 0 {
		i := 1 + rng.IntN(n-1)
		if len(cands[i]) == len(cands[i-1]) {
			cands[i] = append([]beaconref.Link(nil), cands[i-1]...)
		}
	}
	var k int
	switch x := rng.IntN(20); {
	case x < 2:
		k = 1
	case x < 4:
		k = n + rng.IntN(3)
	case x < 6 && n >= 2:
		k = n - 1
	default:
		k = 2 + rng.IntN(max(1, n))
	}
	if k < 1 {
		k = 1
	}
	return c26Case{K: k, Cands: cands}
}

// c26Beacons builds the beacons of a candidate list.
func c26Beacons(cands [][]beaconref.Link) []beacon.Beacon {
	beacons := make([]beacon.Beacon, len(cands))
	for i, links := range cands {
		beacons[i] = beacon.Beacon{Segment: c26Segment(links), InIfID: uint16(10 + i)}
	}
	return beacons
}

func c26Segment(links []beaconref.Link) *seg.PathSegment {
	ps := &seg.PathSegment{}
	for j, l := range links {
		ps.ASEntries = append(ps.ASEntries, seg.ASEntry{
			Local: addr.IA(l.IA),
			HopEntry: seg.HopEntry{HopField: seg.HopField{
				ConsIngress: uint16(j), ConsEgress: l.Egress,
			}},
		})
	}
	return ps
}

// c26Run judges one selection on a fresh algorithm instance.
func c26Run(r *mon.Run, c c26Case, sample bool) {
	beacons := c26Beacons(c.Cands)
	in := append([]beacon.Beacon(nil), beacons...)
	var res []beacon.Beacon
	p, stack := mon.Try(func() {
		res = beacon.DefaultSelectionAlgorithm().SelectBeacons(context.Background(), in, c.K)
	})
	c26Judge(r, "C26:", "", &c, &c, beacons, res, p, stack, sample)
}

// c26Judge compares the result res (or the panic p) of selecting c.K beacons
// from beacons (= c.Cands, in this order) with the reference, on this call's
// inputs alone. kp prefixes the violation keys, ep the event types; wit is the
// witness written with a violation (c itself, or the history c is a step of).
func c26Judge(r *mon.Run, kp, ep string, c *c26Case, wit any, beacons, res []beacon.Beacon, p any, stack string, sample bool) {
	n := len(c.Cands)
	further := "further:"
	if strings.HasPrefix(kp, "C26:ctx:") {
		further = "" // keys C26:ctx:<when>:most-diverse-expected
	}
	idx := make(map[*seg.PathSegment]int, n)
	ref := make([]beaconref.Cand, n)
	for i, links := range c.Cands {
		idx[beacons[i].Segment] = i
		ref[i] = beaconref.Cand{Links: links}
	}
	r.Eval(1)
	exp := beaconref.Select(ref, c.K)
	if p != nil {
		key := kp + "panic:" + mon.PanicSite(stack)
		if exp.K1 {
			key = kp + "k=1"
		}
		c.Note = fmt.Sprintf("panic: %v", p)
		r.Violation(key, fmt.Sprintf("SelectBeacons(n=%d, k=%d) panicked: %v at %s", n, c.K, p, mon.PanicSite(stack)), wit)
		if exp.K1 {
			r.Class("k=1/panic")
			r.Event(ep + "select_k1")
		}
		return
	}
	got := make([]int, 0, len(res))
	seen := map[int]bool{}
	bad := ""
	for _, b := range res {
		i, ok := idx[b.Segment]
		switch {
		case !ok:
			bad = "result contains a beacon that is not one of the candidates"
		case seen[i]:
			bad = fmt.Sprintf("candidate %d returned twice", i)
		}
		seen[i] = true
		got = append(got, i)
	}
	c.Got = got
	if sample && r.WantSample() {
		r.Sample(wit)
	}
	switch {
	case exp.All:
		cls := "n<k"
		if n == c.K {
			cls = "n==k"
		}
		if n == 0 {
			cls = "n==0"
		}
		r.Class("all/" + cls)
		r.Event(ep + "select_all")
		if bad != "" || len(got) != n {
			r.Violation(kp+"n<=k", fmt.Sprintf("n=%d <= k=%d but %d beacons returned (%s); expected all candidates", n, c.K, len(got), bad), wit)
		}
	case exp.K1:
		r.Event(ep + "select_k1")
		r.Class("k=1/returned")
		if bad != "" || len(got) != 1 {
			r.Violation(kp+"k=1", fmt.Sprintf("k=1 < n=%d: expected exactly one candidate, got %v (%s)", n, got, bad), wit)
		}
	default:
		diverse := exp.BestRest > exp.BestKept
		tie := "unique"
		if diverse {
			// shape of the competition among the remaining candidates
			cnt := 0
			for q := c.K - 1; q < n; q++ {
				if beaconref.Diversity(ref[0], ref[q]) == exp.BestRest {
					cnt++
				}
			}
			switch {
			case len(exp.Further) > 1:
				tie = "tie-div-len"
			case cnt > 1:
				tie = "tie-div"
			}
			if exp.Further[0] != c.K-1 {
				tie += "/not-first-remaining"
			}
		}
		outcome := "first-remaining"
		if diverse {
			outcome = "most-diverse"
		}
		r.Class(fmt.Sprintf("k>=2/%s/%s/keptdiv>0=%v/k=%s", outcome, tie, exp.BestKept > 0, bucket(c.K)))
		r.Event(ep + "select_" + outcome)
		if bad != "" || len(got) != c.K {
			r.Violation(kp+"count", fmt.Sprintf("n=%d > k=%d: expected exactly k distinct candidates, got %v (%s)", n, c.K, got, bad), wit)
			return
		}
		var extra []int
		for _, g := range got {
			if g >= c.K-1 {
				extra = append(extra, g)
			}
		}
		for _, kept := range exp.Keep {
			if !seen[kept] {
				r.Violation(kp+"kept", fmt.Sprintf("candidate %d is among the k-1=%d first ones but was not returned (got %v)", kept, c.K-1, got), wit)
				return
			}
		}
		if len(extra) != 1 {
			r.Violation(kp+"kept", fmt.Sprintf("expected exactly one candidate beyond the k-1 first ones, got %v", got), wit)
			return
		}
		ok := false
		for _, f := range exp.Further {
			if extra[0] == f {
				ok = true
			}
		}
		if !ok {
			key := kp + further + "first-remaining-expected"
			if diverse {
				key = kp + further + "most-diverse-expected"
			}
			r.Violation(key, fmt.Sprintf("n=%d k=%d: further candidate is %d (len %d, diversity %d); allowed %v "+
				"(best diversity among first k-1 = %d, best among remaining = %d)",
				n, c.K, extra[0], ref[extra[0]].Len(), beaconref.Diversity(ref[0], ref[extra[0]]),
				exp.Further, exp.BestKept, exp.BestRest), wit)
		}
	}
}

func bucket(k int) string {
	switch {
	case k <= 2:
		return "2"
	case k <= 4:
		return "3-4"
	default:
		return "5+"
	}
}

func checkC26(r *mon.Run) {
	defer c26CtxFlush(r) // the ctx/* classes are counted locally (c26ctx.go)
	r.Rule = "candidate lists of 0..32 loop-free beacons (1..8 AS entries, links drawn from a small pool and shared with the " +
		"first candidate with probability 0..1, many equal lengths, exact duplicates) ordered by length x k in 1..n+2; " +
		"the real baseAlgo.SelectBeacons result is compared with a literal transcription of the statement " +
		"(beaconref.Select); class = outcome (all / k=1 / most-diverse / first-remaining) x tie shape x kept diversity x k bucket. " +
		"History phase: 3..7 SelectBeacons calls on ONE DefaultSelectionAlgorithm() instance, and 2..5 rounds of queries " +
		"(propagate / register up, down, core) on ONE beacon.Store or CoreStore over an in-memory DB, while the candidate pool " +
		"evolves between calls (new shortest beacon of the same or another origin, further beacons, removals incl. the first, k " +
		"changes, identical repetition; recurring candidates are handed over as the same object or re-read as a new one); every " +
		"call is judged on its own inputs (keys C26:history:*); class history/<what changed since the previous call>. " +
		"Context dimension: about every 8th single case, every 3rd history call and 2 of 3 store queries are repeated with a context " +
		"that is already cancelled / past its deadline (standard library or the harness context c26Ctx), that reports done from " +
		"its n-th Err()/Done() poll on (n in 0..399, PRNG-chosen), or (stores) that the DB cancels right after it fetched the " +
		"candidates of a PRNG-chosen read; the DB either ignores the context or refuses reads once it is done. Whatever selection " +
		"is returned without error must be the reference's (keys C26:ctx:<when>:<what>); an error or an empty result under a done " +
		"context is only classed (ctx/<when>/<via>/error, /empty-result); classes ctx/<when>/<via or shape>/..."
	r.Assumptions = []string{
		"diversity of a candidate with respect to the first = number of links (AS, egress interface) of the first that do not appear in the candidate (documented meaning of Beacon.Diversity)",
		"candidates are ordered by length and loop-free (a link occurs at most once per beacon)",
		"ties in both diversity and length among remaining candidates: any of them is accepted",
		"k = 1 < n: only 'returns exactly one of the candidates, no panic' is judged (the statement has no first beacon to be diverse against)",
		"context dimension: the statement makes no exception for a cancelled or expired context, so a selection that is returned (no error, not empty) is judged like any other; 'done' never depends on the wall clock (poll counter, contexts cancelled on creation, cancellation by the harness DB)",
		"history phase: the stores run on a harness DB (control/beacon.DB) that returns the admitted candidates ordered by length, newest or oldest first among equal lengths, and records what it handed over; a store query is judged per DB read with k = the policy's BestSetSize; insertion and policy filtering are not judged here",
	}
	if f := r.ReplayFile(); f != "" {
		var raw struct {
			Witness json.RawMessage `json:"witness"`
		}
		var rep struct {
			Witness c26Case `json:"witness"`
		}
		var hist c26HistWitness
		b, err := os.ReadFile(f)
		if err == nil {
			err = json.Unmarshal(b, &raw)
		}
		if err == nil {
			err = json.Unmarshal(raw.Witness, &hist)
		}
		if err == nil && len(hist.Steps) == 0 {
			err = json.Unmarshal(raw.Witness, &rep.Witness)
		}
		if err != nil {
			fmt.Fprintln(os.Stderr, "replay:", err)
			os.Exit(2)
		}
		switch {
		case len(hist.Steps) > 0:
			c26ReplayHistory(r, hist)
		case rep.Witness.Ctx != nil:
			rep.Witness.Got, rep.Witness.Note = nil, ""
			c26RunCtxSpec(r, rep.Witness, c26ReplaySpec(rep.Witness.Ctx), true)
		default:
			rep.Witness.Got, rep.Witness.Note = nil, ""
			c26Run(r, rep.Witness, true)
		}
		r.Class("replay")
		r.Class("replay/1")
		return
	}
	rng := r.Rand("c26")
	// the minimal F5 input first, so that it is the first witness written
	c26Run(r, c26Case{K: 1, Cands: [][]beaconref.Link{{{IA: 1<<48 | 1, Egress: 1}}, {{IA: 1<<48 | 2, Egress: 1}}}}, false)
	n := r.Pick(300000, 6000000)
	tStart := time.Now() // phase durations are reported in the evidence only, they decide nothing
	// context dimension (c26ctx.go): its own PRNG stream, so that the cases and histories are the same with and
	// without it. About every 8th case is run a second time with a cancelled / expired / expiring context.
	crng := r.Rand("c26-ctx")
	ctxSampled := false
	for i := 0; i < n; i++ {
		c := c26Gen(rng)
		c26Run(r, c, i%(n/4) == 17 && i < 3*(n/4)) // 3 samples + 1 with a context; the history phase adds its own
		if crng.IntN(8) == 0 {
			c.Got, c.Note = nil, ""
			sample := !ctxSampled && i >= 3*(n/4) && len(c.Cands) > c.K && c.K >= 2
			ctxSampled = ctxSampled || sample
			c26RunCtx(r, c, crng, sample)
		}
	}
	// history phase (c26hist.go): repeated calls on one algorithm instance, directly and through the stores
	tHist := time.Now()
	hrng := r.Rand("c26-history")
	ha, hs := r.Pick(9000, 180000), r.Pick(1500, 30000)
	for i := 0; i < ha; i++ {
		c26AlgoHistory(r, hrng, crng, i == 5)
	}
	for i := 0; i < hs; i++ {
		c26StoreHistory(r, hrng, crng, i == 5 || i == 6)
	}
	r.Extra("wall_s_by_phase", map[string]float64{"single-calls": tHist.Sub(tStart).Seconds(), "histories": time.Since(tHist).Seconds()})
	r.Require(int64(n+n/16+ha*4+hs*4), 40, "select_all", "select_k1", "select_most-diverse", "select_first-remaining",
		"history_select_all", "history_select_k1", "history_select_most-diverse", "history_select_first-remaining",
		"history_store_select",
		"ctx_select_all", "ctx_select_k1", "ctx_select_most-diverse", "ctx_select_first-remaining")
	c26CtxRequire(r)
	r.RequireClasses("all/n<k", "all/n==k",
		"history/new-shortest-same-origin", "history/new-shortest-other-origin", "history/same-first", "history/first-removed",
		"history/first-changed-to-earlier-candidate", "history/candidates-recur", "history/candidates-added",
		"history/candidates-removed", "history/k-changed", "history/identical-call",
		"history/recurring-candidate-diversity-changed", "history/recurring-candidate-diversity-changed/same-origin",
		"history/store/propagate", "history/store/register-up", "history/store/register-down",
		"history/core-store/propagate", "history/core-store/register-core")
}
