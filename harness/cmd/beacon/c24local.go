package main

// C24, local-trust-DB phase and the local-time-zone dimension.
//
// A received segment carries its timestamp as seconds since the epoch; the
// parser turns it into a time.Time in the zone the verifying process runs in
// (time.Local). The clause "certificate covering the hop field's lifetime" is
// enforced, on the normal path, by the validity filter of the local trust DB
// (sqlite back-end) behind trust.FetchingProvider / trust.Verifier. This phase
// sends segments whose probe entry is signed with a key that has certificates
// starting shortly after the timestamp / ending shortly before the hop expiry
// (seconds, minutes, 1-14 hours), or just covering the lifetime by the same
// margins, through that stack - once per local time zone. The expectation is
// computed from the issued certificates and the statement alone and does not
// know about zones.
//
// time.Local is a plain global: it is only ever written by c24EnterZone, which
// is called from the check's main goroutine while no worker goroutine exists.

import (
	"context"
	"crypto/elliptic"
	"crypto/x509"
	"errors"
	"fmt"
	"math/rand/v2"
	"net"
	"os"
	"sync"
	"sync/atomic"
	"time"

	"github.com/patrickmn/go-cache"

	"github.com/scionproto/scion/pkg/addr"
	cppb "github.com/scionproto/scion/pkg/proto/control_plane"
	"github.com/scionproto/scion/pkg/scrypto/cppki"
	seg "github.com/scionproto/scion/pkg/segment"
	"github.com/scionproto/scion/private/segment/segverifier"
	"github.com/scionproto/scion/private/storage/db"
	"github.com/scionproto/scion/private/storage/trust/sqlite"
	"github.com/scionproto/scion/private/trust"
	"github.com/scionproto/scion/private/trust/compat"

	"verif/beaconpki"
	"verif/beaconref"
	"verif/mon"
)

// ---- zones ----

type c24Zone struct {
	name string // "UTC", "+02:00", ...
	side string // utc | east | west
	off  int    // seconds east of UTC
	loc  *time.Location
}

func c24Zones() []c24Zone {
	mk := func(name, side string, off int) c24Zone {
		loc := time.UTC
		if off != 0 {
			loc = time.FixedZone(name, off)
		}
		return c24Zone{name: name, side: side, off: off, loc: loc}
	}
	return []c24Zone{
		mk("UTC", "utc", 0),
		mk("+02:00", "east", 2*3600),
		mk("+05:45", "east", 5*3600+45*60),
		mk("+14:00", "east", 14*3600),
		mk("-08:00", "west", -8*3600),
		mk("-12:00", "west", -12*3600),
	}
}

// c24EnterZone makes z the process's local time zone. It must only be called
// while no goroutine of the check is running.
func c24EnterZone(r *mon.Run, z c24Zone) bool {
	time.Local = z.loc
	if _, off := time.Unix(0, 0).Zone(); off != z.off {
		r.Inconclusive("local-zone-not-effective")
		return false
	}
	r.Event("zone_effective/" + z.name)
	return true
}

// c24MainZones picks the zones the main (mutation + schedule) phase is split
// over: every zone in the thorough tier; UTC, one east and one west zone
// (drawn by the seed) in the quick tier.
func c24MainZones(r *mon.Run) []c24Zone {
	all := c24Zones()
	if r.Thorough() {
		return all
	}
	var east, west []c24Zone
	for _, z := range all {
		switch z.side {
		case "east":
			east = append(east, z)
		case "west":
			west = append(west, z)
		}
	}
	rng := r.Rand("c24-main-zones")
	return []c24Zone{all[0], east[rng.IntN(len(east))], west[rng.IntN(len(west))]}
}

// ---- fixtures ----

type c24LFix struct {
	now0    time.Time
	isds    []*beaconpki.ISD
	fillers []*c24AS // ASes with a long-lived certificate, sign the other entries
	probes  []*c24AS // ISD-ASes the probe identities are certified for
	local   addr.IA
}

func c24NewLFix(now time.Time) (*c24LFix, error) {
	f := &c24LFix{now0: now}
	for isdN := 1; isdN <= 2; isdN++ {
		isd, err := beaconpki.NewISD(addr.ISD(isdN), addr.AS(0xff00_0000_0200+uint64(isdN)*0x10), now)
		if err != nil {
			return nil, err
		}
		f.isds = append(f.isds, isd)
		for a := 0; a < 5; a++ {
			ia := addr.MustIAFrom(addr.ISD(isdN), addr.AS(0xff00_0000_0200+uint64(isdN)*0x10+uint64(a)))
			as := &c24AS{ia: ia}
			if a >= 3 {
				f.probes = append(f.probes, as)
				continue
			}
			k, err := beaconpki.NewKey(elliptic.P256())
			if err != nil {
				return nil, err
			}
			chain, err := isd.IssueAS(ia, k, now.Add(-30*24*time.Hour), now.Add(300*24*time.Hour))
			if err != nil {
				return nil, err
			}
			as.good = &c24Ident{kind: "good", ia: ia, key: k, chains: [][]*x509.Certificate{chain}}
			f.fillers = append(f.fillers, as)
		}
	}
	f.local = f.fillers[0].ia
	return f, nil
}

func (f *c24LFix) isd(ia addr.IA) *beaconpki.ISD { return f.isds[int(ia.ISD())-1] }

// c24RecFetcher is the remote: it has nothing, and records that it was asked.
type c24RecFetcher struct{ chains, trcs atomic.Int64 }

func (f *c24RecFetcher) Chains(context.Context, trust.ChainQuery, net.Addr) ([][]*x509.Certificate, error) {
	f.chains.Add(1)
	return nil, nil
}

func (f *c24RecFetcher) TRC(context.Context, cppki.TRCID, net.Addr) (cppki.SignedTRC, error) {
	f.trcs.Add(1)
	return cppki.SignedTRC{}, errors.New("no such TRC")
}

// ---- cases ----

const (
	c24LStartsAfter  = "cert-starts-after-timestamp"
	c24LStartsBefore = "cert-starts-before-timestamp"
	c24LEndsBefore   = "cert-ends-before-hop-expiry"
	c24LEndsAfter    = "cert-ends-after-hop-expiry"
	c24LNeither      = "two-certs/neither-covers"
	c24LOneCovers    = "two-certs/one-covers"
)

var c24LScenarios = []string{c24LStartsAfter, c24LStartsBefore, c24LEndsBefore, c24LEndsAfter}

type c24LCase struct {
	scen    string
	offs    []time.Duration
	bucket  string
	wantOK  bool
	ts      time.Time
	exp     uint8
	windows [][2]time.Time // as issued (certificate fields)
	n, idx  int
	ia      addr.IA
	beacon  bool
	pb      *cppb.PathSegment
}

type c24LWitness struct {
	Replay     string   `json:"replay"`
	Zone       string   `json:"local_time_zone"`
	Scenario   string   `json:"scenario"`
	Offsets    []string `json:"offsets"`
	Entries    int      `json:"entries"`
	Entry      int      `json:"probe_entry"`
	IA         string   `json:"probe_isd_as"`
	Timestamp  string   `json:"segment_timestamp_utc"`
	AsParsed   string   `json:"segment_timestamp_as_parsed"`
	ExpTime    uint8    `json:"exp_time"`
	Lifetime   string   `json:"hop_lifetime"`
	HopExpiry  string   `json:"hop_expiry_utc"`
	Certs      []string `json:"certificates_of_the_signing_key_utc"`
	Covered    bool     `json:"some_certificate_covers_the_lifetime"`
	Verifier   string   `json:"verifier"`
	Expect     string   `json:"expect"`
	Outcome    string   `json:"outcome"`
	RemoteAsks int64    `json:"remote_chain_requests"`
	Segment    string   `json:"segment_wire_hex"`
}

func c24LBucket(d time.Duration) string {
	switch {
	case d == 0:
		return "exact"
	case d < time.Minute:
		return "seconds"
	case d < time.Hour:
		return "minutes"
	}
	return "hours"
}

// c24LOffsets: seconds, minutes, every whole hour 1..14 and one second either
// side of every UTC offset in the zone list.
func c24LOffsets(rng *rand.Rand) []time.Duration {
	s, m, h := time.Second, time.Minute, time.Hour
	out := []time.Duration{
		1 * s, 2 * s, time.Duration(3+rng.IntN(57)) * s,
		1 * m, time.Duration(2+rng.IntN(57))*m + time.Duration(rng.IntN(60))*s, 59*m + 59*s,
	}
	for k := 1; k <= 14; k++ {
		out = append(out, time.Duration(k)*h)
	}
	for _, z := range c24Zones() {
		if z.off == 0 {
			continue
		}
		o := time.Duration(z.off) * s
		if o < 0 {
			o = -o
		}
		out = append(out, o-s, o+s)
		if o%h != 0 {
			out = append(out, o)
		}
	}
	// a few arbitrary ones in between
	for k := 0; k < 3; k++ {
		out = append(out, time.Duration(1+rng.IntN(13))*h+time.Duration(1+rng.IntN(3599))*s)
	}
	return out
}

func c24CeilSecond(t time.Time) time.Time {
	if tr := t.Truncate(time.Second); !tr.Equal(t) {
		return tr.Add(time.Second)
	}
	return t
}

// c24MinExpFor returns the smallest ExpTime whose lifetime is >= d.
func c24MinExpFor(d time.Duration) (int, bool) {
	for e := 0; e <= 255; e++ {
		if beaconref.ExpTimeDuration(uint8(e)) >= d {
			return e, true
		}
	}
	return 0, false
}

// certificates must be valid at the wall-clock time of the run (the provider
// verifies chains against the active TRC at time.Now()): a certificate that
// starts late has started >= 5 min before setup, one that ends early ends
// >= 2 h 10 min after setup.
const (
	c24LPastMargin   = 5 * time.Minute
	c24LFutureMargin = 130 * time.Minute
)

// c24LGen draws the cases of one zone. Certificates are issued and inserted
// into tdb here (under the zone, before anything reads), segments are signed
// here. Every goroutine it starts has finished when it returns.
func (c *c24Ctx) c24LGen(rng *rand.Rand, f *c24LFix, tdb sqlite.DB) []*c24LCase {
	r := c.r
	now := f.now0
	far := now.Add(100 * 24 * time.Hour)
	old := now.Add(-10 * 24 * time.Hour)
	jitter := func(max time.Duration) time.Duration {
		return time.Duration(rng.Int64N(int64(max/time.Second))) * time.Second
	}
	// expAtLeast: an ExpTime whose lifetime is >= need (PRNG-drawn above the minimum)
	expAtLeast := func(need time.Duration, even bool) (uint8, bool) {
		lo, ok := c24MinExpFor(need)
		if !ok {
			return 0, false
		}
		e := lo + rng.IntN(256-lo)
		if rng.IntN(3) == 0 {
			e = lo
		}
		if even && e%2 == 1 {
			if e++; e > 255 {
				e -= 2
			}
			if e < lo {
				return 0, false
			}
		}
		return uint8(e), true
	}
	// add draws everything that comes from the PRNG now and defers the
	// expensive part (key, certificates, DB insert, signatures) to a job that
	// the caller runs in parallel; slot order keeps the case list deterministic.
	var jobs []func() *c24LCase
	add := func(scen string, offs []time.Duration, wantOK bool, ts time.Time, exp uint8, windows ...[2]time.Time) {
		cs := &c24LCase{scen: scen, offs: offs, bucket: c24LBucket(offs[0]), wantOK: wantOK, ts: ts, exp: exp}
		probe := f.probes[rng.IntN(len(f.probes))]
		cs.ia = probe.ia
		cs.n = 1 + rng.IntN(3)
		cs.idx = rng.IntN(cs.n)
		spec := c24Spec{ts: ts, segID: uint16(rng.IntN(1 << 16)), terminated: rng.IntN(2) == 0}
		perm := rng.Perm(len(f.fillers))
		for i := 0; i < cs.n; i++ {
			e := c24Entry{as: f.fillers[perm[i]], exp: uint8(rng.IntN(256)), mtu: 1200 + rng.IntN(8000)}
			e.id = e.as.good
			if i == cs.idx {
				e.as, e.id, e.exp = probe, nil, exp // identity filled in by the job
			}
			if i > 0 {
				e.ingress = uint16(1 + rng.IntN(65535))
			}
			if !(spec.terminated && i == cs.n-1) {
				e.egress = uint16(1 + rng.IntN(65535))
			}
			for j := range e.mac {
				e.mac[j] = byte(rng.IntN(256))
			}
			spec.entries = append(spec.entries, e)
		}
		spec.next = addr.MustIAFrom(addr.ISD(1+rng.IntN(2)), addr.AS(0xff00_0000_0900+uint64(rng.IntN(100))))
		cs.beacon = !spec.terminated
		brng := rand.New(rand.NewPCG(rng.Uint64(), rng.Uint64()))
		jobs = append(jobs, func() *c24LCase {
			k, err := beaconpki.NewKey(elliptic.P256())
			if err != nil {
				r.Inconclusive("localdb-fixture-key")
				return nil
			}
			id := &c24Ident{kind: scen, ia: probe.ia, key: k}
			for _, w := range windows {
				chain, err := f.isd(probe.ia).IssueAS(probe.ia, k, w[0], w[1])
				if err != nil {
					r.Inconclusive("localdb-fixture-issue")
					return nil
				}
				if _, err := tdb.InsertChain(context.Background(), chain); err != nil {
					r.Inconclusive("localdb-fixture-insert-chain")
					return nil
				}
				id.chains = append(id.chains, chain)
				cs.windows = append(cs.windows, [2]time.Time{chain[0].NotBefore, chain[0].NotAfter})
			}
			// expectation from the statement: some certificate covers [ts, ts + lifetime]
			end := beaconref.HopExpiry(ts, exp)
			covered := false
			for _, w := range cs.windows {
				if !ts.Before(w[0]) && !end.After(w[1]) {
					covered = true
				}
				// valid at run time with the margins the assumptions state
				if w[0].After(now.Add(-c24LPastMargin)) || w[1].Before(now.Add(c24LFutureMargin)) {
					r.Inconclusive("localdb-fixture-margin")
					return nil
				}
			}
			if covered != wantOK {
				r.Inconclusive("localdb-fixture-polarity")
				return nil
			}
			spec.entries[cs.idx].id = id
			ps, err := spec.build(brng)
			if err != nil {
				r.Inconclusive("localdb-fixture-build")
				return nil
			}
			cs.pb = seg.PathSegmentToPB(ps)
			return cs
		})
	}

	offsets := c24LOffsets(rng)
	for _, d := range offsets {
		// certificate starts d after the timestamp
		ts := now.Add(-c24LPastMargin - d - jitter(20*time.Minute))
		add(c24LStartsAfter, []time.Duration{d}, false, ts, uint8(rng.IntN(256)), [2]time.Time{ts.Add(d), far})
	}
	for _, d := range append([]time.Duration{0}, offsets...) {
		// certificate starts d before the timestamp
		ts := now.Add(-c24LPastMargin - jitter(30*time.Minute))
		add(c24LStartsBefore, []time.Duration{d}, true, ts, uint8(rng.IntN(256)), [2]time.Time{ts.Add(-d), far})
	}
	for _, d := range append([]time.Duration{500 * time.Millisecond}, offsets...) {
		// certificate ends d before the hop field does
		ts := now.Add(-jitter(20 * time.Minute))
		half := d == 500*time.Millisecond
		exp, ok := expAtLeast(now.Sub(ts)+c24LFutureMargin+d+time.Second, half)
		if !ok {
			r.Inconclusive("localdb-fixture-no-exptime")
			continue
		}
		end := beaconref.HopExpiry(ts, exp)
		add(c24LEndsBefore, []time.Duration{d}, false, ts, exp, [2]time.Time{old, end.Add(-d).Truncate(time.Second)})
	}
	for _, d := range append([]time.Duration{0}, offsets...) {
		// certificate ends d after the hop field does (rounded up to the certificate's 1 s resolution)
		ts := now.Add(-jitter(20 * time.Minute))
		exp, ok := expAtLeast(now.Sub(ts)+c24LFutureMargin, d == 0 && rng.IntN(2) == 0)
		if !ok {
			r.Inconclusive("localdb-fixture-no-exptime")
			continue
		}
		end := beaconref.HopExpiry(ts, exp)
		add(c24LEndsAfter, []time.Duration{d}, true, ts, exp, [2]time.Time{old, c24CeilSecond(end).Add(d)})
	}
	// two certificates for the signing key
	for k := 0; k < 8; k++ {
		// neither covers, their union does: one ends d1 early, the other starts d2 late
		var d1, d2 time.Duration
		for {
			d1, d2 = offsets[rng.IntN(len(offsets))], offsets[rng.IntN(len(offsets))]
			if d1+d2 <= 20*time.Hour {
				break
			}
		}
		ts := now.Add(-c24LPastMargin - d2 - jitter(10*time.Minute))
		exp, ok := expAtLeast(now.Sub(ts)+c24LFutureMargin+d1+time.Second, false)
		if !ok {
			r.Inconclusive("localdb-fixture-no-exptime")
			continue
		}
		end := beaconref.HopExpiry(ts, exp)
		add(c24LNeither, []time.Duration{d1, d2}, false, ts, exp,
			[2]time.Time{old, end.Add(-d1).Truncate(time.Second)}, [2]time.Time{ts.Add(d2), far})
	}
	for k := 0; k < 8; k++ {
		// one does not cover (starts late or ends early by d), one covers with margins m1, m2
		d := offsets[rng.IntN(len(offsets))]
		m1, m2 := offsets[rng.IntN(len(offsets))], offsets[rng.IntN(len(offsets))]
		late := rng.IntN(2) == 0
		ts := now.Add(-c24LPastMargin - jitter(20*time.Minute))
		need := now.Sub(ts) + c24LFutureMargin
		if late {
			ts = now.Add(-c24LPastMargin - d - jitter(10*time.Minute))
			need = now.Sub(ts) + c24LFutureMargin
		} else {
			need += d + time.Second
		}
		exp, ok := expAtLeast(need, false)
		if !ok {
			r.Inconclusive("localdb-fixture-no-exptime")
			continue
		}
		end := beaconref.HopExpiry(ts, exp)
		bad := [2]time.Time{old, end.Add(-d).Truncate(time.Second)}
		if late {
			bad = [2]time.Time{ts.Add(d), far}
		}
		good := [2]time.Time{ts.Add(-m1), c24CeilSecond(end).Add(m2)}
		if rng.IntN(2) == 0 {
			add(c24LOneCovers, []time.Duration{d, m1, m2}, true, ts, exp, bad, good)
		} else {
			add(c24LOneCovers, []time.Duration{d, m1, m2}, true, ts, exp, good, bad)
		}
	}
	// keys, certificates, inserts (serialised by the DB's single write
	// connection; nothing reads yet) and signatures, in parallel
	slots := make([]*c24LCase, len(jobs))
	var wg sync.WaitGroup
	for wk := 0; wk < c24LWorkers; wk++ {
		wg.Add(1)
		go func() {
			defer wg.Done()
			for i := wk; i < len(jobs); i += c24LWorkers {
				slots[i] = jobs[i]()
			}
		}()
	}
	wg.Wait()
	var cases []*c24LCase
	for _, cs := range slots {
		if cs != nil {
			cases = append(cases, cs)
		}
	}
	return cases
}

const c24LWorkers = 12

// ---- the phase ----

var c24LDBCtr atomic.Int64

// localDBPhase runs the cases of one zone. The caller has entered the zone;
// every goroutine started here has finished when it returns.
func (c *c24Ctx) localDBPhase(f *c24LFix, z c24Zone) {
	r := c.r
	name := fmt.Sprintf("verif_c24_localdb_%d_%d", os.Getpid(), c24LDBCtr.Add(1))
	tdb, err := sqlite.New(name, &db.SqliteConfig{InMemory: true})
	if err != nil {
		r.Inconclusive("localdb-open: " + err.Error())
		return
	}
	defer tdb.Close()
	ctx := context.Background()
	for _, isd := range f.isds {
		if _, err := tdb.InsertTRC(ctx, isd.Signed); err != nil {
			r.Inconclusive("localdb-insert-trc")
			return
		}
	}
	for _, as := range f.fillers {
		for _, chain := range as.good.chains {
			if _, err := tdb.InsertChain(ctx, chain); err != nil {
				r.Inconclusive("localdb-insert-chain")
				return
			}
		}
	}
	cases := c.c24LGen(r.Rand("c24-localdb-"+z.name), f, tdb)

	// verification: read-only on the DB (the remote has nothing to insert)
	const workers = c24LWorkers
	var wg sync.WaitGroup
	for wk := 0; wk < workers; wk++ {
		wg.Add(1)
		go func() {
			defer wg.Done()
			for i := wk; i < len(cases); i += workers {
				for _, cfg := range []string{"uncached", "cached-cold"} {
					c.localDBJudge(f, z, tdb, cases[i], cfg)
				}
			}
		}()
	}
	wg.Wait()
	// verifier state x engine faults on the same DB (c24localfault.go)
	c.cacheFaultPhase(f, z, tdb)
	r.Event("localdb_phase/zone=" + z.name)
}

func (c *c24Ctx) localDBJudge(f *c24LFix, z c24Zone, tdb sqlite.DB, cs *c24LCase, cfg string) {
	r := c.r
	r.Eval(1)
	remote := &c24RecFetcher{}
	var ch *cache.Cache
	if cfg != "uncached" {
		ch = cache.New(time.Minute, 0)
	}
	v := compat.Verifier{Verifier: trust.Verifier{
		Engine: trust.FetchingProvider{
			DB:       tdb,
			Recurser: trust.ASLocalRecurser{IA: f.local},
			Fetcher:  remote,
			Router:   trust.LocalRouter{IA: f.local},
		},
		Cache: ch,
	}}
	raw, wire, err := c24Wire(cs.pb)
	if err != nil || wire == nil {
		r.Inconclusive("localdb-wire")
		return
	}
	var ps *seg.PathSegment
	if cs.beacon {
		ps, err = seg.BeaconFromPB(wire)
	} else {
		ps, err = seg.SegmentFromPB(wire)
	}
	if err != nil {
		// an unaltered segment: the main phase judges the parser
		r.Inconclusive("localdb-parse")
		return
	}
	if !ps.Info.Timestamp.Equal(cs.ts) {
		r.Inconclusive("localdb-fixture-timestamp")
		return
	}
	if _, off := ps.Info.Timestamp.Zone(); off == z.off {
		r.Event("localdb_parsed_timestamp_is_in_the_local_zone")
	} else {
		r.Event("localdb_parsed_timestamp_is_not_in_the_local_zone")
	}
	end := beaconref.HopExpiry(cs.ts, cs.exp)
	wit := func(outcome string) c24LWitness {
		w := c24LWitness{
			Replay: fmt.Sprintf("keys, certificates and signatures are fresh per process: re-run C24 with --seed %d --tier %s "+
				"(local trust DB phase, zone %s)", r.Seed, r.Tier, z.name),
			Zone: z.name, Scenario: cs.scen, Entries: cs.n, Entry: cs.idx, IA: cs.ia.String(),
			Timestamp: cs.ts.UTC().Format(time.RFC3339), AsParsed: ps.Info.Timestamp.Format(time.RFC3339),
			ExpTime: cs.exp, Lifetime: beaconref.ExpTimeDuration(cs.exp).String(),
			HopExpiry: end.UTC().Format(time.RFC3339Nano), Covered: cs.wantOK, Verifier: cfg,
			Expect: "rejected", Outcome: outcome, RemoteAsks: remote.chains.Load(), Segment: mon.Hex(raw),
		}
		if cs.wantOK {
			w.Expect = "verifies"
		}
		for _, d := range cs.offs {
			w.Offsets = append(w.Offsets, d.String())
		}
		for _, win := range cs.windows {
			w.Certs = append(w.Certs, fmt.Sprintf("[%s, %s]", win[0].UTC().Format(time.RFC3339), win[1].UTC().Format(time.RFC3339)))
		}
		return w
	}
	var verr error
	pv, stack := mon.Try(func() { verr = segverifier.VerifySegment(context.Background(), v, nil, ps) })
	if pv != nil {
		r.Violation("C24:panic:"+mon.PanicSite(stack), fmt.Sprintf("VerifySegment panicked: %v\n%s", pv, stack), wit(fmt.Sprint("panic: ", pv)))
		return
	}
	asked := remote.chains.Load() > 0
	desc := fmt.Sprintf("local trust DB, local time zone %s, %s by %v [%s]: timestamp %s, ExpTime %d, hop expiry %s, certificates of the signing key %v",
		z.name, cs.scen, cs.offs, cfg, cs.ts.UTC().Format(time.RFC3339), cs.exp, end.UTC().Format(time.RFC3339Nano), wit("").Certs)
	switch {
	case cs.wantOK && verr != nil:
		if time.Since(f.now0) > 115*time.Minute {
			r.Inconclusive("fixture-certificates-expired-during-run")
			return
		}
		r.Violation("C24:localdb:"+z.side+":valid-rejected",
			desc+": a certificate covers the whole hop lifetime, verification failed: "+trunc(verr.Error(), 300),
			wit("verification error: "+trunc(verr.Error(), 400)))
		return
	case !cs.wantOK && verr == nil:
		r.Violation("C24:localdb:"+z.side+":verified-with-uncovering-certificate",
			desc+": no certificate covers the whole hop lifetime, the segment verifies", wit("verified"))
		return
	}
	outcome := "rejected"
	if cs.wantOK {
		outcome = "verifies"
		r.Event("localdb_accept")
		if asked {
			r.Event("localdb_observed_remote_asked_although_a_local_chain_covers")
		} else {
			r.Event("localdb_covering_chain_served_from_the_local_db")
		}
	} else {
		r.Event("localdb_reject")
		if asked {
			r.Event("localdb_remote_asked_when_no_local_chain_covers")
		} else {
			r.Event("localdb_observed_rejected_without_asking_the_remote")
		}
	}
	base := fmt.Sprintf("localdb/zone=%s/%s", z.name, cs.scen)
	r.Class(base + "/" + outcome)
	r.Class(fmt.Sprintf("%s/by=%s/%s/%s", base, cs.bucket, cfg, outcome))
	if cs.scen == c24LStartsAfter && cs.bucket == "hours" && r.WantSample() && c.lsamples.Add(1) <= 2 {
		r.Sample(wit(outcome))
	}
}

// c24LocalRequire: classes and events without which the zone dimension and
// the local-trust-DB path have not been exercised.
func c24LocalRequire() (classes, events []string) {
	for _, z := range c24Zones() {
		events = append(events, "zone_effective/"+z.name, "localdb_phase/zone="+z.name)
		for _, s := range c24LScenarios {
			outcome := "rejected"
			buckets := []string{"seconds", "minutes", "hours"}
			if s == c24LStartsBefore || s == c24LEndsAfter {
				outcome = "verifies"
				buckets = append(buckets, "exact")
			}
			classes = append(classes, fmt.Sprintf("localdb/zone=%s/%s/%s", z.name, s, outcome))
			for _, b := range buckets {
				for _, cfg := range []string{"uncached", "cached-cold"} {
					classes = append(classes, fmt.Sprintf("localdb/zone=%s/%s/by=%s/%s/%s", z.name, s, b, cfg, outcome))
				}
			}
		}
		classes = append(classes,
			fmt.Sprintf("localdb/zone=%s/%s/rejected", z.name, c24LNeither),
			fmt.Sprintf("localdb/zone=%s/%s/verifies", z.name, c24LOneCovers))
	}
	events = append(events, "localdb_accept", "localdb_reject",
		"localdb_covering_chain_served_from_the_local_db", "localdb_remote_asked_when_no_local_chain_covers")
	fcls, fevs := c24CacheFaultRequire()
	classes, events = append(classes, fcls...), append(events, fevs...)
	return classes, events
}
