package main

// C26 context dimension: the selection is called (directly, on a reused
// algorithm instance, and through a beacon.Store / CoreStore) with contexts
// that are already cancelled, already past their deadline, that become done at
// a PRNG-chosen poll DURING the call, or that are cancelled by the DB right
// after it handed over the candidates. Nothing here depends on the wall clock:
// "becoming done" is a property of the n-th call of Err()/Done().
//
// Oracle: the statement has no exception for a done context, so whenever a
// selection is returned without an error it must be the one the reference
// computes for that call's inputs. Giving up instead (an error, or an empty
// result although there were candidates, while the context is done) is
// recorded as a class and never judged.

import (
	"context"
	"fmt"
	"math/rand/v2"
	"sort"
	"sync"
	"time"

	"github.com/scionproto/scion/control/beacon"
	"github.com/scionproto/scion/pkg/addr"

	"verif/mon"
)

const (
	c26CancelledBefore = "cancelled-before"
	c26DeadlineBefore  = "deadline-before"
	c26DoneAtPollN     = "done-at-poll-n"
	c26StoreCancel     = "store-cancel-after-candidates"
)

// c26CtxSpec describes the context of one call; it is part of the witness.
type c26CtxSpec struct {
	When string `json:"when"` // cancelled-before | deadline-before | done-at-poll-n | store-cancel-after-candidates
	Impl string `json:"impl"` // stdlib | custom (c26Ctx)
	Err  string `json:"err"`  // canceled | deadline-exceeded
	// custom context: Err()/Done() report "done" from the N-th poll on (0 = from the first)
	N int `json:"done_from_poll"`
	// store path: the DB fails with ctx.Err() when the context it is given is done
	// (as a real DB would), and cancels the context after its CancelAfterRead-th read
	DBHonoursCtx    bool `json:"db_honours_ctx,omitempty"`
	CancelAfterRead int  `json:"cancel_after_read,omitempty"`
	// observed (store path: per DB read = per selection)
	PollsBeforeSelect int  `json:"polls_before_select,omitempty"`
	DoneBeforeSelect  bool `json:"done_before_select,omitempty"`
	Polls             int  `json:"polls_observed"`
	Done              bool `json:"done_for_callee"`
}

// keyWhen is the <when> part of the violation keys C26:ctx:<when>:<what>.
func (s *c26CtxSpec) keyWhen() string {
	switch s.When {
	case c26DoneAtPollN:
		if s.N > 0 {
			return "done-during-call"
		}
		if s.Err == "deadline-exceeded" {
			return c26DeadlineBefore
		}
		return c26CancelledBefore
	case c26StoreCancel:
		return "cancel-after-candidates"
	}
	return s.When
}

func (s *c26CtxSpec) err() error {
	if s.Err == "deadline-exceeded" {
		return context.DeadlineExceeded
	}
	return context.Canceled
}

// c26Ctx is a deterministic context: its Err() and Done() are polls, counted
// together; from the n-th poll on (or after cancelNow) they report "done".
type c26Ctx struct {
	mu        sync.Mutex
	n         int
	polls     int
	err       error
	ch        chan struct{}
	closed    bool
	reported  bool // a poll told the callee that the context is done
	cancelled bool // cancelNow was called
}

func newC26Ctx(n int, err error) *c26Ctx {
	return &c26Ctx{n: n, err: err} // the Done channel is made when somebody asks for it
}

var c26ClosedCh = func() chan struct{} { ch := make(chan struct{}); close(ch); return ch }()

// closeCh closes the Done channel (c.mu held).
func (c *c26Ctx) closeCh() {
	switch {
	case c.closed:
	case c.ch == nil:
		c.ch = c26ClosedCh
	default:
		close(c.ch)
	}
	c.closed = true
}

// c26PastDeadline is the deadline of the deadline contexts: a constant far in
// the past, so that no comparison with a clock can come out differently.
var c26PastDeadline = time.Unix(1, 0)

func (c *c26Ctx) Deadline() (time.Time, bool) {
	if c.err == context.DeadlineExceeded {
		return c26PastDeadline, true
	}
	return time.Time{}, false
}

func (c *c26Ctx) poll() bool {
	done := c.cancelled || c.polls >= c.n
	c.polls++
	if done {
		c.reported = true
		c.closeCh()
	}
	return done
}

func (c *c26Ctx) Done() <-chan struct{} {
	c.mu.Lock()
	defer c.mu.Unlock()
	c.poll()
	if c.ch == nil {
		c.ch = make(chan struct{})
	}
	return c.ch
}

func (c *c26Ctx) Err() error {
	c.mu.Lock()
	defer c.mu.Unlock()
	if c.poll() {
		return c.err
	}
	return nil
}

func (c *c26Ctx) Value(any) any { return nil }

func (c *c26Ctx) String() string { return "c26Ctx" }

// cancelNow makes the context done from now on (and wakes up anybody who
// waits on a Done channel obtained earlier), without counting as a poll.
func (c *c26Ctx) cancelNow() {
	c.mu.Lock()
	defer c.mu.Unlock()
	c.cancelled = true
	c.closeCh()
}

// c26LiveCtx is the context built from a spec.
type c26LiveCtx struct {
	spec   *c26CtxSpec
	ctx    context.Context
	custom *c26Ctx
	cancel context.CancelFunc
}

func c26MakeCtx(spec *c26CtxSpec) *c26LiveCtx {
	l := &c26LiveCtx{spec: spec}
	if spec.Impl == "custom" {
		n := spec.N
		switch spec.When {
		case c26CancelledBefore, c26DeadlineBefore:
			n = 0
		case c26StoreCancel:
			n = int(^uint(0) >> 1) // only cancelNow ends it
		}
		l.custom = newC26Ctx(n, spec.err())
		l.ctx = l.custom
		return l
	}
	switch spec.When {
	case c26DeadlineBefore:
		// a deadline in the past: the standard library cancels such a context
		// on creation, no timer is involved
		l.ctx, l.cancel = context.WithDeadline(context.Background(), c26PastDeadline)
	default:
		l.ctx, l.cancel = context.WithCancel(context.Background())
		if spec.When == c26CancelledBefore {
			l.cancel()
		}
	}
	return l
}

// cancelNow cancels the context (store path: the DB does it).
func (l *c26LiveCtx) cancelNow() {
	if l.custom != nil {
		l.custom.cancelNow()
		return
	}
	l.cancel()
}

func (l *c26LiveCtx) polls() int {
	if l.custom == nil {
		return 0
	}
	l.custom.mu.Lock()
	defer l.custom.mu.Unlock()
	return l.custom.polls
}

// doneNow tells, without polling, whether the context is done for a callee
// that looks at it now.
func (l *c26LiveCtx) doneNow() bool {
	if l.custom == nil {
		return l.ctx.Err() != nil
	}
	l.custom.mu.Lock()
	defer l.custom.mu.Unlock()
	return l.custom.cancelled || l.custom.polls >= l.custom.n
}

// done tells whether the callee can have learnt that the context is done.
func (l *c26LiveCtx) done() bool {
	if l.custom == nil {
		return l.ctx.Err() != nil
	}
	l.custom.mu.Lock()
	defer l.custom.mu.Unlock()
	return l.custom.cancelled || l.custom.reported
}

// finish records what was observed and releases the context.
func (l *c26LiveCtx) finish() {
	l.spec.Polls, l.spec.Done = l.polls(), l.done()
	if l.custom != nil {
		l.custom.mu.Lock()
		l.custom.closeCh() // nobody may keep waiting on it
		l.custom.mu.Unlock()
	} else {
		l.cancel()
	}
}

// c26GenCtx draws the context of a call.
// store: the call is a store query whose DB reads reads times (once per beacon source in a core store).
func c26GenCtx(rng *rand.Rand, store bool, reads int) *c26CtxSpec {
	s := &c26CtxSpec{Err: "canceled", Impl: "custom"}
	x := rng.IntN(10)
	switch {
	case x < 2:
		s.When = c26CancelledBefore
	case x < 3:
		s.When, s.Err = c26DeadlineBefore, "deadline-exceeded"
	case store && x >= 6:
		s.When = c26StoreCancel
	default:
		s.When = c26DoneAtPollN
		switch y := rng.IntN(10); {
		case y < 5:
			s.N = rng.IntN(16)
		case y < 8:
			s.N = rng.IntN(64)
		default:
			s.N = rng.IntN(400)
		}
		if rng.IntN(5) < 2 {
			s.Err = "deadline-exceeded"
		}
	}
	if s.When != c26DoneAtPollN && rng.IntN(2) == 0 {
		s.Impl = "stdlib"
	}
	if store {
		s.DBHonoursCtx = rng.IntN(2) == 0
		if s.When == c26StoreCancel {
			s.CancelAfterRead = rng.IntN(max(reads, 1))
		}
	}
	return s
}

// c26CtxSeen counts the ctx/* classes of the run (main goroutine only); they
// are handed to the monitor as classes and events by c26CtxFlush.
var c26CtxSeen = map[string]int64{}

func c26CtxCls(k string) { c26CtxSeen[k]++ }

func c26CtxFlush(r *mon.Run) {
	keys := make([]string, 0, len(c26CtxSeen))
	for k := range c26CtxSeen {
		keys = append(keys, k)
	}
	sort.Strings(keys)
	for _, k := range keys {
		r.Class(k)
		r.EventN(k, c26CtxSeen[k])
	}
	c26CtxSeen = map[string]int64{}
}

func c26NBucket(n int) string {
	switch {
	case n == 0:
		return "0"
	case n < 10:
		return "1-9"
	case n < 100:
		return "10-99"
	}
	return "100+"
}

// c26CtxClasses records how the call was exercised (independent of its outcome).
func c26CtxClasses(r *mon.Run, s *c26CtxSpec, via string) {
	cls := c26CtxCls
	cls("ctx/" + s.When + "/" + via)
	cls("ctx/" + s.When + "/" + s.Impl + "-context")
	switch s.When {
	case c26DoneAtPollN:
		cls("ctx/" + s.When + "/n=" + c26NBucket(s.N) + "/" + s.Err)
		switch {
		case s.N == 0:
			cls("ctx/" + s.When + "/done-from-the-first-poll")
		case s.Done:
			cls("ctx/" + s.When + "/reached-during-call")
		case s.Polls == 0:
			cls("ctx/" + s.When + "/never-polled")
		default:
			cls("ctx/" + s.When + "/polled-but-not-reached")
		}
	case c26StoreCancel:
		if s.Done {
			cls("ctx/" + s.When + "/cancelled")
		} else {
			cls("ctx/" + s.When + "/read-not-reached")
		}
	}
}

// c26JudgeCtx judges a call made with the context lc. via: algo | history-algo
// | store | core-store. The context must be finished already.
func c26JudgeCtx(r *mon.Run, s *c26CtxSpec, via string, c *c26Case, wit any, beacons, res []beacon.Beacon,
	p any, stack string, sample bool) {

	cls := c26CtxCls
	if p == nil && len(res) == 0 && len(beacons) > 0 && s.Done {
		// gave up because the context is done: acceptable, not judged
		cls("ctx/" + s.When + "/" + via + "/empty-result")
		c.Note = "empty result, context done"
		return
	}
	cls("ctx/" + s.When + "/" + via + "/selection-judged")
	if s.Done {
		cls("ctx/selection-returned-although-context-done")
	}
	c26Judge(r, "C26:ctx:"+s.keyWhen()+":", "ctx_", c, wit, beacons, res, p, stack, sample)
}

// c26RunCtx is c26Run with a context of the dimension.
func c26RunCtx(r *mon.Run, c c26Case, rng *rand.Rand, sample bool) {
	spec := c26GenCtx(rng, false, 0)
	c26RunCtxSpec(r, c, spec, sample)
}

func c26RunCtxSpec(r *mon.Run, c c26Case, spec *c26CtxSpec, sample bool) {
	c.Ctx = spec
	lc := c26MakeCtx(spec)
	beacons := c26Beacons(c.Cands)
	in := append([]beacon.Beacon(nil), beacons...)
	var res []beacon.Beacon
	p, stack := mon.Try(func() {
		res = beacon.DefaultSelectionAlgorithm().SelectBeacons(lc.ctx, in, c.K)
	})
	lc.finish()
	c26CtxClasses(r, spec, "algo")
	c26JudgeCtx(r, spec, "algo", &c, &c, beacons, res, p, stack, sample)
}

// c26ReplaySpec is the context a replay on the bare algorithm uses for a
// recorded call: what the selection saw of the context of a store query.
func c26ReplaySpec(s *c26CtxSpec) *c26CtxSpec {
	out := &c26CtxSpec{When: s.When, Impl: s.Impl, Err: s.Err, N: s.N}
	if out.Impl != "stdlib" {
		out.Impl = "custom"
	}
	switch {
	case s.DoneBeforeSelect:
		out.When = c26CancelledBefore
		if s.Err == "deadline-exceeded" {
			out.When = c26DeadlineBefore
		}
	case s.When == c26DoneAtPollN:
		out.N = max(0, s.N-s.PollsBeforeSelect)
	case s.When == c26StoreCancel:
		// not cancelled before this selection: a context that never ends
		out.When, out.Impl, out.N = c26DoneAtPollN, "custom", int(^uint(0)>>1)
	}
	return out
}

// ---- store path ----

// c26CtxQuery is the state of one store query that runs with a context of the
// dimension.
type c26CtxQuery struct {
	lc    *c26LiveCtx
	reads int
}

// c26CtxDB wraps the recording DB of the history phase. During a query with a
// context of the dimension it fails like a real DB when the context it is
// given is done (if the spec says so) and cancels the context right after the
// candidates of the chosen read were fetched.
type c26CtxDB struct {
	*c26DB
	q *c26CtxQuery
}

func (d *c26CtxDB) CandidateBeacons(ctx context.Context, setSize int, usage beacon.Usage, src addr.IA) ([]beacon.Beacon, error) {
	q := d.q
	if q == nil {
		return d.c26DB.CandidateBeacons(ctx, setSize, usage, src)
	}
	if q.lc.spec.DBHonoursCtx {
		if err := ctx.Err(); err != nil {
			d.calls = append(d.calls, c26DBCall{usage: usage, src: src, setSize: setSize, failed: true})
			return nil, err
		}
	}
	res, err := d.c26DB.CandidateBeacons(ctx, setSize, usage, src)
	call := &d.calls[len(d.calls)-1]
	call.pollsAtReturn = q.lc.polls()
	if q.lc.spec.When == c26StoreCancel && q.reads == q.lc.spec.CancelAfterRead {
		q.lc.cancelNow()
	}
	q.reads++
	call.doneAtReturn = q.lc.doneNow()
	return res, err
}

func (d *c26CtxDB) BeaconSources(ctx context.Context) ([]addr.IA, error) {
	if q := d.q; q != nil && q.lc.spec.DBHonoursCtx {
		if err := ctx.Err(); err != nil {
			return nil, err
		}
	}
	return d.c26DB.BeaconSources(ctx)
}

func c26CtxRequire(r *mon.Run) {
	var need []string
	for _, via := range []string{"algo", "history-algo", "store", "core-store"} {
		for _, when := range []string{c26CancelledBefore, c26DeadlineBefore, c26DoneAtPollN} {
			need = append(need, "ctx/"+when+"/"+via)
		}
	}
	need = append(need,
		"ctx/"+c26StoreCancel+"/store", "ctx/"+c26StoreCancel+"/core-store", "ctx/"+c26StoreCancel+"/cancelled",
		"ctx/"+c26CancelledBefore+"/stdlib-context", "ctx/"+c26CancelledBefore+"/custom-context",
		"ctx/"+c26DeadlineBefore+"/stdlib-context", "ctx/"+c26DeadlineBefore+"/custom-context",
		"ctx/"+c26StoreCancel+"/stdlib-context", "ctx/"+c26StoreCancel+"/custom-context",
		"ctx/"+c26DoneAtPollN+"/done-from-the-first-poll")
	for _, b := range []string{"0", "1-9", "10-99", "100+"} {
		need = append(need, fmt.Sprintf("ctx/%s/n=%s/canceled", c26DoneAtPollN, b),
			fmt.Sprintf("ctx/%s/n=%s/deadline-exceeded", c26DoneAtPollN, b))
	}
	r.RequireClasses(need...)
}
