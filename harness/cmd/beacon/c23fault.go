package main

// C23 fault injection at the signing seam: the private key of every
// trust.Signer handed to the extender is wrapped in a crypto.Signer that,
// PRNG-chosen per Extend call and per signer, works normally, always returns a
// "key backend unavailable" error, or returns that error on its first Sign call
// only and works when it is asked again. The oracle stays the statement: an
// Extend that fails after an injected signing error is acceptable (recorded as a
// class), it must not panic, and whenever Extend succeeds the appended entry is
// judged in full, where "the signer used" is the candidate under whose public
// key the entry's signature verifies (see judge in c23.go).

import (
	"crypto"
	"crypto/ecdsa"
	"errors"
	"io"
	"math/rand/v2"
	"sync/atomic"
	"time"
)

const (
	c23FaultNone   = 0
	c23FaultAlways = 1 // every Sign call fails
	c23FaultFirst  = 2 // the first Sign call fails, later ones work
)

var c23FaultNames = []string{"none", "always", "first-call"}

var errC23KeyBackend = errors.New("verif: key backend unavailable")

// c23FaultKey is the crypto.Signer handed to trust.Signer.PrivateKey.
type c23FaultKey struct {
	inner *ecdsa.PrivateKey
	mode  int
	calls atomic.Int32
	fails atomic.Int32
}

func (k *c23FaultKey) Public() crypto.PublicKey { return k.inner.Public() }

func (k *c23FaultKey) Sign(rnd io.Reader, digest []byte, opts crypto.SignerOpts) ([]byte, error) {
	n := k.calls.Add(1)
	if k.mode == c23FaultAlways || (k.mode == c23FaultFirst && n == 1) {
		k.fails.Add(1)
		return nil, errC23KeyBackend
	}
	return k.inner.Sign(rnd, digest, opts)
}

// c23Preferred is the index of the latest-expiring signer among those covering
// [ts, now], -1 if none covers. It is used to aim the faults and to name the
// class of a case; it never decides a verdict (the choice among covering
// signers is not judged).
func c23Preferred(signers []c23SignerCfg, ts, now time.Time) int {
	pref := -1
	for i, s := range signers {
		if !c23Covers(s, ts, now) {
			continue
		}
		if pref < 0 || s.expiration.After(signers[pref].expiration) {
			pref = i
		}
	}
	return pref
}

// c23PlanFaults wraps the key of every signer and draws the fault modes for one
// Extend call. The same amount of the PRNG stream is consumed whatever the
// wall clock or arm say.
func c23PlanFaults(rng *rand.Rand, signers []c23SignerCfg, ts, now time.Time, arm bool) {
	kind := rng.IntN(12)
	var modes [3]int
	var coin [3]bool
	for i := range modes {
		modes[i] = c23FaultAlways + rng.IntN(2)
		coin[i] = rng.IntN(2) == 0
	}
	pref := c23Preferred(signers, ts, now)
	for i := range signers {
		m := c23FaultNone
		if arm {
			switch kind {
			case 0, 1, 2, 3, 4, 5: // no fault
			case 6, 7: // the preferred signer only
				if i == pref {
					m = modes[i]
				}
			case 8: // every signer
				m = modes[i]
			case 9: // every signer but the preferred one
				if i != pref {
					m = modes[i]
				}
			default: // independently per signer
				if coin[i] {
					m = modes[i]
				}
			}
		}
		signers[i].fault = &c23FaultKey{inner: signers[i].key.Priv, mode: m}
	}
}

// c23FaultObs is what the wrappers saw during one Extend call plus the name of
// the case's class, from the oracle's view of the signers at time now.
type c23FaultObs struct {
	armed    bool   // some signer had a fault mode
	fired    bool   // some Sign call returned the injected error
	scenario string // "<which signers fail>/<mode>"
}

func c23ObserveFaults(signers []c23SignerCfg, ts, now time.Time) c23FaultObs {
	var o c23FaultObs
	pref := c23Preferred(signers, ts, now)
	covering, coveringArmed, firstArmed := 0, 0, -1
	for i, s := range signers {
		if s.fault == nil {
			continue
		}
		if s.fault.fails.Load() > 0 {
			o.fired = true
		}
		cov := c23Covers(s, ts, now)
		if cov {
			covering++
		}
		if s.fault.mode != c23FaultNone {
			o.armed = true
			if firstArmed < 0 {
				firstArmed = i
			}
			if cov {
				coveringArmed++
			}
		}
	}
	if !o.armed {
		return o
	}
	which, modeOf := "", firstArmed
	switch {
	case pref < 0:
		which = "no-covering-signer"
	case signers[pref].fault.mode == c23FaultNone && coveringArmed > 0:
		which = "nonpreferred-fails"
	case signers[pref].fault.mode == c23FaultNone:
		which = "noncovering-fails"
	case covering == 1:
		which, modeOf = "only-covering-fails", pref
	case coveringArmed == covering:
		which, modeOf = "all-fail", pref
	default:
		which, modeOf = "preferred-fails", pref
	}
	o.scenario = which + "/" + c23FaultNames[signers[modeOf].fault.mode]
	return o
}

// faultClass records a class of the fault dimension, and as an event too: the
// evidence lists all event types with their counts, of the classes only a sample.
func (c *c23Ctx) faultClass(k string) {
	c.r.Class(k)
	c.r.Event(k)
}
