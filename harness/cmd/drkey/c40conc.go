package main

import (
	"context"
	"crypto/sha256"
	"fmt"
	"net"
	"net/netip"
	"runtime"
	"sync"
	"sync/atomic"
	"time"

	"google.golang.org/grpc/peer"
	"google.golang.org/protobuf/types/known/timestamppb"

	dkgrpc "github.com/scionproto/scion/control/drkey/grpc"
	"github.com/scionproto/scion/pkg/addr"
	"github.com/scionproto/scion/pkg/drkey"
	cppb "github.com/scionproto/scion/pkg/proto/control_plane"
	dkpb "github.com/scionproto/scion/pkg/proto/drkey"

	"verif/mon"
)

// Concurrent phase of C40: groups of individually entitled requests that
// differ in one field (the named local host, the remote host, the protocol,
// the second of the validity time, the RPC) are issued at the same time
// against one server whose engine is slow (every derivation waits at a gate
// until the whole group has been launched). Each requester must receive the
// key derived for exactly the parameters IT named - a key that names another
// host is a key handed to a host that is not named in it.

// c40GateEngine derives a key that is a function of the derivation parameters
// only, and holds every derivation at a gate.
type c40GateEngine struct {
	gate    atomic.Pointer[chan struct{}]
	entered atomic.Int64
}

func c40KeyOf(method string, proto uint16, val time.Time, src, dst addr.IA, srcHost, dstHost string) drkey.Key {
	h := sha256.Sum256([]byte(fmt.Sprintf("%s|%d|%d|%d|%d|%s|%s", method, proto, val.Unix(), uint64(src), uint64(dst), srcHost, dstHost)))
	var k drkey.Key
	copy(k[:], h[:16])
	return k
}

func (e *c40GateEngine) wait() {
	e.entered.Add(1)
	if g := e.gate.Load(); g != nil {
		<-*g
	}
}

func (e *c40GateEngine) GetSecretValue(_ context.Context, m drkey.SecretValueMeta) (drkey.SecretValue, error) {
	e.wait()
	return drkey.SecretValue{Epoch: drkey.NewEpoch(1000, 2000), ProtoId: m.ProtoId,
		Key: c40KeyOf("SV", uint16(m.ProtoId), m.Validity, 0, 0, "", "")}, nil
}

func (e *c40GateEngine) GetLevel1Key(_ context.Context, m drkey.Level1Meta) (drkey.Level1Key, error) {
	e.wait()
	return drkey.Level1Key{Epoch: drkey.NewEpoch(1000, 2000), ProtoId: m.ProtoId, SrcIA: m.SrcIA, DstIA: m.DstIA,
		Key: c40KeyOf("L1", uint16(m.ProtoId), m.Validity, m.SrcIA, m.DstIA, "", "")}, nil
}

func (e *c40GateEngine) DeriveLevel1(ctx context.Context, m drkey.Level1Meta) (drkey.Level1Key, error) {
	return e.GetLevel1Key(ctx, m)
}

func (e *c40GateEngine) DeriveASHost(_ context.Context, m drkey.ASHostMeta) (drkey.ASHostKey, error) {
	e.wait()
	return drkey.ASHostKey{Epoch: drkey.NewEpoch(1000, 2000), ProtoId: m.ProtoId, SrcIA: m.SrcIA, DstIA: m.DstIA, DstHost: m.DstHost,
		Key: c40KeyOf("ASHost", uint16(m.ProtoId), m.Validity, m.SrcIA, m.DstIA, "", m.DstHost)}, nil
}

func (e *c40GateEngine) DeriveHostAS(_ context.Context, m drkey.HostASMeta) (drkey.HostASKey, error) {
	e.wait()
	return drkey.HostASKey{Epoch: drkey.NewEpoch(1000, 2000), ProtoId: m.ProtoId, SrcIA: m.SrcIA, DstIA: m.DstIA, SrcHost: m.SrcHost,
		Key: c40KeyOf("HostAS", uint16(m.ProtoId), m.Validity, m.SrcIA, m.DstIA, m.SrcHost, "")}, nil
}

func (e *c40GateEngine) DeriveHostHost(_ context.Context, m drkey.HostHostMeta) (drkey.HostHostKey, error) {
	e.wait()
	return drkey.HostHostKey{Epoch: drkey.NewEpoch(1000, 2000), ProtoId: m.ProtoId, SrcIA: m.SrcIA, DstIA: m.DstIA,
		SrcHost: m.SrcHost, DstHost: m.DstHost,
		Key: c40KeyOf("HostHost", uint16(m.ProtoId), m.Validity, m.SrcIA, m.DstIA, m.SrcHost, m.DstHost)}, nil
}

type c40ConcReq struct {
	RPC              string    `json:"rpc"`
	Proto            uint16    `json:"proto"`
	Time             time.Time `json:"time"`
	SrcIA            addr.IA   `json:"src_ia"`
	DstIA            addr.IA   `json:"dst_ia"`
	SrcHost, DstHost string
	Peer             string `json:"requester"`
	GotKey           string `json:"got_key,omitempty"`
	WantKey          string `json:"want_key,omitempty"`
	Err              string `json:"err,omitempty"`
}

func c40ConcurrentPhase(r *mon.Run, local addr.IA) {
	rng := r.Rand("c40-conc")
	eng := &c40GateEngine{}
	srv := &dkgrpc.Server{LocalIA: local, ClientCertificateVerifier: c40Verifier{}, Engine: eng}
	remote := addr.MustIAFrom(2, 0xff00_0000_0210)
	locals := []string{"10.0.0.1", "10.0.0.2", "10.0.1.1", "2001:db8::1", "2001:db8::2"}
	remotes := []string{"192.0.2.1", "192.0.2.2", "2001:db8:ffff::9"}
	nGroups := r.Pick(1500, 30000)
	for g := 0; g < nGroups; g++ {
		base := c40ConcReq{Proto: []uint16{1, 7, 0x0100}[rng.IntN(3)],
			Time: time.Unix(int64(1_600_000_000+rng.IntN(400_000_000)), 0).UTC()}
		shape := []string{"hosthost-dst-local", "hosthost-src-local", "ashost", "hostas", "mixed"}[rng.IntN(5)]
		k := 2 + rng.IntN(3)
		vary := []string{"local-host", "local-host", "local-host", "remote-host", "proto", "time", "duplicate"}[rng.IntN(7)]
		rh := remotes[rng.IntN(len(remotes))]
		lh0 := rng.IntN(len(locals))
		var reqs []c40ConcReq
		for i := 0; i < k; i++ {
			q := base
			lh := locals[lh0]
			switch vary {
			case "local-host":
				lh = locals[(lh0+i)%len(locals)]
			case "remote-host":
				rh = remotes[i%len(remotes)]
			case "proto":
				q.Proto = []uint16{1, 7, 0x0100, 2}[i%4]
			case "time":
				q.Time = base.Time.Add(time.Duration(i) * time.Second)
			}
			sh := shape
			if shape == "mixed" {
				sh = []string{"hosthost-dst-local", "hosthost-src-local", "ashost", "hostas"}[rng.IntN(4)]
			}
			q.Peer = lh
			switch sh {
			case "hosthost-dst-local":
				q.RPC, q.SrcIA, q.DstIA, q.SrcHost, q.DstHost = "HostHost", remote, local, rh, lh
			case "hosthost-src-local":
				q.RPC, q.SrcIA, q.DstIA, q.SrcHost, q.DstHost = "HostHost", local, remote, lh, rh
			case "ashost":
				q.RPC, q.SrcIA, q.DstIA, q.DstHost = "ASHost", remote, local, lh
			case "hostas":
				q.RPC, q.SrcIA, q.DstIA, q.SrcHost = "HostAS", local, remote, lh
			}
			reqs = append(reqs, q)
		}
		gate := make(chan struct{})
		eng.gate.Store(&gate)
		eng.entered.Store(0)
		var wg sync.WaitGroup
		var launched atomic.Int64
		keys := make([][]byte, k)
		errs := make([]error, k)
		pans := make([]string, k)
		for i := range reqs {
			wg.Add(1)
			go func(i int) {
				defer wg.Done()
				q := reqs[i]
				ctx := peer.NewContext(context.Background(),
					&peer.Peer{Addr: &net.TCPAddr{IP: net.IP(netip.MustParseAddr(q.Peer).AsSlice()), Port: 40000 + i}})
				vt := timestamppb.New(q.Time)
				launched.Add(1)
				pv, stack := mon.Try(func() {
					switch q.RPC {
					case "HostHost":
						rep, err := srv.DRKeyHostHost(ctx, &cppb.DRKeyHostHostRequest{ValTime: vt, ProtocolId: dkpb.Protocol(q.Proto),
							SrcIa: uint64(q.SrcIA), DstIa: uint64(q.DstIA), SrcHost: q.SrcHost, DstHost: q.DstHost})
						if errs[i] = err; rep != nil {
							keys[i] = rep.Key
						}
					case "ASHost":
						rep, err := srv.DRKeyASHost(ctx, &cppb.DRKeyASHostRequest{ValTime: vt, ProtocolId: dkpb.Protocol(q.Proto),
							SrcIa: uint64(q.SrcIA), DstIa: uint64(q.DstIA), DstHost: q.DstHost})
						if errs[i] = err; rep != nil {
							keys[i] = rep.Key
						}
					case "HostAS":
						rep, err := srv.DRKeyHostAS(ctx, &cppb.DRKeyHostASRequest{ValTime: vt, ProtocolId: dkpb.Protocol(q.Proto),
							SrcIa: uint64(q.SrcIA), DstIa: uint64(q.DstIA), SrcHost: q.SrcHost})
						if errs[i] = err; rep != nil {
							keys[i] = rep.Key
						}
					}
				})
				if pv != nil {
					pans[i] = fmt.Sprintf("%v\n%s", pv, stack)
				}
			}(i)
		}
		// Open the gate once every request is under way: all derivations have
		// reached the engine, or (requests that never reach it, e.g. refused or
		// waiting on another request) after a few scheduler rounds. Scheduling
		// only decides what is exposed, never the verdict.
		for spin := 0; eng.entered.Load() < int64(k) && spin < 200; spin++ {
			if launched.Load() == int64(k) && spin > 20 {
				time.Sleep(20 * time.Microsecond)
			}
			runtime.Gosched()
		}
		overlapped := eng.entered.Load()
		close(gate)
		wg.Wait()
		for i := range reqs {
			q := &reqs[i]
			want := c40KeyOf(q.RPC, q.Proto, q.Time, q.SrcIA, q.DstIA, q.SrcHost, q.DstHost)
			q.WantKey = mon.Hex(want[:])
			q.GotKey = mon.Hex(keys[i])
			if errs[i] != nil {
				q.Err = errs[i].Error()
			}
		}
		r.Class(fmt.Sprintf("concurrent/%s/vary=%s", shape, vary))
		if overlapped >= 2 {
			r.Event("concurrent_group_overlapped")
		}
		r.Event("concurrent_group")
		for i := range reqs {
			q := reqs[i]
			r.Eval(1)
			switch {
			case pans[i] != "":
				r.Violation("C40:panic:"+mon.PanicSite(pans[i]), "handler panicked under concurrent requests: "+pans[i], reqs)
			case errs[i] != nil || keys[i] == nil:
				r.Violation("C40:concurrent:"+q.RPC+":refused-entitled", fmt.Sprintf("the entitled request %d of a concurrent group was refused: %v", i, errs[i]), reqs)
			case q.GotKey != q.WantKey:
				r.Violation("C40:concurrent:"+q.RPC+":wrong-key-served/vary="+vary,
					fmt.Sprintf("request %d (%s, requester %s, src host %q, dst host %q) received a key derived for other parameters than it named", i, q.RPC, q.Peer, q.SrcHost, q.DstHost), reqs)
			default:
				r.Event("concurrent_served_own_key")
			}
		}
		if r.WantSample() && g%499 == 3 {
			r.Sample(map[string]any{"part": "concurrent", "shape": shape, "vary": vary, "derivations_overlapping": overlapped, "requests": reqs})
		}
	}
}
