// Command drkey serves the DRKey derivation and authorization properties
// (C39, C40).
package main

import "verif/mon"

func main() {
	mon.Main(map[string]func(*mon.Run){
		"C39": checkC39,
		"C40": checkC40,
	})
}
